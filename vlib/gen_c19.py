"""Input classes added to the C19 check by the generator audit (audit/C19/AUDIT.md).

Everything here is a deterministic function of the `rng` handed in (vlib.common.Rng).  A document is the
tree props/c19.py uses: a list of (field name, kind, payload) in the declared order of the harness struct
`Doc`; `G` is the props.c19 module (its tables and value generators are reused, nothing is duplicated).

The oracle stays the one of props/c19.py (round trip + CPython json); the only addition is the round trip
of a WELL-TYPED property list through JSON::to_json_string / JSON::parse_as_properties (`typed_props`)."""
import struct

# ------------------------------------------------------------------ strings
# printable text without quotation mark and backslash (the property's quantifier): brackets and non-ASCII characters at every
# nesting position since the fixes F24d (whole UTF-8 characters) and F24f (string flag of the nesting counters)
LITERAL_LIKE = ['null', 'true', 'false', 'nul', 'nulll', 'NULL', 'Null', 'None', 'nil', 'n', 't', 'f', 'tru', 'fals', 'True', 'FALSE',
                '0', '1', '-1', '-', '+', '+1', '1.5', '-0.0', '0.0', '1e5', '1E5', '-1e-5', 'e', 'E', '.', '.5', '1.', '1..2', '--1',
                'NaN', 'nan', 'inf', '-inf', 'Infinity', '0x10', '007', '1_000', '170141183460469231731687303715884105728',
                '340282366920938463463374607431768211456', '1e400', 'undefined', 'String', 'bool', 'i128', 'f64', 'object', 'array']
PUNCT_LIKE = [',', ', ', ' ,', ',,', ',a', 'a,', ':', ': ', ' :', '::', ':a', 'a:', 'a:b', 'a: b', 'k: v, k2: v2', 's1: x', 'a,b', 'a, b',
              ';', "'", "''", "'a'", '`', '/', '//', '/* c */', '// c', '#', '<!--', '&amp;', '&', '%', '%s', '%20', '%22', '$', '${x}',
              '@', '!', '?', '*', '~', '^', '|', '=', '==', '+', '_', '()', '(', ')', '<>', '<', '>', 'a=b&c=d', 'http://h/p?q=1#f']
SPACE_LIKE = [' ', '  ', '   ', ' a', 'a ', ' a ', '  a  ', 'a b', 'a  b', ' , ', ' : ', ' - ', ' 1', '1 ', ' null ', ' true', 'false ']
BRACKET_LIKE = ['{', '}', '[', ']', '{}', '[]', '}{', '][', '[1,2]', '{a: 1}', 'a]', 'a}', '[a', '{a', ']]', '}}', '[[', '{{']

# one character of every encoded length (2, 3, 4 bytes; first and last scalar of each length; White_Space and numeric scalars, which
# the scanners treat specially OUTSIDE strings; a combining mark; scalars whose bytes contain 0x22 / 0x5c / bracket values are
# impossible in UTF-8, but continuation bytes 0x80..0xbf and lead bytes are covered by the boundaries)
MB2 = ['\u0080', 'é', 'ß', 'я', '\u00a0', '\u0085', '\u07ff', '½', '٣', '\u0301']
MB3 = ['\u0800', '€', '漢', '\u3000', '\u2028', '\ud7ff', '\ue000', '\uffff', '\ufeff', '③', '\u1680']
MB4 = ['\U00010000', '\U0001F600', '\U0010FFFF', '\U0001D7D8', '\U00020000']
BRACKETS = ['{', '}', '[', ']']
JSON_LIKE = ['{a: 1}', '[1,2]', '{}', '[]', '{k: [1, {y: 2}]}', '[{}]', '{[}]', '}{', '][', '[[[', ']]]', '{{{', '}}}', '[}', '{]', '}]', '],[', '},{',
             ',]', ',}', ':{', ':[', '[ ', ' ]', '{ ', ' }', 'null]', 'true}', '1]', '-1}', '[null', '{true']

def positions(ch, rng=None):
    """the character first / in the middle / last / alone / doubled / around a blank"""
    return [ch, ch + 'ab', 'a' + ch + 'b', 'ab' + ch, ch + ch, ch + ' ' + ch, ' ' + ch, ch + ' ']

def multibyte_strings():
    out = []
    for ch in MB2 + MB3 + MB4: out += positions(ch)
    out += ['é€\U0001F600', '\U0001F600€é', 'a\U0001F600b€cé', 'é' * 7, '€' * 5, '\U0001F600' * 3, 'Ελληνικά', 'кириллица', '日本語のテキスト', 'مرحبا', 'e\u0301']
    return out

def bracket_strings():
    out = []
    for ch in BRACKETS: out += positions(ch)
    out += JSON_LIKE
    # combinations: a bracket right after the opening quote, a non-ASCII character right before the closing quote, and the reverse
    for b in BRACKETS:
        for ch in ('é', '€', '\U0001F600'):
            out += [b + ch, ch + b, b + 'x' + ch, ch + 'x' + b, b + ch + b]
    return out

def special_strings():
    return LITERAL_LIKE + PUNCT_LIKE + SPACE_LIKE

def long_lengths(quick):
    return [64, 255, 256, 1000, 4097] if quick else [64, 100, 127, 128, 129, 255, 256, 257, 511, 512, 1000, 1023, 1024, 1025, 4095, 4096, 4097, 8191, 8192, 8193, 10000, 16385, 20000, 65537]

def long_string(rng, G, n):
    k = rng.below(3)
    if k == 0: return 'x' * n
    if k == 1: return ''.join(rng.choice(G.PLAIN) for _ in range(n))
    return (' ' + 'ab, c: d ' * (n // 9 + 1))[:n - 1] + ' '

# ------------------------------------------------------------------ numbers
def int_boundaries(lo, hi):
    """every power of two and of ten with its neighbours, both signs, inside [lo, hi]"""
    out = set([lo, hi, lo + 1, hi - 1, 0])
    for k in range(0, 129):
        for d in (-1, 0, 1):
            for s in (1, -1):
                out.add(s * ((1 << k) + d))
    for k in range(0, 40):
        for d in (-1, 0, 1):
            for s in (1, -1):
                out.add(s * (10 ** k + d))
    return sorted(v for v in out if lo <= v <= hi)

def chunks(xs, n):
    return [xs[i:i + n] for i in range(0, len(xs), n)]

def bits_f64(b): return struct.unpack('>d', struct.pack('>Q', b))[0]
def f64_bits(x): return struct.unpack('>Q', struct.pack('>d', x))[0]

def f64_boundaries():
    out = []
    for k in (-1074, -1073, -1060, -1024, -1023, -1022, -1021, -537, -149, -127, -126, -64, -53, -52, -24, -14, -13, -10, -1, 0, 1, 2, 10, 23, 24,
              31, 32, 52, 53, 54, 62, 63, 64, 65, 100, 126, 127, 128, 129, 255, 256, 511, 1022, 1023):
        x = 2.0 ** k
        b = f64_bits(x)
        out += [x, bits_f64(b + 1)] + ([bits_f64(b - 1)] if b > 1 else [])
    out += [bits_f64(0x000fffffffffffff), bits_f64(0x0010000000000000), bits_f64(0x7fefffffffffffff), bits_f64(0x7feffffffffffffe),
            9007199254740991.0, 9007199254740992.0, 9007199254740994.0, 1e22, 1e23, 9.999999999999999e22, 1.0000000000000001e23,
            1e-4, 1e-5, 9.999e-5, 0.0001234, 1.2e-7, 2.5e-9, 1e-7, 1e15, 1e16, 9999999999999998.0, 123456789012345678.0,
            1.7014118346046923e38, 1.7014118346046924e38, 3.4028236692093846e38, 3.402823669209385e38, 1e38, 1e39, 0.1 + 0.2, 1.1, 2.5, 1e-300, 1e-310,
            4.9406564584124654e-324, 2.2250738585072009e-308, 8.98846567431158e307, 0.3, 0.7, 100.5, 1e0, 12345.678, 0.000001]
    return out + [-x for x in out]

F32_SPECIAL_BITS = [0x00000000, 0x80000000, 0x00000001, 0x00000002, 0x007fffff, 0x00800000, 0x00800001, 0x7f7fffff, 0x7f7ffffe, 0x3f800000,
                    0x3f800001, 0x3f7fffff, 0x3dcccccd, 0x3e4ccccd, 0x3eaaaaab, 0x3f2aaaab, 0x4b800000, 0x4b7fffff, 0x4b800001, 0x4f000000,
                    0x5f000000, 0x7f000000, 0x38d1b717, 0x3727c5ac, 0x33d6bf95, 0x5a0e1bca, 0x5cb1a2bc, 0x501502f9, 0x41200000, 0x42c80000,
                    0x40490fdb, 0x402df854, 0x3a83126f, 0x322bcc77, 0x0d000000, 0x00000100, 0x3f000000, 0x40000000, 0x461c4000, 0x47c35000]

def f32_special_lists():
    pos = F32_SPECIAL_BITS
    neg = [b | 0x80000000 for b in pos if b != 0x80000000]
    f = lambda b: struct.unpack('>f', struct.pack('>I', b))[0]
    out = [[f(b)] for b in pos + neg]
    out += [[f(b) for b in c] for c in chunks(pos + neg, 16)]
    out += [[f(a), f(b), f(a)] for a, b in [(0x3f800000, 0x40000000), (0x00000000, 0x3f800000), (0x80000000, 0x3f800000), (0x3dcccccd, 0x322bcc77), (0xb8d1b717, 0x38d1b717)]]
    out += [[f(0x3f800000)] * n for n in (2, 3, 64)] + [[f(0x80000000)] * 2, [f(0x80000000), f(0)], [f(0), f(0x80000000)]]
    return out

# ------------------------------------------------------------------ documents
def order(G, fields):
    """fields: dict name -> payload; result in the declared order with the declared kinds"""
    return [(name, kind, fields[name]) for name, kind in G.DOC_FIELDS if name in fields]

def simple_values(G, kind):
    """a few plain payloads of a field kind (first one is the 'typical' one)"""
    if kind == 's': return ['text', '', 'with, comma: colon', ' pad ', 'null']
    if kind == 'b': return [True, False]
    if kind == 'i': return [7, 0, -1, G.INT_TYPES['i128'][0], G.INT_TYPES['i128'][1]]
    if kind == 'f': return [0.5, 0.0, -2.0, 1e21, 0.1, 5e-324]
    if kind == 'o': return [[('i1', 'i', 3)], [], [('s2', 's', 'v')], [('b1', 'b', False), ('f2', 'f', -1.25)]]
    if kind == 'Aobj': return [[[('b1', 'b', True)], []], [], [[]], [[('s1', 's', 'a')], [('s1', 's', 'a')]]]
    if kind == 'Abool': return [[False, True], [], [True], [False]]
    if kind == 'Astr': return [['a', 'b c'], [], [''], ['', '']]
    if kind == 'Af64': return [[-0.25, 3.0], [], [1.5], [1e21, 1e-7]]
    if kind == 'Anull': return [3, 0, 1, 2]
    lo, hi = G.INT_TYPES[kind[1:]]
    return [[1, 2, 3] if lo == 0 else [-1, 0, 1], [], [lo], [hi], [lo, hi]]

def docs_field_positions(rng, G, quick):
    """every field alone (every plain payload); every pair of fields (so every kind is first, last, and next to every other kind);
    every field missing from an otherwise complete document"""
    out = []
    kinds = dict(G.DOC_FIELDS)
    for name, kind in G.DOC_FIELDS:
        for v in simple_values(G, kind): out.append(order(G, {name: v}))
    names = [n for n, _ in G.DOC_FIELDS]
    for i, a in enumerate(names):
        for b in names[i + 1:]:
            va, vb = simple_values(G, kinds[a]), simple_values(G, kinds[b])
            out.append(order(G, {a: va[0] if rng.chance(1, 2) else rng.choice(va), b: vb[0] if rng.chance(1, 2) else rng.choice(vb)}))
    full = {n: simple_values(G, k)[0] for n, k in G.DOC_FIELDS}
    out.append(order(G, full))
    for n in names:
        out.append(order(G, {k: v for k, v in full.items() if k != n}))
    # a run of present fields in the middle only / at both ends only
    for lo_, hi_ in [(1, 24), (5, 20), (10, 15), (12, 13)]:
        out.append(order(G, {n: full[n] for n in names[lo_:hi_]}))
        out.append(order(G, {n: full[n] for n in names[:lo_] + names[hi_:]}))
    return out

def rich_level(rng, G, child_fields):
    """a level with scalar fields before and after the links and a few arrays"""
    d = {'s1': rng.choice(['lvl', 'a, b', ' x', '']), 'b1': rng.chance(1, 2), 'i1': G.gen_int(rng, *G.INT_TYPES['i128']), 'f1': G.gen_f64(rng),
         'ai8': [G.gen_int(rng, -128, 127) for _ in range(rng.range(0, 3))], 'au128': [G.gen_int(rng, 0, 2**128 - 1) for _ in range(rng.range(0, 2))],
         'ab': [rng.chance(1, 2) for _ in range(rng.range(0, 3))], 'astr': [G.gen_str(rng, 'plain') for _ in range(rng.range(0, 3))],
         'af': [G.gen_f64(rng) for _ in range(rng.range(0, 2))], 'an': rng.range(0, 2),
         's2': rng.choice(['end', 'k: v', 'true']), 'b2': rng.chance(1, 2), 'i2': G.gen_int(rng, -1000, 1000), 'f2': G.gen_f64(rng)}
    d.update(child_fields)
    return d

def docs_deep(rng, G, quick):
    """nesting depth 0..4 through every link kind (o1, o2, ao and mixtures), bare and with a full set of fields on every level;
    complete trees (o1, o2 and two array elements on every level)"""
    out = []
    routes = [('o1',), ('o2',), ('ao',), ('o1', 'ao'), ('ao', 'o2'), ('o1', 'o2', 'ao'), ('o1', 'o2')]
    for depth in range(0, 5):
        for route in routes:
            for rich in (False, True):
                cur = rich_level(rng, G, {}) if rich else {}
                for lvl in range(depth, 0, -1):
                    link = route[(lvl - 1) % len(route)]
                    child = order(G, cur)
                    if link == 'ao':
                        sib = order(G, rich_level(rng, G, {})) if rich and rng.chance(1, 2) else []
                        links = {'ao': rng.choice([[child], [child, sib], [sib, child], [sib, child, sib]])}
                    else:
                        links = {link: child}
                    cur = rich_level(rng, G, links) if rich else links
                out.append(order(G, cur))
    def tree(depth, rich):
        leaf = {'i1': depth, 's2': 'd%d' % depth} if rich else {}
        if depth == 0: return order(G, leaf)
        c = tree(depth - 1, rich)
        leaf.update({'o1': c, 'o2': c, 'ao': [c, c]})
        return order(G, leaf)
    for depth in range(1, 4 if quick else 5):
        out.append(tree(depth, False)); out.append(tree(depth, True))
    if quick:      # depth 4 through two of the three links on every level (the complete tree has 4^4 leaves: thorough tier)
        def tree2(depth):
            if depth == 0: return order(G, {'b1': True})
            c = tree2(depth - 1)
            return order(G, {'o1': c, 'ao': [c, []], 'f2': float(depth)})
        out.append(tree2(4))
    return out

def small_doc(rng, G):
    k = rng.below(6)
    if k == 0: return []
    if k == 1: return order(G, {'i1': rng.range(-9, 9)})
    if k == 2: return order(G, {'s1': G.gen_str(rng, 'plain')})
    if k == 3: return order(G, {'b1': rng.chance(1, 2), 'f2': G.gen_f64(rng)})
    if k == 4: return order(G, {'au8': [rng.range(0, 255) for _ in range(rng.range(0, 3))], 's2': 'z'})
    return order(G, {'o1': order(G, {'i2': rng.range(0, 5)}), 'an': rng.range(0, 2)})

def docs_object_arrays(rng, G, quick):
    """arrays of objects of every length up to 64 (the random documents stop at 3), equal elements, empty elements"""
    out = []
    lens = [4, 5, 7, 8, 15, 16, 17, 31, 32, 33, 63, 64] if quick else list(range(0, 65))
    for n in lens:
        out.append(order(G, {'ao': [small_doc(rng, G) for _ in range(n)]}))
        if not quick or n in (4, 64): out.append(order(G, {'s1': 'head', 'ao': [small_doc(rng, G) for _ in range(n)], 'i2': -n}))
    for n in (1, 2, 3, 4, 64):
        out.append(order(G, {'ao': [[] for _ in range(n)]}))
        e = order(G, {'i1': 1, 's2': 'same'})
        out.append(order(G, {'ao': [e for _ in range(n)]}))
    a, b = order(G, {'i1': 1}), order(G, {'i1': 2})
    for pat in ([a, b, a], [a, a, b], [a, b, b], [a, [], a], [[], a, []], [a, b, a, b, a]):
        out.append(order(G, {'ao': list(pat)}))
    # an array of objects inside an element of an array of objects (the separator of the outer array occurs inside the elements)
    inner = order(G, {'ao': [a, b, a]})
    out.append(order(G, {'ao': [inner, inner]}))
    out.append(order(G, {'ao': [order(G, {'ao': [inner, []], 'i2': 5}), inner, []]}))
    return out

def docs_strings(rng, G, quick):
    """strings that look like other JSON tokens, punctuation of the format, blanks at the ends, every printable character at the
    first / last position, long strings - as the first field, the last field, inside a nested object, inside an element of an array of
    objects and as elements of a string array"""
    out = []
    def everywhere(s, nested_ok=True):
        d = {'s1': s, 's2': s}
        if nested_ok:
            d['o1'] = order(G, {'s1': s, 'i2': 1}); d['astr'] = [s, 'mid', s]; d['ao'] = [order(G, {'s2': s}), order(G, {'b1': True, 's2': s})]
        return order(G, d)
    def deep(s):
        """the string at every nesting position: first / last field, nested object (depth 1 and 2), element of a string array (top level,
        inside a nested object, inside an element of an array of objects), field of an element of an array of objects (also
        of one nested in a nested object, and of an array of objects inside an element)"""
        leaf = order(G, {'s1': s, 'astr': [s], 's2': s})
        mid = order(G, {'s1': s, 'o1': leaf, 'astr': ['a', s], 'ao': [leaf, order(G, {'s2': s})], 'o2': order(G, {'s2': s})})
        return order(G, {'s1': s, 'o1': mid, 'astr': [s, 'mid', s], 'ao': [order(G, {'s2': s}), mid, order(G, {'astr': [s, s]})], 's2': s, 'o2': leaf})
    for s in special_strings():
        out.append(order(G, {'s1': s})); out.append(everywhere(s))
        if rng.chance(1, 3): out.append(order(G, {'b1': True, 'astr': [s]}))
    for s in BRACKET_LIKE:
        out.append(order(G, {'s1': s})); out.append(everywhere(s))
    for s in bracket_strings() + multibyte_strings():
        out.append(order(G, {'s1': s})); out.append(order(G, {'astr': [s]})); out.append(order(G, {'o1': order(G, {'s1': s})}))
        out.append(order(G, {'ao': [order(G, {'s1': s})]})); out.append(everywhere(s)); out.append(deep(s))
    for c in G.PRINTABLE:
        d = {'s1': c, 's2': 'x' + c}
        d['astr'] = [c, c + 'x', 'x' + c]; d['o2'] = order(G, {'s1': c + c, 's2': c + 'x' + c})
        out.append(order(G, d))
    for n in long_lengths(quick):
        s = long_string(rng, G, n)
        out.append(order(G, {'s1': s, 'i1': 1}))
        out.append(order(G, {'b1': False, 'astr': ['a', s, 'b'], 'o2': order(G, {'s2': s})}))
    # twins: the same value in two fields / two arrays with the same text
    same = [1, 2, 3]
    out.append(order(G, {'s1': 'twin', 's2': 'twin', 'b1': True, 'b2': True, 'i1': 5, 'i2': 5, 'f1': 2.5, 'f2': 2.5}))
    out.append(order(G, {'s1': '', 's2': '', 'b1': False, 'b2': False, 'i1': 0, 'i2': 0, 'f1': 0.0, 'f2': 0.0}))
    o = order(G, {'i1': 1, 's2': 'o'})
    out.append(order(G, {'o1': o, 'o2': o, 'ao': [o, o]}))
    out.append(order(G, {'o1': [], 'o2': [], 'ao': [[], []]}))
    for v in (same, [], [0], [0, 0]):
        out.append(order(G, {n: list(v) for n, k in G.DOC_FIELDS if k.startswith('Ai') or k.startswith('Au')}))
    return out

def docs_numbers(rng, G, quick, f64s):
    """integer fields at every power of two / ten and neighbours; float fields at the boundaries of f64_boundaries()"""
    out = []
    b = int_boundaries(*G.INT_TYPES['i128'])
    if quick:
        must = [v for v in b if abs(v) in (0, 1, 9, 10, 127, 128, 255, 256, 2**31, 2**32, 2**53, 2**63 - 1, 2**63, 2**63 + 1, 2**64 - 1, 2**64, 2**64 + 1,
                                            10**18, 10**19, 10**20, 2**126, 2**127 - 1, 2**127, 10**38)]
        rest = [v for v in b if v not in must]
        rng.shuffle(rest)
        b = must + rest[:120]
    for pair in chunks(b, 2):
        out.append(order(G, {'i1': pair[0], 'i2': pair[-1]}))
    fs = list(f64s)
    if quick:
        rng.shuffle(fs); fs = fs[:120]
    for pair in chunks(fs, 2):
        out.append(order(G, {'f1': pair[0], 'f2': pair[-1], 'af': [pair[-1], pair[0]]}))
    return out

def dense_doc(rng, G, depth, p):
    """like the random documents of props/c19.py, but the nested levels are as full as the top level (there: at most 3 in 10)"""
    d = {}
    for name, kind in G.DOC_FIELDS:
        if not rng.chance(p, 10): continue
        if kind == 's': d[name] = G.gen_str(rng, 'plain')
        elif kind == 'b': d[name] = rng.chance(1, 2)
        elif kind == 'i': d[name] = G.gen_int(rng, *G.INT_TYPES['i128'])
        elif kind == 'f': d[name] = G.gen_f64(rng)
        elif kind == 'o':
            if depth > 0: d[name] = dense_doc(rng, G, depth - 1, p)
        elif kind == 'Aobj':
            if depth > 0: d[name] = [dense_doc(rng, G, depth - 1, p) for _ in range(rng.range(0, 3))]
        elif kind == 'Abool': d[name] = [rng.chance(1, 2) for _ in range(rng.range(0, 4))]
        elif kind == 'Astr': d[name] = [G.gen_str(rng, 'plain') for _ in range(rng.range(0, 4))]
        elif kind == 'Af64': d[name] = [G.gen_f64(rng) for _ in range(rng.range(0, 4))]
        elif kind == 'Anull': d[name] = rng.range(0, 4)
        else: d[name] = [G.gen_int(rng, *G.INT_TYPES[kind[1:]]) for _ in range(rng.range(0, 4))]
    return order(G, d)

def docs_dense(rng, G, quick):
    out = []
    for i in range(12 if quick else 150):
        out.append(dense_doc(rng, G, 1 + i % 2, rng.choice([6, 8, 10])))
    for i in range(4 if quick else 40):
        out.append(dense_doc(rng, G, 3, 4))
    return out

def docs_triples(rng, G):
    """thorough tier: every triple of fields (first / middle / last of every kind)"""
    out = []
    kinds = dict(G.DOC_FIELDS)
    names = [n for n, _ in G.DOC_FIELDS]
    for i in range(len(names)):
        for j in range(i + 1, len(names)):
            for k in range(j + 1, len(names)):
                out.append(order(G, {n: rng.choice(simple_values(G, kinds[n])) for n in (names[i], names[j], names[k])}))
    return out

def extra_docs(rng, G, quick):
    f64s = f64_boundaries()
    return (docs_field_positions(rng.fork('pos'), G, quick) + docs_deep(rng.fork('deep'), G, quick) + docs_object_arrays(rng.fork('ao'), G, quick)
            + docs_strings(rng.fork('str'), G, quick) + docs_numbers(rng.fork('num'), G, quick, f64s) + docs_dense(rng.fork('dense'), G, quick)
            + ([] if quick else docs_triples(rng.fork('triples'), G)))

# ------------------------------------------------------------------ other layouts of valid texts (model comparison only: not what the writer produces)
def relayout_object(t):
    """the library's own layout is `{CRLF  "k": v,CRLF ... CRLF}`; the same document with other line ends and spacing"""
    return [t.replace('\r\n', '\n'), t.replace('\r\n', '\r'), t.replace('\r\n', ''), t.replace('\r\n', '\r\n\r\n'), t.replace('\r\n  ', '\r\n\t'),
            t.replace('\r\n  ', '\r\n'), t.replace('": ', '":'), t.replace('": ', '" : '), t.replace('": ', '":\r\n    '), t.replace(',\r\n', ' ,\r\n'),
            ' ' + t, t + ' ', '\r\n' + t + '\r\n', '\ufeff' + t, t.replace('\r\n', ' ').replace('  ', ' ')]

def relayout_array(t):
    return [t.replace(',', ', '), t.replace(',', ' ,'), t.replace(',', ' , '), t.replace(',', ',\r\n'), t.replace(',', ',\n'), t.replace(',', ',\t'),
            t.replace('[', '[ ', 1), t[:-1] + ' ]' if t.endswith(']') else t, ' ' + t, t + ' ', t + '\r\n', '\r\n' + t, '[\r\n' + t[1:], t[:-1] + '\r\n]' if t.endswith(']') else t]

def extra_flats(rng, G, quick):
    out = []
    mk = lambda s, b, c, i, f: [('prop_a', 's', s), ('prop_b', 'b', b), ('prop_c', 'b', c), ('prop_d', 'i', i), ('prop_e', 'f', f)]
    ss = special_strings() + BRACKET_LIKE + bracket_strings() + multibyte_strings()
    for k, s in enumerate(ss):
        out.append(mk(s, k % 2 == 0, k % 3 == 0, G.gen_int(rng, *G.INT_TYPES['i128']), G.gen_f64(rng)))
    for c in G.PRINTABLE:
        out.append(mk(c + 'x' + c, True, False, -1, -1.5))
    for n in long_lengths(quick)[:3]:
        out.append(mk(long_string(rng, G, n), False, True, 1, 1.0))
    for v in int_boundaries(*G.INT_TYPES['i128'])[::(7 if quick else 1)]:
        out.append(mk('n', False, False, v, float(v % 1000)))
    return out

# ------------------------------------------------------------------ typed lists
def extra_int_lists(rng, G, quick):
    """(type, list): the boundaries of every width, every length 0..64, lists with a repeated value"""
    out = []
    for ty, (lo, hi) in G.INT_TYPES.items():
        b = int_boundaries(lo, hi)
        for c in chunks(b, 64): out.append((ty, c))
        rb = list(reversed(b))
        out.append((ty, rb[:64]))
        for n in range(0, 65):
            if quick and n % 10 != list(G.INT_TYPES).index(ty) and n not in (0, 1, 2, 3, 63, 64): continue
            out.append((ty, [G.gen_int(rng, lo, hi) for _ in range(n)]))
        vals = [0, hi, lo, 5, 10, 57] + ([-5] if lo < 0 else [])
        for a in vals:
            bb = rng.choice([v for v in vals if v != a])
            out += [(ty, [a, a]), (ty, [a, bb, a]), (ty, [a, a, bb]), (ty, [bb, a, a]), (ty, [a, bb, bb, a]), (ty, [a] * 3)]
        out.append((ty, [hi] * 64)); out.append((ty, [0] * 64)); out.append((ty, [lo, hi] * 32)); out.append((ty, [7] + [1] * 62 + [7]))
    return out

def extra_f64_lists(rng, G, quick):
    f = f64_boundaries()
    out = [[x] for x in f] + chunks(f, 16)
    reps = [0.0, 1.5, -2.0, 1.2e-7, -1.2e-7, 1e21, 0.1, -0.0, 5e-324, 1.0]
    for a in reps:
        b = rng.choice([v for v in reps if v != a or a == 0.0])
        out += [[a, a], [a, b, a], [a, a, b], [b, a, a], [a] * 3]
    out += [[1.5] * 64, [0.0] * 64, [-0.0] * 3, [0.0, -0.0], [-0.0, 0.0], [1.0, 1.0, 2.0, 1.0]]
    for n in ([0, 1, 2, 3, 10, 31, 32, 33, 63, 64] if quick else range(0, 65)):
        out.append([G.gen_f64(rng) for _ in range(n)])
    return out

def extra_string_lists(rng, G, quick):
    sp = special_strings()
    out = [[s] for s in sp] + chunks(sp, 16) + [['a', s, 'b'] for s in sp[::3]]
    out += [[''] * n for n in (1, 2, 3, 64)] + [[' '] * n for n in (1, 2, 3)] + [['a'] * n for n in (2, 3, 64)]
    for a, b in [('', 'a'), ('a', ''), ('a', 'b'), (' ', ''), ('a,b', 'a'), ('null', 'true')]:
        out += [[a, b, a], [a, a, b], [b, a, a], [a, b, b, a]]
    out += [[c, c + 'x', 'x' + c] for c in G.PRINTABLE]
    out += [G.PRINTABLE[i:i + 31] for i in (0, 31, 62)]
    mb = bracket_strings() + multibyte_strings()
    out += [[s] for s in mb] + chunks(mb, 16) + [['a', s, 'b'] for s in mb[::2]] + [[s, s] for s in mb[1::3]]
    for n in long_lengths(quick):
        s = long_string(rng, G, n)
        out += [[s], ['', s, ''], [s, s]]
    for n in ([0, 1, 2, 3, 10, 31, 32, 33, 63, 64] if quick else range(0, 65)):
        out.append([G.gen_str(rng, 'plain') for _ in range(n)])
    return out

def extra_bool_lists(rng, G, quick):
    out = []
    for n in ([1, 2, 3, 4, 8, 16, 32, 63, 64] if quick else range(1, 65)):
        out += [[True] * n, [False] * n]
        if n >= 2:
            out += [[True] * (n - 1) + [False], [False] + [True] * (n - 1), [i % 2 == 0 for i in range(n)], [i % 2 == 1 for i in range(n)]]
    return out

# ------------------------------------------------------------------ well-typed property lists (names and counts the struct does not have)
NAMES = ['a', 'A', 'z', '_', '__', 'x1', 'x_1', 'a0', 'id', 'Id', 'ID', 'type', 'name', 'value', 'null', 'true', 'false', 'n', 't', 'f', 'e', 'E',
         'nul', 'tru', 'fals', 'inf', 'nan', 'NaN', 'i128', 'f64', 'bool', 'String', 'object', 'array', 'snake_case_name', 'camelCaseName',
         'PascalCase', 'SCREAMING_CASE', 'trailing_', '_leading', 'a_b_c_d_e_f', 'l' * 31, 'm' * 32, 'w' * 64, 'q' * 255, 'k' * 256,
         'prop_a', 's1', 'o1', 'ao', 'property_name', 'property_type', 'x' * 1000,
         # names are string literals too: non-ASCII of every encoded length at every position, brackets, blanks, punctuation (no `"`, `\\`, `:`)
         'é', 'éa', 'aé', 'aéb', '€', '€x', 'x€', 'a€b', '\U0001F600', '\U0001F600k', 'k\U0001F600', 'a\U0001F600b', 'ключ', '鍵', 'é€\U0001F600', '\u00a0', 'a\u00a0', '\u3000b',
         '٣', '½x', '{', '}', '[', ']', '{}', '[]', 'a{', '}a', 'a]b', '[k]', '{k}', ']é', 'é[', '}\U0001F600{', 'a b', ' a', 'a ', 'a,b', 'a-b', 'a.b', '1', '-1']
RAW_OBJECTS = ['{\r\n}', '{\r\n  "k": 1\r\n}', '{\r\n  "k": "v",\r\n  "n": -2.5\r\n}', '{\r\n  "in": {\r\n  "k": true\r\n}\r\n}',
               '{\r\n  "l": [1,2],\r\n  "m": [{\r\n  "z": 0\r\n},\r\n{\r\n}]\r\n}']
RAW_OBJECTS += ['{\r\n  "k": "}"\r\n}', '{\r\n  "k": "{"\r\n}', '{\r\n  "k}": "]é",\r\n  "é[": "\U0001F600{"\r\n}', '{\r\n  "a": ["]","[","}{"],\r\n  "b": {\r\n  "c": "}}"\r\n}\r\n}',
                '{\r\n  "é": "€",\r\n  "\U0001F600": [1]\r\n}', '{\r\n  "l": [{\r\n  "z]": "[é"\r\n},\r\n{\r\n}]\r\n}', '{\r\n  "k": "é"\r\n}', '{\r\n  "k": "a]b[c}d{e"\r\n}']
RAW_ARRAYS = ['[]', '[1]', '[1,2]', '[-1,0,1]', '["a","b"]', '[""]', '[true]', '[false,true]', '[null,null]', '[-1.5,2]', '[0.0]',
              '[{\r\n  "k": 1\r\n},\r\n{\r\n}]', '[{\r\n}]', '[340282366920938463463374607431768211455]',
              '["]"]', '["["]', '["}","{"]', '["é"]', '["a€","\U0001F600b"]', '["]é","[€"]', '[{\r\n  "k]": "}é"\r\n},\r\n{\r\n  "[": "]"\r\n}]', '[["]"],["["]]', '["[1,2]","{}"]']

def typed_props(rng, G, quick, floats):
    """lists of (name, type, kind, value): name an identifier, the declared type the one of the value; `floats` = bit patterns whose
    Display token is known.  Lengths 0..64; every name of NAMES is used as the first, as a middle and as the last property"""
    out = []
    def name(rng, used):
        for _ in range(50):
            k = rng.below(5)
            if k == 0: n = rng.choice(NAMES)
            elif k == 4:
                alpha = 'abcXYZ_09 ' + ''.join(MB2[:4] + MB3[:3] + MB4[:2]) + '{}[]'
                n = ''.join(rng.choice(alpha) for _ in range(rng.choice([1, 2, 3, 5, 9])))
            else:
                first = 'abcdefghijklmnopqrstuvwxyzABCDEFGHIJKLMNOPQRSTUVWXYZ_'
                n = rng.choice(first) + ''.join(rng.choice(first + '0123456789') for _ in range(rng.choice([0, 1, 2, 5, 11, 30])))
            if n not in used: return n
        return 'u%d' % len(used)
    def value(rng):
        k = rng.below(7)
        if k == 0: return ('String', 's', rng.choice(special_strings() + bracket_strings() + multibyte_strings()) if rng.chance(1, 2) else G.gen_str(rng, rng.choice(['printable', 'mixed'])))
        if k == 1: return ('bool', 'b', rng.chance(1, 2))
        if k == 2: return ('i128', 'i', G.gen_int(rng, *G.INT_TYPES['i128']))
        if k == 3:
            while True:
                b = rng.choice(floats)
                if b != 0x8000000000000000: return ('f64', 'f', b)
        if k == 4: return ('object', 'o', rng.choice(RAW_OBJECTS))
        if k == 5: return ('array', 'a', rng.choice(RAW_ARRAYS))
        return ('i128', 'i', rng.range(-9, 9))
    def plist(rng, n, forced=None, at=0):
        used, ps = set(), []
        for i in range(n):
            nm = forced if (forced is not None and i == at) else name(rng, used | ({forced} if forced else set()))
            used.add(nm)
            ps.append((nm,) + value(rng))
        return ps
    for nm in NAMES:
        if quick and len(nm) > 300: continue
        out.append(plist(rng, 1, nm, 0))
        n = rng.range(2, 6)
        out.append(plist(rng, n, nm, 0)); out.append(plist(rng, n, nm, n - 1))
        if not quick: out.append(plist(rng, n + 1, nm, 1))
    for n in ([0, 1, 2, 24, 25, 26, 27, 32, 63, 64] if quick else range(0, 65)):
        out.append(plist(rng, n))
    # one kind only, every kind as the only / first / last property
    kinds = ['String', 'bool', 'i128', 'f64', 'object', 'array']
    for ka in kinds:
        for kb in kinds:
            ps = []
            for i, want in enumerate((ka, kb)):
                while True:
                    v = value(rng)
                    if v[0] == want: break
                ps.append((['first', 'second'][i],) + v)
            out.append(ps)
    for _ in range(60 if quick else 1500):
        out.append(plist(rng, rng.range(1, 8)))
    return out
