"""Input classes of the C18 Base64 claim that uniform random bytes, a 14-character replacement list and texts of at most 44
characters do not reach (audit: /tmp/a/C18/AUDIT.md): data only; props/c18.py turns them into protocol lines and judges the
answers.  Every list is a deterministic function of the PRNG handed in (most are constant)."""
import base64

ALPHABET = 'ABCDEFGHIJKLMNOPQRSTUVWXYZabcdefghijklmnopqrstuvwxyz0123456789+/'
BAD_ASCII = [chr(c) for c in range(128) if chr(c) not in ALPHABET and chr(c) != '=']


def b64(b):
    return base64.b64encode(b).decode()


# ------------------------------------------------------------------------------------------------ encoder
def enc_sizes(tier):
    """lengths at which an index, a group count, an output length or a block size changes representation: 2^k and 3*2^k with both
    neighbours (every residue mod 3), 255..257 groups, output lengths 2^k, and the three lengths that end at 64 KiB"""
    s = set()
    for k in (255, 256, 257, 384, 512, 768, 1024, 2048, 3072, 4096, 8192, 12288, 16384, 24576, 32768, 49152):
        s.update((k - 1, k, k + 1))
    s.update(range(765, 772))              # 255, 256, 257 groups
    s.update((57, 58, 48, 49, 54, 55))     # one 76- / 64- / 72-column line of text and one byte more
    s.update((65534, 65535, 65536))
    if tier != 'quick':
        s.update((65533, 65532, 43690, 43691, 43692, 21845, 21846, 196, 197, 198))
    return sorted(s)


def enc_structured(rng, tier):
    """(class, bytes): ramps, the alphabet spelled out, long runs, and inputs whose groups are RELATED (one group and a small
    change of it; a tail that is a prefix of a group, of its change, or a zero-padded form of either)"""
    out = []
    ramp = bytes(range(256))
    for k in range(3):
        out.append(('ramp', ramp[k:] + ramp[:k]))
        out.append(('ramp', (ramp[k:] + ramp[:k])[::-1]))
        out.append(('ramp', ramp[k:]))
        out.append(('ramp', ramp * 3 + ramp[:k]))
    spelled = base64.b64decode(ALPHABET)
    out += [('alphabet', spelled), ('alphabet', spelled + spelled[:1]), ('alphabet', spelled[::-1] + spelled[:2]), ('alphabet', spelled * 2)]
    # long runs: one byte, one group, two alternating groups - far beyond the 16 groups of the short fills
    for fill in (0, 0xff, 0x41, 0x3d):
        for n in (64, 150, 192, 256, 768, 1000, 4097) + ((20000,) if tier != 'quick' else ()):
            out.append(('run', bytes([fill]) * n))
    for _ in range(4 if tier == 'quick' else 40):
        g, h = rng.bytes(3), rng.bytes(3)
        for reps in (17, 64, 255, 256, 257, 300):
            for tail in (b'', g[:1], g[:2], h[:1], g[2:], bytes([0]), bytes([0, g[0]])):
                out.append(('run', g * reps + tail))
            out.append(('run', (g + h) * reps + g[:2]))
            out.append(('run', g * reps + h + g * reps + h[:1]))
    # related groups
    bases = [bytes([0, 0, 0]), bytes([0xff] * 3), b'Man', bytes([0, 0x10, 0x83])] + [rng.bytes(3) for _ in range(4 if tier == 'quick' else 60)]
    for g in bases:
        rel = []
        v = int.from_bytes(g, 'big')
        for bit in range(24): rel.append((v ^ (1 << bit)).to_bytes(3, 'big'))
        for perm in ((0, 2, 1), (1, 0, 2), (1, 2, 0), (2, 0, 1), (2, 1, 0)): rel.append(bytes(g[i] for i in perm))
        for i in range(3):
            for d in (1, 255, 0x80):
                h = bytearray(g); h[i] = (h[i] + d) & 255; rel.append(bytes(h))
        for sh in (2, 4, 6, 8, 16, 18):                      # the same 24 bits rotated: sextets / bytes move one place
            rel.append((((v << sh) | (v >> (24 - sh))) & 0xffffff).to_bytes(3, 'big'))
        rel += [bytes([g[0], 0, 0]), bytes([g[0], g[1], 0]), bytes([0, 0, g[0]]), bytes([0, g[0], g[1]]), bytes([0, g[0], 0]),
                bytes([0, 0, g[2]]), bytes([0, g[1], g[2]]), bytes([g[0], g[0], g[0]]), bytes([g[2], g[2], g[2]])]
        for p in rel:
            out.append(('related', g + p)); out.append(('related', p + g))
            for tail in (g[:1], g[:2], p[:1], p[:2], g[1:], p[2:]):
                out.append(('related', g + p + tail))
            out.append(('related', p + g + p[:1])); out.append(('related', p + rng.bytes(3) + g + p[:2]))
    return out


def x3_pairs():
    """2-byte prefixes of the block op chosen, not drawn: both bytes on the boundaries of every mask the encoder uses, and a == b"""
    edge = [0, 1, 3, 4, 0x0f, 0x10, 0x3f, 0x40, 0x7f, 0x80, 0xc0, 0xef, 0xf0, 0xfb, 0xfc, 0xff]
    pairs = [(a, b) for a in edge for b in edge]
    pairs += [(a, a) for a in range(256) if (a, a) not in pairs]
    return pairs


# ------------------------------------------------------------------------------------------------ decoder
# what a trim, a line splitter, a C-string reader or a whitespace filter treats specially
BLANKS = [' ', '\t', '\n', '\r', '\x0b', '\x0c', '\x00', '\x1c', '\x1f', '\x7f', '\x85', '\xa0', '\u1680', '\u2000', '\u2003', '\u200a',
          '\u2028', '\u2029', '\u202f', '\u205f', '\u3000', '\ufeff', '\u200b', '\xad']
BLANK_SEQS = ['\r\n', '\n\n', '  ', '\r\n\r\n', '    ', '\x00\x00\x00\x00', '\n\r', ' \r\n', '\t\t\t\t']
ALIAS_TARGETS = 'AZaz09+/=-_M'
LOOKALIKES = ['\uff21', '\uff41', '\uff10', '\uff0b', '\uff0f', '\uff1d', '\u212a', '\u017f', '\u0131', '\u0130', '\u0410', '\u0391', '\u0301',
              '\u200d', '\u2215', '\u2044', '\u207a', '\u208c', '\u2795']
CODE_EDGES = [0x80, 0xff, 0x100, 0x7ff, 0x800, 0xfff, 0x1000, 0xd7ff, 0xe000, 0xfffd, 0xfffe, 0xffff, 0x10000, 0x1ffff, 0x10ffff]


def alias_chars():
    """characters above U+00FF whose low 8 (or low 7, or low 16) bits are the code of an alphabet character, '=', '-' or '_':
    2, 3 and 4 bytes wide"""
    out = []
    for t in ALIAS_TARGETS:
        for hi in (0x100, 0x200, 0x700, 0x800, 0x2b00, 0xff00, 0x10000, 0x1f600, 0x100000, 0x10ff00):
            cp = hi + ord(t)
            if 0xd800 <= cp <= 0xdfff or cp > 0x10ffff: continue
            out.append(chr(cp))
        out.append(chr(0x80 + ord(t)))          # low 7 bits
        out.append(chr(0x10000 + ord(t) * 0x100))
    return out


def nonascii_specials():
    seen, out = set(), []
    for c in alias_chars() + LOOKALIKES + [chr(c) for c in CODE_EDGES]:
        if c not in seen: seen.add(c); out.append(c)
    return out


def widen(ch, width):
    """a 2-, 3- or 4-byte character whose low 8 bits are `ch`"""
    return chr({2: 0x100, 3: 0x2b00, 4: 0x1f600}[width] + ord(ch))


def dec_texts(rng, tier, valid):
    """(class, text) for the decoder.  Every text whose class is not 'valid…' holds a character outside the alphabet unless the
    check's has_bad() says otherwise (the oracle decides by has_bad, never by the class name)."""
    quick = tier == 'quick'
    out = []
    t1, t2, t3 = b64(rng.bytes(1)), b64(rng.bytes(2)), b64(rng.bytes(3))
    t4, t5, t6 = b64(rng.bytes(4)), b64(rng.bytes(5)), b64(rng.bytes(6))
    short = [t1, t2, t3]
    mid = [t4, t5, t6]
    fixed = ['QQ==', 'QUI=', 'QUJD', '/w==', '+/8=', '+/+/', 'AAAA', 'AA==', 'AAA=']

    # D14. a bad character alone and in a partial chunk
    for r in BAD_ASCII + nonascii_specials()[:40]:
        for t in (r, 'A' + r, r + 'A', 'AA' + r, 'A' + r + 'A', 'AAA' + r, r + 'AAA', 'AAAA' + r, 'AAAA' + r + 'A', 'AAAAAA' + r + 'A', r + r, r * 4):
            out.append(('alone', t))

    # D8. non-ASCII: every character U+0080..U+01FF at every place of a quartet of each padding form; the wider ones elsewhere too
    for t in short + (fixed[:3] if not quick else []):
        for pos in range(4):
            for cp in range(0x80, 0x200):
                out.append(('nonascii', t[:pos] + chr(cp) + t[pos + 1:]))
    spec = nonascii_specials()
    for t in short + mid + fixed:
        for pos in range(len(t)):
            for c in spec:
                out.append(('nonascii', t[:pos] + c + t[pos + 1:]))
        for c in spec[::3]:
            out.append(('nonascii', t + c)); out.append(('nonascii', c + t))
    # D9. several non-ASCII characters, each of which truncates to the character it replaces (2, 3 and 4 bytes wide, and mixed)
    for t in short + mid + fixed + [b64(rng.bytes(9))]:
        n = len(t)
        subsets = range(1, 1 << n) if n == 4 else [rng.range(1, (1 << n) - 1) for _ in range(12 if quick else 200)] + [(1 << n) - 1, 0xf, 0xf0 & ((1 << n) - 1)]
        for mask in subsets:
            for width in (2, 3, 4, 0):
                out.append(('nonascii-many', ''.join((widen(ch, width or rng.range(2, 4)) if mask >> i & 1 else ch) for i, ch in enumerate(t))))

    # D10. blanks before and after valid text (a decoder that trims), trailing NUL runs (a decoder fed from a zero-padded buffer)
    base = [t for t in valid if t] + fixed[:6]
    for t in base:
        for w in BLANKS + BLANK_SEQS:
            out += [('edge-blank', t + w), ('edge-blank', w + t), ('edge-blank', w + t + w)]
        for w in (' ', '\n', '\x00', '\t', '\r', '\xa0'):
            for k in (2, 3, 4, 5, 8):
                out.append(('edge-blank', t + w * k)); out.append(('edge-blank', w * k + t))
        out.append(('edge-blank', t + '\x00' * 100)); out.append(('edge-blank', t + '\x00' * (4 - len(t) % 4) * 64))
    # D16. anything after the padding / after the end
    for t in fixed[:6] + short + mid:
        for r in BAD_ASCII:
            out += [('trailing', t + r), ('trailing', t + r + 'AAA'), ('trailing', t + r * 4), ('trailing', r + t)]
        for r in BAD_ASCII[::5]:
            out += [('trailing', t + 'QUJD' + r), ('trailing', t + r + t)]

    # D11. blanks INSIDE valid text: one, a CR LF pair, a whole quartet of them - at every place; wrapped lines; armour
    inner = [' ', '\t', '\n', '\r', '\x00', '\x0c', '\xa0', '\u2028', '\r\n', '\n\n', '  ', '\r\n\r\n', '    ', '----', '____', '!!!!', '\x00' * 4, '....',
             '\u0141' * 4, '-_', '-', '_']
    bodies = short + mid + [b64(rng.bytes(n)) for n in ((9, 10, 11, 30) if quick else (9, 10, 11, 30, 31, 32, 60))]
    for t in bodies:
        for pos in range(len(t) + 1):
            for w in (inner if len(t) <= 16 or not quick else inner[:4] + inner[8:13]):
                out.append(('inner-blank', t[:pos] + w + t[pos:]))
    for n in (57, 58, 60, 114, 115, 116, 171, 200) + (() if quick else (570, 1000, 5700)):
        t = b64(rng.bytes(n))
        for col in (76, 64, 72, 60, 4, 1, 77, 75):
            for eol in ('\r\n', '\n', '\r', ' '):
                body = eol.join(t[i:i + col] for i in range(0, len(t), col))
                out.append(('wrapped', body)); out.append(('wrapped', body + eol))
        wrapped = '\n'.join(t[i:i + 64] for i in range(0, len(t), 64))
        out += [('armour', '-----BEGIN DATA-----\n' + wrapped + '\n-----END DATA-----\n'), ('armour', 'Basic ' + t), ('armour', 'data:;base64,' + t),
                ('armour', 'base64,' + t), ('armour', '"' + t + '"'), ('armour', "b'" + t + "'"), ('armour', t + ';'), ('armour', '<' + t + '>')]
    # D17. whole texts in the URL-safe alphabet
    for _ in range(40 if quick else 1000):
        raw = rng.bytes(rng.range(1, 12))
        u = base64.urlsafe_b64encode(raw).decode()
        out.append(('urlsafe', u)); out.append(('urlsafe', u.rstrip('=')))
    for raw in (b'\xfb', b'\xff', b'\xfb\xff', b'\xff\xef', b'\xfb\xef\xbe', b'\xff\xff\xff', b'\x00\xfb\xf0', b'\x03\xef\xff\xfb'):
        u = base64.urlsafe_b64encode(raw).decode()
        out.append(('urlsafe', u)); out.append(('urlsafe', u.rstrip('=')))

    # D12. two bad characters: same quartet, neighbouring quartets, far apart
    allbad = BAD_ASCII + spec
    for _ in range(400 if quick else 8000):
        t = list(b64(rng.bytes(rng.range(1, 33))))
        p = rng.below(len(t))
        q = rng.choice([p ^ 1, p ^ 3, (p + 4) % len(t), rng.below(len(t)), len(t) - 1 - p])
        q = min(max(q, 0), len(t) - 1)
        t[p] = rng.choice(allbad); t[q] = rng.choice(allbad) if rng.chance(1, 2) else t[p]
        out.append(('two-bad', ''.join(t)))

    # D13. one bad character far inside a long text
    for n in (260, 1025) + ((4097,) if quick else (4097, 16385)):
        t = b64(rng.bytes(n)); L = len(t)
        out.append(('valid-long', t))
        places = [0, 1, 2, 3, 4, 5, 63, 64, 65, 75, 76, 77, 127, 128, 129, 255, 256, 257, 258, 259, 260, 511, 512, 1023, 1024, 1025, 4095, 4096,
                  L - 8, L - 7, L - 6, L - 5, L - 4, L - 3, L - 2, L - 1] + [rng.below(L) for _ in range(10)]
        places = sorted({p for p in places if 0 <= p < L})
        if n >= 4097 and quick: places = places[::4] + [L - 1, L - 2, L - 5]
        for p in places:
            for r in (['-', '\n', '\u0141'] if n < 4097 or not quick else ['-']) + [rng.choice(allbad)]:
                out.append(('long-corrupt', t[:p] + r + t[p + 1:]))
        out.append(('long-corrupt', t + '\n')); out.append(('long-corrupt', t + '\x00'))
    return out


def noncanonical(rng, tier):
    """quartets whose unused low bits are set (not judged by the property; compared with the model): all 4096 'xy==' and
    'xyz=' quartets (all in thorough, drawn in quick)"""
    out = [x + y + '==' for x in ALPHABET for y in ALPHABET]
    if tier == 'quick':
        out += [rng.choice(ALPHABET) + rng.choice(ALPHABET) + rng.choice(ALPHABET) + '=' for _ in range(4096)]
    else:
        out += [x + y + z + '=' for x in ALPHABET for y in ALPHABET for z in ALPHABET]
    return out


def cost(line):
    """rough seconds the real code spends on a protocol line (decode walks the text from its start for every character)"""
    op, _, arg = line.partition(' ')
    n = len(arg) // 2
    if op == 'b64x3': return 4e-3
    if op == 'b64dec': return 4e-10 * n * n + 2e-6
    return 5e-7 * n + 2e-6


def spread(light, heavy, ncpu=16):
    """one list in which the costly items - (item, seconds) pairs - are dealt into the middles of equal stretches of the cheap ones,
    the costliest first and each onto the stretch that carries least so far; as many stretches as the runner (common.run_sharded)
    cuts contiguous shards, so that the shards carry about the same load (order only; no item is added or lost)"""
    total = len(light) + len(heavy)
    slots = 1 if total < 2000 else max(1, min(ncpu, (total + 1999) // 2000))
    groups, load = [[] for _ in range(slots)], [0.0] * slots
    for h, c in sorted(heavy, key=lambda hc: -hc[1]):
        k = min(range(slots), key=lambda j: (load[j], len(groups[j])))
        groups[k].append(h); load[k] += c
    # equal stretches by COUNT after the costly items are in (the runner cuts by count)
    out, used, n = [], 0, len(light)
    for k in range(slots):
        want = (k + 1) * total // slots - k * total // slots - len(groups[k])
        want = max(0, min(want, n - used)) if k < slots - 1 else n - used
        part = light[used:used + want]; used += want
        mid = len(part) // 2
        out.extend(part[:mid]); out.extend(groups[k]); out.extend(part[mid:])
    return out
