"""Input classes of the C18 Base64 claim that uniform random bytes, a 14-character replacement list and texts of at most 44
characters do not reach (audit: /tmp/a/C18/AUDIT.md): data only; props/c18.py turns them into protocol lines and judges the
answers.  Every list is a deterministic function of the PRNG handed in (most are constant)."""
import base64

ALPHABET = 'ABCDEFGHIJKLMNOPQRSTUVWXYZabcdefghijklmnopqrstuvwxyz0123456789+/'
BAD_ASCII = [chr(c) for c in range(128) if chr(c) not in ALPHABET and chr(c) != '=']


def b64(b):
    return base64.b64encode(b).decode()


# ------------------------------------------------------------------------------------------------ encoder
def enc_sizes(tier):
    """lengths at which an index, a group count, an output length or a block size changes representation: 2^k and 3*2^k with both
    neighbours (every residue mod 3), 255..257 groups, output lengths 2^k, and the three lengths that end at 64 KiB"""
    s = set()
    for k in (255, 256, 257, 384, 512, 768, 1024, 2048, 3072, 4096, 8192, 12288, 16384, 24576, 32768, 49152):
        s.update((k - 1, k, k + 1))
    s.update(range(765, 772))              # 255, 256, 257 groups
    s.update((57, 58, 48, 49, 54, 55))     # one 76- / 64- / 72-column line of text and one byte more
    s.update((65534, 65535, 65536))
    if tier != 'quick':
        s.update((65533, 65532, 43690, 43691, 43692, 21845, 21846, 196, 197, 198))
    return sorted(s)


def enc_structured(rng, tier):
    """(class, bytes): ramps, the alphabet spelled out, long runs, and inputs whose groups are RELATED (one group and a small
    change of it; a tail that is a prefix of a group, of its change, or a zero-padded form of either)"""
    out = []
    ramp = bytes(range(256))
    for k in range(3):
        out.append(('ramp', ramp[k:] + ramp[:k]))
        out.append(('ramp', (ramp[k:] + ramp[:k])[::-1]))
        out.append(('ramp', ramp[k:]))
        out.append(('ramp', ramp * 3 + ramp[:k]))
    spelled = base64.b64decode(ALPHABET)
    out += [('alphabet', spelled), ('alphabet', spelled + spelled[:1]), ('alphabet', spelled[::-1] + spelled[:2]), ('alphabet', spelled * 2)]
    # long runs: one byte, one group, two alternating groups - far beyond the 16 groups of the short fills
    for fill in (0, 0xff, 0x41, 0x3d):
        for n in (64, 150, 192, 256, 768, 1000, 4097) + ((20000,) if tier != 'quick' else ()):
            out.append(('run', bytes([fill]) * n))
    for _ in range(4 if tier == 'quick' else 40):
        g, h = rng.bytes(3), rng.bytes(3)
        for reps in (17, 64, 255, 256, 257, 300):
            for tail in (b'', g[:1], g[:2], h[:1], g[2:], bytes([0]), bytes([0, g[0]])):
                out.append(('run', g * reps + tail))
            out.append(('run', (g + h) * reps + g[:2]))
            out.append(('run', g * reps + h + g * reps + h[:1]))
    # related groups
    bases = [bytes([0, 0, 0]), bytes([0xff] * 3), b'Man', bytes([0, 0x10, 0x83])] + [rng.bytes(3) for _ in range(4 if tier == 'quick' else 60)]
    for g in bases:
        rel = []
        v = int.from_bytes(g, 'big')
        for bit in range(24): rel.append((v ^ (1 << bit)).to_bytes(3, 'big'))
        for perm in ((0, 2, 1), (1, 0, 2), (1, 2, 0), (2, 0, 1), (2, 1, 0)): rel.append(bytes(g[i] for i in perm))
        for i in range(3):
            for d in (1, 255, 0x80):
                h = bytearray(g); h[i] = (h[i] + d) & 255; rel.append(bytes(h))
        for sh in (2, 4, 6, 8, 16, 18):                      # the same 24 bits rotated: sextets / bytes move one place
            rel.append((((v << sh) | (v >> (24 - sh))) & 0xffffff).to_bytes(3, 'big'))
        rel += [bytes([g[0], 0, 0]), bytes([g[0], g[1], 0]), bytes([0, 0, g[0]]), bytes([0, g[0], g[1]]), bytes([0, g[0], 0]),
                bytes([0, 0, g[2]]), bytes([0, g[1], g[2]]), bytes([g[0], g[0], g[0]]), bytes([g[2], g[2], g[2]])]
        for p in rel:
            out.append(('related', g + p)); out.append(('related', p + g))
            for tail in (g[:1], g[:2], p[:1], p[:2], g[1:], p[2:]):
                out.append(('related', g + p + tail))
            out.append(('related', p + g + p[:1])); out.append(('related', p + rng.bytes(3) + g + p[:2]))
    return out


def x3_pairs():
    """2-byte prefixes of the block op chosen, not drawn: both bytes on the boundaries of every mask the encoder uses, and a == b"""
    edge = [0, 1, 3, 4, 0x0f, 0x10, 0x3f, 0x40, 0x7f, 0x80, 0xc0, 0xef, 0xf0, 0xfb, 0xfc, 0xff]
    pairs = [(a, b) for a in edge for b in edge]
    pairs += [(a, a) for a in range(256) if (a, a) not in pairs]
    return pairs


# ------------------------------------------------------------------------------------------------ decoder
# what a trim, a line splitter, a C-string reader or a whitespace filter treats specially
BLANKS = [' ', '\t', '\n', '\r', '\x0b', '\x0c', '\x00', '\x1c', '\x1f', '\x7f', '\x85', '\xa0', '\u1680', '\u2000', '\u2003', '\u200a',
          '\u2028', '\u2029', '\u202f', '\u205f', '\u3000', '\ufeff', '\u200b', '\xad']
BLANK_SEQS = ['\r\n', '\n\n', '  ', '\r\n\r\n', '    ', '\x00\x00\x00\x00', '\n\r', ' \r\n', '\t\t\t\t']
ALIAS_TARGETS = 'AZaz09+/=-_M'
LOOKALIKES = ['\uff21', '\uff41', '\uff10', '\uff0b', '\uff0f', '\uff1d', '\u212a', '\u017f', '\u0131', '\u0130', '\u0410', '\u0391', '\u0301',
              '\u200d', '\u2215', '\u2044', '\u207a', '\u208c', '\u2795']
CODE_EDGES = [0x80, 0xff, 0x100, 0x7ff, 0x800, 0xfff, 0x1000, 0xd7ff, 0xe000, 0xfffd, 0xfffe, 0xffff, 0x10000, 0x1ffff, 0x10ffff]


def alias_chars():
    """characters above U+00FF whose low 8 (or low 7, or low 16) bits are the code of an alphabet character, '=', '-' or '_':
    2, 3 and 4 bytes wide"""
    out = []
    for t in ALIAS_TARGETS:
        for hi in (0x100, 0x200, 0x700, 0x800, 0x2b00, 0xff00, 0x10000, 0x1f600, 0x100000, 0x10ff00):
            cp = hi + ord(t)
            if 0xd800 <= cp <= 0xdfff or cp > 0x10ffff: continue
            out.append(chr(cp))
        out.append(chr(0x80 + ord(t)))          # low 7 bits
        out.append(chr(0x10000 + ord(t) * 0x100))
    return out


def nonascii_specials():
    seen, out = set(), []
    for c in alias_chars() + LOOKALIKES + [chr(c) for c in CODE_EDGES]:
        if c not in seen: seen.add(c); out.append(c)
    return out


def widen(ch, width):
    """a 2-, 3- or 4-byte character whose low 8 bits are `ch`"""
    return chr({2: 0x100, 3: 0x2b00, 4: 0x1f600}[width] + ord(ch))


def dec_texts(rng, tier, valid):
    """(class, text) for the decoder.  Every text whose class is not 'valid…' holds a character outside the alphabet unless the
    check's has_bad() says otherwise (the oracle decides by has_bad, never by the class name)."""
    quick = tier == 'quick'
    out = []
    t1, t2, t3 = b64(rng.bytes(1)), b64(rng.bytes(2)), b64(rng.bytes(3))
    t4, t5, t6 = b64(rng.bytes(4)), b64(rng.bytes(5)), b64(rng.bytes(6))
    short = [t1, t2, t3]
    mid = [t4, t5, t6]
    fixed = ['QQ==', 'QUI=', 'QUJD', '/w==', '+/8=', '+/+/', 'AAAA', 'AA==', 'AAA=']

    # D14. a bad character alone and in a partial chunk
    for r in BAD_ASCII + nonascii_specials()[:40]:
        for t in (r, 'A' + r, r + 'A', 'AA' + r, 'A' + r + 'A', 'AAA' + r, r + 'AAA', 'AAAA' + r, 'AAAA' + r + 'A', 'AAAAAA' + r + 'A', r + r, r * 4):
            out.append(('alone', t))

    # D8. non-ASCII: every character U+0080..U+01FF at every place of a quartet of each padding form; the wider ones elsewhere too
    for t in short + (fixed[:3] if not quick else []):
        for pos in range(4):
            for cp in range(0x80, 0x200):
                out.append(('nonascii', t[:pos] + chr(cp) + t[pos + 1:]))
    spec = nonascii_specials()
    for t in short + mid + fixed:
        for pos in range(len(t)):
            for c in spec:
                out.append(('nonascii', t[:pos] + c + t[pos + 1:]))
        for c in spec[::3]:
            out.append(('nonascii', t + c)); out.append(('nonascii', c + t))
    # D9. several non-ASCII characters, each of which truncates to the character it replaces (2, 3 and 4 bytes wide, and mixed)
    for t in short + mid + fixed + [b64(rng.bytes(9))]:
        n = len(t)
        subsets = range(1, 1 << n) if n == 4 else [rng.range(1, (1 << n) - 1) for _ in range(12 if quick else 200)] + [(1 << n) - 1, 0xf, 0xf0 & ((1 << n) - 1)]
        for mask in subsets:
            for width in (2, 3, 4, 0):
                out.append(('nonascii-many', ''.join((widen(ch, width or rng.range(2, 4)) if mask >> i & 1 else ch) for i, ch in enumerate(t))))

    # D10. blanks before and after valid text (a decoder that trims), trailing NUL runs (a decoder fed from a zero-padded buffer)
    base = [t for t in valid if t] + fixed[:6]
    for t in base:
        for w in BLANKS + BLANK_SEQS:
            out += [('edge-blank', t + w), ('edge-blank', w + t), ('edge-blank', w + t + w)]
        for w in (' ', '\n', '\x00', '\t', '\r', '\xa0'):
            for k in (2, 3, 4, 5, 8):
                out.append(('edge-blank', t + w * k)); out.append(('edge-blank', w * k + t))
        out.append(('edge-blank', t + '\x00' * 100)); out.append(('edge-blank', t + '\x00' * (4 - len(t) % 4) * 64))
    # D16. anything after the padding / after the end
    for t in fixed[:6] + short + mid:
        for r in BAD_ASCII:
            out += [('trailing', t + r), ('trailing', t + r + 'AAA'), ('trailing', t + r * 4), ('trailing', r + t)]
        for r in BAD_ASCII[::5]:
            out += [('trailing', t + 'QUJD' + r), ('trailing', t + r + t)]

    # D11. blanks INSIDE valid text: one, a CR LF pair, a whole quartet of them - at every place; wrapped lines; armour
    inner = [' ', '\t', '\n', '\r', '\x00', '\x0c', '\xa0', '\u2028', '\r\n', '\n\n', '  ', '\r\n\r\n', '    ', '----', '____', '!!!!', '\x00' * 4, '....',
             '\u0141' * 4, '-_', '-', '_']
    bodies = short + mid + [b64(rng.bytes(n)) for n in ((9, 10, 11, 30) if quick else (9, 10, 11, 30, 31, 32, 60))]
    for t in bodies:
        for pos in range(len(t) + 1):
            for w in (inner if len(t) <= 16 or not quick else inner[:4] + inner[8:13]):
                out.append(('inner-blank', t[:pos] + w + t[pos:]))
    for n in (57, 58, 60, 114, 115, 116, 171, 200) + (() if quick else (570, 1000, 5700)):
        t = b64(rng.bytes(n))
        for col in (76, 64, 72, 60, 4, 1, 77, 75):
            for eol in ('\r\n', '\n', '\r', ' '):
                body = eol.join(t[i:i + col] for i in range(0, len(t), col))
                out.append(('wrapped', body)); out.append(('wrapped', body + eol))
        wrapped = '\n'.join(t[i:i + 64] for i in range(0, len(t), 64))
        out += [('armour', '-----BEGIN DATA-----\n' + wrapped + '\n-----END DATA-----\n'), ('armour', 'Basic ' + t), ('armour', 'data:;base64,' + t),
                ('armour', 'base64,' + t), ('armour', '"' + t + '"'), ('armour', "b'" + t + "'"), ('armour', t + ';'), ('armour', '<' + t + '>')]
    # D17. whole texts in the URL-safe alphabet
    for _ in range(40 if quick else 1000):
        raw = rng.bytes(rng.range(1, 12))
        u = base64.urlsafe_b64encode(raw).decode()
        out.append(('urlsafe', u)); out.append(('urlsafe', u.rstrip('=')))
    for raw in (b'\xfb', b'\xff', b'\xfb\xff', b'\xff\xef', b'\xfb\xef\xbe', b'\xff\xff\xff', b'\x00\xfb\xf0', b'\x03\xef\xff\xfb'):
        u = base64.urlsafe_b64encode(raw).decode()
        out.append(('urlsafe', u)); out.append(('urlsafe', u.rstrip('=')))

    # D12. two bad characters: same quartet, neighbouring quartets, far apart
    allbad = BAD_ASCII + spec
    for _ in range(400 if quick else 8000):
        t = list(b64(rng.bytes(rng.range(1, 33))))
        p = rng.below(len(t))
        q = rng.choice([p ^ 1, p ^ 3, (p + 4) % len(t), rng.below(len(t)), len(t) - 1 - p])
        q = min(max(q, 0), len(t) - 1)
        t[p] = rng.choice(allbad); t[q] = rng.choice(allbad) if rng.chance(1, 2) else t[p]
        out.append(('two-bad', ''.join(t)))

    # D13. one bad character far inside a long text
    for n in (260, 1025) + ((4097,) if quick else (4097, 16385)):
        t = b64(rng.bytes(n)); L = len(t)
        out.append(('valid-long', t))
        places = [0, 1, 2, 3, 4, 5, 63, 64, 65, 75, 76, 77, 127, 128, 129, 255, 256, 257, 258, 259, 260, 511, 512, 1023, 1024, 1025, 4095, 4096,
                  L - 8, L - 7, L - 6, L - 5, L - 4, L - 3, L - 2, L - 1] + [rng.below(L) for _ in range(10)]
        places = sorted({p for p in places if 0 <= p < L})
        if n >= 4097 and quick: places = places[::4] + [L - 1, L - 2, L - 5]
        for p in places:
            for r in (['-', '\n', '\u0141'] if n < 4097 or not quick else ['-']) + [rng.choice(allbad)]:
                out.append(('long-corrupt', t[:p] + r + t[p + 1:]))
        out.append(('long-corrupt', t + '\n')); out.append(('long-corrupt', t + '\x00'))
    return out


def noncanonical(rng, tier):
    """quartets whose unused low bits are set (not judged by the property; compared with the model): all 4096 'xy==' and
    'xyz=' quartets (all in thorough, drawn in quick)"""
    out = [x + y + '==' for x in ALPHABET for y in ALPHABET]
    if tier == 'quick':
        out += [rng.choice(ALPHABET) + rng.choice(ALPHABET) + rng.choice(ALPHABET) + '=' for _ in range(4096)]
    else:
        out += [x + y + z + '=' for x in ALPHABET for y in ALPHABET for z in ALPHABET]
    return out


def cost(line):
    """rough seconds the real code spends on a protocol line (decode walks the text from its start for every character)"""
    op, _, arg = line.partition(' ')
    n = len(arg) // 2
    if op == 'b64x3': return 4e-3
    if op == 'b64dec': return 4e-10 * n * n + 4e-6 * n + 2e-6      # a table is built for every character looked at
    return 5e-7 * n + 2e-6


def spread(light, heavy, ncpu=16):
    """one list in which the costly items - (item, seconds) pairs - are dealt into the middles of equal stretches of the cheap ones,
    the costliest first and each onto the stretch that carries least so far; as many stretches as the runner (common.run_sharded)
    cuts contiguous shards, so that the shards carry about the same load (order only; no item is added or lost)"""
    total = len(light) + len(heavy)
    slots = 1 if total < 2000 else max(1, min(ncpu, (total + 1999) // 2000))
    groups, load = [[] for _ in range(slots)], [0.0] * slots
    for h, c in sorted(heavy, key=lambda hc: -hc[1]):
        k = min(range(slots), key=lambda j: (load[j], len(groups[j])))
        groups[k].append(h); load[k] += c
    # equal stretches by COUNT after the costly items are in (the runner cuts by count)
    out, used, n = [], 0, len(light)
    for k in range(slots):
        want = (k + 1) * total // slots - k * total // slots - len(groups[k])
        want = max(0, min(want, n - used)) if k < slots - 1 else n - used
        part = light[used:used + want]; used += want
        mid = len(part) // 2
        out.extend(part[:mid]); out.extend(groups[k]); out.extend(part[mid:])
    return out


# ================================================================================================ second audit pass
# Classes that hinge on a RELATION inside the input or between two calls (audit: /tmp/a/C18/AUDIT2.md): what a tolerant, a faster,
# a more robust or a refactored Base64 would newly branch on.

# block sizes a chunked encoder / decoder would plausibly work in (bytes of input; 3/4 of a line or buffer of text)
BLOCKS = (45, 48, 54, 57, 60, 63, 64, 96, 100, 128, 192, 255, 256, 300, 384, 510, 512, 570, 576, 750, 765, 768, 1000, 1020, 1023, 1024,
          1026, 1500, 1536, 2048, 3000, 3072, 4095, 4096, 4098, 6144, 7500, 8190, 8192, 10000)


def enc_sizes2(tier, have=()):
    """EVERY length 0..1000 (thorough: 0..4200), and k * B + r for every block size B, k = 1..4 (quick: 1..2 from 1000 bytes on) and r = -2..2 (a block loop with a
    remainder: the remainder is empty, a partial group, one whole group), up to 10 002 bytes in quick (decoded again) and 64 KiB in
    thorough; lengths whose TEXT has 1000, 1024, 2048, 4096, 8192, 10 000 characters are among them (750, 768, 1536, 3072, 6144, 7500)"""
    quick = tier == 'quick'
    s = set(range(0, 1001 if quick else 4201))
    top = 10002 if quick else 65536
    for b in BLOCKS:
        for k in (1, 2, 3, 4) if b < 1000 or not quick else (1, 2):
            for r in (-2, -1, 0, 1, 2):
                n = k * b + r
                if 0 <= n <= top: s.add(n)
    return sorted(s - set(have))


ASCII_SAMPLES = [b'user:password', b'Aladdin:open sesame', b'admin:admin', b'{"alg":"HS256","typ":"JWT"}', b'Hello, World!', b'0123456789',
                 b'The quick brown fox jumps over the lazy dog', b'GET / HTTP/1.1\r\nHost: localhost\r\n\r\n', b'a', b'ab', b'abc', b'abcd',
                 b'~~~', b'???', b'>>>', b'\x7f\x7f\x7f\x7f', b'\x00\x01\x02\x03\x04', b'key=value&other=thing', b'<?xml version="1.0"?>',
                 b'sure.', b'sure', b'sur', b'su', b'pleasure.', b'leasure.', b'easure.']
UTF8_SAMPLES = ['caf\u00e9', 'na\u00efve caf\u00e9', '\u0141\u00f3d\u017a', 'Gr\u00fc\u00dfe', '\u65e5\u672c\u8a9e', 'price: 5\u20ac', 'ok \U0001F600',
                'user:p\u00e4ss', 'user:pass\u00e9', 'abcdefghijklmnopqrstuvwxy\u00e9', 'abcdefghijklmnopqrstuvwx\u00e9', 'abcdefghijklmnopqrstuvw\u00e9',
                'abcdefghijklmnopqrstuvwxyz01234\u20ac', '\ufeffabc', 'a\u0301']


def enc_ascii(rng, tier):
    """(class, bytes): 7-bit input - printable text of every length 1..130, the whole 7-bit range, sample credentials / JSON / HTTP -
    and its NEIGHBOURS that leave the class in one place: exactly one byte >= 0x80 as the last byte, in the last (partial) group,
    in the first group, at a drawn place; at every place of short texts; UTF-8 text whose only multi-byte character is the tail"""
    quick = tier == 'quick'
    out = []
    printable = bytes(range(0x20, 0x7f))
    def high_variants(s):
        n = len(s)
        if n == 0: return
        tail0 = n - (n % 3 or 3)                 # first byte of the last group
        places = {n - 1, tail0, 0, min(2, n - 1), rng.below(n), max(0, tail0 - 1)}
        for p in sorted(places):
            for v in (s[p] | 0x80, 0xff, 0x80):
                out.append(('ascii-one-high', s[:p] + bytes([v]) + s[p + 1:]))
        if n >= 2:
            out.append(('ascii-tail-high', s[:tail0] + bytes(b | 0x80 for b in s[tail0:])))
            out.append(('ascii-body-high', bytes(b | 0x80 for b in s[:tail0]) + s[tail0:]))
    for n in range(1, 131 if quick else 400):
        s = bytes(rng.choice(printable) for _ in range(n))
        out.append(('ascii', s)); high_variants(s)
        if n % 4 == 1 or not quick:
            s7 = bytes(rng.below(128) for _ in range(n))
            out.append(('ascii', s7)); high_variants(s7)
            d = bytes(rng.choice(b'0123456789') for _ in range(n))
            out.append(('ascii', d)); out.append(('ascii-one-high', d[:-1] + bytes([d[-1] | 0x80])))
    for s in ASCII_SAMPLES:
        out.append(('ascii', s)); high_variants(s)
        for t in (b'\x80', b'\xff', b'\xc3\xa9', b'\xe2\x82\xac', b'\x00'):
            out.append(('ascii-tail-high', s + t)); out.append(('ascii-tail-high', t + s))
    for n in range(1, 13):
        s = bytes(rng.choice(printable) for _ in range(n))
        for p in range(n):
            out.append(('ascii-one-high', s[:p] + bytes([s[p] | 0x80]) + s[p + 1:]))
    for n in (256, 300, 1000, 1024, 1025, 3000, 4097) + (() if quick else (9000, 20000, 65535)):
        s = bytes(rng.choice(printable) for _ in range(n))
        out.append(('ascii', s))
        if not quick: high_variants(s)
        else:
            for p in (n - 1, n - (n % 3 or 3), 0): out.append(('ascii-one-high', s[:p] + bytes([s[p] | 0x80]) + s[p + 1:]))
    for u in UTF8_SAMPLES:
        b = u.encode('utf-8')
        out.append(('utf8-text', b))
        for k in (1, 2, 3): out.append(('utf8-text', b'x' * k + b)); out.append(('utf8-text', b + b'x' * k))
    out.append(('ascii', bytes(range(128)))); out.append(('ascii', bytes(range(128)) * 2 + b'\x80'))
    return out


def _utf8_alias(width, rng=None, count=None):
    """characters of `width` UTF-8 bytes ALL of whose bytes, stripped of the top bit, are alphabet characters (a decoder that walks
    the bytes and masks or re-bases them sees valid text): lead C2..DA / E1..EF / F0..F3, continuation AB, AF, B0..B9"""
    cont = [0xab, 0xaf] + list(range(0xb0, 0xba))
    lead = {2: range(0xc2, 0xdb), 3: [x for x in range(0xe1, 0xf0) if x != 0xed], 4: range(0xf0, 0xf4)}[width]
    import itertools as it
    allc = []
    for l in lead:
        for cs in it.product(cont, repeat=width - 1):
            try: allc.append(bytes((l,) + cs).decode('utf-8'))
            except UnicodeDecodeError: pass
    if count is None or count >= len(allc): return allc
    return [allc[rng.below(len(allc))] for _ in range(count)]


def dec_texts2(rng, tier):
    """(class, text) for the decoder, second pass.  Apart from the class 'valid-limit' every text holds a character outside the
    alphabet (the check decides by has_bad(), never by the class name)."""
    quick = tier == 'quick'
    out = []
    bad_ascii = BAD_ASCII
    spec = nonascii_specials()

    # R1. BYTE length a multiple of 4 although a multi-byte character is inside: every 2-byte character U+0080..U+07FF at each
    #     alignment inside a 4-byte window, across the window edge, twice, and at the four places of a quartet (5 bytes)
    two = [chr(cp) for cp in range(0x80, 0x800)]
    for c in two:
        out += [('bytes4', c + 'AA'), ('bytes4', 'Q' + c + 'A'), ('bytes4', 'QQ' + c), ('bytes4', 'QUJ' + c + 'QUJ'), ('bytes4', c + c),
                ('bytes4', 'Q' + c + '='), ('bytes4', c + '=='), ('bytes4', 'QUJD' + c + 'Q=')]
        if not quick or ord(c) % 4 == 0 or ord(c) >= 0x200:
            for pos in range(4): out.append(('nonascii2', 'QUJD'[:pos] + c + 'QUJD'[pos + 1:]))
    a2, a3, a4 = _utf8_alias(2), _utf8_alias(3, rng, 300 if quick else None), _utf8_alias(4, rng, 300 if quick else 3000)
    for c in a2:
        out += [('bytes4-alias', c + c + c + c), ('bytes4-alias', 'QUJD' + c + c), ('bytes4-alias', c + c + 'QUJD'), ('bytes4-alias', 'QQ' + c + 'QUJD')]
    for c in a3:
        out += [('bytes4-alias', c + 'A'), ('bytes4-alias', 'A' + c), ('bytes4-alias', c + '='), ('bytes4-alias', 'QUJD' + c + 'Q'), ('bytes4-alias', 'Q' + c + 'QUJD'),
                ('bytes4-alias', c + c + c + c), ('bytes4-alias', 'QU' + c + 'JDQ')]
    for c in a4:
        out += [('bytes4-alias', c), ('bytes4-alias', 'QUJD' + c), ('bytes4-alias', c + 'QUJD'), ('bytes4-alias', c + c), ('bytes4-alias', 'QU' + c + 'JD')]
    # 3-byte characters by their LOW byte: for every high byte 08..FF one character ending in each of five alphabet codes
    for hi in range(0x08, 0x100):
        if 0xd8 <= hi <= 0xdf: continue
        for lo in (0x41, 0x7a, 0x30, 0x2b, 0x2f, 0x3d):
            c = chr(hi * 0x100 + lo)
            out.append(('nonascii2', 'QU' + c + 'D')); out.append(('nonascii2', c + 'UJD'))
    # Unicode decimal digits and letters-that-are-numbers (a validity test by char::is_alphanumeric / is_numeric / to_digit)
    for base in (0x660, 0x6f0, 0x7c0, 0x966, 0x9e6, 0xe50, 0xff10, 0x1d7ce, 0x1d7d8, 0x2460, 0x2170):
        for d in range(10):
            c = chr(base + d)
            out.append(('nonascii2', 'QUJ' + c)); out.append(('nonascii2', c + c + c + c)); out.append(('nonascii2', 'Q' + c + '=='))

    # R2. a multi-byte character across EVERY byte offset 1..135 of a text (an error message, a log line or a peek that cuts the
    #     text at a fixed byte offset): the character alone is the error ...
    T = b64(rng.bytes(99))                                   # 132 characters
    for p in range(len(T)):
        for width in (2, 3, 4):
            out.append(('cut-straddle', T[:p] + widen(T[p], width) + T[p + 1:]))
    T2 = b64(rng.bytes(300))                                 # 400 characters
    for p in list(range(120, 140)) + list(range(190, 210)) + list(range(248, 262)) + list(range(296, 304)) + list(range(380, 400)):
        out.append(('cut-straddle', T2[:p] + widen(T2[p], 2 + p % 3) + T2[p + 1:]))
    #     ... or an ASCII character is the error and the multi-byte character sits at a distance from it or from the start
    for p in range(1, len(T)):
        w = widen(T[p], 3 if p % 2 else 2)
        out.append(('cut-two', '!' + T[1:p] + w + T[p + 1:]))
        out.append(('cut-two', T[:p] + w + T[p + 1:-1] + '!'))
    for at in (60, 63, 64):
        for d in list(range(-40, 0)) + list(range(1, 41)):
            p = at + d
            for width in (2, 3, 4) if abs(d) <= 12 else (3,):
                s = list(T); s[at] = '-'; s[p] = widen(T[p], width)
                out.append(('cut-two', ''.join(s)))

    # R3. a window loop with a remainder: a bad character at window-relative places of texts of 16 k + r characters, in each
    #     padding form (the bad character in the last whole window, in the remainder, next to the padding)
    rot = 0
    fixed_bad = ['-', '_', '\n', ' ', '\x00', '.']
    for L in (16, 20, 32, 36, 64, 68, 72, 128, 132, 192, 256, 260, 512, 516) + ((1024, 1028) if quick else (1024, 1028, 2048, 4096, 4100)):
        for short in (0, 1, 2):
            t = b64(rng.bytes(L // 4 * 3 - short))
            places = sorted({p for p in (0, 1, 3, 4, 15, 16, 17, 31, 32, 33, 63, 64, 65, L // 2, L - 17, L - 16, L - 15, L - 8, L - 5, L - 4, L - 3, L - 2, L - 1)
                             if 0 <= p < L})
            if quick and L >= 512: places = sorted({64, L // 2, L - 17, L - 5, L - 1})
            elif quick and L >= 192: places = sorted(set(places[::2] + [L - 1, L - 5, L - 17]))
            for p in places:
                rs = fixed_bad + [bad_ascii[(rot + 7 * i) % len(bad_ascii)] for i in range(4)] + [spec[(rot + i) % len(spec)] for i in range(2)]
                rot += 5
                if quick and L >= 512: rs = rs[rot % 3::3]
                elif quick and L >= 192: rs = rs[rot % 2::2]
                for r in rs:
                    out.append(('window', t[:p] + r + t[p + 1:]))
    # every ASCII bad character in the last whole window / the remainder of a 68- and a 132-character text
    for L in (68, 132):
        t = b64(rng.bytes(L // 4 * 3))
        for r in bad_ascii:
            for p in (L - 5, L - 1, 63, 64):
                out.append(('window', t[:p] + r + t[p + 1:]))

    # R4. text that went through another encoding layer: percent-encoding, '+' turned into a blank, JSON / backslash escapes,
    #     quoted-printable, HTML entities
    bases = ['QQ==', 'QUI=', '/w==', '+/8=', '+/+/', 'a+b/', 'ab+/cd==', '++++', '////'] + [b64(rng.bytes(n)) for n in (1, 2, 4, 5, 7, 8, 10, 30)]
    bases += [b64(b'\xfb\xef\xbe' * 2 + rng.bytes(1)), b64(b'\xff\xff' + rng.bytes(2))]
    def pct(ch, upper=True): return '%' + (format(ord(ch), '02X') if upper else format(ord(ch), '02x'))
    for t in bases:
        forms = set()
        for chars in ('=', '+/', '=+/'):
            for upper in (True, False):
                forms.add(''.join(pct(c, upper) if c in chars else c for c in t))
        forms.add(''.join(pct(c) for c in t))
        forms.add(t.replace('+', ' ')); forms.add(t.replace('+', '%20')); forms.add(t.replace('/', '\\/')); forms.add(t.replace('=', '\\u003d'))
        forms.add(t.replace('+', '\\u002b').replace('/', '\\u002f')); forms.add(t.replace('=', '=3D')); forms.add(t.replace('=', '&#61;'))
        forms.add(t.replace('=', '&equals;')); forms.add(t.replace('+', '&#43;')); forms.add(t.rstrip('=') + '%3D' * (len(t) - len(t.rstrip('='))))
        forms.add(t[:4] + '=\r\n' + t[4:]); forms.add(t + '%0A'); forms.add(t + '%0D%0A'); forms.add('%20' + t); forms.add(t + '%00')
        forms.add(t.replace('=', '%3D', 1)); forms.add(t.replace('=', '.')); forms.add(t.replace('=', '~')); forms.add(t.replace('=', '*'))
        # a comment syntax or a trailing separator around the value
        forms.update(('#x\n' + t, t + ' #x', t + '\n#x\n', '; x\n' + t, '// x\n' + t, t + ' // x', t + ',', t + ';', t + '\\', t + '=' + ',', '=?utf-8?B?' + t + '?='))
        forms.discard(t)
        for f in sorted(forms): out.append(('layered', f))

    # R5. two quartets of one text that are equal, differ in one character, or differ only in case - the second one (or the first)
    #     broken in one place
    for _ in range(12 if quick else 200):
        q = ''.join(rng.choice(ALPHABET) for _ in range(4))
        for other in (q, q.swapcase(), q[::-1], q[:3] + rng.choice(ALPHABET)):
            for k in range(4):
                r = rng.choice(bad_ascii + spec[:20])
                brk = other[:k] + r + other[k + 1:]
                out += [('twin-quartets', q + brk), ('twin-quartets', brk + q), ('twin-quartets', q + q + brk), ('twin-quartets', q + brk + q)]

    # R6. a bad character at and just beyond a length limit (a decoder that refuses - or only looks at - the first N characters)
    for L in (1000, 1024, 2048, 4096) + ((8192, 10000) if not quick else ()):
        t = b64(rng.bytes(L // 4 * 3 + 6))                   # L + 8 characters
        out.append(('valid-limit', t)); out.append(('valid-limit', t[:L])); out.append(('valid-limit', t[:L + 4]))
        for p in (L - 1, L, L + 1, L + 3, L + 4, L + 7):
            for r in ('-', '!', '\n', '\u0141') if L <= 2048 or not quick else ('-', '\n'):
                out.append(('limit', t[:p] + r + t[p + 1:]))
    return out


def history(rng, tier):
    """ONE ordered list of operations for ONE process (the runner must not cut it): pairs and short runs of calls whose SECOND member is
    wrong if anything survives the first - a memo keyed by part of the input, a buffer that is not reset on every path, a table
    filled lazily.  Items: ('enc', bytes) or ('dec', text, origin) with origin 'valid' for canonical text (judged by the round trip)
    and another word for text that holds a bad character (judged by has_bad)."""
    quick = tier == 'quick'
    out = []
    E = lambda b: out.append(('enc', b))
    V = lambda t: out.append(('dec', t, 'valid'))
    B = lambda t: out.append(('dec', t, 'hist-bad'))
    bad = ['!', '-', '\n', ' ', '\x00', '\u0141', '_', '=']
    def badchar(): return rng.choice(bad[:7])
    for rep in range(6 if quick else 60):
        # H1. the same text twice, then broken at its end / start / middle; broken first, then whole
        for n in (3, 6, 9, 12, 30, 33, 60, 96, 300):
            t = b64(rng.bytes(n)); r = badchar(); L = len(t)
            V(t); V(t); B(t[:-1] + r); V(t); B(r + t[1:]); B(t[:L // 2] + r + t[L // 2 + 1:]); V(t)
            t = b64(rng.bytes(n)); B(t[:L - 2] + r + t[L - 1:]); V(t)
        # H2. two valid texts of one length that share all but the last / first / a middle group; one a prefix of the other
        for n in (3, 4, 5, 6, 12, 13, 14, 33, 48, 49, 50, 96, 255):
            x = rng.bytes(n)
            y1 = x[:-1] + bytes([x[-1] ^ (1 << rng.below(8))])
            y2 = bytes([x[0] ^ (1 << rng.below(8))]) + x[1:]
            m = n // 2
            y3 = x[:m] + bytes([x[m] ^ 0x10]) + x[m + 1:]
            for y in (y1, y2, y3): V(b64(x)); V(b64(y))
            V(b64(x)); V(b64(x + rng.bytes(3))); V(b64(x)); V(b64(x[:n - n % 3 - 3] if n > 5 else x[:3])); V(b64(x))
            E(x); E(y1); E(x); E(y2); E(x); E(y3); E(x + x[:1]); E(x); E(x[:-1]); E(x)
        # H3. long, then short, then long; the empty input in between
        for (a, b) in ((300, 3), (3, 300), (999, 1), (1, 999), (64, 63), (63, 64), (30, 29), (29, 30), (2, 1), (1, 2)):
            xa, xb, xc = rng.bytes(a), rng.bytes(b), rng.bytes(a)
            E(xa); E(xb); E(xc); E(b''); E(xb); E(xa)
            V(b64(xa)); V(b64(xb)); V(b64(xc)); V(''); V(b64(xb)); V(b64(xa))
            E(xa); V(b64(xb)); E(xb); V(b64(xa))
        # H4. a text that fails AFTER part of it was decoded (first / middle / last quartet, alone, in a partial chunk), then a valid one
        for n in (1, 2, 3, 6, 9, 30, 31, 32):
            t = b64(rng.bytes(30)); u = b64(rng.bytes(n)); r = badchar()
            for broken in (t[:-1] + r, t[:4] + r + t[5:], r + t[1:], t + r, t[:-2], t + 'A', t[:20] + '\u0141' + t[21:], t[:-4] + 'A===', r):
                out.append(('dec', broken, 'hist-fail')); V(u); E(rng.bytes(n)); V(u)
        # H5. the three spellings of one leading byte: 'xy==' (1 byte), 'xyA=' (+ a zero byte), 'xyAA' (+ two zero bytes) in every order
        for _ in range(4):
            b0 = rng.below(256)
            forms = [bytes([b0]), bytes([b0, 0]), bytes([b0, 0, 0])]
            for order in ((0, 1, 2), (0, 2, 1), (1, 0, 2), (1, 2, 0), (2, 0, 1), (2, 1, 0)):
                salt = rng.bytes(3)
                for i in order: V(b64(forms[i])); E(forms[i])
                V(b64(salt)); E(salt)
            b1 = rng.below(256)
            forms = [bytes([b0, b1]), bytes([b0, b1, 0]), bytes([0, b0, b1]), bytes([b0]), bytes([0, 0, b0]), bytes([0, b0])]
            for k in range(6):
                for i in range(6):
                    f = forms[(i * (k + 1) + k) % 6] if k < 5 else forms[5 - i]
                    E(f); V(b64(f))
                    if rng.chance(1, 2): E(f + forms[i]); V(b64(forms[i] + f))
        # H6. two texts that differ only in letter case (both canonical)
        for n in (3, 6, 9, 30):
            t = b64(rng.bytes(n))
            for u in (t.swapcase(), t.lower(), t.upper()):
                V(t); V(u); V(t); V(t + u); V(u + t)
                E(base64.b64decode(t)); E(base64.b64decode(u))
    # H7. more distinct texts than a small table holds, then the same again (in order, reversed), then each broken in one place
    many = [b64(rng.bytes(3 * rng.range(1, 6) - rng.below(3))) for _ in range(300 if quick else 3000)]
    for t in many: V(t)
    for t in many: V(t)
    for t in reversed(many): V(t)
    for t in many:
        p = rng.below(len(t)); B(t[:p] + badchar() + t[p + 1:]); V(t)
    raws = [rng.bytes(rng.range(1, 16)) for _ in range(300 if quick else 3000)]
    for x in raws: E(x)
    for x in reversed(raws): E(x)
    for x in raws: E(x[:-1]); E(x)
    return out
