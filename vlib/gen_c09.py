"""C09 generator families (HEAD / OPTIONS against GET): the input classes a defect in the method handling of the
controller chain, the serialiser or the CORS block can hinge on and that the base product (path x entry x 7 header
sets) does not reach.  Everything is a deterministic function of the `rng` handed in.

A *triple* is the same request sent with GET, HEAD and OPTIONS (in any emission order); every case carries
`note = (triple id, role, configuration key, family)` and the judge regroups the answers by triple id."""
from vlib import common as C, serve as S, reqgen as G, servecheck as K

ROLE = {'G': 'GET', 'H': 'HEAD', 'O': 'OPTIONS'}
ORDERS = ['GHO', 'GOH', 'HGO', 'HOG', 'OGH', 'OHG']

# ------------------------------------------------------------------ configurations (process environment)
def _env(**cors):
    base = [(k, v) for k, v in S.DEFAULT_ENV if not k.startswith('RWS_CONFIG_CORS')]
    return base + [('RWS_CONFIG_CORS_' + k, v) for k, v in cors.items() if v is not None]

CFG_ORIGINS = ['http://o.example', 'https://app.example:8443']
CFG_METHODS = ['GET', 'PUT', 'DELETE', 'POST', 'PATCH']
CFG_HEADERS = ['X-Custom', 'Content-Type', 'x-one']
ENVS = {
    'default': None,                      # S.DEFAULT_ENV: allow-all
    # the restricted mode with a list that grants what the generated preflights ask for
    'listed': _env(ALLOW_ALL='false', ALLOW_ORIGINS=','.join(CFG_ORIGINS), ALLOW_CREDENTIALS='true', ALLOW_HEADERS=','.join(CFG_HEADERS),
                   ALLOW_METHODS=','.join(CFG_METHODS), EXPOSE_HEADERS='Content-Length', MAX_AGE='5'),
    # the restricted mode with the same lists, and each of the settings that is NOT a list left empty / unset / unreadable: the grants are due all the same
    'listed-cred-empty': _env(ALLOW_ALL='false', ALLOW_ORIGINS=','.join(CFG_ORIGINS), ALLOW_CREDENTIALS='', ALLOW_HEADERS=','.join(CFG_HEADERS),
                   ALLOW_METHODS=','.join(CFG_METHODS), EXPOSE_HEADERS='Content-Length', MAX_AGE='5'),
    'listed-cred-unset': _env(ALLOW_ALL='false', ALLOW_ORIGINS=','.join(CFG_ORIGINS), ALLOW_CREDENTIALS=None, ALLOW_HEADERS=','.join(CFG_HEADERS),
                   ALLOW_METHODS=','.join(CFG_METHODS), EXPOSE_HEADERS='Content-Length', MAX_AGE='5'),
    'listed-cred-odd': _env(ALLOW_ALL='false', ALLOW_ORIGINS=','.join(CFG_ORIGINS), ALLOW_CREDENTIALS='TRUE', ALLOW_HEADERS=','.join(CFG_HEADERS),
                   ALLOW_METHODS=','.join(CFG_METHODS), EXPOSE_HEADERS='', MAX_AGE=''),
    'listed-bare': _env(ALLOW_ALL='false', ALLOW_ORIGINS=','.join(CFG_ORIGINS), ALLOW_CREDENTIALS='false', ALLOW_HEADERS=','.join(CFG_HEADERS),
                   ALLOW_METHODS=','.join(CFG_METHODS), EXPOSE_HEADERS=None, MAX_AGE=None),
    # the restricted mode, nobody listed (no grant is due; HEAD still has to follow GET)
    'closed': _env(ALLOW_ALL='false', ALLOW_ORIGINS='http://other.example', ALLOW_CREDENTIALS='false', ALLOW_HEADERS='', ALLOW_METHODS='', EXPOSE_HEADERS='', MAX_AGE=''),
    # the switch is not a boolean / is not set at all: the code falls back to allow-all
    'notbool': _env(ALLOW_ALL='yes', ALLOW_ORIGINS='http://other.example', ALLOW_CREDENTIALS='', ALLOW_HEADERS='', ALLOW_METHODS='', EXPOSE_HEADERS='', MAX_AGE='86400'),
    'unset': _env(ALLOW_ALL=None, ALLOW_ORIGINS='', ALLOW_CREDENTIALS='', ALLOW_HEADERS='', ALLOW_METHODS='', EXPOSE_HEADERS='', MAX_AGE='86400'),
}
ALLOW_ALL_CFGS = ('default', 'notbool', 'unset')

# ------------------------------------------------------------------ vocabulary
ORIGINS = ['http://o.example', 'https://app.example:8443', 'null', 'http://[::1]:8080', 'HTTP://O.EXAMPLE', 'http://xn--e1afmkfd.xn--p1ai',
           'http://localhost', 'http://127.0.0.1:7878', 'https://' + 'a' * 250 + '.example', 'http://o.example/', 'file://']
ACR_METHODS = list(G.METHODS) + ['put', 'Delete', 'PROPFIND']
ACR_HEADERS = [None, 'X-Custom', 'x-a,x-b', 'X-A, X-B, Content-Type', 'CONTENT-TYPE', 'authorization, content-type, x-requested-with', 'x-' + 'a' * 200,
               'content-type', 'Range', 'x-a ,x-b', ', '.join('x-h%d' % i for i in range(40))]
BROWSER = [('Host', 'localhost:7878'), ('Connection', 'keep-alive'), ('Accept', '*/*'), ('User-Agent', 'Mozilla/5.0 (X11; Linux x86_64) AppleWebKit/537.36'),
           ('Sec-Fetch-Mode', 'cors'), ('Sec-Fetch-Site', 'cross-site'), ('Sec-Fetch-Dest', 'empty'), ('Accept-Encoding', 'gzip, deflate, br'),
           ('Accept-Language', 'en-US,en;q=0.9'), ('Sec-CH-UA-Mobile', '?0'), ('DPR', '2'), ('Save-Data', 'on')]

def respell(rng, name, k=None):
    """header field names are case-insensitive: the spellings clients use"""
    k = rng.below(4) if k is None else k
    return [name, name.lower(), name.upper(), name.title()][k]

# ------------------------------------------------------------------ tree content
def pattern(n, salt=7):
    return bytes((j * 131 + salt * 17 + (j >> 8)) & 0xff for j in range(n))

def extend_tree(rng, t, k, big=False):
    """plants, under the served root of a tree made by serve.gen_tree, one instance of every shape of servable path with a KNOWN
    size (ranges are generated around it); returns [(target, size of the body GET serves | None, kind)].
    k selects whether the files that stand in for the built-in pages exist in the root (k%3 == 0: all, 1: none, 2: as generated)."""
    root = t.cwd + b'/'
    T = []
    def f(rel, content, kind='file', target=None):
        t.file(root + rel, content)
        T.append((target or '/' + rel.decode(), len(content), kind))
    f(b'c9/empty.txt', b'', 'empty')
    f(b'c9/one.bin', b'\x01')
    f(b'c9/ten.txt', b'0123456789')
    f(b'c9/b256.bin', bytes(range(256)))
    f(b'c9/noext', b'no extension at all')
    f(b'c9/.dot', b'dot file')
    f(b'c9/UPPER.HTML', b'<P>UPPER</P>')
    f(b'c9/\xd0\xb4\xd0\xbe\xd0\xba.json', b'{"k": "\xd0\xb4"}')
    page = b'<p>c9 page</p>'
    f(b'c9/page.html', page)
    T.append(('/c9/page', len(page), 'fallback'))
    f(b'c9/v1.2/about.html', b'<p>about</p>'); T.append(('/c9/v1.2/about', 12, 'fallback'))
    f(b'c9/rel.notes.html', b'<p>notes</p>'); T.append(('/c9/rel.notes', 12, 'fallback'))
    idx = b'<h1>c9 index</h1>'
    t.file(root + b'c9/index.html', idx)
    T += [('/c9', len(idx), 'dir'), ('/c9/', len(idx), 'dir/'), ('/c9/index.html', len(idx), 'file'), ('/c9/index', len(idx), 'fallback')]
    # symbolic links whose own name maps to another media type than the file they name (or to none)
    t.link(root + b'c9/current', b'page.html'); T.append(('/c9/current', len(page), 'link'))
    f(b'c9/data.json', b'{"a": 1}')
    t.link(root + b'c9/as-text.txt', b'data.json'); T.append(('/c9/as-text.txt', 8, 'link'))
    t.link(root + b'c9/v1.2/up.css', b'../ten.txt'); T.append(('/c9/v1.2/up.css', 10, 'link'))
    t.link(root + b'c9/lnk', b'page.html'); T.append(('/c9/lnk', len(page), 'link'))
    t.link(root + b'c9/lnkpage.html', b'page.html'); T.append(('/c9/lnkpage', len(page), 'link-fallback'))
    # a directory reached through a link: its index, with and without the slash, and a file below it
    t.link(root + b'c9d', b'c9')
    T += [('/c9d/', len(idx), 'dirlink/'), ('/c9d', len(idx), 'dirlink'), ('/c9d/ten.txt', 10, 'file-below-dirlink'), ('/c9d/page', len(page), 'fallback-below-dirlink')]
    # the names of the built-in pages one level down: the static controller's business, not the built-in controllers'
    f(b'c9/style.css', b'p{color:red}'); f(b'c9/script.js', b'var a=1;'); f(b'c9/favicon.svg', b'<svg xmlns="http://www.w3.org/2000/svg"/>'); f(b'c9/404.html', b'<p>a page named 404</p>')
    # a directory with an index next to a page of the same stem; a directory without one next to such a page; an index that is a directory
    f(b'c9/docs.html', b'<p>docs page</p>')
    t.file(root + b'c9/docs/index.html', b'<p>docs index</p>'); T += [('/c9/docs', 17, 'dir'), ('/c9/docs/', 17, 'dir/')]
    f(b'c9/stem.html', b'<p>stem</p>'); t.dir(root + b'c9/stem'); T.append(('/c9/stem', None, 'dir-without-index-next-to-page'))
    t.dir(root + b'c9/idx/index.html'); T += [('/c9/idx', None, 'index-is-a-directory'), ('/c9/idx/', None, 'index-is-a-directory')]
    t.file(root + b'c9/deep/er/still/file.txt', b'deep file'); T.append(('/c9/deep/er/still/file.txt', 9, 'file'))
    if big:
        for n, ext in ((8193, b'bin'), (65536, b'bin'), (65537, b'txt'), (70001, b'html')):
            f(b'c9/b%d.%s' % (n, ext), pattern(n, n & 0xff), 'big')
    mode = k % 3
    own = {b'style.css': b'body{margin:0} /* own */', b'script.js': b'console.log("own");', b'favicon.svg': b'<svg xmlns="http://www.w3.org/2000/svg" id="own"/>',
           b'index.html': b'<p>own index, planted</p>', b'404.html': b'<p>own 404, planted</p>'}
    if mode == 0:
        for nm, c in own.items(): t.file(root + nm, c)
    elif mode == 1:
        for nm in own: t.files.pop(root + nm, None)
    t.root_has = {nm: (root + nm) in t.files for nm in own}
    for p in ('/', '/style.css', '/script.js', '/favicon.svg'):
        nm = (p[1:] or 'index.html').encode()
        T.append((p, len(t.files[root + nm]) if t.root_has[nm] else None, 'builtin-own-file' if t.root_has[nm] else 'builtin'))
    for nm in (b'index.html', b'404.html', b'style.css'):
        if t.root_has[nm]:
            T.append(('/' + nm.decode(), len(t.files[root + nm]), 'file'))
            if nm.endswith(b'.html'): T.append(('/' + nm.decode()[:-5], len(t.files[root + nm]), 'fallback'))
    t.c9 = T
    return T

# ------------------------------------------------------------------ triples
class Out:
    """collects the cases of one batch; hands out triple ids unique over the whole run"""
    _tid = [0]
    def __init__(self, tree, cfg='default'):
        self.tree, self.cfg, self.cases = tree, cfg, []
    def triple(self, fam, path, hs=(), entry='proc', order='GHO', version='HTTP/1.1', eol=b'\r\n', lead=b'', body=b'', ws='all', tail=b''):
        """`order` may name a role more than once (`HHGO`: HEAD twice before the first GET): every HEAD / OPTIONS answer of the triple is
        judged against every GET answer of it.  `ws`: the write script of the transport (vlib/serve.py).  `tail`: bytes the client sent
        right behind the request (a second request in the same piece)."""
        Out._tid[0] += 1
        tid = Out._tid[0]
        for n, role in enumerate(order):
            m = ROLE[role]
            raw = None
            if eol != b'\r\n' or lead or tail:
                raw = lead + G.req(m, path, version, hs, body, eol) + tail
            self.cases.append(K.mk(self.tree, m, path, hs, body=body, version=version, entry=entry, raw=raw, ws=ws, kind='triple',
                                   note=(tid, role, self.cfg, fam, n, bool(tail))))

def ranges_for(n):
    """Range values around a body of n bytes (n None: size not known to the generator)"""
    n = 20 if n is None else n
    lo = max(n - 1, 0)
    return ['bytes=0-', 'bytes=0-0', f'bytes=0-{lo}', f'bytes=0-{n}', f'bytes=0-{n + 1}', f'bytes={lo}-', f'bytes={n}-', f'bytes={n + 1}-', f'bytes={lo}-{lo}', f'bytes={lo}-{n}',
            'bytes=-1', f'bytes=-{n}', f'bytes=-{n + 1}', f'bytes=-{lo}', 'bytes=-0', 'bytes=1-1', 'bytes=1-', 'bytes=0-1',
            'bytes=0-0,1-1', 'bytes=0-0, -1', 'bytes=0-0,0-0', f'bytes=0-0,{lo}-', 'bytes=0-,0-', 'bytes=0-0,1-1,2-2',
            'bytes= 0 - 0 ', 'bytes=0-0,', 'bytes=', 'bytes=00-000', 'bytes=0-99999999999999999999', 'bytes=0-18446744073709551615', 'bytes=0-18446744073709551614',
            'bytes=1-0', 'bytes=a-b', 'bits=0-0', 'Bytes=0-0', 'bytes=0-0-0', 'bytes=-', 'bytes=--1', '0-0']
MULTI = ['bytes=0-0,1-1', 'bytes=0-0, -1', 'bytes=0-0,0-0', 'bytes=0-,0-', 'bytes=0-0,1-1,2-2']

def fam_range(rng, o, T, quick):
    """C09a's class widened: HEAD/OPTIONS with every shape of Range on every kind of servable path, the header name in the spellings
    clients use, alone and together with Origin / a preflight"""
    i = 0
    for ti, (tgt, n, kind) in enumerate(T):
        rs = ranges_for(n)
        pick = [rng.choice(rs), rng.choice(MULTI + rs[:4])][ti % 2:] if quick else rs
        if quick: pick.append(rng.choice([f'bytes={max(n - 1, 0)}-', f'bytes={n}-', f'bytes=0-{n}', f'bytes=-{n}', f'bytes=-{n + 1}'] if n is not None else rs))
        for rv in pick:
            i += 1
            name = ['Range', 'Range', 'range', 'RANGE'][i % 4]
            hs = [(name, rv)]
            if i % 3 == 1: hs = [('Origin', 'http://o.example')] + hs
            if i % 3 == 2: hs = hs + [('Origin', 'https://app.example:8443'), ('Access-Control-Request-Method', 'DELETE'), ('Access-Control-Request-Headers', 'x-one')]
            for entry in (('proc', 'preq') if i % 5 == 0 else (('proc', 'preq')[i % 2],)):
                o.triple('range', tgt, hs, entry)

def fam_preflight(rng, o, T, quick, cfg_vocab=False):
    """every row of the method table as the requested method, the shapes a requested-header list takes, origins in every serialisation,
    the three headers in every order, amid the header block a browser sends, field names in other letter case"""
    kinds = {}
    for tgt, n, kind in T: kinds.setdefault(kind, []).append(tgt)
    tgts = [v[0] for k, v in kinds.items() if k in ('file', 'dir', 'dir/', 'fallback', 'link', 'dirlink/', 'builtin', 'builtin-own-file', 'empty')] + ['/', '/style.css', '/script.js', '/favicon.svg']
    i = 0
    meths = CFG_METHODS + ['put'] if cfg_vocab else ACR_METHODS
    heads = [None, 'X-Custom', 'x-one, content-type', 'CONTENT-TYPE', 'x-custom,content-type,x-one'] if cfg_vocab else ACR_HEADERS
    origs = CFG_ORIGINS if cfg_vocab else ORIGINS
    combos = []
    for a in range(max(len(meths), len(heads), len(origs)) * (1 if quick else 2)):
        combos.append((meths[a % len(meths)], heads[(a * 5 + a // len(heads)) % len(heads)], origs[(a * 3 + a // len(origs)) % len(origs)]))
    for m, h, og in combos:
        i += 1
        block = [('Origin', og), ('Access-Control-Request-Method', m)] + ([('Access-Control-Request-Headers', h)] if h is not None else [])
        if i % 4 == 1: block.reverse()
        if i % 4 == 2: block = block[1:] + block[:1]
        if i % 5 == 0: block = [(respell(rng, nme, 1 + i % 3), v) for nme, v in block]
        if i % 3 == 0:
            j = rng.range(0, len(BROWSER))
            block = BROWSER[:j] + block + BROWSER[j:]
        for tgt in ([tgts[i % len(tgts)], tgts[(i * 7 + 3) % len(tgts)]] if quick else tgts):
            for entry in (('proc', 'preq') if not quick else (('proc', 'preq')[(i + len(tgt)) % 2],)):
                o.triple('preflight', tgt, block, entry)
    # no Origin at all, Origin alone amid the browser block, an Origin that is the empty string
    for tgt in tgts[:4 if quick else None]:
        o.triple('preflight', tgt, BROWSER[:4] + [('Origin', origs[0])] + BROWSER[4:], 'proc')
        o.triple('preflight', tgt, [('Access-Control-Request-Method', 'PUT')], 'preq')
        if not cfg_vocab: o.triple('preflight', tgt, [('Origin', ''), ('Access-Control-Request-Method', 'PUT')], 'proc')

def spellings(p):
    out = [p + '?', p + '?v=1', p + '?a=b&c=d', p + '?x=/../y', p + '?q=a%20b&r=%2e%2e', p + '#frag', p + '?a#b', p + '?redirect=/c9/page.html', p + '?.html', '/' + p, p.replace('/', '//'),
           p.replace('/c9', '/./c9', 1), p.replace('/c9', '/c9/.', 1)]
    if not p.endswith('/'): out += [p + '/', p + '/.', p + '.html', p + '%2ehtml']
    else: out += [p + '/', p + '.', p + 'index.html', p + '?index.html']
    return out

ROOTS = ['/', '//', '/./', '/.', '/?', '/?v=1', '/#', '/#top', '/index.html', '/index', '/index.html?v=1', '/404.html', '/404', '/style.css?v=1', '/style.css/', '/STYLE.CSS', '/style.css#x',
         '/favicon.svg?', '/script.js?cache=0', '//style.css', '/./script.js', '/favicon.ico', '/c9/../c9/ten.txt', '/%63%39/ten.txt', '/c9/ten.txt%00', '/c9/ten.txt;v=1', '/c9\\ten.txt']

def fam_target(rng, o, T, quick):
    """the same servable path in every spelling of the target: query strings (empty, several keys, ones that look like paths), fragments,
    doubled slashes, dot segments, a slash after a file, the root and the built-in pages with decorations"""
    i = 0
    for tgt, n, kind in T:
        if not tgt.startswith('/c9'): continue
        sp = spellings(tgt)
        for s in ([rng.choice(sp)] if quick else sp):
            i += 1
            hs = [[], [('Origin', 'http://o.example')], [('Range', 'bytes=0-0')], [('Origin', 'http://o.example'), ('Access-Control-Request-Method', 'PUT')]][i % 4]
            for entry in (('proc', 'preq') if not quick else (('proc', 'preq')[i % 2],)):
                o.triple('target', s, hs, entry)
    for s in (ROOTS if not quick else [r for r in ROOTS if rng.chance(2, 3)]):
        i += 1
        hs = [[], [('Origin', 'http://o.example'), ('Access-Control-Request-Method', 'POST'), ('Access-Control-Request-Headers', 'content-type')]][i % 2]
        for entry in (('proc', 'preq') if not quick else (('proc', 'preq')[(i // 2) % 2],)):
            o.triple('target', s, hs, entry)

def fam_framing(rng, o, T, quick):
    """the request around the target: other protocol versions, bare-LF line ends, a blank before the method, a header block before the
    CORS headers, Content-Length: 0 / a body, the same header given twice"""
    pre = [('Origin', 'http://o.example'), ('Access-Control-Request-Method', 'PUT'), ('Access-Control-Request-Headers', 'X-Custom')]
    tg = [x for x in T if x[2] in ('file', 'dir', 'fallback', 'link', 'builtin', 'builtin-own-file', 'dirlink/')]
    tgts = [tg[rng.below(len(tg))][0], '/'] if quick else [x[0] for x in tg]
    i = 0
    for tgt in tgts:
        for kw in ([dict(version=v) for v in ('HTTP/1.0', 'HTTP/2.0', 'HTTP/0.9', 'http/1.1')] + [dict(eol=b'\n'), dict(lead=b' '), dict(lead=b'\t '), dict(eol=b'\n', version='HTTP/1.0')]):
            i += 1
            for hs in ((pre, [('Range', 'bytes=0-0')]) if not quick else ([pre, [('Range', 'bytes=0-0')], []][i % 3],)):
                o.triple('framing', tgt, hs, ('proc', 'preq')[i % 2], **kw)
        for hs, body in (([('Content-Length', '0')] + pre, b''), (pre + [('Content-Length', '5'), ('Content-Type', 'text/plain')], b'hello'),
                         ([('Range', 'bytes=0-0'), ('Range', 'bytes=0-0')], b''), ([('Range', 'bytes=0-0'), ('range', 'bytes=1-1')], b''), ([('range', 'bytes=1-'), ('Range', 'bytes=0-0')], b''),
                         ([('Origin', 'http://o.example'), ('Origin', 'http://o.example')] + pre[1:], b''), (BROWSER + pre + [('Range', 'bytes=0-')], b''),
                         ([('X-Pad', 'p' * 3000)] + pre, b''), (pre + [('If-None-Match', '"x"'), ('If-Modified-Since', 'Sat, 01 Jan 2022 00:00:00 GMT'), ('If-Range', '"x"')], b'')):
            i += 1
            for entry in (('proc', 'preq') if not quick else (('proc', 'preq')[i % 2],)):
                o.triple('framing', tgt, hs, entry, body=body)

def fam_order(rng, o, T, quick):
    """histories: the three requests of a triple in every order (HEAD or OPTIONS before the first GET of a path), and a path asked for again
    after other paths were served"""
    tg = [x[0] for x in T if x[2] in ('file', 'dir', 'fallback', 'link', 'builtin', 'builtin-own-file', 'empty')]
    hss = [[], [('Origin', 'http://o.example'), ('Access-Control-Request-Method', 'PUT')], [('Range', 'bytes=0-0')],
           [('Origin', 'https://app.example:8443'), ('Access-Control-Request-Method', 'DELETE'), ('Access-Control-Request-Headers', 'x-one')]]
    i = 0
    for tgt in ([tg[rng.below(len(tg))] for _ in range(3)] if quick else tg):
        for order in ORDERS[1:]:
            i += 1
            o.triple('order', tgt, hss[i % len(hss)], ('proc', 'preq')[i % 2], order=order)
    # two preflights that differ in one requested thing only, back to back
    for tgt in tg[:2 if quick else 3]:
        for a, b in ((('PUT', 'x-a'), ('PUT', 'x-b')), (('PUT', 'x-a'), ('DELETE', 'x-a'))):
            for m, h in (a, b, a):
                o.triple('order', tgt, [('Origin', 'http://o.example'), ('Access-Control-Request-Method', m), ('Access-Control-Request-Headers', h)], 'proc', order='OHG')

def fam_entry(rng, o, T):
    """the two application handlers called directly (no server loop in front)"""
    for tgt, n, kind in T:
        for entry in ('aexec', 'aexecl'):
            o.triple('entry', tgt, [('Origin', 'http://o.example'), ('Access-Control-Request-Method', 'PUT')], entry)
            o.triple('entry', tgt, [('Range', 'bytes=0-0')], entry)

def clone(t):
    """the same tree under a scratch root of its own (a batch is one process with one tree)"""
    n = S.Tree(t.cwd)
    n.files, n.dirs = dict(t.files), list(t.dirs)
    # a link target that spells out the scratch root of the original (serve.gen_tree's climb.lnk) names the clone's root
    n.links = {k: v.replace(t.root[1:], n.root[1:]) for k, v in t.links.items()}
    for a in ('names', 'c9', 'root_has'):
        if hasattr(t, a): setattr(n, a, getattr(t, a))
    return n

def split(tree, cases, maxn):
    """one batch per at most maxn cases (whole triples: a triple may have more than three cases), each on a clone of the tree"""
    if len(cases) <= maxn: return [(tree, cases)]
    k = -(-len(cases) // maxn)
    per = -(-len(cases) // k)
    out, cur = [], []
    for i, c in enumerate(cases):
        if len(cur) >= per and c.note[0] != cases[i - 1].note[0]:
            out.append(cur); cur = []
        cur.append(c)
    if cur: out.append(cur)
    res = []
    for i, cs in enumerate(out):
        t = tree if i == 0 else clone(tree)
        for c in cs: c.tree = t
        res.append((t, cs))
    return res

NO_MODEL = ('special',)      # groups whose trees reach into the machine's own file system (/proc, a sparse file): the model does not have it

def run_groups(groups, with_model):
    """groups: [(configuration key, [(tree, cases)])]; every configuration is one run_batches call (the environment is process state),
    all of them at the same time; returns the concatenated results"""
    import threading
    out = [None] * len(groups)
    def work(i):
        cfg, batches = groups[i]
        out[i] = K.run_batches(batches, with_model=with_model and cfg not in NO_MODEL, env=ENVS[cfg])
    ts = [threading.Thread(target=work, args=(i,)) for i in range(len(groups))]
    for t in ts: t.start()
    for t in ts: t.join()
    return [x for r in out for x in r]

# ====================================================================== second audit pass
# Features a maintainer of a static web server plausibly adds on the HEAD / OPTIONS / GET path, and for each the RELATION between
# two inputs that exposes a careless implementation (the table is in audit/C09/AUDIT2.md):
#   a header the server ignores today x the kind of path x the method;  a file and its NEIGHBOUR (precompressed side file, header
#   side file);  the CONTENT of a file and what a rewriting step does to it (HEAD announces a length, GET sends a body);  the FIRST
#   request for a path being a HEAD or OPTIONS;  Host / Forwarded next to Origin;  what the transport takes per write call and what
#   follows the request in the same piece;  files of the machine itself behind links (/proc, devices, a sparse file beyond 2^31).

ENVS.update({
    # the restricted mode with LONG lists: the asking origin in the middle and at the end, namesakes that share a prefix with it
    'listed-many': _env(ALLOW_ALL='false', ALLOW_ORIGINS=','.join(['http://o.exampl', 'http://o.example.evil.test', 'https://o.example', 'http://a.example', 'http://b.example:8080',
                                                                  'http://o.example', 'null', 'http://c.example', 'http://app.example:8443', 'https://app.example', 'https://app.example:8443']),
                        ALLOW_CREDENTIALS='true', ALLOW_HEADERS='Accept,Authorization,X-Custom,Content-Type,x-one,X-Requested-With', ALLOW_METHODS='OPTIONS,HEAD,GET,PUT,DELETE,POST,PATCH',
                        EXPOSE_HEADERS='Content-Length,ETag', MAX_AGE='600'),
    # allow-all WITH lists that do not name the asker: "this setting won't apply if cors allow_all set to true" (rws.config.toml)
    'all-with-lists': _env(ALLOW_ALL='true', ALLOW_ORIGINS='http://other.example', ALLOW_CREDENTIALS='false', ALLOW_HEADERS='accept', ALLOW_METHODS='GET', EXPOSE_HEADERS='', MAX_AGE='1'),
    'special': None, 'features': None,
})
ALLOW_ALL_CFGS = ALLOW_ALL_CFGS + ('all-with-lists', 'special')
CFG_LISTS = {'listed-many': (CFG_ORIGINS, CFG_METHODS + ['OPTIONS', 'HEAD'], CFG_HEADERS + ['Accept', 'Authorization', 'X-Requested-With'])}

def gz(data):
    import gzip
    return gzip.compress(data, 6, mtime=0)

def text(n, salt=0):
    """n bytes of text that compresses well"""
    words = [b'static', b'file', b'server', b'header', b'range', b'content', b'length', b'head', b'options', b'origin', b'preflight', b'index']
    out, i = b'', salt
    while len(out) < n:
        out += words[i % len(words)] + (b' ' if i % 9 else b'\n'); i += 1
    return out[:n]

FULL_HTML = (b'<!DOCTYPE html>\n<html lang="en">\n<head>\n  <meta charset="utf-8">\n  <title>full</title>\n  <link rel="stylesheet" href="/style.css">\n</head>\n'
             b'<body>\n  <!-- a comment -->\n  <h1>Full   document</h1>\n  <script src="/script.js"></script>\n</body>\n</html>\n')
FUTURE, PAST = 'Fri, 01 Jan 2100 00:00:00 GMT', 'Sat, 01 Jan 2000 00:00:00 GMT'

def extend_tree2(rng, t, k):
    """plants the neighbours, contents and names the features of the second pass hinge on, below /c9n (and a few links to the machine's
    own devices); returns {group: [(target, size of the body GET serves today | None, kind)]}"""
    root = t.cwd + b'/'
    Gp = {}
    def f(group, rel, content, kind='file', target=None, serve=True):
        t.file(root + rel, content)
        if serve: Gp.setdefault(group, []).append((target or '/' + rel.decode('utf-8', 'surrogateescape'), len(content), kind))
    def also(group, target, n, kind): Gp.setdefault(group, []).append((target, n, kind))
    # --- a file and its precompressed / descriptive neighbours (side file older: planted BEFORE the file; newer: after it)
    plain = text(1500, 1)
    # older than the file and made from other text: the side file is the FIRST file of the whole tree that is written, the file itself the last one
    # (the harness writes the files in this order; a file system with coarse time stamps needs the distance)
    t.files = {root + b'c9n/old.css.gz': gz(text(900, 5)), root + b'c9n/fresh/old.txt.gz': gz(b'made from an older text'), **t.files}
    also('side', '/c9n/old.css', 1200, 'side-older')
    f('side', b'c9n/text.txt', plain, 'side-newer')
    t.file(root + b'c9n/text.txt.gz', gz(plain)); t.file(root + b'c9n/text.txt.br', b'\x1b\xdb\x05 not really brotli')
    f('side', b'c9n/doc.html', FULL_HTML, 'side-page'); also('side', '/c9n/doc', len(FULL_HTML), 'side-fallback')
    t.file(root + b'c9n/doc.html.gz', gz(FULL_HTML)); t.file(root + b'c9n/doc.gz', gz(b'not the page'))
    idx = b'<!DOCTYPE html><html><head><title>site</title></head><body>' + text(700, 3) + b'</body></html>'
    t.file(root + b'c9n/site/index.html', idx); t.file(root + b'c9n/site/index.html.gz', gz(idx))
    also('side', '/c9n/site/', len(idx), 'side-dir/'); also('side', '/c9n/site', len(idx), 'side-dir')
    t.file(root + b'c9n/only.js.gz', gz(b'var only = 1;')); also('side', '/c9n/only.js', None, 'side-without-file')
    f('side', b'c9n/none.txt', b'', 'side-larger-than-empty-file'); t.file(root + b'c9n/none.txt.gz', gz(b''))
    also('side', '/c9n/text.txt.gz', len(gz(plain)), 'side-itself')
    f('side', b'c9n/fake.svg', b'<svg xmlns="http://www.w3.org/2000/svg">' + text(1100, 4) + b'</svg>', 'side-not-compressed')
    t.file(root + b'c9n/fake.svg.gz', b'this is not gzip at all')
    for ext, c in ((b'.headers', b'X-Side: 1\nCache-Control: max-age=60\n'), (b'.meta', b'{"content-type": "text/x-side"}'), (b'.etag', b'"side-etag"'), (b'.md5', b'0' * 32), (b'.sha256', b'0' * 64)):
        t.file(root + b'c9n/text.txt' + ext, c)
    t.file(root + b'c9n/_headers', b'/c9n/*\n  X-Dir: 1\n'); t.file(root + b'c9n/.htaccess', b'Header set X-Dir "1"\n'); t.file(root + b'c9n/.headers', b'X-Dir: 1\n')
    # --- sizes around the thresholds a compress-on-the-fly step is given (20, 150, 256, 860, 1024, 1400 bytes), in the media types it picks
    for n, nm in ((19, b't19.txt'), (150, b't150.css'), (256, b't256.html'), (860, b't860.js'), (1023, b't1023.txt'), (1024, b't1024.json'), (1025, b't1025.txt'), (1400, b't1400.svg'), (3000, b't3000.html'), (9000, b't9000.css')):
        f('size', b'c9n/' + nm, text(n, n), 'size-%d' % n)
    # --- contents a rewriting step touches: GET sends what was rewritten, HEAD announces a length
    f('content', b'c9n/full.html', FULL_HTML, 'html-document')
    f('content', b'c9n/bom.txt', b'\xef\xbb\xbfbyte order mark first\n', 'bom')
    f('content', b'c9n/bom.html', b'\xef\xbb\xbf<html><body>bom</body></html>', 'bom')
    f('content', b'c9n/crlf.txt', b'line one\r\nline two\r\n\r\nline four\r\n', 'crlf')
    f('content', b'c9n/ssi.html', b'<html><body><!--#include virtual="/c9/ten.txt" --><!--#echo var="DATE_LOCAL" --></body></html>', 'include')
    f('content', b'c9n/ssi.shtml', b'<!--#include file="text.txt" -->', 'include')
    f('content', b'c9n/tmpl.html', b'<html><head><title>{{ title }}</title></head><body><%= body %> ${user} {% include "x" %}</body></html>', 'template')
    f('content', b'c9n/readme.md', b'# Title\n\n* item *one*\n* item **two**\n\n[link](/c9/page)\n', 'markdown')
    f('content', b'c9n/latin1.txt', b'caf\xe9 cr\xe8me \xff\xfe', 'not-utf-8')
    f('content', b'c9n/utf16.txt', '﻿wide text'.encode('utf-16-le'), 'utf-16')
    f('content', b'c9n/nul.txt', b'a\x00b\x00\x00c', 'nul-bytes')
    f('content', b'c9n/min.css', b'/* comment */\nbody  {\n    margin : 0 ;\n}\n\n\n', 'minify')
    f('content', b'c9n/pretty.json', b'{\n  "a" : 1,\n  "b" : [ 1, 2, 3 ]\n}\n', 'minify')
    f('content', b'c9n/app.js', b'// comment\nfunction  f ( a ) {\n  return a ;\n}\n//# sourceMappingURL=app.js.map\n', 'minify')
    t.file(root + b'c9n/app.js.map', b'{"version":3}')
    f('content', b'c9n/spaces.txt', b'   \n\t\n  ', 'blank')
    f('content', b'c9n/feed.xml', b'<?xml version="1.0" encoding="UTF-8"?>\n<feed><entry/></feed>\n', 'xml')
    f('content', b'c9n/http.txt', b'HTTP/1.1 200 OK\r\nContent-Length: 0\r\n\r\n', 'looks-like-an-answer')
    # --- names: characters that are escaped in a target, two names that differ in case only, the escaped spellings of plain names
    for nm in (b'100%.txt', b'plus+.txt', b'tilde~.txt', b'comma,x.txt', b'eq=.txt', b'at@.txt', b'paren(1).txt', b'colon:.txt', b'excl!.txt', b'star*.txt', b'Case.TXT', b'case.txt',
               b'\xd0\xb4.txt', b'caf\xc3\xa9.html', b'%41.txt', b'A.txt', b'dot..txt', b'two.dots.tar.gz', b'-dash.txt', b'~user.txt'):
        f('name', b'c9n/n/' + nm, b'name:' + nm, 'name')
    also('name', '/c9n/n/café', 14, 'name-fallback')
    for tg in ('/c9n/n/100%25.txt', '/c9n/n/plus%2B.txt', '/c9n/n/%41.txt', '/c9n/n/%2541.txt', '/c9n/n/%74ilde~.txt', '/c9n/n/tilde%7E.txt', '/c9n/n/%D0%B4.txt', '/c9n/n/%d0%b4.txt', '/c9n/n/caf%C3%A9',
               '/c9n%2Fn%2FA.txt', '/c9n/n/CASE.TXT', '/c9n/n/Case.txt', '/c9n/n/a.txt', '/c9n/n/A.TXT', '/c9n/n/A%2Etxt', '/c9n/n/A.txt%20', '/c9n/n/A.txt.', '/c9n/n/A.txt::$DATA', '/C9N/n/A.txt'):
        also('escaped', tg, None, 'escaped')
    # --- directories: files but no index; other default documents; a listing would have to escape these names
    t.file(root + b'c9n/list/one.txt', b'1'); t.file(root + b'c9n/list/<b>&amp;.txt', b'2'); t.file(root + b'c9n/list/sub/three.txt', b'3'); t.dir(root + b'c9n/list/empty')
    t.file(root + b'c9n/htm/index.htm', b'<p>index.htm</p>'); t.file(root + b'c9n/dflt/default.html', b'<p>default</p>'); t.file(root + b'c9n/both/index.htm', b'<p>htm</p>')
    t.file(root + b'c9n/both/index.html', b'<p>html</p>'); also('dirs', '/c9n/both/', 11, 'dir/'); also('dirs', '/c9n/both', 11, 'dir')
    t.file(root + b'c9n/md/README.md', b'# readme'); t.file(root + b'c9n/md/index.md', b'# index')
    for tg in ('/c9n/list/', '/c9n/list', '/c9n/list/sub/', '/c9n/list/empty/', '/c9n/htm/', '/c9n/htm', '/c9n/dflt/', '/c9n/md/', '/c9n/', '/c9n'):
        also('dirs', tg, None, 'dir-without-index')
    # --- paths nobody has asked for before the family `first` does
    for i in range(12):
        f('fresh', b'c9n/fresh/f%d.txt' % i, b'fresh %d ' % i + text(40 * i, i), 'fresh-file')
    for i in range(4):
        t.file(root + b'c9n/fresh/d%d/index.html' % i, b'<p>fresh index %d</p>' % i); also('fresh', '/c9n/fresh/d%d' % i + ('/' if i % 2 else ''), 20, 'fresh-dir')
        t.file(root + b'c9n/fresh/p%d.html' % i, b'<p>fresh page %d</p>' % i); also('fresh', '/c9n/fresh/p%d' % i, 19, 'fresh-fallback')
        t.file(root + b'c9n/fresh/z%d.txt' % i, plain); t.file(root + b'c9n/fresh/z%d.txt.gz' % i, gz(b'stale ' + plain)); also('fresh', '/c9n/fresh/z%d.txt' % i, len(plain), 'fresh-side')
        t.link(root + b'c9n/fresh/l%d' % i, b'p%d.html' % i); also('fresh', '/c9n/fresh/l%d' % i, 19, 'fresh-link')
    # --- what is not a regular file: devices behind links (directly, as a page, as an index), a link to nothing, a link to itself, a directory that contains itself
    for nm, tgt in ((b'null.txt', b'/dev/null'), (b'zero.bin', b'/dev/zero'), (b'full', b'/dev/full'), (b'nullpage.html', b'/dev/null'), (b'gone.txt', b'nowhere.txt'), (b'loop.txt', b'loop.txt')):
        t.link(root + b'c9n/dev/' + nm, tgt)
    t.link(root + b'c9n/dev/idx/index.html', b'/dev/null'); t.link(root + b'c9n/dev/devices', b'/dev'); t.file(root + b'c9n/dev/real.txt', b'a regular file next to the links')
    for tg in ('/c9n/dev/null.txt', '/c9n/dev/zero.bin', '/c9n/dev/full', '/c9n/dev/nullpage', '/c9n/dev/nullpage.html', '/c9n/dev/idx/', '/c9n/dev/idx', '/c9n/dev/devices/null', '/c9n/dev/devices/',
               '/c9n/dev/gone.txt', '/c9n/dev/loop.txt'):
        also('special', tg, None, 'not-a-regular-file')
    also('special', '/c9n/dev/real.txt', 32, 'file')
    t.file(root + b'c9n/old.css', text(1200, 2)); t.file(root + b'c9n/fresh/old.txt', text(300, 6)); also('fresh', '/c9n/fresh/old.txt', 300, 'fresh-side')
    t.c9n = Gp
    return Gp

# ------------------------------------------------------------------ headers the server ignores today
def feature_sets():
    """[(feature, activating?, headers, body)]: one header (or a pair that belongs together) of a feature the server does not have today.
    `activating` marks the values under which a careless implementation of the feature takes its new branch on ANY file."""
    S_ = []
    def a(feat, hs, hot=False, body=b''): S_.append((feat, hot, hs, body))
    # conditional requests: a validator that matches whatever the file is / never matches
    a('conditional', [('If-None-Match', '*')], True); a('conditional', [('If-Modified-Since', FUTURE)], True)
    a('conditional', [('If-Modified-Since', PAST)]); a('conditional', [('If-Unmodified-Since', PAST)], True); a('conditional', [('If-Unmodified-Since', FUTURE)])
    a('conditional', [('If-Match', '"no-such-tag"')], True); a('conditional', [('If-Match', '*')]); a('conditional', [('If-None-Match', '"x", W/"y"')]); a('conditional', [('If-None-Match', 'W/"x"')])
    a('conditional', [('If-Modified-Since', 'yesterday')]); a('conditional', [('If-Modified-Since', '0')]); a('conditional', [('If-Modified-Since', '99999999999999999999')])
    a('conditional', [('If-None-Match', '*'), ('If-Modified-Since', PAST)]); a('conditional', [('if-none-match', '*')]); a('conditional', [('IF-MODIFIED-SINCE', FUTURE)])
    a('conditional', [('If-Modified-Since-Unix-Epoch-Nanos', '99999999999999999999')]); a('conditional', [('If-Modified-Since-Unix-Epoch-Nanos', '4102444800000000000')], True)
    a('conditional', [('If-Unmodified-Since-Unix-Epoch-Nanos', '1')]); a('conditional', [('Last-Modified-Unix-Epoch-Nanos', '4102444800000000000')])
    # a range under a condition
    a('if-range', [('Range', 'bytes=0-0'), ('If-Range', FUTURE)]); a('if-range', [('Range', 'bytes=0-0'), ('If-Range', PAST)], True); a('if-range', [('Range', 'bytes=1-'), ('If-Range', '"no-such-tag"')], True)
    a('if-range', [('If-Range', 'W/"x"'), ('Range', 'bytes=-1')]); a('if-range', [('Range', 'bytes=0-0,1-1'), ('If-Range', PAST)]); a('if-range', [('Range', 'bytes=0-0'), ('If-None-Match', '*')], True)
    a('if-range', [('Range', 'bytes=0-0'), ('If-Match', '"no-such-tag"')]); a('if-range', [('Range', 'bytes=0-0'), ('If-Unmodified-Since', PAST)]); a('if-range', [('If-Range', PAST)])
    # content codings
    a('coding', [('Accept-Encoding', 'gzip')], True); a('coding', [('Accept-Encoding', 'gzip, deflate, br')], True); a('coding', [('Accept-Encoding', 'br')], True); a('coding', [('Accept-Encoding', 'identity')])
    a('coding', [('Accept-Encoding', 'gzip;q=0')]); a('coding', [('Accept-Encoding', '*')]); a('coding', [('Accept-Encoding', 'identity;q=0, gzip;q=0.5')]); a('coding', [('Accept-Encoding', 'zstd, x-gzip')])
    a('coding', [('Accept-Encoding', 'GZIP')]); a('coding', [('Accept-Encoding', '')]); a('coding', [('accept-encoding', 'gzip')]); a('coding', [('Accept-Encoding', 'deflate')])
    a('coding', [('Accept-Encoding', 'gzip'), ('Range', 'bytes=0-0')], True); a('coding', [('Range', 'bytes=-1'), ('Accept-Encoding', 'gzip, br')]); a('coding', [('TE', 'gzip')]); a('coding', [('TE', 'trailers'), ('Connection', 'TE')])
    a('coding', [('Accept-Encoding', 'gzip'), ('If-Modified-Since', FUTURE)])
    # interim answers, bodies announced on a request that has none
    a('expect', [('Expect', '100-continue')], True); a('expect', [('Expect', '100-Continue'), ('Content-Length', '0')]); a('expect', [('Expect', '100-continue'), ('Content-Length', '5')], True, b'hello')
    a('expect', [('Expect', 'x-unknown')]); a('expect', [('Expect', '')]); a('expect', [('expect', '100-continue'), ('Content-Length', '5')])   # announced, not sent
    a('body', [('Transfer-Encoding', 'chunked')], False, b'0\r\n\r\n'); a('body', [('Transfer-Encoding', 'chunked')], False, b'5\r\nhello\r\n0\r\n\r\n'); a('body', [('Transfer-Encoding', 'chunked')])
    a('body', [('Content-Length', '5'), ('Content-Encoding', 'gzip')], False, b'hello'); a('body', [('Content-Length', '3')], False, b'hello'); a('body', [('Content-Length', '9')], False, b'hello')
    a('body', [('Content-Type', 'application/json')]); a('body', [('Content-Length', '0'), ('Content-Type', 'text/plain')])
    # connection management, protocol switches
    a('connection', [('Connection', 'keep-alive')], True); a('connection', [('Connection', 'close')], True); a('connection', [('Connection', 'Keep-Alive'), ('Keep-Alive', 'timeout=5, max=100')])
    a('connection', [('Connection', 'Upgrade, HTTP2-Settings'), ('Upgrade', 'h2c'), ('HTTP2-Settings', 'AAMAAABkAAQCAAAAAAIAAAAA')], True)
    a('connection', [('Connection', 'Upgrade'), ('Upgrade', 'websocket'), ('Sec-WebSocket-Key', 'dGhlIHNhbXBsZSBub25jZQ=='), ('Sec-WebSocket-Version', '13')], True)
    a('connection', [('Proxy-Connection', 'keep-alive')]); a('connection', [('Connection', 'keep-alive, close')]); a('connection', [('connection', 'CLOSE')]); a('connection', [('Upgrade', 'h2c')])
    # the method, the target or the client named in a header
    for v in ('GET', 'HEAD', 'OPTIONS', 'POST', 'DELETE'): a('override', [('X-HTTP-Method-Override', v)], v in ('GET', 'HEAD'))
    a('override', [('X-HTTP-Method', 'GET')]); a('override', [('X-Method-Override', 'HEAD')]); a('override', [('x-http-method-override', 'get')])
    a('override', [('X-Original-URL', '/c9/ten.txt')], True); a('override', [('X-Rewrite-URL', '/')]); a('override', [('X-Original-Method', 'GET')])
    a('proxy', [('X-Forwarded-For', '203.0.113.7')]); a('proxy', [('X-Forwarded-Proto', 'https')], True); a('proxy', [('X-Forwarded-Host', 'www.example')]); a('proxy', [('Forwarded', 'for=203.0.113.7;proto=https;host=www.example')])
    a('proxy', [('X-Forwarded-Proto', 'https'), ('X-Forwarded-Host', 'o.example'), ('X-Forwarded-Port', '443')]); a('proxy', [('Via', '1.1 proxy')]); a('proxy', [('X-Real-IP', '203.0.113.7')]); a('proxy', [('Max-Forwards', '0')], True)
    a('proxy', [('X-Forwarded-Prefix', '/c9')]); a('proxy', [('X-Request-Id', 'req-1')]); a('proxy', [('Traceparent', '00-0af7651916cd43dd8448eb211c80319c-b7ad6b7169203331-01')])
    a('host', [('Host', 'localhost:7878')], True); a('host', [('Host', 'www.example')]); a('host', [('Host', '')]); a('host', [('Host', 'a.example'), ('Host', 'b.example')]); a('host', [('Host', 'LOCALHOST:7878')])
    a('host', [('Host', '[::1]:7878')]); a('host', [('Host', 'localhost:80')]); a('host', [('Host', '127.0.0.1:7878')])
    # negotiation, preferences, client hints (the server advertises Accept-CH / Critical-CH itself), caches
    a('negotiate', [('Accept', 'image/png')], True); a('negotiate', [('Accept', 'text/html')]); a('negotiate', [('Accept', '*/*;q=0')]); a('negotiate', [('Accept', 'application/json, text/plain;q=0.5')])
    a('negotiate', [('Accept', 'text/html,application/xhtml+xml,application/xml;q=0.9,image/avif,image/webp,*/*;q=0.8')], True); a('negotiate', [('Accept-Language', 'de-DE, de;q=0.9')]); a('negotiate', [('Accept-Charset', 'iso-8859-1')])
    a('negotiate', [('Accept', 'image/webp')]); a('negotiate', [('Accept', '')]); a('negotiate', [('Accept-Ranges', 'none')]); a('negotiate', [('Accept-Datetime', PAST)])
    a('prefer', [('Prefer', 'return=minimal')], True); a('prefer', [('Prefer', 'return=representation')]); a('prefer', [('Want-Digest', 'sha-256')], True); a('prefer', [('Want-Repr-Digest', 'sha-256=10')]); a('prefer', [('Want-Content-Digest', 'sha-256=10')])
    a('cache', [('Cache-Control', 'no-cache')], True); a('cache', [('Cache-Control', 'only-if-cached')]); a('cache', [('Cache-Control', 'max-age=0')]); a('cache', [('Pragma', 'no-cache')]); a('cache', [('Cache-Control', 'no-store, no-transform')])
    a('hints', [('Save-Data', 'on')], True); a('hints', [('DPR', '2'), ('Width', '320'), ('Viewport-Width', '320')]); a('hints', [('Sec-CH-UA', '"Chromium";v="120"'), ('Sec-CH-UA-Mobile', '?1'), ('Sec-CH-UA-Platform', '"Android"')])
    a('hints', [('Downlink', '0.1'), ('ECT', 'slow-2g'), ('RTT', '3000')]); a('hints', [('Device-Memory', '0.25')]); a('hints', [('Sec-GPC', '1'), ('DNT', '1')]); a('hints', [('Upgrade-Insecure-Requests', '1')])
    a('fetch', [('Sec-Fetch-Mode', 'navigate'), ('Sec-Fetch-Dest', 'document'), ('Sec-Fetch-Site', 'none'), ('Sec-Fetch-User', '?1')]); a('fetch', [('Sec-Fetch-Mode', 'no-cors'), ('Sec-Fetch-Dest', 'image'), ('Sec-Fetch-Site', 'cross-site')], True)
    a('fetch', [('Sec-Fetch-Mode', 'cors'), ('Sec-Fetch-Site', 'same-site')]); a('fetch', [('Sec-Purpose', 'prefetch')], True); a('fetch', [('Purpose', 'prefetch')]); a('fetch', [('X-Requested-With', 'XMLHttpRequest')])
    a('fetch', [('Referer', 'http://o.example/app/')]); a('fetch', [('Referer', 'http://localhost:7878/')]); a('fetch', [('User-Agent', 'Googlebot/2.1 (+http://www.google.com/bot.html)')], True); a('fetch', [('User-Agent', 'curl/8.5.0')])
    a('fetch', [('User-Agent', '')]); a('fetch', [('From', 'bot@example.org')])
    # credentials
    a('credentials', [('Cookie', 'session=abc; theme=dark')], True); a('credentials', [('Authorization', 'Basic dXNlcjpwYXNz')], True); a('credentials', [('Authorization', 'Bearer t0ken')]); a('credentials', [('Proxy-Authorization', 'Basic dXNlcjpwYXNz')])
    a('credentials', [('Cookie', '')]); a('credentials', [('Authorization', 'Basic')]); a('credentials', [('X-Api-Key', 'k')]); a('credentials', [('X-CSRF-Token', 't')])
    return S_

PRE = [('Origin', 'http://o.example'), ('Access-Control-Request-Method', 'PUT'), ('Access-Control-Request-Headers', 'X-Custom')]

def vocab_sets(quick=False):
    """every header NAME the source of the tree under test mentions (a header a change teaches the server shows up here by itself), with
    values under which a comparison, a switch or a number takes its other branch"""
    have = {n.lower() for _, _, hs, _ in feature_sets() for n, _ in hs} | {'origin', 'range', 'access-control-request-method', 'access-control-request-headers', 'content-length', 'host'}
    vals = ['*', '1', 'true', FUTURE, '99999999999999999999', 'gzip', 'close', '"x"', '0', 'bytes', 'http://o.example', '']
    out = []
    for i, n in enumerate(x for x in G.vocab_headers() if x.lower() not in have):
        out.append(('vocabulary', False, [(n, vals[i % len(vals)])], b''))
        if not quick: out += [('vocabulary', False, [(n, vals[(i * 5 + 3 + j) % len(vals)])], b'') for j in range(3)]
    return out

def kinds_of(T, Gp):
    """one target for every kind of servable path: [(kind, target)]"""
    want = ['file', 'dir', 'dir/', 'fallback', 'link', 'dirlink/', 'empty', 'big', 'builtin', 'builtin-own-file']
    first = {}
    for tgt, n, kind in T: first.setdefault(kind, tgt)
    out = [(k, first[k]) for k in want if k in first]
    for p in ('/', '/style.css', '/script.js', '/favicon.svg'):
        if p not in [t for _, t in out]: out.append(('builtin-page', p))
    out += [(k, tg) for tg, n, k in Gp['side'] if k in ('side-newer', 'side-older', 'side-fallback', 'side-dir/')] + [('size-3000', '/c9n/t3000.html'), ('html-document', '/c9n/full.html')]
    return out

def fam_feature(rng, o, T, Gp, quick, k=0):
    """ONE feature the server does not have today, asked for by its header, on the kinds of servable path: alone and inside a preflight (the
    grants are due all the same).  Activating values: quick 4 kinds + a built-in page (rotating), thorough every kind on both entry points;
    the others: quick 1 kind, thorough 4; the vocabulary of the source: 1 value x 1 kind, thorough 4 values x 2 kinds."""
    kinds = kinds_of(T, Gp)
    pages = [kq for kq in kinds if kq[0] in ('builtin-page', 'builtin', 'builtin-own-file')]
    i = 0
    for feat, hot, hs, body in feature_sets() + vocab_sets(quick):
        i += 1
        if quick:
            tg = [kinds[(i + k + j * 5) % len(kinds)] for j in range(4)] + [pages[(i + k) % len(pages)]] if hot else [kinds[(i * 3 + k) % len(kinds)]]
        else:
            tg = kinds if hot else [kinds[(i + k + j * 5) % len(kinds)] for j in range(2 if feat == 'vocabulary' else 4)]
        for j, (kind, tgt) in enumerate(tg):
            pre = PRE[:2 + (i + j) % 2]
            for entry in (('proc', 'preq') if (not quick and feat != 'vocabulary') else (('proc', 'preq')[(i + j) % 2],)):
                o.triple('feature-' + feat, tgt, hs, entry, body=body)
                if (i + j) % 2 == 0 or (not quick and feat != 'vocabulary'):
                    o.triple('feature-' + feat, tgt, (pre + hs) if i % 3 else (hs + pre), ('proc', 'preq')[(i + j + 1) % 2] if quick else entry, body=body)

def fam_side(rng, o, Gp, quick):
    """a file and its NEIGHBOURS: precompressed side files (newer, older and made from other text, not compressed at all, without the file,
    larger than the file, of the page behind a fallback, of a directory index), files that describe headers; with every Accept-Encoding that
    selects or refuses a side file, alone, with a Range, with a condition; sizes around the thresholds of compress-on-the-fly"""
    aes = ['gzip', 'gzip, deflate, br', 'br', 'br;q=1.0, gzip;q=0.8, *;q=0.1', 'identity', 'gzip;q=0', '*', 'GZIP', 'x-gzip', 'deflate, gzip;q=1.0, *;q=0.5']
    i = 0
    for tgt, n, kind in Gp['side'] + Gp['size']:
        for ae in (aes if not quick else [aes[0], aes[1 + (i % 2)], aes[3 + i % 7]] if kind.startswith('side') else [aes[i % 2]]):
            i += 1
            hs = [('Accept-Encoding', ae)]
            if i % 4 == 1: hs = hs + [('Range', ['bytes=0-0', 'bytes=-1', 'bytes=0-', 'bytes=0-0,2-3'][(i // 4) % 4])]
            if i % 4 == 3: hs = [[('Origin', 'http://o.example')], PRE, [('If-Modified-Since', FUTURE)], BROWSER[:4]][(i // 4) % 4] + hs
            for entry in (('proc', 'preq') if (not quick or kind in ('side-newer', 'side-older')) else (('proc', 'preq')[i % 2],)):
                o.triple('side', tgt, hs, entry, order=ORDERS[(i // 3) % 6] if i % 3 == 0 else 'GHO')
        o.triple('side', tgt, [], ('proc', 'preq')[i % 2])

FAM_OF = {'name': 'name', 'name-fallback': 'name', 'escaped': 'escaped', 'dir-without-index': 'dirs', 'dir': 'dirs', 'dir/': 'dirs', 'not-a-regular-file': 'links-to-devices', 'file': 'links-to-devices'}

def fam_content(rng, o, Gp, quick):
    """contents a rewriting step touches (a document with head and body, byte order marks, CRLF text, include directives, templates, markdown,
    text that is not UTF-8, white space a minifier removes), names that need escaping and their escaped spellings, directories without an
    index page, other default documents, queries a feature may read"""
    qs = ['', '?download=1', '?raw', '?callback=cb', '?pretty', '?v=1', '?_method=HEAD', '?_method=GET', '?format=json', '?w=100&h=50', '?gzip=1', '?nocache=1', '?lang=de', '?inline', '?t=1700000000']
    i = 0
    for tgt, n, kind in Gp['content'] + Gp['name'] + Gp['escaped'] + Gp['dirs'] + Gp['special']:
        i += 1
        hss = [[], [('Accept-Encoding', 'gzip')], [('Range', 'bytes=0-0')], [('Origin', 'http://o.example')], PRE, [('Accept', 'text/html')], [('Range', 'bytes=1-')], [('If-None-Match', '*')]]
        pick = hss if not quick else [hss[0]] + ([hss[1 + i % 7]] if kind not in ('escaped', 'not-a-regular-file', 'dir-without-index') or i % 3 == 0 else [])
        for j, hs in enumerate(pick):
            q = qs[(i + j * 4) % len(qs)] if (j and kind not in ('escaped',)) else ''
            for entry in (('proc', 'preq') if not quick else (('proc', 'preq')[(i + j) % 2],)):
                o.triple(FAM_OF.get(kind, 'content'), tgt + q, hs, entry)
    for q in qs[1:]:
        i += 1
        for tgt in (['/c9n/pretty.json', '/c9n/full.html', '/c9/', '/'] if not quick else [['/c9n/pretty.json', '/c9n/full.html', '/c9/', '/', '/c9n/doc'][i % 5]]):
            o.triple('query', tgt + q, [[], [('Origin', 'http://o.example'), ('Access-Control-Request-Method', 'DELETE')]][i % 2], ('proc', 'preq')[(i // 2) % 2])

def fam_first(rng, o, Gp, quick):
    """the FIRST request a process sees for a path is a HEAD or an OPTIONS (every other family has long asked with GET): paths of every kind
    that only this family names, in every order, a HEAD twice before the GET, a GET again after the HEAD"""
    orders = ['HGO', 'OGH', 'HOG', 'OHG', 'HHGO', 'HGHO', 'OOGH', 'GHGO', 'HGGO', 'OHGH']
    hss = [[], [('Range', 'bytes=0-0')], [('Accept-Encoding', 'gzip')], [('Origin', 'http://o.example'), ('Access-Control-Request-Method', 'PUT')], [('If-Modified-Since', FUTURE)], [('Range', 'bytes=-1'), ('Origin', 'http://o.example')]]
    for i, (tgt, n, kind) in enumerate(Gp['fresh']):
        entry = ('proc', 'preq')[(i // 2) % 2] if kind in ('fresh-file', 'fresh-side', 'fresh-link') else 'proc'
        o.triple('first', tgt, hss[(i * 5 + i // 6) % len(hss)] if i % 2 else [], entry, order=orders[i % len(orders)])
        if i % 3 == 0:
            # the same path again, with OTHER headers, again with HEAD / OPTIONS first: what an earlier answer left behind (a range, a coding, an origin) must not show
            for j in range(3):
                o.triple('first', tgt, hss[(i + j + 1) % len(hss)], entry, order=orders[(i + j + 1) % 4])

HOSTS = [('localhost:7878', 'http://localhost:3000'), ('localhost:7878', 'https://localhost:7878'), ('o.example', 'https://o.example'), ('o.example:7878', 'http://o.example'), ('O.EXAMPLE:7878', 'http://o.example'),
         ('127.0.0.1:7878', 'http://localhost:7878'), ('api.o.example', 'http://o.example'), ('o.example', 'http://o.example:8080'), ('[::1]:7878', 'http://[::1]:8080'), ('o.example.', 'http://app.o.example'),
         ('localhost', 'null'), ('xn--e1afmkfd.xn--p1ai', 'http://xn--e1afmkfd.xn--p1ai:8080')]

def fam_hostorigin(rng, o, T, quick, cfg_vocab=False):
    """Host (and what a proxy says about host and scheme) NEXT TO Origin: always a different origin than the server's own (other scheme, other
    port, other name, a sub-domain, a name written in other case) - the browser sends a preflight for each of them, the grants are due"""
    first = {}
    for tgt, n, kind in T: first.setdefault(kind, tgt)
    tgts = [first[k] for k in ('file', 'dir/', 'fallback', 'link') if k in first] + ['/', '/style.css']
    i = 0
    pairs = HOSTS if not cfg_vocab else [('o.example:7878', 'http://o.example'), ('app.example', 'https://app.example:8443'), ('O.EXAMPLE', 'http://o.example'), ('localhost:7878', 'https://app.example:8443')]
    for host, og in pairs:
        other = 'http' if og.startswith('https') else 'https'       # what the proxy reports is never the asker's own origin either
        for extra in ([], [('X-Forwarded-Proto', other)], [('X-Forwarded-Host', 'www.public.example'), ('X-Forwarded-Proto', other)], [('Forwarded', 'host=www.public.example;proto=%s' % other)], [('Referer', og + '/app/index.html')],
                      [('Cookie', 'sid=1')], [('Sec-Fetch-Mode', 'cors'), ('Sec-Fetch-Site', 'same-site')], [('Access-Control-Request-Private-Network', 'true')]):
            i += 1
            if quick and extra and (i + len(host)) % 4: continue
            pre = [('Origin', og), ('Access-Control-Request-Method', ['PUT', 'DELETE', 'POST', 'PATCH'][i % 4])] + ([('Access-Control-Request-Headers', ['content-type', 'X-Custom', 'x-one, content-type'][i % 3])] if i % 2 else [])
            hs = [[('Host', host)] + extra + pre, pre + extra + [('Host', host)], [('Host', host)] + pre + extra][i % 3]
            for tgt in ([tgts[i % len(tgts)]] if quick else tgts):
                o.triple('host-origin', tgt, hs, ('proc', 'preq')[i % 2])

def fam_stream(rng, o, T, Gp, quick):
    """what the client RECEIVES when the transport takes a few bytes per write call, and when a second request follows the first in the same piece:
    the answers are read as a stream (every buffer), an interim answer is skipped, a further answer is not a body"""
    first = {}
    for tgt, n, kind in T: first.setdefault(kind, tgt)
    small = [first[k] for k in ('file', 'dir', 'fallback', 'empty') if k in first] + ['/c9n/t150.css']
    tgts = small + [first[k] for k in ('big',) if k in first] + ['/', '/favicon.svg', '/c9n/t3000.html']
    i = 0
    for ws in ('c:1', 'c:7', 'c:1000', 'c:4096', 's:1.1.1', 's:17', 's:1000.1', 'c:65536'):
        pool = small if ws in ('c:1', 'c:7') else tgts       # the transport keeps every buffer it is offered: few bytes per call only for short answers
        for tgt in (pool if not quick else [pool[(i + j) % len(pool)] for j in (0, 3)]):
            i += 1
            o.triple('stream', tgt, [[], [('Range', 'bytes=0-0,1-1')], PRE, [('Range', 'bytes=1-')]][i % 4], ('proc', 'preq')[i % 2], ws=ws)
    tails = [G.req('GET', '/c9/ten.txt'), G.req('HEAD', '/c9/ten.txt'), G.req('GET', '/missing'), G.req('OPTIONS', '/c9/ten.txt', headers=PRE), b'\r\n', b'GET', b'\r\n\r\n' + G.req('GET', '/'), b'0\r\n\r\n',
             G.req('GET', '/c9/ten.txt', headers=[('Connection', 'close')]) + G.req('GET', '/c9/one.bin')]
    for tl in tails:
        for hs in ([], [('Connection', 'keep-alive')], [('Content-Length', '0')], PRE + [('Connection', 'keep-alive')]):
            i += 1
            if quick and i % 2: continue
            o.triple('pipelined', tgts[i % len(tgts)], hs, ('proc', 'preq')[(i // 2) % 2], tail=tl, version=['HTTP/1.1', 'HTTP/1.1', 'HTTP/1.0'][i % 3])

def fam_parts(rng, o, T, quick):
    """very many parts in one Range (as many as the request buffer holds), parts of a large file that add up to a multiple of it"""
    first = {}
    for tgt, n, kind in T: first.setdefault(kind, tgt)
    for n, tgt in ((40, '/c9/ten.txt'), (300, '/c9/b256.bin'), (1900, '/c9/ten.txt'), (700, '/c9/')):
        if quick and n > 700 and not rng.chance(1, 2): continue
        o.triple('parts', tgt, [('Range', 'bytes=' + ','.join('%d-%d' % (j % 10, j % 10) for j in range(n)))], ('proc', 'preq')[n % 3 == 0])
    if 'big' in first:
        o.triple('parts', first['big'], [('Range', 'bytes=' + ','.join(['0-'] * (4 if quick else 24)))], 'proc')
        o.triple('parts', first['big'], [('Range', 'bytes=0-8191,8192-8192,8193-,-1,-8193')], 'preq')

# ------------------------------------------------------------------ the machine's own files behind links (no model: it does not have them)
def sparse_path():
    import os, tempfile
    return os.path.join(tempfile.gettempdir(), 'rwsv-c09-sparse-%d' % os.getpid())

HUGE = (1 << 32) + 10

def special_setup():
    """a sparse file of 4 GiB + 10 bytes OUTSIDE every tree (a manifest reads the files of a tree): only ranges of it are ever asked for"""
    with open(sparse_path(), 'wb') as fh:
        fh.truncate(HUGE)
        for off in (0, (1 << 31) - 1, (1 << 31), (1 << 32) - 1, (1 << 32), HUGE - 1):
            fh.seek(off); fh.write(b'\x01')

def special_cleanup():
    import os
    try: os.unlink(sparse_path())
    except OSError: pass

def special_tree(rng):
    t = S.gen_tree(rng, small=True)
    root = t.cwd + b'/'
    t.link(root + b'c9s/huge.bin', sparse_path().encode()); t.link(root + b'c9s/huge.html', sparse_path().encode())
    t.link(root + b'c9s/version.txt', b'/proc/version'); t.link(root + b'c9s/status', b'/proc/self/status'); t.link(root + b'c9s/page.html', b'/proc/version')
    t.link(root + b'c9s/proc', b'/proc/self'); t.link(root + b'c9s/hostname', b'/etc/hostname'); t.file(root + b'c9s/plain.txt', b'plain')
    return t

def fam_special(rng, o, quick):
    n = HUGE
    m31, m32 = 1 << 31, 1 << 32
    rs = ['bytes=0-0', 'bytes=%d-%d' % (m31 - 1, m31), 'bytes=%d-%d' % (m31, m31), 'bytes=%d-%d' % (m32 - 1, m32), 'bytes=%d-' % (n - 1), 'bytes=%d-' % n, 'bytes=-1', 'bytes=-10', 'bytes=%d-%d' % (m32, n), 'bytes=%d-%d' % (m32, n - 1),
          'bytes=0-0,%d-%d' % (m32, m32), 'bytes=%d-%d,%d-%d,-1' % (m31 - 1, m31 - 1, m32 - 1, m32 - 1), 'bytes=%d-%d' % (m31 - 5, m31 + 5), 'bytes=%d-%d' % (n - 10, n + 10), 'bytes=%d-' % (n - 4096)]
    for i, rv in enumerate(rs):
        hs = [('Range', rv)] + ([('Origin', 'http://o.example')] if i % 3 == 1 else PRE if i % 3 == 2 else [])
        o.triple('special-huge', ['/c9s/huge.bin', '/c9s/huge'][i % 5 == 4], hs, ('proc', 'preq')[i % 2], order=ORDERS[i % 6])
    for i, tgt in enumerate(('/c9s/version.txt', '/c9s/status', '/c9s/page', '/c9s/proc/status', '/c9s/proc/cmdline', '/c9s/hostname', '/c9s/plain.txt', '/c9s/proc/', '/c9s/proc/environ')):
        for j, hs in enumerate(([], [('Range', 'bytes=0-0')], [('Range', 'bytes=0-')], [('Range', 'bytes=-1')], PRE)):
            o.triple('special-proc', tgt, hs, ('proc', 'preq')[(i + j) % 2], order=ORDERS[(i + j) % 6])
