"""C09 generator families (HEAD / OPTIONS against GET): the input classes a defect in the method handling of the
controller chain, the serialiser or the CORS block can hinge on and that the base product (path x entry x 7 header
sets) does not reach.  Everything is a deterministic function of the `rng` handed in.

A *triple* is the same request sent with GET, HEAD and OPTIONS (in any emission order); every case carries
`note = (triple id, role, configuration key, family)` and the judge regroups the answers by triple id."""
from vlib import common as C, serve as S, reqgen as G, servecheck as K

ROLE = {'G': 'GET', 'H': 'HEAD', 'O': 'OPTIONS'}
ORDERS = ['GHO', 'GOH', 'HGO', 'HOG', 'OGH', 'OHG']

# ------------------------------------------------------------------ configurations (process environment)
def _env(**cors):
    base = [(k, v) for k, v in S.DEFAULT_ENV if not k.startswith('RWS_CONFIG_CORS')]
    return base + [('RWS_CONFIG_CORS_' + k, v) for k, v in cors.items() if v is not None]

CFG_ORIGINS = ['http://o.example', 'https://app.example:8443']
CFG_METHODS = ['GET', 'PUT', 'DELETE', 'POST', 'PATCH']
CFG_HEADERS = ['X-Custom', 'Content-Type', 'x-one']
ENVS = {
    'default': None,                      # S.DEFAULT_ENV: allow-all
    # the restricted mode with a list that grants what the generated preflights ask for
    'listed': _env(ALLOW_ALL='false', ALLOW_ORIGINS=','.join(CFG_ORIGINS), ALLOW_CREDENTIALS='true', ALLOW_HEADERS=','.join(CFG_HEADERS),
                   ALLOW_METHODS=','.join(CFG_METHODS), EXPOSE_HEADERS='Content-Length', MAX_AGE='5'),
    # the restricted mode with the same lists, and each of the settings that is NOT a list left empty / unset / unreadable: the grants are due all the same
    'listed-cred-empty': _env(ALLOW_ALL='false', ALLOW_ORIGINS=','.join(CFG_ORIGINS), ALLOW_CREDENTIALS='', ALLOW_HEADERS=','.join(CFG_HEADERS),
                   ALLOW_METHODS=','.join(CFG_METHODS), EXPOSE_HEADERS='Content-Length', MAX_AGE='5'),
    'listed-cred-unset': _env(ALLOW_ALL='false', ALLOW_ORIGINS=','.join(CFG_ORIGINS), ALLOW_CREDENTIALS=None, ALLOW_HEADERS=','.join(CFG_HEADERS),
                   ALLOW_METHODS=','.join(CFG_METHODS), EXPOSE_HEADERS='Content-Length', MAX_AGE='5'),
    'listed-cred-odd': _env(ALLOW_ALL='false', ALLOW_ORIGINS=','.join(CFG_ORIGINS), ALLOW_CREDENTIALS='TRUE', ALLOW_HEADERS=','.join(CFG_HEADERS),
                   ALLOW_METHODS=','.join(CFG_METHODS), EXPOSE_HEADERS='', MAX_AGE=''),
    'listed-bare': _env(ALLOW_ALL='false', ALLOW_ORIGINS=','.join(CFG_ORIGINS), ALLOW_CREDENTIALS='false', ALLOW_HEADERS=','.join(CFG_HEADERS),
                   ALLOW_METHODS=','.join(CFG_METHODS), EXPOSE_HEADERS=None, MAX_AGE=None),
    # the restricted mode, nobody listed (no grant is due; HEAD still has to follow GET)
    'closed': _env(ALLOW_ALL='false', ALLOW_ORIGINS='http://other.example', ALLOW_CREDENTIALS='false', ALLOW_HEADERS='', ALLOW_METHODS='', EXPOSE_HEADERS='', MAX_AGE=''),
    # the switch is not a boolean / is not set at all: the code falls back to allow-all
    'notbool': _env(ALLOW_ALL='yes', ALLOW_ORIGINS='http://other.example', ALLOW_CREDENTIALS='', ALLOW_HEADERS='', ALLOW_METHODS='', EXPOSE_HEADERS='', MAX_AGE='86400'),
    'unset': _env(ALLOW_ALL=None, ALLOW_ORIGINS='', ALLOW_CREDENTIALS='', ALLOW_HEADERS='', ALLOW_METHODS='', EXPOSE_HEADERS='', MAX_AGE='86400'),
}
ALLOW_ALL_CFGS = ('default', 'notbool', 'unset')

# ------------------------------------------------------------------ vocabulary
ORIGINS = ['http://o.example', 'https://app.example:8443', 'null', 'http://[::1]:8080', 'HTTP://O.EXAMPLE', 'http://xn--e1afmkfd.xn--p1ai',
           'http://localhost', 'http://127.0.0.1:7878', 'https://' + 'a' * 250 + '.example', 'http://o.example/', 'file://']
ACR_METHODS = list(G.METHODS) + ['put', 'Delete', 'PROPFIND']
ACR_HEADERS = [None, 'X-Custom', 'x-a,x-b', 'X-A, X-B, Content-Type', 'CONTENT-TYPE', 'authorization, content-type, x-requested-with', 'x-' + 'a' * 200,
               'content-type', 'Range', 'x-a ,x-b', ', '.join('x-h%d' % i for i in range(40))]
BROWSER = [('Host', 'localhost:7878'), ('Connection', 'keep-alive'), ('Accept', '*/*'), ('User-Agent', 'Mozilla/5.0 (X11; Linux x86_64) AppleWebKit/537.36'),
           ('Sec-Fetch-Mode', 'cors'), ('Sec-Fetch-Site', 'cross-site'), ('Sec-Fetch-Dest', 'empty'), ('Accept-Encoding', 'gzip, deflate, br'),
           ('Accept-Language', 'en-US,en;q=0.9'), ('Sec-CH-UA-Mobile', '?0'), ('DPR', '2'), ('Save-Data', 'on')]

def respell(rng, name, k=None):
    """header field names are case-insensitive: the spellings clients use"""
    k = rng.below(4) if k is None else k
    return [name, name.lower(), name.upper(), name.title()][k]

# ------------------------------------------------------------------ tree content
def pattern(n, salt=7):
    return bytes((j * 131 + salt * 17 + (j >> 8)) & 0xff for j in range(n))

def extend_tree(rng, t, k, big=False):
    """plants, under the served root of a tree made by serve.gen_tree, one instance of every shape of servable path with a KNOWN
    size (ranges are generated around it); returns [(target, size of the body GET serves | None, kind)].
    k selects whether the files that stand in for the built-in pages exist in the root (k%3 == 0: all, 1: none, 2: as generated)."""
    root = t.cwd + b'/'
    T = []
    def f(rel, content, kind='file', target=None):
        t.file(root + rel, content)
        T.append((target or '/' + rel.decode(), len(content), kind))
    f(b'c9/empty.txt', b'', 'empty')
    f(b'c9/one.bin', b'\x01')
    f(b'c9/ten.txt', b'0123456789')
    f(b'c9/b256.bin', bytes(range(256)))
    f(b'c9/noext', b'no extension at all')
    f(b'c9/.dot', b'dot file')
    f(b'c9/UPPER.HTML', b'<P>UPPER</P>')
    f(b'c9/\xd0\xb4\xd0\xbe\xd0\xba.json', b'{"k": "\xd0\xb4"}')
    page = b'<p>c9 page</p>'
    f(b'c9/page.html', page)
    T.append(('/c9/page', len(page), 'fallback'))
    f(b'c9/v1.2/about.html', b'<p>about</p>'); T.append(('/c9/v1.2/about', 12, 'fallback'))
    f(b'c9/rel.notes.html', b'<p>notes</p>'); T.append(('/c9/rel.notes', 12, 'fallback'))
    idx = b'<h1>c9 index</h1>'
    t.file(root + b'c9/index.html', idx)
    T += [('/c9', len(idx), 'dir'), ('/c9/', len(idx), 'dir/'), ('/c9/index.html', len(idx), 'file'), ('/c9/index', len(idx), 'fallback')]
    # symbolic links whose own name maps to another media type than the file they name (or to none)
    t.link(root + b'c9/current', b'page.html'); T.append(('/c9/current', len(page), 'link'))
    f(b'c9/data.json', b'{"a": 1}')
    t.link(root + b'c9/as-text.txt', b'data.json'); T.append(('/c9/as-text.txt', 8, 'link'))
    t.link(root + b'c9/v1.2/up.css', b'../ten.txt'); T.append(('/c9/v1.2/up.css', 10, 'link'))
    t.link(root + b'c9/lnk', b'page.html'); T.append(('/c9/lnk', len(page), 'link'))
    t.link(root + b'c9/lnkpage.html', b'page.html'); T.append(('/c9/lnkpage', len(page), 'link-fallback'))
    # a directory reached through a link: its index, with and without the slash, and a file below it
    t.link(root + b'c9d', b'c9')
    T += [('/c9d/', len(idx), 'dirlink/'), ('/c9d', len(idx), 'dirlink'), ('/c9d/ten.txt', 10, 'file-below-dirlink'), ('/c9d/page', len(page), 'fallback-below-dirlink')]
    # the names of the built-in pages one level down: the static controller's business, not the built-in controllers'
    f(b'c9/style.css', b'p{color:red}'); f(b'c9/script.js', b'var a=1;'); f(b'c9/favicon.svg', b'<svg xmlns="http://www.w3.org/2000/svg"/>'); f(b'c9/404.html', b'<p>a page named 404</p>')
    # a directory with an index next to a page of the same stem; a directory without one next to such a page; an index that is a directory
    f(b'c9/docs.html', b'<p>docs page</p>')
    t.file(root + b'c9/docs/index.html', b'<p>docs index</p>'); T += [('/c9/docs', 17, 'dir'), ('/c9/docs/', 17, 'dir/')]
    f(b'c9/stem.html', b'<p>stem</p>'); t.dir(root + b'c9/stem'); T.append(('/c9/stem', None, 'dir-without-index-next-to-page'))
    t.dir(root + b'c9/idx/index.html'); T += [('/c9/idx', None, 'index-is-a-directory'), ('/c9/idx/', None, 'index-is-a-directory')]
    t.file(root + b'c9/deep/er/still/file.txt', b'deep file'); T.append(('/c9/deep/er/still/file.txt', 9, 'file'))
    if big:
        for n, ext in ((8193, b'bin'), (65536, b'bin'), (65537, b'txt'), (70001, b'html')):
            f(b'c9/b%d.%s' % (n, ext), pattern(n, n & 0xff), 'big')
    mode = k % 3
    own = {b'style.css': b'body{margin:0} /* own */', b'script.js': b'console.log("own");', b'favicon.svg': b'<svg xmlns="http://www.w3.org/2000/svg" id="own"/>',
           b'index.html': b'<p>own index, planted</p>', b'404.html': b'<p>own 404, planted</p>'}
    if mode == 0:
        for nm, c in own.items(): t.file(root + nm, c)
    elif mode == 1:
        for nm in own: t.files.pop(root + nm, None)
    t.root_has = {nm: (root + nm) in t.files for nm in own}
    for p in ('/', '/style.css', '/script.js', '/favicon.svg'):
        nm = (p[1:] or 'index.html').encode()
        T.append((p, len(t.files[root + nm]) if t.root_has[nm] else None, 'builtin-own-file' if t.root_has[nm] else 'builtin'))
    for nm in (b'index.html', b'404.html', b'style.css'):
        if t.root_has[nm]:
            T.append(('/' + nm.decode(), len(t.files[root + nm]), 'file'))
            if nm.endswith(b'.html'): T.append(('/' + nm.decode()[:-5], len(t.files[root + nm]), 'fallback'))
    t.c9 = T
    return T

# ------------------------------------------------------------------ triples
class Out:
    """collects the cases of one batch; hands out triple ids unique over the whole run"""
    _tid = [0]
    def __init__(self, tree, cfg='default'):
        self.tree, self.cfg, self.cases = tree, cfg, []
    def triple(self, fam, path, hs=(), entry='proc', order='GHO', version='HTTP/1.1', eol=b'\r\n', lead=b'', body=b''):
        Out._tid[0] += 1
        tid = Out._tid[0]
        for role in order:
            m = ROLE[role]
            raw = None
            if eol != b'\r\n' or lead:
                raw = lead + G.req(m, path, version, hs, body, eol)
            self.cases.append(K.mk(self.tree, m, path, hs, body=body, version=version, entry=entry, raw=raw, kind='triple', note=(tid, role, self.cfg, fam)))

def ranges_for(n):
    """Range values around a body of n bytes (n None: size not known to the generator)"""
    n = 20 if n is None else n
    lo = max(n - 1, 0)
    return ['bytes=0-', 'bytes=0-0', f'bytes=0-{lo}', f'bytes=0-{n}', f'bytes=0-{n + 1}', f'bytes={lo}-', f'bytes={n}-', f'bytes={n + 1}-', f'bytes={lo}-{lo}', f'bytes={lo}-{n}',
            'bytes=-1', f'bytes=-{n}', f'bytes=-{n + 1}', f'bytes=-{lo}', 'bytes=-0', 'bytes=1-1', 'bytes=1-', 'bytes=0-1',
            'bytes=0-0,1-1', 'bytes=0-0, -1', 'bytes=0-0,0-0', f'bytes=0-0,{lo}-', 'bytes=0-,0-', 'bytes=0-0,1-1,2-2',
            'bytes= 0 - 0 ', 'bytes=0-0,', 'bytes=', 'bytes=00-000', 'bytes=0-99999999999999999999', 'bytes=0-18446744073709551615', 'bytes=0-18446744073709551614',
            'bytes=1-0', 'bytes=a-b', 'bits=0-0', 'Bytes=0-0', 'bytes=0-0-0', 'bytes=-', 'bytes=--1', '0-0']
MULTI = ['bytes=0-0,1-1', 'bytes=0-0, -1', 'bytes=0-0,0-0', 'bytes=0-,0-', 'bytes=0-0,1-1,2-2']

def fam_range(rng, o, T, quick):
    """C09a's class widened: HEAD/OPTIONS with every shape of Range on every kind of servable path, the header name in the spellings
    clients use, alone and together with Origin / a preflight"""
    i = 0
    for ti, (tgt, n, kind) in enumerate(T):
        rs = ranges_for(n)
        pick = [rng.choice(rs), rng.choice(MULTI + rs[:4])][ti % 2:] if quick else rs
        if quick: pick.append(rng.choice([f'bytes={max(n - 1, 0)}-', f'bytes={n}-', f'bytes=0-{n}', f'bytes=-{n}', f'bytes=-{n + 1}'] if n is not None else rs))
        for rv in pick:
            i += 1
            name = ['Range', 'Range', 'range', 'RANGE'][i % 4]
            hs = [(name, rv)]
            if i % 3 == 1: hs = [('Origin', 'http://o.example')] + hs
            if i % 3 == 2: hs = hs + [('Origin', 'https://app.example:8443'), ('Access-Control-Request-Method', 'DELETE'), ('Access-Control-Request-Headers', 'x-one')]
            for entry in (('proc', 'preq') if i % 5 == 0 else (('proc', 'preq')[i % 2],)):
                o.triple('range', tgt, hs, entry)

def fam_preflight(rng, o, T, quick, cfg_vocab=False):
    """every row of the method table as the requested method, the shapes a requested-header list takes, origins in every serialisation,
    the three headers in every order, amid the header block a browser sends, field names in other letter case"""
    kinds = {}
    for tgt, n, kind in T: kinds.setdefault(kind, []).append(tgt)
    tgts = [v[0] for k, v in kinds.items() if k in ('file', 'dir', 'dir/', 'fallback', 'link', 'dirlink/', 'builtin', 'builtin-own-file', 'empty')] + ['/', '/style.css', '/script.js', '/favicon.svg']
    i = 0
    meths = CFG_METHODS + ['put'] if cfg_vocab else ACR_METHODS
    heads = [None, 'X-Custom', 'x-one, content-type', 'CONTENT-TYPE', 'x-custom,content-type,x-one'] if cfg_vocab else ACR_HEADERS
    origs = CFG_ORIGINS if cfg_vocab else ORIGINS
    combos = []
    for a in range(max(len(meths), len(heads), len(origs)) * (1 if quick else 2)):
        combos.append((meths[a % len(meths)], heads[(a * 5 + a // len(heads)) % len(heads)], origs[(a * 3 + a // len(origs)) % len(origs)]))
    for m, h, og in combos:
        i += 1
        block = [('Origin', og), ('Access-Control-Request-Method', m)] + ([('Access-Control-Request-Headers', h)] if h is not None else [])
        if i % 4 == 1: block.reverse()
        if i % 4 == 2: block = block[1:] + block[:1]
        if i % 5 == 0: block = [(respell(rng, nme, 1 + i % 3), v) for nme, v in block]
        if i % 3 == 0:
            j = rng.range(0, len(BROWSER))
            block = BROWSER[:j] + block + BROWSER[j:]
        for tgt in ([tgts[i % len(tgts)], tgts[(i * 7 + 3) % len(tgts)]] if quick else tgts):
            for entry in (('proc', 'preq') if not quick else (('proc', 'preq')[(i + len(tgt)) % 2],)):
                o.triple('preflight', tgt, block, entry)
    # no Origin at all, Origin alone amid the browser block, an Origin that is the empty string
    for tgt in tgts[:4 if quick else None]:
        o.triple('preflight', tgt, BROWSER[:4] + [('Origin', origs[0])] + BROWSER[4:], 'proc')
        o.triple('preflight', tgt, [('Access-Control-Request-Method', 'PUT')], 'preq')
        if not cfg_vocab: o.triple('preflight', tgt, [('Origin', ''), ('Access-Control-Request-Method', 'PUT')], 'proc')

def spellings(p):
    out = [p + '?', p + '?v=1', p + '?a=b&c=d', p + '?x=/../y', p + '?q=a%20b&r=%2e%2e', p + '#frag', p + '?a#b', p + '?redirect=/c9/page.html', p + '?.html', '/' + p, p.replace('/', '//'),
           p.replace('/c9', '/./c9', 1), p.replace('/c9', '/c9/.', 1)]
    if not p.endswith('/'): out += [p + '/', p + '/.', p + '.html', p + '%2ehtml']
    else: out += [p + '/', p + '.', p + 'index.html', p + '?index.html']
    return out

ROOTS = ['/', '//', '/./', '/.', '/?', '/?v=1', '/#', '/#top', '/index.html', '/index', '/index.html?v=1', '/404.html', '/404', '/style.css?v=1', '/style.css/', '/STYLE.CSS', '/style.css#x',
         '/favicon.svg?', '/script.js?cache=0', '//style.css', '/./script.js', '/favicon.ico', '/c9/../c9/ten.txt', '/%63%39/ten.txt', '/c9/ten.txt%00', '/c9/ten.txt;v=1', '/c9\\ten.txt']

def fam_target(rng, o, T, quick):
    """the same servable path in every spelling of the target: query strings (empty, several keys, ones that look like paths), fragments,
    doubled slashes, dot segments, a slash after a file, the root and the built-in pages with decorations"""
    i = 0
    for tgt, n, kind in T:
        if not tgt.startswith('/c9'): continue
        sp = spellings(tgt)
        for s in ([rng.choice(sp)] if quick else sp):
            i += 1
            hs = [[], [('Origin', 'http://o.example')], [('Range', 'bytes=0-0')], [('Origin', 'http://o.example'), ('Access-Control-Request-Method', 'PUT')]][i % 4]
            for entry in (('proc', 'preq') if not quick else (('proc', 'preq')[i % 2],)):
                o.triple('target', s, hs, entry)
    for s in (ROOTS if not quick else [r for r in ROOTS if rng.chance(2, 3)]):
        i += 1
        hs = [[], [('Origin', 'http://o.example'), ('Access-Control-Request-Method', 'POST'), ('Access-Control-Request-Headers', 'content-type')]][i % 2]
        for entry in (('proc', 'preq') if not quick else (('proc', 'preq')[(i // 2) % 2],)):
            o.triple('target', s, hs, entry)

def fam_framing(rng, o, T, quick):
    """the request around the target: other protocol versions, bare-LF line ends, a blank before the method, a header block before the
    CORS headers, Content-Length: 0 / a body, the same header given twice"""
    pre = [('Origin', 'http://o.example'), ('Access-Control-Request-Method', 'PUT'), ('Access-Control-Request-Headers', 'X-Custom')]
    tg = [x for x in T if x[2] in ('file', 'dir', 'fallback', 'link', 'builtin', 'builtin-own-file', 'dirlink/')]
    tgts = [tg[rng.below(len(tg))][0], '/'] if quick else [x[0] for x in tg]
    i = 0
    for tgt in tgts:
        for kw in ([dict(version=v) for v in ('HTTP/1.0', 'HTTP/2.0', 'HTTP/0.9', 'http/1.1')] + [dict(eol=b'\n'), dict(lead=b' '), dict(lead=b'\t '), dict(eol=b'\n', version='HTTP/1.0')]):
            i += 1
            for hs in ((pre, [('Range', 'bytes=0-0')]) if not quick else ([pre, [('Range', 'bytes=0-0')], []][i % 3],)):
                o.triple('framing', tgt, hs, ('proc', 'preq')[i % 2], **kw)
        for hs, body in (([('Content-Length', '0')] + pre, b''), (pre + [('Content-Length', '5'), ('Content-Type', 'text/plain')], b'hello'),
                         ([('Range', 'bytes=0-0'), ('Range', 'bytes=0-0')], b''), ([('Range', 'bytes=0-0'), ('range', 'bytes=1-1')], b''), ([('range', 'bytes=1-'), ('Range', 'bytes=0-0')], b''),
                         ([('Origin', 'http://o.example'), ('Origin', 'http://o.example')] + pre[1:], b''), (BROWSER + pre + [('Range', 'bytes=0-')], b''),
                         ([('X-Pad', 'p' * 3000)] + pre, b''), (pre + [('If-None-Match', '"x"'), ('If-Modified-Since', 'Sat, 01 Jan 2022 00:00:00 GMT'), ('If-Range', '"x"')], b'')):
            i += 1
            for entry in (('proc', 'preq') if not quick else (('proc', 'preq')[i % 2],)):
                o.triple('framing', tgt, hs, entry, body=body)

def fam_order(rng, o, T, quick):
    """histories: the three requests of a triple in every order (HEAD or OPTIONS before the first GET of a path), and a path asked for again
    after other paths were served"""
    tg = [x[0] for x in T if x[2] in ('file', 'dir', 'fallback', 'link', 'builtin', 'builtin-own-file', 'empty')]
    hss = [[], [('Origin', 'http://o.example'), ('Access-Control-Request-Method', 'PUT')], [('Range', 'bytes=0-0')],
           [('Origin', 'https://app.example:8443'), ('Access-Control-Request-Method', 'DELETE'), ('Access-Control-Request-Headers', 'x-one')]]
    i = 0
    for tgt in ([tg[rng.below(len(tg))] for _ in range(3)] if quick else tg):
        for order in ORDERS[1:]:
            i += 1
            o.triple('order', tgt, hss[i % len(hss)], ('proc', 'preq')[i % 2], order=order)
    # two preflights that differ in one requested thing only, back to back
    for tgt in tg[:2 if quick else 3]:
        for a, b in ((('PUT', 'x-a'), ('PUT', 'x-b')), (('PUT', 'x-a'), ('DELETE', 'x-a'))):
            for m, h in (a, b, a):
                o.triple('order', tgt, [('Origin', 'http://o.example'), ('Access-Control-Request-Method', m), ('Access-Control-Request-Headers', h)], 'proc', order='OHG')

def fam_entry(rng, o, T):
    """the two application handlers called directly (no server loop in front)"""
    for tgt, n, kind in T:
        for entry in ('aexec', 'aexecl'):
            o.triple('entry', tgt, [('Origin', 'http://o.example'), ('Access-Control-Request-Method', 'PUT')], entry)
            o.triple('entry', tgt, [('Range', 'bytes=0-0')], entry)

def clone(t):
    """the same tree under a scratch root of its own (a batch is one process with one tree)"""
    n = S.Tree(t.cwd)
    n.files, n.dirs = dict(t.files), list(t.dirs)
    # a link target that spells out the scratch root of the original (serve.gen_tree's climb.lnk) names the clone's root
    n.links = {k: v.replace(t.root[1:], n.root[1:]) for k, v in t.links.items()}
    for a in ('names', 'c9', 'root_has'):
        if hasattr(t, a): setattr(n, a, getattr(t, a))
    return n

def split(tree, cases, maxn):
    """one batch per at most maxn cases (whole triples), each on a clone of the tree"""
    if len(cases) <= maxn: return [(tree, cases)]
    k = -(-len(cases) // maxn)
    per = -(-len(cases) // (3 * k)) * 3
    return [((tree if i == 0 else clone(tree)), cases[i:i + per]) for i in range(0, len(cases), per)]

def run_groups(groups, with_model):
    """groups: [(configuration key, [(tree, cases)])]; every configuration is one run_batches call (the environment is process state),
    all of them at the same time; returns the concatenated results"""
    import threading
    out = [None] * len(groups)
    def work(i):
        cfg, batches = groups[i]
        out[i] = K.run_batches(batches, with_model=with_model, env=ENVS[cfg])
    ts = [threading.Thread(target=work, args=(i,)) for i in range(len(groups))]
    for t in ts: t.start()
    for t in ts: t.join()
    return [x for r in out for x in r]
