"""C01 generator extension: tree shapes and request families the random segment grammar of props/c01.py does not reach
(see /tmp/a/C01/AUDIT.md for the class table).  Everything is a deterministic function of the PRNG that is passed in.

    extend_tree(rng, tree)          adds the shapes below to a tree of serve.gen_tree (files, directories, links); `tree.x` describes them
    families(rng, tree, tier, bi)   the request families on an extended tree -> [Case]
    with_probes(rng, tree, cases)   interleaves history probes (plain requests for names that exist ABOVE the root) -> [Case]
    part_leak(tree, emitted, allowed)   the partial-disclosure clause: an 8-byte window of an outside file's marked text in a body
    real_section(rng, tier)         the same clauses on answers of the REAL binary on a loopback socket -> [(Case, result)]
"""
import hashlib, os, shutil
from vlib import common as C, serve as S, servecheck as K

W = 8          # window length of the partial-disclosure clause

def hexbody(tag, n=104):
    """marked high-entropy text: the marker, then a hash chain in hex - every 8-byte window of it names the file"""
    tag = tag if isinstance(tag, bytes) else tag.encode()
    out = S.marker(tag) + b'-'
    h = hashlib.sha256(b'c01:' + tag).digest()
    while len(out) < n:
        h = hashlib.sha256(h).digest()
        out += h.hex().encode()
    return out[:n]

def inside_text(tag, n=96):
    """content of a file INSIDE the root: long enough for a whole marker of a namesake to fit into a read sized by it"""
    tag = tag if isinstance(tag, bytes) else tag.encode()
    out = b'inside the served directory: ' + tag + b' '
    return (out + b'.' * n)[:max(n, len(out))]

class X:
    pass

def extend_tree(rng, t):
    """shapes added to every tree (names chosen so that they never collide with serve.gen_tree's):
    above the root, at EVERY ancestor level: an index page, a page `secret.html`, siblings whose names start with the name of the
    directory on the way to the root (`root2/`, `root-old/`, `root.bak/`, `root.html`, `root.txt`, `rootsecret.txt`), a directory with a
    multi-byte name, marked namesakes of everything the links below point to and of some files of the root; index pages in the sibling
    directories.  Inside the root: the directories the doubled-slash family names, files long enough to hold a marker, link chains,
    links whose targets mix `..` `.` and names, absolute links to files of the root, dangling links with a namesake above the root,
    directory links pointing down (`dl_deep -> sub/deep`), up (`sub/deep/updir -> ..`, `sub/deep/uproot -> ../..`) and to `.`."""
    comps = t.cwd.split(b'/')
    da = len(comps) - 1
    R = t.cwd + b'/'
    x = X(); x.da = da; x.comps = comps
    inside_names = [n for n in t.names if (R + n) in t.files][:3]
    for i in range(da + 1):
        anc = b'/'.join(comps[:i]); pre = anc + b'/' if anc else b''
        comp = comps[i]
        new = [b'index.html', b'secret.html', b'inner.txt', b'sub/inner.txt', b'sub/deep/inner.txt', b'deep/inner.txt', b'gone.txt', b'sub/secret.txt',
               b'sib%d/index.html' % i, b'sib0/index.html',
               comp + b'2/secret.txt', comp + b'2/index.html', comp + b'2/inner.txt', comp + b'-old/secret.txt', comp + b'.bak/inner.txt',
               comp + b'.html', comp + b'.txt', comp + b'secret.txt', comp + b'_/secret.txt',
               'каталог/secret.txt'.encode(), 'каталог/inner.txt'.encode()]
        new += inside_names
        for n in new:
            if (pre + n) not in t.files and not (pre + n).startswith(R):
                t.file(pre + n, hexbody(pre + n))
    x.sib_suffixes = [b'2', b'-old', b'.bak', b'_']
    # inside the root
    for d in (b'sub', b'sub/deep', b'dir.with.dots', b'emptydir', b'v1.2', 'каталог'.encode()):
        if (R + d) not in t.dirs: t.dir(R + d)
    for n in (b'inner.txt', b'sub/inner.txt', b'sub/deep/inner.txt', 'каталог/файл.txt'.encode(), b'dir.with.dots/x.txt', b'v1.2/x.txt'):
        t.file(R + n, inside_text(n))
    x.inside = [b'inner.txt', b'sub/inner.txt', b'sub/deep/inner.txt']
    x.has_inside_secret = rng.chance(1, 2)
    if x.has_inside_secret:
        t.file(R + b'secret.txt', inside_text(b'secret.txt (the one inside)'))
    absroot = t.root + b'/' + R
    links = [
        # chains: every hop lives in another directory than the one before
        (b'ch_a.lnk', b'sub/ch_b.lnk'), (b'sub/ch_b.lnk', b'../inner.txt'), (b'sub/deep/ch_c.lnk', b'../ch_b.lnk'), (b'sub/deep/ch_d.lnk', b'../../ch_a.lnk'),
        # targets that go down and up again, with `.` between
        (b'mix1.lnk', b'sub/../inner.txt'), (b'sub/mix2.lnk', b'../sub/../inner.txt'), (b'sub/deep/mix3.lnk', b'../deep/../../inner.txt'),
        (b'sub/deep/mix4.lnk', b'.././../inner.txt'), (b'dot1.lnk', b'./inner.txt'), (b'sub/dot2.lnk', b'.././inner.txt'),
        # plain climbing links two deep (always there; serve.gen_tree has them in half of the trees under other names)
        (b'sub/deep/in2.lnk', b'../../inner.txt'), (b'sub/deep/in1.lnk', b'../inner.txt'), (b'sub/in1.lnk', b'../inner.txt'),
        # absolute targets inside the root
        (b'abs_in.lnk', absroot + b'inner.txt'), (b'sub/deep/abs_in2.lnk', absroot + b'sub/inner.txt'),
        # dangling, with a marked namesake of the missing target at every level above the root
        (b'dang1.lnk', b'gone.txt'), (b'sub/deep/dang2.lnk', b'../../gone.txt'), (b'sub/dang3.lnk', b'../../gone.txt'),
    ]
    for n, target in links: t.link(R + n, target)
    x.file_links = [n for n, _ in links]
    dir_links = [(b'dl_deep', b'sub/deep'), (b'sub/deep/updir', b'..'), (b'sub/deep/uproot', b'../..'), (b'sub/dl_self', b'.'), (b'dl_sub', b'sub')]
    for n, target in dir_links: t.link(R + n, target)
    x.dir_links = dir_links
    t.x = x
    return t

# ------------------------------------------------------------------------------------------------ request families
RANGES = ['bytes=0-', 'bytes=0-22', 'bytes=0-40', 'bytes=7-30', 'bytes=-30', 'bytes=-200', 'bytes=0-7,8-40', 'bytes=0-11,12-23,24-60', 'bytes=5-1', 'bytes=999999-',
          'bits=0-5', 'bytes=', 'bytes=0-0', 'bytes=-0', 'bytes=0-5, 7-30', 'bytes=0-99999999999', 'bytes=abc', 'bytes=8-']
SAFE_RANGES = ['bytes=0-', 'bytes=0-40', 'bytes=7-30', 'bytes=-30', 'bytes=0-7,8-40']      # each discloses >= 8 bytes when it discloses at all

# spellings of `..` and of the separator next to it that a decoder, a trim or a normaliser applied AFTER the guard would turn into a climb
ENC_SEGS = ['%252e%252e', '%2E%2e', '%2e%2E', '%2e%2e', '%c0%ae%c0%ae', '%C0%AE%C0%AE', '%e0%80%ae%e0%80%ae', '%uff0e%uff0e', '%u002e%u002e', '..%00', '%2e%2e%00', '.%00.',
            '..%0d', '..%0a', '..%09', '..%20', '%20..', '..+', '+..', '..%3F', '..%3f', '..%23', '..;', '..;x=1', '..%3B', '.%2E', '%2E.', '%2E%2E', '%252E%252E', '..%25', '%2e%2e%2e%2e',
            '..\t', '\t..', '..\x0b', '..\x7f', '..\xc2\xa0', '..　', '﻿..', '..​', '.​.', '․․', '．．', '..%c2%a0', '..%e3%80%80',
            '..\udcff', '\udcc0\udcae\udcc0\udcae', '..\udc80', '\udcff..']      # the last four: bytes that are not UTF-8 (FF, the overlong C0 AE pair, a lone continuation byte)
ENC_JOINTS = ['..%2F', '..%2f', '..%5C', '..%5c', '..%c0%af', '..%C0%AF', '..%ef%bc%8f', '..%25%32%66', '..%252F', '..%252f', '..%255c', '..%255C', '%2e%2e%2f', '%2E%2E%2F', '%2E%2E%5C',
              '.%2E%2F', '%2E.%2F', '..%2F%2F', '..%2F.%2F', '..%u2215', '..%u2216', '..\\', '..\\\\', '..%5C%5C', '..%3F/../', '..%23/../', '%3F/../', '%23/../', '%3f/../', '..%2F..%2F..%2F', '..%5C..%5C']

def _entry(rng, app=False):
    return rng.choice(['proc', 'preq', 'proc', 'preq', 'aexec', 'aexecl'] if app else ['proc', 'preq'])

def _ups(t):
    """for k = 1 .. depth+1: the prefix that climbs k levels, and the path components that lead back from there to the root"""
    comps = t.x.comps
    return [(k, '../' * k, [c.decode() for c in comps[len(comps) - k:]]) for k in range(1, len(comps) + 1)]

def fam_long(rng, t, tier):
    """many segments / many bytes in front of, between and behind the climbing part: a guard that looks at the first (or last) N
    segments or bytes only.  The fillers resolve on disk (`.`, empty segments, an existing directory and `..` back)"""
    out = []
    ns = [1, 2, 3, 5, 7, 8, 9, 15, 16, 17, 31, 32, 33, 63, 64, 65, 127, 128, 129, 255, 256, 257, 500, 1000, 1023, 1024, 1025, 2000, 2040]
    if tier != 'quick': ns += [100, 200, 300, 400, 511, 512, 513, 600, 700, 800, 900, 1500, 2041, 2042, 2043, 2044, 2045, 2046, 2047, 2048, 3000, 4000, 4980]
    da = t.x.da
    for n in ns:
        for filler in ('./', '/', 'sub/../', 'sub/deep/../../', 'sub/./'):
            if len(filler) * n > 9900: continue
            if filler in ('sub/deep/../../', 'sub/./') and tier == 'quick' and not rng.chance(1, 3): continue
            up = '../' * (rng.range(1, da + 1) + (1 if filler == 'sub/./' else 0))
            tail = rng.choice(['secret.txt', 'secret.txt', 'sib0/secret.html', 'inner.txt', 'index.html', '404.html', ''])
            body = filler * n if filler != 'sub/./' else 'sub/' + './' * n
            out.append(K.mk(t, 'GET', '/' + body + up + tail, rng.choice([[], [], [('Range', 'bytes=0-40')]]), entry=_entry(rng), kind='long'))
            if rng.chance(1, 2):      # the climb first, the filler behind it
                out.append(K.mk(t, 'GET', '/' + up + (filler * n if 'sub' not in filler else './' * n) + tail, entry=_entry(rng), kind='long'))
            if rng.chance(1, 4):      # the filler in the query / fragment, the climb in the path
                out.append(K.mk(t, 'GET', '/' + up + tail + rng.choice(['?', '#']) + 'a/' * n, entry=_entry(rng), kind='long'))
    # a request buffer larger than the default (configuration) with a target longer than a path may be, and a tiny one that cuts the target
    for alloc, n in ((40000, 6000), (40000, 9000), (100000, 30000)):
        out.append(K.mk(t, 'GET', '/' + './' * n + '../secret.txt', entry='proc', alloc=alloc, kind='long'))
    for alloc in (16, 24, 32, 48):
        out.append(K.mk(t, 'GET', '/sub/../../secret.txt', entry='proc', alloc=alloc, kind='long'))
    return out

def fam_prefix_siblings(rng, t, tier):
    """siblings of the root (and of every ancestor) whose NAME STARTS WITH the name of the directory served: a containment test by
    string prefix on the resolved path (`/base/root2/x` starts with `/base/root`) lets them through; and the way out and back in"""
    out = []
    for k, up, back in _ups(t):
        comp = back[0]
        tails = [comp + '2/secret.txt', comp + '2/', comp + '2', comp + '2/inner.txt', comp + '-old/secret.txt', comp + '.bak/inner.txt', comp + '.html', comp + '.txt',
                 comp + 'secret.txt', comp + '_/secret.txt', comp, comp + '/', comp + '2/index.html']
        for tail in tails:
            for mid in (['', 'sub/../', './'] if tier != 'quick' else [rng.choice(['', '', 'sub/../', './', 'sub/deep/../../'])]):
                hs = rng.choice([[], [], [('Range', rng.choice(SAFE_RANGES))]])
                out.append(K.mk(t, 'GET', '/' + mid + up + tail, hs, entry=_entry(rng), kind='prefix-sibling'))
        # out and back: the target leaves the root and comes back to a file of the root (answered with an error status all the same)
        for n in ['inner.txt', 'sub/inner.txt', '', 'sub/deep/in2.lnk'] + [x.decode('utf-8', 'surrogateescape') for x in t.names[:2]]:
            out.append(K.mk(t, rng.choice(['GET', 'GET', 'HEAD']), '/' + up + '/'.join(back) + '/' + n, rng.choice([[], [('Range', 'bytes=0-')]]), entry=_entry(rng), kind='out-and-back'))
        if k > 1:   # back in through a sibling-prefixed spelling of a deeper ancestor
            out.append(K.mk(t, 'GET', '/' + up + back[0] + '2/../' + '/'.join(back) + '/inner.txt', entry=_entry(rng), kind='out-and-back'))
    return out

def fam_request_line(rng, t, tier):
    """every method (and its lower-case spelling), every version, both line-end styles, blanks around the request line"""
    out = []
    targets = ['/../secret.txt', '/sub/../../secret.txt', '/..', '/sub/deep/uproot/../secret.txt']
    methods = ['GET', 'HEAD', 'POST', 'PUT', 'DELETE', 'CONNECT', 'OPTIONS', 'TRACE', 'PATCH', 'get', 'Get', 'head', 'options', 'post']
    versions = ['HTTP/0.9', 'HTTP/1.0', 'HTTP/1.1', 'HTTP/2.0', 'http/1.1', 'http/1.0', 'Http/0.9']
    for m in methods:
        tt = targets if tier != 'quick' else [rng.choice(targets)]
        for tg in tt:
            out.append(K.mk(t, m, tg, rng.choice([[], [('Range', 'bytes=0-40')]]), version=rng.choice(versions), entry=_entry(rng, app=True), kind='request-line'))
    for v in versions:
        for tg in targets[:3]:
            out.append(K.mk(t, 'GET', tg, version=v, entry=_entry(rng), kind='request-line'))
    for tg in targets[:2] + ['/sub/deep/in2.lnk', '/secret.txt']:
        tb = tg.encode()
        raws = [b'GET ' + tb + b' HTTP/1.1\n\n', b'GET ' + tb + b' HTTP/1.1\nRange: bytes=0-40\n\n', b'  GET ' + tb + b' HTTP/1.1\r\n\r\n', b'GET ' + tb + b' HTTP/1.1 \t\r\n\r\n',
                b'GET ' + tb + b' HTTP/1.1\r\r\n\r\n', b'GET ' + tb + b' HTTP/1.1', b'GET ' + tb + b' HTTP/1.1\r\nRange: bytes=0-40', b'\tGET ' + tb + b' HTTP/1.0\n',
                b'GET ' + tb + b' HTTP/1.1\r\nrange: bytes=0-40\r\nRange: bytes=0-1\r\n\r\n', b'GET ' + tb + b' HTTP/1.1\r\nRANGE: bytes=7-30\r\n\r\n',
                b'GET ' + tb + b' HTTP/1.1\r\nRange:bytes=0-40\r\n\r\n', b'GET ' + tb + b' HTTP/1.1\r\nRange : bytes=0-40\r\n\r\n']
        for raw in raws:
            out.append(K.mk(t, 'GET', tg, raw=raw, entry=_entry(rng), kind='request-line'))
    return out

def fam_ranges(rng, t, tier):
    """every shape of Range (satisfiable, unsatisfiable, malformed, several, other unit, spaced) on climbing targets, on links and on
    names that exist above the root; ranges long enough to carry a whole marker"""
    out = []
    da = t.x.da
    targets = ['/../secret.txt', '/' + '../' * (da + 1) + 'secret.txt', '/sub/../../inner.txt', '/sub/deep/in2.lnk', '/sub/ch_b.lnk', '/ch_a.lnk', '/404.html', '/inner.txt',
               '/sub/deep/uproot/../inner.txt', '/mix1.lnk', '/dang1.lnk', '/../', '/..']
    for r in RANGES:
        for tg in (targets if tier != 'quick' else targets[:2] + [rng.choice(targets[2:]) for _ in range(3)]):
            out.append(K.mk(t, rng.choice(['GET', 'GET', 'GET', 'HEAD', 'OPTIONS']), tg, [('Range', r)], entry=_entry(rng), kind='range'))
    return out

def fam_headers(rng, t, tier):
    """the climb is not in the target but in a header a proxy-minded handler might consult"""
    out = []
    hs = [('Host', 'localhost/..'), ('Host', '../..'), ('Host', '..'), ('Host', 'localhost/../secret.txt#'), ('X-Original-URL', '/../secret.txt'), ('X-Rewrite-URL', '/../secret.txt'),
          ('Referer', 'http://localhost/../secret.txt'), ('X-Forwarded-Prefix', '/..'), ('X-Forwarded-Host', '..'), ('Content-Location', '../secret.txt'), ('Destination', '/../secret.txt'),
          ('X-Forwarded-Path', '/../secret.txt'), ('X-Accel-Redirect', '/../secret.txt'), ('X-Sendfile', '../secret.txt'), ('Origin', 'http://localhost/..')]
    for h in hs:
        for tg in (['/', '/secret.txt', '/inner.txt', '/sub/', '/nothing-here'] if tier != 'quick' else ['/secret.txt', rng.choice(['/', '/inner.txt', '/sub/', '/nothing-here', '/index.html'])]):
            out.append(K.mk(t, 'GET', tg, [h], entry=_entry(rng, app=True), kind='header'))
    # the other way round: the TARGET climbs, and a header names a file that exists inside the root and ends the way a URL does before
    # its query or fragment - a handler that glues a header value and the target into one URL checks the harmless half and opens the other
    da = t.x.da
    inroot = ['inner.txt', 'index.html', 'sub/inner.txt', 'sub/deep/inner.txt', '404.html']
    climbs = ['/../secret.txt', '/' + '../' * (da + 1) + 'secret.txt', '/sub/../../secret.txt', '/../inner.txt']
    for hn in ['Host', 'Host', 'X-Forwarded-Host', 'Referer', 'Origin']:
        for f in (inroot if tier != 'quick' else [inroot[0], rng.choice(inroot[1:])]):
            for tail in ('?', '#', '?x=', '#f', ''):
                v = rng.choice(['x/', 'localhost/', 'localhost:80/', 'h//']) + f + tail
                if hn in ('Referer', 'Origin'):
                    v = 'http://' + v
                for tg in (climbs if tier != 'quick' else [climbs[0], rng.choice(climbs[1:])]):
                    out.append(K.mk(t, 'GET', tg, [(hn, v)] + rng.choice([[], [], [('Range', 'bytes=0-40')]]), entry=_entry(rng, app=True), kind='header'))
    return out

def fam_own_names(rng, t, tier):
    """every base name that exists ABOVE the root, asked for plainly (no `..` at all) at the top, below sub/ and below a directory
    link: the server's own pages and whatever it looks up by a fixed name must come from the root or be built in"""
    out = []
    bases = sorted({p.split(b'/')[-1] for p in t.outside_root()})
    for b in bases:
        n = b.decode('utf-8', 'surrogateescape')
        for tg in ['/' + n, '/sub/' + n] + (['/dl_deep/' + n, '/' + n + '?x=1', '/' + n + '/'] if tier != 'quick' else []):
            out.append(K.mk(t, rng.choice(['GET', 'GET', 'GET', 'HEAD', 'OPTIONS']), tg, rng.choice([[], [], [('Range', rng.choice(SAFE_RANGES))]]), entry=_entry(rng, app=True), kind='own-name'))
    for tg in ['/', '/?', '/#', '//', '/.', '/./', '/index', '/404', '/style', '/favicon', '/script', '/rws.config', '/index.htm', '/sub', '/sub/', '/sub/deep', '/sub/deep/', '/emptydir', '/emptydir/']:
        out.append(K.mk(t, 'GET', tg, entry=_entry(rng, app=True), kind='own-name'))
    return out

DECOR = ['', '?x=1', '#f', '/', '?', '#', '?a=../..', '#/../..', '/.', '.html', '%00', ';x']
def fam_links(rng, t, tier):
    """every link of the extension - chains, mixed targets, absolute, dangling - and the files behind the directory links, plain and
    decorated (query, fragment, trailing slash, doubled slashes, `.` segments), with and without Range, through every entry point"""
    out = []
    names = [n.decode() for n in t.x.file_links]
    names += ['dl_deep/keep.txt', 'dl_deep/inner.txt', 'dl_deep/in1.lnk', 'dl_deep/ch_c.lnk', 'dl_deep/mix4.lnk', 'dl_deep/abs_in2.lnk', 'dl_sub/inner.txt', 'dl_sub/ch_b.lnk', 'dl_sub/deep/in2.lnk', 'dl_sub/deep/in1.lnk',
              'sub/deep/updir/inner.txt', 'sub/deep/updir/ch_b.lnk', 'sub/deep/uproot/inner.txt', 'sub/deep/uproot/ch_a.lnk', 'sub/deep/uproot/sub/deep/in2.lnk', 'sub/dl_self/inner.txt', 'sub/dl_self/in1.lnk',
              'sub/dl_self/dl_self/deep/in2.lnk', 'dl_deep', 'dl_deep/', 'sub/deep/uproot', 'sub/deep/uproot/', 'sub/deep/updir/']
    for n in names:
        for e in ('proc', 'preq'):
            if tier != 'quick' or e == ('proc', 'preq')[rng.below(2)]:
                out.append(K.mk(t, 'GET', '/' + n, [], entry=e, kind='link'))
            if tier != 'quick' or e == ('proc', 'preq')[rng.below(2)]:
                out.append(K.mk(t, 'GET', '/' + n, [('Range', rng.choice(SAFE_RANGES))], entry=e, kind='link'))
        out.append(K.mk(t, rng.choice(['HEAD', 'OPTIONS', 'POST', 'GET']), '/' + n, entry=rng.choice(['aexec', 'aexecl']), kind='link'))
        for d in (DECOR[1:] if tier != 'quick' else [rng.choice(DECOR[1:]) for _ in range(2)]):
            out.append(K.mk(t, 'GET', '/' + n + d, rng.choice([[], [('Range', 'bytes=0-40')]]), entry=_entry(rng), kind='link'))
        sl = '/' + n.replace('/', rng.choice(['//', '/./', '///', '/.//']))
        out.append(K.mk(t, 'GET', rng.choice(['/', '/.', '//']) + sl, rng.choice([[], [('Range', 'bytes=0-40')]]), entry=_entry(rng), kind='link'))
    return out

def fam_dirlink_up(rng, t, tier):
    """targets that do NOT climb as text (their running depth never drops below the root) but do on disk, because a directory link of
    the tree points upward: /sub/deep/uproot is the root itself, so /sub/deep/uproot/../x is a file of the PARENT of the root"""
    out = []
    da = t.x.da
    stems = [('sub/deep/uproot/', 1, 3), ('sub/deep/updir/', 2, 3), ('sub/dl_self/', 2, 2), ('sub/deep/uproot/sub/deep/uproot/', 1, 6), ('sub/deep/updir/dl_self/', 2, 4),
             ('dl_sub/deep/uproot/', 1, 3), ('dl_deep/uproot/', 1, 2), ('dl_deep/updir/', 2, 2), ('sub/deep/uproot/dl_deep/updir/', 2, 5)]
    # (stem, number of `..` that lead from it to the parent of the root on disk, textual depth of the stem)
    tails = ['secret.txt', 'inner.txt', 'index.html', 'sib0/secret.html', '404.html', '', 'secret', 'sub/inner.txt']
    for stem, need, depth in stems:
        for extra in range(0, min(da, depth - need) + 1):
            ups = need + extra
            if ups > depth: continue            # it would climb as text as well: the other families
            for tail in (tails if tier != 'quick' else [tails[0]] + [rng.choice(tails[1:]) for _ in range(2)]):
                hs = rng.choice([[], [], [('Range', rng.choice(SAFE_RANGES))]])
                out.append(K.mk(t, 'GET', '/' + stem + '../' * ups + tail, hs, entry=_entry(rng), kind='dirlink-up'))
            out.append(K.mk(t, 'GET', '/' + stem.replace('/', '//') + '../' * ups + 'secret.txt', entry=_entry(rng), kind='dirlink-up'))
            out.append(K.mk(t, 'GET', stem + '../' * ups + 'secret.txt', entry=rng.choice(['aexec', 'aexecl']), kind='dirlink-up'))
    return out

def fam_dirlink_textual(rng, t, tier):
    """a file link with a climbing relative target asked for THROUGH a directory link that is shallower than the directory it names
    (dl_deep -> sub/deep, sub/deep/in2.lnk -> ../../inner.txt): the link points into the root, a resolution of its target against the
    requested path instead of the real directory ends above it"""
    out = []
    for tg in ['/dl_deep/in2.lnk', '/dl_deep/mix3.lnk', '/dl_deep/ch_d.lnk', '/dl_deep/dang2.lnk', '//dl_deep/in2.lnk', '/dl_deep/in2.lnk?x', '/./dl_deep/in2.lnk', '/dl_deep/in2.lnk#f']:
        for hs in ([], [('Range', 'bytes=0-')], [('Range', 'bytes=0-40')]):
            for e in ('proc', 'preq'):
                out.append(K.mk(t, 'GET', tg, hs, entry=e, kind='dirlink-textual'))
    return out

def fam_encodings(rng, t, tier):
    out = []
    tails = ['secret.txt', 'sib0/secret.html', 'inner.txt', 'secret', '']
    for seg in ENC_SEGS:
        forms = ['/' + seg + '/', '/sub/' + seg + '/' + seg + '/', '/' + seg + '/' + seg + '/', '/./' + seg + '//', '/sub/../' + seg + '/']
        for f in (forms if tier != 'quick' else [forms[0], rng.choice(forms[1:])]):
            out.append(K.mk(t, 'GET', f + rng.choice(tails), rng.choice([[], [], [('Range', 'bytes=0-40')]]), entry=_entry(rng, app=True), kind='encoding'))
    for j in ENC_JOINTS:
        forms = ['/' + j, '/sub/' + j + j, '/' + j + j, '/sub%2F' + j + j, '/sub/deep/' + j + j + j, '/' + j + '/']
        for f in (forms if tier != 'quick' else [forms[0], rng.choice(forms[1:])]):
            out.append(K.mk(t, 'GET', f + rng.choice(tails), rng.choice([[], [], [('Range', 'bytes=0-40')]]), entry=_entry(rng, app=True), kind='encoding'))
    return out

def fam_separators(rng, t, tier):
    """backslashes as separators (alone and mixed with slashes), multi-byte directory names in front of the climb"""
    out = []
    da = t.x.da
    kat = 'каталог'
    ts = ['/..\\secret.txt', '/..\\..\\secret.txt', '/sub\\..\\..\\secret.txt', '\\..\\secret.txt', '/sub/..\\../secret.txt', '/..\\/secret.txt', '/\\../secret.txt', '/..%5c../secret.txt',
          '/sub\\../..\\secret.txt', '/\\..\\..\\' + 'secret.txt', '\\\\..\\secret.txt', '/sub\\deep\\..\\..\\..\\secret.txt', '/.\\..\\secret.txt', '/..\\sib0\\secret.html',
          '/' + kat + '/../../secret.txt', '/' + kat + '//../../secret.txt', '/' + kat + '/./../../' + kat + '/secret.txt', '/' + kat + '/файл.txt', '/' + kat + '/../' + '../' * da + kat + '/secret.txt',
          '/%D0%BA%D0%B0%D1%82%D0%B0%D0%BB%D0%BE%D0%B3/../../secret.txt', '/' + kat + '\\..\\..\\secret.txt', '/' + kat + '/..' , '/' + kat + '/../..', '/' + kat + '/../../']
    for tg in ts:
        for e in (('proc', 'preq', 'aexec', 'aexecl') if tier != 'quick' else (rng.choice(['proc', 'preq']), rng.choice(['aexec', 'aexecl']))):
            out.append(K.mk(t, 'GET', tg, rng.choice([[], [('Range', 'bytes=0-40')]]), entry=e, kind='separator'))
    return out

def fam_lookup_steps(rng, t, tier):
    """each step of the lookup (file, directory index with and without the trailing slash, `.html` appended) aimed at every level
    above the root; query and fragment in every order around a climbing path"""
    out = []
    for k, up, back in _ups(t):
        i = t.x.da + 1 - k          # the level reached
        tails = ['', 'index.html', 'index', 'secret', 'secret.html', 'sib%d/' % i, 'sib%d' % i, 'sib0/', 'sib0/index', 'sib%d/secret' % i, back[0] + '2/', back[0] + '2', back[0], 'inner', 'sub/', 'sub',
                 'secret.txt?a=/../', 'secret.txt#', 'secret.txt?', 'secret?x', 'secret#f', 'secret.txt;a', 'secret.txt%00.html', 'secret.txt?.html', 'secret.txt#.html', 'secret.txt/', 'secret.txt/.', 'secret.txt//']
        for tail in tails:
            if tier == 'quick' and k > 1 and not rng.chance(1, 2): continue
            out.append(K.mk(t, rng.choice(['GET', 'GET', 'GET', 'HEAD']), '/' + rng.choice(['', '', 'sub/../', 'emptydir/../']) + up + tail, rng.choice([[], [], [('Range', 'bytes=0-40')]]), entry=_entry(rng), kind='lookup-step'))
    qf = ['/..?x', '/..#x', '/?/../../secret.txt', '/sub/?/../../../secret.txt', '/#/../secret.txt?x', '/sub#/../../secret.txt?x', '/..%3F/secret.txt', '/sub%23/../../secret.txt', '/..?#', '/..#?',
          '/../secret.txt?#', '/../secret.txt#?', '/sub/..#/../secret.txt', '/sub/..?/../secret.txt', '?/../secret.txt', '#/../secret.txt', '/?x=1#/../secret.txt', '/inner.txt?/../../secret.txt', '/inner.txt#/../../secret.txt',
          '/sub/../../secret.txt?x#y', '/sub/../../secret.txt#y?x', '/..?', '/..#', '/../?/', '/../#/']
    for tg in qf:
        for e in (('proc', 'preq', 'aexec', 'aexecl') if tier != 'quick' else (rng.choice(['proc', 'preq']), rng.choice(['proc', 'preq', 'aexec', 'aexecl']))):
            out.append(K.mk(t, 'GET', tg, rng.choice([[], [('Range', 'bytes=0-40')]]), entry=e, kind='query-fragment'))
    return out

FAMILIES = [fam_long, fam_prefix_siblings, fam_request_line, fam_ranges, fam_headers, fam_own_names, fam_links, fam_dirlink_up, fam_dirlink_textual,
            fam_encodings, fam_separators, fam_lookup_steps]

def families(rng, t, tier, bi=0):
    cases = []
    for f in FAMILIES:
        cases += f(rng.fork(f.__name__), t, tier)
    return cases

def probe_targets(t):
    """plain targets for names that exist above the root (and possibly inside it): answered from the root or not at all - whatever
    was asked before"""
    ps = ['/secret.txt', '/sib0/secret.html', '/index.html', '/404.html', '/inner.txt', '/sub/inner.txt', '/gone.txt', '/secret', '/style.css', '/favicon.svg', '/rws.config.toml', '/', '/secret.html',
          '/sub/secret.txt', '/deep/inner.txt', '/sub/deep/inner.txt', '/notes.txt']
    c = t.x.comps[-1].decode()
    return ps + ['/' + c + '2/secret.txt', '/' + c + '/inner.txt', '/' + c + '.html']

def with_probes(rng, t, cases, every=24):
    """after every `every` cases one probe: state left behind by an earlier request (a changed working directory, a remembered
    path, a cache keyed by a name) shows on the next plain request"""
    ps = probe_targets(t)
    out = []
    for i, c in enumerate(cases):
        out.append(c)
        if i % every == every - 1:
            out.append(K.mk(t, 'GET', rng.choice(ps), rng.choice([[], [], [('Range', 'bytes=0-40')]]), entry=rng.choice(['proc', 'preq']), kind='probe'))
    return out

# ------------------------------------------------------------------------------------------------ partial-disclosure clause
def windows(t):
    """{8-byte window: set of outside files it occurs in}, over the marked part of every file outside the root (the marker itself;
    for the hash-chain files of this module the whole text) - built once per tree"""
    w = getattr(t, '_c01_windows', None)
    if w is not None: return w
    w = {}
    for p, content in t.outside_root().items():
        if not content.startswith(b'SECRET-'): continue
        spans = getattr(t, '_c01_spans', {}).get(p) or [content if content[23:24] == b'-' else content[:23]]      # `_c01_spans`: the marked stretches of a file that is mostly filler
        for span in spans:
            for i in range(7, len(span) - W + 1):      # from the first hex digit on: pure hash text
                w.setdefault(span[i:i + W], set()).add(p)
    t._c01_windows = w
    t._c01_memo = {}
    return w

def part_leak(t, emitted, allowed):
    """path of a file outside the root an 8-byte window of whose marked text occurs in the BODY of the answer (None if there is none);
    `allowed` (what a link of the tree points to) is exempt"""
    w = windows(t)
    i = emitted.find(b'\r\n\r\n')
    body = emitted[i + 4:] if i >= 0 else emitted
    if len(body) < W: return None
    key = (body, allowed)
    memo = t._c01_memo
    if key in memo: return memo[key]
    hit = None
    for j in range(len(body) - W + 1):
        ps = w.get(body[j:j + W])
        if ps and allowed not in ps:
            hit = sorted(ps)[0]; break
    memo[key] = hit
    return hit

# ------------------------------------------------------------------------------------------------ the real binary
def materialise(t):
    root = t.root
    shutil.rmtree(root, ignore_errors=True)
    os.makedirs(root)
    for p, c in t.files.items():
        path = os.path.join(root, p)
        os.makedirs(os.path.dirname(path), exist_ok=True)
        with open(path, 'wb') as fh: fh.write(c)
    for d in t.dirs: os.makedirs(os.path.join(root, d), exist_ok=True)
    for p, target in t.links.items():
        path = os.path.join(root, p)
        os.makedirs(os.path.dirname(path), exist_ok=True)
        os.symlink(target, path)
    os.makedirs(os.path.join(root, t.cwd), exist_ok=True)
    return os.path.join(root, t.cwd)

def real_section(rng, tier):
    """one extended tree on disk, the real `rws` started in its root, a sample of every family sent over a loopback socket (one
    connection per request).  Returns (list of (Case, result dict), note or None)"""
    from vlib import realbin as R
    ok, out = R.build()
    if not ok: return [], 'cargo build --release of the real binary failed: ' + out[-400:]
    t = extend_tree(rng, S.gen_tree(rng, depth_above=rng.range(1, 3), small=True))
    cases = []
    for f in FAMILIES:
        if f is fam_long: continue
        fc = [c for c in f(rng.fork('real:' + f.__name__), t, 'quick') if not c.entry.startswith('aexec') and c.alloc == 10000]
        rng.shuffle(fc)
        cases += fc[:(12 if tier == 'quick' else 200)]
    cases += [K.mk(t, 'GET', '/' + './' * n + '../secret.txt', kind='long') for n in (8, 16, 17, 32, 33, 64, 65, 128, 129, 256, 257, 1000, 2040)]
    for tg in ['/../secret.txt', '/sub/../../secret.txt', '/..', '/../', '/sub//../../secret.txt', '/..%2Fsecret.txt'] + ['/' + n.decode('utf-8', 'surrogateescape') for n in t.names]:
        cases.append(K.mk(t, 'GET', tg, kind='corpus'))
    cases = with_probes(rng, t, cases, every=10)
    results, note = [], None
    try:
        docroot = materialise(t)
        with R.Server(os.fsdecode(docroot), threads=2, capture_stdout=False) as srv:
            silent = 0
            for c in cases:
                c.entry = 'real'
                if not srv.alive():
                    note = 'the real binary ended during the campaign: ' + str(srv.stop()); break
                try: got = srv.request(c.raw, timeout=10)
                except Exception as e:      # noqa: reset / timeout - no answer to judge (panics and hangs are C04's and C06's findings)
                    got = b''
                    silent += 1
                    if silent > 3: break    # a server that stopped answering: do not wait ten seconds for every remaining request
                results.append((c, dict(head='ok', writes=[got] if got else [], later=[], recv=got, flushes=1, raw='')))
    except R.ServerError as e:
        note = 'the real binary could not be started: ' + str(e)[:300]
    finally:
        shutil.rmtree(t.root, ignore_errors=True)
    return results, note
