"""Input classes of C06 (serving capacity survives any history of connections) that the histories of props/c06.py and
props/c06_socket.py did not reach (generator audit, see audit/C06/AUDIT.md).  Everything is a deterministic function of the
seeded PRNG that is passed in; every timing assumption is generous (the answer to a request may take 10 s).

Pool part (`pool_shapes`): histories for the REAL ThreadPool with long jobs, waits inside the history, capacity probes in the
middle of the history, histories forced through ONE worker (the other N-1 block on the barrier meanwhile), hundreds of panics on
one worker, panics of a single payload kind, the empty history, pools of 12..32 workers.

Socket part: connection kinds written `kind/variant` (the variant is chosen when the history is GENERATED, so that a failing
history names exactly what was sent):

    valid-open        the valid request from a client that does NOT half-close: it waits for the answer with its sending side open
    valid-other/<i>   another valid request (table VALIDS: index page, form GET/POST echo, range, query, unknown path ...);
                      its answer must equal the answer a FRESH server gave to the same bytes (Date line removed)
    valid-big         GET of an 8 MiB file read completely; length and content checked
    big-abandon/<m>   the same GET from a client with a 4 KiB receive buffer that leaves while the server is still writing:
                      close / reset without reading, after 100 bytes, after 1 MiB, after a stall (write error at "any byte")
    stall/<ms>/<end>  connect, send nothing for <ms> ms, then close / reset / FIN-and-wait / send the valid request
    split/<cut>/<end> the valid request (or a form upload) in several segments with pauses; <end> = fin | open
    head-cut/<where>/<end>  the request stops inside its head: after the request line, before the blank line, after CR LF CR,
                      LF-only line ends ...; then close / reset / FIN-and-wait
    length/<what>/<end>     Content-Length in every relation to the body: 9999, 10000, 10001, 100000, 2^63, 2^64, -1, 0 with a body,
                      smaller than the body, twice, Transfer-Encoding: chunked cut short, Expect: 100-continue; methods GET/PUT too
    fill/<size>/<p>/<end>   a parsable (p) or unparsable (u) request of exactly <size> bytes, <size> relative to the request buffer
                      (alloc-1, alloc, alloc+1, 2*alloc-1, 2*alloc, 2*alloc+1, 3*alloc)
    pipelined/<k>     k valid requests in one segment
    burst/<K>/<order> K connections opened TOGETHER (K relative to the worker count: N, N+1, 2N+1, 16N+1, 64), each with its
                      own action (valid, garbage, idle then close, reset, FIN, half-sent), served in forward / reverse / shuffled order
    hold/<m>/<k>/<order>    m connections (N-1, N, N+2) are held open and idle while k further connections are made - with N-1
                      held the whole sub-history goes through the ONE remaining worker; then the held ones are released
    emfile/<extra>/<order>  only on a server started under `prlimit --nofile=L`: more connections than the process may have
                      descriptors, so that accept() itself FAILS (EMFILE) for a while; then they are released
    probe             the capacity probe in the MIDDLE of a history (N-1 idle + one valid request that must be answered)
"""
import os, socket, struct, time, random, hashlib, shutil

VALID = b'GET /f.txt HTTP/1.1\r\nHost: x\r\n\r\n'
BIG_NAME = 'big.bin'
BIG_SIZE = 8 << 20
FORM = (b'POST /form-url-encoded-enctype-post-method HTTP/1.1\r\nHost: x\r\nContent-Type: application/x-www-form-urlencoded\r\n'
        b'Content-Length: %d\r\n\r\n')

# valid requests other than GET /f.txt: (name, bytes).  What "correct" means for them is what a fresh server answers.
VALIDS = [
    ('index',        b'GET / HTTP/1.1\r\nHost: x\r\n\r\n'),
    ('file-1.0',     b'GET /f.txt HTTP/1.0\r\n\r\n'),
    ('file-query',   b'GET /f.txt?a=1&b=2 HTTP/1.1\r\nHost: x\r\nAccept: */*\r\n\r\n'),
    ('range',        b'GET /f.txt HTTP/1.1\r\nHost: x\r\nRange: bytes=1-3\r\n\r\n'),
    ('sub-file',     b'GET /sub/g.html HTTP/1.1\r\nHost: x\r\nUser-Agent: c06\r\n\r\n'),
    ('missing',      b'GET /no-such-file.txt HTTP/1.1\r\nHost: x\r\n\r\n'),
    ('form-get',     b'GET /form-get-method?k=v HTTP/1.1\r\nHost: x\r\n\r\n'),
    ('form-post-1',  FORM % 3 + b'a=1'),
    ('form-post-2',  FORM % 11 + b'a=1&bb=two2'),
    ('form-post-lf', b'POST /form-url-encoded-enctype-post-method HTTP/1.1\nContent-Type: application/x-www-form-urlencoded\n\nq=7'),
    ('script',       b'GET /script.js HTTP/1.1\r\nHost: x\r\n\r\n'),
    ('many-headers', b'GET /f.txt HTTP/1.1\r\nHost: x\r\n' + b''.join(b'X-H%d: v%d\r\n' % (i, i) for i in range(40)) + b'\r\n'),
]

def big_content():
    return random.Random(0xC06).randbytes(BIG_SIZE)

def write_docroot(base):
    open(os.path.join(base, 'f.txt'), 'wb').write(b'hello')
    os.makedirs(os.path.join(base, 'sub'), exist_ok=True)
    open(os.path.join(base, 'sub', 'g.html'), 'wb').write(b'<p>sub page</p>\n' * 20)
    big = big_content()
    open(os.path.join(base, BIG_NAME), 'wb').write(big)
    return hashlib.sha256(big).hexdigest()

def split_response(r):
    head, sep, body = r.partition(b'\r\n\r\n')
    return head.split(b'\r\n'), body

def norm(r):
    """an answer without what legitimately differs between two runs: the Date line; form echoes list the fields of a HashMap
    (any order), so body lines are compared as a multiset"""
    if not r: return r
    lines, body = split_response(r)
    lines = [l for l in lines if not l.lower().startswith(b'date')]
    return (tuple(lines), tuple(sorted(body.split(b'\r\n'))))

def _conn(port, timeout=5, rcvbuf=None):
    if rcvbuf is None:
        return socket.create_connection(('127.0.0.1', port), timeout=timeout)
    s = socket.socket(socket.AF_INET, socket.SOCK_STREAM)
    s.setsockopt(socket.SOL_SOCKET, socket.SO_RCVBUF, rcvbuf)      # before connect: fixes the window the server may fill
    s.settimeout(timeout)
    s.connect(('127.0.0.1', port))
    return s

def _rst(s):
    try: s.setsockopt(socket.SOL_SOCKET, socket.SO_LINGER, struct.pack('ii', 1, 0))
    except OSError: pass
    s.close()

def _read_all(s, timeout):
    """read to end of stream; None when nothing came within `timeout` / reset before any byte"""
    s.settimeout(timeout)
    chunks = []
    try:
        while True:
            b = s.recv(1 << 16)
            if not b: break
            chunks.append(b)
    except OSError:
        if not chunks: return None
    return b''.join(chunks)

def _end(s, how, wait=2):
    """the ways a client leaves: close (FIN, or RST if unread input), rst, fin = half-close and wait for the answer,
    open = wait for the answer with the sending side open"""
    r = b''
    try:
        if how == 'rst': _rst(s); return r
        if how == 'fin':
            s.shutdown(socket.SHUT_WR); r = _read_all(s, wait)
        elif how == 'open':
            r = _read_all(s, wait)
    except OSError:
        pass
    try: s.close()
    except OSError: pass
    return r

# ------------------------------------------------------------------------------------------------ variants
def alloc_of(server):
    return server.alloc or 10000

HEAD_CUTS = {
    'method':      b'GE',
    'line':        b'GET /f.txt HTTP/1.1',
    'line-cr':     b'GET /f.txt HTTP/1.1\r',
    'line-crlf':   b'GET /f.txt HTTP/1.1\r\n',
    'header':      b'GET /f.txt HTTP/1.1\r\nHost: x',
    'no-blank':    b'GET /f.txt HTTP/1.1\r\nHost: x\r\n',
    'crlfcr':      b'GET /f.txt HTTP/1.1\r\nHost: x\r\n\r',
    'lf-no-blank': b'GET /f.txt HTTP/1.1\nHost: x\n',
    'lf-complete': b'GET /f.txt HTTP/1.1\nHost: x\n\n',
    'post-no-blank': FORM[:-2] % 3,
    'blank-first': b'\r\n',
    'nul':         b'\x00',
}
LENGTHS = {
    'cl-9999':   (b'POST', b'Content-Length: 9999\r\n', b'a=1'),
    'cl-10000':  (b'POST', b'Content-Length: 10000\r\n', b'a=1'),
    'cl-10001':  (b'POST', b'Content-Length: 10001\r\n', b'a=1'),
    'cl-100000': (b'POST', b'Content-Length: 100000\r\n', b'a=1&b=' + b'x' * 300),
    'cl-2^63':   (b'POST', b'Content-Length: 9223372036854775808\r\n', b'a=1'),
    'cl-2^64':   (b'POST', b'Content-Length: 18446744073709551616\r\n', b'a=1'),
    'cl-neg':    (b'POST', b'Content-Length: -1\r\n', b'a=1'),
    'cl-0-body': (b'POST', b'Content-Length: 0\r\n', b'a=1'),
    'cl-small':  (b'POST', b'Content-Length: 1\r\n', b'a=1&b=2'),
    'cl-1-none': (b'POST', b'Content-Length: 1\r\n', b''),
    'cl-twice':  (b'POST', b'Content-Length: 3\r\nContent-Length: 500\r\n', b'a=1'),
    'cl-lower':  (b'POST', b'content-length:   700  \r\n', b'a=1'),
    'cl-get':    (b'GET', b'Content-Length: 500\r\n', b'a=1'),
    'cl-put':    (b'PUT', b'Content-Length: 500\r\n', b'a=1'),
    'chunked':   (b'POST', b'Transfer-Encoding: chunked\r\n', b'400\r\na=1'),
    'chunk+cl':  (b'POST', b'Transfer-Encoding: chunked\r\nContent-Length: 500\r\n', b'3\r\na=1\r\n'),
    'expect':    (b'POST', b'Expect: 100-continue\r\nContent-Length: 500\r\n', b''),
    'keepalive': (b'POST', b'Connection: keep-alive\r\nKeep-Alive: timeout=5, max=100\r\nContent-Length: 500\r\n', b'a=1'),
    'multipart': (b'POST', b'Content-Length: 900\r\n', b'--B\r\nContent-Disposition: form-data; name="a"\r\n\r\nhalf a pa'),
}
FILL_SIZES = ['a-1', 'a', 'a+1', '2a-1', '2a', '2a+1', '3a']
ENDS = ['close', 'rst', 'fin']
BIG_MODES = ['close-0', 'rst-0', 'close-100', 'rst-100', 'rst-1M', 'close-1M', 'stall-close', 'fin-0', 'shutrd']
BURST_ACTIONS = ['valid', 'valid-open', 'garbage', 'idle-close', 'rst', 'fin', 'half', 'big-rst']
SIMPLE = ['valid', 'garbage', 'rst', 'fin', 'half', 'rst-sent', 'cut-body']     # quick connections used inside hold/burst

def pick_variant(kind, rng, n, quick_stall=False):
    """the full element `kind/variant` for a new kind"""
    if kind == 'valid-other': return f'valid-other/{rng.below(len(VALIDS))}/{rng.choice(["fin", "open"])}'
    if kind == 'big-abandon': return 'big-abandon/' + rng.choice(BIG_MODES)
    if kind == 'stall':
        ms = rng.choice([20, 30]) if quick_stall else rng.choice([20, 60, 150])
        return f'stall/{ms}/' + rng.choice(['close', 'rst', 'fin', 'send'])
    if kind == 'split': return f'split/{rng.choice(["line", "head", "byte", "body", "terminator"])}/' + rng.choice(['fin', 'open'])
    if kind == 'head-cut': return f'head-cut/{rng.choice(sorted(HEAD_CUTS))}/' + rng.choice(ENDS)
    if kind == 'length': return f'length/{rng.choice(sorted(LENGTHS))}/' + rng.choice(ENDS)
    if kind == 'fill': return f'fill/{rng.choice(FILL_SIZES)}/{rng.choice("pu")}/' + rng.choice(ENDS + ['open'])
    if kind == 'pipelined': return f'pipelined/{rng.choice([2, 3, 20])}'
    if kind == 'burst':
        k = rng.choice([n, n + 1, 2 * n + 1, 16 * n + 1, 64])
        return f'burst/{k}/{rng.choice(["fwd", "rev", "mix"])}/{rng.below(1 << 16)}'
    if kind == 'hold':
        m = rng.choice([max(n - 1, 0), n - 1 if n > 1 else 1, n, n + 2])
        return f'hold/{m}/{rng.choice([1, 3, 8, 20])}/{rng.choice(["fwd", "rev"])}/{rng.below(1 << 16)}'
    if kind == 'emfile': return f'emfile/{rng.choice([4, 16, 60])}/{rng.choice(["fwd", "rev", "rst"])}'
    return kind

NEW_KINDS = ['valid-open', 'valid-other', 'valid-big', 'big-abandon', 'stall', 'split', 'head-cut', 'length', 'fill', 'pipelined',
             'burst', 'hold', 'probe']
# kinds whose answer the property demands (a valid request, made in a way a correct client may make it)
DEMANDED = ('valid', 'valid-open', 'valid-other', 'valid-big', 'probe')

def _fill_request(size, parsable):
    if not parsable: return b'\xfe' * size
    head = b'GET /f.txt HTTP/1.1\r\nHost: x\r\nX-Pad: '
    tail = b'\r\n\r\n'
    return head + b'a' * max(0, size - len(head) - len(tail)) + tail

def _size(expr, alloc):
    return {'a-1': alloc - 1, 'a': alloc, 'a+1': alloc + 1, '2a-1': 2 * alloc - 1, '2a': 2 * alloc, '2a+1': 2 * alloc + 1, '3a': 3 * alloc}[expr]

def _simple(port, action):
    """one quick connection that never waits for anything; returns the socket if an answer is still to be read"""
    s = _conn(port)
    if action in ('valid', 'valid-open'):
        s.sendall(VALID)
        if action == 'valid': s.shutdown(socket.SHUT_WR)
        return s
    if action == 'garbage': s.sendall(b'\xff\xfe\x00 garbage\r\n\r\n'); s.close()
    elif action == 'rst': _rst(s)
    elif action == 'fin': s.close()
    elif action == 'half': s.sendall(b'GET /f.t'); s.close()
    elif action == 'rst-sent': s.sendall(VALID); _rst(s)
    elif action == 'cut-body': s.sendall(FORM % 500 + b'a=1'); s.close()
    elif action == 'big-rst': s.sendall(b'GET /%s HTTP/1.1\r\nHost: x\r\n\r\n' % BIG_NAME.encode()); _rst(s)
    return None

def run_new(server, elem, ctx):
    """run one element of a new kind.  Returns (answer, note): answer None = no answer; for kinds in DEMANDED the caller judges it.
    ctx: dict(n=workers, fresh={index: normalised answer}, big_sha=..., probe=callable)"""
    p = elem.split('/')
    kind = p[0]
    port = server.port
    try:
        if kind == 'valid-open':
            return server.request(VALID, timeout=10, half_close=False), ''
        if kind == 'valid-other':
            name, raw = VALIDS[int(p[1])]
            return server.request(raw, timeout=10, half_close=(p[2] == 'fin')), name
        if kind == 'valid-big':
            return server.request(b'GET /%s HTTP/1.1\r\nHost: x\r\n\r\n' % BIG_NAME.encode(), timeout=20), ''
        if kind == 'probe':
            ok, info = ctx['probe'](server, ctx['n'], pause=0.01)
            return (b'HTTP/1.1 200 probe' if ok else None), str(info)
        if kind == 'big-abandon':
            mode = p[1]
            s = _conn(port, rcvbuf=4096)
            s.sendall(b'GET /%s HTTP/1.1\r\nHost: x\r\n\r\n' % BIG_NAME.encode())
            what, _, after = mode.partition('-')
            try:
                if what == 'stall': time.sleep(0.15); s.close(); return b'', ''
                if what == 'shutrd': s.shutdown(socket.SHUT_RD); time.sleep(0.02); s.close(); return b'', ''
                want = {'0': 0, '100': 100, '1M': 1 << 20}[after]
                got = 0
                s.settimeout(10)
                while got < want:
                    b = s.recv(min(65536, want - got))
                    if not b: break
                    got += len(b)
                if what == 'rst': _rst(s)
                elif what == 'fin': s.shutdown(socket.SHUT_WR); time.sleep(0.02); s.close()
                else: s.close()
            except OSError:
                try: s.close()
                except OSError: pass
            return b'', ''
        if kind == 'stall':
            s = _conn(port)
            time.sleep(int(p[1]) / 1000.0)
            if p[2] == 'send':
                try: s.sendall(VALID)
                except OSError: pass
                return _end(s, 'open', wait=10), 'stalled before sending'
            return _end(s, p[2]), ''
        if kind == 'split':
            cut = p[1]
            raw = VALID
            if cut == 'line': pieces = [raw[:9], raw[9:]]
            elif cut == 'head': pieces = [raw[:21], raw[21:]]
            elif cut == 'terminator': pieces = [raw[:-2], raw[-2:]]
            elif cut == 'byte': pieces = [raw[i:i + 1] for i in range(12)] + [raw[12:]]
            else:
                raw = FORM % 7 + b'a=1&b=2'; pieces = [raw[:-7], raw[-7:-3], raw[-3:]]
            s = _conn(port)
            s.setsockopt(socket.IPPROTO_TCP, socket.TCP_NODELAY, 1)
            try:
                for i, piece in enumerate(pieces):
                    if i: time.sleep(0.004)
                    s.sendall(piece)
            except OSError:
                pass                      # the server may have answered the first piece and closed
            return _end(s, p[2], wait=5), ''
        if kind == 'head-cut':
            s = _conn(port)
            s.sendall(HEAD_CUTS[p[1]])
            return _end(s, p[2]), ''
        if kind == 'length':
            method, hdr, body = LENGTHS[p[1]]
            s = _conn(port)
            s.sendall(method + b' /form-url-encoded-enctype-post-method HTTP/1.1\r\nHost: x\r\nContent-Type: application/x-www-form-urlencoded\r\n'
                      + hdr + b'\r\n' + body)
            return _end(s, p[2]), ''
        if kind == 'fill':
            raw = _fill_request(_size(p[1], alloc_of(server)), p[2] == 'p')
            s = _conn(port)
            try: s.sendall(raw)
            except OSError: pass
            return _end(s, p[3], wait=5), ''
        if kind == 'pipelined':
            s = _conn(port)
            try: s.sendall(VALID * int(p[1]))
            except OSError: pass
            return _end(s, 'fin', wait=5), ''
        if kind == 'burst':
            from vlib import common as C
            k, order, r = int(p[1]), p[2], C.Rng(int(p[3]))
            conns = []
            for _ in range(k):
                try: conns.append(_conn(port))
                except OSError: break
            actions = [r.choice(BURST_ACTIONS) for _ in conns]
            idx = list(range(len(conns)))
            if order == 'rev': idx.reverse()
            elif order == 'mix': r.shuffle(idx)
            waiting = []
            for i in idx:
                s, a = conns[i], actions[i]
                try:
                    if a == 'valid': s.sendall(VALID); s.shutdown(socket.SHUT_WR); waiting.append(s)
                    elif a == 'valid-open': s.sendall(VALID); waiting.append(s)
                    elif a == 'garbage': s.sendall(b'\xff\xfe\x00 garbage\r\n\r\n'); s.close()
                    elif a == 'idle-close': s.close()
                    elif a == 'rst': _rst(s)
                    elif a == 'fin': s.shutdown(socket.SHUT_WR); waiting.append(s)
                    elif a == 'half': s.sendall(b'GET /f.t'); s.close()
                    elif a == 'big-rst': s.sendall(b'GET /%s HTTP/1.1\r\nHost: x\r\n\r\n' % BIG_NAME.encode()); _rst(s)
                except OSError:
                    try: s.close()
                    except OSError: pass
            answered = 0
            for s in waiting:
                if (_end(s, 'open', wait=10) or b'').startswith(b'HTTP/1.1'): answered += 1
            return b'', f'{answered}/{len(waiting)} of the burst answered'
        if kind == 'hold':
            from vlib import common as C
            m, k, order, r = int(p[1]), int(p[2]), p[3], C.Rng(int(p[4]))
            n = ctx['n']
            held = []
            for _ in range(m):
                try: held.append(_conn(port))
                except OSError: break
            time.sleep(0.02)              # the held connections are with their workers (or in the queue) before the sub-history starts
            unanswered = 0
            later = []
            for _ in range(k):
                a = r.choice(SIMPLE)
                try: s = _simple(port, a)
                except OSError: continue
                if s is None: continue
                if m <= n - 1:            # a worker is free: the valid request must be answered now
                    if not (_end(s, 'open', wait=10) or b'').startswith(b'HTTP/1.1 200'): unanswered += 1
                else: later.append(s)     # every worker is held: answered after the release
            if order == 'rev': held.reverse()
            for i, s in enumerate(held):
                if i % 3 == 2: _rst(s)
                else:
                    try: s.close()
                    except OSError: pass
            for s in later:
                if not (_end(s, 'open', wait=10) or b'').startswith(b'HTTP/1.1 200'): unanswered += 1
            if unanswered: return None, f'{unanswered} valid request(s) made while {m} idle connections were held open on {n} workers got no answer'
            return b'HTTP/1.1 200 hold', ''
        if kind == 'emfile':
            limit = ctx.get('nofile')
            if not limit: return b'', 'no descriptor limit on this server'
            extra, order = int(p[1]), p[2]
            held = []
            for _ in range(limit + extra):
                try: held.append(_conn(port, timeout=1))
                except OSError: break
            time.sleep(0.04)              # accept() fails meanwhile (the loop prints an error and goes on)
            if order == 'rev': held.reverse()
            for s in held:
                if order == 'rst': _rst(s)
                else:
                    try: s.close()
                    except OSError: pass
            time.sleep(0.02)
            return b'', f'{len(held)} connections against a limit of {limit} descriptors'
        return None, 'unknown kind ' + elem
    except OSError as e:
        return None, f'{elem}: {type(e).__name__}: {e}'

def judge_answer(elem, r, ctx):
    """None if the answer to a DEMANDED element is right, else a description.  Demands only what a fresh server does."""
    kind = elem.split('/')[0]
    if kind in ('probe', 'hold'): return None if r else 'not answered'
    if r is None or r == b'': return 'not answered'
    if kind in ('valid', 'valid-open'):
        if not r.startswith(b'HTTP/1.1 200'): return 'answered ' + repr(r[:40])
        if split_response(r)[1] != b'hello': return 'status 200 with a body that is not the file: ' + repr(split_response(r)[1][:60])
        return None
    if kind == 'valid-big':
        if not r.startswith(b'HTTP/1.1 200'): return 'answered ' + repr(r[:40])
        body = split_response(r)[1]
        if len(body) != BIG_SIZE or hashlib.sha256(body).hexdigest() != ctx['big_sha']:
            return f'status 200 with a body of {len(body)} bytes that is not the file of {BIG_SIZE} bytes'
        return None
    if kind == 'valid-other':
        want = ctx['fresh'].get(int(elem.split('/')[1]))
        if want is None: return None                       # a fresh server does not answer this one reproducibly: nothing demanded
        if norm(r) != want:
            return f'answer differs from the answer of a fresh server to the same request ({VALIDS[int(elem.split("/")[1])][0]}): ' + repr(r[:30]) + ' … ' + repr(r[-60:])
        return None
    return None

def fresh_answers(Server, base, alloc=None):
    """what a server without a history answers to every request of VALIDS (asked twice, on two connections; a request whose two
    answers differ is left out of the comparison)"""
    out = {}
    with Server(base, threads=2, alloc=alloc, capture_stdout=False) as srv:
        for i, (name, raw) in enumerate(VALIDS):
            try:
                a = srv.request(raw, timeout=10)
                b = srv.request(raw, timeout=10, half_close=False)
            except OSError:
                continue
            if a and norm(a) == norm(b): out[i] = norm(a)
    return out

def prlimit_wrap(limit):
    exe = shutil.which('prlimit')
    return [exe, f'--nofile={limit}:{limit}'] if exe else None

# ------------------------------------------------------------------------------------------------ pool part
def pool_shapes(rng, tier):
    """(n, kinds, perturb, label) for the real ThreadPool; 'b' always in groups of n (the barrier of the harness has n parties)"""
    out = []
    def hist(length, pp, alphabet='ie'):
        return ''.join('p' if rng.below(10) < pp else rng.choice(alphabet) for _ in range(length))
    ns = [1, 2, 3, 8] if tier == 'quick' else [1, 2, 3, 4, 5, 6, 7, 8]
    # the empty history, the wait first, nothing but waits
    for n in ns[:3]:
        out.append((n, 'b' * n, False, 'empty history'))
        out.append((n, 'www' + 'b' * n, True, 'empty history'))
    # many panics on ONE worker: N=1, and N>1 with the other workers blocked on the barrier meanwhile
    for count in ([300] if tier == 'quick' else [255, 256, 257, 300, 399]):
        out.append((1, 'p' * count + 'w' + 'b', False, 'hundreds of panics on one worker'))
        n = rng.choice([2, 3, 4])
        out.append((n, 'b' * (n - 1) + 'p' * count + 'b' + 'w' + 'b' * n, rng.chance(1, 2), 'hundreds of panics on one worker'))
    reps = 1 if tier == 'quick' else 12
    for _ in range(reps):
        for n in ns:
            # the history goes through one worker while the others are blocked; then everybody is released and probed
            h = hist(rng.range(1, 30), rng.choice([2, 5, 10]), 'iel' if rng.chance(1, 3) else 'ie')
            out.append((n, 'b' * (n - 1) + h + 'b' + 'w' + 'b' * n, rng.chance(1, 2), 'history through one worker'))
            # strictly sequential: the pool is idle before every job
            h = hist(rng.range(1, 25), rng.choice([3, 8, 10]))
            out.append((n, 'w'.join(h) + 'w' + 'b' * n, rng.chance(1, 2), 'sequential history (wait after every job)'))
            # probes inside the history: capacity is asked for repeatedly
            parts = [hist(rng.range(0, 3 * n), rng.choice([3, 8, 10])) for _ in range(rng.range(2, 4))]
            out.append((n, ('b' * n).join(parts) + rng.choice(['', 'w']) + 'b' * n, rng.chance(1, 2), 'probes inside the history'))
            # long jobs between the panics, waits at random places: panics while other workers are busy / while jobs are queued
            h = hist(rng.range(n + 1, 40), rng.choice([2, 5, 8]), 'iell')
            h = ''.join(c + ('w' if rng.chance(1, 6) else '') for c in h)
            out.append((n, h + rng.choice(['', 'w']) + 'b' * n, rng.chance(1, 2), 'long jobs and waits inside the history'))
            # panics of one payload kind only (the harness derives the payload from the task number mod 6)
            k = rng.below(6)
            length = rng.range(2 * n, 6 * n + 12)
            h = ''.join('p' if t % 6 == k else rng.choice('ie') for t in range(length))
            out.append((n, h + 'w' + 'b' * n, False, f'one panic payload kind only ({k})'))
    for n in ([16] if tier == 'quick' else [12, 16, 32]):
        out.append((n, 'p' * (2 * n + 1) + 'b' * n, True, 'large pool'))
        out.append((n, 'b' * (n - 1) + hist(20, 8) + 'b' + 'w' + 'b' * n, False, 'large pool'))
    return out
