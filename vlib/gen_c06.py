"""Input classes of C06 (serving capacity survives any history of connections) that the histories of props/c06.py and
props/c06_socket.py did not reach (generator audit, see audit/C06/AUDIT.md).  Everything is a deterministic function of the
seeded PRNG that is passed in; every timing assumption is generous (the answer to a request may take 10 s).

Pool part (`pool_shapes`): histories for the REAL ThreadPool with long jobs, waits inside the history, capacity probes in the
middle of the history, histories forced through ONE worker (the other N-1 block on the barrier meanwhile), hundreds of panics on
one worker, panics of a single payload kind, the empty history, pools of 12..32 workers.

Socket part: connection kinds written `kind/variant` (the variant is chosen when the history is GENERATED, so that a failing
history names exactly what was sent):

    valid-open        the valid request from a client that does NOT half-close: it waits for the answer with its sending side open
    valid-other/<i>   another valid request (table VALIDS: index page, form GET/POST echo, range, query, unknown path ...);
                      its answer must equal the answer a FRESH server gave to the same bytes (Date line removed)
    valid-big         GET of an 8 MiB file read completely; length and content checked
    big-abandon/<m>   the same GET from a client with a 4 KiB receive buffer that leaves while the server is still writing:
                      close / reset without reading, after 100 bytes, after 1 MiB, after a stall (write error at "any byte")
    stall/<ms>/<end>  connect, send nothing for <ms> ms, then close / reset / FIN-and-wait / send the valid request
    split/<cut>/<end> the valid request (or a form upload) in several segments with pauses; <end> = fin | open
    head-cut/<where>/<end>  the request stops inside its head: after the request line, before the blank line, after CR LF CR,
                      LF-only line ends ...; then close / reset / FIN-and-wait
    length/<what>/<end>     Content-Length in every relation to the body: 9999, 10000, 10001, 100000, 2^63, 2^64, -1, 0 with a body,
                      smaller than the body, twice, Transfer-Encoding: chunked cut short, Expect: 100-continue; methods GET/PUT too
    fill/<size>/<p>/<end>   a parsable (p) or unparsable (u) request of exactly <size> bytes, <size> relative to the request buffer
                      (alloc-1, alloc, alloc+1, 2*alloc-1, 2*alloc, 2*alloc+1, 3*alloc)
    pipelined/<k>     k valid requests in one segment
    burst/<K>/<order> K connections opened TOGETHER (K relative to the worker count: N, N+1, 2N+1, 16N+1, 64), each with its
                      own action (valid, garbage, idle then close, reset, FIN, half-sent), served in forward / reverse / shuffled order
    hold/<m>/<k>/<order>    m connections (N-1, N, N+2) are held open and idle while k further connections are made - with N-1
                      held the whole sub-history goes through the ONE remaining worker; then the held ones are released
    emfile/<extra>/<order>  only on a server started under `prlimit --nofile=L`: more connections than the process may have
                      descriptors, so that accept() itself FAILS (EMFILE) for a while; then they are released
    probe             the capacity probe in the MIDDLE of a history (N-1 idle + one valid request that must be answered)
"""
import os, socket, struct, time, random, hashlib, shutil

VALID = b'GET /f.txt HTTP/1.1\r\nHost: x\r\n\r\n'
BIG_NAME = 'big.bin'
BIG_SIZE = 8 << 20
FORM = (b'POST /form-url-encoded-enctype-post-method HTTP/1.1\r\nHost: x\r\nContent-Type: application/x-www-form-urlencoded\r\n'
        b'Content-Length: %d\r\n\r\n')

# valid requests other than GET /f.txt: (name, bytes).  What "correct" means for them is what a fresh server answers.
VALIDS = [
    ('index',        b'GET / HTTP/1.1\r\nHost: x\r\n\r\n'),
    ('file-1.0',     b'GET /f.txt HTTP/1.0\r\n\r\n'),
    ('file-query',   b'GET /f.txt?a=1&b=2 HTTP/1.1\r\nHost: x\r\nAccept: */*\r\n\r\n'),
    ('range',        b'GET /f.txt HTTP/1.1\r\nHost: x\r\nRange: bytes=1-3\r\n\r\n'),
    ('sub-file',     b'GET /sub/g.html HTTP/1.1\r\nHost: x\r\nUser-Agent: c06\r\n\r\n'),
    ('missing',      b'GET /no-such-file.txt HTTP/1.1\r\nHost: x\r\n\r\n'),
    ('form-get',     b'GET /form-get-method?k=v HTTP/1.1\r\nHost: x\r\n\r\n'),
    ('form-post-1',  FORM % 3 + b'a=1'),
    ('form-post-2',  FORM % 11 + b'a=1&bb=two2'),
    ('form-post-lf', b'POST /form-url-encoded-enctype-post-method HTTP/1.1\nContent-Type: application/x-www-form-urlencoded\n\nq=7'),
    ('script',       b'GET /script.js HTTP/1.1\r\nHost: x\r\n\r\n'),
    ('many-headers', b'GET /f.txt HTTP/1.1\r\nHost: x\r\n' + b''.join(b'X-H%d: v%d\r\n' % (i, i) for i in range(40)) + b'\r\n'),
]

def big_content():
    return random.Random(0xC06).randbytes(BIG_SIZE)

def write_docroot(base):
    open(os.path.join(base, 'f.txt'), 'wb').write(b'hello')
    os.makedirs(os.path.join(base, 'sub'), exist_ok=True)
    open(os.path.join(base, 'sub', 'g.html'), 'wb').write(b'<p>sub page</p>\n' * 20)
    big = big_content()
    open(os.path.join(base, BIG_NAME), 'wb').write(big)
    # special files in the served directory (regression of F76): a named pipe, asked for directly, through a link, through the .html rule
    # and as an index page - opening one blocks until somebody writes to it; a link to a device
    os.makedirs(os.path.join(base, 'pd'), exist_ok=True)
    for n in ('pipe.txt', 'pipepage.html', os.path.join('pd', 'index.html')):
        if not os.path.lexists(os.path.join(base, n)): os.mkfifo(os.path.join(base, n))
    for n, t in (('pipelnk.txt', 'pipe.txt'), ('null.txt', '/dev/null')):
        if not os.path.lexists(os.path.join(base, n)): os.symlink(t, os.path.join(base, n))
    return hashlib.sha256(big).hexdigest()

def split_response(r):
    head, sep, body = r.partition(b'\r\n\r\n')
    return head.split(b'\r\n'), body

def norm(r):
    """an answer without what legitimately differs between two runs: the Date line; form echoes list the fields of a HashMap
    (any order), so body lines are compared as a multiset"""
    if not r: return r
    lines, body = split_response(r)
    lines = [l for l in lines if not l.lower().startswith(b'date')]
    return (tuple(lines), tuple(sorted(body.split(b'\r\n'))))

def _conn(port, timeout=5, rcvbuf=None):
    if rcvbuf is None:
        return socket.create_connection(('127.0.0.1', port), timeout=timeout)
    s = socket.socket(socket.AF_INET, socket.SOCK_STREAM)
    s.setsockopt(socket.SOL_SOCKET, socket.SO_RCVBUF, rcvbuf)      # before connect: fixes the window the server may fill
    s.settimeout(timeout)
    s.connect(('127.0.0.1', port))
    return s

def _rst(s):
    try: s.setsockopt(socket.SOL_SOCKET, socket.SO_LINGER, struct.pack('ii', 1, 0))
    except OSError: pass
    s.close()

def _read_all(s, timeout):
    """read to end of stream; None when nothing came within `timeout` / reset before any byte"""
    s.settimeout(timeout)
    chunks = []
    try:
        while True:
            b = s.recv(1 << 16)
            if not b: break
            chunks.append(b)
    except OSError:
        if not chunks: return None
    return b''.join(chunks)

def _end(s, how, wait=2):
    """the ways a client leaves: close (FIN, or RST if unread input), rst, fin = half-close and wait for the answer,
    open = wait for the answer with the sending side open"""
    r = b''
    try:
        if how == 'rst': _rst(s); return r
        if how == 'fin':
            s.shutdown(socket.SHUT_WR); r = _read_all(s, wait)
        elif how == 'open':
            r = _read_all(s, wait)
    except OSError:
        pass
    try: s.close()
    except OSError: pass
    return r

# ------------------------------------------------------------------------------------------------ variants
def alloc_of(server):
    return server.alloc or 10000

HEAD_CUTS = {
    'method':      b'GE',
    'line':        b'GET /f.txt HTTP/1.1',
    'line-cr':     b'GET /f.txt HTTP/1.1\r',
    'line-crlf':   b'GET /f.txt HTTP/1.1\r\n',
    'header':      b'GET /f.txt HTTP/1.1\r\nHost: x',
    'no-blank':    b'GET /f.txt HTTP/1.1\r\nHost: x\r\n',
    'crlfcr':      b'GET /f.txt HTTP/1.1\r\nHost: x\r\n\r',
    'lf-no-blank': b'GET /f.txt HTTP/1.1\nHost: x\n',
    'lf-complete': b'GET /f.txt HTTP/1.1\nHost: x\n\n',
    'post-no-blank': FORM[:-2] % 3,
    'blank-first': b'\r\n',
    'nul':         b'\x00',
}
LENGTHS = {
    'cl-9999':   (b'POST', b'Content-Length: 9999\r\n', b'a=1'),
    'cl-10000':  (b'POST', b'Content-Length: 10000\r\n', b'a=1'),
    'cl-10001':  (b'POST', b'Content-Length: 10001\r\n', b'a=1'),
    'cl-100000': (b'POST', b'Content-Length: 100000\r\n', b'a=1&b=' + b'x' * 300),
    'cl-2^63':   (b'POST', b'Content-Length: 9223372036854775808\r\n', b'a=1'),
    'cl-2^64':   (b'POST', b'Content-Length: 18446744073709551616\r\n', b'a=1'),
    'cl-neg':    (b'POST', b'Content-Length: -1\r\n', b'a=1'),
    'cl-0-body': (b'POST', b'Content-Length: 0\r\n', b'a=1'),
    'cl-small':  (b'POST', b'Content-Length: 1\r\n', b'a=1&b=2'),
    'cl-1-none': (b'POST', b'Content-Length: 1\r\n', b''),
    'cl-twice':  (b'POST', b'Content-Length: 3\r\nContent-Length: 500\r\n', b'a=1'),
    'cl-lower':  (b'POST', b'content-length:   700  \r\n', b'a=1'),
    'cl-get':    (b'GET', b'Content-Length: 500\r\n', b'a=1'),
    'cl-put':    (b'PUT', b'Content-Length: 500\r\n', b'a=1'),
    'chunked':   (b'POST', b'Transfer-Encoding: chunked\r\n', b'400\r\na=1'),
    'chunk+cl':  (b'POST', b'Transfer-Encoding: chunked\r\nContent-Length: 500\r\n', b'3\r\na=1\r\n'),
    'expect':    (b'POST', b'Expect: 100-continue\r\nContent-Length: 500\r\n', b''),
    'keepalive': (b'POST', b'Connection: keep-alive\r\nKeep-Alive: timeout=5, max=100\r\nContent-Length: 500\r\n', b'a=1'),
    'multipart': (b'POST', b'Content-Length: 900\r\n', b'--B\r\nContent-Disposition: form-data; name="a"\r\n\r\nhalf a pa'),
}
FILL_SIZES = ['a-1', 'a', 'a+1', '2a-1', '2a', '2a+1', '3a']
ENDS = ['close', 'rst', 'fin']
BIG_MODES = ['close-0', 'rst-0', 'close-100', 'rst-100', 'rst-1M', 'close-1M', 'stall-close', 'fin-0', 'shutrd']
BURST_ACTIONS = ['valid', 'valid-open', 'garbage', 'idle-close', 'rst', 'fin', 'half', 'big-rst']
SIMPLE = ['valid', 'garbage', 'rst', 'fin', 'half', 'rst-sent', 'cut-body']     # quick connections used inside hold/burst

def pick_variant(kind, rng, n, quick_stall=False):
    """the full element `kind/variant` for a new kind"""
    if kind == 'valid-other': return f'valid-other/{rng.below(len(VALIDS))}/{rng.choice(["fin", "open"])}'
    if kind == 'big-abandon': return 'big-abandon/' + rng.choice(BIG_MODES)
    if kind == 'stall':
        ms = rng.choice([20, 30]) if quick_stall else rng.choice([20, 60, 150])
        return f'stall/{ms}/' + rng.choice(['close', 'rst', 'fin', 'send'])
    if kind == 'split': return f'split/{rng.choice(["line", "head", "byte", "body", "terminator"])}/' + rng.choice(['fin', 'open'])
    if kind == 'head-cut': return f'head-cut/{rng.choice(sorted(HEAD_CUTS))}/' + rng.choice(ENDS)
    if kind == 'length': return f'length/{rng.choice(sorted(LENGTHS))}/' + rng.choice(ENDS)
    if kind == 'fill': return f'fill/{rng.choice(FILL_SIZES)}/{rng.choice("pu")}/' + rng.choice(ENDS + ['open'])
    if kind == 'pipelined': return f'pipelined/{rng.choice([2, 3, 20])}'
    if kind == 'burst':
        k = min(rng.choice([n, n + 1, 2 * n + 1, 16 * n + 1, 64]), 96)     # below the listen backlog (128): what the kernel drops beyond it is not the server's doing
        return f'burst/{k}/{rng.choice(["fwd", "rev", "mix"])}/{rng.below(1 << 16)}'
    if kind == 'hold':
        m = rng.choice([max(n - 1, 0), n - 1 if n > 1 else 1, n, n + 2])
        return f'hold/{m}/{rng.choice([1, 3, 8, 20])}/{rng.choice(["fwd", "rev"])}/{rng.below(1 << 16)}'
    if kind == 'emfile': return f'emfile/{rng.choice([4, 16, 60])}/{rng.choice(["fwd", "rev", "rst"])}'
    return kind

NEW_KINDS = ['valid-open', 'valid-other', 'valid-big', 'big-abandon', 'stall', 'split', 'head-cut', 'length', 'fill', 'pipelined',
             'burst', 'hold', 'probe']
# kinds whose answer the property demands (a valid request, made in a way a correct client may make it)
DEMANDED = ('valid', 'valid-open', 'valid-other', 'valid-big', 'probe')

def _fill_request(size, parsable):
    if not parsable: return b'\xfe' * size
    head = b'GET /f.txt HTTP/1.1\r\nHost: x\r\nX-Pad: '
    tail = b'\r\n\r\n'
    return head + b'a' * max(0, size - len(head) - len(tail)) + tail

def _size(expr, alloc):
    return {'a-1': alloc - 1, 'a': alloc, 'a+1': alloc + 1, '2a-1': 2 * alloc - 1, '2a': 2 * alloc, '2a+1': 2 * alloc + 1, '3a': 3 * alloc}[expr]

def _simple(port, action):
    """one quick connection that never waits for anything; returns the socket if an answer is still to be read"""
    s = _conn(port)
    if action in ('valid', 'valid-open'):
        s.sendall(VALID)
        if action == 'valid': s.shutdown(socket.SHUT_WR)
        return s
    if action == 'garbage': s.sendall(b'\xff\xfe\x00 garbage\r\n\r\n'); s.close()
    elif action == 'rst': _rst(s)
    elif action == 'fin': s.close()
    elif action == 'half': s.sendall(b'GET /f.t'); s.close()
    elif action == 'rst-sent': s.sendall(VALID); _rst(s)
    elif action == 'cut-body': s.sendall(FORM % 500 + b'a=1'); s.close()
    elif action == 'big-rst': s.sendall(b'GET /%s HTTP/1.1\r\nHost: x\r\n\r\n' % BIG_NAME.encode()); _rst(s)
    return None

def run_new(server, elem, ctx):
    """run one element of a new kind.  Returns (answer, note): answer None = no answer; for kinds in DEMANDED the caller judges it.
    ctx: dict(n=workers, fresh={index: normalised answer}, big_sha=..., probe=callable)"""
    p = elem.split('/')
    kind = p[0]
    port = server.port
    try:
        if kind == 'valid-open':
            return server.request(VALID, timeout=10, half_close=False), ''
        if kind == 'valid-other':
            name, raw = VALIDS[int(p[1])]
            return server.request(raw, timeout=10, half_close=(p[2] == 'fin')), name
        if kind == 'valid-big':
            return server.request(b'GET /%s HTTP/1.1\r\nHost: x\r\n\r\n' % BIG_NAME.encode(), timeout=20), ''
        if kind == 'probe':
            ok, info = ctx['probe'](server, ctx['n'], pause=0.01)
            return (b'HTTP/1.1 200 probe' if ok else None), str(info)
        if kind == 'big-abandon':
            mode = p[1]
            s = _conn(port, rcvbuf=4096)
            s.sendall(b'GET /%s HTTP/1.1\r\nHost: x\r\n\r\n' % BIG_NAME.encode())
            what, _, after = mode.partition('-')
            try:
                if what == 'stall': time.sleep(0.15); s.close(); return b'', ''
                if what == 'shutrd': s.shutdown(socket.SHUT_RD); time.sleep(0.02); s.close(); return b'', ''
                want = {'0': 0, '100': 100, '1M': 1 << 20}[after]
                got = 0
                s.settimeout(10)
                while got < want:
                    b = s.recv(min(65536, want - got))
                    if not b: break
                    got += len(b)
                if what == 'rst': _rst(s)
                elif what == 'fin': s.shutdown(socket.SHUT_WR); time.sleep(0.02); s.close()
                else: s.close()
            except OSError:
                try: s.close()
                except OSError: pass
            return b'', ''
        if kind == 'stall':
            s = _conn(port)
            time.sleep(int(p[1]) / 1000.0)
            if p[2] == 'send':
                try: s.sendall(VALID)
                except OSError: pass
                return _end(s, 'open', wait=10), 'stalled before sending'
            return _end(s, p[2]), ''
        if kind == 'split':
            cut = p[1]
            raw = VALID
            if cut == 'line': pieces = [raw[:9], raw[9:]]
            elif cut == 'head': pieces = [raw[:21], raw[21:]]
            elif cut == 'terminator': pieces = [raw[:-2], raw[-2:]]
            elif cut == 'byte': pieces = [raw[i:i + 1] for i in range(12)] + [raw[12:]]
            else:
                raw = FORM % 7 + b'a=1&b=2'; pieces = [raw[:-7], raw[-7:-3], raw[-3:]]
            s = _conn(port)
            s.setsockopt(socket.IPPROTO_TCP, socket.TCP_NODELAY, 1)
            try:
                for i, piece in enumerate(pieces):
                    if i: time.sleep(0.004)
                    s.sendall(piece)
            except OSError:
                pass                      # the server may have answered the first piece and closed
            return _end(s, p[2], wait=5), ''
        if kind == 'head-cut':
            s = _conn(port)
            s.sendall(HEAD_CUTS[p[1]])
            return _end(s, p[2]), ''
        if kind == 'length':
            method, hdr, body = LENGTHS[p[1]]
            s = _conn(port)
            s.sendall(method + b' /form-url-encoded-enctype-post-method HTTP/1.1\r\nHost: x\r\nContent-Type: application/x-www-form-urlencoded\r\n'
                      + hdr + b'\r\n' + body)
            return _end(s, p[2]), ''
        if kind == 'fill':
            raw = _fill_request(_size(p[1], alloc_of(server)), p[2] == 'p')
            s = _conn(port)
            try: s.sendall(raw)
            except OSError: pass
            return _end(s, p[3], wait=5), ''
        if kind == 'pipelined':
            s = _conn(port)
            try: s.sendall(VALID * int(p[1]))
            except OSError: pass
            return _end(s, 'fin', wait=5), ''
        if kind == 'burst':
            from vlib import common as C
            k, order, r = int(p[1]), p[2], C.Rng(int(p[3]))
            conns = []
            for _ in range(k):
                try: conns.append(_conn(port))
                except OSError: break
            actions = [r.choice(BURST_ACTIONS) for _ in conns]
            idx = list(range(len(conns)))
            if order == 'rev': idx.reverse()
            elif order == 'mix': r.shuffle(idx)
            waiting = []
            for i in idx:
                s, a = conns[i], actions[i]
                try:
                    if a == 'valid': s.sendall(VALID); s.shutdown(socket.SHUT_WR); waiting.append(s)
                    elif a == 'valid-open': s.sendall(VALID); waiting.append(s)
                    elif a == 'garbage': s.sendall(b'\xff\xfe\x00 garbage\r\n\r\n'); s.close()
                    elif a == 'idle-close': s.close()
                    elif a == 'rst': _rst(s)
                    elif a == 'fin': s.shutdown(socket.SHUT_WR); waiting.append(s)
                    elif a == 'half': s.sendall(b'GET /f.t'); s.close()
                    elif a == 'big-rst': s.sendall(b'GET /%s HTTP/1.1\r\nHost: x\r\n\r\n' % BIG_NAME.encode()); _rst(s)
                except OSError:
                    try: s.close()
                    except OSError: pass
            answered = 0
            for s in waiting:
                if (_end(s, 'open', wait=10) or b'').startswith(b'HTTP/1.1'): answered += 1
            return b'', f'{answered}/{len(waiting)} of the burst answered'
        if kind == 'hold':
            from vlib import common as C
            m, k, order, r = int(p[1]), int(p[2]), p[3], C.Rng(int(p[4]))
            n = ctx['n']
            held = []
            for _ in range(m):
                try: held.append(_conn(port))
                except OSError: break
            time.sleep(0.02)              # the held connections are with their workers (or in the queue) before the sub-history starts
            unanswered = 0
            later = []
            for _ in range(k):
                a = r.choice(SIMPLE)
                try: s = _simple(port, a)
                except OSError: continue
                if s is None: continue
                if m <= n - 1:            # a worker is free: the valid request must be answered now
                    if not (_end(s, 'open', wait=10) or b'').startswith(b'HTTP/1.1 200'): unanswered += 1
                else: later.append(s)     # every worker is held: answered after the release
            if order == 'rev': held.reverse()
            for i, s in enumerate(held):
                if i % 3 == 2: _rst(s)
                else:
                    try: s.close()
                    except OSError: pass
            for s in later:
                if not (_end(s, 'open', wait=10) or b'').startswith(b'HTTP/1.1 200'): unanswered += 1
            if unanswered: return None, f'{unanswered} valid request(s) made while {m} idle connections were held open on {n} workers got no answer'
            return b'HTTP/1.1 200 hold', ''
        if kind == 'emfile':
            limit = ctx.get('nofile')
            if not limit: return b'', 'no descriptor limit on this server'
            extra, order = int(p[1]), p[2]
            held = []
            for _ in range(limit + extra):
                try: held.append(_conn(port, timeout=1))
                except OSError: break
            time.sleep(0.04)              # accept() fails meanwhile (the loop prints an error and goes on)
            if order == 'rev': held.reverse()
            for s in held:
                if order == 'rst': _rst(s)
                else:
                    try: s.close()
                    except OSError: pass
            time.sleep(0.02)
            return b'', f'{len(held)} connections against a limit of {limit} descriptors'
        return None, 'unknown kind ' + elem
    except OSError as e:
        return None, f'{elem}: {type(e).__name__}: {e}'

def judge_answer(elem, r, ctx):
    """None if the answer to a DEMANDED element is right, else a description.  Demands only what a fresh server does."""
    kind = elem.split('/')[0]
    if kind in ('probe', 'hold'): return None if r else 'not answered'
    if r is None or r == b'': return 'not answered'
    if kind in ('valid', 'valid-open'):
        if not r.startswith(b'HTTP/1.1 200'): return 'answered ' + repr(r[:40])
        if split_response(r)[1] != b'hello': return 'status 200 with a body that is not the file: ' + repr(split_response(r)[1][:60])
        return None
    if kind == 'valid-big':
        if not r.startswith(b'HTTP/1.1 200'): return 'answered ' + repr(r[:40])
        body = split_response(r)[1]
        if len(body) != BIG_SIZE or hashlib.sha256(body).hexdigest() != ctx['big_sha']:
            return f'status 200 with a body of {len(body)} bytes that is not the file of {BIG_SIZE} bytes'
        return None
    if kind == 'valid-other':
        want = ctx['fresh'].get(int(elem.split('/')[1]))
        if want is None: return None                       # a fresh server does not answer this one reproducibly: nothing demanded
        if norm(r) != want:
            return f'answer differs from the answer of a fresh server to the same request ({VALIDS[int(elem.split("/")[1])][0]}): ' + repr(r[:30]) + ' … ' + repr(r[-60:])
        return None
    return None

def fresh_answers(Server, base, alloc=None):
    """what a server without a history answers to every request of VALIDS (asked twice, on two connections; a request whose two
    answers differ is left out of the comparison)"""
    out = {}
    with Server(base, threads=2, alloc=alloc, capture_stdout=False) as srv:
        for i, (name, raw) in enumerate(VALIDS):
            try:
                a = srv.request(raw, timeout=10)
                b = srv.request(raw, timeout=10, half_close=False)
            except OSError:
                continue
            if a and norm(a) == norm(b): out[i] = norm(a)
    return out

def prlimit_wrap(limit):
    exe = shutil.which('prlimit')
    return [exe, f'--nofile={limit}:{limit}'] if exe else None

# ------------------------------------------------------------------------------------------------ pool part
def pool_shapes(rng, tier):
    """(n, kinds, perturb, label) for the real ThreadPool; 'b' always in groups of n (the barrier of the harness has n parties)"""
    out = []
    def hist(length, pp, alphabet='ie'):
        return ''.join('p' if rng.below(10) < pp else rng.choice(alphabet) for _ in range(length))
    ns = [1, 2, 3, 8] if tier == 'quick' else [1, 2, 3, 4, 5, 6, 7, 8]
    # the empty history, the wait first, nothing but waits
    for n in ns[:3]:
        out.append((n, 'b' * n, False, 'empty history'))
        out.append((n, 'www' + 'b' * n, True, 'empty history'))
    # many panics on ONE worker: N=1, and N>1 with the other workers blocked on the barrier meanwhile
    for count in ([300] if tier == 'quick' else [255, 256, 257, 300, 399]):
        out.append((1, 'p' * count + 'w' + 'b', False, 'hundreds of panics on one worker'))
        n = rng.choice([2, 3, 4])
        out.append((n, 'b' * (n - 1) + 'p' * count + 'b' + 'w' + 'b' * n, rng.chance(1, 2), 'hundreds of panics on one worker'))
    reps = 1 if tier == 'quick' else 12
    for _ in range(reps):
        for n in ns:
            # the history goes through one worker while the others are blocked; then everybody is released and probed
            h = hist(rng.range(1, 30), rng.choice([2, 5, 10]), 'iel' if rng.chance(1, 3) else 'ie')
            out.append((n, 'b' * (n - 1) + h + 'b' + 'w' + 'b' * n, rng.chance(1, 2), 'history through one worker'))
            # strictly sequential: the pool is idle before every job
            h = hist(rng.range(1, 25), rng.choice([3, 8, 10]))
            out.append((n, 'w'.join(h) + 'w' + 'b' * n, rng.chance(1, 2), 'sequential history (wait after every job)'))
            # probes inside the history: capacity is asked for repeatedly
            parts = [hist(rng.range(0, 3 * n), rng.choice([3, 8, 10])) for _ in range(rng.range(2, 4))]
            out.append((n, ('b' * n).join(parts) + rng.choice(['', 'w']) + 'b' * n, rng.chance(1, 2), 'probes inside the history'))
            # long jobs between the panics, waits at random places: panics while other workers are busy / while jobs are queued
            h = hist(rng.range(n + 1, 40), rng.choice([2, 5, 8]), 'iell')
            h = ''.join(c + ('w' if rng.chance(1, 6) else '') for c in h)
            out.append((n, h + rng.choice(['', 'w']) + 'b' * n, rng.chance(1, 2), 'long jobs and waits inside the history'))
            # panics of one payload kind only (the harness derives the payload from the task number mod 6)
            k = rng.below(6)
            length = rng.range(2 * n, 6 * n + 12)
            h = ''.join('p' if t % 6 == k else rng.choice('ie') for t in range(length))
            out.append((n, h + 'w' + 'b' * n, False, f'one panic payload kind only ({k})'))
    for n in ([16] if tier == 'quick' else [12, 16, 32]):
        out.append((n, 'p' * (2 * n + 1) + 'b' * n, True, 'large pool'))
        out.append((n, 'b' * (n - 1) + hist(20, 8) + 'b' + 'w' + 'b' * n, False, 'large pool'))
    # second pass: the WHOLE pool idle for 300 ms (`z`) after panics and before the probe - a worker that gives up waiting, an idle
    # reaper, a supervisor that replaces crashed workers after a while and miscounts show in what comes next
    zs = [(2, 'pp' + 'wz' + 'p' + 'w' + 'bb'), (3, 'bb' + 'ppp' + 'b' + 'wz' + 'bbb')] if tier == 'quick' else \
         [(n, pre + 'wz' + mid + 'w' + 'b' * n) for n in (1, 2, 3, 4, 8) for pre in ('p' * n, 'b' * (n - 1) + 'p' * (2 * n) + 'b', 'p' * (3 * n) + 'i') for mid in ('', 'p', 'p' * n + 'wz')]
    for n, kinds in zs: out.append((n, kinds, False, 'pool idle for a while after panics'))
    return out

# ================================================================================================ second audit pass
# Features a maintainer of a static web server may add on the path of this property, and the RELATION of inputs each of them needs
# (audit/C06/AUDIT2.md).  New elements of a history:
#
#     zoo/<i>/<end>         a valid request that carries a header (or a spelling of the request line) the server ignores so far:
#                           Accept-Encoding, conditionals, Range pairs, Connection, Upgrade, TE, Transfer-Encoding with a complete chunked
#                           body, Content-Encoding, Content-MD5, Forwarded / X-Forwarded-*, Prefer, Max-Forwards, Cookie, Authorization,
#                           Host spellings, Origin, client hints, q-values ... in legal, odd and broken values; files with sidecars next
#                           to them (.gz valid / empty / a directory / garbage, .br dangling link).  Answer = what a fresh server answers
#     cold/<i>/<vp|pv>      file c<i>.txt is asked for the FIRST time on this server by a variant (HEAD, Range, query, 1.0, conditional,
#                           Accept-Encoding, other method, other spelling of the path) and then plainly (vp), or the other way round (pv):
#                           the plain answer is 200 + the file, the variant's answer is that of a fresh server asked the variant first
#     rewrite/<j>/<how>     GET r<j>.txt, the file gets other content (other length; in place or by rename), GET: the new content
#     create/<j>            GET n<j>.txt (absent), the file is created, GET: 200 + content; removed, GET: not 200
#     keepalive/<req>/<after>   a valid request with `Connection: keep-alive` (1.1, 1.0, with Keep-Alive parameters, with Upgrade), the
#                           answer is read by its Content-Length (not to end of stream) and THEN the client closes / resets / stays idle /
#                           sends a second request / half a second request / garbage / half-closes.  First answer: 200 + file; a second
#                           answer, if the server gives one: 200 + file
#     talk/<name>           a scripted conversation (nothing demanded of it): Expect: 100-continue with the body after the interim answer
#                           (whole, half, none, too much, without length, huge), chunked bodies in segments (cut in the size line, in the
#                           data, before the last chunk, before the end of the trailer; sizes that overflow), Upgrade to websocket / h2c
#                           followed by frames, an HTTP/2 preface, a TLS ClientHello, PROXY protocol v1 / v2 lines before the request, a second
#                           request after the answer, a head sent one line at a time
#     slow-read/<pace>      GET of a 1 MiB file by a client with a small receive buffer that reads slowly but steadily: complete and right
#     together/<what>/<seed>    as many valid requests AT THE SAME MOMENT as workers are free (same large file / same small file / a mix of the
#                           table): every one answered as a fresh server answers it
#     storm/<kind>/<count>  the same simple connection <count> times (130 / 260 / 1030: thresholds 64, 100, 128, 255, 256, 1000, 1024), every
#                           exit of Server::process: answered, 404, parse error, not origin form, empty read, reset, write error, cut body
# and connections IN THE BACKGROUND of a whole history (key `bg` of a history): idle, half a head, a reader that asked for 8 MiB and does
# not read (its worker sits in write), an upload waiting for `100 Continue`, a kept-alive connection - while they are open the other
# workers must serve everything (a lock held across a blocking read or write, a per-file lock, a batch taken by the blocked worker show here);
# at the end they close / reset / finish / stay open during the probe (which then holds N-1-k further idle connections).
import gzip, threading

MID_NAME = 'mid.bin'
MID_SIZE = 1 << 20
DOC = {}                     # name -> content of the files the second pass judges by content

def mid_content():
    return random.Random(0xC06 + 1).randbytes(MID_SIZE)

def cold_content(i):
    return (b'cold file %02d abcdefghijklmnopqrstuvwxyz\n' % i) * (10 + i)

_write_docroot_1 = write_docroot
def write_docroot(base):
    sha = _write_docroot_1(base)
    def put(name, content):
        with open(os.path.join(base, name), 'wb') as fh: fh.write(content)
        DOC[name] = content
    put(MID_NAME, mid_content())
    for i in range(len(COLD)): put('c%d.txt' % i, cold_content(i))
    text = b''.join(b'line %04d of a file that compresses well\n' % k for k in range(75))
    for name in 'stuvw': put(name + '.txt', name.encode() + b' ' + text)
    # sidecars: a valid one, an empty one, a DIRECTORY, a dangling link, garbage
    with open(os.path.join(base, 's.txt.gz'), 'wb') as fh: fh.write(gzip.compress(DOC['s.txt'], mtime=0))
    open(os.path.join(base, 't.txt.gz'), 'wb').close()
    os.makedirs(os.path.join(base, 'u.txt.gz'), exist_ok=True)
    try: os.symlink('nowhere.br', os.path.join(base, 'v.txt.br'))
    except OSError: pass
    with open(os.path.join(base, 'w.txt.gz'), 'wb') as fh: fh.write(b'\x1f\x8b\x08 this is not a gzip stream')
    return sha

# ------------------------------------------------------------------------------------------------ reading ONE answer
def read_answer(s, timeout=10, method=b'GET'):
    """one complete answer from the socket: interim 1xx answers are skipped; complete = head + Content-Length bytes (no body after HEAD,
    204, 304, 101), without a length: to end of stream.  None: nothing came (time-out / reset before any byte); b'': closed unanswered"""
    s.settimeout(timeout)
    buf = b''
    try:
        while True:
            while b'\r\n\r\n' not in buf:
                b = s.recv(1 << 16)
                if not b: return buf
                buf += b
            head, _, rest = buf.partition(b'\r\n\r\n')
            first = head.split(b'\r\n')[0].split(b' ')
            code = first[1] if len(first) > 1 else b''
            if code[:1] == b'1' and code != b'101' and first[0].startswith(b'HTTP/'):
                buf = rest; continue                                # an interim answer: the real one follows
            length = None
            for l in head.split(b'\r\n')[1:]:
                k, _, v = l.partition(b':')
                if k.strip().lower() == b'content-length':
                    try: length = int(v.strip())
                    except ValueError: pass
            if method == b'HEAD' or code in (b'204', b'304', b'101'): length = 0
            if length is None:
                while True:
                    b = s.recv(1 << 16)
                    if not b: return buf
                    buf += b
            want = len(head) + 4 + length
            while len(buf) < want:
                b = s.recv(1 << 16)
                if not b: break
                buf += b
            return buf
    except OSError:
        return buf if buf else None

def ask(server, raw, half_close=True, timeout=10):
    """one connection, one request in one piece, ONE answer (read by its length: a server that keeps the connection open has answered)"""
    s = _conn(server.port, timeout=timeout)
    try:
        s.setsockopt(socket.IPPROTO_TCP, socket.TCP_NODELAY, 1)
        s.sendall(raw)
        if half_close:
            try: s.shutdown(socket.SHUT_WR)
            except OSError: pass
        return read_answer(s, timeout, raw.split(b' ', 1)[0])
    finally:
        try: s.close()
        except OSError: pass

def is_file_answer(r, content):
    return bool(r) and r.startswith(b'HTTP/1.1 200') and split_response(r)[1] == content

# ------------------------------------------------------------------------------------------------ the tables
def _req(method=b'GET', target=b'/f.txt', headers=(), body=b'', version=b'HTTP/1.1', host=True):
    lines = [method + b' ' + target + (b' ' + version if version else b'')]
    if host: lines.append(b'Host: x')
    lines += list(headers)
    return b'\r\n'.join(lines) + b'\r\n\r\n' + body

FORM_PATH = b'/form-url-encoded-enctype-post-method'
def _form(headers=(), body=b'a=1&b=2', length=True, ctype=b'application/x-www-form-urlencoded'):
    hs = [b'Content-Type: ' + ctype] + list(headers)
    if length: hs.append(b'Content-Length: %d' % len(body))
    return _req(b'POST', FORM_PATH, hs, body)

def _zoo():
    z = []
    def add(name, raw): z.append((name, raw))
    def hdr(name, lines, **kw): add(name, _req(headers=[l if isinstance(l, bytes) else l.encode() for l in lines], **kw))
    # --- Accept-Encoding (compression, precompressed sidecars)
    AE = ['gzip', 'gzip, deflate, br', 'gzip;q=0', 'gzip;q=1.0, identity;q=0.5', '*', '*;q=0', 'identity;q=0, *;q=0', '', 'GZIP', 'gzip;q=',
          'gzip;q=abc', 'gzip ; q = 0.5', 'x-gzip', 'br;q=1.000', 'gzip;q=1.0000', ',,gzip,,', 'deflate', 'zstd, br;q=0.9, gzip;q=0.8', 'gzip;q=2',
          'gzip;q=-1', 'gzip;q=1e3', 'gzip;q=0.0001', 'gzip;level=9']
    for i, v in enumerate(AE): hdr(f'accept-encoding/{i}', ['Accept-Encoding: ' + v], target=b'/s.txt')
    for t in (b'/s.txt', b'/t.txt', b'/u.txt', b'/v.txt', b'/w.txt', b'/f.txt', b'/sub/g.html', b'/', b'/no-such-file.txt', b'/script.js'):
        hdr('sidecar' + t.decode(), ['Accept-Encoding: gzip, br'], target=t)
    hdr('sidecar-head', ['Accept-Encoding: gzip'], target=b'/s.txt', method=b'HEAD')
    hdr('sidecar-range', ['Accept-Encoding: gzip', 'Range: bytes=10-99'], target=b'/s.txt')
    hdr('sidecar-direct', [], target=b'/s.txt.gz')
    hdr('sidecar-dir', [], target=b'/u.txt.gz')
    # --- conditionals
    DATES = ['Sat, 29 Oct 1994 19:43:31 GMT', 'Fri, 01 Jan 2100 00:00:00 GMT', 'Sunday, 06-Nov-94 08:49:37 GMT', 'Sun Nov  6 08:49:37 1994', 'yesterday', '', '0', '-1',
             'Sat, 99 Oct 1994 99:99:99 GMT', 'Sat, 29 Oct 1994 19:43:31 +0200', 'Fri, 31 Dec 9999 23:59:59 GMT', 'Sat, 01 Jan 0000 00:00:00 GMT',
             'Thu, 01 Jan 1970 00:00:00 GMT', 'Wed, 31 Dec 1969 23:59:59 GMT', 'Tue, 19 Jan 2038 03:14:08 GMT', 'Mon, 29 Feb 2023 00:00:00 GMT', '1790570260686303596',
             '18446744073709551616', 'Sat, 29 Oct 1994 19:43:31 GMT' * 40, 'Sat, 29 Oct 1994', 'Sat, 29 Oct 1994 24:00:60 GMT', 'sat, 29 oct 1994 19:43:31 gmt']
    for i, v in enumerate(DATES): hdr(f'if-modified-since/{i}', ['If-Modified-Since: ' + v])
    for i, v in enumerate(DATES[:4] + DATES[12:14]): hdr(f'if-unmodified-since/{i}', ['If-Unmodified-Since: ' + v])
    TAGS = ['*', '"abc"', 'W/"abc"', '"a", "b"', 'abc', '', '"', 'W/', '"unterminated', '"' + 'e' * 900 + '"', '"a",', ', ,', '"\u00e9t\u00e9"', 'w/"abc"', '**']
    for i, v in enumerate(TAGS): hdr(f'if-none-match/{i}', ['If-None-Match: ' + v])
    for i, v in enumerate(TAGS[:3]): hdr(f'if-match/{i}', ['If-Match: ' + v])
    hdr('if-none-match+since', ['If-None-Match: "abc"', 'If-Modified-Since: ' + DATES[1]])
    hdr('if-none-match-head', ['If-None-Match: *'], method=b'HEAD')
    hdr('if-none-match-post', ['If-None-Match: *'], method=b'PUT')
    for i, v in enumerate(['"abc"', DATES[0], DATES[1], 'W/"abc"', '', 'abc']): hdr(f'if-range/{i}', ['Range: bytes=1-3', 'If-Range: ' + v])
    hdr('if-range-alone', ['If-Range: "abc"'])
    for i, v in enumerate(['bytes=0-0', 'bytes=4-4', 'bytes=5-', 'bytes=0-4', 'bytes=-1', 'bytes=-5', 'bytes=-6', 'bytes=0-,0-', 'bytes=' + ','.join('%d-%d' % (k % 5, k % 5) for k in range(60)),
                           'bytes=0-0', 'BYTES=0-1', 'bytes = 0 - 1', 'items=0-1', 'bytes=1-0', 'bytes=0-18446744073709551615', 'bytes=4294967296-']):
        hdr(f'range/{i}', ['Range: ' + v], method=(b'HEAD' if i == 9 else b'GET'))
    # --- connection management
    for i, v in enumerate(['close', 'keep-alive', 'Keep-Alive', 'keep-alive, Upgrade', 'TE', 'upgrade', 'foo', '', 'close, keep-alive', 'keep-alive, close', 'KEEP-ALIVE', 'keep-alive,']):
        hdr(f'connection/{i}', ['Connection: ' + v])
    for i, v in enumerate(['timeout=0', 'timeout=5, max=0', 'timeout=abc', 'max=-1', 'timeout=99999999999999999999', 'timeout=5, max=100', '', 'max=1']):
        hdr(f'keep-alive-params/{i}', ['Connection: keep-alive', 'Keep-Alive: ' + v])
    hdr('keep-alive-1.0', ['Connection: keep-alive'], version=b'HTTP/1.0')
    hdr('proxy-connection', ['Proxy-Connection: keep-alive'])
    for i, v in enumerate(['websocket', 'h2c', 'TLS/1.0', 'foo/1', '', 'websocket, h2c', 'WebSocket']):
        hdr(f'upgrade/{i}', ['Connection: Upgrade', 'Upgrade: ' + v, 'Sec-WebSocket-Key: dGhlIHNhbXBsZSBub25jZQ==', 'Sec-WebSocket-Version: 13', 'HTTP2-Settings: AAMAAABkAAQAAP__'])
    hdr('upgrade-no-connection', ['Upgrade: websocket'])
    hdr('upgrade-no-key', ['Connection: Upgrade', 'Upgrade: websocket'])
    hdr('upgrade-bad-key', ['Connection: Upgrade', 'Upgrade: websocket', 'Sec-WebSocket-Key: !!!', 'Sec-WebSocket-Version: 99'])
    for i, v in enumerate(['trailers', 'chunked', 'gzip;q=0.5', '', 'trailers, deflate;q=0.5']): hdr(f'te/{i}', ['TE: ' + v, 'Connection: TE'])
    for i, v in enumerate(['100-continue', '100-Continue', 'foo', '', '100-continue, foo']): hdr(f'expect-get/{i}', ['Expect: ' + v])
    # --- bodies: Expect with the body in the same segment, complete chunked bodies, encodings, digests
    for i, v in enumerate(['100-continue', '100-CONTINUE', 'bar']): add(f'expect-post/{i}', _form([b'Expect: ' + v.encode()]))
    add('expect-post-empty', _form([b'Expect: 100-continue'], body=b''))
    CH = [b'7\r\na=1&b=2\r\n0\r\n\r\n', b'3\r\na=1\r\n4\r\n&b=2\r\n0\r\n\r\n', b'7;x=y\r\na=1&b=2\r\n0\r\n\r\n', b'7\r\na=1&b=2\r\n0\r\nX-Trailer: t\r\n\r\n', b'0\r\n\r\n',
          b'A\r\na=1&b=2345\r\n0\r\n\r\n', b'a\r\na=1&b=2345\r\n0\r\n\r\n', b'007\r\na=1&b=2\r\n000\r\n\r\n', b'ffffffffffffffff\r\na=1', b'7fffffffffffffff\r\na=1', b'100000000\r\na=1',
          b'-1\r\na=1\r\n0\r\n\r\n', b'zz\r\na=1\r\n0\r\n\r\n', b'7\na=1&b=2\n0\n\n', b'7\r\na=1&b=2XX0\r\n\r\n', b'\r\n', b'', b'8\r\na=1&b=2\r\n0\r\n\r\n', b'1\r\na\r\n' * 200 + b'0\r\n\r\n']
    for i, body in enumerate(CH): add(f'chunked/{i}', _form([b'Transfer-Encoding: chunked'], body, length=False))
    for i, v in enumerate(['Chunked', 'gzip, chunked', 'identity', 'chunked, chunked', '', 'chunked;q=1']): add(f'transfer-encoding/{i}', _form([b'Transfer-Encoding: ' + v.encode()], CH[0], length=False))
    add('chunked+length', _form([b'Transfer-Encoding: chunked'], CH[0]))
    add('chunked-get', _req(headers=[b'Transfer-Encoding: chunked'], body=b'0\r\n\r\n'))
    gz = gzip.compress(b'a=1&b=2', mtime=0)
    for i, (v, body) in enumerate([('gzip', gz), ('gzip', b'a=1&b=2'), ('identity', b'a=1&b=2'), ('deflate', gz), ('br', b'\x0b\x03\x80a=1&b=2\x03'), ('gzip, gzip', gz), ('', b'a=1'), ('GZIP', gz[:10]), ('x-gzip', gz[:-4])]):
        add(f'content-encoding/{i}', _form([b'Content-Encoding: ' + v.encode()], body))
    import base64
    md5 = base64.b64encode(hashlib.md5(b'a=1&b=2').digest())
    for i, v in enumerate([md5, base64.b64encode(hashlib.md5(b'other').digest()), b'!!!not base64!!!', b'AAAA', b'', md5 + md5, md5.lower()]): add(f'content-md5/{i}', _form([b'Content-MD5: ' + v]))
    add('digest', _form([b'Digest: sha-256=' + base64.b64encode(hashlib.sha256(b'a=1&b=2').digest()), b'Want-Digest: sha-256']))
    add('digest-bad', _form([b'Digest: sha-256=AAAA, md5=', b'Repr-Digest: sha-256=:AAAA:']))
    for i, v in enumerate(['application/x-www-form-urlencoded; charset=UTF-8', 'application/x-www-form-urlencoded; charset=latin1', 'application/x-www-form-urlencoded;charset="utf-8"',
                           'application/x-www-form-urlencoded; charset=', 'application/x-www-form-urlencoded; charset=klingon', 'APPLICATION/X-WWW-FORM-URLENCODED', 'application/x-www-form-urlencoded;;', '', 'text/plain',
                           'application/json', 'multipart/form-data', 'multipart/form-data; boundary=', 'multipart/form-data; boundary="B"', 'multipart/form-data; boundary=' + 'B' * 80]):
        add(f'content-type/{i}', _form(body=b'a=1&b=2', ctype=v.encode()))
    for i, v in enumerate(['0', '7', '+7', '07', '7, 7', '0x7', ' 7 ', '7.0', '']): add(f'content-length/{i}', _req(b'POST', FORM_PATH, [b'Content-Type: application/x-www-form-urlencoded', b'Content-Length: ' + v.encode()], b'a=1&b=2'))
    add('content-length-get-0', _req(headers=[b'Content-Length: 0']))
    # --- who is the client: proxies, credentials, cookies
    ADDR = ['203.0.113.7', '203.0.113.7, 198.51.100.2', '203.0.113.7,198.51.100.2, 10.0.0.1', 'unknown', '', '::1', '[2001:db8::1]', '[2001:db8::1]:8080', '203.0.113.7:8080', 'client.example', '999.999.999.999',
            '1.2.3', '203.0.113.7, ', ', 203.0.113.7', '\u76ee\u6a19', '1' * 300, '203.0.113.7 ' * 60, '-', '0', '0.0.0.0', '255.255.255.255', '127.0.0.1', 'fe80::1%eth0', '"203.0.113.7"', '2001:db8::1']
    for i, v in enumerate(ADDR): hdr(f'x-forwarded-for/{i}', ['X-Forwarded-For: ' + v])
    for i, v in enumerate(ADDR[:12]): hdr(f'x-real-ip/{i}', ['X-Real-IP: ' + v])
    for i, v in enumerate(['for=203.0.113.7', 'for="[2001:db8::1]:8080"', 'for=unknown', 'for=_hidden', 'for=203.0.113.7;proto=https;by=10.0.0.1;host=h', 'for=1.2.3.4, for=5.6.7.8', 'For="_gazonk"', 'for=', '', ';;;',
                           'for="unterminated', 'proto=https', 'for=203.0.113.7:abc', 'for="[::1"', 'for=a;for=b']):
        hdr(f'forwarded/{i}', ['Forwarded: ' + v])
    hdr('x-forwarded-all', ['X-Forwarded-For: 203.0.113.7', 'X-Forwarded-Proto: https', 'X-Forwarded-Host: other.example:8443', 'X-Forwarded-Port: 8443', 'Forwarded: for=198.51.100.2', 'Via: 1.1 proxy'])
    for i, v in enumerate(['https', 'HTTPS', 'ftp', '', 'https, http']): hdr(f'x-forwarded-proto/{i}', ['X-Forwarded-Proto: ' + v])
    for i, v in enumerate(['8443', '0', '-1', '65536', 'abc', '']): hdr(f'x-forwarded-port/{i}', ['X-Forwarded-Port: ' + v])
    AUTH = ['Basic dXNlcjpwYXNz', 'Basic dXNlcg==', 'Basic !!!', 'Basic', 'Basic ', 'basic dXNlcjpwYXNz', 'Basic /w==', 'Basic Og==', 'Bearer abc.def.ghi', 'Digest username="x", realm="r", nonce="n", uri="/f.txt", response="0"',
            'Negotiate', '', 'Basic dXNlcjpwYXNz dXNlcjpwYXNz', 'Basic ' + 'QUFB' * 1200, 'Basic dXNlcjpwYXNz\t', 'Basic  dXNlcjpwYXNz', 'Basic dXNlcjpwYXN', 'Basic 8J+YgDrwn5iA', 'Bearer', 'Unknown x']
    for i, v in enumerate(AUTH): hdr(f'authorization/{i}', ['Authorization: ' + v])
    hdr('authorization-twice', ['Authorization: Basic dXNlcjpwYXNz', 'Authorization: Bearer x'])
    for i, v in enumerate(AUTH[:4]): hdr(f'proxy-authorization/{i}', ['Proxy-Authorization: ' + v])
    COOKIE = ['a=b', 'a=b; c=d', 'a', '=b', 'a=', ';', '; ; a=b', 'a="quoted"', 'sessionid=' + 'k' * 4000, '; '.join('c%d=%d' % (k, k) for k in range(300)), 'a=b; a=c', 'a=\u76ee\u6a19', 'a=%zz', 'a=%', 'a=b;c=d',
              'a=b;  c=d', 'a==b', '', 'a=b; $Version=1', 'a=b,c=d', ' a = b ']
    for i, v in enumerate(COOKIE): hdr(f'cookie/{i}', ['Cookie: ' + v])
    hdr('cookie-twice', ['Cookie: a=b', 'Cookie: c=d'])
    HOSTS = ['x:80', 'x:', 'x:abc', 'x:99999', '[::1]', '[::1]:80', '[::1', '', ' x ', 'X', 'x.', 'h' * 255, 'xn--bcher-kva.example', 'b\u00fccher.example', 'a b', 'x, y', '127.0.0.1:0', 'x:-1', 'http://x', 'x/']
    for i, v in enumerate(HOSTS): add(f'host/{i}', _req(headers=[('Host: ' + v).encode()], host=False))
    add('host-twice', _req(headers=[b'Host: x', b'Host: y'], host=False))
    add('host-missing-1.1', _req(host=False))
    # --- negotiation, hints, preferences
    for i, v in enumerate(['http://a', 'null', '', 'http://a http://b', 'http://\u76ee\u6a19', 'https://a:8443', 'a', 'http://' + 'a' * 2000]): hdr(f'origin/{i}', ['Origin: ' + v])
    for i, (m, hs) in enumerate([('PUT', 'x-a, x-b'), ('GET', ''), ('FOO', 'x-a'), ('', ''), ('put', ', '.join('x-h%d' % k for k in range(100))), ('DELETE', '*')]):
        hdr(f'preflight/{i}', ['Origin: http://a', 'Access-Control-Request-Method: ' + m, 'Access-Control-Request-Headers: ' + hs], method=b'OPTIONS')
    HINTS = [('Sec-CH-UA-Arch', '"x86"'), ('Sec-CH-UA-Arch', 'x86'), ('Downlink', '1.5'), ('Downlink', 'abc'), ('Downlink', '-1'), ('ECT', '4g'), ('ECT', '6g'), ('RTT', '100'), ('RTT', '-1'), ('RTT', '99999999999999999999'),
             ('Save-Data', 'on'), ('Save-Data', 'maybe'), ('Device-Memory', '8'), ('Device-Memory', '1e309'), ('Device-Memory', '0'), ('Sec-CH-Prefers-Color-Scheme', 'dark'), ('Sec-CH-Prefers-Reduced-Motion', 'reduce'),
             ('Sec-CH-UA-Bitness', '"64"'), ('Sec-CH-UA-Full-Version-List', '"A";v="1.0", "B";v="2"'), ('Sec-CH-UA-Full-Version-List', '"A";v='), ('Sec-CH-UA-Platform-Version', '"\u76ee"'), ('Sec-CH-UA-Model', '""'),
             ('Upgrade-Insecure-Requests', '1'), ('Upgrade-Insecure-Requests', 'abc'), ('DNT', '1'), ('Sec-GPC', '1'), ('Sec-Fetch-Mode', 'navigate')]
    for i, (k, v) in enumerate(HINTS): hdr(f'hint/{i}', [f'{k}: {v}'])
    hdr('hints-all', [f'{k}: {v}' for k, v in HINTS[::2]], target=b'/')
    Q = ['text/html;q=0.8, */*;q=0.1', '*/*', '', 'text/html;q=1.5', 'text/html;q=-1', 'text/html;q=NaN', 'text/html;q=1e3', 'text/html;q=', 'text/html;level=1;q=0.5', 'text', '/', 'text/', ', '.join('a/b%d;q=0.%d' % (k, k % 10) for k in range(200))]
    for i, v in enumerate(Q): hdr(f'accept/{i}', ['Accept: ' + v])
    for i, v in enumerate(['en-US,en;q=0.9', '*', '', 'de;q=abc', 'x' * 3000, 'en-US-x-twain-u-co-phonebk', 'uk-UA;q=1, en;q=0']): hdr(f'accept-language/{i}', ['Accept-Language: ' + v], target=b'/')
    for i, v in enumerate(['utf-8', 'iso-8859-1;q=0.5, *;q=0', '', 'klingon']): hdr(f'accept-charset/{i}', ['Accept-Charset: ' + v])
    for i, v in enumerate(['return=minimal', 'respond-async, wait=10', 'wait=abc', 'return=representation; foo="bar"', '', 'wait=-1', 'handling=strict']): hdr(f'prefer/{i}', ['Prefer: ' + v])
    for i, v in enumerate(['0', '1', '-1', 'abc', '99999999999999999999', '', '1, 2']):
        hdr(f'max-forwards/{i}', ['Max-Forwards: ' + v], method=(b'OPTIONS', b'TRACE', b'GET')[i % 3])
    for i, v in enumerate(['no-cache', 'max-age=0', 'only-if-cached', 'max-stale=abc', 'no-store, no-transform', 'max-age=-1', 'max-age=99999999999999999999', '', 'min-fresh=1, stale-if-error=9']): hdr(f'cache-control/{i}', ['Cache-Control: ' + v, 'Pragma: no-cache'])
    for i, v in enumerate(['%s%n%x%d', '{}{0}{{}}{:?}', '\\', '"quoted" \'single\'', 'a\tb', '${jndi:ldap://x/a}', "';--", '<script>', 'Mozilla/5.0 (X11; Linux x86_64) ' * 30, '\u76ee' * 90, '', ' ', '%', '%25%00', '\x7f']):
        hdr(f'user-agent/{i}', ['User-Agent: ' + v, 'Referer: http://x/?' + v, 'From: a@b'])
    hdr('latin1-value', [b'X-Latin1: caf\xe9'])
    hdr('date', ['Date: Sat, 29 Oct 1994 19:43:31 GMT', 'Date: nonsense'])
    # --- shape of the head
    hdr('empty-value', ['X-E:'])
    hdr('no-space', ['X-N:v'])
    hdr('many-spaces', ['X-S:      v      '])
    hdr('tab', ['X-T:\tv\t'])
    hdr('folded', ['X-F: a', ' folded', '\tagain'])
    hdr('same-thrice', ['X-D: 1', 'X-D: 2', 'x-d: 3'])
    hdr('token-chars', ["!#$%&'*+-.^_`|~: v"])
    hdr('one-char-name', ['a: b'])
    hdr('long-name', ['X-' + 'n' * 300 + ': v'])
    hdr('space-before-colon', ['X-B : v'])
    hdr('no-colon', ['X-NoColon'])
    hdr('colon-only', [':'])
    hdr('colons', ['X-C: a:b::c:'])
    for k in (64, 65, 100, 128, 129, 256, 800): hdr(f'headers-{k}', ['h%d: %d' % (j, j) for j in range(k)])
    hdr('header-8k', ['X-Big: ' + 'v' * 8000])
    # --- shape of the request line
    for i, (m, t, v) in enumerate([(b'GET', b'/f.txt', b'http/1.1'), (b'GET', b'/f.txt', b'HTTP/2.0'), (b'GET', b'/f.txt', b'HTTP/1.2'), (b'GET', b'/f.txt', b''), (b'GET', b'/f.txt', b'HTTP/1.1 '), (b'GET ', b'/f.txt', b'HTTP/1.1'),
                                   (b'GET\t', b'/f.txt', b'HTTP/1.1'), (b'get', b'/f.txt', b'HTTP/1.1'), (b'HEAD', b'/f.txt', b'HTTP/1.1'), (b'OPTIONS', b'/f.txt', b'HTTP/1.1'), (b'OPTIONS', b'/', b'HTTP/1.1'), (b'TRACE', b'/f.txt', b'HTTP/1.1'),
                                   (b'CONNECT', b'/f.txt', b'HTTP/1.1'), (b'PATCH', b'/f.txt', b'HTTP/1.1'), (b'DELETE', b'/f.txt', b'HTTP/1.1'), (b'PUT', b'/f.txt', b'HTTP/1.1'), (b'PROPFIND', b'/', b'HTTP/1.1'), (b'M' * 300, b'/f.txt', b'HTTP/1.1'),
                                   (b'POST', b'/f.txt', b'HTTP/1.1'), (b'HEAD', b'/', b'HTTP/1.1'), (b'HEAD', b'/no-such-file.txt', b'HTTP/1.1'), (b'HEAD', FORM_PATH, b'HTTP/1.1'), (b'GET', FORM_PATH, b'HTTP/1.1'), (b'POST', b'/form-get-method?k=v', b'HTTP/1.1')]):
        add(f'request-line/{i}', _req(m, t, version=v))
    for i, t in enumerate([b'/f.txt?', b'/f.txt??', b'/f.txt?a=%', b'/f.txt?a=%zz', b'/f.txt?&&=', b'/f.txt?' + b'&'.join(b'p%d=%d' % (k, k) for k in range(800)), b'/f.txt#frag', b'/f.txt;v=1', b'/f%2etxt', b'/%66.txt', b'/f.txt%00', b'/f.txt%20',
                           b'/./f.txt', b'/sub/../f.txt', b'//f.txt', b'/f.txt/', b'/sub', b'/sub/', b'/sub//g.html', b'/%2e%2e/f.txt', b'/%c0%ae%c0%ae/f.txt', b'/sub/%2e%2e/f.txt', b'/F.TXT', b'/f.txt.', b'/f.txt\\', b'/sub\\g.html', b'/+',
                           b'/form-get-method', b'/form-get-method?', b'/form-get-method?=', b'/form-get-method?k', b'/form-get-method?k=v&k=w', b'/form-get-method?k=%e7%9b%ae', b'/form-get-method?k=%ff', b'/favicon.ico', b'/style.css', b'/script.js?x',
                           b'/' + 'dir/'.encode() * 400, b'/' + '\u76ee'.encode() * 85 + b'.txt', b'/index.html', b'/.', b'/..', b'/...', b'/~', b'/*']):
        add(f'target/{i}', _req(target=t))
    return z

def _cold():
    def v(i, method=b'GET', headers=(), target=None, version=b'HTTP/1.1'):
        return _req(method, target or (b'/c%d.txt' % i), [h.encode() for h in headers], version=version)
    spec = [
        ('head',            lambda i: v(i, b'HEAD')),
        ('range',           lambda i: v(i, headers=['Range: bytes=2-9'])),
        ('multi-range',     lambda i: v(i, headers=['Range: bytes=0-1, 5-9'])),
        ('query',           lambda i: v(i, target=b'/c%d.txt?v=2' % i)),
        ('http-1.0',        lambda i: v(i, version=b'HTTP/1.0')),
        ('if-modified',     lambda i: v(i, headers=['If-Modified-Since: Fri, 01 Jan 2100 00:00:00 GMT'])),
        ('if-none-match',   lambda i: v(i, headers=['If-None-Match: *'])),
        ('accept-encoding', lambda i: v(i, headers=['Accept-Encoding: gzip, br'])),
        ('options',         lambda i: v(i, b'OPTIONS', headers=['Origin: http://a'])),
        ('post',            lambda i: v(i, b'POST', headers=['Content-Length: 0'])),
        ('dot-segment',     lambda i: v(i, target=b'/./c%d.txt' % i)),
        ('trailing-slash',  lambda i: v(i, target=b'/c%d.txt/' % i)),
        ('other-case',      lambda i: v(i, target=b'/C%d.TXT' % i)),
        ('double-slash',    lambda i: v(i, target=b'//c%d.txt' % i)),
        ('percent',         lambda i: v(i, target=b'/%%63%d.txt' % i)),
        ('unsatisfiable',   lambda i: v(i, headers=['Range: bytes=99999-'])),
        ('origin',          lambda i: v(i, headers=['Origin: http://other.example'])),
        ('accept-json',     lambda i: v(i, headers=['Accept: application/json'])),
        ('authorization',   lambda i: v(i, headers=['Authorization: Basic dXNlcjpwYXNz'])),
        ('cookie',          lambda i: v(i, headers=['Cookie: session=1'])),
        ('head-range',      lambda i: v(i, b'HEAD', headers=['Range: bytes=0-0'])),
        ('if-range',        lambda i: v(i, headers=['Range: bytes=1-3', 'If-Range: "abc"'])),
        ('suffix-range',    lambda i: v(i, headers=['Range: bytes=-4'])),
        ('no-host',         lambda i: b'GET /c%d.txt HTTP/1.1\r\n\r\n' % i),
        ('lf-only',         lambda i: b'GET /c%d.txt HTTP/1.1\nHost: x\n\n' % i),
        ('fragment',        lambda i: v(i, target=b'/c%d.txt#top' % i)),
    ]
    return [(name, f(i)) for i, (name, f) in enumerate(spec)]

COLD = [None] * 26           # the length is needed by write_docroot before the table is built
ZOO = _zoo()
COLD = _cold()
assert len(COLD) == 26

def plain_cold(i):
    return b'GET /c%d.txt HTTP/1.1\r\nHost: x\r\n\r\n' % i

# ------------------------------------------------------------------------------------------------ conversations
KA_REQS = {
    'ka11':     b'GET /f.txt HTTP/1.1\r\nHost: x\r\nConnection: keep-alive\r\n\r\n',
    'ka10':     b'GET /f.txt HTTP/1.0\r\nConnection: keep-alive\r\n\r\n',
    'kaparams': b'GET /f.txt HTTP/1.1\r\nHost: x\r\nConnection: Keep-Alive\r\nKeep-Alive: timeout=1, max=2\r\n\r\n',
    'kaupgrade': b'GET /f.txt HTTP/1.1\r\nHost: x\r\nConnection: keep-alive, Upgrade\r\nUpgrade: websocket\r\nSec-WebSocket-Key: dGhlIHNhbXBsZSBub25jZQ==\r\nSec-WebSocket-Version: 13\r\n\r\n',
    'kamax0':   b'GET /f.txt HTTP/1.1\r\nHost: x\r\nConnection: keep-alive\r\nKeep-Alive: max=0\r\n\r\n',
}
KA_AFTER = ['close', 'rst', 'idle-close', 'idle-rst', 'second', 'second-open', 'second-half', 'second-half-fin', 'fin-wait', 'garbage', 'many', 'second-close-ka', 'nul', 'crlf']

def _p(*steps): return list(steps)
_EXPECT = lambda extra=b'', n=7: (b'POST ' + FORM_PATH + b' HTTP/1.1\r\nHost: x\r\nContent-Type: application/x-www-form-urlencoded\r\nExpect: 100-continue\r\n' + extra +
                                  (b'Content-Length: %d\r\n' % n if n is not None else b'') + b'\r\n')
_CHUNKED = b'POST ' + FORM_PATH + b' HTTP/1.1\r\nHost: x\r\nContent-Type: application/x-www-form-urlencoded\r\nTransfer-Encoding: chunked\r\n\r\n'
_WS = (b'GET /f.txt HTTP/1.1\r\nHost: x\r\nConnection: Upgrade\r\nUpgrade: websocket\r\nSec-WebSocket-Key: dGhlIHNhbXBsZSBub25jZQ==\r\nSec-WebSocket-Version: 13\r\n\r\n')
_H2PREFACE = b'PRI * HTTP/2.0\r\n\r\nSM\r\n\r\n' + b'\x00\x00\x00\x04\x00\x00\x00\x00\x00'
_TLS = b'\x16\x03\x01\x00\xa5\x01\x00\x00\xa1\x03\x03' + bytes(range(32)) + b'\x00\x00\x02\x13\x01\x01\x00\x00\x76' + b'\x00' * 118
# S = send, R = wait up to <ms> for bytes (returns at once when they come or the server closes), P = pause, then the end
TALKS = {
    'expect-body':       (_p(('S', _EXPECT()), ('R', 40), ('S', b'a=1&b=2'), ('R', 300)), 'close'),
    'expect-half':       (_p(('S', _EXPECT()), ('R', 40), ('S', b'a=1')), 'close'),
    'expect-half-fin':   (_p(('S', _EXPECT()), ('R', 40), ('S', b'a=1')), 'fin'),
    'expect-none-fin':   (_p(('S', _EXPECT()), ('R', 40)), 'fin'),
    'expect-none-close': (_p(('S', _EXPECT()), ('R', 40)), 'close'),
    'expect-rst':        (_p(('S', _EXPECT()), ('R', 40)), 'rst'),
    'expect-over':       (_p(('S', _EXPECT()), ('R', 40), ('S', b'a=1&b=2' + VALID), ('R', 300)), 'close'),
    'expect-nocl':       (_p(('S', _EXPECT(b'Transfer-Encoding: chunked\r\n', None)), ('R', 40), ('S', b'7\r\na=1&b=2\r\n0\r\n\r\n'), ('R', 300)), 'close'),
    'expect-cl0':        (_p(('S', _EXPECT(n=0)), ('R', 100)), 'close'),
    'expect-10M':        (_p(('S', _EXPECT(n=10 ** 7)), ('R', 40), ('S', b'a=1')), 'fin'),
    'expect-huge':       (_p(('S', _EXPECT(n=10 ** 15)), ('R', 40), ('S', b'a=1')), 'fin'),
    'expect-bytewise':   (_p(('S', _EXPECT()), ('R', 40), *[('S', b'a=1&b=2'[k:k + 1]) for k in range(7)], ('R', 300)), 'close'),
    'chunk-seg-size':    (_p(('S', _CHUNKED + b'7'), ('P', 3), ('S', b'\r\na=1&b=2\r\n0\r\n\r\n'), ('R', 300)), 'close'),
    'chunk-seg-data':    (_p(('S', _CHUNKED + b'7\r\na=1'), ('P', 3), ('S', b'&b=2\r\n0\r\n\r\n'), ('R', 300)), 'close'),
    'chunk-seg-last':    (_p(('S', _CHUNKED + b'7\r\na=1&b=2\r\n'), ('P', 3), ('S', b'0\r\n\r\n'), ('R', 300)), 'close'),
    'chunk-no-last':     (_p(('S', _CHUNKED + b'7\r\na=1&b=2\r\n')), 'fin'),
    'chunk-no-end':      (_p(('S', _CHUNKED + b'7\r\na=1&b=2\r\n0\r\n')), 'fin'),
    'chunk-no-data':     (_p(('S', _CHUNKED + b'7\r\n')), 'fin'),
    'chunk-in-size':     (_p(('S', _CHUNKED + b'7')), 'fin'),
    'chunk-short-data':  (_p(('S', _CHUNKED + b'70\r\na=1&b=2')), 'close'),
    'chunk-bad-size':    (_p(('S', _CHUNKED + b'zz\r\na=1\r\n0\r\n\r\n')), 'fin'),
    'chunk-huge-size':   (_p(('S', _CHUNKED + b'ffffffffffffffff\r\na=1')), 'fin'),
    'chunk-huge-size2':  (_p(('S', _CHUNKED + b'fffffffffffffff0\r\na=1')), 'close'),
    'chunk-rst':         (_p(('S', _CHUNKED + b'7\r\na=1')), 'rst'),
    'chunk-trailers':    (_p(('S', _CHUNKED + b'7\r\na=1&b=2\r\n0\r\nX-T: 1\r\n')), 'fin'),
    'ws-frames':         (_p(('S', _WS), ('R', 100), ('S', b'\x81\x82\x01\x02\x03\x04ik'), ('R', 50), ('S', b'\x88\x80\x01\x02\x03\x04')), 'close'),
    'ws-rst':            (_p(('S', _WS), ('R', 100)), 'rst'),
    'ws-idle-fin':       (_p(('S', _WS), ('R', 100), ('P', 3)), 'fin'),
    'ws-huge-frame':     (_p(('S', _WS), ('R', 100), ('S', b'\x82\xff\xff\xff\xff\xff\xff\xff\xff\xff\x01\x02\x03\x04abc')), 'fin'),
    'h2c-upgrade':       (_p(('S', b'GET /f.txt HTTP/1.1\r\nHost: x\r\nConnection: Upgrade, HTTP2-Settings\r\nUpgrade: h2c\r\nHTTP2-Settings: AAMAAABkAAQAAP__\r\n\r\n'), ('R', 100), ('S', _H2PREFACE)), 'close'),
    'h2-prior':          (_p(('S', _H2PREFACE), ('R', 100)), 'close'),
    'h2-prior-fin':      (_p(('S', _H2PREFACE[:24])), 'fin'),
    'tls-hello':         (_p(('S', _TLS), ('R', 100)), 'close'),
    'tls-hello-fin':     (_p(('S', _TLS[:6])), 'fin'),
    'proxy-v1':          (_p(('S', b'PROXY TCP4 203.0.113.7 198.51.100.2 51234 80\r\n' + VALID), ('R', 300)), 'close'),
    'proxy-v1-apart':    (_p(('S', b'PROXY TCP4 203.0.113.7 198.51.100.2 51234 80\r\n'), ('P', 3), ('S', VALID), ('R', 300)), 'close'),
    'proxy-v1-unknown':  (_p(('S', b'PROXY UNKNOWN\r\n' + VALID), ('R', 300)), 'close'),
    'proxy-v1-bad':      (_p(('S', b'PROXY TCP4 999.1.1.1 x 1 2\r\n' + VALID), ('R', 300)), 'close'),
    'proxy-v1-cut':      (_p(('S', b'PROXY TCP6 ::1 ::1 5')), 'fin'),
    'proxy-v2':          (_p(('S', b'\r\n\r\n\x00\r\nQUIT\n\x21\x11\x00\x0c\xcb\x00\x71\x07\xc6\x33\x64\x02\xc8\x22\x00\x50' + VALID), ('R', 300)), 'close'),
    'proxy-v2-long':     (_p(('S', b'\r\n\r\n\x00\r\nQUIT\n\x21\x11\xff\xff\xcb\x00\x71\x07')), 'fin'),
    'smuggle-cl-te':     (_p(('S', b'POST ' + FORM_PATH + b' HTTP/1.1\r\nHost: x\r\nContent-Type: application/x-www-form-urlencoded\r\nContent-Length: 4\r\nTransfer-Encoding: chunked\r\n\r\n0\r\n\r\n' + VALID), ('R', 300)), 'close'),
    'again-after-answer': (_p(('S', VALID), ('R', 300), ('S', VALID), ('R', 100)), 'close'),
    'again-after-answer-rst': (_p(('S', VALID), ('R', 300), ('S', VALID)), 'rst'),
    'line-at-a-time':    (_p(('S', b'GET /f.txt HTTP/1.1\r\n'), *[x for k in range(8) for x in (('P', 2), ('S', b'X-L%d: %d\r\n' % (k, k)))], ('P', 2), ('S', b'\r\n'), ('R', 300)), 'close'),
    'line-at-a-time-never': (_p(('S', b'GET /f.txt HTTP/1.1\r\n'), *[x for k in range(8) for x in (('P', 2), ('S', b'X-L%d: %d\r\n' % (k, k)))]), 'close'),
    'nul-after-head':    (_p(('S', VALID + b'\x00' * 100), ('R', 300)), 'close'),
    'crlf-first':        (_p(('S', b'\r\n\r\n' + VALID), ('R', 300)), 'close'),
    'oob':               (_p(('S', VALID[:10]), ('O', b'!'), ('S', VALID[10:]), ('R', 300)), 'close'),
}
SLOW_PACES = ['steady', 'pauses', 'tiny']
TOGETHER = ['same-big', 'same-mid', 'same-small', 'mixed', 'zoo']
STORM_KINDS = ['valid', 'valid-open', 'head', 'missing', 'form', 'garbage', 'nonorigin', 'empty', 'fin', 'rst', 'sent-rst', 'half', 'cut-body', 'big-rst', 'oversized']
STORM_HEAVY = ('big-rst',)
REWRITE_HOW = ['inplace', 'rename', 'shrink']

NEW_KINDS2 = ['zoo', 'cold', 'rewrite', 'create', 'keepalive', 'talk', 'slow-read', 'together', 'storm']
SELF_JUDGED = ('hold', 'probe', 'cold', 'rewrite', 'create', 'keepalive', 'slow-read', 'together', 'storm')
DEMANDED = DEMANDED + ('zoo',)

_pick_variant_1 = pick_variant
def pick_variant(kind, rng, n, quick_stall=False):
    if kind == 'zoo': return f'zoo/{rng.below(len(ZOO))}/{rng.choice(["fin", "open"])}'
    if kind == 'cold': return f'cold/{rng.below(len(COLD))}/{rng.choice(["vp", "pv"])}'
    if kind == 'rewrite': return f'rewrite/{rng.below(4)}/{rng.choice(REWRITE_HOW)}'
    if kind == 'create': return f'create/{rng.below(4)}'
    if kind == 'keepalive': return f'keepalive/{rng.choice(sorted(KA_REQS))}/{rng.choice(KA_AFTER)}'
    if kind == 'talk': return 'talk/' + rng.choice(sorted(TALKS))
    if kind == 'slow-read': return 'slow-read/' + rng.choice(SLOW_PACES)
    if kind == 'together': return f'together/{rng.choice(TOGETHER)}/{rng.below(1 << 16)}'
    if kind == 'storm': return f'storm/{rng.choice(STORM_KINDS)}/{rng.choice([20, 40])}'
    return _pick_variant_1(kind, rng, n, quick_stall)

def _wait_bytes(s, ms):
    """wait up to ms for bytes; returns them (b'' at end of stream, None when nothing came or the connection was reset)"""
    s.settimeout(ms / 1000.0)
    try: return s.recv(1 << 16)
    except OSError: return None

def _storm_one(server, kind):
    """one connection of a storm; returns None, or a description when a demanded answer is missing"""
    if kind in ('valid', 'valid-open'):
        r = ask(server, VALID, half_close=(kind == 'valid'))
        return None if is_file_answer(r, b'hello') else 'GET /f.txt answered ' + repr((r or b'')[:40])
    if kind == 'head':
        r = ask(server, b'HEAD /f.txt HTTP/1.1\r\nHost: x\r\n\r\n')
        return None if r and r.startswith(b'HTTP/1.1 200') else 'HEAD /f.txt answered ' + repr((r or b'')[:40])
    if kind == 'missing':
        r = ask(server, b'GET /no-such-file.txt HTTP/1.1\r\nHost: x\r\n\r\n')
        return None if r and r.startswith(b'HTTP/1.1 ') else 'GET /no-such-file.txt answered ' + repr((r or b'')[:40])
    if kind == 'form':
        r = ask(server, FORM % 3 + b'a=1')
        return None if r and r.startswith(b'HTTP/1.1 200') else 'the form post answered ' + repr((r or b'')[:40])
    s = _conn(server.port)
    try:
        if kind == 'garbage': s.sendall(b'\xff\xfe\x00 garbage\r\n\r\n'); s.close()
        elif kind == 'nonorigin': s.sendall(b'GET x HTTP/1.1\r\n\r\n'); s.close()
        elif kind == 'empty': s.close()
        elif kind == 'fin': s.shutdown(socket.SHUT_WR); _wait_bytes(s, 2000); s.close()
        elif kind == 'rst': _rst(s)
        elif kind == 'sent-rst': s.sendall(VALID); _rst(s)
        elif kind == 'half': s.sendall(b'GET /f.t'); s.close()
        elif kind == 'cut-body': s.sendall(FORM % 500 + b'a=1'); s.close()
        elif kind == 'big-rst': s.sendall(b'GET /%s HTTP/1.1\r\nHost: x\r\n\r\n' % BIG_NAME.encode()); _rst(s)
        elif kind == 'oversized': s.sendall(b'\xfe' * (alloc_of(server) + 1)); s.close()
    except OSError:
        try: s.close()
        except OSError: pass
    return None

def run_new2(server, elem, ctx):
    """elements of the second pass; same contract as run_new.  Self-judged kinds answer b'HTTP/1.1 200 <kind>' or (None, what is wrong)"""
    p = elem.split('/')
    kind = p[0]
    port = server.port
    base = server.docroot
    OK = b'HTTP/1.1 200 ' + kind.encode()
    try:
        if kind == 'zoo':
            name, raw = ZOO[int(p[1])]
            return ask(server, raw, half_close=(p[2] == 'fin')), name
        if kind == 'cold':
            i = int(p[1]); name, raw = COLD[i]
            content = DOC['c%d.txt' % i]
            want = ctx['fresh'].get(('cold', i))
            wrong = []
            for step in p[2]:
                if step == 'p':
                    r = ask(server, plain_cold(i), half_close=(i % 2 == 0))
                    if not is_file_answer(r, content):
                        wrong.append(f'GET /c{i}.txt {"after" if p[2] == "vp" else "before"} its variant `{name}`: ' + (repr(r[:30]) + f' … body of {len(split_response(r)[1])} bytes' if r else 'not answered'))
                else:
                    r = ask(server, raw, half_close=(i % 2 == 1))
                    if not r: wrong.append(f'variant `{name}` of /c{i}.txt not answered')
                    elif want is not None and norm(r) != want:
                        wrong.append(f'variant `{name}` of /c{i}.txt {"first" if p[2] == "vp" else "after the plain request"}: not the answer of a fresh server asked it first: ' + repr(r[:30]) + ' … ' + repr(r[-40:]))
            return (OK, name) if not wrong else (None, '; '.join(wrong))
        if kind in ('rewrite', 'create'):
            j = int(p[1])
            ctx['serial'] = serial = ctx.get('serial', 0) + 1
            name = ('r%d-%d.txt' if kind == 'rewrite' else 'n%d-%d.txt') % (j, port)      # histories run side by side in one document root
            path = os.path.join(base, name)
            get = b'GET /%s HTTP/1.1\r\nHost: x\r\n\r\n' % name.encode()
            def content(k, reps): return (b'%s version %d of %s\n' % (kind.encode(), k, name.encode())) * reps
            def write(data, how):
                if how == 'rename':
                    with open(path + '.new', 'wb') as fh: fh.write(data)
                    os.replace(path + '.new', path)
                else:
                    with open(path, 'wb') as fh: fh.write(data)
            wrong = []
            try:
                if kind == 'rewrite':
                    a, b = content(2 * serial, 9), content(2 * serial + 1, 3 if p[2] == 'shrink' else 14)
                    write(a, 'inplace')
                    r = ask(server, get)
                    if not is_file_answer(r, a): wrong.append(f'GET /{name} (just written, {len(a)} bytes): ' + (repr(r[:30]) + f' … body of {len(split_response(r)[1])} bytes' if r else 'not answered'))
                    write(b, p[2])
                    r = ask(server, get, half_close=False)
                    if not is_file_answer(r, b): wrong.append(f'GET /{name} after the file got other content ({len(a)} -> {len(b)} bytes, {p[2]}): ' + (repr(r[:30]) + f' … body of {len(split_response(r)[1])} bytes, ' + ('the OLD content' if split_response(r)[1] == a else 'neither old nor new content') if r else 'not answered'))
                else:
                    try: os.remove(path)
                    except OSError: pass
                    r = ask(server, get)
                    if not r: wrong.append(f'GET /{name} (absent) not answered')
                    a = content(serial, 5)
                    write(a, 'inplace')
                    r = ask(server, get, half_close=False)
                    if not is_file_answer(r, a): wrong.append(f'GET /{name} after the file was created: ' + (repr(r[:40]) if r else 'not answered'))
                    os.remove(path)
                    r = ask(server, get)
                    if not r: wrong.append(f'GET /{name} (removed) not answered')
                    elif r.startswith(b'HTTP/1.1 200'): wrong.append(f'GET /{name} after the file was removed: still 200')
            finally:
                try: os.remove(path)
                except OSError: pass
            return (OK, '') if not wrong else (None, '; '.join(wrong))
        if kind == 'keepalive':
            raw, after = KA_REQS[p[1]], p[2]
            s = _conn(port)
            s.setsockopt(socket.IPPROTO_TCP, socket.TCP_NODELAY, 1)
            wrong = []
            try:
                if after == 'second-close-ka':       # two requests in one segment, the second one says close
                    s.sendall(raw + VALID.replace(b'\r\n\r\n', b'\r\nConnection: close\r\n\r\n'))
                else:
                    s.sendall(raw)
                r = read_answer(s, 10)
                if not is_file_answer(r, b'hello'):
                    wrong.append('first request on the connection: ' + (repr(r[:40]) if r else 'not answered'))
                def second(req, wait):
                    try: s.sendall(req)
                    except OSError: return
                    r2 = read_answer(s, wait)
                    if r2 and r2.startswith(b'HTTP/') and not is_file_answer(r2, b'hello'):
                        wrong.append('the server answered a second request on the connection, wrongly: ' + repr(r2[:40]) + ' … ' + repr(r2[-20:]))
                if after == 'close': pass
                elif after == 'rst': _rst(s); return (OK, '') if not wrong else (None, '; '.join(wrong))
                elif after == 'idle-close': time.sleep(0.005)
                elif after == 'idle-rst': time.sleep(0.005); _rst(s); return (OK, '') if not wrong else (None, '; '.join(wrong))
                elif after == 'second': second(raw, 2); 
                elif after == 'second-open': second(VALID, 2)
                elif after == 'second-half':
                    try: s.sendall(b'GET /f.txt HTT')
                    except OSError: pass
                elif after == 'second-half-fin':
                    try: s.sendall(raw[:-2]); s.shutdown(socket.SHUT_WR)
                    except OSError: pass
                    _wait_bytes(s, 1000)
                elif after == 'fin-wait':
                    try: s.shutdown(socket.SHUT_WR)
                    except OSError: pass
                    _wait_bytes(s, 1000)
                elif after == 'garbage':
                    try: s.sendall(b'\xff\xfe\x00 garbage\r\n\r\n')
                    except OSError: pass
                    _wait_bytes(s, 300)
                elif after == 'many':
                    for _ in range(5): second(raw, 2)
                elif after == 'second-close-ka':
                    r2 = read_answer(s, 0.3)
                    if r2 and r2.startswith(b'HTTP/') and not is_file_answer(r2, b'hello'): wrong.append('second of two requests sent together answered wrongly: ' + repr(r2[:40]))
                elif after == 'nul':
                    try: s.sendall(b'\x00')
                    except OSError: pass
                elif after == 'crlf':
                    try: s.sendall(b'\r\n')
                    except OSError: pass
                    _wait_bytes(s, 300)
            except OSError:
                pass
            try: s.close()
            except OSError: pass
            return (OK, '') if not wrong else (None, '; '.join(wrong))
        if kind == 'talk':
            steps, end = TALKS[p[1]]
            s = _conn(port)
            s.setsockopt(socket.IPPROTO_TCP, socket.TCP_NODELAY, 1)
            try:
                for op, arg in steps:
                    if op == 'S': s.sendall(arg)
                    elif op == 'O': s.send(arg, socket.MSG_OOB)
                    elif op == 'R': _wait_bytes(s, arg)
                    elif op == 'P': time.sleep(arg / 1000.0)
            except OSError:
                pass                                  # the server answered the head and closed: what a client that talks on sees
            return _end(s, end, wait=1), ''
        if kind == 'slow-read':
            pace = p[1]
            s = _conn(port, timeout=10, rcvbuf=(4096 if pace != 'pauses' else 65536))
            s.sendall(b'GET /%s HTTP/1.1\r\nHost: x\r\n\r\n' % MID_NAME.encode())
            if pace == 'pauses': s.shutdown(socket.SHUT_WR)
            chunks, got = [], 0
            try:
                while True:
                    b = s.recv(200 if (pace == 'tiny' and got < 6000) else 16384)
                    if not b: break
                    chunks.append(b); got += len(b)
                    if pace == 'steady' and len(chunks) % 5 == 0: time.sleep(0.0005)
                    elif pace == 'tiny' and got < 6000: time.sleep(0.0002)
                    elif pace == 'pauses' and len(chunks) % 24 == 0: time.sleep(0.012)
            except OSError:
                pass
            s.close()
            r = b''.join(chunks)
            if is_file_answer(r, DOC[MID_NAME]): return OK, ''
            return None, f'GET /{MID_NAME} read slowly ({pace}): ' + (repr(r[:30]) + f' … {len(split_response(r)[1])} of {MID_SIZE} body bytes' if r else 'not answered')
        if kind == 'together':
            from vlib import common as C
            what, r = p[1], C.Rng(int(p[2]))
            k = max(1, min(ctx['n'], 8))
            jobs = []
            for t in range(k):
                if what == 'same-big': jobs.append(('valid-big', b'GET /%s HTTP/1.1\r\nHost: x\r\n\r\n' % BIG_NAME.encode()))
                elif what == 'same-mid': jobs.append(('mid', b'GET /%s HTTP/1.1\r\nHost: x\r\n\r\n' % MID_NAME.encode()))
                elif what == 'same-small': jobs.append(('valid', VALID))
                elif what == 'zoo':
                    i = r.below(len(ZOO)); jobs.append((f'zoo/{i}/fin', ZOO[i][1]))
                else:
                    i = r.below(len(VALIDS)); jobs.append((f'valid-other/{i}/fin', VALIDS[i][1]))
            out = [None] * k
            barrier = threading.Barrier(k)
            def work(t):
                try: barrier.wait(timeout=10)
                except threading.BrokenBarrierError: pass
                try: out[t] = ask(server, jobs[t][1], half_close=(t % 2 == 0), timeout=20)
                except OSError: out[t] = None
            ts = [threading.Thread(target=work, args=(t,), daemon=True) for t in range(k)]
            for t in ts: t.start()
            for t in ts: t.join()
            wrong = []
            for (e, raw), a in zip(jobs, out):
                if e == 'mid': bad = None if is_file_answer(a, DOC[MID_NAME]) else ('not the file: ' + (repr(a[:30]) + f' … {len(split_response(a)[1])} body bytes' if a else 'not answered'))
                else: bad = judge_answer(e, a, ctx)
                if bad: wrong.append(f'{e}: {bad}')
            return (OK, '') if not wrong else (None, f'{len(wrong)} of {k} requests made at the same moment on {ctx["n"]} free workers: ' + '; '.join(wrong[:2]))
        if kind == 'storm':
            what, count = p[1], int(p[2])
            bad = []
            for _ in range(count):
                try: b = _storm_one(server, what)
                except OSError as e: b = f'{type(e).__name__}: {e}' if what in ('valid', 'valid-open', 'head', 'missing', 'form') else None
                if b:
                    bad.append(b)
                    if len(bad) >= 2: break
            return (OK, '') if not bad else (None, f'storm of {count} x {what}: ' + '; '.join(bad))
        return None, 'unknown kind ' + elem
    except OSError as e:
        return None, f'{elem}: {type(e).__name__}: {e}'

_run_new_1 = run_new
def run_new(server, elem, ctx):
    if elem.split('/')[0] in NEW_KINDS2: return run_new2(server, elem, ctx)
    return _run_new_1(server, elem, ctx)

_judge_answer_1 = judge_answer
def judge_answer(elem, r, ctx):
    kind = elem.split('/')[0]
    if kind in SELF_JUDGED: return None if r else 'wrong or no answer'
    if kind == 'zoo':
        i = int(elem.split('/')[1])
        want = ctx['fresh'].get(('zoo', i))
        if want is None:
            # a fresh server does not answer this one reproducibly: only what is demanded of every fault-provoking request - the
            # connection ends (closed without an answer is accepted; a time-out is not).  A request longer than the request buffer may be
            # RESET after the answer (unread input): nothing demanded
            if r is None and len(ZOO[i][1]) <= min(ZOO_MAX, (ctx.get('alloc') or 10000) - 100): return f'no answer and the connection stays open or is reset ({ZOO[i][0]})'
            return None
        if not r: return f'not answered ({ZOO[i][0]}; a fresh server answers it)'
        if norm(r) != want: return f'answer differs from the answer of a fresh server to the same request ({ZOO[i][0]}): ' + repr(r[:30]) + ' … ' + repr(r[-60:])
        return None
    return _judge_answer_1(elem, r, ctx)

_fresh_answers_1 = fresh_answers
ZOO_MAX = 9900               # a request longer than the request buffer is answered and then RESET (unread input): what the client sees is a race
def fresh_answers(Server, base, alloc=None, args=(), zoo_need=None):
    """fresh answers of the first pass, plus: every cold variant asked as the FIRST request for its file, every request of ZOO
    (zoo_need: only these indices) that fits into the request buffer - each twice; what is not answered the same way twice is left out"""
    out = {'_zoo': set()}
    with Server(base, threads=2, alloc=alloc, args=args, capture_stdout=False) as srv:
        for i, (name, raw) in enumerate(COLD): _twice(srv, out, ('cold', i), raw)
        for i, (name, raw) in enumerate(VALIDS):
            try:
                a = srv.request(raw, timeout=10)
                b = srv.request(raw, timeout=10, half_close=False)
            except OSError:
                continue
            if a and norm(a) == norm(b): out[i] = norm(a)
        _fresh_zoo(srv, out, alloc, zoo_need)
    return out

def _twice(srv, out, key, raw):
    try:
        a = ask(srv, raw, True)
        b = ask(srv, raw, False)
    except OSError:
        return
    if a and b and norm(a) == norm(b): out[key] = norm(a)

def _fresh_zoo(srv, out, alloc, need):
    for i, (name, raw) in enumerate(ZOO):
        if i in out['_zoo'] or (need is not None and i not in need): continue
        out['_zoo'].add(i)
        if len(raw) <= min(ZOO_MAX, (alloc or 10000) - 100): _twice(srv, out, ('zoo', i), raw)

def fresh_more(Server, base, fresh, alloc, args, need):
    """fresh answers to further requests of ZOO (a new fresh server)"""
    if all(i in fresh['_zoo'] for i in need): return
    with Server(base, threads=2, alloc=alloc, args=args, capture_stdout=False) as srv:
        _fresh_zoo(srv, fresh, alloc, need)

# ------------------------------------------------------------------------------------------------ connections in the background
BG_KINDS = ['idle', 'half', 'reader', 'expect', 'ka', 'upload']
BG_ENDS = ['close', 'rst', 'finish', 'keep']

def bg_open(server, specs):
    """opens the background connections `kind:end`; each occupies one worker for as long as it is open (on the unchanged server: `ka`
    does not - the server closes after its answer)"""
    conns = []
    for spec in specs:
        kind = spec.split(':')[0]
        s = _conn(server.port, timeout=10, rcvbuf=(4096 if kind == 'reader' else None))
        try:
            if kind == 'half': s.sendall(b'GET /f.txt HTTP/1.1\r\nHost: x\r\nX-Half')
            elif kind == 'reader': s.sendall(b'GET /%s HTTP/1.1\r\nHost: x\r\n\r\n' % BIG_NAME.encode())
            elif kind == 'expect': s.sendall(_EXPECT(n=70))
            elif kind == 'upload': s.sendall(FORM % 5000 + b'a=1&b=')
            elif kind == 'ka':
                s.sendall(KA_REQS['ka11']); read_answer(s, 10)
        except OSError:
            pass
        conns.append(s)
    if conns: time.sleep(0.02)          # a courtesy: the readers' answers fill the socket buffers, the others are with their workers
    return conns, time.time()

def bg_end(server, conns, specs, opened, min_ms=0):
    """ends the background connections as their spec says (after they have been open for min_ms); returns the sockets that stay open"""
    if conns and min_ms:
        left = min_ms / 1000.0 - (time.time() - opened)
        if left > 0: time.sleep(left)
    kept = []
    for s, spec in zip(conns, specs):
        kind, _, end = spec.partition(':')
        try:
            if end == 'keep': kept.append(s); continue
            if end == 'rst': _rst(s); continue
            if end == 'finish':
                if kind == 'idle': s.sendall(VALID)
                elif kind == 'half': s.sendall(b': 1\r\n\r\n')
                elif kind == 'expect': s.sendall(b'a=1&b=2' * 10)
                elif kind == 'upload': s.sendall(b'x' * 4994)
                elif kind == 'ka': s.sendall(VALID)
                _read_all(s, 5 if kind != 'reader' else 20)
            s.close()
        except OSError:
            try: s.close()
            except OSError: pass
    return kept
