"""C11 generator audit: the input classes `props/c11.py` did not produce (see audit/C11/AUDIT.md).

Everything here only GENERATES inputs; the expected grants are computed by the oracle of props/c11.py (exact membership
of the Origin in the comma split of the configuration, grants = configuration), so a derived value that happens to equal
a configured origin is judged correctly whatever its label says.

`codec_cases(rng, tier, E)` drives the emitters of props/c11.py:
    E.get(pairs, method, headers, cls, op='corsget', uri=, version=, body=)   Cors::get_headers / process_using_default_config
    E.proc(cors, method, headers, cls, uri=, version=, body=)                 Cors::_process
    E.allow_all(method, headers, cls, uri=, version=, body=)                  Cors::allow_all
`server_plan(rng, tier)` describes whole-server runs (one environment each): the Access-Control-* headers of real responses."""
import re

V = {k: 'RWS_CONFIG_CORS_' + k for k in ['ALLOW_ALL', 'ALLOW_ORIGINS', 'ALLOW_CREDENTIALS', 'ALLOW_HEADERS', 'ALLOW_METHODS', 'EXPOSE_HEADERS', 'MAX_AGE']}

CONF = ['https://foo.example', 'https://bar.example', 'http://localhost:8080', 'https://a.b']
CONF2 = ['http://localhost:7878', 'https://api.shop.example:8443', 'http://127.0.0.1', 'https://[::1]:8443',
         'https://xn--bcher-kva.example', 'https://b\u00fccher.example']
# entries that no validating implementation would call an origin, or that some implementations give a meaning of their own:
# the statement knows one meaning only - the Origin is granted when it is exactly this text
ODD = ['null', '*', 'file://', 'chrome-extension://abcdefghijklmnop', 'https://foo.example/', 'HTTPS://Foo.Example', 'https://*.example',
       'https://foo.example:443', 'http://foo.example:80', 'a b', 'https://foo.example.', 'https://user@foo.example', 'https://%66oo.example']
DEFAULT_PORT = {'http': '80', 'https': '443', 'ws': '80', 'wss': '443', 'ftp': '21'}
PREFLIGHT = [('Access-Control-Request-Method', 'PUT'), ('access-control-request-headers', 'X-Custom, Content-Type')]
LISTS = dict(ALLOW_METHODS='GET,POST,OPTIONS', ALLOW_HEADERS='Content-Type,X-Custom-Header', EXPOSE_HEADERS='X-Total', MAX_AGE='600')


def split_origin(e):
    m = re.match(r'^([A-Za-z][A-Za-z0-9+.\-]*)://(.*)$', e, re.S)
    return (m.group(1), m.group(2)) if m else (None, e)

def host_port(auth):
    if auth.startswith('['):
        i = auth.find(']')
        if i >= 0:
            rest = auth[i + 1:]
            return auth[:i + 1], (rest[1:] if rest.startswith(':') else None)
    if ':' in auth:
        h, p = auth.rsplit(':', 1)
        return h, p
    return auth, None

def flip(s, i):
    return s[:i] + s[i].swapcase() + s[i + 1:]

HOMOGLYPH = {'o': '\u03bf', 'a': '\u0430', 'e': '\u0435', 'c': '\u0441', 'p': '\u0440', 'x': '\u0445', 'l': '\u04cf', 'h': '\u04bb', 'b': '\u0184', 'k': '\u212a', 's': '\u017f'}
LOOPBACK = ['localhost', '127.0.0.1', '[::1]', '127.1', '0.0.0.0', '[0:0:0:0:0:0:0:1]', 'LOCALHOST', 'localhost.']

def variants(e, rng):
    """near misses of ONE configured entry: [(kind, Origin value)]"""
    out = [('exact', e)]
    add = lambda k, v: out.append((k, v))
    n = len(e)
    # --- cut / repeat
    if n:
        add('drop-last', e[:-1]); add('drop-first', e[1:])
        add('drop-middle', e[:n // 2] + e[n // 2 + 1:])
        i = rng.below(n); add('drop-random', e[:i] + e[i + 1:])
        i = rng.below(n); add('double-random', e[:i] + e[i] + e[i:])
        if n > 1:
            i = rng.below(n - 1); add('swap-neighbours', e[:i] + e[i + 1] + e[i] + e[i + 2:])
        add('reversed', e[::-1])
    add('twice', e + e); add('twice-comma', e + ',' + e); add('twice-space', e + ' ' + e)
    # --- something after / before
    for t in ['/', '//', '/.', '/x', '/?', '?', '#', '.', ':', ':443', ':80', ':8080', ':0', ':65536', ' ', '  ', '\t', '\r', '\n', '\r\n', '\x00', '\x00evil',
              ',', ';', ', ', '*', '%20', '%00', '%2F', '\u00a0', '\u200b', '\ufeff', '\u3000', '\\', '@evil.example', '.evil.example', ':evil', '-', '_', 'x', '0']:
        add('after:' + repr(t)[1:-1], e + t)
    for t in [' ', '\t', '\n', '\x00', '/', '//', ',', ';', '*', 'x', '-', '.', 'evil-', 'null ', 'null,', '\ufeff', '\u200b', 'https://evil.example/?', 'https://evil.example#',
              'https://evil.example/', 'https://evil.example@', 'evil.example,', 'Origin: ']:
        add('before:' + repr(t)[1:-1], t + e)
    # --- letter case, whole and by component
    add('upper', e.upper()); add('lower', e.lower()); add('swapcase', e.swapcase()); add('title', e.title())
    letters = [i for i, ch in enumerate(e) if ch.isalpha() and ch.swapcase() != ch]
    if letters:
        add('flip-first-letter', flip(e, letters[0])); add('flip-last-letter', flip(e, letters[-1]))
        add('flip-random-letter', flip(e, rng.choice(letters)))
    scheme, auth = split_origin(e)
    if scheme is not None:
        host, port = host_port(auth)
        tail = (':' + port) if port is not None else ''
        add('scheme-upper', scheme.upper() + '://' + auth); add('scheme-title', scheme.title() + '://' + auth)
        add('host-upper', scheme + '://' + host.upper() + tail); add('host-title', scheme + '://' + host.title() + tail)
        hl = [i for i, ch in enumerate(host) if ch.isalpha() and ch.swapcase() != ch]
        if hl: add('host-flip-one', scheme + '://' + flip(host, rng.choice(hl)) + tail)
        # --- scheme
        other = {'http': 'https', 'https': 'http'}.get(scheme.lower(), 'https')
        add('other-scheme', other + '://' + auth)
        for s in ['ws', 'wss', 'ftp', 'file', 'HTTP', 'h', scheme + 's', scheme[:-1], '']:
            add('scheme:' + s, s + '://' + auth)
        add('no-scheme', auth); add('scheme-relative', '//' + auth); add('scheme-only', scheme + '://'); add('scheme-colon', scheme + ':' + auth)
        add('one-slash', scheme + ':/' + auth); add('three-slashes', scheme + ':///' + auth); add('backslashes', scheme + ':\\\\' + auth)
        # --- port
        if port is None:
            add('default-port', e + ':' + DEFAULT_PORT.get(scheme.lower(), '80'))
            add('other-default-port', e + ':' + DEFAULT_PORT.get(other, '80'))
            add('empty-port', e + ':')
            add('port-0443', e + ':0' + DEFAULT_PORT.get(scheme.lower(), '80'))
        else:
            add('no-port', scheme + '://' + host); add('empty-port', scheme + '://' + host + ':')
            add('port-leading-zero', scheme + '://' + host + ':0' + port); add('port-plus', scheme + '://' + host + ':+' + port)
            if port.isdigit():
                add('port+1', f'{scheme}://{host}:{int(port) + 1}'); add('port-1', f'{scheme}://{host}:{int(port) - 1}')
                add('port+65536', f'{scheme}://{host}:{int(port) + 65536}')
            add('port-prefix', scheme + '://' + host + ':' + port[:-1]); add('port-longer', scheme + '://' + host + ':' + port + '0')
            add('port-default-instead', scheme + '://' + host + ':' + DEFAULT_PORT.get(scheme.lower(), '80'))
        # --- host
        add('www', scheme + '://www.' + host + tail); add('subdomain', scheme + '://evil.' + host + tail)
        add('host-suffix', scheme + '://' + host + '.evil.example' + tail); add('host-prefix-glued', scheme + '://evil' + host + tail)
        add('fqdn-dot', scheme + '://' + host + '.' + tail); add('userinfo', scheme + '://user@' + host + tail)
        add('userinfo-pw', scheme + '://user:pw@' + host + tail); add('as-userinfo', scheme + '://' + host + tail + '@evil.example')
        labels = host.split('.')
        if len(labels) >= 2:
            add('parent-domain', scheme + '://' + '.'.join(labels[1:]) + tail)
            add('wildcard-label', scheme + '://*.' + '.'.join(labels[1:]) + tail)
            add('sibling', scheme + '://evil.' + '.'.join(labels[1:]) + tail)
            for repl in ['x', '-', '%2E', '%2e', '\u3002', '\uff0e', '..', '', ',']:
                add('dot->' + repr(repl)[1:-1], scheme + '://' + host.replace('.', repl, 1) + tail)
        add('wildcard-host', scheme + '://*' + tail); add('wildcard-all', '*'); add('null', 'null')
        if host.lower() in ('localhost', '127.0.0.1', '[::1]'):
            for lb in LOOPBACK: add('loopback:' + lb, scheme + '://' + lb + tail)
        for ch, g in HOMOGLYPH.items():
            if ch in host:
                add('homoglyph:' + ch, scheme + '://' + host.replace(ch, g, 1) + tail); break
        if host and host[0].isalnum():
            add('pct-first', scheme + '://%' + ('%02x' % ord(host[0]) if ord(host[0]) < 128 else '00') + host[1:] + tail)
            add('pct-first-upper', scheme + '://%' + ('%02X' % ord(host[0]) if ord(host[0]) < 128 else '00') + host[1:] + tail)
        if 'e' in host:
            add('nfd-e', scheme + '://' + host.replace('e', 'e\u0301', 1) + tail); add('nfc-e', scheme + '://' + host.replace('e', '\u00e9', 1) + tail)
        if '\u00fc' in host:
            add('nfd-u', scheme + '://' + host.replace('\u00fc', 'u\u0308') + tail); add('upper-u', scheme + '://' + host.replace('\u00fc', '\u00dc') + tail)
            add('ascii-u', scheme + '://' + host.replace('\u00fc', 'u') + tail); add('punycode', scheme + '://xn--bcher-kva.example' + tail)
        if host.startswith('xn--'):
            add('unicode-form', scheme + '://b\u00fccher.example' + tail); add('xn-upper', scheme + '://XN--' + host[4:] + tail)
    return out


def env_off(origins, cred='true', lists=LISTS, switch='false'):
    pairs = []
    if switch is not None: pairs.append((V['ALLOW_ALL'], switch))
    if origins is not None: pairs.append((V['ALLOW_ORIGINS'], origins))
    if cred is not None: pairs.append((V['ALLOW_CREDENTIALS'], cred))
    for k, v in (lists or {}).items():
        if v is not None: pairs.append((V[k], v))
    return pairs

def cors_of(origins, cred=True, all_=False):
    return dict(all=all_, origins=list(origins), methods=['GET', 'PUT'], headers=['X-A', 'Content-Type'], cred=cred, expose=['X-B'], maxage='5')


def codec_cases(rng, tier, E):
    quick = tier == 'quick'
    get, proc, allow_all = E.get, E.proc, E.allow_all

    # ---------------------------------------------------------------- A. near misses derived from EVERY configured entry, at every list position
    plans = [(CONF, list(range(len(CONF)))), (CONF2, list(range(len(CONF2)))), (ODD, list(range(len(ODD))))]
    turn = 0
    for conf, idxs in plans:
        setting = ','.join(conf)
        for i in idxs:
            for kind, ov in variants(conf[i], rng):
                cls = 'derived near-miss'
                turn += 1
                method = 'OPTIONS' if turn % 2 else 'GET'
                hs = [('Host', 'localhost'), ('Origin', ov)] + (PREFLIGHT if turn % 4 == 1 else [])
                full = (conf is CONF and i in (0, len(conf) - 1)) or not quick
                # the list whole, and the entry alone (first = last = only entry)
                get(env_off(setting, cred=('true' if turn % 3 else 'false')), method, hs, cls)
                lean = quick and conf is ODD and turn % 2 == 0           # quick: the odd entries get the second entry point on every other variant
                if full or (turn % 3 == 0 and not lean): proc(cors_of(conf, cred=bool(turn % 3)), method, hs, cls)
                if full or (turn % 3 == 1 and not lean): get(env_off(conf[i], cred='true'), method, [('Origin', ov)], cls, 'corsdef')
                if full or (turn % 3 == 2 and not lean): get(env_off(setting, switch='true'), method, hs, 'derived near-miss, switch on (echo)')
                if not quick:
                    proc(cors_of([conf[i]], all_=True), method, [('origin', ov)], cls)
                    get(env_off(setting, switch=None), method, hs, 'derived near-miss, switch on (echo)')

    # ---------------------------------------------------------------- B. an Origin header that holds a LIST of origins (RFC 6454 allows blanks)
    a, b_, evil = CONF[0], CONF[1], 'https://evil.example'
    listed = []
    for x, y in [(a, b_), (b_, a), (a, evil), (evil, a), (a, a), (a, 'null'), ('null', a), (evil, evil), (CONF[2], CONF[3])]:
        for sep in [' ', '  ', '\t', ', ', ' ,', ' , ', ',', ';', '; ', '|', '\n', '\r\n', '\r\n ', '\x00', '+', '%20', '%2C', '\u00a0', '\u2028']:
            listed.append(x + sep + y)
    for ov in listed + [a + ' ' + b_ + ' ' + CONF[2], ' '.join(CONF), ','.join(CONF), ', '.join(CONF), ' ' + a + ' ', a + ',', ',' + a, a + ' ,', ', ' + a]:
        for method in ('GET', 'OPTIONS'):
            get(env_off(','.join(CONF)), method, [('Origin', ov)] + (PREFLIGHT if method == 'OPTIONS' else []), 'origin header holding a list')
            if method == 'GET':
                proc(cors_of(CONF), method, [('Origin', ov)], 'origin header holding a list')
                get(env_off(' '.join(CONF)), method, [('Origin', ov)], 'origin header holding a list')       # the configuration blank-separated: ONE entry
                get(env_off(','.join(CONF), switch='true'), method, [('Origin', ov)], 'origin header holding a list, switch on (echo)')

    # ---------------------------------------------------------------- C. long configured lists (the quantifier's 0..4 is where tests stop, not the code)
    sizes = [5, 6, 8, 9, 15, 16, 17, 31, 32, 33, 64, 65, 100, 128, 129, 255, 256, 257] + ([] if quick else [511, 512, 513, 1000, 1024, 1025, 4096, 10000])
    for n in sizes:
        entries = [f'https://h{i}.example' for i in range(n)]
        setting = ','.join(entries)
        picks = [('first', entries[0]), ('second', entries[1]), ('fourth', entries[3]), ('fifth', entries[4]), ('middle', entries[n // 2]), ('last-but-one', entries[-2]),
                 ('last', entries[-1]), ('beyond', f'https://h{n}.example'), ('last-cut', entries[-1][:-1]), ('last-plus', entries[-1] + '0'),
                 ('random', entries[rng.below(n)]), ('first+last', entries[0] + ',' + entries[-1])]
        for k, ov in picks:
            method = 'OPTIONS' if rng.chance(1, 2) else 'GET'
            get(env_off(setting), method, [('Origin', ov)], 'long configured list')
            proc(cors_of(entries), method, [('Origin', ov)], 'long configured list')
        # the same entry many times, empty pieces between the entries, and the wanted entry after a run of empty pieces
        get(env_off(','.join([entries[0]] * n + [entries[1]])), 'GET', [('Origin', entries[1])], 'long configured list')
        get(env_off(',' * n + entries[1]), 'GET', [('Origin', entries[1])], 'long configured list')
        get(env_off(',' * n + entries[1]), 'GET', [('Origin', '')], 'long configured list')
        get(env_off(entries[1] + ',' * n), 'OPTIONS', [('Origin', entries[1])], 'long configured list')

    # ---------------------------------------------------------------- D. sizes: long Origin / long entry, equal but for one byte; long reflected values
    lens = [63, 64, 65, 127, 128, 129, 254, 255, 256, 257, 511, 512, 513, 1023, 1024, 1025, 4095, 4096, 4097] + \
           ([] if quick else [8191, 8192, 8193, 9999, 10000, 10001, 16384, 32767, 32768, 65535, 65536, 65537, 1 << 20])
    for L in lens:
        base = 'https://' + ''.join('abcdefghij'[(j * 7 + L) % 10] for j in range(L - 16)) + '.example'
        assert len(base) == L
        i = rng.below(L)
        near = [('exact', base), ('last-byte', base[:-1] + 'f'), ('first-byte', 'H' + base[1:]), ('cut', base[:-1]), ('plus', base + 'e'),
                ('byte-at-%d' % i, base[:i] + ('~' if base[i] != '~' else '-') + base[i + 1:]),
                ('byte-at-64', base[:64] + '~' + base[65:]) if L > 65 else ('same', base),
                ('byte-at-256', base[:256] + '~' + base[257:]) if L > 257 else ('same', base),
                ('multibyte-tail', base[:-2] + '\u00e9'), ('first-255', base[:255]), ('first-64', base[:64])]
        for k, ov in near:
            method = 'OPTIONS' if rng.chance(1, 2) else 'GET'
            get(env_off('https://short.example,' + base + ',https://z.example'), method, [('Origin', ov)], 'long origin / entry')
            proc(cors_of(['https://short.example', base]), method, [('Origin', ov)], 'long origin / entry')
        get(env_off(base, switch='true'), 'OPTIONS', [('Origin', base), ('Access-Control-Request-Method', base.upper()), ('Access-Control-Request-Headers', 'X-' + base.upper())],
            'long reflected values (echo)')
        allow_all('OPTIONS', [('Access-Control-Request-Headers', 'X-' + 'H' * L), ('Origin', 'o' * L)], 'long reflected values (echo)')
        get(env_off('o', lists=dict(ALLOW_METHODS='M' * L, ALLOW_HEADERS='H' * L, EXPOSE_HEADERS='E' * L, MAX_AGE='9' * L)), 'OPTIONS', [('Origin', 'o')], 'long configured list values')
    # multi-byte characters in the Origin / entry: the comparison is on the text, not on a normal form, a case folding or a byte count
    idn = ['https://b\u00fccher.example', 'https://bu\u0308cher.example', 'https://B\u00dcCHER.example', 'https://xn--bcher-kva.example', 'https://\u03c3\u03c2.example',
           'https://\u03a3\u03a3.example', 'https://\u212a.example', 'https://k.example', 'https://K.example', 'https://stra\u00dfe.example', 'https://strasse.example',
           'https://\u0130.example', 'https://i\u0307.example', 'https://\U0001f600.example', 'https://\ufb01.example', 'https://fi.example', 'https://e\u0301.example', 'https://\u00e9.example']
    for e in idn:
        for ov in idn:
            get(env_off('https://x.example,' + e), 'GET', [('Origin', ov)], 'multi-byte origins')
            if e == ov or not quick: proc(cors_of([e]), 'OPTIONS', [('Origin', ov)], 'multi-byte origins')

    # ---------------------------------------------------------------- E. the rest of the request: target, version, body, other headers
    targets = ['/', '/x', '*', '', '/index.html', '/favicon.svg', '/style.css', '/api/v1/items', '/healthz', '/static/app.js', '/.well-known/x', '/file-upload/initiate',
               '/form-get-method?a=1', 'https://foo.example/x', 'http://evil.example/', '/?origin=https://foo.example', '/https://foo.example', '//foo.example/', '/%2e%2e/', '/x#frag', 'x', '/' + 'a' * 300]
    versions = ['HTTP/1.1', 'HTTP/1.0', 'HTTP/2.0', 'HTTP/0.9', 'HTTP/3', 'http/1.1', '', 'HTTP/1.1 ']
    bodies = [b'', b'x', b'Origin: https://evil.example\r\n\r\n', b'\x00' * 64, b'{"origin":"https://foo.example"}']
    origins3 = [('configured', CONF[1]), ('unrelated', 'https://evil.example'), ('absent', None), ('near', CONF[1] + '/')]
    for uri in targets:
        for ver in versions:
            if quick and uri not in ('/', '*', '/x') and ver not in ('HTTP/1.1', 'HTTP/1.0'): continue
            for ok_, ov in origins3:
                for method in ('GET', 'OPTIONS'):
                    body = bodies[rng.below(len(bodies))]
                    hs = ([('Origin', ov)] if ov is not None else []) + (PREFLIGHT if method == 'OPTIONS' else [])
                    which = rng.below(4)
                    sw = rng.choice(['false', 'false', 'true'])
                    if which == 0: proc(cors_of(CONF), method, hs, 'target / version / body', uri=uri, version=ver, body=body)
                    elif which == 1: get(env_off(','.join(CONF)), method, hs, 'target / version / body', 'corsdef', uri=uri, version=ver, body=body)
                    else: get(env_off(','.join(CONF), switch=sw), method, hs, 'target / version / body', uri=uri, version=ver, body=body)
    for method in ('GET', 'POST', 'OPTIONS', 'PUT'):
        for body in bodies:
            for ok_, ov in origins3:
                get(env_off(','.join(CONF)), method, [('Origin', ov)] if ov is not None else [], 'target / version / body', body=body)
    # other request headers: what a browser sends along, what a proxy adds, what names the configured origin a second time
    foo = CONF[0]
    extra_sets = [
        [('Cookie', 'sid=1')], [('Authorization', 'Basic dTpw')], [('Cookie', 'sid=1'), ('Authorization', 'Bearer x')], [('Proxy-Authorization', 'Basic dTpw')],
        [('Sec-Fetch-Mode', 'cors')], [('Sec-Fetch-Mode', 'no-cors')], [('Sec-Fetch-Mode', 'same-origin')], [('Sec-Fetch-Mode', 'navigate')], [('Sec-Fetch-Mode', 'websocket')],
        [('Sec-Fetch-Site', 'same-origin')], [('Sec-Fetch-Site', 'same-site')], [('Sec-Fetch-Site', 'cross-site')], [('Sec-Fetch-Site', 'none')],
        [('Sec-Fetch-Site', 'same-origin'), ('Sec-Fetch-Mode', 'cors'), ('Sec-Fetch-Dest', 'empty')], [('Sec-Fetch-Dest', 'document')],
        [('Referer', foo + '/page')], [('Referer', 'https://evil.example/' + foo)], [('Referer', '')],
        [('Host', 'foo.example')], [('Host', 'foo.example:443')], [('Host', 'bar.example')], [('Host', 'evil.example')], [('Host', '')], [('Host', foo)],
        [('X-Forwarded-Host', 'foo.example')], [('X-Forwarded-Proto', 'https'), ('X-Forwarded-Host', 'foo.example')], [('Forwarded', 'host=foo.example;proto=https')],
        [('X-Forwarded-For', '127.0.0.1')], [('X-Real-IP', '127.0.0.1')], [('X-Original-Origin', foo)], [('X-Origin', foo)], [('Origin-Agent-Cluster', '?1')],
        [('Sec-WebSocket-Origin', foo)], [('X-Requested-With', 'XMLHttpRequest')], [('Access-Control-Request-Private-Network', 'true')], [('Access-Control-Request-Local-Network', 'true')],
        [('Access-Control-Allow-Origin', foo)], [('Access-Control-Allow-Origin', '*')], [('Access-Control-Allow-Credentials', 'true')], [('Timing-Allow-Origin', '*')],
        [('Connection', 'Upgrade'), ('Upgrade', 'websocket')], [('Connection', 'close')], [('Content-Type', 'application/json')], [('Content-Type', 'text/plain')],
        [('Content-Length', '0')], [('Range', 'bytes=0-0')], [('If-None-Match', '*')], [('Vary', 'Origin')], [('User-Agent', 'curl/8')], [('User-Agent', 'Mozilla/5.0')],
        [('Accept', '*/*')], [('DNT', '1')], [('Sec-GPC', '1')], [('Upgrade-Insecure-Requests', '1')], [('Cache-Control', 'no-cache')], [('Pragma', 'no-cache')], [('TE', 'trailers')],
    ]
    for xs in extra_sets:
        for ok_, ov in origins3 + [('first', foo), ('null', 'null')]:
            for method in ('GET', 'OPTIONS'):
                for cred in (('false', 'true') if not quick else (rng.choice(['false', 'false', 'true']),)):
                    for before in (False, True):
                        o = [('Origin', ov)] if ov is not None else []
                        hs = (xs + o) if before else (o + xs)
                        hs = hs + (PREFLIGHT if method == 'OPTIONS' and rng.chance(1, 2) else [])
                        get(env_off(','.join(CONF), cred=cred), method, hs, 'other request headers')
                        if before and (not quick or method == 'GET'):
                            proc(cors_of(CONF, cred=(cred == 'true')), method, hs, 'other request headers')
                        if before and (not quick or method == 'OPTIONS'):
                            get(env_off(','.join(CONF), cred=cred, switch='true'), method, hs, 'other request headers, switch on (echo)')
    # the request's own Host names a CONFIGURED origin (a same-origin request from an allowed origin), and with the switch on any Host
    for e in CONF + CONF2[:4]:
        scheme, auth = split_origin(e)
        host, port = host_port(auth)
        for hostv in [auth, host, auth.upper(), host + ':' + DEFAULT_PORT[scheme], e][:(3 if quick else 5)]:
            for method in ('GET', 'OPTIONS', 'POST'):
                for hs in ([('Host', hostv), ('Origin', e)], [('Origin', e), ('Host', hostv)], [('host', hostv), ('origin', e), ('Referer', e + '/')],
                           [('Host', hostv), ('Origin', e), ('Sec-Fetch-Site', 'same-origin')]):
                    hs = hs + (PREFLIGHT if method == 'OPTIONS' else [])
                    get(env_off(','.join(CONF + CONF2)), method, hs, 'host names a configured origin')
                    get(env_off(','.join(CONF + CONF2), switch='true'), method, hs, 'host names the origin, switch on (echo)')
                    get(env_off('https://other.example', switch=None), method, hs, 'host names the origin, switch on (echo)')
    # position of the Origin header among many; many headers
    for count in [1, 2, 3, 7, 8, 9, 15, 16, 17, 31, 32, 33, 63, 64, 65, 100, 128] + ([] if quick else [255, 256, 257, 1000, 5000]):
        filler = [(f'X-Filler-{j}', f'v{j}') for j in range(count)]
        for pos in sorted({0, 1, count // 2, count - 1, count}):
            for ok_, ov in origins3:
                if ov is None: continue
                hs = filler[:pos] + [('Origin', ov)] + filler[pos:]
                method = 'OPTIONS' if rng.chance(1, 2) else 'GET'
                get(env_off(','.join(CONF)), method, hs + (PREFLIGHT if method == 'OPTIONS' else []), 'origin position among many headers')
                if pos in (0, count): proc(cors_of(CONF), method, hs, 'origin position among many headers')
                if pos == count: get(env_off('', switch='true'), 'OPTIONS', hs + PREFLIGHT, 'origin position among many headers')

    # ---------------------------------------------------------------- F. the preflight request against the configuration
    conf_methods = ['GET,POST,OPTIONS', 'GET, POST', 'PUT', 'put', '*', '', 'GET,GET', 'POST,GET', ' GET ', 'GET,', ',GET', 'GET,,PUT', 'get,Put', 'DELETE,PUT,PATCH', None]
    conf_headers = ['Content-Type,X-Custom-Header', 'X-Custom, Content-Type', 'x-custom', 'X-Custom', '*', '', 'X-A,X-A', ' X-A ', 'X-A,', 'Authorization', None]
    acrm_vals = ['PUT', 'put', 'GET', 'POST', 'OPTIONS', 'DELETE', '', ' PUT', 'PUT,GET', '*', 'PATCH', 'X' * 40, None]
    acrh_vals = ['X-Custom, Content-Type', 'x-custom', 'X-Custom', 'X-CUSTOM,CONTENT-TYPE', 'content-type', 'Authorization', 'X-Other', '*', '', ' ', 'X-A,,X-B', None]
    names_m = ['Access-Control-Request-Method', 'access-control-request-method', 'ACCESS-CONTROL-REQUEST-METHOD']
    names_h = ['Access-Control-Request-Headers', 'access-control-request-headers', 'ACCESS-CONTROL-REQUEST-HEADERS']
    for cm in conf_methods:
        for m in acrm_vals:
            ch, h = rng.choice(conf_headers), rng.choice(acrh_vals)
            for sw in ('false', 'true'):
                for ok_, ov in [('configured', CONF[1]), ('unrelated', 'https://evil.example')]:
                    hs = [('Origin', ov)]
                    pre = ([(rng.choice(names_m), m)] if m is not None else []) + ([(rng.choice(names_h), h)] if h is not None else [])
                    if rng.chance(1, 2): pre.reverse()
                    pairs = env_off(','.join(CONF), switch=sw, lists=dict(ALLOW_METHODS=cm, ALLOW_HEADERS=ch, EXPOSE_HEADERS='X-Total', MAX_AGE='600'))
                    get(pairs, 'OPTIONS', hs + pre if rng.chance(2, 3) else pre + hs, 'preflight request against the configuration')
                    if not quick or sw == 'false': get(pairs, rng.choice(['GET', 'POST', 'HEAD', 'PUT']), hs + pre, 'preflight headers on another method')
    for ch in conf_headers:
        for h in acrh_vals:
            for sw in ('false', 'true'):
                pairs = env_off(','.join(CONF), switch=sw, lists=dict(ALLOW_METHODS='GET,PUT', ALLOW_HEADERS=ch, EXPOSE_HEADERS=rng.choice(conf_headers), MAX_AGE='600'))
                pre = ([('Access-Control-Request-Method', 'PUT')] if rng.chance(2, 3) else []) + ([(rng.choice(names_h), h)] if h is not None else [])
                get(pairs, 'OPTIONS', [('Origin', CONF[0])] + pre, 'preflight request against the configuration')
    # presence / order / repetition / near-miss names of the two preflight request headers (echo mode reflects them)
    M, Hh = ('Access-Control-Request-Method', 'PUT'), ('Access-Control-Request-Headers', 'X-A, X-B')
    shapes = [[], [M], [Hh], [M, Hh], [Hh, M], [M, M], [M, ('access-control-request-method', 'DELETE')], [('ACCESS-CONTROL-REQUEST-METHOD', 'DELETE'), M],
              [Hh, ('access-control-request-headers', 'X-C')], [('Access-Control-Request-Headers', ''), Hh], [('Access-Control-Request-Method', '')],
              [('Access-Control-Request-Headers', '')], [('Access-Control-Request-Method', ''), ('Access-Control-Request-Headers', '')],
              [('Access-Control-Request-Methods', 'PUT')], [('Access-Control-Request-Header', 'X-A')], [('Access-Control-Request-Method ', 'PUT')], [(' Access-Control-Request-Headers', 'X-A')],
              [('Access-Control-Request', 'PUT')], [('Access-Control-Request-Method-', 'PUT'), Hh], [('X-Access-Control-Request-Method', 'PUT')], [('Access_Control_Request_Method', 'PUT')],
              [('Access-Control-Allow-Methods', 'PUT'), ('Access-Control-Allow-Headers', 'X-A')], [('Access-Control-Request-Method', 'PUT'), ('Access-Control-Request-Private-Network', 'true')],
              [('Access-Control-Request-Headers', 'X-A'), ('Access-Control-Request-Method', 'PUT'), ('Access-Control-Request-Headers', 'X-B')]]
    for pre in shapes:
        for method in ('OPTIONS', 'GET', 'options'):
            for ok_, ov in [('configured', CONF[1]), ('unrelated', 'https://evil.example'), ('absent', None)]:
                o = [('Origin', ov)] if ov is not None else []
                for hs in (o + pre, pre + o):
                    get(env_off(','.join(CONF), switch='true'), method, hs, 'preflight header presence / order / names')
                    get(env_off(','.join(CONF)), method, hs, 'preflight header presence / order / names')
                allow_all(method, o + pre, 'preflight header presence / order / names')
                proc(cors_of(CONF), method, pre + o, 'preflight header presence / order / names')

    # ---------------------------------------------------------------- G. values of the list settings and of max-age
    list_shapes = ['GET,POST', 'GET, POST', 'GET ,POST', ' GET,POST', 'GET,POST ', 'GET,,POST', ',GET', 'GET,', ',', ' ', '', '\t', 'GET,GET', 'POST,GET', 'get,Post', 'GET;POST', 'GET POST',
                   '*', '*,GET', 'GET\n', 'GET\r\nX-Injected: 1', '"GET"', 'GET,POST,' * 40, 'A' * 300, 'X-\u0130', 'x-\u00e9,X-\u00c9', '\u03a3,\u0391\u03a3', 'X-A , X-B', 'X-A,x-a,X-A', 'true', 'false', '0', 'null']
    for s in list_shapes:
        for var in ('ALLOW_METHODS', 'ALLOW_HEADERS', 'EXPOSE_HEADERS'):
            lists = dict(LISTS); lists[var] = s
            get(env_off(','.join(CONF), lists=lists), 'OPTIONS', [('Origin', CONF[2])] + PREFLIGHT, 'list setting shapes')
        c = cors_of(CONF); items = s.split(',')
        c['methods'], c['headers'], c['expose'] = items, items[::-1], items + items
        proc(c, 'OPTIONS', [('Origin', CONF[2])], 'list setting shapes')
        c = cors_of(CONF); c['methods'], c['headers'], c['expose'] = [s], [s], [s]
        proc(c, 'OPTIONS', [('Origin', CONF[3])], 'list setting shapes')
    ages = ['0', '00', '000', '1', '01', '007', '5', '+5', '-0', '-1', '-86400', '59', '60', '600', '3600', '7199', '7200', '7201', '86399', '86400', '86401', '086400', '604800', '31536000',
            '2147483647', '2147483648', '4294967295', '4294967296', '9223372036854775807', '9223372036854775808', '18446744073709551615', '18446744073709551616',
            '340282366920938463463374607431768211456', '9' * 60, '5.5', '5.0', '1e3', '0x10', '1_000', '1,000', ' 5', '5 ', '5\t', '5\n', '5s', '1h', 'five', '', ' ', '\u0663', '\uff15', '\u00b2',
            'true', 'false', 'null', 'NaN', 'inf', '-', '+', '5;6', '86400, 86400']
    for x in ages:
        for lists in (dict(LISTS, MAX_AGE=x), dict(ALLOW_METHODS=None, ALLOW_HEADERS=None, EXPOSE_HEADERS=None, MAX_AGE=x)):
            get(env_off(','.join(CONF), lists=lists), 'OPTIONS', [('Origin', CONF[0])] + PREFLIGHT, 'max-age values')
        get(env_off(','.join(CONF), lists=dict(LISTS, MAX_AGE=x)), 'GET', [('Origin', CONF[0])], 'max-age values')
        get(env_off(','.join(CONF), lists=dict(LISTS, MAX_AGE=x), switch='true'), 'OPTIONS', [('Origin', CONF[0])] + PREFLIGHT, 'max-age values, switch on')
        get(env_off(','.join(CONF), lists=dict(LISTS, MAX_AGE=x)), 'OPTIONS', [('Origin', CONF[0])], 'max-age values', 'corsdef')
        c = cors_of(CONF); c['maxage'] = x
        proc(c, 'OPTIONS', [('Origin', CONF[0])], 'max-age values')
    # every subset of the four preflight settings present (an unset variable gives NO header, an empty one an empty header)
    keys = ['ALLOW_METHODS', 'ALLOW_HEADERS', 'EXPOSE_HEADERS', 'MAX_AGE']
    for mask in range(16):
        for empty_mask in (0, mask):
            lists = {k: ('' if empty_mask >> j & 1 else LISTS[k]) for j, k in enumerate(keys) if mask >> j & 1}
            for cred in ('true', 'false', None, ''):
                for method in ('OPTIONS', 'GET'):
                    get(env_off(','.join(CONF), cred=cred, lists=lists), method, [('Origin', CONF[3])] + PREFLIGHT, 'subset of settings present')
                    if method == 'OPTIONS': get(env_off(','.join(CONF), cred=cred, lists=lists), method, [('Origin', CONF[3])], 'subset of settings present', 'corsdef')
    # credentials / switch spellings on BOTH readers of the credentials variable, and the switch x credentials relation
    spell = ['true', 'false', 'True', 'TRUE', 'tRUE', 'False', 'FALSE', 't', 'f', 'T', 'yes', 'no', 'on', 'off', 'y', 'n', '1', '0', '', ' ', ' true', 'true ', 'true\n', '\ttrue', 'true,true',
             '"true"', 'truee', 'tru', 'enabled', 'null', '\uff54rue', 'true\u200b', 'TRUE ', 'allow', '*']
    for cv in spell:
        for op in ('corsget', 'corsdef'):
            for method in ('GET', 'OPTIONS'):
                get(env_off(','.join(CONF), cred=cv), method, [('Origin', CONF[1])], 'credentials spelling', op)
        for ov in (CONF[1], 'https://evil.example', None):
            get(env_off(','.join(CONF), switch=cv, cred='false'), 'OPTIONS', ([('Origin', ov)] if ov is not None else []) + PREFLIGHT, 'switch spelling')
            get(env_off(','.join(CONF), switch=cv, cred=None, lists={}), 'GET', [('Origin', ov)] if ov is not None else [], 'switch spelling')

    # ---------------------------------------------------------------- H. method spellings on every entry point
    for m in ['OPTIONS', 'options', 'Options', 'oPTIONS', 'OPTIONS ', ' OPTIONS', 'OPTIONS\n', 'OPTIONS\x00', 'OPTION', 'OPTIONSS', 'OPT', 'O', '', '*', '\u039fPTIONS', 'OPT\u0130ONS', 'OPTI\u039fNS',
              'GET', 'HEAD', 'POST', 'PUT', 'DELETE', 'PATCH', 'TRACE', 'CONNECT', 'PROPFIND', 'get', 'OPTIONS,GET', 'GET OPTIONS', 'OPTIONS GET']:
        for ok_, ov in [('configured', CONF[0]), ('unrelated', 'https://evil.example'), ('absent', None)]:
            hs = ([('Origin', ov)] if ov is not None else []) + PREFLIGHT
            proc(cors_of(CONF), m, hs, 'method spelling on every entry point')
            allow_all(m, hs, 'method spelling on every entry point')
            get(env_off(','.join(CONF)), m, hs, 'method spelling on every entry point', 'corsdef')
            get(env_off(','.join(CONF)), m, hs, 'method spelling on every entry point')
            get(env_off(','.join(CONF), switch='true'), m, hs, 'method spelling on every entry point')

    # ---------------------------------------------------------------- I. the environment: every variable unreadable / misnamed / empty
    full = env_off(','.join(CONF))
    for key, var in V.items():
        for bad in (b'\xff', b'true\xff', b'\xc3(', b'https://foo.example\xfe', b'\xed\xa0\x80', b'\xc0\xaf'):
            pairs = [(n, (bad if n == var else v)) for n, v in full]
            for ov in (CONF[0], 'https://evil.example'):
                for method in ('OPTIONS', 'GET'):
                    get(pairs, method, [('Origin', ov)] + PREFLIGHT, 'non-unicode value of one variable')
                get(pairs, 'OPTIONS', [('Origin', ov)], 'non-unicode value of one variable', 'corsdef')
        for wrong in (var[:-1], var + 'S', var + '_', var.lower(), var.title(), var.replace('RWS_CONFIG_', 'RWS_'), var.replace('_CORS_', '_'), ' ' + var, var + ' ', var.replace('_', '-'),
                      var.replace('ALLOW', 'ALLOWED'), var.replace('ORIGINS', 'ORIGIN').replace('HEADERS', 'HEADER').replace('METHODS', 'METHOD')):
            if wrong == var: continue
            pairs = [((wrong if n == var else n), v) for n, v in full]
            for ov in (CONF[0], 'https://evil.example'):
                get(pairs, 'OPTIONS', [('Origin', ov)] + PREFLIGHT, 'misnamed variable')
                if not quick: get(pairs, 'OPTIONS', [('Origin', ov)], 'misnamed variable', 'corsdef')
        # the right name AFTER / BEFORE a misnamed twin holding the opposite value
        twin = {'ALLOW_ALL': 'true', 'ALLOW_ORIGINS': 'https://evil.example', 'ALLOW_CREDENTIALS': 'false'}.get(key, 'TWIN')
        for wrong in (var + '_', var[:-1], var.lower()):
            for first in (True, False):
                pairs = []
                for n, v in full:
                    if n == var: pairs += [(wrong, twin), (n, v)] if first else [(n, v), (wrong, twin)]
                    else: pairs.append((n, v))
                for ov in (CONF[0], 'https://evil.example'):
                    get(pairs, 'OPTIONS', [('Origin', ov)], 'misnamed variable')
        for val in ('', ' ', ',', '\t', '\n'):
            pairs = [(n, (val if n == var else v)) for n, v in full]
            for ov in (CONF[0], '', val, 'https://evil.example'):
                get(pairs, 'OPTIONS', [('Origin', ov)] + PREFLIGHT, 'blank value of one variable')
    # the default file values and the documented example values of the project's own configuration
    shipped = [dict(ALLOW_ALL='true', ALLOW_ORIGINS='http://127.0.0.1:8888,http://localhost:8888', ALLOW_CREDENTIALS='true', ALLOW_HEADERS='content-type,x-custom-header',
                    ALLOW_METHODS='GET,POST,PUT,DELETE', EXPOSE_HEADERS='content-type,x-custom-header', MAX_AGE='86400'),
               dict(ALLOW_ALL='false', ALLOW_ORIGINS='http://127.0.0.1:8888,http://localhost:8888', ALLOW_CREDENTIALS='true', ALLOW_HEADERS='content-type,x-custom-header',
                    ALLOW_METHODS='GET,POST,PUT,DELETE', EXPOSE_HEADERS='content-type,x-custom-header', MAX_AGE='86400'),
               dict(ALLOW_ALL='false', ALLOW_ORIGINS='https://foo.example,https://bar.example', ALLOW_CREDENTIALS='false', ALLOW_HEADERS='content-type,x-custom-header',
                    ALLOW_METHODS='GET,POST,PUT,DELETE', EXPOSE_HEADERS='content-type,x-custom-header', MAX_AGE='86400')]
    for cfg in shipped:
        pairs = [(V[k], v) for k, v in cfg.items()]
        for ov in ['http://127.0.0.1:8888', 'http://localhost:8888', 'http://localhost', 'http://127.0.0.1', 'http://localhost:88', 'http://127.0.0.1:8888,http://localhost:8888',
                   'https://localhost:8888', 'http://[::1]:8888', 'https://foo.example', 'https://bar.example', 'null', '', None]:
            for method in ('GET', 'OPTIONS', 'POST', 'PUT', 'DELETE'):
                get(pairs, method, ([('Origin', ov)] if ov is not None else []) + (PREFLIGHT if method == 'OPTIONS' else []), 'shipped configuration values')

    # ---------------------------------------------------------------- J. random near misses with digits, schemes and ports in the alphabet (thorough: many)
    n = 600 if quick else 20000
    hosts = ['a', 'b', 'ab', 'a.b', 'b.a', 'a-b', 'A.b', 'localhost', '127.0.0.1', '[::1]', 'xn--a']
    def rorigin():
        s = rng.choice(['http', 'https', 'http', 'https', 'HTTP', 'ws', 'file', ''])
        h = rng.choice(hosts)
        p = rng.choice(['', '', ':80', ':443', ':8080', ':8', ':0', ':08080', ':'])
        t = rng.choice(['', '', '', '', '/', '.', ' '])
        return (s + '://' if s else rng.choice(['', '//'])) + h + p + t
    for _ in range(n):
        entries = [rorigin() for _ in range(rng.range(0, 6))]
        ov = rng.choice(entries) if entries and rng.chance(1, 3) else rorigin()
        method = rng.choice(['GET', 'OPTIONS', 'OPTIONS', 'POST'])
        hs = [(rng.choice(['Origin', 'origin']), ov)] + (PREFLIGHT if rng.chance(1, 2) else [])
        if rng.chance(1, 3): proc(cors_of(entries, cred=rng.chance(1, 2)), method, hs, 'random scheme/host/port origins')
        else: get(env_off(','.join(entries), cred=rng.choice(['true', 'false']), lists=dict(LISTS, MAX_AGE=str(rng.choice([0, 1, 5, 600, 86400, 86401, 2 ** 31, 2 ** 32])))),
                  method, hs, 'random scheme/host/port origins')


# ====================================================================== whole-server observation
def server_plan(rng, tier):
    """[(label, cors environment pairs, [request descriptors])]; a descriptor is dict(method, target, headers, entry, kind, strict)
    strict=True : the request is well formed and its target in origin form - the response must carry exactly the expected grants
    strict=False: an answer built without the request (400 paths) - grants may be absent, but none may appear that the request would not earn"""
    quick = tier == 'quick'
    foo, bar = CONF[0], CONF[1]
    envs = [
        ('off, four origins, credentials', env_off(','.join(CONF))),
        ('off, four origins, no credentials, max-age 0', env_off(','.join(CONF), cred='false', lists=dict(ALLOW_METHODS='GET, POST', ALLOW_HEADERS='X-A', EXPOSE_HEADERS='', MAX_AGE='0'))),
        ('off, no origins configured', env_off('', cred='true')),
        ('off, origins unset, nothing else set', [(V['ALLOW_ALL'], 'false')]),
        ('off, odd entries', env_off('null,*,https://*.example,' + foo + '/', cred=None, lists=dict(ALLOW_METHODS='*', ALLOW_HEADERS='*', MAX_AGE='-1'))),
        ('on, four origins configured', env_off(','.join(CONF), switch='true', cred='false')),
        ('switch unset', env_off(','.join(CONF), switch=None)),
        ('switch False (not a boolean)', env_off(','.join(CONF), switch='False')),
    ]
    if not quick:
        envs += [('off, one origin', env_off(bar, cred='true')), ('switch empty', env_off(','.join(CONF), switch='')),
                 ('off, blank separated', env_off(' '.join(CONF))), ('off, 300 origins', env_off(','.join([f'https://h{i}.example' for i in range(300)] + CONF)))]
    origins = [('configured-first', foo), ('configured-last', CONF[3]), ('configured-port', CONF[2]), ('unrelated', 'https://evil.example'), ('trailing-slash', foo + '/'),
               ('default-port', foo + ':443'), ('case', foo.upper()), ('null', 'null'), ('star', '*'), ('prefix', 'https://foo'), ('two-joined', foo + ',' + bar), ('absent', None)]
    targets = ['/', '/FILE', '/missing', '/style.css', '/script.js', '/favicon.svg', '/form-get-method?a=b', '/file-upload/initiate?name=a&lastModified=1&size=2', '/sub', '/sub/', '/FILE?x=1#f']
    plan = []
    for label, pairs in envs:
        reqs = []
        def r(method, target, headers, entry=None, kind='request', strict=True, body=b'', version='HTTP/1.1'):
            reqs.append(dict(method=method, target=target, headers=headers, entry=entry or rng.choice(['proc', 'preq', 'aexec', 'aexecl']), kind=kind, strict=strict, body=body, version=version))
        for ok_, ov in origins:
            o = [('Origin', ov)] if ov is not None else []
            for method in ['GET', 'HEAD', 'POST', 'OPTIONS', 'PUT', 'DELETE', 'PATCH']:
                for t in targets:
                    if quick and method in ('PUT', 'DELETE', 'PATCH', 'HEAD') and t not in ('/', '/FILE', '/missing'): continue
                    if quick and ok_ not in ('configured-first', 'unrelated', 'absent', 'configured-last') and (t not in ('/', '/FILE', '/missing') or method not in ('GET', 'OPTIONS', 'POST')): continue
                    hs = [('Host', 'localhost:7878')] + o
                    if method == 'OPTIONS':
                        r(method, t, hs + PREFLIGHT, kind='preflight')
                        r(method, t, hs, kind='options without request headers')
                        if t == '/FILE': r(method, t, hs + [('Access-Control-Request-Method', 'GET')], kind='preflight')
                    else:
                        r(method, t, hs)
            # range requests: 206 single, 206 multipart, 416; conditional-looking headers; a body
            for extra in ([('Range', 'bytes=0-0')], [('Range', 'bytes=0-0,1-1')], [('Range', 'bytes=99999-')], [('Range', 'bytes=a-b')], [('Cookie', 'sid=1')], [('Authorization', 'Basic dTpw')],
                          [('Sec-Fetch-Mode', 'no-cors')], [('Sec-Fetch-Site', 'same-origin')], [('Host', 'foo.example')], [('Content-Type', 'application/x-www-form-urlencoded')],
                          [('Access-Control-Allow-Origin', '*')], [('X-Forwarded-Host', 'foo.example')]):
                if quick and (ok_ not in ('configured-first', 'unrelated', 'absent', 'trailing-slash') or rng.chance(1, 3)): continue
                for method, t in (('GET', '/FILE'), ('GET', '/missing'), ('OPTIONS', '/FILE'), ('POST', '/form-url-encoded-enctype-post-method')):
                    r(method, t, extra + o if rng.chance(1, 2) else o + extra, kind='with another header', body=(b'a=b' if method == 'POST' else b''))
            for lower in ([('origin', ov)], [('ORIGIN', ov)]) if ov is not None else []:
                r('GET', '/FILE', lower, kind='origin header name case'); r('OPTIONS', '/', lower + PREFLIGHT, kind='origin header name case')
            if ov is not None:
                r('GET', '/FILE', [('Origin', 'https://first.example'), ('Origin', ov)], kind='repeated origin header')
                r('GET', '/FILE', [('Origin', ov), ('Origin', 'https://second.example')], kind='repeated origin header')
            # answers built without the request: target not in origin form, unparsable request line, version unknown, non-UTF-8 head
            for method, t, ver in (('OPTIONS', '*', 'HTTP/1.1'), ('GET', 'http://foo.example/', 'HTTP/1.1'), ('GET', 'x', 'HTTP/1.1'), ('GET', '/', 'HTTP/9.9'), ('BREW', '/', 'HTTP/1.1'), ('GET', '', 'HTTP/1.1')):
                r(method, t, o + (PREFLIGHT if method == 'OPTIONS' else []), entry=rng.choice(['proc', 'preq']), kind='answer built without the request', strict=False, version=ver)
            r('GET', '/', o + [('X-Bad', b'\xff\xfe')], entry=rng.choice(['proc', 'preq']), kind='answer built without the request', strict=False)
        plan.append((label, pairs, reqs))
    return plan


# ====================================================================== second audit pass (audit/C11/AUDIT2.md): feature-style classes
# What a maintainer of a static server plausibly ADDS on this code path, and the relation of inputs a careless version of it hinges on:
#   a pattern language for the configured entries        - an entry written in it x an Origin that matches under it and is not equal
#   a log line / a cut of a long value                   - multi-byte characters straddling every byte offset
#   proxy awareness, a "same origin" exemption           - a forwarded-host family / the server's own address / the peer's address x an
#                                                          UNCONFIGURED Origin naming the same authority
#   support for a header ignored so far                  - that header x Origin kind x what the target is (file, sidecar, directory, missing)
#   keep-alive, pipelining, an interim answer            - two requests in one read with DIFFERENT Origins; Expect x a body; every answer of the stream
#   a decision / response cache, a remembered origin     - this request x the one before it (same target / Origin / method / cookie, other grants)
#   grants on answers built without the request          - a refused request after a granted one; "Origin:" text in the body or in another header
#   trimming of header values "as the RFC says"          - characters at the edges of the Origin value that are not optional white space
MB_CHARS = ['\u0439', '\u20ac', '\U0001f600']            # 2, 3 and 4 bytes in UTF-8

def straddlers(total):
    """strings of >= `total` bytes made of one multi-byte character each, in every alignment: whatever byte offset a cut is made at
    (beyond the first dozen bytes), in one of the strings of each width it falls inside a character"""
    out = []
    for ch in MB_CHARS:
        w = len(ch.encode())
        for shift in range(w):
            out.append('https://' + 'a' * shift + ch * (total // w + 1) + '.example')
    return out

# (configured entry, Origins that match it under the language the entry seems to be written in - none of them EQUAL to it)
PATTERN_ENTRIES = [
    ('.example', ['https://foo.example', 'https://a.b.example', 'https://example', 'foo.example']),
    ('*.example', ['https://foo.example', 'foo.example', 'https://a.b.example']),
    ('https://*.foo.example', ['https://a.foo.example', 'https://foo.example', 'https://a.b.foo.example', 'https://evil.example/.foo.example']),
    ('https://.foo.example', ['https://a.foo.example', 'https://foo.example']),
    ('http://localhost:*', ['http://localhost:3000', 'http://localhost', 'http://localhost:', 'http://localhost:80']),
    ('http://localhost:[0-9]+', ['http://localhost:3000', 'http://localhost:0']),
    ('http://localhost:\\d+', ['http://localhost:3000']),
    ('http://localhost:3000-3010', ['http://localhost:3005', 'http://localhost:3000']),
    ('^https://foo\\.example$', ['https://foo.example']),
    ('/^https:\\/\\/.*\\.example$/', ['https://foo.example', 'https://evil.example']),
    ('https://.*\\.example', ['https://foo.example', 'https://evil.test/.example']),
    ('https://.+', ['https://foo.example']),
    ('https://foo.example|https://bar.example', ['https://foo.example', 'https://bar.example']),
    ('https://(foo|bar).example', ['https://foo.example', 'https://bar.example']),
    ('https://fo?.example', ['https://foo.example', 'https://fo.example', 'https://f.example']),
    ('https://fo[a-z].example', ['https://foo.example']),
    ('https://foo.example:*', ['https://foo.example:8443', 'https://foo.example']),
    ('*://foo.example', ['https://foo.example', 'http://foo.example', 'ws://foo.example']),
    ('http*://foo.example', ['https://foo.example', 'http://foo.example']),
    ('https?://foo.example', ['https://foo.example', 'http://foo.example']),
    ('https://*', ['https://foo.example', 'https://evil.example']),
    ('**', ['https://foo.example', 'null']),
    ('https://**.example', ['https://a.b.example']),
    ('%', ['https://foo.example']), ('https://%.example', ['https://foo.example']), ('https://foo.example%', ['https://foo.example.evil.test']),
    ('foo.example', ['https://foo.example', 'http://foo.example', 'https://foo.example:443', '//foo.example']),
    ('foo.example:8443', ['https://foo.example:8443', 'http://foo.example:8443']),
    ('//foo.example', ['https://foo.example', 'http://foo.example']),
    ('https://foo.example/*', ['https://foo.example', 'https://foo.example/']),
    ('https://foo.example/api', ['https://foo.example']),
    ('localhost', ['http://localhost', 'http://localhost:3000', 'https://localhost', 'http://127.0.0.1', 'http://[::1]:3000']),
    ('127.0.0.1', ['http://127.0.0.1', 'http://127.0.0.1:7878', 'http://localhost']),
    ('loopback', ['http://localhost:3000', 'http://127.0.0.1:3000']),
    ('192.168.0.0/16', ['http://192.168.1.5', 'http://192.168.1.5:8080']),
    ('http://192.168.0.0/16', ['http://192.168.1.5', 'http://192.168.0.0']),
    ('http://10.*', ['http://10.1.2.3', 'http://10.evil.test']),
    ('http://10.0.0.1-10.0.0.9', ['http://10.0.0.5']),
    ('private', ['http://192.168.1.5', 'http://10.0.0.1']),
    ('any', ['https://foo.example', 'null']), ('all', ['https://foo.example']), ('true', ['https://foo.example']), ('yes', ['https://foo.example']),
    ('self', ['http://127.0.0.1:7878', 'http://localhost:7878']), ("'self'", ['http://127.0.0.1:7878']), ('same-origin', ['http://127.0.0.1:7878', 'http://localhost']),
    ('same-site', ['https://www.foo.example']), ('none', ['none', 'null', '']), ('null', ['', 'NULL', 'file://', 'data:', 'about:blank']),
    ('regex:^https://', ['https://foo.example']), ('re:.*', ['https://foo.example']), ('glob:https://*.example', ['https://foo.example']), ('~^https://', ['https://foo.example']),
    ('!https://evil.example', ['https://foo.example', 'https://evil.example']),
    ('https://foo.example$', ['https://foo.example']), ('^https://foo.example', ['https://foo.example', 'https://foo.example.evil.test']),
    ('https://foo.example;https://bar.example', ['https://foo.example', 'https://bar.example']),
    ('["https://foo.example"]', ['https://foo.example']), ('"https://foo.example"', ['https://foo.example']), ("'https://foo.example'", ['https://foo.example']),
    ('<https://foo.example>', ['https://foo.example']), ('https://foo.example # the shop', ['https://foo.example']), ('origin=https://foo.example', ['https://foo.example']),
    ('$ORIGIN', ['https://foo.example']), ('${ORIGIN}', ['https://foo.example']), ('{origin}', ['https://foo.example']), ('%{HTTP_ORIGIN}', ['https://foo.example']),
]

# families of headers by which a proxy (or the request itself) names the authority the CLIENT addressed: `{h}` host[:port], `{s}` scheme, `{o}` the origin
PROXY_FAMILIES = [
    [('Host', '{h}')], [('Forwarded', 'host={h};proto={s}')], [('Forwarded', 'for=10.0.0.1;proto={s};host="{h}"')], [('X-Forwarded-Host', '{h}'), ('X-Forwarded-Proto', '{s}')],
    [('X-Forwarded-Host', '{h}')], [('X-Forwarded-Server', '{h}')], [('X-Original-Host', '{h}')], [('X-Host', '{h}')], [('X-Real-Host', '{h}')], [('X-Forwarded-Host', 'first.example, {h}')],
    [('X-Forwarded-Origin', '{o}')], [('X-Original-URL', '{o}/x')], [('X-Rewrite-URL', '{o}/x')], [('Referer', '{o}/page')], [('Referer', '{o}')], [('Sec-WebSocket-Origin', '{o}')],
    [('X-Forwarded-Proto', '{s}'), ('Host', '{h}')], [('X-Forwarded-Port', '443'), ('Host', '{h}')], [('Via', '1.1 {h}')], [(':authority', '{h}')], [('Alt-Used', '{h}')],
    [('X-Forwarded-For', '127.0.0.1'), ('Host', '{h}')], [('X-Real-IP', '127.0.0.1'), ('Host', '{h}')], [('CF-Connecting-IP', '127.0.0.1'), ('Host', '{h}')],
]

# request headers the server ignores today and a maintainer may start to honour (conditional answers, negotiated encodings, interim answers,
# connection management, proxies, fetch metadata, method override ...)
FEATURE_HEADERS = [
    [('If-None-Match', '*')], [('If-None-Match', '"abc"')], [('If-None-Match', 'W/"abc", "def"')], [('If-Match', '*')], [('If-Match', '"nope"')],
    [('If-Modified-Since', 'Sun, 06 Nov 2094 08:49:37 GMT')], [('If-Modified-Since', 'Thu, 01 Jan 1970 00:00:00 GMT')], [('If-Modified-Since', 'yesterday')],
    [('If-Unmodified-Since', 'Thu, 01 Jan 1970 00:00:00 GMT')], [('If-Unmodified-Since', 'Sun, 06 Nov 2094 08:49:37 GMT')],
    [('Range', 'bytes=0-3'), ('If-Range', '"abc"')], [('Range', 'bytes=0-3'), ('If-Range', 'Sun, 06 Nov 2094 08:49:37 GMT')], [('If-Range', '"abc"')],
    [('Range', 'bytes=0-3')], [('Range', 'bytes=0-0,2-3')], [('Range', 'bytes=-1')], [('Range', 'bytes=900-')], [('Range', 'lines=1-2')],
    [('Accept-Encoding', 'gzip')], [('Accept-Encoding', 'br, gzip;q=0.5')], [('Accept-Encoding', 'identity;q=0, *;q=0')], [('Accept-Encoding', 'deflate, zstd')], [('Accept-Encoding', '')],
    [('Expect', '100-continue')], [('Expect', '100-Continue')], [('Expect', 'nonsense')],
    [('Connection', 'keep-alive')], [('Connection', 'close')], [('Connection', 'keep-alive'), ('Keep-Alive', 'timeout=5, max=100')], [('Proxy-Connection', 'keep-alive')],
    [('Connection', 'Upgrade'), ('Upgrade', 'websocket'), ('Sec-WebSocket-Key', 'dGhlIHNhbXBsZSBub25jZQ=='), ('Sec-WebSocket-Version', '13')],
    [('Connection', 'Upgrade, HTTP2-Settings'), ('Upgrade', 'h2c'), ('HTTP2-Settings', 'AAMAAABkAAQAAP__')], [('Upgrade', 'TLS/1.0')], [('Upgrade-Insecure-Requests', '1')],
    [('TE', 'trailers')], [('TE', 'gzip')], [('Transfer-Encoding', 'chunked')], [('Transfer-Encoding', 'gzip, chunked')], [('Content-Encoding', 'gzip')], [('Trailer', 'Origin')],
    [('Forwarded', 'for=1.2.3.4;host=foo.example;proto=https')], [('X-Forwarded-For', '1.2.3.4'), ('X-Forwarded-Proto', 'https'), ('X-Forwarded-Host', 'foo.example')], [('Via', '1.1 proxy')], [('Max-Forwards', '0')],
    [('Prefer', 'return=minimal')], [('Prefer', 'respond-async, wait=0')], [('Prefer', 'safe')],
    [('Cookie', 'sid=1')], [('Cookie', 'origin=https://foo.example')], [('Authorization', 'Bearer x')], [('Authorization', 'Basic dTpw')], [('Proxy-Authorization', 'Basic dTpw')],
    [('Accept', 'text/html')], [('Accept', 'application/json')], [('Accept', 'text/event-stream')], [('Accept', 'image/webp,*/*;q=0.1')], [('Accept-Language', 'de')], [('Accept-Charset', 'utf-8')],
    [('Cache-Control', 'no-cache')], [('Cache-Control', 'only-if-cached')], [('Cache-Control', 'max-age=0')], [('Cache-Control', 'no-store')], [('Pragma', 'no-cache')],
    [('Access-Control-Request-Private-Network', 'true')], [('Access-Control-Request-Local-Network', 'true')], [('Access-Control-Request-Private-Network', 'false')],
    [('Access-Control-Request-Credentials', 'true')], [('Access-Control-Request-Max-Age', '5')],
    [('Sec-Fetch-Mode', 'cors'), ('Sec-Fetch-Site', 'cross-site'), ('Sec-Fetch-Dest', 'empty')], [('Sec-Fetch-Mode', 'no-cors'), ('Sec-Fetch-Dest', 'image')], [('Sec-Fetch-Site', 'same-origin')],
    [('Sec-Fetch-Mode', 'navigate'), ('Sec-Fetch-Dest', 'document'), ('Sec-Fetch-User', '?1')], [('Sec-Fetch-Site', 'none')], [('Sec-Fetch-Mode', 'websocket')], [('Sec-Fetch-Storage-Access', 'active')],
    [('Sec-Purpose', 'prefetch')], [('Purpose', 'prefetch')], [('Service-Worker', 'script')], [('Service-Worker-Navigation-Preload', 'true')], [('Save-Data', 'on')], [('DNT', '1')], [('Sec-GPC', '1')],
    [('X-HTTP-Method-Override', 'OPTIONS')], [('X-HTTP-Method-Override', 'GET')], [('X-Method-Override', 'OPTIONS')], [('X-HTTP-Method', 'DELETE')], [('X-Requested-With', 'XMLHttpRequest')],
    [('Content-Type', 'text/plain')], [('Content-Type', 'application/json')], [('Content-Type', 'multipart/form-data; boundary=x')], [('Content-Length', '0')],
    [('Origin-Agent-Cluster', '?1')], [('Timing-Allow-Origin', '*')], [('Cross-Origin-Resource-Policy', 'same-origin')], [('Vary', 'Origin')], [('ETag', '"x"')], [('Last-Modified', 'Thu, 01 Jan 1970 00:00:00 GMT')],
    [('User-Agent', 'Mozilla/5.0 (compatible; Googlebot/2.1)')], [('User-Agent', '')], [('From', 'bot@crawler.example')], [('Early-Data', '1')], [('Priority', 'u=0, i')], [('Sec-CH-UA', '"x";v="1"')],
]

# file types for which "everybody" sends a blanket grant (fonts, media playlists, modules, manifests ...): the statement knows no such exception
MEDIA_FILES = ['font.woff2', 'font.woff', 'font.ttf', 'font.otf', 'font.eot', 'app.mjs', 'app.js', 'app.js.map', 'app.wasm', 'data.json', 'feed.xml', 'site.webmanifest', 'manifest.json', 'logo.svg', 'logo.png',
               'photo.jpg', 'clip.mp4', 'live.m3u8', 'seg.ts', 'subs.vtt', 'doc.pdf', 'style.css', 'page.html', 'robots.txt', 'openapi.yaml', 'model.glb', 'tiles.pbf', 'noext']

EDGE_CHARS = [' ', '  ', '\t', ' \t', '\u00a0', '\x0b', '\x0c', '\x1c', '\x1f', '\x00', '\u0085', '\u1680', '\u2000', '\u2003', '\u2009', '\u2028', '\u2029', '\u202f', '\u205f', '\u3000', '\ufeff', '\u200b', '\u200e', '\u00ad', '\x7f', '"', "'"]


def codec_cases2(rng, tier, E):
    """second pass, codec level: every line is also compared with the Lean model"""
    quick = tier == 'quick'
    get, proc, allow_all = E.get, E.proc, E.allow_all
    foo, bar, evil = CONF[0], CONF[1], 'https://evil.example'

    # ---------------------------------------------------------------- K. configured entries written in a pattern language
    turn = 0
    for entry, matches in PATTERN_ENTRIES:
        for ov in matches + [entry]:
            for setting in (entry, bar + ',' + entry + ',' + CONF[3]):
                turn += 1
                method = 'OPTIONS' if turn % 2 else 'GET'
                hs = [('Origin', ov)] + (PREFLIGHT if turn % 4 == 1 else [])
                get(env_off(setting, cred=('true' if turn % 3 else None)), method, hs, 'pattern-like configured entry')
                if setting == entry or not quick:
                    proc(cors_of(setting.split(',')), method, hs, 'pattern-like configured entry')
                    get(env_off(setting), method, hs, 'pattern-like configured entry', 'corsdef')
                if not quick: get(env_off(setting, switch='true'), method, hs, 'pattern-like configured entry, switch on (echo)')

    # ---------------------------------------------------------------- L. multi-byte characters straddling every byte offset (a cut for a log line, a length limit)
    for s in straddlers(600 if quick else 5000):
        for method in ('GET', 'OPTIONS'):
            pre = PREFLIGHT if method == 'OPTIONS' else []
            get(env_off(','.join(CONF)), method, [('Origin', s)] + pre, 'multi-byte straddling every offset')                                  # unrelated and long
            get(env_off(foo + ',' + s), method, [('Origin', s)] + pre, 'multi-byte straddling every offset')                                    # configured
            get(env_off(foo + ',' + s), method, [('Origin', s[:-1])] + pre, 'multi-byte straddling every offset')                                # near miss of a long entry
            get(env_off(s, switch='true'), method, [('Origin', s)] + pre, 'multi-byte straddling every offset, switch on (echo)')
        hs = [('Origin', foo), ('Access-Control-Request-Method', s), ('Access-Control-Request-Headers', 'X-' + s)]
        get(env_off(foo, switch='true'), 'OPTIONS', hs, 'multi-byte straddling every offset, switch on (echo)')
        get(env_off(foo), 'OPTIONS', hs, 'multi-byte straddling every offset')
        allow_all('OPTIONS', hs, 'multi-byte straddling every offset, switch on (echo)')
        proc(cors_of([foo, s]), 'OPTIONS', [('Origin', s)], 'multi-byte straddling every offset')
        # (the configured list VALUES are lower-cased by the code; the oracle judges them only inside its trusted pool: names only here)
        get(env_off(foo, lists=dict(ALLOW_METHODS=s, ALLOW_HEADERS='x-a', EXPOSE_HEADERS='x-b', MAX_AGE=s)), 'OPTIONS', [('Origin', foo)], 'multi-byte straddling every offset')
        get(env_off(foo), s[:40], [('Origin', foo)], 'multi-byte straddling every offset')
        get(env_off(foo), 'GET', [('Origin', foo)], 'multi-byte straddling every offset', uri='/' + s)
        get(env_off(foo), 'GET', [('Cookie', s), ('Origin', evil), ('Referer', s)], 'multi-byte straddling every offset')

    # ---------------------------------------------------------------- M. an UNCONFIGURED Origin that names the authority a proxy header / the server's own address / the peer names
    addr = [('RWS_CONFIG_IP', '127.0.0.1'), ('RWS_CONFIG_PORT', '7878')]
    for h, s in [('attacker.example', 'https'), ('shop.example:8443', 'https'), ('localhost:7878', 'http'), ('127.0.0.1:7878', 'http')]:
        o = s + '://' + h
        for fam in PROXY_FAMILIES:
            xs = [(n, v.format(h=h, s=s, o=o)) for n, v in fam]
            for method in ('GET', 'OPTIONS'):
                for before in ((False, True) if not quick else (rng.chance(1, 2),)):
                    hs = (xs + [('Origin', o)]) if before else ([('Origin', o)] + xs)
                    hs = hs + (PREFLIGHT if method == 'OPTIONS' else [])
                    get(env_off(','.join(CONF)) + addr, method, hs, 'unconfigured origin named by a proxy header')
                    if not quick or method == 'GET': get(env_off(','.join(CONF), switch='true') + addr, method, hs, 'origin named by a proxy header, switch on (echo)')
                    if not quick: proc(cors_of(CONF), method, hs, 'unconfigured origin named by a proxy header')
    # NO Origin header, and another header names a CONFIGURED origin (a fallback for the missing header): nothing is earned, whatever the switch says
    for e in (foo, CONF[2], CONF2[1]):
        sc, h = split_origin(e)
        for fam in PROXY_FAMILIES + [[('X-Origin', '{o}')], [('X-Original-Origin', '{o}')], [('Origin-Fallback', '{o}')], [('Access-Control-Allow-Origin', '{o}')], [('Cookie', 'origin={o}')]]:
            xs = [(n, v.format(h=h, s=sc, o=e)) for n, v in fam]
            for method in ('GET', 'OPTIONS'):
                hs = xs + (PREFLIGHT if method == 'OPTIONS' else [])
                get(env_off(','.join(CONF + CONF2)), method, hs, 'no origin header, another header names a configured origin')
                get(env_off(','.join(CONF + CONF2), switch='true'), method, hs, 'no origin header, another header names a configured origin, switch on')
                if method == 'GET' or not quick:
                    proc(cors_of(CONF + CONF2), method, hs, 'no origin header, another header names a configured origin')
                    get(env_off(e), method, hs, 'no origin header, another header names a configured origin', 'corsdef')
    # the server's own address and the peer's address as the Origin: neither is configured, with and without a Host header, address variables set / unset
    own = ['http://127.0.0.1:7878', 'http://localhost:7878', 'https://127.0.0.1:7878', 'http://127.0.0.1', 'http://127.0.0.1:40000', 'http://[::1]:7878', 'http://0.0.0.0:7878',
           'http://127.0.0.1:7878/', 'HTTP://127.0.0.1:7878', 'http://127.1:7878', '127.0.0.1:7878', 'http://rws.local:7878']
    for ov in own:
        for host in (None, '127.0.0.1:7878', 'localhost:7878', 'localhost'):
            for method in ('GET', 'OPTIONS'):
                hs = ([('Host', host)] if host is not None else []) + [('Origin', ov)] + (PREFLIGHT if method == 'OPTIONS' else [])
                for extra in (addr, [('RWS_CONFIG_IP', '0.0.0.0'), ('RWS_CONFIG_PORT', '7878')], []):
                    get(env_off(','.join(CONF)) + extra, method, hs, "origin names the server's own / the peer's address")
                get(addr + env_off(foo, switch='true'), method, hs, "origin names the server's own address, switch on (echo)")
    # own address CONFIGURED: only the exact text earns the grants
    for ov in own:
        get(env_off('http://127.0.0.1:7878,' + foo) + addr, 'OPTIONS', [('Host', '127.0.0.1:7878'), ('Origin', ov)] + PREFLIGHT, "origin names the server's own / the peer's address")

    # ---------------------------------------------------------------- N. request headers the server ignores today (conditional, encodings, interim, connection, proxies, fetch metadata)
    origins = [('configured', bar), ('unrelated', evil), ('absent', None), ('first', foo)] + ([] if quick else [('near', bar + '/'), ('null', 'null')])
    for xs in FEATURE_HEADERS:
        for ok_, ov in origins:
            for method in ('GET', 'OPTIONS', 'HEAD', 'POST'):
                if quick and method in ('HEAD', 'POST') and rng.chance(2, 3): continue
                o = [('Origin', ov)] if ov is not None else []
                hs = (xs + o) if rng.chance(1, 2) else (o + xs)
                hs = hs + (PREFLIGHT if method == 'OPTIONS' and rng.chance(1, 2) else [])
                body = b'3\r\nabc\r\n0\r\n\r\n' if any(n == 'Transfer-Encoding' for n, _ in xs) else (b'a=b' if method == 'POST' else b'')
                sw = 'true' if rng.chance(1, 3) else 'false'
                get(env_off(','.join(CONF), switch=sw, cred=rng.choice(['true', 'true', 'false', None])), method, hs, 'feature header (ignored today)' + (', switch on (echo)' if sw == 'true' else ''), body=body)
                if not quick:
                    proc(cors_of(CONF), method, hs, 'feature header (ignored today)', body=body)
                    allow_all(method, hs, 'feature header (ignored today), switch on (echo)', body=body)


# ---------------------------------------------------------------------- second pass, whole responses as a STREAM
def _raw(method, target, headers, body=b'', version='HTTP/1.1'):
    out = f'{method} {target} {version}\r\n'.encode('utf-8')
    for n, v in headers:
        out += (n.encode('utf-8') if isinstance(n, str) else n) + b': ' + (v.encode('utf-8') if isinstance(v, str) else v) + b'\r\n'
    return out + b'\r\n' + body

def feature_plan(rng, tier):
    """[(label, cors environment pairs, [descriptor])]; one harness process each, the requests in the order given (histories matter).
    descriptor: dict(raw=bytes, entry=, kind=, alloc=, ws=, target=, reqs=[(method, headers, strict)])
        reqs: the request(s) the bytes hold, in order; answer number k of the stream is judged against request number k
        strict=True  exactly the grants the request earns;  strict=False  at most those (an answer built without the request, an interim answer,
        a request whose Origin value the parser may read in two ways)"""
    quick = tier == 'quick'
    foo, bar, evil = CONF[0], CONF[1], 'https://evil.example'
    OFF = env_off(','.join(CONF))
    ON = env_off(','.join(CONF), switch='true', cred='false')
    ENTRIES = ['proc', 'preq', 'aexec', 'aexecl']
    FILE = '/file.txt'
    targets = [FILE, '/file.txt.gz', '/missing', '/sub', '/sub/', '/page', '/', '/style.css', '/data.json', '/empty.txt']

    def one(method, target, headers, kind, strict=True, body=b'', version='HTTP/1.1', entry=None, alloc=10000, ws='all', raw=None, flush='ok', app='real'):
        return dict(raw=_raw(method, target, headers, body, version) if raw is None else raw, entry=entry or rng.choice(ENTRIES), kind=kind, alloc=alloc, ws=ws, target=target,
                    flush=flush, app=app, reqs=[(method, list(headers), strict)])

    def feature_block(pairs):
        reqs = []
        origins = [('configured', foo), ('unrelated', evil), ('absent', None)] + ([] if quick else [('configured-last', CONF[3]), ('near', foo + '/')])
        echo = dict(pairs).get(V['ALLOW_ALL']) != 'false'
        # --- headers ignored today x what the target is x Origin kind (quick, echo mode: an unrelated Origin earns what a configured one earns - every other header gets one of the two)
        for i, xs in enumerate(FEATURE_HEADERS):
            for j, (ok_, ov) in enumerate(origins):
                if quick and echo and j == (i % 2): continue
                combos = [(m, t, None) for m in ('GET', 'HEAD', 'OPTIONS', 'POST') for t in targets]
                if not quick: combos = [('GET', FILE, e) for e in ENTRIES] + [(m, rng.choice(targets), None) for m in ('GET', 'HEAD', 'OPTIONS', 'POST') for _ in range(3)]
                if quick:
                    # the plain cases of every header (GET and OPTIONS of the existing file; POST when the header is about a body) through an entry point that
                    # rotates with the header and the Origin kind: two neighbouring Origin kinds always cover one of the two current and one of the two legacy
                    # entry points; then a random combination of method and target
                    bodied = any(n in ('Expect', 'Transfer-Encoding', 'Content-Encoding', 'Content-Type', 'Content-Length', 'Trailer') for n, _ in xs)
                    rot = i + j + (1 if echo and i % 2 else 0)      # echo mode: the kind that is kept goes through the other pair of entry points than the configured Origin does in list mode
                    combos = [('GET', FILE, ENTRIES[rot % 4]), ('OPTIONS', FILE, ENTRIES[(rot + 2) % 4])] + ([('POST', FILE, ENTRIES[(rot + 1) % 4])] if bodied else []) \
                             + ([rng.choice(combos)] if rng.chance(1, 3) else [])
                for method, t, ent in combos:
                    o = [('Origin', ov)] if ov is not None else []
                    hs = [('Host', 'localhost:7878')] + ((xs + o) if rng.chance(1, 2) else (o + xs)) + (PREFLIGHT if method == 'OPTIONS' and (ent is not None or rng.chance(1, 2)) else [])
                    body = b'3\r\nabc\r\n0\r\n\r\n' if any(n == 'Transfer-Encoding' for n, _ in xs) else (b'a=b' if method == 'POST' else b'')
                    ws = rng.choice(['all', 'all', 'all', 'c:64', 'c:1000', 's:17.300'])
                    e = ent or rng.choice(ENTRIES)
                    reqs.append(one(method, t, hs, 'feature header (ignored today)', body=body, entry=e, ws=ws if e in ('proc', 'preq') else 'all'))
        # --- what the target IS: file types that "need" a blanket grant, directories that sound public / private, queries that ask for a grant
        paths = ['/assets/' + f for f in MEDIA_FILES] + ['/api/items.json', '/public/file.txt', '/private/file.txt', '/static/app.js', '/.well-known/security.txt', '/cdn/lib.js',
                 '/file.txt?cors=1', '/file.txt?origin=' + foo, '/file.txt?callback=cb', '/file.txt?access-control-allow-origin=*', '/data.json?jsonp=cb', '/file.txt#' + foo]
        for t in paths:
            for ok_, ov in [('configured', foo), ('unrelated', evil), ('absent', None)]:
                for method in (('GET', 'OPTIONS', 'HEAD') if not quick else ['GET'] + ([rng.choice(['OPTIONS', 'HEAD'])] if rng.chance(1, 3) else [])):
                    o = [('Origin', ov)] if ov is not None else []
                    reqs.append(one(method, t, [('Host', 'localhost:7878')] + o + (PREFLIGHT if method == 'OPTIONS' else []), 'file type / directory / query of the target'))
        # --- NO Origin header, and another header names a CONFIGURED origin (a fallback for the missing header): nothing is earned, whatever the switch says
        for e in (foo, CONF[2]):
            sc, h = split_origin(e)
            for fam in PROXY_FAMILIES:
                xs = [(n, v.format(h=h, s=sc, o=e)) for n, v in fam if not n.startswith(':')]
                if not xs: continue
                method = rng.choice(['GET', 'GET', 'OPTIONS', 'POST'])
                reqs.append(one(method, rng.choice([FILE, '/', '/missing']), xs + (PREFLIGHT if method == 'OPTIONS' else []), 'no origin header, another header names a configured origin'))
        # --- an answer too large for one piece (a server that streams writes the head first), and transports that fail after the request was sent
        for ok_, ov in origins:
            o = [('Origin', ov)] if ov is not None else []
            for method, xs, ws in (('GET', [], 'all'), ('GET', [], 'c:4096'), ('GET', [('Range', 'bytes=0-69999')], 's:100.65536'), ('HEAD', [], 'all'), ('OPTIONS', PREFLIGHT, 'c:50')):
                reqs.append(one(method, '/big.bin', [('Host', 'localhost:7878')] + o + xs, 'large answer', entry=rng.choice(['proc', 'preq']), ws=ws))
            for ws, flush in (('e:0', 'ok'), ('e:1', 'ok'), ('all', 'e'), ('c:10', 'e'), ('s:0.0', 'ok')):
                method = rng.choice(['GET', 'OPTIONS'])
                reqs.append(one(method, rng.choice([FILE, '/missing']), o + (PREFLIGHT if method == 'OPTIONS' else []), 'transport fails after the request was sent', entry=rng.choice(['proc', 'preq']), ws=ws, flush=flush))
            # the application refuses / answers with a response of its own: the server's answer is built without the request (at most what it earns)
            for app in ('err:' + 'oops'.encode().hex(), 'err:' + ('Origin: ' + foo).encode().hex(), 'okempty'):
                method = rng.choice(['GET', 'OPTIONS', 'POST'])
                reqs.append(one(method, FILE, o + (PREFLIGHT if method == 'OPTIONS' else []), 'application error / own response', strict=False, entry='proc', app=app))
        # --- an unconfigured Origin named by a proxy header family; the server's own / the peer's address
        for h, s in [('attacker.example', 'https'), ('127.0.0.1:7878', 'http')] + ([] if quick else [('shop.example:8443', 'https'), ('localhost:7878', 'http')]):
            o = s + '://' + h
            for fam in PROXY_FAMILIES:
                xs = [(n, v.format(h=h, s=s, o=o)) for n, v in fam if not n.startswith(':')]
                if not xs: continue
                method = rng.choice(['GET', 'OPTIONS'])
                hs = (xs + [('Origin', o)]) if rng.chance(1, 2) else ([('Origin', o)] + xs)
                reqs.append(one(method, rng.choice([FILE, '/', '/missing']), hs + (PREFLIGHT if method == 'OPTIONS' else []), 'unconfigured origin named by a proxy header'))
        for ov in ['http://127.0.0.1:7878', 'http://localhost:7878', 'https://127.0.0.1:7878', 'http://127.0.0.1', 'http://127.0.0.1:40000', 'http://[::1]:7878', 'http://0.0.0.0:7878', '127.0.0.1:7878']:
            for host in (None, '127.0.0.1:7878', 'localhost'):
                method = rng.choice(['GET', 'OPTIONS', 'POST'])
                hs = ([('Host', host)] if host is not None else []) + [('Origin', ov)] + (PREFLIGHT if method == 'OPTIONS' else [])
                reqs.append(one(method, rng.choice([FILE, '/']), hs, "origin names the server's own / the peer's address"))
        # --- multi-byte characters straddling every offset: Origin, requested method / headers, target, cookie
        for s in straddlers(600 if quick else 4000):
            for method in ('GET', 'OPTIONS'):
                reqs.append(one(method, FILE, [('Origin', s)] + (PREFLIGHT if method == 'OPTIONS' else []), 'multi-byte straddling every offset'))
            reqs.append(one('OPTIONS', '/', [('Origin', foo), ('Access-Control-Request-Method', s[:300]), ('Access-Control-Request-Headers', 'X-' + s)], 'multi-byte straddling every offset'))
            reqs.append(one('GET', '/' + s[8:300], [('Origin', foo), ('Cookie', s)], 'multi-byte straddling every offset'))
        # --- characters at the edges of the Origin value.  Optional white space (blank, tab) is not part of a field value (RFC 9110): the parser may
        #     or may not strip it, so the request earns AT MOST what the stripped value earns; any other character belongs to the value
        for ch in EDGE_CHARS:
            for base in (foo, evil):
                for where in ('after', 'before'):
                    val = (base + ch) if where == 'after' else (ch + base)
                    ows = ch.strip(' \t') == ''
                    if ch == '\x00' and where == 'after': continue          # the request buffer is NUL padded: a NUL at the end of a line is the parser's subject
                    method = rng.choice(['GET', 'OPTIONS'])
                    pre = PREFLIGHT if method == 'OPTIONS' else []
                    raw = f'{method} {FILE} HTTP/1.1\r\nHost: localhost\r\n'.encode() + b'Origin: ' + val.encode('utf-8') + b'\r\n' + b''.join(f'{n}: {v}\r\n'.encode() for n, v in pre) + b'\r\n'
                    seen = [('Host', 'localhost'), ('Origin', base if ows else val)] + pre
                    d = one(method, FILE, seen, 'character at the edge of the origin value', strict=not ows, raw=raw)
                    reqs.append(d)
        for line, seen in [(b'Origin:' + foo.encode(), foo), (b'Origin:\t' + foo.encode(), foo), (b'Origin : ' + foo.encode(), foo), (b'Origin:  ' + foo.encode(), foo),
                           (b'Origin: ' + foo.encode() + b' \t ', foo), (b' Origin: ' + foo.encode(), foo), (b'Origin: ' + evil.encode() + b'\r\n ' + foo.encode(), None)]:
            for method in ('GET', 'OPTIONS'):
                raw = f'{method} {FILE} HTTP/1.1\r\nHost: localhost\r\n'.encode() + line + b'\r\n\r\n'
                echo = dict(pairs).get(V['ALLOW_ALL']) != 'false'
                if seen is None and echo: seen = evil                      # a folded line: its first line holds an origin of its own, echo mode may reflect that one
                hs = [('Host', 'localhost')] + ([('Origin', seen)] if seen is not None else [])
                reqs.append(one(method, FILE, hs, 'character at the edge of the origin value', strict=False, raw=raw))
        # --- "Origin:" text that is NOT the Origin header: in the body, in another header's name or value, after the end of the head
        for method, t, body in (('POST', '/form-url-encoded-enctype-post-method', b'Origin: ' + foo.encode() + b'\r\n\r\n'), ('POST', FILE, b'\r\nOrigin: ' + foo.encode() + b'\r\n'),
                                ('GET', FILE, b'GET / HTTP/1.1\r\nOrigin: ' + foo.encode() + b'\r\n\r\n'), ('OPTIONS', FILE, b'Origin: ' + foo.encode()),
                                ('POST', FILE, b'3\r\nabc\r\n0\r\nOrigin: ' + foo.encode() + b'\r\n\r\n')):
            for o in ([], [('Origin', evil)]):
                for xs in ([], [('X-Origin', foo)], [('Sec-WebSocket-Origin', foo)], [('X-Note', 'Origin: ' + foo)], [('Origin-Isolation', foo)], [('X-Forwarded-Origin', foo)]):
                    framing = [('Transfer-Encoding', 'chunked'), ('Trailer', 'Origin')] if body.startswith(b'3\r\n') else [('Content-Length', str(len(body)))]
                    reqs.append(one(method, t, xs + o + framing + (PREFLIGHT if method == 'OPTIONS' else []), 'origin text outside the origin header', body=body))
        rng.shuffle(reqs)
        return reqs

    def history_block(pairs):
        """ordered: what was asked BEFORE must not show in an answer"""
        reqs = []
        def R(method, t, hs, kind='history', **kw):
            reqs.append(one(method, t, hs + (PREFLIGHT if method == 'OPTIONS' and kw.pop('pre', True) else []), kind, **kw))
        def refused(hs, earn, which):
            """a request that is answered without being looked at: it may carry no grants, never those of another request"""
            raws = {'target': _raw('GET', 'x', hs), 'line': _raw('BREW', '/', hs), 'version': _raw('GET', '/', hs, version='HTTP/9.9'), 'star': _raw('OPTIONS', '*', hs + PREFLIGHT),
                    'utf8': b'GET /\xff HTTP/1.1\r\n' + _raw('GET', '/', hs).split(b'\r\n', 1)[1], 'empty': b'', 'blank': b'\r\n\r\n', 'nul': b'\x00' * 16}
            method = 'OPTIONS' if which == 'star' else 'GET'
            reqs.append(dict(raw=raws[which], entry=rng.choice(['proc', 'preq']), kind='history: refused request after another', alloc=10000, ws='all', target='-', flush='ok', app='real',
                             reqs=[(method, earn + (PREFLIGHT if which == 'star' else []), False)]))
        O = lambda v: [('Origin', v)]
        for t in [FILE, '/missing', '/', '/style.css', '/sub/'] if not quick else [FILE, '/missing', '/']:
            for ent in (ENTRIES if not quick else [rng.choice(ENTRIES)]):
                seq = [('GET', O(foo)), ('GET', []), ('GET', O(evil)), ('GET', O(foo)), ('OPTIONS', O(foo)), ('OPTIONS', O(evil)), ('OPTIONS', []), ('GET', O(foo.upper())), ('GET', O(bar)),
                       ('HEAD', O(foo)), ('HEAD', O(evil)), ('GET', O(foo) + [('Cookie', 'sid=1')]), ('GET', O(evil) + [('Cookie', 'sid=1')]), ('GET', [('Cookie', 'sid=1')]),
                       ('GET', O(foo) + [('Authorization', 'Bearer t')]), ('GET', O(foo + '.evil.example') + [('Authorization', 'Bearer t')]), ('POST', O(foo)), ('POST', O('null')), ('GET', O(foo + '/')), ('GET', O(foo))]
                for method, hs in seq: R(method, t, [('Host', 'localhost:7878')] + hs, entry=ent)
        # the same Origin and method, other preflight request headers (echo mode reflects them; list mode must not)
        for pre in ([('Access-Control-Request-Method', 'PUT')], [('Access-Control-Request-Method', 'DELETE')], [('Access-Control-Request-Headers', 'X-A')], [('Access-Control-Request-Headers', 'X-B')], [],
                    [('Access-Control-Request-Method', 'PUT'), ('Access-Control-Request-Headers', 'X-A')], [('Access-Control-Request-Method', 'PUT')]):
            R('OPTIONS', FILE, O(foo) + pre, pre=False); R('OPTIONS', FILE, O(evil) + pre, pre=False)
        # a refused request after a granted one, and a granted one after a refused one
        for which in ('target', 'line', 'version', 'star', 'utf8', 'empty', 'blank', 'nul'):
            for first, then in ((O(foo), []), (O(foo), O(evil)), (O(bar), O(foo)), ([], O(foo))):
                R(rng.choice(['GET', 'OPTIONS']), FILE, first, entry=rng.choice(['proc', 'preq']))
                refused(then, then, which)
                R('GET', FILE, then)
        # many different origins, then the first ones again (a bounded cache, an eviction)
        n = 100 if quick else 1500
        flood = [f'https://h{i}.example' for i in range(n)]
        R('GET', FILE, O(foo)); R('GET', FILE, O(evil))
        for i, ov in enumerate(flood): R('GET' if i % 3 else 'OPTIONS', FILE, O(ov))
        for ov in (foo, evil, flood[0], foo.upper(), None, foo):
            R('GET', FILE, O(ov) if ov is not None else []); R('OPTIONS', FILE, O(ov) if ov is not None else [])
        return reqs

    def stream_block(pairs):
        """several requests in one read; interim answers: EVERY answer the peer receives is judged against the request it answers"""
        reqs = []
        for o1, o2 in [(foo, evil), (evil, foo), (None, foo), (foo, None), (foo, bar), (foo, foo), (foo, foo + '/')]:
            for m1, m2 in [('GET', 'GET'), ('OPTIONS', 'GET'), ('GET', 'OPTIONS'), ('HEAD', 'GET'), ('POST', 'GET'), ('OPTIONS', 'OPTIONS')]:
                for conn, ver in [(None, 'HTTP/1.1'), ('keep-alive', 'HTTP/1.1'), ('keep-alive', 'HTTP/1.0'), ('close', 'HTTP/1.1')]:
                    if quick and rng.chance(1, 2): continue
                    def hs(o, m):
                        return [('Host', 'localhost:7878')] + ([('Origin', o)] if o is not None else []) + ([('Connection', conn)] if conn else []) + (PREFLIGHT if m == 'OPTIONS' else [])
                    b1 = b'a=b' if m1 == 'POST' else b''
                    h1 = hs(o1, m1) + ([('Content-Length', '3')] if m1 == 'POST' else [])
                    t1 = '/form-url-encoded-enctype-post-method' if m1 == 'POST' else FILE
                    raw = _raw(m1, t1, h1, b1, ver) + _raw(m2, rng.choice([FILE, '/missing', '/']), hs(o2, m2), b'', ver)
                    reqs.append(dict(raw=raw, entry=rng.choice(['proc', 'preq']), kind='two requests in one read', alloc=10000, ws=rng.choice(['all', 'all', 'c:200']), target=t1, flush='ok', app='real',
                                     reqs=[(m1, h1, True), (m2, hs(o2, m2), True)]))
        for ov in (foo, evil, None, bar):
            for exp in (('100-continue', '100-Continue') if not quick else ('100-continue',)):
                for method, t, body in (('POST', '/form-url-encoded-enctype-post-method', b'a=b'), ('PUT', FILE, b'xyz'), ('POST', FILE, b''), ('OPTIONS', FILE, b''), ('GET', FILE, b'')):
                    for has_len in (True, False):
                        hs = [('Host', 'localhost:7878')] + ([('Origin', ov)] if ov is not None else []) + [('Expect', exp)] + ([('Content-Length', str(len(body)))] if has_len else []) \
                             + (PREFLIGHT if method == 'OPTIONS' else [])
                        if rng.chance(1, 2): hs = hs[:1] + hs[1:][::-1]
                        # the body sent at once, and held back (the client waits for the interim answer)
                        for sent in (body, b'') if body else (b'',):
                            reqs.append(one(method, t, hs, 'expect: 100-continue', body=sent, entry=rng.choice(['proc', 'preq']), ws=rng.choice(['all', 'c:100'])))
        return reqs

    def truncated_block(pairs):
        """KNOWN on the unchanged code (reported by the second audit, not in the default run: VERIF_C11_TRUNCATED=1): the server parses what ONE read of
        request-allocation-size bytes delivered; an Origin header cut by the end of that buffer is taken for the whole header"""
        reqs = []
        for alloc in (200, 1000, 10000):
            for base, rest in ((foo, '.evil.example'), (foo, ':8443'), (CONF[2][:-1], '0'), ('https://evil.example', '.x')):
                head, tail = b'GET /file.txt?pad=', b' HTTP/1.1\r\nHost: localhost\r\nOrigin: ' + base.encode()
                for extra in (0, 1, -1):
                    raw = head + b'a' * (alloc - len(head) - len(tail) + extra) + tail + rest.encode() + b'\r\n\r\n'
                    reqs.append(dict(raw=raw, entry='proc', kind='origin header cut by the end of the request buffer', alloc=alloc, ws='all', target='/file.txt', flush='ok', app='real',
                                     reqs=[('GET', [('Host', 'localhost'), ('Origin', base + rest)], False)]))
        return reqs

    def halves(label, pairs):
        # the shuffled block in three processes (model runs side by side; no request of it depends on another)
        reqs = feature_block(pairs)
        n = (len(reqs) + 2) // 3
        return [(label + ' (%d)' % (k + 1), pairs, reqs[k * n:(k + 1) * n]) for k in range(3)]
    plan = halves('off: features', OFF) + halves('on: features', ON) + \
           [('off: histories', OFF, history_block(OFF)), ('on: histories', ON, history_block(ON)), ('off: streams', OFF, stream_block(OFF)), ('on: streams', ON, stream_block(ON))]
    import os
    if os.environ.get('VERIF_C11_TRUNCATED') == '1':
        plan += [('off: truncated', OFF, truncated_block(OFF)), ('on: truncated', ON, truncated_block(ON))]
    if not quick:
        NOCRED = env_off(','.join(CONF), cred='', lists=dict(ALLOW_METHODS='GET', ALLOW_HEADERS='', EXPOSE_HEADERS='', MAX_AGE='0'))
        UNSET = env_off(','.join(CONF), switch=None)
        OWN = env_off('http://127.0.0.1:7878,' + foo)
        plan += halves('off, shipped blanks: features', NOCRED) + halves('switch unset: features', UNSET) + halves('off, own address configured: features', OWN) + \
                [('off, shipped blanks: histories', NOCRED, history_block(NOCRED) + stream_block(NOCRED)), ('switch unset: histories', UNSET, history_block(UNSET) + stream_block(UNSET))]
    return plan
