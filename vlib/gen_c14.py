"""Input classes of C14 (request parsing / round trip / header lookup) that the seeded random grammar of props/c14.py does
not reach: sizes around buffers, multi-byte characters across offsets, header counts around powers of two, the header names the
source itself knows with values that mean something (Content-Length in every relation to the body, Transfer-Encoding, Expect,
Connection ...), target shapes, white space at the edge of names / values / bodies, repeated headers, requests a stricter parser
would refuse although their request line is well formed, token near-misses of every method and version, lookups over long lists
and near-names.  Every function is a deterministic function of the PRNG it is given.

A generator yields tuples
    ('rt',     (method, target, version, headers, body), also_gen)   well-formed request: parse(generate(r)) == r is demanded
    ('parse',  bytes, origin)                                          raw message: accept / reject + request-line fields
    ('line',   bytes, origin)                                          request line given to the line reader directly
    ('hdr',    (name, value, eol))                                     header line reader
    ('lookup', (headers, wanted))                                      header lookup
    ('rtm',    (method, target, version, headers, body))               request outside the quantifier: model comparison only
The well-formed requests stay inside the quantifier of the property: targets without white space, names without ': ' and without
CR/LF, values without CR/LF and without control characters other than HT, bodies of arbitrary bytes."""
import os, re
from vlib import common as C
from vlib import limits

METHODS = ['GET', 'HEAD', 'POST', 'PUT', 'DELETE', 'CONNECT', 'OPTIONS', 'TRACE', 'PATCH']
VERSIONS = ['HTTP/0.9', 'HTTP/1.0', 'HTTP/1.1', 'HTTP/2.0']

# White_Space scalars that may stand inside / at the edge of a header name or value of a well-formed request (no CR, LF; VT and
# FF are control characters and stay out of the round-trip demand)
EDGE_WS = [0x09, 0x20, 0x85, 0xA0, 0x1680] + list(range(0x2000, 0x200B)) + [0x2028, 0x2029, 0x202F, 0x205F, 0x3000]
# printable neighbours of white space in the tables and other scalars a trim / strip / fold may mistake
EDGE_NOT_WS = [0x21, 0xA1, 0x167F, 0x1681, 0x1FFF, 0x2027, 0x2030, 0x205E, 0x2FFF, 0x3001, 0x3A, 0x3D, 0x2C, 0x3B, 0x22, 0x27, 0x5C]

WS_ALL = set([0x09, 0x0A, 0x0B, 0x0C, 0x0D, 0x20, 0x85, 0xA0, 0x1680] + list(range(0x2000, 0x200B)) + [0x2028, 0x2029, 0x202F, 0x205F, 0x3000])

SIZES_QUICK = [63, 64, 65, 127, 128, 129, 255, 256, 257, 1023, 1024, 1025, 4095, 4096, 4097, 8191, 8192, 8193, 9999, 10000, 10001,
               16384, 65535, 65536, 65537]
SIZES_MORE = [511, 512, 513, 2047, 2048, 2049, 16383, 16385, 32767, 32768, 32769, 131072, 1 << 20, (1 << 20) + 1]
OFFSETS_QUICK = [64, 256, 1024, 8192, 10000]
OFFSETS_MORE = [128, 512, 4096, 16384, 65536]
COUNTS_QUICK = [51, 63, 64, 65, 99, 100, 101, 127, 128, 129, 255, 256, 257, 511, 512, 513, 1023, 1024, 1025]
COUNTS_MORE = [2047, 2048, 2049, 4095, 4096, 4097, 9999, 10000, 10001, 32767, 32768, 65535, 65536, 65537]
MULTI = ['é', '€', '😀']          # 2, 3 and 4 bytes

_HDR_CONSTS = None
def header_constants():
    """every header name the source declares as a constant of `Header` (falls back to the header-shaped literals)"""
    global _HDR_CONSTS
    if _HDR_CONSTS is None:
        names = []
        try:
            text = open(os.path.join(C.RWS_SRC, 'header', 'mod.rs'), encoding='utf-8', errors='ignore').read()
            for m in re.finditer(r'pub const _[A-Z0-9_]+\s*:\s*&\'static str\s*=\s*"([A-Za-z][A-Za-z0-9-]*)"\s*;', text):
                if '_VALUE_' in m.group(0): continue
                names.append(m.group(1))
        except OSError:
            pass
        if len(names) < 20:
            from vlib import reqgen
            names = list(reqgen.vocab_headers())
        names += ['Connection', 'Keep-Alive', 'HTTP2-Settings', 'Content-MD5', 'X-Forwarded-For', 'X-Forwarded-Host', 'X-HTTP-Method-Override',
                  'Pragma', 'DNT', 'Priority', 'Sec-WebSocket-Key']
        seen, out = set(), []
        for n in names:
            if n not in seen: seen.add(n); out.append(n)
        _HDR_CONSTS = out
    return _HDR_CONSTS

GENERIC_VALUES = ['LocalHost:8080', 'MiXeD-CaSe', ' lead', 'trail ', ' both ', 'a, b', 'a,b', 'a , b', 'a;q=0.5, b;q=0.1', '"quoted"', 'W/"etag"', 'bytes=0-1',
                  'chunked', 'gzip, deflate, br', '100-continue', 'close', 'keep-alive', 'Upgrade', 'text/HTML; Charset=UTF-8',
                  'multipart/form-data; boundary=xYz', 'k=v; k2=v2', '0', '5', '-1', '18446744073709551616', '*', '*/*', '?1', 'on', 'null',
                  'http://Example.COM:80/Path?Q#F', 'Mon, 01 Jan 2024 00:00:00 GMT', 'Basic dXNlcjpwYXNz', 'a=b; c=d; a=e', 'é', 'x\ty', 'a: b', '', '=', ',', ';']
# one value with everything a per-header normalisation may touch: edge blanks, mixed case, list and parameter separators, quotes
# with an escape, '=', ': ', an empty list member, a non-ASCII letter, a tab
KITCHEN_SINK = ' MiXeD, a;q=0.5 ,"Q\\"x" =b; c: d,, É\tz '
SPECIFIC_VALUES = {
    'Host': ['localhost', 'LocalHost:8080', '[::1]:80', 'a:b:c', 'EXAMPLE.com.', '127.0.0.1:7878', ':80', 'a:', 'é.example', 'a b'],
    'Content-Type': ['multipart/form-data; boundary=----WebKitFormBoundaryAbC', 'Multipart/Form-Data; Boundary="a b"', 'application/x-www-form-urlencoded',
                     'application/json; charset=utf-16', 'text/plain;charset=ISO-8859-1', 'TEXT/PLAIN', 'application/octet-stream'],
    'Transfer-Encoding': ['chunked', 'Chunked', 'gzip, chunked', 'identity', 'chunked, chunked', 'foo'],
    'Content-Encoding': ['gzip', 'br', 'identity', 'deflate, gzip'],
    'Connection': ['close', 'keep-alive', 'Keep-Alive, TE', 'Upgrade, HTTP2-Settings', 'upgrade', 'Content-Length'],
    'Expect': ['100-continue', '100-Continue', '200-ok'],
    'Upgrade': ['h2c', 'websocket', 'HTTP/2.0', 'TLS/1.0, HTTP/1.1'],
    'Range': ['bytes=0-', 'bytes=0-0,-1', 'BYTES=1-2', 'bytes=9-1', 'items=1-2'],
    'Cookie': ['a=b', 'a=b; c=d', 'a=b;c=d', 'A=1; a=2', 'sid="x y"; Path=/'],
    'Origin': ['http://localhost', 'null', 'HTTPS://A.example:443', 'http://a, http://b'],
    'Trailer': ['Content-Length', 'X-Sum'], 'TE': ['trailers', 'trailers, deflate;q=0.5'],
    'Content-Range': ['bytes 0-1/2', 'bytes */2'], 'Content-Disposition': ['form-data; name="a"; filename="b.txt"', 'attachment; filename*=UTF-8\'\'%e2%82%ac'],
}

def spellings(name):
    return [name, name.lower(), name.upper(), name.swapcase(), name.title(), name.replace('-', '_')]

def pick_mv(rng):
    return rng.choice(METHODS), rng.choice(VERSIONS)

def fill(n, salt=0):
    """n ASCII characters with a period that is no power of two (so a cut or a wrapped copy changes the text)"""
    base = 'abcdefghijklmnopqrstuvwxyz0123456789ABCDEFGHIJK'[salt % 7:]
    return (base * (n // len(base) + 1))[:n]

def fill_bytes(n, salt=0):
    pat = bytes((i * 7 + salt) % 251 for i in range(251))
    return (pat * (n // 251 + 1))[:n]

def serialise(m, u, v, hs, body, eol='\r\n', sp=' '):
    out = (m + ' ' + u + ' ' + v + sp + eol).encode()
    for n, val in hs:
        out += (n + ': ' + val + eol).encode()
    return out + eol.encode() + body

# ------------------------------------------------------------------------------------------------ round trip classes
def sizes(rng, quick):
    """one field of every size around the usual buffer limits; a multi-byte character across the usual offsets"""
    szs = SIZES_QUICK if quick else SIZES_QUICK + SIZES_MORE
    for k, L in enumerate(szs):
        m, v = pick_mv(rng)
        big = L > 20000
        yield 'rt', (m, '/' + fill(L - 1, k), v, [('Host', 'h')], b'b'), big is False and k % 5 == 0
        yield 'rt', (m, '/', v, [(fill(L, k + 1), 'v'), ('After', 'x')], b'b'), False
        yield 'rt', (m, '/', v, [('Before', 'y'), ('X-Long', fill(L, k + 2)), ('After', 'x')], b'tail'), False
        yield 'rt', (m, '/', v, [('Host', 'h')] if k % 2 else [], fill_bytes(L, k)), k % 5 == 0
        if quick and big:
            yield 'parse', serialise(m, '/' + fill(L - 1, k), v, [('A', fill(L, k))], fill_bytes(L, k), eol=rng.choice(['\r\n', '\n'])), 'sizes'
            continue
        # header LINE of exactly L bytes (name + ': ' + value + CRLF) and a whole message of exactly L bytes
        if L >= 16:
            yield 'rt', (m, '/', v, [('N', fill(L - 5, k))], b''), False
            head = len(serialise(m, '/x', v, [('P', '')], b''))
            if L > head:
                yield 'rt', (m, '/x', v, [('P', fill((L - head) // 2, k))], fill_bytes(L - head - (L - head) // 2, k)), False
                # what the server hands over: the message, then its zero-initialised buffer up to L bytes
                yield 'rt', (m, '/x', v, [('P', 'q')], b'abc' + bytes(L - head - 4)), False
        yield 'parse', serialise(m, '/' + fill(L - 1, k), v, [('A', fill(L, k))], fill_bytes(L, k), eol=rng.choice(['\r\n', '\n'])), 'sizes'
        yield 'parse', (m + ' /' + fill(L, k) + ' ' + v).encode(), 'sizes'                 # no line end at all
        yield 'parse', (fill(L, k) + ' / ' + v + '\r\n\r\n').encode(), 'sizes'             # long unknown method
        yield 'parse', (m + ' / ' + v + fill(L, k) + '\r\n\r\n').encode(), 'sizes'         # long unknown version
        yield 'line', (m + ' /' + fill(L, k) + ' ' + v).encode(), 'sizes'
        yield 'hdr', (fill(L, k), fill(L, k + 3), rng.choice(['\r\n', '\n', '']))
    offs = OFFSETS_QUICK if quick else OFFSETS_QUICK + OFFSETS_MORE
    for off in offs:
        for ch in MULTI:
            w = len(ch.encode())
            for back in range(0, w + 1):          # the character starts `back` bytes before the offset: before / across / at
                m, v = pick_mv(rng)
                pre = off - back
                s = fill(pre, off) + ch + 'tail' + ch
                yield 'rt', (m, '/', v, [('X-V', s), ('After', ch)], ch.encode()), False
                if quick and back not in (1, w): continue
                yield 'rt', (m, '/' + s[1:], v, [('Host', 'h')], b''), False
                yield 'rt', (m, '/', v, [(s, 'v')], b''), False
                # the same offset counted from the first byte of the message
                head = len((m + ' / ' + v + ' \r\nX-Abs: ').encode())
                if pre > head:
                    yield 'rt', (m, '/', v, [('X-Abs', fill(pre - head, off) + ch + 'z')], b'b'), False
                yield 'parse', (m + ' /' + s + ' ' + v + '\r\nA: ' + s + '\r\n\r\n').encode(), 'multibyte-offset'
                yield 'hdr', (s, s, '\r\n')

def header_counts(rng, quick):
    cnts = COUNTS_QUICK if quick else COUNTS_QUICK + COUNTS_MORE
    for n in cnts:
        m, v = pick_mv(rng)
        hs = [('H%d' % k, 'v%d: %d' % (k, n - k)) for k in range(n)]
        yield 'rt', (m, '/', v, hs, b'body'), False
        if n <= 1100:
            yield 'parse', serialise(m, '/', v, hs, b'x', eol=rng.choice(['\r\n', '\n'])), 'header-count'
            yield 'rt', (m, '/', v, [('Same', 'v')] * n, b''), False
            yield 'lookup', (hs, 'h%d' % (n - 1))
            yield 'lookup', (hs, 'H%d' % (n // 2))
            yield 'lookup', (hs + [('Last', 'x'), ('LAST', 'y')], 'last')
            yield 'lookup', (hs, 'H%d' % n)

def cl_values(n):
    vals = ['0', '1', str(max(n - 1, 0)), str(n), str(n + 1), str(2 * n + 7), '00' + str(max(n - 1, 1)), '+' + str(max(n - 1, 1)), ' ' + str(max(n - 1, 1)),
            str(max(n - 1, 1)) + ' ', '-1', '', 'a', '1, 1', '0x1', '1.0', '1e1']
    return vals

def meaningful_headers(rng, quick):
    """headers a parser may start to act on: framing, coding, connection management - the body and every header must come back"""
    bodies = [b'hello', b'hello world, this body is fifty bytes long, padded...!', b'a=1&b=2', b'\r\nxy', b'\x00\x01\x02\x03\x04\x05\x06\x07', fill_bytes(300, 3)]
    names = ['Content-Length', 'content-length', 'CONTENT-LENGTH', 'Content-length']
    for bi, body in enumerate(bodies):
        for value in cl_values(len(body)) + (limits.numbers() if (bi == 0 and not quick) else ['255', '256', '65535', '65536', '4294967295', '4294967296',
                                             '9223372036854775807', '9223372036854775808', '18446744073709551615', '18446744073709551616'] if bi == 0 else []):
            for ni, name in enumerate(names):
                if quick and ni and (bi + len(value)) % 4 != ni: continue
                m, v = pick_mv(rng)
                k = rng.below(4)
                hs = [(name, value)]
                if k == 1: hs = [('Host', 'h')] + hs
                elif k == 2: hs = hs + [('Host', 'h')]
                elif k == 3: hs = [('Host', 'h')] + hs + [('Accept', '*/*')]
                yield 'rt', (m, '/upload', v, hs, body), False
                if ni == 0:
                    yield 'parse', serialise(m, '/upload', v, hs, body, eol=rng.choice(['\r\n', '\n'])), 'content-length'
        n = len(body)
        # the length twice: equal, different, the true one first / last, in different spellings
        for a, b in [(str(n), str(n)), ('1', str(n)), (str(n), '1'), ('2', '3'), ('0', '1'), ('1', '0'), ('x', '1'), ('1', 'x')]:
            for n1, n2 in [('Content-Length', 'Content-Length'), ('content-length', 'Content-Length'), ('Content-Length', 'content-length')]:
                m, v = pick_mv(rng)
                yield 'rt', (m, '/', v, [(n1, a), ('X', 'y'), (n2, b)], body), False
                yield 'parse', serialise(m, '/', v, [(n1, a), (n2, b)], body), 'content-length-twice'
        # a second message behind the declared length (pipelining): it is part of the bytes that were serialised
        m, v = pick_mv(rng)
        nxt = b'GET /next HTTP/1.1\r\nHost: h\r\n\r\n'
        yield 'rt', (m, '/', v, [('Content-Length', str(n))], body + nxt), True
        yield 'rt', (m, '/', v, [('Content-Length', str(n)), ('Connection', 'keep-alive')], body + nxt + nxt), False
        yield 'rt', (m, '/', v, [('Content-Length', '0')], nxt), False
        yield 'rt', (m, '/', v, [], nxt), False
    chunked = b'5\r\nhello\r\n6\r\n world\r\n0\r\n\r\n'
    for te in SPECIFIC_VALUES['Transfer-Encoding']:
        for name in ['Transfer-Encoding', 'transfer-encoding', 'TRANSFER-ENCODING']:
            for body in [chunked, b'0\r\n\r\n', b'zz\r\nnot chunked', b'5\r\nhel', b'', chunked + b'Trailer: x\r\n\r\n', b'FFFFFFFFFFFFFFFFF\r\nx\r\n']:
                if quick and rng.chance(1, 2): continue
                m, v = pick_mv(rng)
                hs = rng.choice([[(name, te)], [('Host', 'h'), (name, te)], [(name, te), ('Content-Length', '3')], [('Content-Length', '3'), (name, te)],
                                 [(name, te), ('Trailer', 'X-Sum')]])
                yield 'rt', (m, '/', v, hs, body), False
                yield 'parse', serialise(m, '/', v, hs, body), 'transfer-encoding'
    gz = bytes.fromhex('1f8b0800000000000003cb48cdc9c907008c7aac0605000000')
    multipart = b'------B\r\nContent-Disposition: form-data; name="a"\r\n\r\n1\r\n------B--\r\n'
    combos = [
        ([('Expect', '100-continue'), ('Content-Length', '5')], b'hello'), ([('Expect', '100-continue')], b''), ([('expect', '100-Continue')], b'late body'),
        ([('Connection', 'close')], b'x'), ([('Connection', 'keep-alive')], b'x'), ([('Connection', 'Upgrade, HTTP2-Settings'), ('Upgrade', 'h2c'), ('HTTP2-Settings', 'AAMAAABkAARAAAAAAAIAAAAA')], b''),
        ([('Connection', 'Upgrade'), ('Upgrade', 'websocket'), ('Sec-WebSocket-Key', 'dGhlIHNhbXBsZSBub25jZQ==')], b'\x81\x05hello'),
        ([('Connection', 'Content-Length'), ('Content-Length', '1')], b'xyz'), ([('Connection', 'Host'), ('Host', 'h')], b''),
        ([('Content-Encoding', 'gzip')], gz), ([('Content-Encoding', 'gzip'), ('Content-Length', str(len(gz)))], gz), ([('Content-Encoding', 'identity')], b'plain'),
        ([('Content-Type', 'multipart/form-data; boundary=----B')], multipart), ([('Content-Type', 'multipart/form-data; boundary=----B'), ('Content-Length', '10')], multipart),
        ([('Content-Type', 'application/x-www-form-urlencoded')], b'a=1&b=%32&a=3'), ([('Content-Type', 'application/json')], b'{"a": [1, 2, {"b": null}]}\n'),
        ([('Content-Type', 'text/plain; charset=utf-16')], 'héllo'.encode('utf-16')), ([('Content-Type', 'text/plain; charset=iso-8859-1')], b'h\xe9llo'),
        ([('Content-Type', 'message/http')], b'GET / HTTP/1.1\r\nHost: inner\r\n\r\n'), ([('Content-MD5', 'XUFAKrxLKna5cZ2REBfFkg==')], b'hello'),
        ([('Range', 'bytes=0-1')], b'abcdef'), ([('Content-Range', 'bytes 0-1/6')], b'ab'), ([('X-HTTP-Method-Override', 'DELETE')], b'x'),
        ([('Host', 'a'), ('Host', 'b')], b''), ([('Host', 'A.Example:80')], b''), ([('Host', '')], b''), ([('Cookie', 'a=1'), ('Cookie', 'b=2')], b''),
        ([('Accept', 'a'), ('accept', 'b'), ('ACCEPT', 'c')], b''), ([('Set-Cookie', 'a=1; Path=/'), ('Set-Cookie', 'a=1; Path=/')], b''),
        ([('Trailer', 'X-Sum'), ('TE', 'trailers')], b'x\r\nX-Sum: 1\r\n\r\n'), ([('Content-Length', '5'), ('Content-Length', '5'), ('Content-Length', '5')], b'hello'),
    ]
    for hs, body in combos:
        for m in (METHODS if not quick else [rng.choice(METHODS), rng.choice(['GET', 'HEAD', 'POST'])]):
            v = rng.choice(VERSIONS)
            yield 'rt', (m, '/r', v, hs, body), False
            yield 'rt', (m, '/r', v, [(n.lower(), x) for n, x in hs], body + b'\x00'), False
            yield 'parse', serialise(m, '/r', v, hs, body, eol=rng.choice(['\r\n', '\n'])), 'meaningful-headers'
    # the headers that most plausibly change how the message is framed, with EVERY method and EVERY version (a rule may hinge on the pair)
    for m in METHODS:
        for v in VERSIONS:
            for hs, body in [([('Content-Length', '4')], b'four and more'), ([('Content-Length', '1')], b'xy'), ([('content-length', '2')], b'abc\x00'),
                             ([('Transfer-Encoding', 'chunked')], chunked), ([('Expect', '100-continue')], b'body'), ([('Connection', 'close')], b'body'),
                             ([('Connection', 'Upgrade, HTTP2-Settings'), ('Upgrade', 'h2c'), ('HTTP2-Settings', 'AAMAAABkAAQAAP__')], b'body'),
                             ([('Host', 'H.Example:80')], b'body\r\n'), ([], b'body'), ([('Content-Type', 'application/x-www-form-urlencoded')], b'a=1&b=2')]:
                yield 'rt', (m, '/mv', v, hs, body), False
                if not quick or rng.chance(1, 4):
                    yield 'rt', (m.lower(), '/mv', v.lower(), hs, body), False
    # every header constant of the source: in its own spelling and in others, alone and repeated in another spelling
    for name in header_constants():
        vals = SPECIFIC_VALUES.get(name, []) + GENERIC_VALUES
        sp = spellings(name)
        todo = [(rng.choice(sp[:3]), rng.choice(vals)) for _ in range(2)] if quick else [(s, x) for s in sp for x in vals[:14]] + [(rng.choice(sp), x) for x in vals[14:]]
        for s, x in todo + [(s, KITCHEN_SINK) for s in sp] + [(sp[0], x) for x in SPECIFIC_VALUES.get(name, [])[:6]]:
            m, v = pick_mv(rng)
            yield 'rt', (m, '/', v, [(s, x)], rng.choice([b'', b'body'])), False
        m, v = pick_mv(rng)
        a, b = rng.choice(vals), rng.choice(vals)
        yield 'rt', (m, '/', v, [(name, a), ('X-Between', 'z'), (rng.choice(sp[1:]), b)], b''), False
        yield 'rt', (m, '/', v, [(rng.choice(sp[1:4]), a), (name, b), (name, a)], b'x'), False
        # ... and looked up: by the constant when stored in another spelling, by another spelling when stored as the constant,
        # and when both spellings are stored (the first one is the answer)
        other = rng.choice(sp[1:5])
        yield 'lookup', ([('A', '0'), (other, '1')], name)
        yield 'lookup', ([('A', '0'), (name, '1')], other)
        yield 'lookup', ([(other, '1'), (name, '2')], name)
        yield 'lookup', ([(name, '1'), (other, '2')], other)
        yield 'lookup', ([(name + '-', '1'), (name[:-1], '2'), ('X-' + name, '3'), (name + 's', '4')] + ([(sp[5], '0')] if sp[5] != name else []), name)

def targets(rng, quick):
    from vlib import reqgen, vocab
    shapes = [t for t in reqgen.WEIRD_TARGETS if not any(c in t for c in ' \t\r\n')]
    shapes += ['/%2F', '/%2f', '/%41', '/%00', '/%0d%0a', '/%0D%0AX:%20y', '/%C3%A9', '/%c3%a9', '/%zz', '/%%', '/%2', '/a+b', '/a%20b', '/%25%32%35', '/é', '/日本', '/😀',
               'http://é.example/', 'http://EXAMPLE.com:80/A?B=C#D', 'HTTP://a/', 'https://user:pw@h:8443/p;x=1?q#f', 'h:443', 'example.com:80', '[::1]:443',
               '/a?b=c&b=d&e', '/a?b=1#c?d', '/?a=b=c', '/?&&', '/?q=%3F%23', '/a#', '/#/spa/route', '/a;jsessionid=1', '/a/../../b', '/a/./b/', '/.', '/...',
               '/index.html', '/INDEX.HTML', '//etc/passwd', '/a//', '///', '/a\\b', '/\\..\\x', '/a|b', '/<script>', '/"q"', "/'q'", '/{}', '/a^b', '/`',
               'HTTP/1.1', 'GET', '/HTTP/1.1', '/GET', '*/*', '**', '/*', '?x', '#x', '&', '=', '%', '+', '-', '_', '~', '0', '/:', ':/', '::', '/a:80', '/@',
               '/' + 'a/' * 200, '/?' + 'k=v&' * 300, '/' + '%41' * 300, '/' + '../' * 100 + 'x', '/a' + '#' * 50]
    shapes += vocab.literals()['path'] + ['/' + f.lstrip('/') for f in vocab.literals()['file']]
    seen = set()
    for t in shapes:
        if t in seen: continue
        seen.add(t)
        for m in (METHODS if not quick else [rng.choice(METHODS)]):
            v = rng.choice(VERSIONS)
            yield 'rt', (m, t, v, [('Host', 'h')] if rng.chance(1, 2) else [], rng.choice([b'', b'b'])), t in ('/%41', '//')
            if m in ('GET', 'CONNECT', 'OPTIONS') or quick:
                yield 'parse', serialise(m, t, v, [('Host', 'h')], b'', eol=rng.choice(['\r\n', '\n']), sp=''), 'target-shapes'
                yield 'line', (m + ' ' + t + ' ' + v).encode(), 'target-shapes'
    # the four request-target forms of RFC 9112 (and none) with EVERY method: which form goes with which method is a rule a parser may add
    for t in ['*', 'h:443', 'http://a/b', 'https://A.example:8443/P?q#f', '/', '', '/a?b#c', 'x']:
        for m in METHODS:
            v = rng.choice(VERSIONS)
            yield 'rt', (m, t, v, [('Host', 'a')], b''), False
            yield 'parse', serialise(m, t, v, [('Host', 'a')], b'', sp=''), 'target-forms-x-methods'
    # every scalar below U+0300 that is not white space (and samples above) as the whole target and inside one
    cps = [cp for cp in range(0x300) if cp not in WS_ALL]
    cps += [0x37E, 0x3A9, 0x5D0, 0x627, 0x200B, 0x200D, 0x202E, 0x2060, 0xD7FF, 0xE000, 0xFEFF, 0xFFFD, 0xFFFF, 0x10000, 0x1F600, 0xE0001, 0x10FFFF]
    for cp in cps:
        m, v = pick_mv(rng)
        ch = chr(cp)
        if cp < 0x20 or 0x7F <= cp < 0xA0:
            # control characters are outside the property's targets: model comparison and request-line reading only
            yield 'line', (m + ' /a' + ch + 'b ' + v).encode(), 'target-scalars'
            continue
        yield 'rt', (m, '/a' + ch + 'b', v, [], b''), False
        if not quick or cp % 4 == 0:
            yield 'rt', (m, ch, v, [('Host', 'h')], b'b'), False
            yield 'rt', (m, ch + '/', v, [], b''), False
            yield 'rt', (m, '/' + ch, v, [], b''), False

def edges(rng, quick):
    """white space (and its neighbours) at the start / end of header names and values and being the whole of them; body edges"""
    for w in EDGE_WS + EDGE_NOT_WS:
        c = chr(w)
        nshapes = [c, c + 'a', 'a' + c, 'a' + c + 'b', c + c, c + 'a' + c]
        vshapes = [c, c + 'a', 'a' + c, 'a' + c + 'b', c + c, c + 'a' + c, c + ' ', ' ' + c, c + ': ', ': ' + c]
        for n in nshapes:
            if ': ' in n: continue
            m, v = pick_mv(rng)
            yield 'rt', (m, '/', v, [('Before', 'x'), (n, 'v'), ('After', 'y')], b'b'), False
            yield 'rt', (m, '/', v, [(n, '')], b''), False
            yield 'hdr', (n, 'v', rng.choice(['\r\n', '\n', '']))
        for x in vshapes:
            m, v = pick_mv(rng)
            yield 'rt', (m, '/', v, [('N', x)], b''), False
            yield 'rt', (m, '/', v, [('Before', 'x'), ('', x), ('After', x)], b'b'), False
            yield 'hdr', ('Name', x, rng.choice(['\r\n', '\n', '']))
        m, v = pick_mv(rng)
        yield 'rt', (m, '/', v, [(c, c)], b''), False
        yield 'rt', (m, '/', v, [(c, c), (c, ''), ('', c), ('', '')], c.encode()), False
    # control characters inside names / values are outside the property's quantifier: model comparison only
    for w in [0x00, 0x01, 0x08, 0x0B, 0x0C, 0x1B, 0x1C, 0x1F, 0x7F]:
        c = chr(w)
        for n, x in [(c, 'v'), ('a' + c, 'v'), (c + 'a', 'v'), ('N', c), ('N', c + 'a'), ('N', 'a' + c), (c, c), ('N', 'a' + c + 'b')]:
            m, v = pick_mv(rng)
            yield 'rtm', (m, '/', v, [(n, x)], b'')
    toks = [b'\x00', b'\x00\x00', bytes(100), b' ', b'\t', b'\r', b'\n', b'\r\n', b'\n\r', b'\r\n\r\n', b'\n\n', b'\x0b', b'\x0c', b'\x85', b'\xc2\x85', b'\xc2\xa0', b'\xe3\x80\x80',
            b'\xe2\x80\xa8', b'\xff', b'\xc3', b'\xf0\x9f\x98', b'\x1a', b'\x04', b'\x7f', b'0\r\n\r\n', b'\r\n0\r\n\r\n', b'--', b': ', b' \r\n', b'\t\r\n', b'   ', b'\xef\xbb\xbf']
    for e in toks:
        for body in [e, e + b'x', b'x' + e, e + b'x' + e, b'x' + e + b'y', e + e, b'line1\r\nline2' + e]:
            m, v = pick_mv(rng)
            hs = rng.choice([[], [], [('Host', 'h')], [('Content-Length', str(len(body)))], [('A', 'b'), ('C', '')]])
            yield 'rt', (m, '/', v, hs, body), e in (b'\x00', b'\r\n')
            if quick and rng.chance(1, 2): continue
            yield 'rt', (rng.choice(METHODS), '/', v, [] if hs else [('Host', 'h')], body), False
    # every single byte as the whole body, as its first and as its last byte
    for b in range(256):
        m, v = pick_mv(rng)
        yield 'rt', (m, '/', v, [] if b % 2 else [('H', 'v')], bytes([b])), False
        yield 'rt', (m, '/', v, [] if b % 3 else [('H', 'v')], bytes([b]) + b'mid' + bytes([b])), False

def repeats(rng, quick):
    names = ['Host', 'Content-Length', 'Cookie', 'X-A', 'Set-Cookie', 'Accept', 'Range', '', 'é', 'a b']
    for name in names:
        sp = [name, name.lower(), name.upper()]
        for a in sp:
            for b in sp:
                for between in (0, 1, 3):
                    for va, vb in [('1', '1'), ('1', '2'), ('', '2'), ('2', '')]:
                        if quick and rng.chance(2, 3): continue
                        m, v = pick_mv(rng)
                        hs = [(a, va)] + [('P%d' % k, 'p') for k in range(between)] + [(b, vb)]
                        yield 'rt', (m, '/', v, hs, b''), False
                        yield 'rt', (m, '/', v, hs + [(a, vb), (b, va)], b'x'), False
                        for q in sp:
                            if name.isascii():
                                yield 'lookup', (hs, q)
                                yield 'lookup', ([('Other', 'o')] + hs + [(q, 'last')], q)

# ------------------------------------------------------------------------------------------------ accept / reject classes
OTHER_METHODS = ['PROPFIND', 'PROPPATCH', 'MKCOL', 'COPY', 'MOVE', 'LOCK', 'UNLOCK', 'SEARCH', 'PURGE', 'LINK', 'UNLINK', 'TRACK', 'QUERY', 'PRI', 'BREW', 'WHEN',
                 'REPORT', 'MERGE', 'NOTIFY', 'SUBSCRIBE', 'UNSUBSCRIBE', 'M-SEARCH', 'ACL', 'BIND', 'REBIND', 'UNBIND', 'CHECKOUT', 'CHECKIN', 'MKACTIVITY',
                 'VIEW', 'DEBUG', 'SOURCE', 'ANY', 'ALL', '*', 'SET', 'FETCH', 'UPDATE', 'INSERT', 'SELECT', 'LIST', 'INFO', 'PING', 'HELLO', 'QUIT', 'EHLO']
OTHER_VERSIONS = ['HTTP/3', 'HTTP/3.0', 'HTTP/2', 'HTTP/2.1', 'HTTP/1.2', 'HTTP/1.9', 'HTTP/0.8', 'HTTP/0.1', 'HTTP/1', 'HTTP/9.9', 'HTTP/10.0', 'HTTP/1.10', 'HTTP/1.1.0', 'HTTP/01.1',
                  'HTTP/1.01', 'HTTP/+1.1', 'HTTP/1:1', 'HTTP/1.1;', 'HTTP\\1.1', 'HTTP/1.1/', 'HTTP//1.1', 'HTTP/.1', 'HTTP/1.', 'HTTP/x.y', 'h2', 'h2c', 'h3', 'HTTP/2.00', 'SPDY/3',
                  'SPDY/3.1', 'RTSP/1.0', 'ICY', 'SIP/2.0', 'HTTPS/1.1', 'HTTPS/2.0', 'HTCPCP/1.0', 'WS/1.1', 'FTP/1.1', 'HTTP', 'http', '1.1', '/1.1', 'HTTP/1.1HTTP/1.1', 'HTTP/1.0HTTP/1.1']

def token_near_misses(tok, all_tokens):
    out = [tok[:-1], tok[1:], tok + tok[-1], tok[0] + tok, tok + 'X', 'X' + tok, tok + tok, tok + '/', tok + '.', tok + ',', tok + ':', tok + ';', tok + '0', tok + '\x00', '\x00' + tok,
           tok + '-', '-' + tok, '_' + tok, tok + '_', '"' + tok + '"', "'" + tok + "'", '<' + tok + '>', tok + '\\', tok + '?', tok + '#', tok + '*', tok + '=' + tok]
    for i in range(len(tok) - 1):
        if tok[i] != tok[i + 1]: out.append(tok[:i] + tok[i + 1] + tok[i] + tok[i + 2:])          # neighbours swapped
        out.append(tok[:i + 1] + '-' + tok[i + 1:])
        out.append(tok[:i + 1] + tok[i] + tok[i + 1:])                                             # one letter doubled
        out.append(tok[:i] + tok[i + 1:])                                                          # one letter missing
    for o in all_tokens:
        if o != tok: out += [tok + o, tok + ',' + o, tok + '/' + o]
    return out

def P_first_line(b):
    k = b.find(b'\n')
    b = b if k < 0 else b[:k + 1]
    try: b.decode('utf-8'); return b
    except UnicodeDecodeError: return b'?'

def request_lines(rng, quick):
    for toks, others, is_method in [(METHODS, OTHER_METHODS, True), (VERSIONS, OTHER_VERSIONS, False)]:
        for tok in toks:
            for nm in token_near_misses(tok, toks):
                for cased in ([nm] if quick else [nm, nm.lower()]):
                    for o in (VERSIONS if is_method else METHODS):          # with every token of the other list
                        s = (cased + ' /x ' + o) if is_method else (o + ' /x ' + cased)
                        yield 'line', s.encode(), 'token-near-miss'
                        if not quick or rng.chance(1, 8):
                            yield 'parse', (s + rng.choice(['\r\n', '\n']) + 'Host: h\r\n\r\n').encode(), 'token-near-miss'
        # a foreign token with EVERY token of the other list (a special case may hinge on the pair, e.g. the HTTP/2 preface)
        for o in others:
            for cased in [o, o.lower()]:
                for other in (VERSIONS if is_method else METHODS):
                    for t in (['/', '*'] if is_method else ['/']):
                        s = (cased + ' ' + t + ' ' + other) if is_method else (other + ' ' + t + ' ' + cased)
                        yield 'line', s.encode(), 'foreign-token'
                        if not quick or cased == o:
                            yield 'parse', (s + '\r\nHost: h\r\n\r\n').encode(), 'foreign-token'
    # the first lines other protocols really send
    for b in [b'PRI * HTTP/2.0\r\n\r\nSM\r\n\r\n', b'OPTIONS * RTSP/1.0\r\nCSeq: 1\r\n\r\n', b'M-SEARCH * HTTP/1.1\r\nHOST: 239.255.255.250:1900\r\nMAN: "ssdp:discover"\r\n\r\n',
              b'BREW /pot-1 HTCPCP/1.0\r\n\r\n', b'PROPFIND /dav HTTP/1.1\r\nDepth: 1\r\n\r\n', b'REGISTER sip:a SIP/2.0\r\n\r\n', b'EHLO mail.example\r\n', b'SSH-2.0-OpenSSH_9.6\r\n',
              b'\x16\x03\x01\x02\x00\x01\x00\x01\xfc\x03\x03', b'HTTP/1.1 200 OK\r\nContent-Length: 0\r\n\r\n', b'GET / HTTP/1.1 200 OK\r\n\r\n', b'CONNECT h:443 HTTP/1.1\r\n\r\n',
              b'OPTIONS * HTTP/1.1\r\n\r\n', b'GET /\r\n', b'GET / \r\n', b'get /\r\n\r\n', b'*1\r\n$4\r\nPING\r\n', b'{"jsonrpc": "2.0"}\n', b'<?xml version="1.0"?>\n']:
        yield 'parse', b, 'other-protocols'
        yield 'line', P_first_line(b), 'other-protocols'
    # something after the version / inside the line, for every method and every version
    tails = [' x', '  ', ' HTTP/1.1', ' \t', '\tx', ' x', ' /', ' GET / HTTP/1.1', ' \r', ' ;', ' 200 OK', '\x00', ' \x00', '　', '　x', ' 　', '\r\r', ' . ']
    pairs = [(m, v) for m in METHODS for v in VERSIONS]
    for m, v in pairs:
        for t in tails:
            yield 'line', (m + ' / ' + v + t).encode(), 'after-version'
            if not quick or rng.chance(1, 3):
                yield 'parse', (m + ' / ' + v + t + '\r\nHost: h\r\n\r\n').encode(), 'after-version'
        for s in [m + ' /a b ' + v, m + ' / ' + v + ' ' + v, m + ' ' + m + ' / ' + v, m + ' ' + v, m + ' ' + v + ' ' + v, m + ' ' + m + ' ' + v, v + ' / ' + m, m + '  ' + v,
                  m + ' /\t' + v, m + '\t/ ' + v, m + ' / \t' + v, m + ' /  ' + v, m + '/ ' + v, m + ' /' + v, m + ' / ' + v + '\n' + m + ' / ' + v, m + ' /' + ' ' + v,
                  ' ' + m + ' / ' + v, m + ' / ' + v + ' ', '\t' + m + ' / ' + v + '\t', '\r\n' + m + ' / ' + v, m + ', ' + m + ' / ' + v, m + ' / ' + v + ', ' + v]:
            yield 'line', s.encode(), 'line-shapes'
            if not quick or rng.chance(1, 3):
                yield 'parse', (s + '\r\n\r\n').encode(), 'line-shapes'

def strict_parser_cases(rng, quick):
    """messages whose request line is well formed and whose head is UTF-8, that a parser stricter than this one would refuse
    (RFC 9112 framing and field syntax): they must be ACCEPTED with the request line read as written"""
    heads = [
        [], ['Host: a', 'Host: a'], ['Host: a', 'Host: b'], ['Host: '], ['Host:'], ['Host'], ['Host : a'], ['Host:a'], ['Host:\ta'], ['Host:  a'], [' Host: a'], ['\tHost: a'],
        ['Host: a', ' folded'], ['Host: a', '\tfolded: x'], ['X: a', ' ', 'Y: b'], [': x'], [':'], ['::'], [': '], ['='], ['x'], ['x y z'], ['My Header: x'], ['(a): x'], ['a@b: c'], ['a"b: c'],
        ['a/b: c'], ['a{b}: c'], ['é: ü'], ['Host: é'], ['名前: 値'], ['X: ' + 'v' * 9000], ['N' * 300 + ': x'], ['X: y'] * 120, ['Content-Length: 5', 'Content-Length: 5'],
        ['Content-Length: 5', 'Content-Length: 6'], ['Content-Length: 5, 5'], ['Content-Length: -1'], ['Content-Length: +5'], ['Content-Length:  5 '], ['Content-Length: 0x5'],
        ['Content-Length: 5.0'], ['Content-Length: '], ['Content-Length: 99999999999999999999'], ['Content-Length: 18446744073709551615'], ['Content-Length: 9223372036854775807'],
        ['Content-Length: 1000'], ['Content-Length: 1'], ['Content-Length: 0'], ['content-length: 2'], ['Content-Length: 3', 'Transfer-Encoding: chunked'],
        ['Transfer-Encoding: chunked'], ['Transfer-Encoding: chunked', 'Transfer-Encoding: chunked'], ['Transfer-Encoding: gzip'], ['Transfer-Encoding: foo'], ['Transfer-Encoding: '],
        ['TE: trailers', 'Connection: TE'], ['Expect: 100-continue'], ['Expect: 417-please'], ['Connection: close'], ['Connection: upgrade', 'Upgrade: h2c', 'HTTP2-Settings: AAMAAABkAARAAAAAAAIAAAAA'],
        ['Connection: keep-alive', 'Keep-Alive: timeout=5, max=1000'], ['Upgrade: websocket', 'Connection: Upgrade', 'Sec-WebSocket-Key: x', 'Sec-WebSocket-Version: 13'],
        ['Content-Type: multipart/form-data'], ['Content-Type: multipart/form-data; boundary='], ['Content-Type: '], ['Content-Type: x', 'Content-Type: y'], ['Content-Encoding: gzip'],
        ['Range: bytes=9-1'], ['Range: x'], ['Range: bytes=0-1', 'Range: bytes=2-3'], ['Cookie: a=b', 'Cookie: c=d'], ['Cookie: ' + 'k=v; ' * 900], ['Authorization: Basic ' + 'QQ' * 2500],
        ['Origin: null', 'Origin: http://a'], ['Referer: http://a/‮'], ['User-Agent: '], ['Accept: */*;q=1.5'], ['If-Modified-Since: yesterday'], ['Date: 0'], ['Max-Forwards: -1'],
        ['Host: localhost:7878', 'User-Agent: Mozilla/5.0 (X11; Linux x86_64) AppleWebKit/537.36 (KHTML, like Gecko) Chrome/120.0.0.0 Safari/537.36', 'Accept: text/html,application/xhtml+xml,application/xml;q=0.9,image/avif,image/webp,*/*;q=0.8',
         'Accept-Encoding: gzip, deflate, br', 'Accept-Language: en-US,en;q=0.9', 'Cache-Control: max-age=0', 'Connection: keep-alive', 'Cookie: sid=abc; theme=dark', 'Sec-CH-UA: "Chromium";v="120", "Not_A Brand";v="8"',
         'Sec-CH-UA-Mobile: ?0', 'Sec-CH-UA-Platform: "Linux"', 'Sec-Fetch-Dest: document', 'Sec-Fetch-Mode: navigate', 'Sec-Fetch-Site: none', 'Sec-Fetch-User: ?1', 'Upgrade-Insecure-Requests: 1'],
        ['Host: localhost:7878', 'User-Agent: curl/8.4.0', 'Accept: */*'],
        ['Host: h', 'Origin: http://o', 'Access-Control-Request-Method: PUT', 'Access-Control-Request-Headers: x-a, content-type'],
        ['Host: h', 'Content-Type: multipart/form-data; boundary=----WebKitFormBoundary7MA4YWxkTrZu0gW', 'Content-Length: 138'],
    ]
    bodies = [b'', b'hello', b'5\r\nhello\r\n0\r\n\r\n', b'\xff\xfe\x00', bytes(200)]
    tgts = ['/', '*', 'http://a/b', 'http://a', 'h:443', '/a#f', 'x', '/%', '/%zz', '/\\', '//', '/..', ':', '', 'é', '/‮', '/' + 'a' * 8193, '?', '#', '/a?b c'.replace(' ', '+')]
    for hi, head in enumerate(heads):
        for bi, body in enumerate(bodies):
            if quick and bi and (hi + bi) % 5: continue
            for eol in ['\r\n', '\n']:
                m, v = pick_mv(rng)
                if rng.chance(1, 4): m = m.lower()
                if rng.chance(1, 4): v = v.lower()
                t = rng.choice(tgts) if rng.chance(1, 3) else '/p'
                yield 'parse', (m + ' ' + t + ' ' + v + eol + ''.join(h + eol for h in head) + eol).encode() + body, 'strict-parser-would-refuse'
    # every method with and without a body, every version with headers; no blank line after the head; padding instead of a blank line
    for m in METHODS:
        for v in VERSIONS:
            for tail in [b'\r\n', b'\r\nHost: h\r\n', b'\r\nHost: h\r\n\r\n', b'\r\nHost: h\r\n\r\nbody', b'\r\nHost: h', b'\r\nHost: h\r\n' + bytes(50), b'\r\n' + bytes(50), b'\n\nbody', b'\r\n\r\n\r\n\r\n',
                         b'\r\n \r\nHost: h\r\n\r\n', b'\r\nContent-Length: 4\r\n\r\nbody', b'\r\nContent-Length: 4\r\n\r\nbo', b'\r\nContent-Length: 4\r\n\r\nbodybody',
                         b'\r\nTransfer-Encoding: chunked\r\n\r\n4\r\nbody\r\n0\r\n\r\n', b'\r\nExpect: 100-continue\r\n\r\n', b'\r\nConnection: Upgrade\r\nUpgrade: h2c\r\n\r\n']:
                yield 'parse', (m + ' / ' + v).encode() + tail, 'method-version-product'

def lookups(rng, quick):
    """names that are NOT the same although a careless fold / comparison says so, and lookups over the parsed spelling of real requests"""
    near = [('Content-Length', 'Content_Length'), ('Host', 'Host '), ('Host', ' Host'), ('Host', 'Host:'), ('Host', 'Hos'), ('Host', 'Hostt'), ('Host', 'HostHost'), ('X-A', 'X-A-'), ('X-A', '-X-A'),
            ('X-A', 'XA'), ('X-A', 'X--A'), ('X-A', 'X A'), ('@', '`'), ('[', '{'), ('a[', 'A{'), (']', '}'), ('\\', '|'), ('x^', 'X~'), ('X_Y', 'x\x7fy'), ('a@b', 'A`B'), ('0', 'P'), ('-', '\r'), ('a', 'á'),
            ('a', 'а'), ('K', 'k'), ('', ' '), ('', 'a'), ('a', 'aa'), ('ab', 'ba'), ('Accept', 'Accept-Encoding'), ('Content-Type', 'Content-Typ'), ('Range', 'If-Range'), ('ETag', 'E-Tag'),
            ('TE', 'T'), ('Content-Length', 'Content-Lenght'), ('Sec-CH-UA', 'Sec-CH-UA-Arch'), ('x', 'x\x00'), ('x', '\x00x'), ('Host', 'H​ost'), ('Host', 'Ｈost')]
    for a, b in near:
        for x, y in [(a, b), (b, a)]:
            for hs in [[(x, '1')], [(x, '1'), (y, '2')], [('Pad', '0'), (x.upper(), '1'), (y, '2')], [(x.lower(), '1')]]:
                if not all((n.isascii() for n, _ in hs)) or not y.isascii(): continue     # non-ASCII case is judged in its own section
                if any(c in n for n, _ in hs for c in '\r\n') or any(c in y for c in '\r\n'): continue
                yield 'lookup', (hs, y)
                yield 'lookup', (hs, y.upper())
                yield 'lookup', (hs, y.lower())
    # exhaustive: every pair of one-byte printable ASCII names (stored, wanted)
    chars = [chr(c) for c in range(0x21, 0x7F) if chr(c) not in ',:']
    for a in chars:
        for b in chars:
            yield 'lookup', ([('pad', '0'), (a + 'x', '1')], b + 'X')

def all_cases(rng, quick):
    for f in (sizes, header_counts, meaningful_headers, targets, edges, repeats, request_lines, strict_parser_cases, lookups):
        r = rng.fork('gen_c14:' + f.__name__)
        for case in f(r, quick):
            yield (f.__name__,) + tuple(case)


# ================================================================================================ second audit pass
# Classes that new, well-meant behaviour (tolerance, robustness limits, speed-ups, new format features, Unicode-aware clean-ups)
# hinges on: a multi-byte character across EVERY byte offset (also in lines that are refused), line ends / separators / the blank
# line at absolute block boundaries, escape- and comment-looking text, histories (what the same process was asked just before),
# names that fold or normalise into each other, tokens with ignorable / compatibility characters, fields of one message that are
# equal to / prefixes of / case variants of each other, every small length and the lengths servers commonly limit.

ALIGN_SIZES_QUICK = [300, 1100, 4200, 9000]
ALIGN_SIZES_MORE = [17000, 70000]

def aligned_multibyte(rng, quick):
    """text made of 2-, 3- and 4-byte characters only, in every alignment: whatever fixed byte offset a cut, a window or a cap uses,
    one of the alignments has a character across it.  In accepted AND in refused request lines (an error text or a log line is
    where a cap lives), in names, values and targets."""
    for L in (ALIGN_SIZES_QUICK if quick else ALIGN_SIZES_QUICK + ALIGN_SIZES_MORE):
        for ch in MULTI:
            w = len(ch.encode())
            for k in range(w):
                s = 'a' * k + ch * (L // w)
                m, v = pick_mv(rng)
                full = L <= 4200 or not quick
                yield 'rt', (m, '/', v, [('Before', 'x'), ('X-V', s), ('After', ch)], b'b'), False
                # refused lines: unknown method, unknown version, no version, no blank at all, the long text as the method
                yield 'parse', ('GETX /' + s + ' ' + v + '\r\nHost: h\r\n\r\n').encode(), 'aligned-multibyte-refused'
                yield 'parse', (m + ' /' + s + ' HTTP/1.2\r\nHost: h\r\n\r\n').encode(), 'aligned-multibyte-refused'
                yield 'line', (m + ' /' + s).encode(), 'aligned-multibyte-refused'
                yield 'line', (m + ' /' + s + ' ' + v).encode(), 'aligned-multibyte'
                if not full: continue
                yield 'rt', (m, '/' + s, v, [('Host', 'h')], b''), False
                yield 'rt', (m, '/', v, [(s, 'v'), ('After', 'x')], b''), False
                yield 'rt', (m, '/?' + s, v, [(s, s)], s.encode()[:L // 2]), False
                yield 'parse', (s + ' / ' + v + '\r\n\r\n').encode(), 'aligned-multibyte-refused'
                yield 'parse', s.encode(), 'aligned-multibyte-refused'
                yield 'parse', (m + ' /' + s + '\r\n\r\n').encode(), 'aligned-multibyte-refused'
                yield 'line', (s + ' /x ' + v).encode(), 'aligned-multibyte-refused'
                yield 'line', (m + ' /x ' + v + s).encode(), 'aligned-multibyte-refused'
                yield 'hdr', (s, s, rng.choice(['\r\n', '\n', '']))
                yield 'hdr', ('N', s, '\r\n')
    # the same for short texts: every start offset 0..40 of one multi-byte character in a refused and in an accepted line
    for ch in MULTI:
        for pre in range(0, 41 if quick else 301):
            m, v = pick_mv(rng)
            yield 'line', ('BAD /' + 'a' * pre + ch + ' ' + v).encode(), 'aligned-multibyte-refused'
            yield 'line', (m + ' /' + 'a' * pre + ch + ' ' + v + ch).encode(), 'aligned-multibyte-refused'
            yield 'line', (m + ' /' + 'a' * pre + ch + ' ' + v).encode(), 'aligned-multibyte'

ABS_QUICK = [512, 1024, 2048, 4096, 8192, 10000, 16384]
ABS_QUICK_FEW = [32768, 65536]
ABS_MORE = [64, 128, 256, 8000, 12288, 20000, 131072, 1 << 20]

def absolute_alignment(rng, quick):
    """a line end, a name/value separator, the blank line, the end of the request line and the first body byte at an ABSOLUTE byte
    offset of the message around every block size a chunked reader may use (the offset counts from the first byte of the message)"""
    plan = [(B, d, True) for B in ABS_QUICK for d in (-2, -1, 0, 1, 2)] + [(B, d, False) for B in ABS_QUICK_FEW for d in (-1, 0, 1)]
    if not quick:
        plan = [(B, d, True) for B in sorted(ABS_QUICK + ABS_MORE[:6]) for d in range(-4, 5)] + [(B, d, False) for B in ABS_QUICK_FEW for d in range(-2, 3)] + \
               [(B, d, False) for B in ABS_MORE[6:] for d in (-1, 0, 1)]
    tails = [b'\r\nX: y\r\n\r\ntail', b'b', b'', b'\n\r\n\r\n', b'A: b\r\n\r\nGET / HTTP/1.1\r\n\r\n']
    for B, d, full in plan:
        off = B + d
        m, v = pick_mv(rng)
        rl = len((m + ' / ' + v + ' \r\n').encode())
        salt = B + d
        body = tails[(B + d) % len(tails)]
        # CR of a header line at `off` (LF at off+1: the pair straddles the block end when d == -1)
        n = off - rl - 3
        if n >= 0:
            yield 'rt', (m, '/', v, [('P', fill(n, salt)), ('After', 'x: y')], body), False
        # CR of the blank line at `off`; the body begins at off+2 and looks like more head
        n = off - rl - 5
        if n >= 0:
            yield 'rt', (m, '/', v, [('P', fill(n, salt))], tails[0]), False
            yield 'rt', (m, '/', v, [('P', fill(n, salt))], b''), False
        if not full: continue
        # ': ' of the second header at `off`
        n = off - rl - 6
        if n >= 0:
            yield 'rt', (m, '/', v, [('P', fill(n, salt)), ('Q', 'v: w'), ('After', '')], body), False
        # ': ' after a long NAME at `off`
        n = off - rl
        if n >= 1:
            yield 'rt', (m, '/', v, [(fill(n, salt), 'v'), ('After', 'x')], body), False
        # CR of the request line at `off`
        n = off - len((m + '  ' + v + ' ').encode())
        if n >= 1:
            yield 'rt', (m, '/' + fill(n - 1, salt), v, [('Host', 'h')], body), False
            yield 'rt', (m, '/' + fill(n - 1, salt), v, [], body), False
        # the last byte of the message at `off` (nothing after the blank line / one body byte)
        n = off - rl - 5 - 2 + 1
        if n >= 0:
            yield 'rt', (m, '/', v, [('P', fill(n, salt))], b''), False
        # a multi-byte character of the BODY and of a later header across `off` while the head ends well before / after it
        yield 'rt', (m, '/', v, [('H', 'v')], fill_bytes(off - rl - 8 - 1, salt) + '\u20ac\U0001f600\u00e9'.encode() + b'\r\n\r\nz'), False

ESC_TOKENS = ['\\r', '\\n', '\\r\\n', '\\t', '\\\\', '\\0', '\\x41', '\\x0d\\x0a', '\\u0041', '\\u000d', '\\"', "\\'", '\\ ', '\\:', '\\: ', '\\,', '\\', '\\\\r\\\\n',
              '%0D%0A', '%0d%0a', '%20', '%3A%20', '%3a', '%25', '%2525', '%00', '%', '%%', '%zz', '%C3%A9', '%u0041',
              '&amp;', '&#58;', '&#x3a;', '&colon;', '&#13;&#10;', '&lt;', '&', '=?utf-8?B?YQ==?=', '=?UTF-8?Q?a=3A_b?=', '=?', '?=',
              '+', '$HOME', '${x}', '$(x)', '%(x)s', '{0}', '{{', '}}', '<!--', '-->', '<!-- c -->',
              '#', '# c', ' # c', ';', '; c', ' ; c', '//', '// c', '/*', '*/', '/* c */', '--', '-- c', 'REM ', '!', '(c)', ' (c)', '(', ')',
              "'", '"', '""', "''", '"a"', "'a'", '"a', 'a"', '"a: b"', '`', '^', '~', '$', '@', '&', '|', '[', ']', '[a]', '<a>', '=', '==', 'a=b', 'a="b"',
              '\ufeff', '\u200b', '\u00ad', '\u200d', '\u2060', '\ufffd', '\ufffe', '\U000e0001', '\u00e9', 'e\u0301', '\u0301']

def escapes_comments(rng, quick):
    """text that LOOKS like an escape, a character reference, an encoded word, a variable, a comment or a quotation: none of it
    means anything to this parser, all of it must come back as written (name, value, target, body)"""
    for tok in ESC_TOKENS:
        shapes = [tok, tok + 'a', 'a' + tok, 'a' + tok + 'b', tok + tok, 'a ' + tok + ' b', tok + ' a', 'a' + tok + tok + 'b' + tok]
        for k, s in enumerate(shapes):
            if quick and k >= 4 and rng.chance(1, 2): continue
            m, v = pick_mv(rng)
            yield 'rt', (m, '/', v, [('Before', 'x'), ('N', s), ('After', 'y')], b'b'), False
            yield 'rt', (m, '/', v, [('N', s)], s.encode()), False
            if ': ' not in s:
                yield 'rt', (m, '/', v, [(s, 'v'), ('After', s)], b''), False
                yield 'rt', (m, '/', v, [('Before', 'x'), (s, s), (s, '')], b'b'), k == 0
            if not any(c in s for c in ' \t'):
                yield 'rt', (m, '/' + s, v, [('Host', 'h')], b''), False
                yield 'rt', (m, s, v, [], b''), False
                yield 'parse', serialise(m, '/p' + s, v, [('N', s)], b'', eol=rng.choice(['\r\n', '\n']), sp=''), 'escapes'
            yield 'hdr', ('N', s, rng.choice(['\r\n', '\n', '']))
            if ': ' not in s: yield 'hdr', (s, s, rng.choice(['\r\n', '\n', '']))

def _line_relatives(m, v, m2, v2):
    """pairs (first, second) of request lines that a memo keyed by PART of the line (its folded form, its prefix, its length, its
    trimmed form, its method, its target) confuses"""
    a = m + ' /idx ' + v
    rel = [(a, m.lower() + ' /idx ' + v), (a, m + ' /idx ' + v.lower()), (a, m + ' /IDX ' + v), (a, m.lower() + ' /Idx ' + v.lower()),
           (a, m + ' /idy ' + v), (a, m + ' /idx ' + v2), (a, m2 + ' /idx ' + v), (a, a + ' x'), (a, a + 'x'), (a, a[:-1]), (a, m + ' /idx  ' + v),
           (a, a), (a, ' ' + a), (a, a + ' '), (a, a + '\r\n'), (a, m + ' /idx/' + fill(40, len(m)) + ' ' + v), (a, m + ' /idx?q=1 ' + v), (a, m + ' /idx ' + 'HTTP/1.2'),
           (a, m + 'X /idx ' + v), (a, m + ' ' + v), (m + ' /' + fill(64, 3) + 'A ' + v, m + ' /' + fill(64, 3) + 'B ' + v),
           (m + ' /' + fill(64, 3) + 'A ' + v, m.lower() + ' /' + fill(64, 3) + 'a ' + v)]
    return rel

def histories(rng, quick):
    """what the same process was asked JUST BEFORE: a long message then a short one, many headers then none, a refused message then
    a good one, two messages that are equal under some key (case, prefix, length, trimmed form) but not equal, the same lookup over
    two different header lists.  Every case is judged on its own; a residue of the earlier one shows in the later one."""
    mini = [('GET', '/', 'HTTP/1.1', [], b''), ('get', '', 'http/1.0', [], b'\x00'), ('HEAD', '*', 'HTTP/0.9', [('a', '')], b''), ('POST', '/p', 'HTTP/2.0', [('', '')], b'b')]
    bigs = [('POST', '/upload/' + fill(700, 1), 'HTTP/1.1', [('X-H%d' % k, fill(40 + k, k)) for k in range(60)] + [('Content-Length', '3000')], fill_bytes(3000, 5)),
            ('PUT', '/' + 'é' * 400, 'HTTP/2.0', [('Ключ', '€' * 500), ('Host', 'h')], ('😀' * 300).encode()),
            ('OPTIONS', '*', 'HTTP/1.0', [('Same', 'v%d' % k) for k in range(300)], b'\r\n\r\n' * 200),
            ('PATCH', '/a?b=c#d', 'HTTP/1.1', [('A', 'b: c: d'), ('Content-Length', '5')], b'hello world, more than five')]
    bad = [b'GETT / HTTP/1.1\r\nHost: h\r\nA: b\r\n\r\nbody', b'GET / HTTP/1.2\r\nHost: h\r\n\r\nbody', b'GET /\r\nHost: h\r\n\r\n', b'\xffGET / HTTP/1.1\r\nHost: h\r\n\r\n',
           b'POST /p HTTP/1.1 x\r\nContent-Length: 4\r\n\r\nbody', b'', b'\r\n', b'GET / HTTP/1.1\xff\r\nA: b\r\n\r\n']
    for big in bigs:
        for small in mini:
            yield 'rt', big, False
            yield 'rt', small, True
            # ... through the other entry points
            yield 'parse', serialise(*big), 'history'
            yield 'parse', serialise(*small), 'history'
            yield 'rt', small, False
            # refused in between: whatever the refused message left behind must not show
            b = bad[rng.below(len(bad))]
            yield 'rt', big, False
            yield 'parse', b, 'history'
            yield 'rt', small, False
            yield 'parse', b, 'history'
            yield 'parse', serialise(*small), 'history'
            # head that ends in a line that is not UTF-8 (the head is cut short there), then a good one
            yield 'parse', serialise(big[0], big[1], big[2], big[3][:3], b'')[:-2] + b'Bad: \xff\xfe\r\nLater: x\r\n\r\nbody', 'history'
            yield 'rt', small, False
    # growing and shrinking: the same request with 0..12 headers up and down, bodies of 0..12 bytes down and up
    m, v = pick_mv(rng)
    for n in list(range(0, 13)) + list(range(12, -1, -1)):
        yield 'rt', (m, '/g', v, [('H%d' % k, 'v%d' % k) for k in range(n)], fill_bytes(12 - n, n)), False
    for n in [40, 3, 39, 4, 0, 41, 1]:
        yield 'rt', (m, '/' + fill(n, 2), v, [(fill(n, 3), fill(40 - min(n, 40), 4))], fill_bytes(n, 1)), False
    # equal twice, then different in ONE place (same length everywhere)
    base = ('POST', '/same', 'HTTP/1.1', [('Host', 'h'), ('X-Tok', 'aaaa'), ('Accept', '*/*')], b'body')
    yield 'rt', base, True
    yield 'rt', base, True
    for var in [('POST', '/same', 'HTTP/1.1', [('Host', 'h'), ('X-Tok', 'aaab'), ('Accept', '*/*')], b'body'),
                ('POST', '/same', 'HTTP/1.1', [('Host', 'h'), ('X-Tok', 'aaaa'), ('Accept', '*/*')], b'bodz'),
                ('POST', '/same', 'HTTP/1.1', [('Host', 'h'), ('X-Tol', 'aaaa'), ('Accept', '*/*')], b'body'),
                ('POST', '/samf', 'HTTP/1.1', [('Host', 'h'), ('X-Tok', 'aaaa'), ('Accept', '*/*')], b'body'),
                ('POST', '/same', 'HTTP/1.0', [('Host', 'h'), ('X-Tok', 'aaaa'), ('Accept', '*/*')], b'body'),
                ('post', '/same', 'HTTP/1.1', [('Host', 'h'), ('X-Tok', 'aaaa'), ('Accept', '*/*')], b'body'),
                ('POST', '/same', 'HTTP/1.1', [('host', 'h'), ('X-Tok', 'aaaa'), ('Accept', '*/*')], b'body'),
                ('POST', '/same', 'HTTP/1.1', [('Host', 'h'), ('Accept', '*/*'), ('X-Tok', 'aaaa')], b'body'),
                ('POST', '/same', 'HTTP/1.1', [('Host', 'h'), ('X-Tok', 'aaaa')], b'body'),
                ('POST', '/same', 'HTTP/1.1', [('Host', 'h'), ('X-Tok', 'aaaa'), ('Accept', '*/*')], b''),
                ('POST', '/same', 'HTTP/1.1', [('Host', 'h'), ('X-Tok', 'aaaa'), ('Accept', '*/*')], b'body\x00')]:
        yield 'rt', base, False
        yield 'rt', var, True
        yield 'parse', serialise(*base), 'history'
        yield 'parse', serialise(*var), 'history'
    # request lines: every method / version pair with its relatives, in both orders, through the line reader and as a message
    pairs = [(m, v) for m in METHODS for v in VERSIONS]
    for i, (m, v) in enumerate(pairs):
        m2 = METHODS[(METHODS.index(m) + 1 + i % 7) % 9]
        if m2 == m: m2 = METHODS[(METHODS.index(m) + 1) % 9]
        v2 = VERSIONS[(VERSIONS.index(v) + 1 + i % 3) % 4]
        if v2 == v: v2 = VERSIONS[(VERSIONS.index(v) + 1) % 4]
        rel = _line_relatives(m, v, m2, v2)
        for k, (a, b) in enumerate(rel):
            if quick and (i + k) % 3 and k > 3: continue
            for x, y in [(a, b), (b, a)]:
                yield 'line', x.encode(), 'history-line'
                yield 'line', y.encode(), 'history-line'
                if (i + k) % 2:
                    yield 'parse', (x + '\r\nHost: x\r\n\r\n').encode(), 'history-line'
                    yield 'parse', (y + '\r\nHost: y\r\n\r\nb').encode(), 'history-line'
    # two texts of the same length with the same first P and the same last P bytes that differ in ONE middle byte (a fingerprint of
    # length + prefix / suffix / sampled bytes calls them equal), one right after the other: request line, header line, lookup, message
    for P in ([8, 16, 32, 64, 128, 256, 1024, 4096] if quick else [4, 8, 16, 32, 48, 64, 100, 128, 256, 512, 1024, 2048, 4096, 8192]):
        for j in range(2 if quick else 6):
            m, v = pick_mv(rng)
            ta, tb = ['/' + fill(P, 3) + c + fill(P, 5) for c in (('A', 'B') if j % 2 == 0 else ('x', 'X'))]
            for x, y in [(ta, tb), (tb, ta)]:
                yield 'line', (m + ' ' + x + ' ' + v).encode(), 'history-fingerprint'
                yield 'line', (m + ' ' + y + ' ' + v).encode(), 'history-fingerprint'
                yield 'parse', (m + ' ' + x + ' ' + v + '\r\nHost: h\r\n\r\n').encode(), 'history-fingerprint'
                yield 'parse', (m + ' ' + y + ' ' + v + '\r\nHost: h\r\n\r\n').encode(), 'history-fingerprint'
                yield 'rt', (m, x, v, [('X-Tok', x), (x[1:], 'v')], x.encode()), False
                yield 'rt', (m, y, v, [('X-Tok', y), (y[1:], 'v')], y.encode()), False
                yield 'rt', (m, '/', v, [('X-Tok', x)], b''), False
                yield 'rt', (m, '/', v, [('X-Tok', y)], b''), False
                yield 'hdr', ('X-Tok', x, '\r\n')
                yield 'hdr', ('X-Tok', y, '\r\n')
                yield 'hdr', (x, 'v', '\r\n')
                yield 'hdr', (y, 'v', '\r\n')
                yield 'lookup', ([('Pad', '0'), (x, '1'), (y, '2')], x)
                yield 'lookup', ([('Pad', '0'), (x, '1'), (y, '2')], y)
                yield 'lookup', ([('Pad', '0'), (x, '1')], y)
    # header lines: relatives of a line
    for n, x in [('Host', 'example.com'), ('Content-Length', '12'), ('X-A', 'b: c'), ('', ''), ('é', 'ü')]:
        for n2, x2 in [(n.lower(), x), (n.upper(), x), (n, x.upper()), (n, x + 'x'), (n, x[:-1]), (n + 'x', x), (n[:-1], x), (n, ''), ('', x), (n, x + ': ' + x), (n + ':', x), (x, n), (n, x)]:
            if ': ' in n2: continue
            for (a, b), (c, d) in [((n, x), (n2, x2)), ((n2, x2), (n, x))]:
                yield 'hdr', (a, b, '\r\n')
                yield 'hdr', (c, d, '\r\n')
    # lookups: the same wanted name over different lists (hit far down a long list, then a short list; miss then hit; other case)
    long = [('H%d' % k, 'v%d' % k) for k in range(40)]
    for q in ['Host', 'host', 'HOST', 'X-Id', 'H39', 'h0']:
        lists = [long + [('Host', 'far')], [('Host', 'near')], [], [('Hos', 'x')], long[:20] + [('host', 'mid')] + long[20:], [('X-Id', '1'), ('Host', 'second')], [('HOST', 'upper')],
                 long, [('x-id', 'low')], [('Host', 'a'), ('Host', 'b')], [('h0', 'lower'), ('H0', 'upper')], long[::-1]]
        for a in lists:
            for b in lists:
                if quick and rng.chance(1, 2): continue
                yield 'lookup', (a, q)
                yield 'lookup', (b, q)
        for a in lists[:6]:
            for q2 in [q.lower(), q.upper(), q.swapcase(), q + 'x', q[:-1]]:
                yield 'lookup', (a, q)
                yield 'lookup', (a, q2)
                yield 'lookup', (a, q)

FOLD_PAIRS = [('\u0131', 'I'), ('\u0131', 'i'), ('\u0130', 'i'), ('\u0130', 'I'), ('\u0130', 'i\u0307'), ('\ufb01', 'FI'), ('\ufb01', 'fi'), ('\ufb00', 'FF'), ('\u0149', '\u02bcN'),
              ('\u01f0', 'J\u030c'), ('\u00e9', 'e\u0301'), ('\u00c9', 'E\u0301'), ('\u00c9', 'e\u0301'), ('E\u0301', 'e\u0301'), ('\u212b', '\u00e5'), ('\u212b', '\u00c5'), ('\u2126', '\u03c9'),
              ('\u2126', '\u03a9'), ('\u00b5', '\u03bc'), ('\u00b5', '\u039c'), ('\u03c2', '\u03c3'), ('\u03a3', '\u03c2'), ('\u0391\u03a3', '\u03b1\u03c3'), ('\u0391\u03a3', '\u03b1\u03c2'),
              ('\u03b1\u03c2', '\u03b1\u03c3'), ('\u03a3', '\u03c3'), ('\u01c5', '\u01c4'), ('\u01c6', '\u01c4'), ('\u1fb3', '\u0391\u0399'), ('\u1fbc', '\u1fb3'), ('\u1e9e', '\u00df'), ('\u1e9e', 'ss'),
              ('\u00df', 'ss'), ('\u1e9e', 'SS'), ('\u2167', '\u2177'), ('\u24b6', '\u24d0'), ('\uff21', '\uff41'), ('\uff21', 'A'), ('\uff41', 'a'), ('\U00010400', '\U00010428'), ('\ua640', '\ua641'),
              ('\u10a0', '\u2d00'), ('\u01f1', '\u01f3'), ('\u01f2', '\u01f3'), ('\u1d43', 'a'), ('\u00aa', 'a'), ('\u00aa', 'A'), ('\u013f', '\u0140'), ('\u0178', '\u00ff'), ('\u023a', '\u2c65'),
              ('\u023f', '\u2c7e'), ('\u0250', '\u2c6f'), ('\uab70', '\u13a0'), ('\u13f8', '\u13f0'), ('\u0500', '\u0501'), ('\u212a', '\uff2b'), ('\u212a', 'k'), ('\u0390', '\u1fd3'),
              ('x\u00ad', 'x'), ('x\u200b', 'x'), ('x\u200d', 'X'), ('\ufeffHost', 'Host'), ('Host\u200b', 'host')]

def unicode_names(rng, quick):
    """names that differ only in the case of a non-ASCII letter (must be found) or that a Unicode-aware comparison - upper-casing,
    full case folding, normalisation, dropping ignorable characters - would wrongly call equal (must not be found).  Judged on the
    implementation alone with Python's str.lower as the reference."""
    for a, b in FOLD_PAIRS:
        for x, y in [(a, b), ('X-' + a, 'x-' + b), (a + '-Id', b + '-ID')]:
            for hs, q in [([('n', '0'), (x, '1'), (y, '2')], y), ([('n', '0'), (y, '1'), (x, '2')], x), ([(x, '1')], y), ([(y, '1')], x), ([(x, '1'), (y, '2')], x), ([(x.upper(), '1'), (y.lower(), '2')], y)]:
                yield 'lookupu', (hs, q)

IGNORABLE = ['\u00ad', '\u200b', '\u200c', '\u200d', '\u2060', '\ufeff', '\u0301', '\u034f', '\u180e', '\ufe0f', '\U000e0001']

def _compat_forms(tok):
    full = ''.join(chr(ord(c) + 0xFEE0) if '!' <= c <= '~' else c for c in tok)
    bold = ''.join(chr(0x1D400 + ord(c) - 65) if 'A' <= c <= 'Z' else chr(0x1D7CE + ord(c) - 48) if '0' <= c <= '9' else c for c in tok)
    circ = ''.join(chr(0x24B6 + ord(c) - 65) if 'A' <= c <= 'Z' else c for c in tok)
    out = [full, full.lower(), bold, circ, tok[0] + full[1:], full[0] + tok[1:], tok[:-1] + full[-1]]
    out += [tok.replace('/', '\u2044'), tok.replace('/', '\u2215'), tok.replace('/', '\uff0f'), tok.replace('.', '\u2024'), tok.replace('.', '\uff0e'), tok.replace('.', '\u00b7'),
            tok.replace('1', '\u00b9'), tok.replace('1', '\u0661'), tok.replace('1', '\uff11'), tok.replace('2', '\u00b2'), tok.replace('0', '\u0660'), tok.replace('0', '\u2070'), tok.replace('0', 'O'),
            tok.replace('1', 'l'), tok.replace('1', 'I'), tok.replace('O', '0'), tok.replace('E', '\u0415'), tok.replace('T', '\u0422'), tok.replace('P', '\u0420'), tok.replace('H', '\u041d'),
            tok.replace('A', '\u0391'), tok.replace('C', '\u0421'), tok.replace('S', '\u0405'), tok.replace('T', '\u1d1b'), tok.replace('S', '\u017f'), tok.replace('I', '\u0131'), tok.replace('I', '\u0130')]
    return [o for o in out if o != tok]

def normalised_tokens(rng, quick):
    """every method and version with an ignorable character (soft hyphen, zero-width space / joiner, word joiner, BOM, a combining
    mark, a variation selector) before, after and inside it, and in compatibility spellings (full width, mathematical bold, circled,
    superscript / other-script digits, look-alike letters, other slashes and dots): all unknown tokens"""
    for toks, is_method in [(METHODS, True), (VERSIONS, False)]:
        for tok in toks:
            forms = []
            for ig in IGNORABLE:
                poss = list(range(len(tok) + 1))
                if quick: poss = [0, len(tok)] + [1 + rng.below(max(1, len(tok) - 1))]
                forms += [tok[:p] + ig + tok[p:] for p in poss]
                forms += [(tok[:p] + ig + tok[p:]).lower() for p in poss[:2]]
            forms += _compat_forms(tok)
            for f in forms:
                others = (VERSIONS if is_method else METHODS)
                for o in ([others[rng.below(len(others))], others[rng.below(len(others))].lower()] if quick else others):
                    s = (f + ' /x ' + o) if is_method else (o + ' /x ' + f)
                    yield 'line', s.encode(), 'normalised-token'
                    if not quick or rng.chance(1, 4):
                        yield 'parse', (s + rng.choice(['\r\n', '\n']) + 'Host: h\r\n\r\n').encode(), 'normalised-token'
    # the ignorable character right before / after the line, around the blanks and inside the target (the target keeps it)
    for ig in IGNORABLE:
        for m, v in ([(rng.choice(METHODS), rng.choice(VERSIONS)) for _ in range(3)] if quick else [(m, v) for m in METHODS for v in VERSIONS]):
            for s in [ig + m + ' / ' + v, m + ' / ' + v + ig, m + ig + ' / ' + v, m + ' ' + ig + '/ ' + v, m + ' /' + ig + ' ' + v, m + ' / ' + ig + v, m + ' ' + ig + ' ' + v,
                      m + ' / ' + v + ig + '\r\n', ig, m + ' /a' + ig + 'b ' + v]:
                yield 'line', s.encode(), 'normalised-token'
                yield 'parse', (s + '\r\nHost: h\r\n\r\n').encode(), 'normalised-token'
            yield 'rt', (m, '/a' + ig + 'b', v, [(ig, ig), ('a' + ig, ig + 'b'), (ig + 'Host', 'h' + ig)], ig.encode()), False

def field_relations(rng, quick):
    """two parts of ONE message that are equal, prefixes of each other, case variants of each other, or that state something about
    each other (a length, a host)"""
    for m in METHODS:
        for v in VERSIONS:
            line = m + ' / ' + v
            yield 'rt', (m, v, v, [(m, v)], line.encode()), False                                # the target IS the version
            yield 'rt', (m, m, v, [(v, m), (m, '/ ' + v)], (line + '\r\n\r\n').encode()), False   # the target IS the method; a header line that reads like a request line
            if quick and rng.chance(1, 2): continue
            yield 'rt', (m, '/' + v, v.lower(), [('X', line), (line, ''), ('', line), (line, line)], b''), False
            yield 'rt', (m.lower(), '/' + m, v, [('Method', m), (m.lower(), m.upper()), ('Version', v), (v, v.lower())], line.encode()), False
            yield 'line', (m + ' ' + v + ' ' + v).encode(), 'field-relations'
            yield 'line', (m + ' ' + m + ' ' + v).encode(), 'field-relations'
            yield 'line', (m + ' ' + v.lower() + ' ' + v).encode(), 'field-relations'
            yield 'line', (m + ' ' + v + ' ' + v + ' ' + v).encode(), 'field-relations'
            yield 'line', (m + ' ' + v + '/ ' + v).encode(), 'field-relations'
            yield 'line', (m + ' /' + v + ' ' + v).encode(), 'field-relations'
            yield 'line', (m + ' ' + v[:-1] + ' ' + v).encode(), 'field-relations'
            yield 'line', (m + ' ' + v + ' ' + v[:-1]).encode(), 'field-relations'
    names = [('A', 'B'), ('Host', 'Value'), ('a', 'a'), ('X-A', 'X-A: X-A'), ('Content-Length', 'Content-Length'), ('n', 'N')]
    for a, b in names:
        m, v = pick_mv(rng)
        yield 'rt', (m, '/', v, [(a, b), (b.replace(': ', ':'), a)], b''), False
        yield 'rt', (m, '/', v, [(a, b), (a + b.replace(': ', ':'), ''), (a, b + a), (a[:-1], b), (a + '-', b)], (a + ': ' + b + '\r\n').encode()), False
        yield 'rt', (m, '/' + a, v, [(a, '/' + a), ('/' + a, a)], a.encode()), False
        yield 'rt', (m, '/', v, [(a, a + ': ' + b), (a + ':' + b.replace(': ', ':'), ''), (a, ': ' + b), (a, b + ': ')], b''), False
    # a declared length against the other lengths of the message: number of headers, head, whole message, head + its own digits
    for body in [b'', b'hello', fill_bytes(100, 1), fill_bytes(1000, 2)]:
        for extra in [0, 1, 5, 30]:
            m, v = pick_mv(rng)
            hs0 = [('Host', 'h')] + [('X%d' % k, 'y') for k in range(extra)]
            for name in ['Content-Length', 'content-length']:
                for pos in (0, len(hs0)):
                    cands = set()
                    for guess in range(4):
                        probe = hs0[:pos] + [(name, '0' * (guess + 1))] + hs0[pos:]
                        head = len(serialise(m, '/cl', v, probe, b''))
                        cands |= {head, head + len(body), head - 2, head - 4, len(probe), len(probe) + 1, len(body) + len(probe)}
                    for c in sorted(cands):
                        if quick and rng.chance(2, 3): continue
                        yield 'rt', (m, '/cl', v, hs0[:pos] + [(name, str(c))] + hs0[pos:], body), False
    # Host against an absolute-form target: equal, other case, without / with another port, another host, empty, missing, twice
    for t, th in [('http://a.example:80/p?q', 'a.example:80'), ('https://A.Example/p', 'A.Example'), ('http://[::1]:8080/', '[::1]:8080'), ('http://user@h/', 'h'), ('h:443', 'h:443')]:
        for hosts in [[th], [th.lower()], [th.upper()], [th.split(':')[0]], [th + ':81'], ['b.example'], [''], [], [th, th], [th, 'b.example'], ['b.example', th], [' ' + th], [th + ' '], [th + '.'], ['x' + th]]:
            for m in (['GET', 'CONNECT', 'OPTIONS'] if not quick else [rng.choice(['GET', 'CONNECT', 'OPTIONS', 'POST'])]):
                v = rng.choice(VERSIONS)
                name = rng.choice(['Host', 'host', 'HOST'])
                yield 'rt', (m, t, v, [('Accept', '*/*')] + [(name, h) for h in hosts], b''), False
                yield 'parse', serialise(m, t, v, [(name, h) for h in hosts], b'', sp=''), 'field-relations'

LEN_SPECIAL_QUICK = [998, 999, 1000, 1001, 2000, 2083, 2084, 4000, 5000, 7999, 8000, 8001, 8189, 8190, 12288, 20000]
LEN_SPECIAL_MORE = [30000, 32000, 50000, 60000, 64000, 100000, 200000, 262144]
CNT_SPECIAL_QUICK = [95, 96, 97, 149, 150, 151, 199, 201, 249, 250, 251, 299, 300, 301, 499, 500, 501, 749, 750, 751, 999, 1001, 1999, 2000, 2001]
REP_COUNTS = [1, 2, 3, 4, 5, 7, 8, 9, 10, 11, 15, 16, 17, 31, 32, 33, 63, 64, 65, 100, 127, 128, 129, 255, 256, 257]

def every_length(rng, quick):
    """every length 0..300 of the target, a header name, a header value and the body; the lengths servers commonly limit (1000, 2083,
    8000, 8190 ...); header counts at round numbers; how often a separator may occur in one field"""
    top = 301 if quick else 1101
    for L in range(0, top):
        m, v = pick_mv(rng)
        k = L % 4
        yield 'rt', (m, fill(L, L), v, [('Host', 'h')] if k else [], b'b' if k == 1 else b''), False
        yield 'rt', (m, '/', v, [(fill(L, L + 1), fill(L, L + 2)), ('After', 'x')], fill_bytes(L, L)), False
        if k == 0 or not quick:
            yield 'line', (m + ' ' + fill(L, L) + ' ' + v).encode(), 'every-length'
            yield 'line', (m + ' ' + fill(L, L) + ' ' + v + 'x').encode(), 'every-length'
            yield 'hdr', (fill(L, L), fill(300 - L if L <= 300 else L, L), rng.choice(['\r\n', '\n', '']))
    for L in (LEN_SPECIAL_QUICK if quick else LEN_SPECIAL_QUICK + LEN_SPECIAL_MORE):
        m, v = pick_mv(rng)
        yield 'rt', (m, '/' + fill(L - 1, L), v, [('Host', 'h')], b''), False
        yield 'rt', (m, '/', v, [('X-Long', fill(L, L + 1)), ('After', 'x')], b'b'), False
        yield 'rt', (m, '/', v, [(fill(L, L + 2), 'v'), ('After', 'x')], b'b'), False
        yield 'rt', (m, '/', v, [('N', fill(L - 5, L))], fill_bytes(L, L)), False
        yield 'parse', (m + ' /' + fill(L, L) + ' HTTP/1.2\r\n\r\n').encode(), 'every-length'
        # the whole request LINE (with its CRLF) of exactly L bytes
        n = L - len((m + '  ' + v + ' \r\n').encode())
        if n > 0: yield 'rt', (m, '/' + fill(n - 1, L), v, [], b''), False
    for n in (CNT_SPECIAL_QUICK if quick else CNT_SPECIAL_QUICK + [2999, 3000, 3001, 7999, 8000, 8001, 19999, 20001]):
        m, v = pick_mv(rng)
        yield 'rt', (m, '/', v, [('K%d' % k, 'v%d' % (n - k)) for k in range(n)], b'body'), False
    for n in REP_COUNTS:
        m, v = pick_mv(rng)
        yield 'rt', (m, '/', v, [('N', 'v: ' * n), ('M', ': ' * n + 'x'), ('a:' * n, ':' * n), ('After', 'a, ' * n)], b''), False
        yield 'rt', (m, '/' + '?a=b' * n + '#' * n, v, [(':' * n, ' ' * n), ('After', '; ' * n), ('=' * n, '=' * n)], b'\r\n' * n), False
        yield 'rt', (m, '/' + 'a/' * n + '%41' * n, v, [('\t' * n, '\t' * n), ('After', '"' * n)], b'\x00' * n), False
        yield 'hdr', ('N', 'v: ' * n, '\r\n')
        yield 'line', (m + ' ' * n + '/ ' + v).encode(), 'every-length'
        yield 'line', (m + ' /' + ' ' * n + v).encode(), 'every-length'
        yield 'line', (m + ' / ' + v + ' ' * n).encode(), 'every-length'
        yield 'line', (' ' * n + m + ' / ' + v).encode(), 'every-length'
        yield 'line', (m + ' / ' + v + ' x' * n).encode(), 'every-length'

def all_cases2(rng, quick):
    for f in (aligned_multibyte, absolute_alignment, escapes_comments, histories, unicode_names, normalised_tokens, field_relations, every_length):
        r = rng.fork('gen_c14/2:' + f.__name__)
        for case in f(r, quick):
            yield (f.__name__,) + tuple(case)
