"""Server-level plumbing: generated document trees, the `serve` harness mode, result parsing."""
import re, hashlib
from vlib import common as C

TS = re.compile(rb'((?:Date|Last-Modified)-Unix-Epoch-Nanos: )(\d+)')

def mask_ts(raw):
    """canonical form of response bytes: the two timestamp header values are masked, and the
    lines of a text/plain echo body (HashMap iteration order in the real code) are sorted"""
    raw = TS.sub(lambda m: m.group(1) + b'0' * len(m.group(2)), raw)
    i = raw.find(b'\r\n\r\n')
    if i > 0 and b'Content-Type: text/plain\r\n' in raw[:i + 2] and b' is ' in raw[i + 4:] and raw.startswith(b'HTTP/1.1 200'):
        body = raw[i + 4:]
        raw = raw[:i + 4] + b'\r\n'.join(sorted(body.split(b'\r\n')))
    return raw

def err_text(r):
    """the opaque error text of a case, recovered from the implementation's answer (status >= 400):
    the body, or for bodiless answers a text with the advertised number of chars and bytes"""
    raw = r['writes'][0] if r['writes'] else (C.unhx(r['head'][4:]) if r['head'].startswith('ret:') and len(r['head']) > 4 else b'')
    i = raw.find(b'\r\n\r\n')
    m = re.match(rb'HTTP/1\.1 (\d{3}) ', raw)
    if i < 0 or not m or int(m.group(1)) < 400: return b''
    body = raw[i + 4:]
    if body: return body
    cl = re.search(rb'\r\nContent-Length: (\d+)\r\n', raw[:i + 2])
    cr = re.search(rb'\r\nContent-Range: bytes 0-(\d+)/', raw[:i + 2])
    if not cl: return b''
    nbytes = int(cl.group(1)); nchars = int(cr.group(1)) if cr else nbytes
    extra = nbytes - nchars
    if 0 <= extra <= 3 * nchars:
        # any text with that many characters and bytes does (the text is opaque to the model): 4-, 3-, 2- and 1-byte characters
        n4 = min(nchars, extra // 3); rem = extra - 3 * n4
        n3 = min(nchars - n4, rem // 2); rem -= 2 * n3
        n2 = min(nchars - n4 - n3, rem); rem -= n2
        if rem == 0:
            return '\U0001F600'.encode() * n4 + '\u20ac'.encode() * n3 + '\u00e9'.encode() * n2 + b'x' * (nchars - n4 - n3 - n2)
    return b'x' * nbytes

class Tree:
    """files: {relpath(bytes) under the scratch base: content}; dirs, links likewise; cwd: served root (relpath)"""
    _n = [0]
    def __init__(self, cwd):
        import os, tempfile
        self.cwd = cwd if isinstance(cwd, bytes) else cwd.encode()
        self.files, self.dirs, self.links = {}, [], {}
        Tree._n[0] += 1
        # absolute root of this tree on disk: both sides see the same path strings
        self.root = os.path.join(tempfile.gettempdir(), 'rwsv-%d-%d' % (os.getpid(), Tree._n[0])).encode()
    def file(self, rel, content):
        self.files[rel if isinstance(rel, bytes) else rel.encode()] = content; return self
    def dir(self, rel):
        self.dirs.append(rel if isinstance(rel, bytes) else rel.encode()); return self
    def link(self, rel, target):
        self.links[rel if isinstance(rel, bytes) else rel.encode()] = target if isinstance(target, bytes) else target.encode(); return self
    def line(self):
        es = [f'F:{C.hx(p)}:{C.hx(c)}' for p, c in self.files.items()] + [f'D:{C.hx(p)}' for p in self.dirs] + \
             [f'L:{C.hx(p)}:{C.hx(t)}' for p, t in self.links.items()]
        return f'tree {C.hx(self.root)} {C.hx(self.cwd)} ' + (','.join(es) if es else '-')
    def clone(self):
        """the same tree under a scratch root of its own (a harness process owns the directory of its tree: two processes never share one)"""
        n = Tree(self.cwd)
        n.files, n.dirs = dict(self.files), list(self.dirs)
        n.links = {k: v.replace(self.root[1:], n.root[1:]) for k, v in self.links.items()}
        for a, v in self.__dict__.items():
            if a not in ('cwd', 'files', 'dirs', 'links', 'root', 'manifest', 'manifest_ok', 'setup_ok') and not a.startswith('_'): setattr(n, a, v)
        return n
    def under_root(self):
        pre = self.cwd + b'/'
        return {p[len(pre):]: c for p, c in self.files.items() if p.startswith(pre)}
    def outside_root(self):
        pre = self.cwd + b'/'
        return {p: c for p, c in self.files.items() if not p.startswith(pre)}

def marker(tag):
    return b'SECRET-' + hashlib.sha256(tag if isinstance(tag, bytes) else tag.encode()).hexdigest()[:16].encode()

def gen_tree(rng, depth_above=None, small=False):
    """a tree with the served root nested `depth_above` levels deep, a uniquely marked secret
    at every ancestor level and in sibling directories, and assorted content under the root"""
    da = rng.range(0, 4) if depth_above is None else depth_above
    comps = [b'lvl%d' % i for i in range(da)] + [b'root']
    t = Tree(b'/'.join(comps))
    for i in range(da + 1):
        anc = b'/'.join(comps[:i])
        pre = anc + b'/' if anc else b''
        t.file(pre + b'secret.txt', marker(pre + b'secret.txt') + b'\n')
        t.file(pre + b'sib%d/secret.html' % i, marker(pre + b'sib/secret.html'))
        if rng.chance(1, 2): t.file(pre + b'index.html', marker(pre + b'index.html'))
        # every file name the server itself goes looking for (its own pages, the not-found page, its configuration), marked, at
        # every level above the root: a lookup that walks up, or resolves its own file against the wrong directory, serves one
        from vlib import vocab as V
        for own in sorted({b'404.html', b'style.css', b'script.js', b'favicon.svg', b'rws.config.toml', b'index.htm'} | {f.lstrip('/').encode() for f in V.literals()['file'][:40]}):
            if own in (b'index.html', b'secret.txt'): continue
            t.file(pre + own, marker(pre + own) + b' ' + own)
    root = t.cwd + b'/'
    sizes = [0, 1, 2, 3, 10, 100] if small else [0, 1, 2, 5, 10, 255, 256, 1000, 8191, 8192, 8193, 9999, 10000, 10001]
    exts = [b'.txt', b'.html', b'.css', b'.js', b'.json', b'.png', b'.bin', b'', b'.tar.gz', b'.TXT', b'.svg', b'.pdf', b'.unknownext']
    names = []
    for i in range(rng.range(3, 8)):
        nm = rng.choice([b'f', b'page', b'data', b'a.b', b'x-y_z', b'\xd1\x84\xd0\xb0\xd0\xb9\xd0\xbb', b'UP', b'.hidden', b'noext']) + (b'%d' % i) + rng.choice(exts)
        n = rng.choice(sizes)
        content = bytes((j * 131 + i * 17 + (j >> 8)) & 0xff for j in range(n)) if rng.chance(2, 3) else rng.bytes(n)
        sub = rng.choice([b'', b'', b'sub/', b'sub/deep/', b'dir.with.dots/'])
        t.file(root + sub + nm, content); names.append(sub + nm)
    t.file(root + b'sub/deep/keep.txt', b'keep')
    if rng.chance(2, 3): t.file(root + b'sub/index.html', b'<p>sub index</p>')
    if rng.chance(1, 2): t.file(root + b'page.html', b'<p>page</p>'); names.append(b'page.html')
    if rng.chance(1, 2): t.dir(root + b'emptydir')
    if rng.chance(1, 3): t.file(root + b'index.html', b'<p>own index</p>')
    if rng.chance(1, 3): t.file(root + b'404.html', b'<p>own 404</p>')
    if rng.chance(1, 2): t.file(root + b'allbytes.bin', bytes(range(256)) * 2); names.append(b'allbytes.bin')
    if rng.chance(1, 3): t.link(root + b'link.txt', b'sub/' + b'target.txt'); t.file(root + b'sub/target.txt', b'link target')
    # the .html fallback below a directory whose name has a dot, and for a multi-dot name
    if rng.chance(1, 2): t.file(root + b'v1.2/about.html', b'<p>about 1.2</p>'); names.append(b'v1.2/about.html')
    if rng.chance(1, 2): t.file(root + b'release.notes.html', b'<p>notes</p>'); names.append(b'release.notes.html')
    # links whose relative target climbs: inside the root, to an ancestor outside it, and above "/" (F41)
    if rng.chance(1, 4) and names:
        t.link(root + b'sub/up.lnk', b'../' + names[0]); names.append(b'sub/up.lnk')
    if rng.chance(1, 5):
        t.link(root + b'out.lnk', b'../' * (da + 1) + b'secret.txt'); names.append(b'out.lnk')
    if rng.chance(1, 5):
        depth = len(t.root.split(b'/')) - 1 + da + 1
        t.link(root + b'climb.lnk', b'../' * (depth + rng.range(0, 2)) + t.root[1:] + b'/secret.txt'); names.append(b'climb.lnk')
    # links two and three directories deep whose relative targets climb back to files INSIDE the root, with a marked namesake of
    # each target at every level ABOVE the root (a resolution against the wrong directory reads the namesake)
    if rng.chance(1, 2):
        t.file(root + b'notes.txt', b'the notes inside the root').file(root + b'sub/notes.txt', b'the notes inside sub')
        for i in range(da + 1):
            anc = b'/'.join(comps[:i]); pre = anc + b'/' if anc else b''
            t.file(pre + b'notes.txt', marker(pre + b'notes.txt') + b' notes').file(pre + b'sub/notes.txt', marker(pre + b'sub/notes.txt'))
        t.link(root + b'sub/deep/upup.lnk', b'../../notes.txt').link(root + b'sub/deep/up1.lnk', b'../notes.txt')
        t.link(root + b'sub/deep/er/up3.lnk', b'../../../notes.txt').link(root + b'sub/deep/er/mid.lnk', b'../../notes.txt')
        names += [b'sub/deep/upup.lnk', b'sub/deep/up1.lnk', b'sub/deep/er/up3.lnk', b'sub/deep/er/mid.lnk', b'notes.txt']
    # a directory reached through a link, holding a file link with a relative `..` target: what the kernel resolves (through the
    # real directory) and what a textual resolution from the requested path gives are different files
    if rng.chance(1, 3):
        t.file(root + b'real/data.txt', b'data next to real/deep').file(root + b'real/deep/own.txt', b'own')
        t.link(root + b'real/deep/rel.lnk', b'../data.txt').link(root + b'alias', b'real/deep')
        names += [b'alias/own.txt', b'alias/rel.lnk', b'real/deep/rel.lnk']
    # paths longer than any fixed cut a handler or a logger may apply to a request target (100, 128, 255, 256, 512 bytes), made of
    # two- and three-byte characters, in three alignments: for every cut one of them has a character straddling it
    if rng.chance(1, 2):
        seg2, seg3 = '\u043a\u0430\u0442\u0430\u043b\u043e\u0433-\u0441-\u0438\u043c\u0435\u043d\u0435\u043c'.encode(), '\u76ee\u5f55\u540d\u79f0\u5f88\u957f'.encode()
        for shift in (b'', b'a', b'ab'):
            p = b'/'.join([shift + seg2, seg2 * 2, seg3 * 3, seg2 + seg3, seg3 * 5, seg2 * 3]) + b'/' + '\u0441\u0442\u0440\u0430\u043d\u0438\u0446\u0430.txt'.encode()
            t.file(root + p, b'long path ' + shift)
            names.append(p)
    t.names = names
    return t

def parse_result(line):
    """`<head> w=<…> recv=<…> fl=<n>` -> dict"""
    m = re.match(r'^(.*?) w=(\S+) recv=(\S+) fl=(\d+)$', line)
    if not m:
        return dict(head=line, writes=[], recv=b'', flushes=0, raw=line)
    parts = [] if m.group(2) == '-' else m.group(2).split('.')
    writes = [C.unhx(x) for x in parts if not x.startswith('#')]          # the first buffer (full response)
    later = [int(x[1:]) for x in parts if x.startswith('#')]               # lengths of the later buffers
    return dict(head=m.group(1), writes=writes, later=later, recv=C.unhx(m.group(3)), flushes=int(m.group(4)), raw=line)

def canon(line):
    """mask the two timestamp headers inside the hex payloads of a serve result line"""
    r = parse_result(line)
    if not r['writes'] and not r['recv'] and not r['head'].startswith('ret:'):
        return line
    head = r['head']
    if head.startswith('ret:'):
        head = 'ret:' + C.hx(mask_ts(C.unhx(head[4:])))
    ws = '.'.join([C.hx(mask_ts(w)) for w in r['writes']] + ['#%d' % n for n in r.get('later', [])]) or '-'
    return f"{head} w={ws} recv={C.hx(mask_ts(r['recv']))} fl={r['flushes']}"

DEFAULT_ENV = [('RWS_CONFIG_IP', '127.0.0.1'), ('RWS_CONFIG_PORT', '7878'), ('RWS_CONFIG_THREAD_COUNT', '200'),
               ('RWS_CONFIG_CORS_ALLOW_ALL', 'true'), ('RWS_CONFIG_CORS_ALLOW_ORIGINS', ''), ('RWS_CONFIG_CORS_ALLOW_CREDENTIALS', ''),
               ('RWS_CONFIG_CORS_ALLOW_HEADERS', ''), ('RWS_CONFIG_CORS_ALLOW_METHODS', ''), ('RWS_CONFIG_CORS_EXPOSE_HEADERS', ''),
               ('RWS_CONFIG_CORS_MAX_AGE', '86400'), ('RWS_CONFIG_REQUEST_ALLOCATION_SIZE_IN_BYTES', '10000')]

def env_line(pairs=None):
    pairs = DEFAULT_ENV if pairs is None else pairs
    return 'env ' + (','.join(f'{C.hx(k)}={C.hx(v)}' for k, v in pairs) if pairs else '-')

def proc_line(raw, app='real', alloc=10000, ws='all', flush='ok', read_err=False):
    return f"proc {app} {alloc} {'e' if read_err else 'd:' + C.hx(raw)} {ws} {flush}"

def preq_line(raw, ws='all', flush='ok', read_err=False):
    return f"preq {'e' if read_err else 'd:' + C.hx(raw)} {ws} {flush}"

def aexec_line(raw, legacy=False):
    """the application handler called directly (App::execute / App::handle_request), no server loop in front of it"""
    return f"aexec {1 if legacy else 0} d:{C.hx(raw)}"

def run_stateful(argv, lines, nsetup=3):
    """serve mode keeps state (tree, env) per process.  `lines[:nsetup]` are the set-up lines
    (tree, env, manifest).  When the process dies on a case (stack overflow, abort) that case is
    answered `abort <rc>`, a fresh process is started, the set-up lines are replayed and the rest
    continues; returns (outputs aligned with `lines`, manifest baseline of the LAST process)."""
    import subprocess, os
    out = []
    setup = list(lines[:nsetup])
    pending = list(lines)
    replay = False
    baseline = None
    guard = 0
    while pending:
        feed = (setup + pending) if replay else pending
        data = ('\n'.join(feed) + '\n').encode()
        try:
            p = subprocess.run(argv, input=data, stdout=subprocess.PIPE, stderr=subprocess.DEVNULL, timeout=900)
            rc, raw = p.returncode, p.stdout
        except subprocess.TimeoutExpired as ex:
            rc, raw = 'timeout', (ex.stdout or b'')
        got = raw.decode('utf-8', 'replace').split('\n')
        if got and got[-1] == '': got.pop()
        if argv[0] == C.HARNESS_BIN:
            got = [g[1:] for g in got if g.startswith('\x01')]
        if replay:
            if len(got) >= nsetup: baseline = got[nsetup - 1]
            got = got[nsetup:] if len(got) >= nsetup else []
        elif len(got) >= nsetup:
            baseline = got[nsetup - 1]
        if len(got) >= len(pending):
            out.extend(got[:len(pending)]); break
        out.extend(got)
        verdict = f'abort {rc}'
        if rc == 3 and argv[0] == C.HARNESS_BIN:
            # the harness's watchdog (20 s of wall clock without an answer) ended the process.  A handler that really spins or blocks does
            # so again; a machine that stalled does not: the case is run once more, alone in a fresh process, before it is called an abort
            again = _run_once(argv, setup + [pending[len(got)]])
            if len(again) == len(setup) + 1: verdict = again[-1]
        out.append(verdict)
        pending = pending[len(got) + 1:]
        replay = True
        guard += 1
        if guard > 100:
            out.extend(['abort too-many'] * len(pending)); break
    return out, baseline

def _run_once(argv, lines):
    import subprocess
    try:
        p = subprocess.run(argv, input=('\n'.join(lines) + '\n').encode(), stdout=subprocess.PIPE, stderr=subprocess.DEVNULL, timeout=120)
    except subprocess.TimeoutExpired:
        return []
    got = p.stdout.decode('utf-8', 'replace').split('\n')
    return [g[1:] for g in got if g.startswith('\x01')]

def run_impl(lines, shards=1):
    return run_stateful([C.HARNESS_BIN, 'serve'], lines)[0]
