"""Helpers of props/c08.py (generator audit of C08): tree shapes, request families and connection kinds the
runtime probe did not produce before.

    extend_docroot(root, files, rng, tier, pages=True) -> info
        adds to a tree written by realbin.write_docroot (files: {url path: bytes} is extended in place with the
        regular files that can be asked for by their own name): names that differ in case only, names that are
        prefixes / suffixes / anagrams of one another, the same directory names at several levels, several directory
        index pages, a directory with an index page next to a page of the same stem, empty / one-byte / large files,
        multi-byte names, links to directories, link chains, a dangling link, an absolute link, links with the SAME
        link text in two directories (different targets), same base name + same size + same modification time; with
        pages=True also the files the built-in controllers look for in the served directory (index.html, 404.html,
        style.css, script.js, favicon.svg).  info: dict(targets=[…every extra target worth asking for…],
        links=[…], dirs=[…], big=[…])
    extra_requests(rng, files, info, tier) -> [dict(kind, raw, form, path, group)]
        request families; `group` names a set of requests that differ in ONE element only (the input class a memo
        keyed on too little needs) - they are served back to back and fired simultaneously by the probe
    run_jobs(server, jobs, conns, timeout) -> [bytes | Exception]
        like realbin.run_concurrent, with a connection kind per job:
          'plain'      connect, send, half-close, read to the end
          'nohalf'     the write side stays open (the server answers after its one read)
          'hold'       connect, stay silent for job['ms'] milliseconds (the worker sits in read), then send
          'slow'       small receive buffer, the answer is read in small pieces with pauses (the worker sits in write)
    token oracle: TOKEN / foreign_tokens(request, response)
"""
import os, re, socket, threading, time
from vlib import realbin as R

ALLOC = 10000          # default request-allocation-size-in-bytes: the server reads that much, once

# ----------------------------------------------------------------------------- tokens
# every generated request that carries client data which the server may echo carries a token of this shape; a
# response may only contain tokens of ITS OWN request ("no connection ever receives data belonging to another")
TOKEN = re.compile(rb'zq[0-9]+x[0-9]+zq|secret-of-connection-[0-9]+|value-of-another-connection-[0-9]+')      # applied to lower-cased bytes

def tokens_of(b):
    """client data can come back in the head (reflected Origin / requested headers) and in the body of an echo page; the body of a
    large answer is file content and is compared byte for byte anyway: only its first 8 KiB are searched"""
    low = (b if len(b) <= 20000 else b[:8192]).lower()
    if b'zq' not in low and b'-connection-' not in low: return set()
    return set(TOKEN.findall(low))

def foreign_tokens(raw_request, response):
    if not isinstance(response, (bytes, bytearray)) or not response: return set()
    got = tokens_of(response)
    return (got - set(TOKEN.findall(raw_request.lower()))) if got else got

class Tok:
    def __init__(self, rng): self.rng, self.n = rng, 0
    def __call__(self):
        self.n += 1
        return 'zq%dx%dzq' % (self.n, self.rng.below(10 ** 6))

# ----------------------------------------------------------------------------- the tree
PAGES = ['index.html', '404.html', 'style.css', 'script.js', 'favicon.svg']

def extend_docroot(root, files, rng, tier, pages=True):
    idx = [500]
    info = dict(targets=[], links=[], dirs=[], big=[], case=[], stems=[])
    def put(rel, content=None, size=None, binary=False, listed=True):
        idx[0] += 1
        if content is None:
            content = R.file_content(idx[0], size if size is not None else rng.choice([17, 256, 1000, 4097]), binary=binary)
        p = os.path.join(root, rel)
        os.makedirs(os.path.dirname(p), exist_ok=True)
        with open(p, 'wb') as fh: fh.write(content)
        if listed: files['/' + rel] = content
        return content
    def link(target, rel):
        p = os.path.join(root, rel)
        os.makedirs(os.path.dirname(p), exist_ok=True)
        try:
            os.symlink(target, p); info['links'].append('/' + rel)
        except OSError:
            pass
    # names that differ in case only (directory a/ and b/ already hold data.txt and page.html)
    for rel in ['a/DATA.txt', 'a/Data.TXT', 'a/data.TXT', 'a/PAGE.HTML', 'a/Page.html', 'b/DATA.TXT', 'B/data.txt', 'A/data.txt']:
        put(rel); info['case'].append('/' + rel)
    # prefixes, suffixes, anagrams, same length
    for rel in ['a/data.txt.bak', 'a/data.tx', 'a/data', 'a/xdata.txt', 'a/data.txt2', 'a/adta.txt', 'a/atad.txt', 'a/data.txt.html',
                'b/data', 'data', 'a/blob', 'a/blob.bin.bin']:
        put(rel)
    # the same directory names at several levels; the same file names in all of them
    for d in ['a/a/', 'a/b/', 'b/a/', 'b/b/', 'sub/deep/a/', 'a/sub/deep/', 'sub/a/', 'a/a/a/']:
        put(d + 'data.txt'); put(d + 'page.html')
        info['dirs'].append('/' + d)
    # several directory index pages (sub/index.html exists), every one different
    for d in ['a/', 'b/', 'a/a/', 'a/sub/', 'sub/deep/', 'dir.with.dots/', 'assets/', 'assets/img/']:
        put(d + 'index.html', b'<p>index of /%s #%d</p>' % (d.encode(), rng.below(10 ** 6)))
        info['dirs'].append('/' + d)
    # a directory with an index page NEXT TO a page of the same stem
    for d in ['', 'a/', 'sub/deep/']:
        put(d + 'guide/index.html', b'<p>guide directory under /%s</p>' % d.encode())
        put(d + 'guide.html', b'<p>guide page under /%s</p>' % d.encode())
        info['stems'] += ['/' + d + 'guide', '/' + d + 'guide/']
    # pages reached without their extension (page.html in '', a/, b/ …): the stems
    info['stems'] += ['/page', '/a/page', '/b/page', '/a/a/page', '/b/a/page', '/a/data.txt', '/a/data']
    # sizes: nothing, one byte, beyond every socket buffer default
    put('empty.txt', b''); put('a/empty.txt', b''); put('b/empty.html', b''); put('one.txt', b'1'); put('a/one.txt', b'2')
    for rel, size in [('big.bin', 200000), ('a/big.bin', 131073), ('big.txt', 65537)] + ([] if tier == 'quick' else [('b/big.bin', 6000001)]):
        put(rel, size=size, binary=rel.endswith('.bin')); info['big'].append('/' + rel)
    # larger than anything the kernel buffers for a connection whose client does not read (tcp_wmem max 4 MiB): asked for by the
    # stalled-reader probe only, not part of the request multiset
    put('stall.bin', content=bytes((j * 7 + (j >> 11) * 13 + 5) & 0xff for j in range(4096)) * 1465, listed=False)
    # multi-byte and unusual names (the server does not percent-decode the path: they are asked for as they are)
    for rel in ['a/naïve.txt', 'a/файл.txt', 'b/日本.html', 'a/pl+us.txt', 'a/per%41cent.txt', 'a/perAcent.txt',
                'a/x' * 40 + '.txt', 'a/' + 'long-name-' * 20 + '.txt']:
        put(rel)
    # same base name, same size AND same modification time in three directories
    try:
        for d in ['', 'a/', 'b/']:
            os.utime(os.path.join(root, d + 'same.json'), ns=(1700000000 * 10 ** 9, 1700000000 * 10 ** 9))
    except OSError:
        pass
    # links: to directories, chains, dangling, absolute, the same link text in two directories
    link('a', 'ln-a'); link('sub', 'ln-sub'); link('../b', 'a/ln-b'); link('..', 'sub/deep/ln-up')
    link('chain2.txt', 'chain1.txt'); link('a/chain3.txt', 'chain2.txt'); link('data.txt', 'a/chain3.txt')
    link('nowhere.txt', 'dangling.txt'); link('nowhere', 'a/dangling')
    link(os.path.join(root, 'b', 'data.txt'), 'abs.txt')
    link('data.txt', 'a/lnk.txt'); link('data.txt', 'b/lnk.txt'); link('data.txt', 'a/a/lnk.txt')
    link('page.html', 'a/lnk.html'); link('page.html', 'b/lnk.html')
    link('empty.txt', 'a/ln-empty.txt'); link('../big.txt', 'a/ln-big.txt')
    info['targets'] += ['/ln-a', '/ln-a/', '/ln-a/data.txt', '/ln-a/a/data.txt', '/ln-a/lnk.txt', '/ln-a/ln-b/data.txt', '/ln-sub', '/ln-sub/',
                        '/ln-sub/deep/up.html', '/sub/deep/ln-up/index.html', '/sub/deep/ln-up/deep/', '/a/ln-b/page', '/a/ln-b/', '/a/dangling/',
                        '/a//data.txt', '/a/./data.txt', '//a/data.txt', '/a/data.txt/', '/a/page.html/', '/emptydir/', '/a/lnk']
    if pages:
        put('index.html', b'<p>the index page of the served directory</p>', listed=False)
        put('404.html', b'<p>the not-found page of the served directory</p>', listed=False)
        put('style.css', b'body { color: #123456 } /* served directory */', listed=False)
        put('script.js', b'console.log("script of the served directory")', listed=False)
        put('favicon.svg', b'<svg xmlns="http://www.w3.org/2000/svg"/>', listed=False)
    info['targets'] += ['/' + p for p in PAGES] + ['/index', '/404', '/style', '/script.js?x=1', '/favicon.svg?x', '/index.html?q=1']
    return info

# ----------------------------------------------------------------------------- request families
def req(method, target, headers=(), body=b'', version='HTTP/1.1', eol=b'\r\n'):
    out = f'{method} {target} {version}'.encode('utf-8', 'surrogateescape') + eol
    for n, v in headers:
        out += n.encode() + b': ' + (v if isinstance(v, bytes) else v.encode('utf-8', 'surrogateescape')) + eol
    return out + eol + body

def pad_to(raw_head_fn, size):
    """raw_head_fn(k) -> request with k padding bytes; the request of exactly `size` bytes"""
    base = len(raw_head_fn(0))
    return raw_head_fn(max(0, size - base))

SIZES_QUICK = [4095, 4096, 4097, 8191, 8192, 8193, 9999, ALLOC]
SIZES_MORE = [511, 512, 513, 1023, 1024, 1025, 2047, 2048, 2049, 9000, 9500, 9990, ALLOC - 2, ALLOC - 1]

def extra_requests(rng, files, info, tier):
    out, seen = [], set()
    tok = Tok(rng)
    quick = tier == 'quick'
    def add(kind, raw, form=False, path=None, group=None, near=False):
        # near: a NEAR MISS of its family (its own answer differs from its siblings' although it looks like them): never thinned out,
        # generated before its siblings (so the reference pass serves it first) and also served all alone on a fresh instance
        if raw in seen or len(raw) > ALLOC: return
        seen.add(raw); out.append(dict(kind=kind, raw=raw, form=form, path=path, group=group, near=near,
                                       must=near or (kind.startswith('sized-') and len(raw) >= ALLOC - 1)))
    H = [('Host', 'localhost')]
    URLENC = ('Content-Type', 'application/x-www-form-urlencoded')
    paths = sorted(files)

    # ---- every step of the lookup: stems (.html rule), directories with and without the slash, links, the built-in names
    for t in info['stems'] + info['dirs'] + [d.rstrip('/') for d in info['dirs']] + info['targets'] + info['links']:
        add('lookup-step', req('GET', t, H), group='lookup')
    for t in info['stems'][:8] + info['dirs'][:6] + info['links']:
        add('lookup-step-range', req('GET', t, H + [('Range', rng.choice(['bytes=0-0', 'bytes=1-3', 'bytes=-2', 'bytes=2-', 'bytes=0-1,3-4']))]), group='lookup')
        add('lookup-step-head', req(rng.choice(['HEAD', 'OPTIONS']), t, H + [('Origin', 'http://a.example')]), group='lookup')
    # links whose range cannot be satisfied / is malformed (the existing family covers the four links of write_docroot)
    for lk in info['links']:
        add('link-range', req('GET', lk, H + [('Range', rng.choice(['bytes=9999999-', 'bits=0-1', 'bytes=5-1', 'bytes=a-b', 'bytes=0-9999999']))]), group='lookup')
    # query strings and fragments on files, stems and directories
    for t in ['/a/data.txt', '/a/page', '/a/', '/a', '/guide', '/sub/deep/up.html', '/big.txt']:
        for q in ['?v=1', '?v=2', '?', '?next=/', '#frag', '?a=b#c', '?x=/index.html']:
            add('query-variant', req('GET', t + q, H), group='q:' + t)

    # ---- several DIFFERENT large answers (the probe fires them together): the large files whole, from the second byte, as two parts, with another Origin
    for bp in info['big']:
        for hs in [[('Range', 'bytes=0-')], [('Range', 'bytes=1-')], [('Range', 'bytes=0-0,1-')], [('Origin', 'http://%s.example' % tok())], [('Range', 'bytes=-100000')]]:
            add('big-variant', req('GET', bp, H + hs), group='big:' + bp)
    # ---- ONE element differs: method, Origin, Range, header spelling, version, line ends
    sample = ['/a/data.txt', '/b/data.txt', '/data.txt', '/a/DATA.txt', '/a/page.html', '/same.json', '/a/same.json', '/b/same.json',
              '/a/empty.txt', '/a/big.bin', '/a/naïve.txt', '/a/lnk.txt', '/b/lnk.txt', '/a/guide', '/a/', '/style.css', '/', '/nope.txt']
    if quick:          # five of them, the first two always (a pair of namesakes)
        rest = sample[2:]; rng.shuffle(rest); sample = sample[:2] + rest[:3]
    else: sample += [rng.choice(paths) for _ in range(20)]
    for p in sample:
        g = 'one:' + p
        for m in ['GET', 'HEAD', 'OPTIONS', 'POST', 'PUT', 'DELETE']:
            add('method-variant', req(m, p, H + [('Origin', 'http://a.example'), ('Access-Control-Request-Method', 'PUT')]), group=g)
        for o in [None, 'http://a.example', 'https://foo.example', 'null', 'http://%s.example' % tok(), '', 'http://localhost']:
            add('origin-variant', req('GET', p, H + ([('Origin', o)] if o is not None else [])), group=g)
        for spec in ['bytes=0-0', 'bytes=0-1', 'bytes=1-1', 'bytes=-1', 'bytes=0-', 'bytes=1-', 'bytes=0-0,1-1', 'bytes=0-0, 1-1', 'bytes=9999999-', 'bytes=0-9999999']:
            add('range-variant', req('GET', p, H + [('Range', spec)]), group=g)
    for p in sample[:3 if quick else 6]:
        g = 'one:' + p
        for name in ['range', 'RANGE', 'rAnGe']:
            add('header-spelling', req('GET', p, H + [(name, 'bytes=1-2')]), group=g)
        add('header-repeated', req('GET', p, H + [('Range', 'bytes=0-0'), ('Range', 'bytes=1-1')]), group=g)
        add('header-repeated', req('GET', p, H + [('Range', 'bytes=1-1'), ('Range', 'bytes=0-0')]), group=g)
        add('header-repeated', req('GET', p, H + [('Origin', 'http://one.example'), ('Origin', 'http://two.example')]), group=g)
        add('header-repeated', req('GET', p, H + [('origin', 'http://two.example'), ('ORIGIN', 'http://one.example')]), group=g)
        for v in ['HTTP/1.0', 'HTTP/1.1', 'HTTP/2.0', 'http/1.1', 'HTTP/0.9', 'HTTP/3.0']:
            add('version-variant', req('GET', p, H, version=v), group=g)
        add('line-end-variant', req('GET', p, H + [('Range', 'bytes=0-3')], eol=b'\n'), group=g)
        add('line-end-variant', req('GET', p, H + [('Range', 'bytes=0-3')]), group=g)
        add('line-end-variant', b'\r\n' + req('GET', p, H), group=g)
        add('many-headers', req('GET', p, H + [('X-H%d' % i, tok()) for i in range(rng.choice([50, 100, 200]))] + [('Range', 'bytes=2-3')]), group=g)

    # ---- preflights: the same (Origin, requested method), other requested headers; the same headers, other method / origin;
    # one of the two request headers only; restricted-CORS origins (also sent to the instance with a configured list)
    # origins related to the configured ones: the same, another port, another scheme, another case, a longer and a shorter name
    related = ['http://allowed.example:9090', 'https://allowed.example', 'HTTP://ALLOWED.EXAMPLE', 'http://allowed.example.evil.test', 'http://allowed.exampl', 'allowed.example']
    for o in related:
        for m2, t_ in [('GET', '/a/data.txt'), ('OPTIONS', '/a/data.txt'), ('POST', '/form-get-method')]:
            add('cors-related-origin', req(m2, t_, [('Host', 'localhost'), ('Origin', o), ('Access-Control-Request-Method', 'PUT'), ('Access-Control-Request-Headers', 'X-' + tok())]), group='pre:related', near=True)
    for o in ['http://a.example', 'https://foo.example', 'http://allowed.example', 'http://allowed.example:8080', 'http://denied.example', 'null'][:(4 if quick else 6)]:
        for m2, t_ in [('GET', '/a/data.txt'), ('OPTIONS', '/a/data.txt'), ('POST', '/form-get-method')]:
            add('cors-related-origin', req(m2, t_, [('Host', 'localhost'), ('Origin', o), ('Access-Control-Request-Method', 'PUT'), ('Access-Control-Request-Headers', 'X-' + tok())]), group='pre:related')
        for m in ['GET', 'PUT', 'DELETE']:
            for hv in ['X-%s' % tok(), 'Content-Type, X-%s' % tok(), None]:
                hs = [('Host', 'localhost'), ('Origin', o), ('Access-Control-Request-Method', m)]
                if hv: hs.append(('Access-Control-Request-Headers', hv))
                add('preflight', req('OPTIONS', rng.choice(['/a/data.txt', '/b/page.html', '/', '/form-get-method', '/nope']), hs), group='pre:' + o + m)
        add('preflight', req('OPTIONS', '/a/data.txt', [('Host', 'localhost'), ('Origin', o), ('Access-Control-Request-Headers', 'X-%s' % tok())]), group='pre:' + o)
        for m2 in ['GET', 'POST', 'HEAD']:
            add('cors-simple', req(m2, rng.choice(['/a/data.txt', '/form-get-method?k=%s' % tok()]), [('Host', 'localhost'), ('Origin', o)]), group='pre:' + o)

    # ---- reflected values of every length a fixed buffer or a head budget would bite at
    for n in ([1, 255, 256, 257, 1000, 4000, 8000] if quick else [1, 2, 63, 64, 65, 127, 128, 255, 256, 257, 511, 512, 1000, 1023, 1024, 2048, 4000, 4096, 6000, 8000, 9000, 9500]):
        t = tok()
        add('long-origin', req('GET', '/a/data.txt', H + [('Origin', ('http://' + t + '.' + 'o' * n)[:max(n, len(t) + 8)])]), group='reflect')
        add('long-request-headers', req('OPTIONS', '/a/data.txt', H + [('Origin', 'http://a.example'), ('Access-Control-Request-Method', 'PUT'),
                                        ('Access-Control-Request-Headers', ('X-' + t + ', ' + 'X-Hdr-%d, ' * (n // 9 + 1) % tuple(range(n // 9 + 1)))[:max(n, len(t) + 4)])]), group='reflect')

    # ---- requests of exactly the sizes around every buffer: file requests (padding in a header), url-encoded posts (padding in a
    # value: the body ends where the buffer ends), multipart posts, form-get queries
    for size in SIZES_QUICK + ([] if quick else SIZES_MORE):
        t = tok()
        add('sized-get', pad_to(lambda k: req('GET', '/b/data.txt', H + [('X-Pad', t + 'p' * k), ('Range', 'bytes=0-7')]), size), group='sized')
        add('sized-urlencoded', pad_to(lambda k: req('POST', '/form-url-encoded-enctype-post-method', [URLENC], ('first=%s&pad=' % t).encode() + b'v' * k + b'&last=' + t.encode()), size),
            form=True, group='sized')
        bd = 'Z' + t
        add('sized-multipart', pad_to(lambda k: req('POST', '/form-multipart-enctype-post-method', [('Content-Type', 'multipart/form-data; boundary=' + bd)],
                                                    f'--{bd}\r\nContent-Disposition: form-data; name="pad"\r\n\r\n'.encode() + b'w' * k + f'\r\n--{bd}\r\nContent-Disposition: form-data; name="last"\r\n\r\n{t}\r\n--{bd}--\r\n'.encode()), size),
            form=True, group='sized')
        add('sized-form-get', pad_to(lambda k: req('GET', '/form-get-method?first=%s&pad=%s&last=%s' % (t, 'q' * k, t), H), size), form=True, group='sized')
        add('sized-garbage', (b'garbage-' + t.encode() + b' ' + b'g' * size)[:size], group='sized')
        add('sized-binary-upload', pad_to(lambda k: req('POST', '/form-multipart-enctype-post-method', [('Content-Type', 'multipart/form-data; boundary=' + bd)],
                                                        f'--{bd}\r\nContent-Disposition: form-data; name="f"; filename="b.bin"\r\n\r\n'.encode() + b'\x01\x00\x02' + (b'&leak=' + t.encode() + b'&') * (k // (len(t) + 7)) +
                                                        b'x' * (k % (len(t) + 7)) + f'\r\n--{bd}--\r\n'.encode()), size), form=True, group='sized')

    # ---- forms: the same names with other values, the same values under other names, repeated names, names that differ in
    # case, multi-byte / encoded / empty elements, many fields, invalid bytes - on the three echo endpoints
    names = ['name', 'Name', 'NAME', 'n', 'n2', 'k%C3%A9y', 'kéy', 'a+b', 'a%20b', '', 'x' * 200]
    def form_sets():
        base = ['name', 'n', 'city']
        for i in range(3 if quick else 8):
            yield 'same-names', [(k, tok()) for k in base]
        v = tok()
        for ks in (['name', 'n', 'city'], ['Name', 'N', 'City'], ['city', 'name', 'n'], ['name1', 'n1', 'city1']):
            yield 'same-values', [(k, v + str(j)) for j, k in enumerate(ks)]
        yield 'repeated', [('name', tok()), ('name', tok()), ('name', tok())]
        yield 'repeated', [('name', tok()), ('Name', tok()), ('NAME', tok())]
        yield 'odd', [(k, tok()) for k in names]
        yield 'odd', [('e', ''), ('', tok()), ('only', tok())]
        yield 'odd', [('u', 'café-' + tok()), ('v', '%F0%9F%98%80' + tok()), ('w', '日本' + tok()), ('p', 'a+b%2Bc%26d%3De' + tok())]
        yield 'many', [('f%d' % i, tok()) for i in range(60 if quick else 150)]
        yield 'one', [('single', tok())]
    for tag, fs in form_sets():
        enc = '&'.join(f'{k}={v}' for k, v in fs)
        add('form-urlencoded-' + tag, req('POST', '/form-url-encoded-enctype-post-method', [URLENC], enc.encode('utf-8')), form=True, group='form:' + tag)
        add('form-get-' + tag, req('GET', '/form-get-method?' + enc, H), form=True, group='form:' + tag)
        bd = 'M' + tok()
        body = b''.join(f'--{bd}\r\nContent-Disposition: form-data; name="{k}"\r\n\r\n{v}\r\n'.encode('utf-8') for k, v in fs) + f'--{bd}--\r\n'.encode()
        add('form-multipart-' + tag, req('POST', '/form-multipart-enctype-post-method', [('Content-Type', 'multipart/form-data; boundary=' + bd)], body), form=True, group='form:' + tag)
        if tag in ('same-names', 'one'):
            add('file-upload-initiate', req('POST', '/file-upload/initiate?name=%s&lastModified=%d&size=%d' % (tok(), rng.below(10 ** 9), rng.below(10 ** 6)), H), form=True, group='form:' + tag)
    # the same body under other content types / on the other endpoints; form errors (each leaves by another early return)
    t = tok(); b = ('k=%s&l=%s' % (t, t)).encode()
    for ep in ['/form-url-encoded-enctype-post-method', '/form-multipart-enctype-post-method', '/form-get-method', '/file-upload/initiate', '/a/data.txt']:
        for ct in [URLENC, ('content-type', 'APPLICATION/X-WWW-FORM-URLENCODED'), ('Content-Type', 'multipart/form-data; boundary=k'), ('Content-Type', 'text/plain'), None]:
            add('form-cross', req('POST', ep, ([ct] if ct else []), b), form=True, group='form:cross')
    bd = 'E' + tok()
    part = lambda head, val: f'--{bd}\r\n'.encode() + head + b'\r\n\r\n' + val + b'\r\n'
    end = f'--{bd}--\r\n'.encode()
    mp = lambda body, ct=None: req('POST', '/form-multipart-enctype-post-method', [('Content-Type', ct or 'multipart/form-data; boundary=' + bd)], body)
    for body, ct in [(part(b'Content-Disposition: form-data; name="a"', b'\xff\xfe' + tok().encode()) + end, None),
                     (part(b'X-Other: 1', tok().encode()) + end, None),
                     (part(b'Content-Disposition: form-data', tok().encode()) + end, None),
                     (part(b'Content-Disposition: form-data; name="a"', tok().encode()), None),
                     (b'', None), (end, None), (tok().encode(), None),
                     (part(b'Content-Disposition: form-data; name="a"', tok().encode()) + end, 'multipart/form-data; boundary='),
                     (part(b'Content-Disposition: form-data; name="a"', tok().encode()) + end, 'multipart/form-data; boundary=other' + tok()),
                     (part(b'Content-Disposition: form-data; name="a"\r\nContent-Type: text/plain', tok().encode()) + end, None)]:
        add('form-multipart-error', mp(body, ct), form=True, group='form:error')
    for body in [b'k=\xff\xfe' + tok().encode(), b'k=a\x00b&c=' + tok().encode(), b'', b'=', b'&&&', b'k', b'k=%zz' + tok().encode(), b'k=%', b'\x00\x00k=' + tok().encode()]:
        add('form-urlencoded-error', req('POST', '/form-url-encoded-enctype-post-method', [URLENC], body), form=True, group='form:error')
    for t_ in ['/file-upload/initiate', '/file-upload/initiate?name=' + tok(), '/file-upload/initiate?name=a&size=1', '/file-upload/initiate?name=a&lastModified=1',
               '/file-upload/initiate?size=1&lastModified=2&name=%s&extra=%s' % (tok(), tok()), '/form-get-method', '/form-get-method?', '/form-get-method?novalue', '/form-get-method?=v']:
        add('form-query-error', req('POST' if 'upload' in t_ else 'GET', t_, H), form=True, group='form:error')

    # ---- error answers of every kind (each is a different way out of the handler); a valid request of the same family next to it
    for p in ['/a/../b/data.txt', '/a/..', '/..', '/a/%2e%2e/b/data.txt', '/a/..%2fb/data.txt', '/a\\..\\b\\data.txt', '/missing-%s.txt' % tok(), '/a/missing', '/a/data.txt/x',
              '/emptydir', '/emptydir/', '/dangling.txt', '/a/dangling']:
        add('error-path', req('GET', p, H), group='errors')
        add('error-path', req('HEAD', p, H), group='errors')
        add('error-path', req('GET', p, H + [('Range', 'bytes=0-0')]), group='errors')
    for p in ['/a/data.txt', '/a/empty.txt', '/a/', '/a/page', '/big.txt', '/a/ln-empty.txt', '/a/ln-big.txt']:
        for spec in ['bytes=9999999-', 'bytes=5-1', 'bits=0-1', 'bytes=', 'bytes=a-b', 'bytes=-0', 'bytes=-9999999', 'bytes=0-0,9999999-', 'bytes=0-0,a-b', 'bytes=65536-', 'bytes=65537-',
                     'bytes=18446744073709551615-', 'bytes=0-18446744073709551616', 'bytes=--1', 'bytes=1-2-3', 'bytes=0-0,', 'bytes=,', 'bytes= 0-0', 'BYTES=0-0']:
            add('error-range', req('GET', p, H + [('Range', spec)]), group='errors')
    p = '/a/data.txt'
    for raw in [b'', b'\r\n\r\n', b'\n', b'\x00', b' ', b'GET\r\n\r\n', b'GET \r\n\r\n', b'GET /a b c d\r\n\r\n', b'garbage-' + tok().encode(), b'GET ' + p.encode() + b'\r\n\r\n',
                b'GET http://h' + p.encode() + b' HTTP/1.1\r\n\r\n', b'GET x' + tok().encode() + b' HTTP/1.1\r\n\r\n', b'\xff\xfe\xfd ' + tok().encode(),
                b'GET ' + p.encode() + b' HTTP/9.9\r\n\r\n', b'get ' + p.encode() + b' HTTP/1.1\r\n\r\n', b'Get ' + p.encode() + b' HTTP/1.1\r\n\r\n',
                b'GET ' + p.encode() + b' HTTP/1.1\r\nNoColonHeader' + tok().encode() + b'\r\n\r\n', b'GET ' + p.encode() + b' HTTP/1.1\nHost: x\n\n',
                b'GET ' + p.encode() + b' HTTP/1.1\rHost: x\r\r', b'\r\n\r\nGET ' + p.encode() + b' HTTP/1.1\r\n\r\n', b'  GET ' + p.encode() + b' HTTP/1.1\r\n\r\n',
                b'GET\t' + p.encode() + b'\tHTTP/1.1\r\n\r\n', b'GET  ' + p.encode() + b'  HTTP/1.1\r\n\r\n', b'OPTIONS * HTTP/1.1\r\nHost: x\r\n\r\n',
                b'CONNECT localhost:80 HTTP/1.1\r\n\r\n', b'TRACE ' + p.encode() + b' HTTP/1.1\r\nX-T: ' + tok().encode() + b'\r\n\r\n', b'BREW /pot HTTP/1.1\r\n\r\n',
                b'GET ' + p.encode() + b' HTTP/1.1\r\nHost: x\r\nX-Bad: \xff\xfe' + tok().encode() + b'\r\nRange: bytes=0-1\r\n\r\n',
                b'GET /a/\xff\xfe.txt HTTP/1.1\r\n\r\n', b'GET ' + p.encode() + b'\x00.html HTTP/1.1\r\n\r\n', b'GET ' + p.encode() + b' HTTP/1.1\x00\r\n\r\n',
                b'GET ' + p.encode() + b' HTTP/1.1\r\nRange: bytes=0-1\x00\r\n\r\n', b'GET ' + p.encode() + b' HTTP/1.1\r\n Range: bytes=0-1\r\n\r\n',
                b'GET ' + p.encode() + b' HTTP/1.1\r\nRange:bytes=0-1\r\n\r\n', b'GET ' + p.encode() + b' HTTP/1.1\r\nRange : bytes=0-1\r\n\r\n',
                b'GET ' + p.encode() + b' HTTP/1.1\r\nContent-Length: a\r\n\r\n', b'GET ' + p.encode() + b' HTTP/1.1\r\nContent-Length: 99999999999999999999\r\n\r\nbody' + tok().encode(),
                b'POST ' + p.encode() + b' HTTP/1.1\r\nContent-Length: 5\r\n\r\n' + tok().encode(), b'M' * 300 + b' / HTTP/1.1\r\n\r\n']:
        add('malformed', raw, group='errors')
    return out

# ----------------------------------------------------------------------------- connection kinds
def _one(port, job, timeout):
    kind = job.get('conn', 'plain')
    raw = job['raw']
    if kind == 'abort':
        try: return abort_after_send(port, raw, timeout, job.get('first', False))
        except OSError: return b''
    s = socket.socket(socket.AF_INET, socket.SOCK_STREAM)
    try:
        s.settimeout(timeout)
        if kind == 'slow':
            s.setsockopt(socket.SOL_SOCKET, socket.SO_RCVBUF, 4096)       # before connect: the window the server sees stays small
        s.connect(('127.0.0.1', port))
        s.setsockopt(socket.IPPROTO_TCP, socket.TCP_NODELAY, 1)
        if kind == 'hold':
            time.sleep(job.get('ms', 5) / 1000.0)
        s.sendall(raw)
        if kind != 'nohalf':
            try: s.shutdown(socket.SHUT_WR)
            except OSError: pass
        chunks = []
        n = 0
        while True:
            try:
                b = s.recv(8192 if kind == 'slow' else 1 << 16)
            except ConnectionResetError:
                if chunks: break
                raise
            if not b: break
            chunks.append(b)
            if kind == 'slow':
                n += 1
                if n % 4 == 0 and n < 40: time.sleep(0.001)
        return b''.join(chunks)
    finally:
        s.close()

def run_jobs(server, jobs, conns=32, timeout=20):
    """jobs: [dict(raw=…, conn='plain'|'nohalf'|'hold'|'slow', ms=…, before_ms=…)]; every job on its own connection, `conns` client
    threads start together behind a barrier; answers in the order of `jobs` (an Exception where the connection failed)"""
    n = len(jobs)
    out = [None] * n
    conns = max(1, min(conns, n))
    barrier = threading.Barrier(conns)
    nxt = [0]
    lock = threading.Lock()
    port = server.port
    def work():
        try: barrier.wait(timeout=30)
        except threading.BrokenBarrierError: pass
        while True:
            with lock:
                i = nxt[0]; nxt[0] += 1
            if i >= n: return
            d = jobs[i].get('before_ms')
            if d: time.sleep(d / 1000.0)
            try:
                out[i] = _one(port, jobs[i], timeout)
            except Exception as e:      # noqa: the caller judges
                out[i] = e
    ts = [threading.Thread(target=work, daemon=True) for _ in range(conns)]
    for t in ts: t.start()
    for t in ts: t.join()
    return out

def conn_kind(rng, raw, expected_len, holds_left):
    """a seeded connection kind for one job of a mixed round"""
    k = rng.below(12)
    if k < 2 and raw: return dict(conn='nohalf')          # an empty request without FIN would never be answered
    if k < 4 and holds_left[0] > 0:
        holds_left[0] -= 1
        return dict(conn='hold', ms=rng.choice([1, 2, 5, 10]))
    if k < 6 and expected_len > 30000: return dict(conn='slow')
    if k < 7: return dict(conn='plain', before_ms=rng.choice([1, 2, 4]))
    return dict(conn='plain')

# =============================================================================================== second audit pass
# FEATURES a maintainer of a static web server adds with good intentions (persistent connections, conditional requests, precompressed
# side files, 100 Continue, proxy / session / upgrade headers, a response cache, batching in the pool …) go wrong on a RELATION
# between two inputs: two headers; a header and the bytes after the head; a file and its neighbour, their ages and sizes; a
# validator the server handed out and the request that brings it back; this request and an earlier one on the same connection.
# The families below put those relations into the multiset; props/c08_features.py holds the probes that need an instance.
import base64, gzip, hashlib, calendar

T0 = 1600000000                      # 2020-09-13T12:26:40Z: the age everything in z/ y/ ages/ is measured against

def http_date(t):
    return time.strftime('%a, %d %b %Y %H:%M:%S GMT', time.gmtime(t))

def gz(data):
    return gzip.compress(data, 6, mtime=0)

def extend_docroot2(root, files, rng, tier):
    """files and their NEIGHBOURS, AGES and SIZES:
       z/   plain files each with a side file next to it (.gz newer / older / of the same age, .gz of OTHER content, .br that is no
            brotli at all, a .gz without its plain file, a .gz LARGER than its plain file, .md5 / .etag / .headers side files)
       y/   the same names WITHOUT side files; other index names (index.htm), a 404.html and an index.html.gz below the top level
       ages/  modification times: the epoch, the year 2100, 2001, fractions of one second (…,1 s / …,9 s / exactly whole), the same
            time on files of different sizes, different times on files of the same size
       chunk/ sizes that are whole multiples of 64 KiB and 1 MiB, and one byte more
       cold/  large files with an outdated side file that are NOT part of the request multiset: the cold-start probe asks for them
    info: dict(sidecar=[(plain url, side url)], twins=[(z url, y url)], ages={url: (seconds, nanoseconds)}, chunk=[url], cold=[(url, content)])"""
    info = dict(sidecar=[], twins=[], ages={}, chunk=[], cold=[], lonely=[])
    idx = [800]
    def put(rel, content=None, size=None, binary=False, listed=True, mtime=None, ns=0):
        idx[0] += 1
        if content is None: content = R.file_content(idx[0], size, binary=binary)
        p = os.path.join(root, rel)
        os.makedirs(os.path.dirname(p), exist_ok=True)
        with open(p, 'wb') as fh: fh.write(content)
        if mtime is not None:
            os.utime(p, ns=(mtime * 10 ** 9 + ns, mtime * 10 ** 9 + ns))
            info['ages']['/' + rel] = (mtime, ns)
        if listed: files['/' + rel] = content
        return content
    # ---- z/: side files; y/: the twins without
    for name, size, age_plain, side_ext, side_of, age_side in [
            ('site.css', 2000, T0, '.gz', 'same', T0 + 100),        # side file newer than the file: up to date
            ('app.js', 3000, T0 + 500, '.gz', 'other', T0),        # side file older: outdated (and it holds the older text)
            ('doc.html', 1500, T0, '.gz', 'other', T0),            # same age, other content
            ('img.svg', 900, T0, '.br', 'junk', T0 + 100),         # not brotli at all
            ('big.txt', 150000, T0 + 50, '.gz', 'same', T0),       # large, outdated side file
            ('empty.txt', 0, T0, '.gz', 'same', T0 + 1),           # the side file is LARGER than the file
            ('data.txt', 700, T0, '.gz', 'same', T0)]:
        c = put('z/' + name, size=size, mtime=age_plain)
        other = R.file_content(idx[0] + 300, max(size, 64))
        side = {'same': lambda: gz(c), 'other': lambda: gz(other), 'junk': lambda: b'\x00not-brotli\xff' * 20}[side_of]()
        put('z/' + name + side_ext, side, mtime=age_side)
        put('y/' + name, size=size, mtime=age_plain)
        info['sidecar'].append(('/z/' + name, '/z/' + name + side_ext)); info['twins'].append(('/z/' + name, '/y/' + name))
    put('z/only.txt.gz', gz(b'there is no z/only.txt\n'), mtime=T0); info['lonely'].append('/z/only.txt')
    put('z/page.html', size=400, mtime=T0); put('z/page.html.gz', gz(b'<p>other page</p>'), mtime=T0 + 5); put('z/index.html', b'<p>index of z</p>', mtime=T0)
    put('z/index.html.gz', gz(b'<p>OTHER index of z</p>'), mtime=T0 + 5)
    info['sidecar'] += [('/z/page', '/z/page.html.gz'), ('/z/', '/z/index.html.gz'), ('/z', '/z/index.html.gz')]
    for rel, content in [('z/.htaccess', b'Deny from all\n'), ('z/.headers', b'X-Custom: from-the-headers-file\nCache-Control: max-age=60\n'),
                         ('z/site.css.md5', b'00000000000000000000000000000000\n'), ('z/site.css.etag', b'"made-up"\n'), ('z/site.css.meta', b'content-type: text/x-other\n'),
                         ('y/index.htm', b'<p>index.htm of y</p>'), ('y/sub/404.html', b'<p>404 page of y/sub</p>'), ('y/sub/index.html.gz', gz(b'<p>no plain index here</p>')),
                         ('y/sub/x.txt', b'x in y/sub\n'), ('y/sub/default.html', b'<p>default</p>'), ('robots.txt', b'User-agent: *\nDisallow:\n'), ('.well-known/security.txt', b'Contact: nobody\n')]:
        put(rel, content, mtime=T0)
    # ---- ages
    for rel, size, mtime, ns in [('ages/epoch.txt', 100, 0, 0), ('ages/future.txt', 100, 4102444800, 0), ('ages/old.txt', 100, 978307200, 0),
                                 ('ages/whole.txt', 100, T0, 0), ('ages/frac1.txt', 100, T0, 100000000), ('ages/frac9.txt', 100, T0, 900000000), ('ages/next.txt', 100, T0 + 1, 0),
                                 ('ages/p.txt', 100, T0 + 7, 0), ('ages/q.txt', 333, T0 + 7, 0), ('ages/r.txt', 100, T0 + 9, 0), ('ages/dir/index.html', 60, T0 + 3, 0)]:
        put(rel, size=size, mtime=mtime, ns=ns)
    # ---- sizes that are whole pieces
    for rel, size in [('chunk/c128k.bin', 131072), ('chunk/c1m.bin', 1048576)] + ([] if tier == 'quick' else [('chunk/c64k.bin', 65536), ('chunk/c256k.bin', 262144), ('chunk/c1m1.bin', 1048577), ('chunk/c2m.bin', 2097152)]):
        put(rel, size=size, binary=True, mtime=T0); info['chunk'].append('/' + rel)
    # ---- cold files (never part of the multiset)
    for k in range(8 if tier == 'quick' else 24):
        c = put('cold/c%d.txt' % k, size=150000 + k, listed=False, mtime=T0 + 50)
        put('cold/c%d.txt.gz' % k, gz(c[:75000]), listed=False, mtime=T0)
        info['cold'].append(('/cold/c%d.txt' % k, c))
    # ---- every other file gets an age that is a function of its name: the validators the server hands out (and the requests that
    # bring them back) are the same in every run
    import zlib
    for d, _, names in os.walk(root):
        for n in names:
            p = os.path.join(d, n); rel = os.path.relpath(p, root)
            if os.path.islink(p) or '/' + rel in info['ages']: continue
            if os.lstat(p).st_mtime_ns == 1700000000 * 10 ** 9: continue           # same.json x3: the same age on purpose
            s_ = 1500000000 + zlib.crc32(rel.encode('utf-8', 'surrogateescape')) % 50000000
            os.utime(p, ns=(s_ * 10 ** 9 + zlib.crc32(rel[::-1].encode('utf-8', 'surrogateescape')) % 10 ** 9,) * 2)
    return info

# header of the request that brings back what the server handed out in a header of an answer
HAND_BACK = {'etag': ['If-None-Match', 'If-Match', 'If-Range'], 'last-modified': ['If-Modified-Since', 'If-Unmodified-Since', 'If-Range'],
             'last-modified-unix-epoch-nanos': ['If-Modified-Since-Unix-Epoch-Nanos', 'If-Unmodified-Since-Unix-Epoch-Nanos', 'If-Modified-Since', 'If-Range', 'If-None-Match'],
             'set-cookie': ['Cookie'], 'content-md5': ['Content-MD5', 'If-None-Match'], 'digest': ['Digest', 'Want-Digest'], 'location': [], 'x-request-id': ['X-Request-Id'],
             'www-authenticate': ['Authorization'], 'content-encoding': ['Accept-Encoding'], 'alt-svc': ['Alt-Used'], 'accept-patch': ['Content-Type'], 'accept-post': ['Content-Type']}
HAND_TARGETS = ['/a/data.txt', '/b/data.txt', '/same.json', '/a/same.json', '/z/site.css', '/y/site.css', '/a/', '/a/page', '/big.bin', '/form-get-method?k=v', '/nope-handed.txt', '/']

def heads_of(raw):
    k = raw.find(b'\r\n\r\n')
    out = {}
    for line in (raw if k < 0 else raw[:k]).split(b'\r\n')[1:]:
        n, sep, v = line.partition(b':')
        if sep: out.setdefault(n.strip().lower().decode('latin1'), v.strip().decode('latin1'))
    return out

def handed_out(server):
    """what the server hands out in the heads of its answers to plain requests: {target: {lower-cased header name: value}} for the header
    names in HAND_BACK (validators, cookies, digests …)"""
    out = {}
    for t in HAND_TARGETS:
        try: a = server.request(req('GET', t, [('Host', 'localhost'), ('Accept-Encoding', 'gzip'), ('Connection', 'close')]), timeout=10)
        except Exception: continue      # noqa
        h = {n: v for n, v in heads_of(a).items() if n in HAND_BACK and v}
        if h: out[t] = h
    return out

CLIENT_HINTS = [('Save-Data', 'on'), ('Device-Memory', '0.5'), ('Downlink', '0.1'), ('ECT', 'slow-2g'), ('RTT', '3000'), ('Sec-CH-Prefers-Color-Scheme', 'dark'),
                ('Sec-CH-Prefers-Reduced-Motion', 'reduce'), ('Sec-CH-UA-Arch', '"arm"'), ('Sec-CH-UA-Platform-Version', '"1.0"'), ('Upgrade-Insecure-Requests', '1'), ('DNT', '1'), ('Sec-GPC', '1')]

def feature_requests(rng, files, info, info2, tier, handed, header_names=()):
    """request families of the second audit pass.  Every request is a member of a one-element group: the plain request (which the
    families of the first pass hold already for most targets, and which is added here too) plus ONE feature header, or one PAIR."""
    out, seen = [], set()
    tok = Tok(rng); tok.n = 5000
    quick = tier == 'quick'
    def add(kind, raw, form=False, path=None, group=None, near=False, must=False, **kw):
        if raw in seen or len(raw) > ALLOC: return
        seen.add(raw); out.append(dict(kind=kind, raw=raw, form=form, path=path, group=group, near=near, must=must or near, **kw))
    H = [('Host', 'localhost')]
    URLENC = ('Content-Type', 'application/x-www-form-urlencoded')
    EP = '/form-url-encoded-enctype-post-method'

    def b64(s): return base64.b64encode(s.encode()).decode()
    # ---- ONE header the server ignores today, on several targets; free text carries a token
    def table():
        t = tok
        return [
            ('conn', 'Connection', ['keep-alive', 'close', 'Keep-Alive', 'keep-alive, Upgrade', 'TE, close', 'upgrade']),
            ('conn', 'Keep-Alive', ['timeout=5, max=100', 'timeout=0']),
            ('conn', 'Proxy-Connection', ['keep-alive']),
            ('encoding', 'Accept-Encoding', ['gzip', 'gzip, deflate, br', 'identity', '*', 'gzip;q=0', 'identity;q=0, gzip', 'br', 'zstd', 'GZIP', '', 'deflate, gzip;q=1.0, *;q=0.5', 'x-gzip']),
            ('encoding', 'TE', ['trailers', 'chunked', 'gzip', 'trailers, deflate;q=0.5']),
            ('negotiate', 'Accept', ['text/html', '*/*', 'application/json;q=0.9, */*;q=0.1', 'image/webp', 'text/plain; charset=utf-8', 'text/*;q=0']),
            ('negotiate', 'Accept-Language', ['de', 'en-US,en;q=0.5', 'uk', '*', 'de-CH, de;q=0.9, en;q=0.8']),
            ('negotiate', 'Accept-Charset', ['utf-8', 'iso-8859-1;q=0.5']),
            ('negotiate', 'Prefer', ['return=minimal', 'respond-async, wait=1', 'return=representation', 'handling=lenient']),
            ('cond', 'If-None-Match', ['*', '"%s"' % t(), 'W/"%s"' % t(), '"a", "b", W/"c"', '']),
            ('cond', 'If-Match', ['*', '"%s"' % t()]),
            ('cond', 'If-Modified-Since', [http_date(T0), http_date(0), http_date(4102444800), 'yesterday ' + t(), http_date(T0).replace('GMT', 'UTC'), time.strftime('%A, %d-%b-%y %H:%M:%S GMT', time.gmtime(T0)), time.strftime('%a %b %d %H:%M:%S %Y', time.gmtime(T0)), '', str(T0)]),
            ('cond', 'If-Unmodified-Since', [http_date(T0), http_date(0), http_date(4102444800)]),
            ('cond', 'If-Range', ['"%s"' % t(), http_date(T0)]),
            ('cache', 'Cache-Control', ['no-cache', 'max-age=0', 'only-if-cached', 'no-store', 'max-stale=3600', 'no-transform']),
            ('cache', 'Pragma', ['no-cache']),
            ('expect', 'Expect', ['100-continue', '100-Continue', '200-ok', 'x-' + t(), '']),
            ('proxy', 'Forwarded', ['for=192.0.2.%d;proto=https;host=%s.example' % (rng.below(250), t()), 'for="[2001:db8::1]";by=%s' % t(), 'for=_%s' % t()]),
            ('proxy', 'X-Forwarded-For', ['192.0.2.%d' % rng.below(250), '10.1.2.3, 192.0.2.7, %s' % t(), 'unknown', t()]),
            ('proxy', 'X-Forwarded-Proto', ['https', 'http', t()]),
            ('proxy', 'X-Forwarded-Host', ['%s.example' % t(), 'localhost']),
            ('proxy', 'X-Forwarded-Port', ['443', '0', '65536']),
            ('proxy', 'X-Forwarded-Prefix', ['/' + t(), '/a']),
            ('proxy', 'X-Real-IP', ['192.0.2.%d' % rng.below(250), t()]),
            ('proxy', 'Via', ['1.1 %s' % t(), '1.0 fred, 1.1 %s.example (proxy)' % t()]),
            ('proxy', 'Max-Forwards', ['0', '1', '10', '-1', t()]),
            ('proxy', 'X-Request-Id', [t(), t()]),
            ('proxy', 'X-Correlation-Id', [t()]),
            ('proxy', 'Traceparent', ['00-%032x-%016x-01' % (rng.below(2 ** 64), rng.below(2 ** 48))]),
            ('proxy', 'X-Original-URL', ['/b/data.txt', '/' + t()]),
            ('proxy', 'X-Rewrite-URL', ['/b/data.txt']),
            ('proxy', 'X-HTTP-Method-Override', ['HEAD', 'DELETE', 'OPTIONS']),
            ('session', 'Cookie', ['sid=%s' % t(), 'sid=%s; theme=dark' % t(), 'theme=dark; sid=%s; sid=%s' % (t(), t()), '%s' % t(), 'SID=%s' % t(), 'sid=', '']),
            ('session', 'Authorization', ['Basic ' + b64('user:' + t()), 'Basic ' + b64(t() + ':pw'), 'Bearer ' + t(), 'basic ' + b64('user:pw'), 'Basic !!!' + t(), 'Digest username="%s", nonce="%s", uri="/a/data.txt", response="0"' % (t(), t()), 'Negotiate ' + t(), '']),
            ('session', 'Proxy-Authorization', ['Basic ' + b64('proxy:' + t())]),
            ('session', 'X-Api-Key', [t()]),
            ('session', 'X-CSRF-Token', [t()]),
            ('upgrade', 'Upgrade', ['h2c', 'websocket', 'TLS/1.0, HTTP/1.1', t()]),
            ('upgrade', 'HTTP2-Settings', ['AAMAAABkAARAAAAAAAIAAAAA']),
            ('upgrade', 'Sec-WebSocket-Key', [b64(t()[:16].ljust(16, 'x'))]),
            ('upgrade', 'Early-Data', ['1']),
            ('client', 'User-Agent', ['Mozilla/5.0 (%s) ' % t() + 'A' * 300, 'curl/8.0 ' + t(), '', 'bot ' + t() + ' ' + 'u' * 2000]),
            ('client', 'Referer', ['http://%s.example/page?x=1' % t(), 'http://localhost/a/data.txt', '/' + t()]),
            ('client', 'From', ['%s@example.org' % t()]),
            ('client', 'Date', [http_date(T0), http_date(4102444800)]),
            ('client', 'Sec-Fetch-Site', ['cross-site', 'same-origin', 'none']),
            ('client', 'Sec-Fetch-Mode', ['navigate', 'cors', 'no-cors']),
            ('client', 'Sec-Fetch-Dest', ['document', 'image', 'empty']),
            ('client', 'Want-Digest', ['md5', 'sha-256;q=1, md5;q=0.3', 'SHA-256']),
            ('client', 'Want-Content-Digest', ['sha-256=10']),
            ('client', 'Accept-Datetime', [http_date(T0)]),
        ] + [('hints', n, [v, t()]) for n, v in CLIENT_HINTS]
    base_targets = [('GET', '/a/data.txt', b''), ('GET', '/b/data.txt', b''), ('POST', EP, None), ('GET', '/z/site.css', b'')]
    more = [('GET', '/big.bin', b''), ('GET', '/a/page', b''), ('GET', '/a/', b''), ('GET', '/nope-feature.txt', b''), ('GET', '/same.json', b''), ('GET', '/', b''),
            ('HEAD', '/a/data.txt', b''), ('OPTIONS', '/a/data.txt', b''), ('GET', '/form-get-method?k=v', b''), ('GET', '/ages/whole.txt', b''), ('GET', '/chunk/c128k.bin', b''), ('GET', '/link.txt', b'')]
    rng.shuffle(more)
    targets = base_targets + (more[:2] if quick else more)
    rows = table()
    for m, t_, body in targets:
        g = 'feat:%s %s' % (m, t_)
        fixed = ('k=%s&l=2' % tok()).encode() if body is None else body       # the SAME body in every member of the group: one element differs
        hs0 = H + ([URLENC] if body is None else [])
        add('feat-plain', req(m, t_, hs0, fixed), form=body is None, group=g, must=True)
        for area, name, values in rows:
            for v in values:
                add('feat-' + area, req(m, t_, hs0 + [(name, v)], fixed), form=body is None, group=g,
                    must=(name, v) in (('Connection', 'keep-alive'), ('Accept-Encoding', 'gzip'), ('Expect', '100-continue'), ('If-None-Match', '*')))
            # spelled otherwise: lower case, upper case, doubled
            if rng.chance(1, 3):
                add('feat-' + area, req(m, t_, hs0 + [(name.lower(), values[0])], fixed), form=body is None, group=g)
                add('feat-' + area, req(m, t_, hs0 + [(name, values[0]), (name, values[-1])], fixed), form=body is None, group=g)
    # ---- every header name the SOURCE mentions (the vocabulary of the tree under test: a header a change teaches the server appears here)
    known = {n.lower() for _, n, _ in rows} | {'host', 'origin', 'range', 'content-type', 'content-length', 'access-control-request-method', 'access-control-request-headers'}
    vocab = sorted(n for n in header_names if n.lower() not in known)
    for n in vocab:
        for m, t_, body in targets[:(2 if quick else 4)]:
            add('feat-vocab', req(m, t_, H + [(n, rng.choice(['1', tok(), http_date(T0), 'gzip', '*', '0', 'keep-alive', '"x"']))]), group='feat:%s %s' % (m, t_))
            add('feat-vocab', req(m, t_, H + [(n, tok())]), group='feat:%s %s' % (m, t_))

    # ---- PAIRS of headers: each with and without its partner
    for t_ in ['/a/data.txt', '/big.bin'][:(1 if quick else 2)] + ['/z/big.txt']:
        g = 'pair:' + t_
        R_ = ('Range', 'bytes=0-99')
        for hs in [[R_], [R_, ('Accept-Encoding', 'gzip')], [R_, ('If-Range', '"%s"' % tok())], [R_, ('If-Range', http_date(T0))], [R_, ('If-Range', http_date(T0 + 50))], [R_, ('If-Match', '*')],
                   [R_, ('If-None-Match', '*')], [R_, ('If-Modified-Since', http_date(4102444800))], [R_, ('If-Unmodified-Since', http_date(0))], [R_, ('Connection', 'keep-alive')],
                   [('If-None-Match', '"x"'), ('If-Modified-Since', http_date(4102444800))], [('If-None-Match', '*'), ('If-Modified-Since', http_date(0))],
                   [('Connection', 'Upgrade'), ('Upgrade', 'websocket'), ('Sec-WebSocket-Key', b64('0123456789abcdef')), ('Sec-WebSocket-Version', '13')],
                   [('Connection', 'Upgrade, HTTP2-Settings'), ('Upgrade', 'h2c'), ('HTTP2-Settings', 'AAMAAABkAARAAAAAAAIAAAAA')], [('Connection', 'keep-alive'), ('Keep-Alive', 'timeout=1')],
                   [('Origin', 'http://a.example'), ('Cookie', 'sid=' + tok())], [('Origin', 'http://allowed.example'), ('Authorization', 'Bearer ' + tok())], [('Origin', 'http://allowed.example'), ('Cookie', 'sid=' + tok())],
                   [('Origin', 'https://foo.example'), ('X-Forwarded-Proto', 'http')], [('Origin', 'http://a.example'), ('Accept-Encoding', 'gzip')],
                   [('Accept-Encoding', 'gzip'), ('Cache-Control', 'no-transform')], [('Accept-Encoding', 'gzip'), ('User-Agent', 'MSIE 6.0 ' + tok())],
                   [('Range', 'bytes=0-0,5-9'), ('Accept-Encoding', 'gzip')], [('Range', 'bytes=-1'), ('If-Range', http_date(T0))]]:
            add('feat-pair', req('GET', t_, H + hs), group=g, must=len(hs) == 2 and hs[0] == R_ and hs[1][0] in ('Accept-Encoding', 'If-Range'))
    # the version of the request line next to the Connection header (1.0 closes unless asked, 1.1 stays open unless asked)
    for v in ['HTTP/1.0', 'HTTP/1.1']:
        for hs in [[], [('Connection', 'keep-alive')], [('Connection', 'close')]]:
            add('feat-conn', req('GET', '/a/data.txt', H + hs, version=v), group='conn-version', must=v == 'HTTP/1.0' and len(hs) == 1 and hs[0][1] == 'keep-alive')
            add('feat-conn', req('POST', EP, [URLENC] + hs, b'k=1', version=v), form=True, group='conn-version')
    for o in ['http://allowed.example', 'https://foo.example', 'http://denied.example']:      # credentials next to an origin: the configured list says allow-credentials
        for hs in [[('Cookie', 'sid=' + tok())], [('Authorization', 'Basic ' + b64('u:' + tok()))], []]:
            add('cors-credentials', req('GET', '/a/data.txt', H + [('Origin', o)] + hs), group='pre:cred')
            add('cors-credentials', req('OPTIONS', '/a/data.txt', H + [('Origin', o), ('Access-Control-Request-Method', 'GET'), ('Access-Control-Request-Headers', 'Authorization, Cookie')] + hs), group='pre:cred')
    # the same credentials on two targets, two credentials on one target, one a prefix of the other
    c1, c2 = tok(), tok()
    for t_ in ['/a/data.txt', '/b/data.txt', '/z/.htaccess', EP]:
        for c in [c1, c2, c1[:-2], c1 + 'x']:
            add('feat-session', req('GET' if t_ != EP else 'POST', t_, H + [('Authorization', 'Basic ' + b64('user:' + c)), ('Cookie', 'sid=' + c)] + ([URLENC] if t_ == EP else []), b'' if t_ != EP else b'k=' + c.encode()),
                form=t_ == EP, group='cred')
    # Host: another name, a port, none, two, empty, upper case; next to the target they decide on
    for hv in [['other.example'], ['localhost:8080'], ['LOCALHOST'], [], ['localhost', 'other.example'], [''], ['%s.example' % tok()], ['127.0.0.1'], ['[::1]:80'], ['localhost.']]:
        for t_ in ['/a/data.txt', '/'] + ([] if quick else ['/a/', '/nope-host']):
            add('feat-host', req('GET', t_, [('Host', h) for h in hv] + [('Origin', 'http://a.example')]), group='host:' + t_)

    # ---- a header and the BYTES AFTER THE HEAD
    t1, t2 = tok(), tok()
    body = ('first=%s&second=%s' % (t1, t2)).encode()
    # (the pieces end where a field ends: a token cut in two by a chunk-size line would read like another token in the echo)
    chunked = lambda b, trailer=b'': b''.join(b'%x\r\n' % len(c) + c + b'\r\n' for c in re.findall(rb'[^&]*&?', b) if c) + b'0\r\n' + trailer + b'\r\n'
    n = len(body)
    for hs, bd in [([('Expect', '100-continue'), ('Content-Length', str(n))], body), ([('Expect', '100-continue'), ('Content-Length', str(n))], b''), ([('Expect', '100-continue'), ('Content-Length', str(n))], body[:9]),
                   ([('Expect', '100-continue'), ('Content-Length', '0')], b''), ([('Expect', '100-continue')], body), ([('Expect', '100-continue'), ('Content-Length', str(n))], body + b'&third=' + tok().encode()),
                   ([('Content-Length', str(n))], body), ([('Content-Length', '9')], body), ([('Content-Length', str(n + 50))], body), ([('Content-Length', '0')], body), ([('Content-Length', str(n)), ('Content-Length', '9')], body),
                   ([('Content-Length', '-1')], body), ([('Content-Length', ' %d ' % n)], body), ([('content-length', str(n))], body),
                   ([('Transfer-Encoding', 'chunked')], chunked(body)), ([('Transfer-Encoding', 'chunked')], chunked(body, b'X-Trailer: ' + tok().encode() + b'\r\n')), ([('Transfer-Encoding', 'chunked')], body),
                   ([('Transfer-Encoding', 'chunked'), ('Content-Length', str(n))], chunked(body)), ([('Transfer-Encoding', 'chunked')], b'ffff\r\n' + body), ([('Transfer-Encoding', 'gzip, chunked')], chunked(gz(body))),
                   ([('Transfer-Encoding', 'identity')], body), ([('TE', 'trailers'), ('Transfer-Encoding', 'chunked'), ('Trailer', 'X-Trailer')], chunked(body, b'X-Trailer: 1\r\n')),
                   ([('Content-Encoding', 'gzip')], gz(body)), ([('Content-Encoding', 'gzip')], body), ([('Content-Encoding', 'identity')], body), ([('Content-Encoding', 'deflate')], gz(body)[10:-8]),
                   ([('Content-MD5', base64.b64encode(hashlib.md5(body).digest()).decode())], body), ([('Content-MD5', base64.b64encode(hashlib.md5(b'x').digest()).decode())], body),
                   ([('Digest', 'sha-256=' + base64.b64encode(hashlib.sha256(body).digest()).decode())], body), ([('Digest', 'sha-256=AAAA')], body),
                   ([('Connection', 'keep-alive'), ('Content-Length', str(n))], body), ([('Connection', 'close'), ('Content-Length', str(n))], body)]:
        add('feat-body', req('POST', EP, [URLENC] + hs, bd), form=True, group='body', must=hs[0][0] in ('Expect', 'Transfer-Encoding') and len(out) % 2 == 0)
    # bodies framed by chunks or by Content-Length, LONG ones and very short ones: what a reader of such bodies keeps between two
    # requests (a scratch buffer that is not wiped) shows when a short body follows a long one
    long_body = '&'.join('c%d=%s' % (i, tok()) for i in range(40)).encode()
    for bd in [long_body, b'n=1', b'm=2&n=3', long_body[:len(long_body) // 2]]:
        add('feat-body', req('POST', EP, [URLENC, ('Transfer-Encoding', 'chunked')], chunked(bd)), form=True, group='body-length', must=True)
        add('feat-body', req('POST', EP, [URLENC, ('Content-Length', str(len(bd)))], bd), form=True, group='body-length', must=len(bd) < 10)
        add('feat-body', req('POST', EP, [URLENC, ('Content-Length', str(len(bd))), ('Expect', '100-continue')], bd), form=True, group='body-length')
        add('feat-body', req('POST', EP, [URLENC, ('Content-Length', str(len(bd))), ('Connection', 'keep-alive')], bd), form=True, group='body-length')
    for hs, bd in [([], b'body-on-a-get-' + tok().encode()), ([('Content-Length', '30')], b'body-on-a-get-' + tok().encode()), ([('Expect', '100-continue'), ('Content-Length', '5')], b''), ([('Transfer-Encoding', 'chunked')], chunked(tok().encode())),
                   ([('Content-Length', '5')], b'')]:
        add('feat-body', req('GET', '/a/data.txt', H + hs, bd), group='body')
    # two requests in one piece (a server that keeps the connection open answers both; this one reads the second as the body of the first)
    short = req('POST', EP, [URLENC], b'n=1')
    for first, second in [(req('GET', '/a/data.txt', H), req('GET', '/b/data.txt', H)), (req('GET', '/a/data.txt', H + [('Connection', 'keep-alive')]), req('GET', '/b/data.txt', H + [('Connection', 'close')])),
                          (req('POST', EP, [URLENC, ('Content-Length', str(n)), ('Connection', 'keep-alive')], body), short), (req('HEAD', '/a/data.txt', H), req('GET', '/a/data.txt', H)),
                          (short, req('POST', EP, [URLENC], ('k=%s' % tok()).encode())), (req('GET', '/nope-%s' % tok(), H + [('Connection', 'keep-alive')]), req('GET', '/a/data.txt', H))]:
        add('feat-pipeline', first + second, form=first.startswith(b'POST'), group='pipeline')

    # ---- a file and its NEIGHBOUR: every plain file of z/ with and without Accept-Encoding, its twin in y/, the side file itself
    AE = [[], [('Accept-Encoding', 'gzip')], [('Accept-Encoding', 'br')], [('Accept-Encoding', 'gzip, br')], [('Accept-Encoding', 'identity')], [('Accept-Encoding', 'gzip;q=0')],
          [('Accept-Encoding', 'gzip'), ('Range', 'bytes=0-9')], [('Accept-Encoding', 'gzip'), ('If-Modified-Since', http_date(T0 + 60))]]
    for plain, side in info2['sidecar'] + [(p, p + '.gz') for p in info2['lonely']]:
        for hs in AE:
            add('feat-sidecar', req('GET', plain, H + hs), group='side:' + plain, must=len(hs) == 1 and hs[0][1] in ('gzip', 'br'))
        add('feat-sidecar', req('HEAD', plain, H + [('Accept-Encoding', 'gzip')]), group='side:' + plain)
        add('feat-sidecar', req('GET', side, H), group='side:' + plain)
        add('feat-sidecar', req('GET', side, H + [('Accept-Encoding', 'gzip')]), group='side:' + plain)
    for z, y in info2['twins']:
        for hs in AE[:4]:
            add('feat-sidecar', req('GET', y, H + hs), group='side:' + z)
    for t_ in ['/y/', '/y', '/y/sub/', '/y/sub/missing.txt', '/y/sub/index.html', '/y/sub/index', '/y/index.htm', '/z/.htaccess', '/z/.headers', '/z/site.css.md5', '/robots.txt', '/.well-known/security.txt',
               '/.well-known/', '/z/missing.css', '/y/sub/default', '/favicon.ico']:
        add('feat-neighbour', req('GET', t_, H), group='neighbour')
        add('feat-neighbour', req('GET', t_, H + [('Accept-Encoding', 'gzip'), ('Accept', 'text/html')]), group='neighbour')

    # ---- a file's AGE and the validator of the request: exactly its age, one second (one nanosecond) before and after; its size and age as an entity tag in the usual spellings
    def validators(p):
        s, ns = info2['ages'][p]; size = len(files.get(p, b''))
        for d in (0, -1, 1):
            yield 'If-Modified-Since', http_date(s + d), d == 0
            yield 'If-Unmodified-Since', http_date(s + d), False
        for d in (0, -1, 1):
            yield 'If-Modified-Since-Unix-Epoch-Nanos', str(s * 10 ** 9 + ns + d), False
        for e in ['"%x-%x"' % (s, size), 'W/"%x-%x"' % (s, size), '"%d-%d"' % (size, s), '"%d-%d"' % (s * 10 ** 9 + ns, size), '"%d"' % (s * 10 ** 9 + ns), '"%s"' % hashlib.md5(files.get(p, b'')).hexdigest(),
                  '"%s"' % hashlib.sha1(files.get(p, b'')).hexdigest()]:
            yield 'If-None-Match', e, False
    aged = [p for p in sorted(info2['ages']) if p.startswith('/ages/') or p in ('/z/site.css', '/y/site.css', '/z/app.js')]
    if quick: rng.shuffle(aged)
    for j, p in enumerate(aged):
        for name, v, exact in validators(p):
            if quick and j >= 4 and not exact: continue
            add('feat-age', req('GET', p, H + [(name, v)]), group='age:' + p, must=exact and j < 6)
        add('feat-age', req('GET', p, H), group='age:' + p)
        add('feat-age', req('GET', p, H + [('Range', 'bytes=0-9'), ('If-Range', http_date(info2['ages'][p][0]))]), group='age:' + p)
    # the validator of ONE file on ANOTHER one (same age other size, same size other age, the twin)
    for p, q in [('/ages/p.txt', '/ages/q.txt'), ('/ages/p.txt', '/ages/r.txt'), ('/ages/whole.txt', '/ages/frac9.txt'), ('/ages/whole.txt', '/ages/next.txt'), ('/z/site.css', '/y/site.css'), ('/ages/dir/', '/ages/whole.txt')]:
        if p not in info2['ages'] and p.rstrip('/') + '/index.html' not in info2['ages']: continue
        sp = info2['ages'].get(p) or info2['ages'][p.rstrip('/') + '/index.html']
        for t_ in (p, q):
            add('feat-age', req('GET', t_, H + [('If-Modified-Since', http_date(sp[0]))]), group='age2:' + p + q, must=True)
            add('feat-age', req('GET', t_, H + [('If-None-Match', '"%x-%x"' % (sp[0], len(files.get(p, b''))))]), group='age2:' + p + q)

    # ---- what the server HANDED OUT comes back: on the same target, on its neighbour, changed in the last character
    targets_h = sorted(handed)
    for j, t_ in enumerate(targets_h):
        others = targets_h[j + 1:] + targets_h[:j]            # the next one first: namesakes and twins are neighbours in HAND_TARGETS
        for hn, hv in sorted(handed[t_].items()):
            val = hv.split(';')[0] if hn == 'set-cookie' else hv
            near_v = val[:-1] + ('0' if val[-1:] != '0' else '1') if val[-1:] != '"' else val[:-2] + ('0' if val[-2:-1] != '0' else '1') + '"'
            if hn == 'location' and val.startswith('/'):          # where the server sends the client: the client goes there
                add('feat-handed', req('GET', val, H), group='handed:location'); add('feat-handed', req('GET', val, H + [('Referer', 'http://localhost' + t_)]), group='handed:location')
            for back in HAND_BACK.get(hn, []):
                extra = [('Range', 'bytes=0-9')] if back == 'If-Range' else []
                g = 'handed:' + hn + back
                add('feat-handed', req('GET', t_, H + extra + [(back, val)]), group=g, must=j < 3)
                for k, u in enumerate(others[:(3 if quick else 8)]):
                    # the validator of ONE target presented for ANOTHER one
                    add('feat-handed', req('GET', u, H + extra + [(back, val)]), group=g + ' on another target', must=k == 0 and j < 4)
                add('feat-handed', req('GET', t_, H + extra + [(back, near_v)]), group=g + ' nearly')
                add('feat-handed', req('HEAD', t_, H + [(back, val)]), group=g)

    # ---- ranges at the borders of whole pieces, many ranges, overlapping / descending / repeated ranges
    for p in info2['chunk'] + ['/z/big.txt']:
        size = len(files[p])
        specs = ['bytes=65535-65536', 'bytes=%d-' % (size - 1), 'bytes=0-%d' % (size - 1), 'bytes=0-%d' % size, 'bytes=65536-131071', 'bytes=-65536', 'bytes=-65537', 'bytes=131071-131073',
                 'bytes=0-99,50-149', 'bytes=100-199,0-99', 'bytes=0-9,0-9,0-9', 'bytes=' + ','.join('%d-%d' % (i * 1000, i * 1000 + 9) for i in range(60)), 'bytes=0-0,-1', 'bytes=0-65535,65536-%d' % (size - 1),
                 'bytes=%d-%d,0-0' % (size - 1, size - 1)]
        for spec in specs:
            add('feat-range', req('GET', p, H + [('Range', spec)]), group='big:' + p, must=spec.startswith('bytes=0-99,50') or spec.startswith('bytes=0-65535,'))
        add('feat-range', req('HEAD', p, H), group='big:' + p)
    return out

# ----------------------------------------------------------------------------- connection kinds of the second pass
def abort_after_send(port, raw, timeout=10, wait_first_byte=False):
    """connect, send, optionally wait for the first piece of the answer, then RESET the connection: the server's write fails half way"""
    import struct
    s = socket.socket(socket.AF_INET, socket.SOCK_STREAM)
    try:
        s.settimeout(timeout)
        s.setsockopt(socket.SOL_SOCKET, socket.SO_RCVBUF, 4096)
        s.connect(('127.0.0.1', port))
        s.sendall(raw)
        if wait_first_byte:
            try: s.recv(1024)
            except OSError: pass
        s.setsockopt(socket.SOL_SOCKET, socket.SO_LINGER, struct.pack('ii', 1, 0))
    finally:
        s.close()
    return b''

def read_one_answer(s, timeout, no_body=False):
    """one answer off a connection that may stay open: the head, then Content-Length bytes (no_body: the answer to a HEAD request).
    Returns (bytes, ended): ended = the server closed the connection (or nothing more came in time) before the answer was complete
    by its own Content-Length - which is how a server that closes after every answer ends all of them"""
    s.settimeout(timeout)
    buf = b''
    def more():
        try: b = s.recv(1 << 16)
        except (socket.timeout, ConnectionResetError, BrokenPipeError, OSError): return None
        return b or None
    while b'\r\n\r\n' not in buf:
        b = more()
        if b is None: return buf, True
        buf += b
    k = buf.find(b'\r\n\r\n')
    m = re.search(rb'(?im)^content-length:[ \t]*(\d+)[ \t]*\r?$', buf[:k + 2])
    if m is None or no_body: return buf, False
    need = k + 4 + int(m.group(1))
    while len(buf) < need:
        b = more()
        if b is None: return buf, True
        buf += b
    return buf, False
