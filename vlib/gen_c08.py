"""Helpers of props/c08.py (generator audit of C08): tree shapes, request families and connection kinds the
runtime probe did not produce before.

    extend_docroot(root, files, rng, tier, pages=True) -> info
        adds to a tree written by realbin.write_docroot (files: {url path: bytes} is extended in place with the
        regular files that can be asked for by their own name): names that differ in case only, names that are
        prefixes / suffixes / anagrams of one another, the same directory names at several levels, several directory
        index pages, a directory with an index page next to a page of the same stem, empty / one-byte / large files,
        multi-byte names, links to directories, link chains, a dangling link, an absolute link, links with the SAME
        link text in two directories (different targets), same base name + same size + same modification time; with
        pages=True also the files the built-in controllers look for in the served directory (index.html, 404.html,
        style.css, script.js, favicon.svg).  info: dict(targets=[…every extra target worth asking for…],
        links=[…], dirs=[…], big=[…])
    extra_requests(rng, files, info, tier) -> [dict(kind, raw, form, path, group)]
        request families; `group` names a set of requests that differ in ONE element only (the input class a memo
        keyed on too little needs) - they are served back to back and fired simultaneously by the probe
    run_jobs(server, jobs, conns, timeout) -> [bytes | Exception]
        like realbin.run_concurrent, with a connection kind per job:
          'plain'      connect, send, half-close, read to the end
          'nohalf'     the write side stays open (the server answers after its one read)
          'hold'       connect, stay silent for job['ms'] milliseconds (the worker sits in read), then send
          'slow'       small receive buffer, the answer is read in small pieces with pauses (the worker sits in write)
    token oracle: TOKEN / foreign_tokens(request, response)
"""
import os, re, socket, threading, time
from vlib import realbin as R

ALLOC = 10000          # default request-allocation-size-in-bytes: the server reads that much, once

# ----------------------------------------------------------------------------- tokens
# every generated request that carries client data which the server may echo carries a token of this shape; a
# response may only contain tokens of ITS OWN request ("no connection ever receives data belonging to another")
TOKEN = re.compile(rb'zq[0-9]+x[0-9]+zq|secret-of-connection-[0-9]+|value-of-another-connection-[0-9]+')      # applied to lower-cased bytes

def tokens_of(b):
    """client data can come back in the head (reflected Origin / requested headers) and in the body of an echo page; the body of a
    large answer is file content and is compared byte for byte anyway: only its first 8 KiB are searched"""
    low = (b if len(b) <= 20000 else b[:8192]).lower()
    if b'zq' not in low and b'-connection-' not in low: return set()
    return set(TOKEN.findall(low))

def foreign_tokens(raw_request, response):
    if not isinstance(response, (bytes, bytearray)) or not response: return set()
    got = tokens_of(response)
    return (got - set(TOKEN.findall(raw_request.lower()))) if got else got

class Tok:
    def __init__(self, rng): self.rng, self.n = rng, 0
    def __call__(self):
        self.n += 1
        return 'zq%dx%dzq' % (self.n, self.rng.below(10 ** 6))

# ----------------------------------------------------------------------------- the tree
PAGES = ['index.html', '404.html', 'style.css', 'script.js', 'favicon.svg']

def extend_docroot(root, files, rng, tier, pages=True):
    idx = [500]
    info = dict(targets=[], links=[], dirs=[], big=[], case=[], stems=[])
    def put(rel, content=None, size=None, binary=False, listed=True):
        idx[0] += 1
        if content is None:
            content = R.file_content(idx[0], size if size is not None else rng.choice([17, 256, 1000, 4097]), binary=binary)
        p = os.path.join(root, rel)
        os.makedirs(os.path.dirname(p), exist_ok=True)
        with open(p, 'wb') as fh: fh.write(content)
        if listed: files['/' + rel] = content
        return content
    def link(target, rel):
        p = os.path.join(root, rel)
        os.makedirs(os.path.dirname(p), exist_ok=True)
        try:
            os.symlink(target, p); info['links'].append('/' + rel)
        except OSError:
            pass
    # names that differ in case only (directory a/ and b/ already hold data.txt and page.html)
    for rel in ['a/DATA.txt', 'a/Data.TXT', 'a/data.TXT', 'a/PAGE.HTML', 'a/Page.html', 'b/DATA.TXT', 'B/data.txt', 'A/data.txt']:
        put(rel); info['case'].append('/' + rel)
    # prefixes, suffixes, anagrams, same length
    for rel in ['a/data.txt.bak', 'a/data.tx', 'a/data', 'a/xdata.txt', 'a/data.txt2', 'a/adta.txt', 'a/atad.txt', 'a/data.txt.html',
                'b/data', 'data', 'a/blob', 'a/blob.bin.bin']:
        put(rel)
    # the same directory names at several levels; the same file names in all of them
    for d in ['a/a/', 'a/b/', 'b/a/', 'b/b/', 'sub/deep/a/', 'a/sub/deep/', 'sub/a/', 'a/a/a/']:
        put(d + 'data.txt'); put(d + 'page.html')
        info['dirs'].append('/' + d)
    # several directory index pages (sub/index.html exists), every one different
    for d in ['a/', 'b/', 'a/a/', 'a/sub/', 'sub/deep/', 'dir.with.dots/', 'assets/', 'assets/img/']:
        put(d + 'index.html', b'<p>index of /%s #%d</p>' % (d.encode(), rng.below(10 ** 6)))
        info['dirs'].append('/' + d)
    # a directory with an index page NEXT TO a page of the same stem
    for d in ['', 'a/', 'sub/deep/']:
        put(d + 'guide/index.html', b'<p>guide directory under /%s</p>' % d.encode())
        put(d + 'guide.html', b'<p>guide page under /%s</p>' % d.encode())
        info['stems'] += ['/' + d + 'guide', '/' + d + 'guide/']
    # pages reached without their extension (page.html in '', a/, b/ …): the stems
    info['stems'] += ['/page', '/a/page', '/b/page', '/a/a/page', '/b/a/page', '/a/data.txt', '/a/data']
    # sizes: nothing, one byte, beyond every socket buffer default
    put('empty.txt', b''); put('a/empty.txt', b''); put('b/empty.html', b''); put('one.txt', b'1'); put('a/one.txt', b'2')
    for rel, size in [('big.bin', 200000), ('a/big.bin', 131073), ('big.txt', 65537)] + ([] if tier == 'quick' else [('b/big.bin', 6000001)]):
        put(rel, size=size, binary=rel.endswith('.bin')); info['big'].append('/' + rel)
    # larger than anything the kernel buffers for a connection whose client does not read (tcp_wmem max 4 MiB): asked for by the
    # stalled-reader probe only, not part of the request multiset
    put('stall.bin', content=bytes((j * 7 + (j >> 11) * 13 + 5) & 0xff for j in range(4096)) * 1465, listed=False)
    # multi-byte and unusual names (the server does not percent-decode the path: they are asked for as they are)
    for rel in ['a/naïve.txt', 'a/файл.txt', 'b/日本.html', 'a/pl+us.txt', 'a/per%41cent.txt', 'a/perAcent.txt',
                'a/x' * 40 + '.txt', 'a/' + 'long-name-' * 20 + '.txt']:
        put(rel)
    # same base name, same size AND same modification time in three directories
    try:
        for d in ['', 'a/', 'b/']:
            os.utime(os.path.join(root, d + 'same.json'), ns=(1700000000 * 10 ** 9, 1700000000 * 10 ** 9))
    except OSError:
        pass
    # links: to directories, chains, dangling, absolute, the same link text in two directories
    link('a', 'ln-a'); link('sub', 'ln-sub'); link('../b', 'a/ln-b'); link('..', 'sub/deep/ln-up')
    link('chain2.txt', 'chain1.txt'); link('a/chain3.txt', 'chain2.txt'); link('data.txt', 'a/chain3.txt')
    link('nowhere.txt', 'dangling.txt'); link('nowhere', 'a/dangling')
    link(os.path.join(root, 'b', 'data.txt'), 'abs.txt')
    link('data.txt', 'a/lnk.txt'); link('data.txt', 'b/lnk.txt'); link('data.txt', 'a/a/lnk.txt')
    link('page.html', 'a/lnk.html'); link('page.html', 'b/lnk.html')
    link('empty.txt', 'a/ln-empty.txt'); link('../big.txt', 'a/ln-big.txt')
    info['targets'] += ['/ln-a', '/ln-a/', '/ln-a/data.txt', '/ln-a/a/data.txt', '/ln-a/lnk.txt', '/ln-a/ln-b/data.txt', '/ln-sub', '/ln-sub/',
                        '/ln-sub/deep/up.html', '/sub/deep/ln-up/index.html', '/sub/deep/ln-up/deep/', '/a/ln-b/page', '/a/ln-b/', '/a/dangling/',
                        '/a//data.txt', '/a/./data.txt', '//a/data.txt', '/a/data.txt/', '/a/page.html/', '/emptydir/', '/a/lnk']
    if pages:
        put('index.html', b'<p>the index page of the served directory</p>', listed=False)
        put('404.html', b'<p>the not-found page of the served directory</p>', listed=False)
        put('style.css', b'body { color: #123456 } /* served directory */', listed=False)
        put('script.js', b'console.log("script of the served directory")', listed=False)
        put('favicon.svg', b'<svg xmlns="http://www.w3.org/2000/svg"/>', listed=False)
    info['targets'] += ['/' + p for p in PAGES] + ['/index', '/404', '/style', '/script.js?x=1', '/favicon.svg?x', '/index.html?q=1']
    return info

# ----------------------------------------------------------------------------- request families
def req(method, target, headers=(), body=b'', version='HTTP/1.1', eol=b'\r\n'):
    out = f'{method} {target} {version}'.encode('utf-8', 'surrogateescape') + eol
    for n, v in headers:
        out += n.encode() + b': ' + (v if isinstance(v, bytes) else v.encode('utf-8', 'surrogateescape')) + eol
    return out + eol + body

def pad_to(raw_head_fn, size):
    """raw_head_fn(k) -> request with k padding bytes; the request of exactly `size` bytes"""
    base = len(raw_head_fn(0))
    return raw_head_fn(max(0, size - base))

SIZES_QUICK = [4095, 4096, 4097, 8191, 8192, 8193, 9999, ALLOC]
SIZES_MORE = [511, 512, 513, 1023, 1024, 1025, 2047, 2048, 2049, 9000, 9500, 9990, ALLOC - 2, ALLOC - 1]

def extra_requests(rng, files, info, tier):
    out, seen = [], set()
    tok = Tok(rng)
    quick = tier == 'quick'
    def add(kind, raw, form=False, path=None, group=None, near=False):
        # near: a NEAR MISS of its family (its own answer differs from its siblings' although it looks like them): never thinned out,
        # generated before its siblings (so the reference pass serves it first) and also served all alone on a fresh instance
        if raw in seen or len(raw) > ALLOC: return
        seen.add(raw); out.append(dict(kind=kind, raw=raw, form=form, path=path, group=group, near=near,
                                       must=near or (kind.startswith('sized-') and len(raw) >= ALLOC - 1)))
    H = [('Host', 'localhost')]
    URLENC = ('Content-Type', 'application/x-www-form-urlencoded')
    paths = sorted(files)

    # ---- every step of the lookup: stems (.html rule), directories with and without the slash, links, the built-in names
    for t in info['stems'] + info['dirs'] + [d.rstrip('/') for d in info['dirs']] + info['targets'] + info['links']:
        add('lookup-step', req('GET', t, H), group='lookup')
    for t in info['stems'][:8] + info['dirs'][:6] + info['links']:
        add('lookup-step-range', req('GET', t, H + [('Range', rng.choice(['bytes=0-0', 'bytes=1-3', 'bytes=-2', 'bytes=2-', 'bytes=0-1,3-4']))]), group='lookup')
        add('lookup-step-head', req(rng.choice(['HEAD', 'OPTIONS']), t, H + [('Origin', 'http://a.example')]), group='lookup')
    # links whose range cannot be satisfied / is malformed (the existing family covers the four links of write_docroot)
    for lk in info['links']:
        add('link-range', req('GET', lk, H + [('Range', rng.choice(['bytes=9999999-', 'bits=0-1', 'bytes=5-1', 'bytes=a-b', 'bytes=0-9999999']))]), group='lookup')
    # query strings and fragments on files, stems and directories
    for t in ['/a/data.txt', '/a/page', '/a/', '/a', '/guide', '/sub/deep/up.html', '/big.txt']:
        for q in ['?v=1', '?v=2', '?', '?next=/', '#frag', '?a=b#c', '?x=/index.html']:
            add('query-variant', req('GET', t + q, H), group='q:' + t)

    # ---- several DIFFERENT large answers (the probe fires them together): the large files whole, from the second byte, as two parts, with another Origin
    for bp in info['big']:
        for hs in [[('Range', 'bytes=0-')], [('Range', 'bytes=1-')], [('Range', 'bytes=0-0,1-')], [('Origin', 'http://%s.example' % tok())], [('Range', 'bytes=-100000')]]:
            add('big-variant', req('GET', bp, H + hs), group='big:' + bp)
    # ---- ONE element differs: method, Origin, Range, header spelling, version, line ends
    sample = ['/a/data.txt', '/b/data.txt', '/data.txt', '/a/DATA.txt', '/a/page.html', '/same.json', '/a/same.json', '/b/same.json',
              '/a/empty.txt', '/a/big.bin', '/a/naïve.txt', '/a/lnk.txt', '/b/lnk.txt', '/a/guide', '/a/', '/style.css', '/', '/nope.txt']
    if quick:          # five of them, the first two always (a pair of namesakes)
        rest = sample[2:]; rng.shuffle(rest); sample = sample[:2] + rest[:3]
    else: sample += [rng.choice(paths) for _ in range(20)]
    for p in sample:
        g = 'one:' + p
        for m in ['GET', 'HEAD', 'OPTIONS', 'POST', 'PUT', 'DELETE']:
            add('method-variant', req(m, p, H + [('Origin', 'http://a.example'), ('Access-Control-Request-Method', 'PUT')]), group=g)
        for o in [None, 'http://a.example', 'https://foo.example', 'null', 'http://%s.example' % tok(), '', 'http://localhost']:
            add('origin-variant', req('GET', p, H + ([('Origin', o)] if o is not None else [])), group=g)
        for spec in ['bytes=0-0', 'bytes=0-1', 'bytes=1-1', 'bytes=-1', 'bytes=0-', 'bytes=1-', 'bytes=0-0,1-1', 'bytes=0-0, 1-1', 'bytes=9999999-', 'bytes=0-9999999']:
            add('range-variant', req('GET', p, H + [('Range', spec)]), group=g)
    for p in sample[:3 if quick else 6]:
        g = 'one:' + p
        for name in ['range', 'RANGE', 'rAnGe']:
            add('header-spelling', req('GET', p, H + [(name, 'bytes=1-2')]), group=g)
        add('header-repeated', req('GET', p, H + [('Range', 'bytes=0-0'), ('Range', 'bytes=1-1')]), group=g)
        add('header-repeated', req('GET', p, H + [('Range', 'bytes=1-1'), ('Range', 'bytes=0-0')]), group=g)
        add('header-repeated', req('GET', p, H + [('Origin', 'http://one.example'), ('Origin', 'http://two.example')]), group=g)
        add('header-repeated', req('GET', p, H + [('origin', 'http://two.example'), ('ORIGIN', 'http://one.example')]), group=g)
        for v in ['HTTP/1.0', 'HTTP/1.1', 'HTTP/2.0', 'http/1.1', 'HTTP/0.9', 'HTTP/3.0']:
            add('version-variant', req('GET', p, H, version=v), group=g)
        add('line-end-variant', req('GET', p, H + [('Range', 'bytes=0-3')], eol=b'\n'), group=g)
        add('line-end-variant', req('GET', p, H + [('Range', 'bytes=0-3')]), group=g)
        add('line-end-variant', b'\r\n' + req('GET', p, H), group=g)
        add('many-headers', req('GET', p, H + [('X-H%d' % i, tok()) for i in range(rng.choice([50, 100, 200]))] + [('Range', 'bytes=2-3')]), group=g)

    # ---- preflights: the same (Origin, requested method), other requested headers; the same headers, other method / origin;
    # one of the two request headers only; restricted-CORS origins (also sent to the instance with a configured list)
    # origins related to the configured ones: the same, another port, another scheme, another case, a longer and a shorter name
    related = ['http://allowed.example:9090', 'https://allowed.example', 'HTTP://ALLOWED.EXAMPLE', 'http://allowed.example.evil.test', 'http://allowed.exampl', 'allowed.example']
    for o in related:
        for m2, t_ in [('GET', '/a/data.txt'), ('OPTIONS', '/a/data.txt'), ('POST', '/form-get-method')]:
            add('cors-related-origin', req(m2, t_, [('Host', 'localhost'), ('Origin', o), ('Access-Control-Request-Method', 'PUT'), ('Access-Control-Request-Headers', 'X-' + tok())]), group='pre:related', near=True)
    for o in ['http://a.example', 'https://foo.example', 'http://allowed.example', 'http://allowed.example:8080', 'http://denied.example', 'null'][:(4 if quick else 6)]:
        for m2, t_ in [('GET', '/a/data.txt'), ('OPTIONS', '/a/data.txt'), ('POST', '/form-get-method')]:
            add('cors-related-origin', req(m2, t_, [('Host', 'localhost'), ('Origin', o), ('Access-Control-Request-Method', 'PUT'), ('Access-Control-Request-Headers', 'X-' + tok())]), group='pre:related')
        for m in ['GET', 'PUT', 'DELETE']:
            for hv in ['X-%s' % tok(), 'Content-Type, X-%s' % tok(), None]:
                hs = [('Host', 'localhost'), ('Origin', o), ('Access-Control-Request-Method', m)]
                if hv: hs.append(('Access-Control-Request-Headers', hv))
                add('preflight', req('OPTIONS', rng.choice(['/a/data.txt', '/b/page.html', '/', '/form-get-method', '/nope']), hs), group='pre:' + o + m)
        add('preflight', req('OPTIONS', '/a/data.txt', [('Host', 'localhost'), ('Origin', o), ('Access-Control-Request-Headers', 'X-%s' % tok())]), group='pre:' + o)
        for m2 in ['GET', 'POST', 'HEAD']:
            add('cors-simple', req(m2, rng.choice(['/a/data.txt', '/form-get-method?k=%s' % tok()]), [('Host', 'localhost'), ('Origin', o)]), group='pre:' + o)

    # ---- reflected values of every length a fixed buffer or a head budget would bite at
    for n in ([1, 255, 256, 257, 1000, 4000, 8000] if quick else [1, 2, 63, 64, 65, 127, 128, 255, 256, 257, 511, 512, 1000, 1023, 1024, 2048, 4000, 4096, 6000, 8000, 9000, 9500]):
        t = tok()
        add('long-origin', req('GET', '/a/data.txt', H + [('Origin', ('http://' + t + '.' + 'o' * n)[:max(n, len(t) + 8)])]), group='reflect')
        add('long-request-headers', req('OPTIONS', '/a/data.txt', H + [('Origin', 'http://a.example'), ('Access-Control-Request-Method', 'PUT'),
                                        ('Access-Control-Request-Headers', ('X-' + t + ', ' + 'X-Hdr-%d, ' * (n // 9 + 1) % tuple(range(n // 9 + 1)))[:max(n, len(t) + 4)])]), group='reflect')

    # ---- requests of exactly the sizes around every buffer: file requests (padding in a header), url-encoded posts (padding in a
    # value: the body ends where the buffer ends), multipart posts, form-get queries
    for size in SIZES_QUICK + ([] if quick else SIZES_MORE):
        t = tok()
        add('sized-get', pad_to(lambda k: req('GET', '/b/data.txt', H + [('X-Pad', t + 'p' * k), ('Range', 'bytes=0-7')]), size), group='sized')
        add('sized-urlencoded', pad_to(lambda k: req('POST', '/form-url-encoded-enctype-post-method', [URLENC], ('first=%s&pad=' % t).encode() + b'v' * k + b'&last=' + t.encode()), size),
            form=True, group='sized')
        bd = 'Z' + t
        add('sized-multipart', pad_to(lambda k: req('POST', '/form-multipart-enctype-post-method', [('Content-Type', 'multipart/form-data; boundary=' + bd)],
                                                    f'--{bd}\r\nContent-Disposition: form-data; name="pad"\r\n\r\n'.encode() + b'w' * k + f'\r\n--{bd}\r\nContent-Disposition: form-data; name="last"\r\n\r\n{t}\r\n--{bd}--\r\n'.encode()), size),
            form=True, group='sized')
        add('sized-form-get', pad_to(lambda k: req('GET', '/form-get-method?first=%s&pad=%s&last=%s' % (t, 'q' * k, t), H), size), form=True, group='sized')
        add('sized-garbage', (b'garbage-' + t.encode() + b' ' + b'g' * size)[:size], group='sized')
        add('sized-binary-upload', pad_to(lambda k: req('POST', '/form-multipart-enctype-post-method', [('Content-Type', 'multipart/form-data; boundary=' + bd)],
                                                        f'--{bd}\r\nContent-Disposition: form-data; name="f"; filename="b.bin"\r\n\r\n'.encode() + b'\x01\x00\x02' + (b'&leak=' + t.encode() + b'&') * (k // (len(t) + 7)) +
                                                        b'x' * (k % (len(t) + 7)) + f'\r\n--{bd}--\r\n'.encode()), size), form=True, group='sized')

    # ---- forms: the same names with other values, the same values under other names, repeated names, names that differ in
    # case, multi-byte / encoded / empty elements, many fields, invalid bytes - on the three echo endpoints
    names = ['name', 'Name', 'NAME', 'n', 'n2', 'k%C3%A9y', 'kéy', 'a+b', 'a%20b', '', 'x' * 200]
    def form_sets():
        base = ['name', 'n', 'city']
        for i in range(3 if quick else 8):
            yield 'same-names', [(k, tok()) for k in base]
        v = tok()
        for ks in (['name', 'n', 'city'], ['Name', 'N', 'City'], ['city', 'name', 'n'], ['name1', 'n1', 'city1']):
            yield 'same-values', [(k, v + str(j)) for j, k in enumerate(ks)]
        yield 'repeated', [('name', tok()), ('name', tok()), ('name', tok())]
        yield 'repeated', [('name', tok()), ('Name', tok()), ('NAME', tok())]
        yield 'odd', [(k, tok()) for k in names]
        yield 'odd', [('e', ''), ('', tok()), ('only', tok())]
        yield 'odd', [('u', 'café-' + tok()), ('v', '%F0%9F%98%80' + tok()), ('w', '日本' + tok()), ('p', 'a+b%2Bc%26d%3De' + tok())]
        yield 'many', [('f%d' % i, tok()) for i in range(60 if quick else 150)]
        yield 'one', [('single', tok())]
    for tag, fs in form_sets():
        enc = '&'.join(f'{k}={v}' for k, v in fs)
        add('form-urlencoded-' + tag, req('POST', '/form-url-encoded-enctype-post-method', [URLENC], enc.encode('utf-8')), form=True, group='form:' + tag)
        add('form-get-' + tag, req('GET', '/form-get-method?' + enc, H), form=True, group='form:' + tag)
        bd = 'M' + tok()
        body = b''.join(f'--{bd}\r\nContent-Disposition: form-data; name="{k}"\r\n\r\n{v}\r\n'.encode('utf-8') for k, v in fs) + f'--{bd}--\r\n'.encode()
        add('form-multipart-' + tag, req('POST', '/form-multipart-enctype-post-method', [('Content-Type', 'multipart/form-data; boundary=' + bd)], body), form=True, group='form:' + tag)
        if tag in ('same-names', 'one'):
            add('file-upload-initiate', req('POST', '/file-upload/initiate?name=%s&lastModified=%d&size=%d' % (tok(), rng.below(10 ** 9), rng.below(10 ** 6)), H), form=True, group='form:' + tag)
    # the same body under other content types / on the other endpoints; form errors (each leaves by another early return)
    t = tok(); b = ('k=%s&l=%s' % (t, t)).encode()
    for ep in ['/form-url-encoded-enctype-post-method', '/form-multipart-enctype-post-method', '/form-get-method', '/file-upload/initiate', '/a/data.txt']:
        for ct in [URLENC, ('content-type', 'APPLICATION/X-WWW-FORM-URLENCODED'), ('Content-Type', 'multipart/form-data; boundary=k'), ('Content-Type', 'text/plain'), None]:
            add('form-cross', req('POST', ep, ([ct] if ct else []), b), form=True, group='form:cross')
    bd = 'E' + tok()
    part = lambda head, val: f'--{bd}\r\n'.encode() + head + b'\r\n\r\n' + val + b'\r\n'
    end = f'--{bd}--\r\n'.encode()
    mp = lambda body, ct=None: req('POST', '/form-multipart-enctype-post-method', [('Content-Type', ct or 'multipart/form-data; boundary=' + bd)], body)
    for body, ct in [(part(b'Content-Disposition: form-data; name="a"', b'\xff\xfe' + tok().encode()) + end, None),
                     (part(b'X-Other: 1', tok().encode()) + end, None),
                     (part(b'Content-Disposition: form-data', tok().encode()) + end, None),
                     (part(b'Content-Disposition: form-data; name="a"', tok().encode()), None),
                     (b'', None), (end, None), (tok().encode(), None),
                     (part(b'Content-Disposition: form-data; name="a"', tok().encode()) + end, 'multipart/form-data; boundary='),
                     (part(b'Content-Disposition: form-data; name="a"', tok().encode()) + end, 'multipart/form-data; boundary=other' + tok()),
                     (part(b'Content-Disposition: form-data; name="a"\r\nContent-Type: text/plain', tok().encode()) + end, None)]:
        add('form-multipart-error', mp(body, ct), form=True, group='form:error')
    for body in [b'k=\xff\xfe' + tok().encode(), b'k=a\x00b&c=' + tok().encode(), b'', b'=', b'&&&', b'k', b'k=%zz' + tok().encode(), b'k=%', b'\x00\x00k=' + tok().encode()]:
        add('form-urlencoded-error', req('POST', '/form-url-encoded-enctype-post-method', [URLENC], body), form=True, group='form:error')
    for t_ in ['/file-upload/initiate', '/file-upload/initiate?name=' + tok(), '/file-upload/initiate?name=a&size=1', '/file-upload/initiate?name=a&lastModified=1',
               '/file-upload/initiate?size=1&lastModified=2&name=%s&extra=%s' % (tok(), tok()), '/form-get-method', '/form-get-method?', '/form-get-method?novalue', '/form-get-method?=v']:
        add('form-query-error', req('POST' if 'upload' in t_ else 'GET', t_, H), form=True, group='form:error')

    # ---- error answers of every kind (each is a different way out of the handler); a valid request of the same family next to it
    for p in ['/a/../b/data.txt', '/a/..', '/..', '/a/%2e%2e/b/data.txt', '/a/..%2fb/data.txt', '/a\\..\\b\\data.txt', '/missing-%s.txt' % tok(), '/a/missing', '/a/data.txt/x',
              '/emptydir', '/emptydir/', '/dangling.txt', '/a/dangling']:
        add('error-path', req('GET', p, H), group='errors')
        add('error-path', req('HEAD', p, H), group='errors')
        add('error-path', req('GET', p, H + [('Range', 'bytes=0-0')]), group='errors')
    for p in ['/a/data.txt', '/a/empty.txt', '/a/', '/a/page', '/big.txt', '/a/ln-empty.txt', '/a/ln-big.txt']:
        for spec in ['bytes=9999999-', 'bytes=5-1', 'bits=0-1', 'bytes=', 'bytes=a-b', 'bytes=-0', 'bytes=-9999999', 'bytes=0-0,9999999-', 'bytes=0-0,a-b', 'bytes=65536-', 'bytes=65537-',
                     'bytes=18446744073709551615-', 'bytes=0-18446744073709551616', 'bytes=--1', 'bytes=1-2-3', 'bytes=0-0,', 'bytes=,', 'bytes= 0-0', 'BYTES=0-0']:
            add('error-range', req('GET', p, H + [('Range', spec)]), group='errors')
    p = '/a/data.txt'
    for raw in [b'', b'\r\n\r\n', b'\n', b'\x00', b' ', b'GET\r\n\r\n', b'GET \r\n\r\n', b'GET /a b c d\r\n\r\n', b'garbage-' + tok().encode(), b'GET ' + p.encode() + b'\r\n\r\n',
                b'GET http://h' + p.encode() + b' HTTP/1.1\r\n\r\n', b'GET x' + tok().encode() + b' HTTP/1.1\r\n\r\n', b'\xff\xfe\xfd ' + tok().encode(),
                b'GET ' + p.encode() + b' HTTP/9.9\r\n\r\n', b'get ' + p.encode() + b' HTTP/1.1\r\n\r\n', b'Get ' + p.encode() + b' HTTP/1.1\r\n\r\n',
                b'GET ' + p.encode() + b' HTTP/1.1\r\nNoColonHeader' + tok().encode() + b'\r\n\r\n', b'GET ' + p.encode() + b' HTTP/1.1\nHost: x\n\n',
                b'GET ' + p.encode() + b' HTTP/1.1\rHost: x\r\r', b'\r\n\r\nGET ' + p.encode() + b' HTTP/1.1\r\n\r\n', b'  GET ' + p.encode() + b' HTTP/1.1\r\n\r\n',
                b'GET\t' + p.encode() + b'\tHTTP/1.1\r\n\r\n', b'GET  ' + p.encode() + b'  HTTP/1.1\r\n\r\n', b'OPTIONS * HTTP/1.1\r\nHost: x\r\n\r\n',
                b'CONNECT localhost:80 HTTP/1.1\r\n\r\n', b'TRACE ' + p.encode() + b' HTTP/1.1\r\nX-T: ' + tok().encode() + b'\r\n\r\n', b'BREW /pot HTTP/1.1\r\n\r\n',
                b'GET ' + p.encode() + b' HTTP/1.1\r\nHost: x\r\nX-Bad: \xff\xfe' + tok().encode() + b'\r\nRange: bytes=0-1\r\n\r\n',
                b'GET /a/\xff\xfe.txt HTTP/1.1\r\n\r\n', b'GET ' + p.encode() + b'\x00.html HTTP/1.1\r\n\r\n', b'GET ' + p.encode() + b' HTTP/1.1\x00\r\n\r\n',
                b'GET ' + p.encode() + b' HTTP/1.1\r\nRange: bytes=0-1\x00\r\n\r\n', b'GET ' + p.encode() + b' HTTP/1.1\r\n Range: bytes=0-1\r\n\r\n',
                b'GET ' + p.encode() + b' HTTP/1.1\r\nRange:bytes=0-1\r\n\r\n', b'GET ' + p.encode() + b' HTTP/1.1\r\nRange : bytes=0-1\r\n\r\n',
                b'GET ' + p.encode() + b' HTTP/1.1\r\nContent-Length: a\r\n\r\n', b'GET ' + p.encode() + b' HTTP/1.1\r\nContent-Length: 99999999999999999999\r\n\r\nbody' + tok().encode(),
                b'POST ' + p.encode() + b' HTTP/1.1\r\nContent-Length: 5\r\n\r\n' + tok().encode(), b'M' * 300 + b' / HTTP/1.1\r\n\r\n']:
        add('malformed', raw, group='errors')
    return out

# ----------------------------------------------------------------------------- connection kinds
def _one(port, job, timeout):
    kind = job.get('conn', 'plain')
    raw = job['raw']
    s = socket.socket(socket.AF_INET, socket.SOCK_STREAM)
    try:
        s.settimeout(timeout)
        if kind == 'slow':
            s.setsockopt(socket.SOL_SOCKET, socket.SO_RCVBUF, 4096)       # before connect: the window the server sees stays small
        s.connect(('127.0.0.1', port))
        s.setsockopt(socket.IPPROTO_TCP, socket.TCP_NODELAY, 1)
        if kind == 'hold':
            time.sleep(job.get('ms', 5) / 1000.0)
        s.sendall(raw)
        if kind != 'nohalf':
            try: s.shutdown(socket.SHUT_WR)
            except OSError: pass
        chunks = []
        n = 0
        while True:
            try:
                b = s.recv(8192 if kind == 'slow' else 1 << 16)
            except ConnectionResetError:
                if chunks: break
                raise
            if not b: break
            chunks.append(b)
            if kind == 'slow':
                n += 1
                if n % 4 == 0 and n < 40: time.sleep(0.001)
        return b''.join(chunks)
    finally:
        s.close()

def run_jobs(server, jobs, conns=32, timeout=20):
    """jobs: [dict(raw=…, conn='plain'|'nohalf'|'hold'|'slow', ms=…, before_ms=…)]; every job on its own connection, `conns` client
    threads start together behind a barrier; answers in the order of `jobs` (an Exception where the connection failed)"""
    n = len(jobs)
    out = [None] * n
    conns = max(1, min(conns, n))
    barrier = threading.Barrier(conns)
    nxt = [0]
    lock = threading.Lock()
    port = server.port
    def work():
        try: barrier.wait(timeout=30)
        except threading.BrokenBarrierError: pass
        while True:
            with lock:
                i = nxt[0]; nxt[0] += 1
            if i >= n: return
            d = jobs[i].get('before_ms')
            if d: time.sleep(d / 1000.0)
            try:
                out[i] = _one(port, jobs[i], timeout)
            except Exception as e:      # noqa: the caller judges
                out[i] = e
    ts = [threading.Thread(target=work, daemon=True) for _ in range(conns)]
    for t in ts: t.start()
    for t in ts: t.join()
    return out

def conn_kind(rng, raw, expected_len, holds_left):
    """a seeded connection kind for one job of a mixed round"""
    k = rng.below(12)
    if k < 2 and raw: return dict(conn='nohalf')          # an empty request without FIN would never be answered
    if k < 4 and holds_left[0] > 0:
        holds_left[0] -= 1
        return dict(conn='hold', ms=rng.choice([1, 2, 5, 10]))
    if k < 6 and expected_len > 30000: return dict(conn='slow')
    if k < 7: return dict(conn='plain', before_ms=rng.choice([1, 2, 4]))
    return dict(conn='plain')
