"""Input classes of C20 that random mutation of a handful of valid documents does not reach reliably (generator audit,
audit/C20/AUDIT.md).  Everything here is a deterministic function of the seeded PRNG that is passed in.

  systematic(b, delims, text)   exhaustive one-step mutations of a SMALL document: every prefix and suffix, every single-byte deletion,
                                every delimiter doubled / replaced by every other delimiter, a 2-, 3- and 4-byte character (and, for byte
                                inputs, a lone continuation byte and NUL) inserted at every position, whole-document case flips,
                                the document twice
  line_ends(b)                  the same document with every line-end style (CRLF, LF, CR, LF CR, none) and without / with a final one
  tables()                      the rows of the tables the parsers look tokens up in, read from the source under RWS_SRC
  docs_for(name, fmt)           hand-enumerated boundary documents per entry point / format
  raw_lines(rng, quick)         protocol lines of the ops with more than one input (file length x range, body x boundary,
                                path x pattern, parameter map x pattern)
"""
import os, re
from vlib import common as C

hx = C.hx

# ------------------------------------------------------------------ systematic one-step mutations of small documents
MULTI = ['é'.encode(), '€'.encode(), '\U0001F600'.encode()]

def systematic(b, delims, text, limit=64):
    out = []
    n = len(b)
    if n == 0 or n > limit: return out
    for i in range(n): out.append(('truncation', b[:i]))
    for i in range(1, n): out.append(('leading part missing', b[i:]))
    for i in range(n): out.append(('one byte deleted', b[:i] + b[i + 1:]))
    dl = bytes(sorted(set(delims)))
    for i, c in enumerate(b):
        if c in dl:
            out.append(('duplicated delimiter', b[:i] + b[i:i + 1] * 2 + b[i + 1:]))
            if n <= 40:
                for d in dl:
                    if d != c: out.append(('delimiter replaced by another', b[:i] + bytes([d]) + b[i + 1:]))
    for i in range(n + 1):
        for m in MULTI: out.append(('multi-byte character at every position', b[:i] + m + b[i:]))
        if not text:
            out.append(('non-UTF-8 byte at every position', b[:i] + b'\xa9' + b[i:]))
            out.append(('NUL at every position', b[:i] + b'\x00' + b[i:]))
    out += [('letter case', b.upper()), ('letter case', b.lower()), ('letter case', b.swapcase()), ('document twice', b + b)]
    for d in dl: out.append(('document twice', b + bytes([d]) + b))
    return out

def line_ends(b):
    if b'\n' not in b and b'\r' not in b: return []
    base = b.replace(b'\r\n', b'\n')
    out = []
    for le in (b'\n', b'\r\n', b'\r', b'\n\r', b'\r\r\n', b' \r\n', b'\r\n '):
        v = base.replace(b'\n', le)
        if v != b: out.append(('line-end style', v))
    core = b.rstrip(b'\r\n')
    out += [('line-end style', core), ('line-end style', core + b'\n'), ('line-end style', core + b'\r'), ('line-end style', core + b'\r\n\r\n'),
            ('line-end style', b'\r\n' + b), ('line-end style', b'\n' + b)]
    return out

# ------------------------------------------------------------------ the tables of the source
_T = None
def tables():
    global _T
    if _T is not None: return _T
    def read(rel):
        try: return open(os.path.join(C.RWS_SRC, rel), encoding='utf-8', errors='ignore').read()
        except OSError: return ''
    resp = read('response/mod.rs')
    status = [(int(a), p) for a, p in re.findall(r'status_code:\s*&(\d+),\s*reason_phrase:\s*"([^"]*)"', resp)]
    if len(status) < 20:
        status = [(100, 'Continue'), (200, 'OK'), (204, 'No Content'), (206, 'Partial Content'), (301, 'Moved Permanently'), (304, 'Not Modified'),
                  (400, 'Bad Request'), (404, 'Not Found'), (416, 'Range Not Satisfiable'), (418, "I'm A Teapot"), (500, 'Internal Server Error'),
                  (501, 'Not Implemented'), (511, 'Network Authentication Required')]
    m = re.search(r'pub const METHOD: Method = Method \{(.*?)\};', read('request/mod.rs'), re.S)
    methods = re.findall(r'"([A-Z]+)"', m.group(1)) if m else []
    if len(methods) < 5: methods = ['GET', 'HEAD', 'POST', 'PUT', 'DELETE', 'CONNECT', 'OPTIONS', 'TRACE', 'PATCH']
    m = re.search(r'pub const VERSION: Version = Version \{(.*?)\};', read('http/mod.rs'), re.S)
    versions = re.findall(r'"([^"]+)"', m.group(1)) if m else []
    if len(versions) < 2: versions = ['HTTP/0.9', 'HTTP/1.0', 'HTTP/1.1', 'HTTP/2.0']
    cla = read('entry_point/command_line_args/mod.rs')
    longs = re.findall(r'long_form:\s*"([^"]+)"', cla)
    shorts = re.findall(r'short_form:\s*"([^"]+)"', cla)
    if len(longs) < 5:
        longs = ['port', 'ip', 'thread-count', 'cors-allow-all', 'cors-allow-origins', 'cors-allow-methods', 'cors-allow-headers',
                 'cors-allow-credentials', 'cors-expose-headers', 'cors-max-age', 'request-allocation-size-in-bytes']
    _T = dict(status=status, methods=methods, versions=versions, longs=longs, shorts=shorts)
    return _T

# ------------------------------------------------------------------ hand-enumerated boundary documents
def _json_arrays():
    out = [b' [1]', b'\n[1]\n', b'\t[1]', b'[1] ', b'[1]  ', b'[1]\r\n', b'[1][2]', b'[1],', b'[1]]', b'[[1]', b'\xc2\xa0[1]', b'[1]\xc2\xa0', b'\xe2\x80\x83[1]',
           b'[ ]', b'[,]', b'[,,]', b'[1,]', b'[,1]', b'[1,,2]', b'[ 1 ]', b'[1 ,2]', b'[1 , 2]', b'[1  ,2]', b'[1 2]', b'[1 x]', b'[1 ]', b'[1,\r\n2]', b'[1,\n\t2]',
           b'["a" ,"b"]', b'[ "a" ]', b'["a" "b"]', b'["a"x]', b'["a"', b'["', b'["]', b'[""]', b'["","",""]', b'[" "]',
           b'["a\\"b"]', b'["a\\\\"]', b'["\\"]', b'["\\\\\\"]', b'["\\"","x"]', b'["a\\', b'["\\u00e9"]', b'["a\\nb"]', b'["]"]', b'["["]', b'[[","]]', b'[["]"]]', b'[{"a":"}"}]',
           '["é"]'.encode(), '["漢字","\U0001F600"]'.encode(), '[é]'.encode(), '[1,é]'.encode(), '["a"é]'.encode(), '[1é]'.encode(), '[-é]'.encode(), '[[é]]'.encode(), '[{é}]'.encode(),
           b'[-]', b'[--1]', b'[1-]', b'[1-1]', b'[-1-]', b'[1e5]', b'[1E5]', b'[1e]', b'[1e-5]', b'[1e+5]', b'[1.]', b'[.5]', b'[1.2.3]', b'[1e2e3]', b'[+1]', b'[01]', b'[1.5e300]', b'[1e400]',
           b'[-0]', b'[-0.0]', b'[0x10]', b'[1_000]', b'[1,2', b'[1,2,', b'[-', b'[1e', b'[1.', '[١]'.encode(), '[1١]'.encode(), '[½]'.encode(),
           b'[null]', b'[nul]', b'[nulll]', b'[null,]', b'[nullx]', b'[Null]', b'[NULL]', b'[true]', b'[tru]', b'[truee]', b'[True]', b'[false]', b'[fals]', b'[falsey]', b'[False]',
           b'[n]', b'[t]', b'[f]', b'[nu]', b'[tr]', b'[fa]', b'[fal]', b'[n', b'[nu', b'[nul', b'[t', b'[tr', b'[tru', b'[f', b'[fa', b'[fal', b'[fals', b'n', b't', b'f', b'null', b'true',
           b'[{}]', b'[{},{}]', b'[{]', b'[}]', b'[{]}', b'[[]]', b'[[],[]]', b'[[]', b'[]]', b'[[[]]]', b'[{"a":[}]', b'[{"a":1},]', b'[[1,2],[3]]', b'[{"a": {"b": [1,{"c":2}]}}]',
           b'', b' ', b'[', b']', b'][', b'x', b'1', b'"a"', b'{}', b'{"a":[1]}', b'[\x00]', b'[\x01]', b'[\x7f]', b'[1,\x002]', b'[a]', b'[A]', b'[:]', b'[1:2]', b'[\']', b"['a']"]
    # a keyword prefix followed by a multi-byte character: the 3- / 4-byte chunk read after n / t / f ends inside the character
    for kw in (b'null', b'true', b'false'):
        for cut in range(1, len(kw) + 1):
            for m in MULTI:
                out += [b'[' + kw[:cut] + m + b']', b'[' + kw[:cut] + m, b'[1,' + kw[:cut] + m + b',2]']
    return out

def _json_objects():
    out = [b'{}', b'{ }', b'{\r\n}', b'{\t}', b' {}', b'{} ', b'{}x', b'x{}', b'{}}', b'{{}', b'{', b'}', b'}{', b'', b' ', b'{"', b'{""', b'{"":', b'{"": ', b'{"":1}', b'{"": ""}',
           b'{"a"}', b'{"a":}', b'{"a": }', b'{"a":,}', b'{"a":1,}', b'{"a":1,,"b":2}', b'{,"a":1}', b'{"a":1 "b":2}', b'{"a":1}x', b'{"a":1},', b'{"a":1}}', b'{"a":1} ', b'{"a":1}\r\n',
           b'{"a" : 1}', b'{"a"\t:\t1}', b'{"a"\r\n:\r\n1\r\n}', b'{"a"x:1}', b'{"a"::1}', b'{"a":1:2}', b'{"a:b": 1}', b'{"a":"b:c"}', b'{"a":"x,y"}', b'{"a":"x}y"}', b'{"a":"}"}',
           b'{"a\\"b": 1}', b'{"a\\\\": 1}', b'{"a": "\\""}', b'{"a": "x\\\\"}', b'{"a": "\\"}', b'{"a": "\\', b'{"a": "', b'{"a": "x', b'{"a": ""}', b'{"a": "" }', b'{"a": ""x}',
           b'{"a": "x" "b": 1}', b'{"a": "x"; "b": 1}', b'{\'a\': 1}', b'{a: 1}', b'{1: 1}', b'{"a": \'x\'}',
           b'{"a": n}', b'{"a": nu}', b'{"a": nul}', b'{"a": null}', b'{"a": nullx}', b'{"a": null x}', b'{"a": Null}', b'{"a": tru}', b'{"a": true}', b'{"a": truex}', b'{"a": fals}',
           b'{"a": false}', b'{"a": falsex}', b'{"a": n', b'{"a": nu', b'{"a": t', b'{"a": tru', b'{"a": f', b'{"a": fals', b'{"a": false', b'{"a": null', b'{"a":null,"b":true,"c":false}',
           b'{"a": -}', b'{"a": --1}', b'{"a": 1-}', b'{"a": 1-1}', b'{"a": 1e}', b'{"a": 1e5}', b'{"a": 1E5}', b'{"a": 1e+5}', b'{"a": 1.}', b'{"a": .5}', b'{"a": 1.2.3}', b'{"a": 1e2e3}',
           b'{"a": +1}', b'{"a": 01}', b'{"a": 1e400}', b'{"a": -0}', b'{"a": 1', b'{"a": 1 ', b'{"a": -', b'{"a": 1 2}', b'{"a": 1x}', b'{"a": 1\r\n}', b'{"a": 1\t}', '{"a": ١}'.encode(),
           b'{"a": []}', b'{"a": [}', b'{"a": ]}', b'{"a": [[]}', b'{"a": []]}', b'{"a": ["]"]}', b'{"a": [1,2] x}', b'{"a": [1,2]', b'{"a": [', b'{"a": [1,2],}', b'{"a": [{"b":[]}]}',
           b'{"a": {}}', b'{"a": {}', b'{"a": {', b'{"a": {}}}', b'{"a": {"b": "}"}}', b'{"a": {"b": {}}} x', b'{"a": {"b": 1}, "c": {"d": 2}}', b'{"a": {}, "b": []}',
           b'{"a": 1, "a": 2}', b'{"a": 1,"b": 2,"c": 3}', b'{"a":1,"b":"x","c":null,"d":true,"e":[1],"f":{"g":1},"h":-1.5e3}', b'{"a"\x00: 1}', b'{"a": \x001}', b'{"a": 1\x00}', b'{\x00}',
           '{"é": 1}'.encode(), '{"a": "é"}'.encode(), '{"a": é}'.encode(), '{"a"é: 1}'.encode(), '{"a": 1é}'.encode(), '{é}'.encode(), '{"a": [é]}'.encode(), '{"a": {é}}'.encode(),
           '{"a": "x"é}'.encode(), '{"a": nullé}'.encode(), '{"a": 1}é'.encode(), 'é{"a": 1}'.encode(), '{"\U0001F600": "\U0001F600"}'.encode()]
    for kw in (b'null', b'true', b'false'):
        for cut in range(1, len(kw) + 1):
            for m in MULTI:
                out += [b'{"a": ' + kw[:cut] + m + b'}', b'{"a": ' + kw[:cut] + m, b'{"a":' + kw[:cut] + m + b',"b":1}']
    return out

def _json_props():
    vals = [b'', b'"', b'""', b'"a', b'a"', b'"a"', b'"a"b"', b'"\\""', b'[', b']', b'[]', b'[1', b'1]', b'][', b'{', b'}', b'{}', b'{"a":1', b'}{', b'[}', b'{]', b'null', b'nul', b'Null', b'true', b'false', b'True',
            b'0', b'-0', b'-', b'+1', b'1.5', b'1e5', b'1e400', b'-1e-400', b'.', b'e', b'1e', b'NaN', b'nan', b'inf', b'-inf', b'infinity', b'Infinity', b'1_0', b'0x1', b' 1 ', b'1 2',
            b'170141183460469231731687303715884105727', b'170141183460469231731687303715884105728', b'-170141183460469231731687303715884105728', b'-170141183460469231731687303715884105729',
            '"é"'.encode(), 'é'.encode(), '١'.encode(), '"\U0001F600'.encode(), '\U0001F600"'.encode(), b':', b'::', b'"a": 1', b'\x00', b'"\x00"']
    keys = [b'"a"', b'a', b'', b'"', b'""', b' "a" ', b'"a b"', '"é"'.encode(), b'"a\\"b"', b'\x00']
    out = [k + b':' + v for k in keys[:1] for v in vals] + [k + b': ' + v for k in keys[:1] for v in vals] + [k + b':' + v for k in keys[1:] for v in (b'1', b'"x"', b'"', b'')]
    out += [b'', b' ', b':', b'a', b'"a"', b'"a" 1', b'"a"=1', b' : ', b'\r\n"a": 1\r\n', b'"a"\t:\t1', b'"a":1,', b'"a":1,"b":2', b'"a":"x","b":"y"', b'"a":[1],"b":[2]', b'"a":{"b":1},"c":{}']
    return out

def _base64():
    out = [b'QUJD\r\nQUJD', b'QUJD\nQUJD', b'QUJD QUJD', b' QUJD', b'QUJD ', b'QUJD\n', b'QUJD\x00', b'QU-_', b'-_-_', b'QUJD====', b'QUJD=', b'QUJD==', b'QUJD===', b'Q', b'QQ', b'QQQ', b'QQQQQ',
           b'=', b'==', b'===', b'====', b'=====', b'Q=', b'Q==', b'Q===', b'QQ=', b'QQ=Q', b'Q=QQ', b'=QQQ', b'==QQ', b'QQ==QQ==', b'QQ==QUJD', b'QUI=QUJD', b'QUJDQQ=', b'QUJDQ',
           b'!!!!', b'QQ!=', b'Q!==', b'!Q==', b'QUJ!', b'QU!D', b'Q!JD', b'!UJD', b'QUJD!', b'QQ=\xc3\xa9', '\u00c3\u00a9AA'.encode(), 'A\u00c3\u00a9A'.encode(), 'AA\u00c3\u00a9'.encode(), '\u00c3\u00a9=='.encode(),
           '\u00e2\u0082\u00acA'.encode(), '\u00f0\u009f\u0098\u0080'.encode(), '\u0141\u0141\u0141\u0141'.encode(), '\u0141\u0141=='.encode(), '\u0100AAA'.encode(), 'AAA\u0100'.encode(), '\u013d\u013d\u013d\u013d'.encode(),
           '\u0151UJD'.encode(), 'é'.encode(), 'éééé'.encode(), 'QUJDé'.encode(), 'éQUJD'.encode(), '\U0001F600'.encode(), 'QQ\U0001F600='.encode(), '\uff21\uff21\uff21\uff21'.encode()]
    # every text of up to 4 characters over an alphabet with a letter, the last table entry, padding, a foreign ASCII character, and two
    # characters whose LOW BYTES (what `char as u8` keeps) are a lead and a continuation byte of UTF-8, and one whose low byte is a letter
    al = ['A', '/', '=', '!', '\u00c3', '\u00a9', '\u0141']
    texts = ['']
    for n in range(4):
        texts = [t + c for t in texts for c in al]
        out += [t.encode() for t in texts]
    return out

def _content_disposition():
    types = ['form-data', 'attachment', 'inline', 'Form-Data', ' form-data', 'form-data ', '', 'x']
    keys = ['name', 'filename', 'other', '', ' name', 'name ', 'Name', 'filename*', 'n\u00e9']
    vals = ['', '"', '""', '"a"', 'a', '"a', 'a"', '"a"b"', '"\u00e9"', '\u00e9', '"\u00e9', '"\\""', '"a=b"', 'a=b', '" "', ' "a" ', '"\U0001F600', '\U0001F600"', '"\x00"']
    out = []
    for t in types[:3]:
        for k in keys:
            out.append(f'{t}; {k}'); out.append(f'{t};{k}=')
            for v in vals:
                out.append(f'{t}; {k}={v}')
        for k1, k2 in (('name', 'filename'), ('filename', 'name'), ('name', 'name'), ('filename', 'filename'), ('name', 'other'), ('other', 'name'), ('other', 'other'), ('name', ''), ('', 'name')):
            for v1, v2 in (('"a"', '"b"'), ('"', '"b"'), ('"a"', '"'), ('"', '"'), ('', ''), ('""', '""'), ('a', 'b'), ('"\u00e9', '\u00e9"')):
                out.append(f'{t}; {k1}={v1}; {k2}={v2}')
        out += [f'{t}', f'{t};', f'{t}; ', f'{t};;', f'{t};;;', f'{t}; name="a"; filename="b"; x=y', f'{t}; name="a"; filename="b"; name="', f'{t}; name="a";', f'{t}; name="a"; ', f'{t};name="a";filename="b"',
                f'{t}; name="a;b"', f'{t}; name="a"; filename="b;c"', f'{t}; name', f'{t}; name="a"; filename', f'{t}; =', f'{t}; ==', f'{t}; =; =', f'{t}; name=a=b; filename=c=d']
    for t in types[3:]:
        out += [f'{t}', f'{t}; name="a"', f'{t}; name="', f'{t}; filename="b"; name="a"']
    return [s.encode() for s in out]

def _headers():
    return [s.encode() if isinstance(s, str) else s for s in
            ['', ' ', ':', ': ', ' :', '::', 'a', 'a:', ':b', 'a: ', 'a :b', 'a: b: c', 'a:b:c', 'a : b', '\ta:\tb\t', 'a:\r\n', 'a\r\n: b', 'a: b\r\n c', 'a: b\r\n\r\n', '\r\n', '\n', '\r', 'a\r:b', 'a\n:b',
             b'a\x00: b', b'a: \x00', b'\x00', b'\x00:\x00', b'a\x7f: b', b'\x0b\x0c: x', '\u00a0a\u00a0:\u00a0b\u00a0', '\u3000a: b', '\u0085: \u0085', 'é: è', 'a: \U0001F600', '\U0001F600', 'é',
             'Content-Length: 1', 'Content-Length:1', 'content-length: 1', 'Content-Length: ', 'Content-Length', 'Content-Length : 1', 'Content-Type: multipart/byteranges; boundary="',
             'Content-Disposition: form-data; name="', 'Host: [::1]:80', 'a: b,c;d=e', 'a:' + ' ' * 50 + 'b', ':' * 20, 'a: ' + 'é' * 30]]

def _content_ranges():
    return [s.encode() for s in
            ['', ' ', 'bytes', 'bytes ', 'bytes 0', 'bytes 0-', 'bytes 0-4', 'bytes 0-4/', 'bytes 0-4/10', 'bytes  0-4/10', 'bytes 0-4/10 ', 'bytes\t0-4/10', 'bytes=0-4/10', 'bytes */10', 'bytes 0-4/*', 'bytes */*',
             'bytes -/', 'bytes -4/10', 'bytes 0--4/10', 'bytes 0-4/-10', 'bytes -0-4/10', 'bytes 0-4-5/10', 'bytes 0-4/10/11', 'bytes 0 - 4 / 10', 'bytes 0-4 /10', 'bytes 0-4/ 10', 'bytes +0-+4/+10', 'bytes 4-0/10', 'bytes 0-10/10',
             'bytes 0-11/10', 'bytes 11-12/10', 'bytes 10-10/10', 'bytes 0-0/0', 'bytes 0-0/1', 'Bytes 0-4/10', 'BYTES 0-4/10', 'byte 0-4/10', 'bytess 0-4/10', 'items 0-4/10', ' 0-4/10', '0-4/10', 'bytes 0-4/10, 5-6/10',
             'bytes 9223372036854775807-9223372036854775807/9223372036854775807', 'bytes 0-9223372036854775808/9223372036854775808', 'bytes -9223372036854775808-0/0', 'bytes 0-0/-9223372036854775808',
             'bytes é-4/10', 'bytes 0-é/10', 'bytes 0-4/é', 'é 0-4/10', 'bytes\u00a00-4/10', '\u00a0bytes 0-4/10\u00a0', 'bytes ١-٤/١٠', 'ſ 0-4/10', 'BYTEſ 0-4/10', 'bytes 0\u20134/10', 'bytes 0-4\u204410']]

def _ranges():
    return [s.encode() for s in
            ['', ' ', '-', '--', '---', '0', '0-', '-0', '0-0', '0-0-0', '1-2-3', '-1-2', '1--2', '--5', '5--', ' - ', ' 1 - 2 ', '\t1-2\t', '1 -2', '1- 2', '+1-+2', '+-1', '-+1', '1-+', '01-02', '1.5-2', '1e1-2', '0x1-2',
             'a-b', '1-b', 'a-2', '-b', 'a-', 'é-1', '1-é', '-é', '١-٢', '\u00a01-2\u00a0', '1\u20132', '9-10', '10-10', '10-11', '11-11', '10-', '-10', '-11', '9-8', '0-10', '0-11',
             '18446744073709551615-18446744073709551615', '0-18446744073709551615', '-18446744073709551615', '-18446744073709551616', '18446744073709551616-', '18446744073709551615-', '0-18446744073709551616',
             '9223372036854775807-9223372036854775808', '-9223372036854775808', '1,2', '0-1,2-3', '0-1;2-3', 'bytes=0-1', '=0-1', '\x00-1', '1-\x00']]

def _range_headers():
    return [s.encode() for s in
            ['', ' ', 'bytes', 'bytes=', 'bytes==', 'bytes= ', 'bytes=,', 'bytes=,,', 'bytes=0-1,', 'bytes=,0-1', 'bytes=0-1,,2-3', 'bytes=0-1=2-3', 'bytes=0-1,bytes=2-3', 'bytes=0-1, 2-3', 'bytes=0-1 ,2-3', 'bytes= 0-1',
             'bytes =0-1', ' bytes=0-1', 'bytes=0-1 ', 'Bytes=0-1', 'BYTES=0-1', 'byte=0-1', 'bytess=0-1', 'items=0-1', 'bytes:0-1', 'bytes 0-1', '=0-1', '0-1', 'bytes=-', 'bytes=--', 'bytes=0', 'bytes=0-', 'bytes=-0', 'bytes=-1',
             'bytes=-10', 'bytes=-11', 'bytes=9-', 'bytes=10-', 'bytes=11-', 'bytes=0-9', 'bytes=0-10', 'bytes=0-11', 'bytes=9-9', 'bytes=10-10', 'bytes=5-4', 'bytes=0-0,0-0,0-0', 'bytes=0-9,0-9,0-9,0-9', 'bytes=0-0,-1',
             'bytes=0-0,11-12', 'bytes=11-12,0-0', 'bytes=0-0,x', 'bytes=x,0-0', 'bytes=a-b', 'bytes=é', 'bytes=0-é', 'bytes=é-1', 'bytes\u00a0=0-1', 'bytes=\u00a00-1', 'bytes=0\u20131', 'bytes=١-٢', 'bytés=0-1',
             'bytes=18446744073709551615-', 'bytes=-18446744073709551615', 'bytes=-18446744073709551616', 'bytes=0-18446744073709551615', 'bytes=18446744073709551616-18446744073709551617', 'bytes=9223372036854775808-',
             'bytes=+0-+1', 'bytes=0-1-2', 'bytes=0--1', 'bytes=\x000-1', 'bytes=0-1\x00', 'bytes=0-1\r\n', 'bytes=0-1;q=1', 'bytes=' + ','.join(['0-0'] * 300), 'bytes=' + ',' * 300]]

def _url_patterns():
    return [s.encode() for s in
            ['', '/', '//', '[', ']', '[[', ']]', '[]', '][', '[[]', '[]]', '[[]]', '[[]]]', '[[[]]', '[[[]]]', '[[[[]]]]', '[[a]', '[a]]', '[[a]]', '[[a]]]', '[[[a]]', '[[[a]]]', '[[a]]]]', '[[a]][[b]]', '[[a]]x[[b]]', '[[a]]/[[a]]',
             '[[a]][', '[[a]]]x', '[[a]]x]]', 'x[[a]]', 'x[[a]]y', 'x]]', ']]x', 'x]]y]]', 'x[[', '[[x', 'x[[y', 'x[[y[[z', 'x[y]z', 'x[y]]z', 'x[[y]z', '[x]', '/a[b]/c', '/a/[[b]]/c/[[d]]/e', '[[a]]/', '/[[a]]', '/[[a]]/', '[[a/b]]',
             '[[a b]]', '[[ ]]', 'a b', 'a\tb', 'a\x00b', '[[a\x00]]', '\x7f', '[[é]]', 'é[[é]]é', '[[\U0001F600]]', '\U0001F600[[a]]\U0001F600', 'é', '/é/[[a]]/ü', '[[a]]é', '[[a]]\U0001F600[[b]]', '\u00a0', '[[\u00a0]]', '\u0085',
             '[[a]]]]]]', '[[[[[[a]]', ']]]]', '[[[[', '[]' * 10, '][' * 10, '[[a]]-[[b]]-[[c]]-[[d]]', '-[[a]]', '[[a]]-', '[[a]]--[[b]]', 'aa[[a]]aa[[b]]aa']]

def _url_paths():
    return [s.encode() for s in
            ['', '/', '//', 'x', 'xy', 'xyz', '/a', '/a/', '/a/1/c', '/a/1/c/2/e', '/a//c//e', '/a/1/c/', '1', '1/', '/1', '/1/', 'x1', 'x1y', 'x1yy', '1-2-3-4', '-1', '1-', '1--2', 'aa1aa2aa', 'aaaaaa', 'aa', 'a',
             'é', 'éé', 'éxé', 'é1é', '/é/1/ü', '/é/é/ü', '1é', 'é1', '\U0001F600', '\U0001F6001\U0001F600', '1\U0001F6002', '\U0001F600\U0001F600', 'aé\U0001F600', '\u00e9\u0301', 'a b', 'a\tb', 'a\x00b', '\u00a0', '\u0085', '\x7f',
             '[[a]]', '[', ']]', '/a/[[b]]/c', 'x' * 300, 'é' * 100, '/a/' + 'é' * 50 + '/c']]

def _configs():
    t = tables()
    keys = [k.replace('-', '_') for k in t['longs']]
    out = []
    full = ''.join(f'{k} = "v{i}"\n' for i, k in enumerate(keys))
    out.append(full.encode())
    cors = [k[len('cors_'):] for k in keys if k.startswith('cors_')]
    out.append(('\n'.join(f'{k} = 1' for k in keys if not k.startswith('cors_')) + '\n[cors]\n' + '\n'.join(f'{k} = "x"' for k in cors) + '\n').encode())
    for k in keys + [t['longs'][0], 'p', '-p', '--port', 'cors', 'unknown_key', '', ' ', 'é', 'PORT', 'Port']:
        for v in ('1', '"1"', "'1'", '', '[]', '["a", "b"]', '[["a"]]', '"a=b"', 'a=b', '"a#b"', '"é"', '-1', '99999999999999999999', 'true', '"\\""', '"', "'", '['):
            out.append(f'{k} = {v}\n'.encode())
    for tb in ('[cors]', '[ cors ]', '[cors', 'cors]', '[]', '[[cors]]', '[cors.x]', '[CORS]', '[cors] # c', '[cors]=1', '[cors] = 1', '[a=b]', '[=]', '[#]', '[é]', '[cors][x]', '[', ']', '[[', ']]', '[\t]', '[x]\n[cors]', '[cors]\n[]'):
        out.append(f'{tb}\nallow_all = true\nmax_age = 1\n'.encode()); out.append(f'port = 1\n{tb}'.encode())
    out += [b'', b'\n', b'\r\n', b'\r', b' ', b'\t', b'=', b'==', b'=\n=', b'= 1', b'a =', b'a = b = c', b'a == b', b'#', b'# a = b', b'a = b # c', b'a # = b', b'a = "#" # c', b'#\n#\n', b'\xef\xbb\xbfport = 1\n', b'port = 1', b'port = 1\r',
            b'port = 1\r\nip = "x"\r\n', b'port = 1\rip = 2\r', b'port = 1\n\n\nip = 2\n\n', b'port\t=\t1', b'  port  =  1  ', b'p o r t = 1', b'port = 1 2', b'port = 1\x00', b'po\x00rt = 1', b'\x00', b'[\x00]\na = 1', b'port = \xff',
            b'\xff', b'port = 1\n\xff', b'\xff\nport = 1', b'\xc3', b'port = "\xc3\xa9"\n', 'ключ = "значение"\n'.encode(), b'port = 1\n' * 3, b'[cors]\n' * 3 + b'allow_all = 1', b'a_b_c = 1', b'a-b = 1', b'_ = 1', b'- = 1', b'__ = __',
            b'port = """1"""', b"port = '''1'''", b'port = [1, 2', b'port = 1]', b'x = {a = 1}', b'[[a]]\nb = 1\n[[a]]\nb = 2\n', b'a.b = 1', b'"a" = 1', b"'a' = 1", b'a = 1 = 2 = 3', b'=' * 50, b'[' * 50 + b']' * 50]
    return out

def _queries():
    return [s.encode() if isinstance(s, str) else s for s in
            ['', '&', '&&', '=', '==', '=&=', 'a', 'a=', '=a', 'a&', '&a', 'a=b=c', 'a==b', 'a=b&', '&a=b', 'a=b&&c=d', 'a=b&a=c', 'a=&a=', 'a&a', 'a=b;c=d', '?a=b', 'a=b#c', 'a=b?c=d', '%', '%%', '%2', '%2&', 'a=%', 'a=%2', 'a=%2G',
             'a=%zz', '%zz=1', '%=%', 'a=%00', '%00=%00', 'a=%C3', 'a=%C3%A9', 'a=%c3%a9', 'a=%A9', 'a=%FF', 'a=%F0%9F%98%80', 'a=%F0%9F%98', 'a=%E2%82', 'a=%ED%A0%80', 'a=%C0%80', '%C3=%C3', 'a=%25', 'a=%2525', 'a=%26', 'a=%3D', 'a=%2B',
             'a=+', '+=+', 'a=b+c', 'a=%20', 'a= b', ' a = b ', 'a=é', 'é=é', 'a=\U0001F600', '\u00a0a=b', 'a=b\u00a0', b'a=\x00', b'\x00=\x00', b'a=b\x00\x00\x00', b'a=\x7f', b'a=b\r\n', b'\r\na=b', b'a=\r\nb', b'a=\xff', b'\xff=a', b'a=\xc3',
             b'a=\xc3\xa9', b'\xc3\xa9', b'a=b&\xff', b'a=%\xc3\xa9', 'a=%é', 'a=%\U0001F600', 'a=%2é', '%é', 'a[]=1&a[]=2', 'a[b]=c', 'a.b=c', 'a=1&b=2&c=3&d=4&e=5&f=6&g=7&h=8']]

def _urls():
    return [s.encode() for s in
            ['', ':', '/', '//', '://', 'http', 'http:', 'http:/', 'http://', 'http:///', 'http:////', 'http://h', 'http://h:', 'http://h:/', 'http://h:80', 'http://h:080/', 'http://h:65535/', 'http://h:65536/', 'http://h:0/', 'http://:80/',
             'http://@h/', 'http://:@h/', 'http://u@h/', 'http://u:@h/', 'http://:p@h/', 'http://u:p:q@h/', 'http://u@v@h/', 'http://u:p@/', 'http://u:p@:80/', 'http://h?', 'http://h#', 'http://h?#', 'http://h/?', 'http://h/#', 'http://h/?#',
             'http://h/#?', 'http://h/?a', 'http://h/?a=', 'http://h/?=a', 'http://h/?a=b&', 'http://h/?&', 'http://h/?a=b#', 'http://h/?a=b#c#d', 'http://h/?a=b?c=d', 'http://h/a?b/c', 'http://h/a#b/c?d', 'http://[::1]/', 'http://[::1]:80/',
             'http://[::1', 'http://[/', 'http://]/', 'http://[]:80/', 'HTTP://H/', 'Http://h/', 'h://h/', '1://h/', '+://h/', '://h/', 'http//h/', 'http:h/', 'http:/h/', 'mailto:a@b', 'urn:a:b', 'file:///a/b', 'a://b://c', 'http://h//a//b',
             'http://h/%', 'http://h/%2', 'http://h/%zz', 'http://h/%C3', 'http://h/%00', 'http://h/?a=%', 'http://h/?a=%C3', 'http://h/?%=%', 'http://h/#%', 'http://é/', 'http://h/é', 'http://h/?é=é', 'http://h/#é', 'http://é@h/', 'http://u:é@h/',
             'é://h/', 'http://h:é/', 'http://\U0001F600/', 'http://h/\U0001F600?\U0001F600=\U0001F600#\U0001F600', 'http://h /', 'http://h/ a', ' http://h/', 'http://h/ ', 'http://h/\x00', 'http://h\x00/', 'http://h/a\r\nb', 'http://h/\u00a0']]

def _request_targets():
    return [s.encode() for s in
            ['', '/', '*', '//', '/?', '/#', '/?#', '?', '#', '?a=b', '#f', '/a?', '/a?b', '/a?b=', '/a?=b', '/a?b=c&', '/a?&', '/a?b=c#', '/a?b=c#d?e=f', '/a?b=c?d=e', '/a#b?c=d', '/a?b=c&b=d', '/a?%', '/a?b=%', '/a?b=%2', '/a?b=%zz',
             '/a?b=%C3', '/a?b=%00', '/a?%=%', '/%', '/%2', '/%zz', '/%C3', '/%00', '/é', '/a?é=é', '/a#é', '/\U0001F600?\U0001F600', '/a b', '/a?b c', ' /a', '/a ', '/a\x00', '/a?b=\x00', '/a\r\n', 'a', 'a?b=c', 'a/b', '.', '..', '/..', '/../a',
             'http://h/a?b=c', 'https://u:p@h:1/a?b=c#d', '//h/a', '///a', ':', ':x', ':80', ':80/a', ':x/a', ':/a', '@', '@h/a', 'u@h/a', 'u:p@h/a', ':p@/a', '@:/a', '@:x/a', 'h:80', '[::1]:80', '[', ']', '[/a', '/[', '/a?[]=1', ':99999999999999999999/a',
             ':-1/a', ':+1/a', ': 1/a', ':1 /a', ':é/a', ':\U0001F600', ':65536/a', ':18446744073709551615/a', ':18446744073709551616/a', '/a?' + 'b=c&' * 50, '/' + 'a/' * 50, '/' + 'é' * 50 + '?' + 'é' * 50]]

def _request_lines():
    t = tables()
    out = []
    for m in t['methods'] + [x.lower() for x in t['methods']] + [x.title() for x in t['methods'][:3]] + ['', 'G', 'GE', 'GETT', 'GET\x00', 'GÉT', 'ɢᴇᴛ', 'ſ', 'get\u0131', 'M-SEARCH', 'PROPFIND']:
        for v in t['versions'] + [x.lower() for x in t['versions']] + ['', 'HTTP', 'HTTP/', 'HTTP/1', 'HTTP/1.', 'HTTP/1.2', 'HTTP/3.0', 'HTTP/11', 'HTTP/1.1 ', ' HTTP/1.1', 'HTTP/1.1\r\n', 'HTTP/1.1\n', 'HTTP/1.1\r', 'HTTP/1.1\x00', 'HTTP/１.１', 'HTTP/1.1é', 'ʜᴛᴛᴘ/1.1', 'HTTP\\1.1']:
            out.append(f'{m} / {v}')
    for tg in ('', ' ', '*', 'http://h/a', 'h:80', '/a b', '/a  b', '/é', '/\U0001F600', '/\x00', '/\t', '\t', '/a\tHTTP/1.1'):
        out += [f'GET {tg} HTTP/1.1', f'GET {tg} HTTP/1.1\r\n', f'CONNECT {tg} HTTP/1.1']
    out += ['', ' ', '  ', '   ', 'GET', 'GET ', 'GET  ', 'GET /', 'GET / ', 'GET /  ', 'GET  / HTTP/1.1', 'GET /  HTTP/1.1', 'GET / HTTP/1.1 x', 'GET\t/\tHTTP/1.1', 'GET\u00a0/\u00a0HTTP/1.1', '\u00a0GET / HTTP/1.1\u00a0', '\u3000GET / HTTP/1.1',
            '\r\nGET / HTTP/1.1', '\nGET / HTTP/1.1', '\x00GET / HTTP/1.1', 'GET / HTTP/1.1\r\n\r\n', 'GET / HTTP/1.1\r\nHost: x', '/ GET HTTP/1.1', 'HTTP/1.1 / GET', 'HTTP/1.1 200 OK', 'GET / HTTP/1.1 GET / HTTP/1.1']
    return [s.encode() for s in out]

def _status_lines():
    t = tables()
    out = []
    for code, phrase in t['status']:
        out += [f'HTTP/1.1 {code} {phrase}', f'HTTP/1.1 {code} {phrase}\r\n', f'http/1.1 {code} {phrase.lower()}', f'HTTP/1.1 {code} {phrase.upper()}', f'HTTP/1.1 {code}', f'HTTP/1.1 {code} ', f'HTTP/1.1 {code}  {phrase}', f'HTTP/1.1 {code} {phrase} ',
                f'HTTP/1.1 {code + 1} {phrase}', f'HTTP/1.1 0{code} {phrase}', f'HTTP/1.1 +{code} {phrase}', f'HTTP/1.1 -{code} {phrase}']
    for v in t['versions'] + [x.lower() for x in t['versions']] + ['', 'HTTP', 'HTTP/', 'HTTP/1.2', 'HTTP/3.0', 'HTTP/1.1é', 'ʜᴛᴛᴘ/1.1', 'HTTP/１.１', 'ſ', 'HTTP/1.1\x00']:
        out += [f'{v} 200 OK', f'{v} 200 OK\r\n', f'{v} 404 Not Found']
    for ph in ('', ' ', 'ok', 'Ok', 'OK ', ' OK', 'O K', 'OK\r', 'OK\n', 'OK\r\n', 'OK\r\n\r\n', 'OK\x00', 'ÓK', 'OK\u00a0', 'o\u212a', 'ﬁ', 'ß', 'SS', 'İ', 'i\u0307', 'ǅ', 'OK OK', 'Not Found'):
        out += [f'HTTP/1.1 200 {ph}']
    for ph in ("I'm A Teapot", "i'm a teapot", "I'M A TEAPOT", 'I’m A Teapot', 'Im A Teapot'):
        out += [f'HTTP/1.1 418 {ph}']
    for c in ('', ' ', '2', '20', '2000', '200.0', '2e2', '0x200', '٢٠٠', '２００', '200é', 'é', '32767', '32768', '-32768', '-32769', '65736', '4294967496', '-200', '+200', '0200', '00000000000000000200', '\x00', '200\x00'):
        out += [f'HTTP/1.1 {c} OK']
    out += ['', ' ', '  ', 'HTTP/1.1', 'HTTP/1.1 ', 'HTTP/1.1  ', 'HTTP/1.1   ', 'HTTP/1.1\t200\tOK', 'HTTP/1.1\u00a0200\u00a0OK', ' HTTP/1.1 200 OK', '\r\nHTTP/1.1 200 OK', 'HTTP/1.1 200 OK\r\nA: b', '200 OK', 'OK 200 HTTP/1.1', 'GET / HTTP/1.1']
    return [s.encode() for s in out]

def _content_types():
    return [s.encode() for s in
            ['', 'boundary', 'boundary=', 'boundary="', 'boundary=""', 'boundary="a', 'boundary=a"', 'boundary="a"', 'boundary="a"b"', 'boundary=a', 'boundary==', 'boundary=boundary=', 'boundary=a; boundary=b', 'boundary="a"; boundary="b"',
             'multipart/form-data', 'multipart/form-data;', 'multipart/form-data; ', 'multipart/form-data; boundary', 'multipart/form-data; boundary=', 'multipart/form-data; boundary="', 'multipart/form-data; boundary=""', 'multipart/form-data; boundary="""',
             'multipart/form-data; boundary="a', 'multipart/form-data; boundary=a"', 'multipart/form-data; boundary="a b"', 'multipart/form-data; boundary= a', 'multipart/form-data; boundary=a ', 'multipart/form-data; boundary=a; charset=utf-8',
             'multipart/form-data; boundary="a"; charset=utf-8', 'multipart/form-data; charset=utf-8; boundary=a', 'multipart/form-data; Boundary=a', 'multipart/form-data; BOUNDARY=a', 'multipart/form-data;boundary=a', 'multipart/form-data; boundary =a',
             'multipart/form-data; boundary=é', 'multipart/form-data; boundary="é', 'multipart/form-data; boundary=é"', 'multipart/form-data; boundary="\U0001F600"', 'multipart/form-data; boundary=\x00', 'multipart/form-data; boundary=a\r\n',
             'multipart/form-data; boundary=' + 'a' * 70, 'multipart/form-data; boundary=' + 'a' * 71, 'multipart/form-data; xboundary=a', 'multipart/form-data; boundary=a=b', 'multipart/form-data; boundary="a=b"', 'text/plain; boundary=a', 'boundary=a; multipart/form-data']]

SEP = b'String_separator'
def _br_part(ct=b'Content-Type: text/plain', cr=b'Content-Range: bytes 0-1/2', body=b'ab', le=b'\r\n', blank=None, after=None, sep=SEP):
    """one part of a multipart/byteranges body: delimiter line, the two header lines, blank line, body, line end"""
    lines = [b'--' + sep]
    if ct is not None: lines.append(ct)
    if cr is not None: lines.append(cr)
    out = le.join(lines) + le + (le if blank is None else blank) + body + (le if after is None else after)
    return out

def _byteranges(sep=SEP):
    P = lambda **k: _br_part(sep=sep, **k)
    end = b'--' + sep
    out = []
    # part bodies of 0, 1, 2, 3 bytes and bodies that are / end in line-end bytes, with every line-end style before the closing delimiter
    for body in (b'', b'a', b'ab', b'abc', b'\n', b'\r', b'\r\n', b'\n\n', b'\r\n\r\n', b'a\n', b'a\r\n', b'\na', b'\x00', b'\xff', b'\xff\xfe', b'-', b'--', b'--' + sep[:-1], b'x--' + sep + b'y', b'--' + sep, 'é'.encode(), b'\xc3'):
        for after in (b'\r\n', b'\n', b'\r', b''):
            out.append(P(body=body, after=after) + end)
        out.append(P(body=body) + end + b'--'); out.append(P(body=body) + end + b'--\r\n'); out.append(P(body=body) + end + b'\r\n'); out.append(P(body=body) + P(body=body) + end); out.append(P(body=body))
    for le in (b'\n', b'\r', b'\n\r', b'\r\r\n'):
        out += [P(le=le) + end, P(le=le) + end + le, P(le=le) * 2 + end]
    hdr_variants = [
        dict(ct=None), dict(cr=None), dict(ct=None, cr=None), dict(ct=b'Content-Range: bytes 0-1/2', cr=b'Content-Type: text/plain'), dict(ct=b'content-type: text/plain'), dict(cr=b'content-range: bytes 0-1/2'),
        dict(ct=b'CONTENT-TYPE: text/plain'), dict(ct=b'Content-Type:text/plain'), dict(ct=b'Content-Type'), dict(ct=b'Content-Type:'), dict(ct=b'Content-Type: '), dict(ct=b'Content-Type text/plain'), dict(ct=b'Content-Typetext'),
        dict(ct=b' Content-Type: text/plain'), dict(ct=b'Content-Type : text/plain'), dict(ct=b'Content-Type: a: b'), dict(ct=b'Content-Type: \xff'), dict(ct='Content-Type: é'.encode()), dict(ct=b'Content-Type: ' + sep),
        dict(ct=b'Content-Type: multipart/byteranges; boundary=' + sep), dict(ct=b'X: y\r\nContent-Type: text/plain'), dict(ct=b'Content-Type: text/plain\r\nX: y'), dict(ct=b'Content-Type: text/plain\r\nContent-Type: text/html'),
        dict(cr=b'Content-Range'), dict(cr=b'Content-Range:'), dict(cr=b'Content-Range: '), dict(cr=b'Content-Range: bytes'), dict(cr=b'Content-Range: bytes 0-1'), dict(cr=b'Content-Range: bytes 0-1/'), dict(cr=b'Content-Range: bytes */2'),
        dict(cr=b'Content-Range: bytes 0-1/*'), dict(cr=b'Content-Range: bytes 1-0/2'), dict(cr=b'Content-Range: bytes 0-5/2'), dict(cr=b'Content-Range: bytes 0-0/0'), dict(cr=b'Content-Range: bytes -1-0/2'), dict(cr=b'Content-Range: bytes 0--1/2'),
        dict(cr=b'Content-Range: bytes 0-1/-2'), dict(cr=b'Content-Range:bytes 0-1/2'), dict(cr=b'Content-Range: BYTES 0-1/2'), dict(cr=b'Content-Range: items 0-1/2'), dict(cr=b'Content-Range: bytes 0-1/2\r\nContent-Range: bytes 0-1/2'),
        dict(cr=b'Content-Range: bytes 0-1/2\r\nX: y'), dict(cr=b'Content-Range: bytes 0-9223372036854775807/9223372036854775807'), dict(cr=b'Content-Range: bytes 9223372036854775808-9223372036854775808/9223372036854775808'),
        dict(cr='Content-Range: bytes é'.encode()), dict(cr=b'Content-Range: \xff'), dict(cr=b'Content-Range: bytes 0-1/2 '), dict(cr=b'Content-Range:  bytes  0-1/2'),
        dict(blank=b''), dict(blank=b' \r\n'), dict(blank=b'\t\r\n'), dict(blank=b'x\r\n'), dict(blank=b'\r\n\r\n'), dict(blank=b'\n'), dict(blank=b'\r'), dict(blank=b'\x00\r\n'), dict(blank=' \r\n'.encode()), dict(blank=b'\xff\r\n'),
    ]
    for hv in hdr_variants:
        out += [P(**hv) + end, P() + P(**hv) + end, P(**hv) + P() + end, P(**hv)]
    # what stands before, between and after the parts
    for pre in (b'\r\n', b'\n', b' \r\n', b'preamble\r\n', b'\r\n\r\n\r\n', b'--\r\n', b'--' + sep[:-1] + b'\r\n', b'x--' + sep + b'\r\n', b'--' + sep + b'\r\n', b'--' + sep + b'--\r\n', b'\x00\r\n', b'\xff\r\n', 'é\r\n'.encode(), sep + b'\r\n', b'-' + sep + b'\r\n'):
        out += [pre + P() + end, P() + pre + P() + end, P() + end + b'\r\n' + pre, pre]
    out += [b'', end, end + b'\r\n', end + b'--', end + b'--\r\n', end * 2, (end + b'\r\n') * 3, b'--', b'-', sep, b'--' + sep[:-1], P()[:-2], P() + b'--', P() + end[:-1], P() + end + b'x', P() + b'x' + end, P() + end.lower(), P() + end.upper(),
            P() * 3 + end, P(body=b'a' * 70000) + end, P(body=b'\xff' * 1000) + end, P(body=(b'line\r\n' * 50)) + end, P(body=(b'\r\n' * 50)) + end, P(body=(b'--\r\n' * 20)) + end]
    return out

def _responses():
    t = tables()
    H = b'HTTP/1.1 200 OK\r\n'
    out = []
    for code, phrase in t['status']:
        out.append(f'HTTP/1.1 {code} {phrase}\r\nContent-Length: 1\r\n\r\nx'.encode())
    for v in t['versions'] + [x.lower() for x in t['versions']]:
        out.append(f'{v} 200 OK\r\n\r\n'.encode())
    heads = [b'', b'Content-Type: text/plain\r\n', b'content-type: text/plain\r\n', b'CONTENT-TYPE: text/plain\r\n', b'Content-Type:text/plain\r\n', b'Content-Type\r\n', b'Content-Type:\r\n', b'Content-Type: \r\n', b': x\r\n', b':\r\n', b' : \r\n',
             b'Content-Type: text/plain\r\nContent-Type: multipart/byteranges; boundary=' + SEP + b'\r\n', b'Content-Type: multipart/byteranges; boundary=' + SEP + b'\r\nContent-Type: text/plain\r\n',
             b'Content-Length: 3\r\nContent-Length: 4\r\n', b'Content-Length: 3\r\ncontent-length: x\r\n', b'content-length: x\r\n', b'Content-Length:3\r\n', b'Content-Length:  3\r\n', b'Content-Length: 3 \r\n', b'Content-Length: +3\r\n',
             b'Content-Length: -3\r\n', b'Content-Length: 3.0\r\n', b'Content-Length: \r\n', b'Content-Length\r\n', b'Content-Length: 0x3\r\n', 'Content-Length: ٣\r\n'.encode(), b'Content-Length: 3\x00\r\n', b'Content-Length: 18446744073709551615\r\n',
             b'Content-Length: 18446744073709551616\r\n', b'Content-Length: 9223372036854775808\r\n', b'Content-Length: 0\r\n', b'Content-Length: 100\r\n', b'Content-Length: 1\r\n',
             b'Content-Range: bytes 0-2/3\r\n', b'Content-Range: bytes 0-2/3\r\nContent-Range: bytes 9-2/3\r\n', b'content-range: bytes 9-2/3\r\n', b'Content-Range: \r\n', b'Content-Range\r\n', b'Content-Range: bytes\r\n', b'Content-Range: bytes */3\r\n',
             b'Content-Range: bytes 0-2/*\r\n', b'Content-Range: bytes 2-0/3\r\n', b'Content-Range: bytes 0-9/3\r\n', b'Content-Range: bytes -1-2/3\r\n', b'Content-Range: bytes 0-2/-3\r\n', b'Content-Range: bytes 0-9223372036854775807/9223372036854775807\r\n',
             b'Content-Range: bytes 0-9223372036854775808/9223372036854775808\r\n', b'Content-Type: text/plain\r\nContent-Range: bytes 0-2/3\r\nContent-Length: 3\r\n', b'Content-Range: bytes 0-2/3\r\nContent-Type: multipart/byteranges; boundary=' + SEP + b'\r\n',
             b'A: b\r\n' * 3, b'A: b\r\nA: b\r\n', b'A\r\n', b'A:b\r\n', b'A: \r\n', b'A: b: c\r\n', b' A: b\r\n', b'A : b\r\n', b'A: b\r\n c\r\n', b'A: b\n', b'A: b\r', b'A: b\r\r\n', b'A: \x00\r\n', b'\x00: b\r\n', b'A: \xff\r\n', b'\xff: b\r\n', 'é: é\r\n'.encode(),
             'A:  b \r\n'.encode(), b'A: ' + b'b' * 9000 + b'\r\n', b'Transfer-Encoding: chunked\r\n', b'Content-Encoding: gzip\r\n', b'Content-Type: multipart/form-data; boundary=x\r\n', b'Content-Type: multipart/byteranges\r\n',
             b'Content-Type: Multipart/Byteranges; boundary=' + SEP + b'\r\n', b'Content-Type:  multipart/byteranges; boundary=' + SEP + b'\r\n', b'Content-Type: multipart/byterangesx; boundary=' + SEP + b'\r\n']
    for h in heads:
        out += [H + h + b'\r\nabc', H + h + b'\r\n', H + h, H + h + b'\n' + b'abc']
    for le in (b'\n', b'\r', b'\n\r', b'\r\r\n'):
        out += [(b'HTTP/1.1 200 OK\r\nContent-Type: text/plain\r\nContent-Length: 3\r\n\r\n').replace(b'\r\n', le) + b'abc']
    for blank in (b'', b' \r\n', b'\t\r\n', b'\n', b'\r', b'\r\n\r\n', b'\x00\r\n', ' \r\n'.encode(), '　\r\n'.encode(), b'\x0b\r\n', b'\xff\r\n'):
        out += [H + b'A: b\r\n' + blank + b'abc', H + blank + b'abc', H + b'Content-Type: multipart/byteranges; boundary=' + SEP + b'\r\n' + blank + _br_part() + b'--' + SEP]
    for body in (b'', b'\x00', b'\x00' * 100, b'\xff\xfe', b'\r\n', b'\r\n\r\n', b'HTTP/1.1 200 OK\r\n\r\n', 'é'.encode(), b'a' * 70000):
        out += [H + b'\r\n' + body, H + b'Content-Type: text/plain\r\nContent-Length: 3\r\n\r\n' + body]
    out += [b'', b'\r\n', b'\n', b'\r\n\r\n', b' ', b'\x00', b'\xff', H[:-2], H[:-1], H, H + b'\r', H + b'\n', H * 2, b'\r\n' + H + b'\r\n', b' ' + H + b'\r\n', H + b'\x00' * 50, (H + b'\r\n')[:0], b'GET / HTTP/1.1\r\n\r\n']
    return out

def _multipart_responses():
    """responses whose Content-Type announces multipart/byteranges, the boundary parameter spelled in every way, the body with that or another separator"""
    H = b'HTTP/1.1 206 Partial Content\r\n'
    out = []
    for bnd, spelled in [(SEP, SEP), (SEP, b'"' + SEP + b'"'), (SEP, b'"' + SEP), (SEP, SEP + b'"'), (b'', b''), (b'', b'""'), (b'"', b'"'), (b'x', b'x'), (b'x y', b'"x y"'), ('é'.encode(), 'é'.encode()), (b'-', b'-'), (b'--', b'--'),
                         (b'Content-Type', b'Content-Type'), (b'Content-Range', b'Content-Range'), (b'bytes', b'bytes'), (b'a', b'a; charset=x'), (b'a', b'a;'), (SEP, SEP + b'; boundary=other'), (b':', b':'), (b' ', b' '), (b'ab', b'ab'), (b'0', b'0'), (b'/', b'/')]:
        ct = b'Content-Type: multipart/byteranges; boundary=' + spelled + b'\r\n'
        for body in (_br_part(sep=bnd) + b'--' + bnd, _br_part(sep=bnd) * 2 + b'--' + bnd + b'--\r\n', _br_part(sep=bnd, body=b''), _br_part(sep=SEP) + b'--' + SEP, b'', b'\r\n', b'--' + bnd, b'--' + bnd + b'\r\n'):
            out.append(H + ct + b'\r\n' + body)
    for ct in (b'Content-Type: multipart/byteranges\r\n', b'Content-Type: multipart/byteranges;\r\n', b'Content-Type: multipart/byteranges; boundary\r\n', b'Content-Type: multipart/byteranges; Boundary=' + SEP + b'\r\n',
               b'Content-Type: multipart/byteranges;boundary=' + SEP + b'\r\n', b'Content-Type: multipart/byteranges; boundary =' + SEP + b'\r\n', b'Content-Type: multipart/byteranges; x=boundary=' + SEP + b'\r\n',
               b'Content-Type: multipart/byteranges; boundary=boundary=' + SEP + b'\r\n', b'content-type: multipart/byteranges; boundary=' + SEP + b'\r\n'):
        out.append(H + ct + b'\r\n' + _br_part() + b'--' + SEP)
    sub = _byteranges()
    return out, [H + b'Content-Type: multipart/byteranges; boundary=' + SEP + b'\r\n\r\n' + b for b in sub]

def _requests():
    t = tables()
    out = []
    for m in t['methods'] + [x.lower() for x in t['methods']]:
        for v in t['versions']:
            out.append(f'{m} /p?a=b {v}\r\nHost: x\r\n\r\n'.encode())
    for tg in _request_targets()[:60]:
        out.append(b'GET ' + tg + b' HTTP/1.1\r\nHost: x\r\n\r\n')
    H = b'POST /p HTTP/1.1\r\n'
    heads = [b'', b'Host: x\r\n', b'Host\r\n', b'Host:\r\n', b'Host:x\r\n', b'Host: \r\n', b': x\r\n', b':\r\n', b' : \r\n', b' Host: x\r\n', b'Host : x\r\n', b'Host: x\r\n y\r\n', b'Host: x\r\n\ty\r\n', b'Host: a: b: c\r\n', b'Host: x\n', b'Host: x\r', b'Host: x\r\r\n',
             b'Host: x\r\nHost: y\r\n', b'Content-Length: 3\r\n', b'Content-Length: 3\r\nContent-Length: 4\r\n', b'content-length: 3\r\n', b'Content-Length:3\r\n', b'Content-Length: x\r\n', b'Content-Length: \r\n', b'Content-Length\r\n', b'Content-Length: -1\r\n',
             b'Content-Length: +3\r\n', b'Content-Length: 3 \r\n', b'Content-Length:  3\r\n', b'Content-Length: 18446744073709551615\r\n', b'Content-Length: 18446744073709551616\r\n', b'Content-Length: 9223372036854775808\r\n', 'Content-Length: ٣\r\n'.encode(),
             b'Content-Length: 0\r\n', b'Content-Length: 100000\r\n', b'Host: \x00\r\n', b'\x00: x\r\n', b'\x00\r\n', b'Host: \xff\r\n', b'\xff: x\r\n', b'\xff\r\n', 'é: é\r\n'.encode(), 'Host:  x \r\n'.encode(), b'A: ' + b'b' * 9000 + b'\r\n', b'A: b\r\n' * 40,
             b'Transfer-Encoding: chunked\r\n', b'Content-Type: multipart/form-data; boundary=\r\n', b'Content-Type: multipart/form-data; boundary="\r\n', b'Range: bytes=0-\r\n', b'Range: bytes=-18446744073709551616\r\n', b'Origin: \r\n']
    for h in heads:
        out += [H + h + b'\r\nabc', H + h + b'\r\n', H + h, H + h + b'\n' + b'abc']
    for blank in (b' \r\n', b'\t\r\n', b'\n', b'\r', b'\r\n\r\n', b'\x00\r\n', ' \r\n'.encode(), '　\r\n'.encode(), b'\x0b\r\n', b'\xff\r\n'):
        out += [H + b'A: b\r\n' + blank + b'abc', H + blank + b'abc']
    # the server hands the parser its whole zero-padded buffer: every shape followed by NULs up to the default buffer size
    for d in (b'GET / HTTP/1.1\r\nHost: x\r\n\r\n', b'GET / HTTP/1.1\r\nHost: x\r\n', b'GET / HTTP/1.1\r\nHost: x', b'GET / HTTP/1.1\r\n', b'GET / HTTP/1.1', b'GET /', b'GET', b'', b'POST /p HTTP/1.1\r\nContent-Length: 3\r\n\r\nabc', b'\r\n', b'\xff'):
        for n in (1, 2, 100, 10000 - len(d)):
            out.append(d + b'\x00' * n)
    for le in (b'\n', b'\r', b'\n\r', b'\r\r\n'):
        out.append(b'POST /p HTTP/1.1\r\nHost: x\r\nContent-Length: 3\r\n\r\n'.replace(b'\r\n', le) + b'abc')
    out += [b'', b'\r\n', b'\n', b' ', b'\x00', b'\xff', b'\r\n\r\n', b'\r\nGET / HTTP/1.1\r\n\r\n', b' GET / HTTP/1.1\r\n\r\n', b'GET / HTTP/1.1\r\n\r\n' * 2, b'HTTP/1.1 200 OK\r\n\r\n', b'GET / HTTP/1.1\r\n\r\n' + b'\xff' * 100, b'GET / HTTP/1.1\r\n\r\n' + b'a' * 70000]
    return out

def _form_bodies(bnd=b'bnd-1'):
    d, cd = b'--' + bnd, b'Content-Disposition: form-data; name="a"'
    def part(hdr=cd, body=b'v', le=b'\r\n', blank=None, after=None):
        return d + le + hdr + le + (le if blank is None else blank) + body + (le if after is None else after)
    end = d + b'--\r\n'
    out = []
    for body in (b'', b'a', b'ab', b'abc', b'\n', b'\r', b'\r\n', b'\n\n', b'\r\n\r\n', b'\n\r', b'a\n', b'a\r', b'a\r\n', b'\na', b'\r\na', b'\x00', b'\xff', b'\xff\n', b'-', b'--', b'--bnd-', b'x' + bnd + b'y', b'x' + d + b'y', bnd, 'é'.encode(), b'\xc3'):
        for after in (b'\r\n', b'\n', b'\r', b''):
            out.append(part(body=body, after=after) + end)
        out += [part(body=body) + d + b'--', part(body=body) + d, part(body=body) + d + b'\r\n', part(body=body) * 2 + end, part(body=body), part(body=body) + end + b'\r\n', part(body=body) + end + b'\r\n\r\n', part(body=body) + end + b'epilogue']
    for le in (b'\n', b'\r', b'\n\r', b'\r\r\n'):
        out += [part(le=le) + d + b'--' + le, part(le=le) + d + b'--', part(le=le) * 2 + d + b'--' + le]
    for hdr in (b'', b'X', b':', b': ', b'X:', b':y', b'X: y: z', b' X: y', b'X : y', b'X: y\r\nX: y', b'X: y\r\n z', b'X: \x00', b'\x00: y', b'\x00', b'\x7f', b'X: \xff', b'\xff', 'é: é'.encode(), ' X : y '.encode(), '　'.encode(),
                b'X: ' + bnd, bnd + b': y', b'X: --' + bnd + b'--', b'Content-Disposition: form-data; name="', b'Content-Disposition: form-data; name="a"; filename="', b'Content-Disposition', b'content-disposition: form-data; name="a"',
                cd + b'\r\nContent-Type: text/plain', cd + b'\r\nContent-Type: multipart/mixed; boundary=' + bnd, b'X: ' + b'y' * 9000):
        out += [part(hdr=hdr) + end, part() + part(hdr=hdr) + end, part(hdr=hdr)]
    for blank in (b'', b' \r\n', b'\t\r\n', b'x\r\n', b'\r\n\r\n', b'\n', b'\r', b'\x00\r\n', ' \r\n'.encode(), b'\xff\r\n'):
        out += [part(blank=blank) + end, part() + part(blank=blank) + end]
    for pre in (b'\r\n', b'\n', b' \r\n', b'preamble\r\n', b'--\r\n', b'--bnd-\r\n', b'x' + d + b'\r\n', d + b'\r\n', d + b'--\r\n', b'\x00\r\n', b'\xff\r\n', 'é\r\n'.encode(), bnd + b'\r\n'):
        out += [pre + part() + end, part() + pre + part() + end, part() + end + pre, pre]
    out += [b'', d, d + b'\r\n', d + b'--', end, end * 2, (d + b'\r\n') * 3, d + b'\r\n\r\n', d + b'\r\n\r\n' + end, d + b'\r\n\r\nx\r\n' + end, b'--', b'-', bnd, part()[:-2], part() + d[:-1], part() + d.upper(), part() * 3 + end,
            part(body=b'a' * 70000) + end, part(body=b'\xff' * 1000) + end, part(body=b'line\r\n' * 50) + end, part(body=b'\r\n' * 50) + end, part(body=b'\x00' * 5000) + end, part() + end + b'\x00' * 2000]
    return out

def docs_for(name, fmt):
    """boundary documents of one entry point (by its name in props/c20.py) - [(kind, bytes)]"""
    k = 'boundary document of the format'
    if name.startswith('JSONArrayOf') or name.startswith('RawUnprocessedJSONArray'): docs = _json_arrays()
    elif name == 'JSON::parse_as_properties': docs = _json_objects()
    elif name == 'JSONProperty::parse': docs = _json_props()
    elif name == 'Base64::decode': docs = _base64()
    elif name == 'ContentDisposition::parse': docs = _content_disposition()
    elif fmt == 'header': docs = _headers()
    elif fmt == 'content-range': docs = _content_ranges()
    elif name == 'Range::parse_range_in_content_range': docs = _ranges()
    elif name == 'Range::parse_content_range': docs = _range_headers()
    elif name in ('UrlPath::extract_parts_from_pattern', 'UrlPath::is_matching(pattern)', 'UrlPath::extract(pattern)', 'UrlPath::build'): docs = _url_patterns()
    elif name in ('UrlPath::is_matching(path)', 'UrlPath::extract(path)'): docs = _url_paths()
    elif name == 'read_config_file': docs = _configs()
    elif fmt == 'query' or name == 'URL::percent_decode': docs = _queries()
    elif name == 'URL::parse': docs = _urls()
    elif name in ('Request::get_uri_query', 'Request::get_uri_path'): docs = _request_targets()
    elif name == 'Request::parse_method_and_request_uri_and_http_version_string': docs = _request_lines()
    elif name == 'Response::_parse_http_version_status_code_reason_phrase_string': docs = _status_lines()
    elif name == 'FormMultipartData::extract_boundary': docs = _content_types()
    elif name == 'Request::parse': docs = _requests()
    elif name in ('Response::parse', 'Response::_parse_response'):
        a, b = _multipart_responses()
        docs = _responses() + a + b
    elif fmt == 'byteranges': docs = _byteranges()
    elif name == 'FormMultipartData::parse': docs = _form_bodies()
    elif name == 'FormMultipartData::parse(boundary)':
        docs = [s.encode() for s in ['', '-', '--', '---', 'b', 'bnd-', 'bnd-1', 'bnd-1-', '-bnd-1', '--bnd-1', '--bnd-1--', '--bnd-1\r\n', 'bnd-1\r\n', '\r\n', '\n', ' ', 'BND-1', 'Content-Disposition', 'form-data', 'name', 'value', 'line1', ':', '"',
                                     'é', '\U0001F600', '\x00', 'bnd-1\x00', 'x' * 300, '--bnd-1\r\nContent-Disposition: form-data; name="a"\r\n\r\nvalue\r\n', 'bnd-1' * 50]]
    elif fmt == 'utf-8':
        docs = [b'', b'\x80', b'\xc3', b'\xc3\xa9', b'\xe2\x82', b'\xf0\x9f\x98', b'\xf0\x9f\x98\x80', b'\xed\xa0\x80', b'\xc0\x80', b'\xf4\x90\x80\x80', b'\xf8\x88\x80\x80\x80', b'\xff' * 100, b'a\xffb', b'\xef\xbb\xbf', b'\x00', b'a' * 70000 + b'\xff']
    else: docs = []
    return [(k, d) for d in docs]

# ------------------------------------------------------------------ ops with more than one input: relations between the inputs
U64 = 2 ** 64 - 1
def raw_lines(rng, quick):
    """[(entry point, kind, protocol line, compare the full result line?)]"""
    out = []
    # 1. file length x range: every length at a machine limit with bounds at and around it
    lens = [0, 1, 10, 2 ** 31, 2 ** 32, 2 ** 63 - 1, 2 ** 63, U64] if quick else [0, 1, 2, 10, 255, 256, 65535, 65536, 2 ** 31 - 1, 2 ** 31, 2 ** 32 - 1, 2 ** 32, 2 ** 63 - 1, 2 ** 63, U64 - 1, U64]
    for L in lens:
        toks = sorted({str(v) for v in (0, 1, L - 1, L, L + 1, L // 2, U64, U64 + 1, 2 ** 63, 2 ** 63 - 1) if v >= 0}) + ['', ' ', '+0', '-0', 'x', '00', '١']
        for a in toks:
            for b in toks:
                out.append(('Range::parse_range_in_content_range', 'file length x bounds at the limits', f'rangeparse {L} {hx(a + "-" + b)}', False))
            out.append(('Range::parse_range_in_content_range', 'file length x bounds at the limits', f'rangeparse {L} {hx(a)}', False))
        for d in _ranges()[:40 if quick else None]:
            out.append(('Range::parse_range_in_content_range', 'file length x boundary document', f'rangeparse {L} {hx(d)}', False))
    ten = hx(b'0123456789')
    for L in (0, 1, 9, 10):
        for h in _range_headers()[:-2]:
            out.append(('Range::parse_content_range', 'declared length x header', f'rangehdr {ten} {L} {hx(h)}', False))
    for data in (b'', b'a', b'\xff' * 3):
        for h in (b'bytes=0-', b'bytes=0-0', b'bytes=-1', b'bytes=-0', b'bytes=0-0,-1', b'bytes=1-', b'bytes='):
            out.append(('Range::parse_content_range', 'file of 0 / 1 / 3 bytes x header', f'rangehdr {hx(data)} {len(data)} {hx(h)}', False))
    # 2. multipart/byteranges body x boundary argument
    bnds = [b'', b'-', b'--', b'x', SEP, b'--' + SEP, SEP + b'--', SEP[:-1], SEP + b'x', SEP.lower(), b'Content-Type', b'Content-Range', b'Content-Type: text/plain', b'bytes', b'text/plain', b':', b' ', b'\r', b'\n', b'\r\n', b'ab', b'a', b'0', b'/',
            'é'.encode(), '\U0001F600'.encode(), b'\x00', b'x' * 300]
    for bnd in bnds:
        bodies = [_br_part(sep=bnd) + b'--' + bnd, _br_part(sep=bnd) * 2 + b'--' + bnd + b'--\r\n', _br_part(sep=bnd, body=b''), _br_part(sep=bnd, body=b'\n') + b'--' + bnd, _br_part() + b'--' + SEP, _br_part(le=b'\n', sep=bnd) + b'--' + bnd,
                  b'', b'\r\n', b'--' + bnd, bnd, bnd + b'\r\n', b'--' + bnd + b'\r\n' * 3, b'\r\n' + _br_part(sep=bnd) + b'--' + bnd, _br_part(sep=bnd, ct=None) + b'--' + bnd, _br_part(sep=bnd, cr=None) + b'--' + bnd, _br_part(sep=bnd, body=b'\xff') + b'--' + bnd]
        for body in bodies:
            out.append(('Range::parse_multipart_body_with_boundary', 'body x boundary argument', f'respmp {hx(body)} {hx(bnd)}', False))
    # 3. multipart/form-data body x boundary argument
    for bnd in [b'', b'-', b'--', b'x', b'bnd-1', b'--bnd-1', b'bnd-1--', b'bnd-', b'bnd-1x', b'BND-1', b'Content-Disposition', b'form-data', b'name', b':', b' ', b'"', b'\r', b'\n', b'\r\n', b'v', b'a', 'é'.encode(), '\U0001F600'.encode(), b'\x00', b'x' * 300]:
        d = b'--' + bnd
        p = d + b'\r\nContent-Disposition: form-data; name="a"\r\n\r\nv\r\n'
        for body in (p + d + b'--\r\n', p * 2 + d + b'--', p, bnd + p[len(d):] + bnd, b'', b'\r\n', bnd, d, d + b'\r\n', d + b'--\r\n', d + b'\r\n\r\n' + d + b'--', d + b'\r\nX: y\r\n\r\n' + d + b'--\r\n', d + b'\r\nX: y\r\n\r\n\n' + d + b'--\r\n',
                     p.replace(b'\r\n', b'\n') + d + b'--\n', b'\r\n' + p + d + b'--\r\n', d + b'\r\n' + bnd + b': y\r\n\r\nv\r\n' + d + b'--', d + b'\r\nX: y\r\n\r\nx' + bnd + b'y\r\n' + d + b'--', b'\xff' + p + d, p[:-2] + b'\xff\r\n' + d + b'--'):
            out.append(('FormMultipartData::parse', 'body x boundary argument', f'mpparse {hx(body)} {hx(bnd)}', False))
    # 4. path x pattern: every boundary pattern against every boundary path (both readers), the parameter map of build x pattern
    pats, paths = _url_patterns(), _url_paths()
    if quick:
        pairs = sorted({(rng.below(len(paths)), rng.below(len(pats))) for _ in range(1500)})
    else:
        pairs = [(i, j) for i in range(len(paths)) for j in range(len(pats))]
    for i, j in pairs:
        out.append(('UrlPath::is_matching(path, pattern)', 'boundary path x boundary pattern', f'upmatch {hx(paths[i])} {hx(pats[j])}', True))
        out.append(('UrlPath::extract(path, pattern)', 'boundary path x boundary pattern', f'upextract {hx(paths[i])} {hx(pats[j])}', True))
    # a path BUILT from the pattern: static parts copied, token values chosen (empty, containing the next delimiter, multi-byte, the static text itself)
    vals = ['', '1', 'ab', '/', '-', 'a/b', 'é', 'aé', 'éa', '\U0001F600', 'x\U0001F600y', '[[a]]', ']]', 'aa']
    for pat in pats:
        s = pat.decode()
        pieces = re.split(r'(\[\[.*?\]\])', s)
        if len(pieces) < 2: continue
        for v in vals:
            path = ''.join(v if p.startswith('[[') and p.endswith(']]') else p for p in pieces)
            out.append(('UrlPath::is_matching(path, pattern)', 'path built from the pattern', f'upmatch {hx(path)} {hx(pat)}', True))
            out.append(('UrlPath::extract(path, pattern)', 'path built from the pattern', f'upextract {hx(path)} {hx(pat)}', True))
            for cut in (path[:-1], path[1:], path + 'x', 'x' + path):
                out.append(('UrlPath::is_matching(path, pattern)', 'path built from the pattern, one character off', f'upmatch {hx(cut)} {hx(pat)}', True))
                out.append(('UrlPath::extract(path, pattern)', 'path built from the pattern, one character off', f'upextract {hx(cut)} {hx(pat)}', True))
    maps = ['-', f'{hx("a")}:{hx("1")}', f'{hx("a")}:-', f'-:{hx("1")}', f'-:-', f'{hx("a")}:{hx("1")},{hx("b")}:{hx("2")}', f'{hx("a")}:{hx("1")},{hx("a")}:{hx("2")}', f'{hx("b")}:{hx("2")}', f'{hx("a")}:{hx("[[a]]")}', f'{hx("a")}:{hx("]]")}',
            f'{hx("é")}:{hx("é")}', f'{hx("a")}:{hx("é/😀")}', f'{hx("A")}:{hx("1")}', f'{hx(" a")}:{hx("1")}', f'{hx("a b")}:{hx("1")}', f'{hx("a")}:{hx(" ")}', f'{hx("a")}:{hx("x" * 300)}',
            ','.join(f'{hx(k)}:{hx(k)}' for k in ['a', 'b', 'c', 'd', 'y', 'é', '😀', 'a/b', 'a b'])]
    for m in maps:
        for pat in pats:
            out.append(('UrlPath::build', 'parameter map x pattern', f'upbuild {m} {hx(pat)}', True))
    return out
