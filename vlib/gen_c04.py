"""C04 generator extension (audit of the input classes a defect in the anchored code can hinge on).

Every group below is a deterministic function of the seeded PRNG passed in and returns a list of
servecheck.Case.  Groups are collected by `extra_batches` into batches of their own (own trees,
run in parallel with the batches of props/c04.py), `config_batches` returns batches that run under
another configuration (env).  See /tmp/a/C04/AUDIT.md for the class table."""
from vlib import common as C, serve as S, reqgen as G, servecheck as K

ENTRIES = ('proc', 'preq')
URLENC = '/form-url-encoded-enctype-post-method'
MULTIP = '/form-multipart-enctype-post-method'
CT_URL = ('Content-Type', 'application/x-www-form-urlencoded')
CT_MP = ('Content-Type', 'multipart/form-data; boundary=B')
MP_ONE = b'--B\r\nContent-Disposition: form-data; name="a"\r\n\r\nv\r\n--B--\r\n'

class Alt:
    """deterministic alternation between the two entry points: item k of a list gets entry (k + phase) % 2, the phase moves with
    the tree index, so that over the trees of one run every item of every fixed list is sent through BOTH entry points"""
    def __init__(self, phase=0): self.k = phase
    def __call__(self):
        self.k += 1
        return ENTRIES[self.k % 2]

def b(x):
    return x if isinstance(x, bytes) else x.encode('utf-8', 'surrogateescape')

def regular_files(tree):
    """(target, content) of the regular files under the root that a plain GET reaches by their own name"""
    out = []
    for rel, content in sorted(tree.under_root().items()):
        if any(ch in rel for ch in b' ?#%\\'): continue
        out.append(('/' + rel.decode('utf-8', 'surrogateescape'), content))
    return out

def prepare_tree(rng, small=True):
    """a generated tree plus the fixed shapes the groups below rely on: files of 0, 1, 2, 10 and 300 bytes, a directory with an
    index page, an extension-less page (page -> page.html), a link to a file, a directory without index"""
    t = S.gen_tree(rng, small=small)
    root = t.cwd + b'/'
    t.file(root + b'c04/empty.bin', b'').file(root + b'c04/one.bin', b'1').file(root + b'c04/two.txt', b'12')
    t.file(root + b'c04/ten.txt', b'0123456789').file(root + b'c04/r300.bin', bytes((i * 7 + 3) & 0xff for i in range(300)))
    t.file(root + b'c04/dir/index.html', b'<p>c04 index</p>').file(root + b'c04/pg.html', b'<p>c04 page</p>')
    t.file(root + b'c04/\xc3\xa9t\xc3\xa9.txt', 'été'.encode())
    t.link(root + b'c04/ln.txt', b'ten.txt')
    t.dir(root + b'c04/nodir')
    return t

# ------------------------------------------------------------------ A: request line grammar
def request_line(rng, tree, alt, tier):
    cases = []
    files = regular_files(tree)
    f0 = rng.choice(files)[0]
    targets = ['/', f0, '/missing', '/c04/dir', URLENC]
    # every method in every letter case the parser accepts (the parser upper-cases for the test and keeps the spelling)
    for m in G.METHODS:
        for sp in (m.lower(), m.title(), m[0].lower() + m[1:], m[:-1] + m[-1].lower()):
            for t in (targets if tier != 'quick' else [targets[0], rng.choice(targets[1:])]):
                cases.append(K.mk(tree, sp, t, [('Host', 'h')], entry=alt(), kind='method-case'))
    # version token: every case, neighbours of the four known versions, blanks around it
    for v in ['http/1.1', 'Http/1.1', 'hTTP/1.0', 'http/0.9', 'http/2.0', 'HTTP/1.2', 'HTTP/3.0', 'HTTP/1', 'HTTP/', 'HTTP', 'HTTP/1.10', 'HTTP/01.1',
              'HTTP/1.1\t', 'HTTP/1.1\x0b', 'HTTP/1.1\x0c', 'HTTP/1.1 ', 'HTTP/1.1  ', 'HTTP/1.1 x', ' HTTP/1.1', '\tHTTP/1.1', '', 'HTTP/1.1\u00a0', 'HTTP/1.1\u3000',
              'HTTP/1.1\u0085', 'HTTP/1.1\u2028', 'HTTP/1.1\x00', 'HTTP/1.1\x1f', 'HTTP/1.1\x1c', 'ＨＴＴＰ/1.1', 'HTTP/1.1é', 'HTTP/１.１', 'H' * 300, 'HTTP/' + '1' * 5000]:
        for m in ('GET', 'HEAD', 'OPTIONS', 'POST'):
            cases.append(K.mk(tree, m, rng.choice(targets), [], version=v, entry=alt(), kind='version-spelling'))
    # separators, blanks and token counts of the request line x every line end
    lines = [b'GET  / HTTP/1.1', b'GET /  HTTP/1.1', b'GET\t/\tHTTP/1.1', b'GET\t/ HTTP/1.1', b'GET /\tHTTP/1.1', b' GET / HTTP/1.1', b'  GET / HTTP/1.1', b'\tGET / HTTP/1.1',
             b'\x0bGET / HTTP/1.1', b'\x0cGET / HTTP/1.1', b'\rGET / HTTP/1.1', b'\x00GET / HTTP/1.1', b'\x1cGET / HTTP/1.1', b'\x1fGET / HTTP/1.1',
             '\u00a0GET / HTTP/1.1'.encode(), '\u3000GET / HTTP/1.1'.encode(), '\u0085GET / HTTP/1.1'.encode(), '\u2028GET / HTTP/1.1'.encode(), '\u2003GET / HTTP/1.1'.encode(),
             '\ufeffGET / HTTP/1.1'.encode(), 'GET\u00a0/\u00a0HTTP/1.1'.encode(), 'GET /\u00a0 HTTP/1.1'.encode(), 'GET \u00a0 HTTP/1.1'.encode(), 'GET \u3000/ HTTP/1.1'.encode(),
             b'GET', b'GET ', b'GET  ', b'GET /', b'GET / ', b'GET /  ', b'GET / HTTP/1.1 extra', b'/ HTTP/1.1', b'HTTP/1.1', b'GET HTTP/1.1', b'GET  HTTP/1.1', b'GET   HTTP/1.1',
             b'GET / / HTTP/1.1', b'GET GET / HTTP/1.1', b'GET / HTTP/1.1 HTTP/1.1', b'', b' ', b'\t', '\u00a0'.encode(), b'GET /' + f0[1:].encode('utf-8', 'surrogateescape') + b' HTTP/1.1 ',
             b'GET ' + b(f0) + b' HTTP/1.1', b' HEAD ' + b(f0) + b' HTTP/1.1', b'\tOPTIONS ' + b(f0) + b' HTTP/1.1 ', '\u00a0HEAD '.encode() + b(f0) + b' HTTP/1.1',
             '\u2028OPTIONS '.encode() + b(f0) + ' HTTP/1.1\u2029'.encode(), b'HEAD ' + b(f0) + b'  HTTP/1.1', b'OPTIONS  ' + b(f0) + b' HTTP/1.1']
    for ln in lines:
        for eol in (b'\r\n', b'\n', b'\r', b'', b'\r\r\n', b'\n\r'):
            cases.append(K.mk(tree, '?', '?', raw=ln + eol + b'Host: h' + eol + eol, entry=alt(), kind='request-line-shape'))
    # blank lines / white space before the request line (RFC 9112 2.2 tells servers to skip at least one empty line)
    for pre in (b'\r\n', b'\n', b'\r\n\r\n', b'\n\n', b'\r', b' \r\n', b'\t\n', b'\x00\r\n', '\u00a0\r\n'.encode(), b'\r\n ', b'\n\t'):
        for m in ('GET', 'HEAD', 'POST'):
            cases.append(K.mk(tree, '?', '?', raw=pre + G.req(m, f0, 'HTTP/1.1', [('Host', 'h')]), entry=alt(), kind='leading-blank-lines'))
    # the shortest inputs: every single byte class, the line ends alone, cuts of the shortest valid request at every length
    tiny = [bytes([x]) for x in (0, 9, 10, 13, 32, 47, 71, 127, 128, 0xc3, 0xff)] + [b'\r\n', b'\n\n', b'\n\r', b'\r\r', b'\r\n\r\n', b'\n\r\n', b'\x00\x00', b'\xff\n', b'\xc3\xa9', b'\xc3\n']
    short = b'GET / HTTP/1.1\r\n\r\n'
    for raw in tiny + [short[:i] for i in range(1, len(short) + 1)] + [b'HEAD / HTTP/1.1\r\n\r\n'[:i] for i in (13, 14, 15, 16, 17, 18, 19)]:
        for e in ENTRIES:
            cases.append(K.mk(tree, '?', '?', raw=raw, entry=e, kind='tiny-input'))
    return cases

# ------------------------------------------------------------------ B: header line shapes
HEADER_LINES = [b'a', b'a:', b':', b': ', b': v', b':v', b'a:b', b'a : b', b' a: b', b'\ta: b', b'  a: b', b'a:\tb', b'a: b: c', b'a: : b', b'a:: b', b'a: ', b'a:  b  ',
                b' ', b'\t', b' \t ', b'\x0b', b'\x0c', b'\x00', b'\x00: \x00', b'\x1c', b'\x1f', b'\x7f', '\u00a0'.encode(), '\u2028'.encode(), '\u3000'.encode(), '\u0085'.encode(), '\ufeff'.encode(),
                '\u00a0a: b'.encode(), 'a\u00a0: b'.encode(), 'a:\u00a0b'.encode(), ' \u00a0'.encode(), b' folded', b'\tfolded: x', b' Content-Length: 5', b'\tContent-Type: application/x-www-form-urlencoded',
                b'a: \xff', b'\xff: a', b'\xff', b'a: \xc3', b'\xc3', b'a: \xe2\x82', b'a: \xed\xa0\x80', b'a: \xc0\xaf', b'a: \xf8\x88\x80\x80\x80', b'a: \xf4\x90\x80\x80', b'a\xc3: b', b'a: b\x80',
                'é: é'.encode(), 'İ: İ'.encode(), '😀: 😀'.encode(), 'Content-Type\u212a: x'.encode(), 'Content-Length: ١٢'.encode(), 'Content-Length: ５'.encode(),
                b'content-length: 3', b'CONTENT-LENGTH: 3', b'Content-Length:3', b'Content-Length : 3', b'Content-Length: 3 ', b'Content-Length: +3', b'Content-Length: 3, 3', b'Content-Length: 0x3',
                b'Content-Length', b'Content-Type', b'Range', b'Origin', b'Host', b'Range:', b'Origin:', b'Host:', b'Range: ', b'Origin: ', b'Content-Type: ',
                b'n' * 255 + b': v', b'n' * 5000 + b': v', b'a: ' + b'v' * 5000, b'a: ' + b'v' * 9700, b'n' * 9700, b'a:' + b' ' * 3000 + b'b', b': ' * 2000, b'a: b\r', b'a: b\r\r', b'\ra: b', b'a\r: b']

def header_shapes(rng, tree, alt, tier):
    cases = []
    f0 = rng.choice(regular_files(tree))[0]
    routes = [('GET', f0, [('Range', 'bytes=0-0')], b''), ('POST', URLENC, [CT_URL], b'a=1&b=2'), ('OPTIONS', f0, [('Origin', 'http://o'), ('Access-Control-Request-Method', 'PUT')], b''),
              ('POST', MULTIP, [CT_MP], MP_ONE)]
    for ln in HEADER_LINES:
        for pos in (0, 1, 2):          # first line after the request line, between two headers, last line before the blank line
            for eol in ((b'\r\n', b'\n') if (tier != 'quick' or pos == 0) else (rng.choice([b'\r\n', b'\n']),)):
                m, t, hs, body = routes[(pos + len(cases)) % len(routes)] if tier == 'quick' else rng.choice(routes)
                own = [b(n) + b': ' + b(v) for n, v in hs + [('Host', 'h')]]
                own.insert(min(pos, len(own)) if pos < 2 else len(own), ln)
                raw = b(m) + b' ' + b(t) + b' HTTP/1.1' + eol + eol.join(own) + eol + eol + body
                cases.append(K.mk(tree, m, t, raw=raw, entry=alt(), kind='header-line-shape'))
    # the header block ended by every kind of "blank" line, with a body after it that looks like more headers
    for blank in (b'', b' ', b'\t', b'\r', b'\x0b', '\u00a0'.encode(), '\u2028'.encode(), b'\x00', b'\xff'):
        for eol in (b'\r\n', b'\n'):
            raw = b'POST ' + b(URLENC) + b' HTTP/1.1' + eol + b'Host: h' + eol + blank + eol + b'Content-Type: application/x-www-form-urlencoded' + eol + eol + b'a=1'
            cases.append(K.mk(tree, 'POST', URLENC, raw=raw, entry=alt(), kind='header-block-end'))
    # header counts 0..3 and no final blank line (end of input inside the head)
    for n in (0, 1, 2, 3):
        for tail in (b'\r\n\r\n', b'\r\n', b'', b'\r', b'\n'):
            for m in ('GET', 'HEAD', 'OPTIONS'):
                raw = b(m) + b' ' + b(f0) + b' HTTP/1.1' + b''.join(b'\r\nH%d: v' % i for i in range(n)) + tail
                cases.append(K.mk(tree, m, f0, raw=raw, entry=alt(), kind='head-without-end'))
    return cases

# ------------------------------------------------------------------ C: one foreign byte sequence at every part of a request
INSERTS = [b'\xff', b'\x80', b'\xc3', b'\xe2\x82', b'\xf0\x9f\x98', b'\xed\xa0\x80', b'\xc0\x80', b'\xfe\xff', '\u00e9'.encode(), '\u20ac'.encode(), '\U0001F600'.encode(), '\u0130'.encode(),
           '\u212a'.encode(), '\u00a0'.encode(), '\u2028'.encode(), b'\x00', b'\x7f', b'\x1b', b'\x08', b'\x0b', b'\x0c', b'\r', b'\n', b'\r\n', b' ', b'\t', b'%', b'"', b"'", b'\\', b':', b';', b'=', b'&', b'#', b'?', b'-', b',', b'/']

def templates(tree, rng):
    f0 = rng.choice(regular_files(tree))[0]
    return [
        [('method', b'POST'), (None, b' '), ('path', b(URLENC)), (None, b' '), ('version', b'HTTP/1.1'), (None, b'\r\n'), ('hname', b'Content-Type'), (None, b': '),
         ('hvalue', b'application/x-www-form-urlencoded'), (None, b'\r\n'), ('hname2', b'Cookie'), (None, b': '), ('hvalue2', b'k=v'), (None, b'\r\n\r\n'), ('key', b'color'), (None, b'='), ('value', b'red'),
         (None, b'&'), ('key2', b'b'), (None, b'='), ('value2', b'2')],
        [('method', b'POST'), (None, b' '), ('path', b(MULTIP)), (None, b' '), ('version', b'HTTP/1.1'), (None, b'\r\n'), ('hname', b'Content-Type'), (None, b': '), ('mediatype', b'multipart/form-data'),
         (None, b'; '), ('pname', b'boundary'), (None, b'='), ('boundary', b'Bd'), (None, b'\r\n\r\n'), ('dash', b'--'), ('delim', b'Bd'), (None, b'\r\n'), ('phname', b'Content-Disposition'), (None, b': '),
         ('dtype', b'form-data'), (None, b'; '), ('dparam', b'name'), (None, b'="'), ('fname', b'fld'), (None, b'"\r\n\r\n'), ('pbody', b'val'), (None, b'\r\n'), ('closing', b'--Bd--'), (None, b'\r\n')],
        [('method', b'GET'), (None, b' '), ('path', b(f0)), (None, b'?'), ('qkey', b'k'), (None, b'='), ('qvalue', b'v'), (None, b'#'), ('fragment', b'fr'), (None, b' '), ('version', b'HTTP/1.1'), (None, b'\r\n'),
         ('hname', b'Range'), (None, b': '), ('unit', b'bytes'), (None, b'='), ('first', b'0'), (None, b'-'), ('last', b'1'), (None, b'\r\n'), ('hname2', b'Origin'), (None, b': '), ('hvalue2', b'http://o'), (None, b'\r\n\r\n')],
        [('method', b'POST'), (None, b' '), ('path', b'/file-upload/initiate'), (None, b'?'), ('qkey', b'name'), (None, b'='), ('qvalue', b'a.txt'), (None, b'&'), ('qkey2', b'lastModified'), (None, b'='), ('qvalue2', b'1'),
         (None, b'&'), ('qkey3', b'size'), (None, b'='), ('qvalue3', b'22'), (None, b' '), ('version', b'HTTP/1.1'), (None, b'\r\n'), ('hname', b'Host'), (None, b': '), ('hvalue', b'localhost:7878'), (None, b'\r\n\r\n')],
        [('method', b'GET'), (None, b' '), ('path', b'/form-get-method'), (None, b'?'), ('qkey', b'k'), (None, b'='), ('qvalue', b'v'), (None, b'&'), ('qkey2', b'k2'), (None, b'='), ('qvalue2', b'v2'), (None, b' '),
         ('version', b'HTTP/1.1'), (None, b'\r\n'), ('hname', b'Origin'), (None, b': '), ('hvalue', b'http://o'), (None, b'\r\n\r\n')],
    ]

def foreign_bytes(rng, tree, alt, tier):
    cases = []
    for tpl in templates(tree, rng):
        for i, (name, seg) in enumerate(tpl):
            if name is None: continue
            for ins in INSERTS:
                poss = (0, len(seg) // 2 if len(seg) > 1 else None, len(seg), 'all')
                if tier == 'quick': poss = (rng.choice([0, len(seg)]), rng.choice([len(seg) // 2, 'all']))
                for pos in poss:
                    if pos is None: continue
                    new = ins if pos == 'all' else seg[:pos] + ins + seg[pos:]
                    raw = b''.join(s for _, s in tpl[:i]) + new + b''.join(s for _, s in tpl[i + 1:])
                    cases.append(K.mk(tree, '?', '?', raw=raw, entry=alt(), kind='foreign-bytes:' + name))
    return cases

# ------------------------------------------------------------------ D: percent escapes at every decoder
ESCAPES = ['%', '%%', '%2', '%zz', '%g1', '%1g', '%00', '%0a', '%0A', '%0d%0a', '%09', '%20', '%25', '%2525', '%26', '%3d', '%3D', '%2f', '%2F', '%5c', '%5C', '%2e%2e', '%2E%2E', '%2e', '%23', '%3f',
           '%ff', '%FF', '%80', '%c3', '%C3', '%c3%a9', '%C3%A9', '%c3%28', '%e2%82', '%e2%82%ac', '%f0%9f%98%80', '%f0%9f', '%ed%a0%80', '%c0%af', '%f8%88%80%80%80', '%fe%ff', '+', '++', '%2b', '%u00e9',
           '%%%', '%25%', '%%25', '% ', '%-1', '%+1', '%e9', '%7f', '%1b', '%c3%', '%c3%a', 'é', '%c3é', '\u0130']

def percent_escapes(rng, tree, alt, tier):
    cases = []
    f0 = rng.choice(regular_files(tree))[0]
    for esc in ESCAPES:
        if ' ' in esc: continue
        spots = [('GET', '/form-get-method?%s=v' % esc, [], b''), ('GET', '/form-get-method?k=%s' % esc, [], b''), ('GET', '/form-get-method?%s' % esc, [], b''),
                 ('GET', '/form-get-method?a=1&%s=%s&b=2' % (esc, esc), [], b''), ('GET', '/form-get-method%s?a=1' % esc, [], b''), ('GET', '/form-get-method?a=1#%s' % esc, [], b''),
                 ('POST', '/file-upload/initiate?name=%s&lastModified=1&size=2' % esc, [], b''), ('POST', '/file-upload/initiate?name=a&lastModified=%s&size=%s' % (esc, esc), [], b''),
                 ('POST', '/file-upload/initiate?%s=a&name=b&lastModified=1&size=2' % esc, [], b''), ('POST', '/file-upload/initiate?na%sme=a&lastModified=1&size=2' % esc, [], b''),
                 ('POST', URLENC, [CT_URL], b('%s=v' % esc)), ('POST', URLENC, [CT_URL], b('k=%s' % esc)), ('POST', URLENC, [CT_URL], b(esc)), ('POST', URLENC, [CT_URL], b('a=1&%s=%s&b=2' % (esc, esc))),
                 ('GET', '/' + esc, [], b''), ('GET', f0 + esc, [], b''), ('GET', '/c04/' + esc + '/x', [], b''), ('HEAD', '/c04/dir' + esc, [], b''), ('OPTIONS', '/c04/pg' + esc, [], b''),
                 ('GET', f0.replace('/', '/' + esc, 1), [], b''), ('GET', f0[:2] + esc + f0[2:], [('Range', 'bytes=0-0')], b'')]
        if tier == 'quick':
            keep = [spots[i] for i in (0, 1, 6, 10, 11, 14)] + [rng.choice(spots) for _ in range(3)]
            spots = keep
        for m, t, hs, body in spots:
            cases.append(K.mk(tree, m, t, hs, body, entry=alt(), kind='percent-escape'))
    return cases

# ------------------------------------------------------------------ E: targets
def target_shapes(rng, tree, alt, tier):
    cases = []
    # every method x every target that is not in origin form, through both entry points
    for m in G.METHODS:
        for t in G.WEIRD_TARGETS:
            for e in ENTRIES:
                cases.append(K.mk(tree, m, t, [('Host', 'h')], entry=e, kind='method-x-target-form'))
    files = regular_files(tree)
    f0, f1 = rng.choice(files)[0], rng.choice(files)[0]
    shapes = ['/a#b?c', '/#?', '/?#', '?#', '#?', '/??', '/?a?b', '/a?b#c#d', '/##', '/?', '/#', '/?&', '/?=', '/?&&==&', '/?a', '/?a=', '/?=b', '/?a=b=c', '/?a&a&a', '/#' + 'f' * 3000, '/?' + 'q=1&' * 1500,
              f0 + '#frag', f0 + '?', f0 + '?#', f0 + '#?x', f0 + '??', f0 + '/', f0 + '//', f0 + '/.', f0 + '/..', f0 + '/x', f0 + '/index.html', f0 + '.html', f0 + '.', f0 + '..', f0 + '%00', f0 + '\x00', f0 + '\x00.html',
              '/' + f0, '//' + f0, '/.' + f0, '/./' + f0[1:], '/c04/../' + f0[1:], '/c04/./dir/./index.html', '/c04//dir///index.html', '/c04/dir', '/c04/dir/', '/c04/dir//', '/c04/dir/.', '/c04/dir/index.html',
              '/c04/dir/index.html/', '/c04/dir/index', '/c04/dir.html', '/c04/pg', '/c04/pg/', '/c04/pg.html', '/c04/pg.html.html', '/c04/pg.htm', '/c04/nodir', '/c04/nodir/', '/c04/nodir/index.html', '/c04/nodir.html',
              '/c04', '/c04/', '/c04/ln.txt', '/c04/ln.txt/', '/c04/ln', '/c04/empty.bin', '/c04/empty', '/c04/\u00e9t\u00e9.txt', '/c04/e\u0301te\u0301.txt', '/c04/%C3%A9t%C3%A9.txt', '/c04/\u00e9t\u00e9',
              '/index.html', '/index', '/index.html/', '/404.html', '/404', '/404/', '/style.css', '/style.css/', '/style.css?x', '/style', '/script.js#x', '/favicon.svg/', '/favicon.svg.html', '/rws.config.toml',
              '/.', '/./', '/..', '/../', '/...', '/....', '/.../x', '/.hidden', '/a/../..', '/c04/..', '/c04/../', '/c04/../..', '/c04/dir/../../..', '/\\', '/\\..\\', '/c04\\dir', '/c04\\..\\..', '/..\\', '/a\\..',
              '/\x00', '/a\x00b', '/\x7f', '/a\x1bb', '/\x01', '/\x0b', '/\x0c', '/"', "/'", '/&', '/|', '/;', '/<>', '/{}', '/$HOME', '/~', '/~root', '/*', '/?*', '/:', '/@', '/a:b@c', '/http://x', '/[', '/]',
              '/' + 'a' * 254, '/' + 'a' * 255, '/' + 'a' * 256, '/' + 'a' * 257, '/' + '\u00e9' * 127 + 'a', '/' + '\u00e9' * 128, '/' + 'a/' * 2046, '/' + 'a/' * 2047 + 'a', '/' + 'a/' * 2048, '/' + 'a' * 4094, '/' + 'a' * 4095,
              '/' + 'a' * 4096, '/' + 'a' * 8000, '/' + 'a' * 9970, '/' + 'a' * 9978, '/' + 'a' * 9979, '/' + 'a' * 9980, '/' + 'a' * 9981, '/' + 'a' * 9983, '/' + 'a' * 9984, '/' + 'a' * 9985, '/' + 'a' * 9995, '/' + 'a' * 12000,
              '/' + '/' * 3000, '/' + './' * 1500, '/' + '../' * 3000, '/c04/dir' + '/' * 3000, '/c04/dir/' + './' * 1500 + 'index.html', f1 + '?' + 'x' * 9000, f1 + '#' + 'x' * 9000]
    # names that resolve to something that exists, but only through a path longer than the kernel's PATH_MAX (4096): the kernel refuses them
    # (ENAMETOOLONG), the model has no such limit (reported in AUDIT.md) - judged by the oracle, not compared with the model
    beyond = ['/' + '/' * 5000, '/' + './' * 3000, '/c04/dir/' + './' * 2500 + 'index.html', '/c04/' + './' * 2500 + 'ten.txt', '/c04//' + '/' * 4500 + 'ten.txt']
    for t in shapes + beyond:
        for m in (('GET', 'HEAD', 'OPTIONS', 'POST', 'DELETE') if tier != 'quick' else ('GET', rng.choice(['HEAD', 'OPTIONS', 'POST', 'PUT', 'DELETE', 'TRACE', 'CONNECT', 'PATCH']))):
            cases.append(K.mk(tree, m, t, [] if rng.chance(2, 3) else [('Range', rng.choice(['bytes=0-0', 'bytes=0-', 'bytes=-1']))], entry=alt(), kind='target-shape',
                              note='kernel-limit-not-modelled' if t in beyond else None))
    # every name of the tree (files, directories, links, with the own index / 404 pages) with and without trailing slash, extension cut off, under every method
    names = sorted({'/' + n.decode('utf-8', 'surrogateescape') for n in tree.names} | {f for f, _ in files})
    for n in names:
        if any(ch in n for ch in ' ?#'): continue
        stem = n.rsplit('.', 1)[0] if '.' in n.rsplit('/', 1)[-1][1:] else n
        for t in {n, n + '/', stem, n.rsplit('/', 1)[0] or '/', n.rsplit('/', 1)[0] + '/'}:
            for m in (G.METHODS if tier != 'quick' else ('GET', rng.choice(G.METHODS[1:]))):
                cases.append(K.mk(tree, m, t, [], entry=alt(), kind='tree-name-x-method'))
    return cases

# ------------------------------------------------------------------ F: ranges relative to the size of the file they are asked of
def range_values(L, rng, tier):
    vals = set()
    starts = {0, 1, L - 2, L - 1, L, L + 1, 2 * L}
    for a in starts:
        if a < 0: continue
        for bnd in ('', 0, a - 1, a, a + 1, L - 2, L - 1, L, L + 1, 2 * L, 2**64 - 1, 2**64):
            if bnd != '' and bnd < 0: continue
            vals.add(f'bytes={a}-{bnd}')
    for n in (0, 1, 2, L - 1, L, L + 1, 2 * L, 2**63, 2**64 - 1, 2**64):
        if n >= 0: vals.add(f'bytes=-{n}')
    vals |= {'bytes=-', 'bytes=', 'bytes', '', ' ', 'bytes=0', f'bytes={L}', 'bytes=1-2-3', 'bytes=--1', 'bytes=-1-', 'bytes=-1-2', 'bytes=0--1', 'bytes= 0 - 1 ', 'bytes=0 -1', 'bytes=0- 1', ' bytes=0-1', 'bytes =0-1',
             'bytes= 0-1', 'bytes=0-1 ', 'bytes=0-0,1-1', 'bytes=0-0, 1-1', 'bytes=0-0 ,1-1', 'bytes=0-0,,1-1', 'bytes=,', 'bytes=,,', 'bytes=0-0,', 'bytes=,0-0', 'bytes=0-,0-', 'bytes=0-,-1', f'bytes=0-0,{L}-{L}',
             f'bytes={L}-{L},0-0', f'bytes=0-0,{L - 1}-{L}' if L else 'bytes=0-0,0-1', f'bytes=-{L},-{L + 1}', 'bytes=0-0,a-b', 'bytes=a-b,0-0', 'bytes=0-0;1-1', 'Bytes=0-0', 'BYTES=0-0', 'bytes=0-0=1-1', 'bytes==0-0',
             'bytes=0=0', 'bits=0-0', 'bytes0-0', 'bytes:0-0', 'bytes=0x0-0x1', 'bytes=+0-+1', 'bytes=00-01', 'bytes=0.0-1.0', 'bytes=1e0-', 'bytes=\u0660-\u0661', 'bytes=0\u20131', 'bytes=0-0\x00', 'bytes=\x000-0',
             'bytes=' + ','.join('0-0' for _ in range(3)), 'bytes=' + ','.join('%d-%d' % (i % max(L, 1), i % max(L, 1)) for i in range(50)), 'bytes=' + '0-0,' * 600 + '0-0', 'bytes=' + '-1,' * 1500 + '-1',
             'bytes=' + '0-,' * 30 + '0-', 'bytes=' + ',' * min(3000, 6000000 // max(L, 1)),   # every empty element is answered with the whole file: the answer stays below 6 MB (assembling 30 MB takes the code > 20 s: AUDIT2.md)
             'bytes=' + '-' * 3000, 'bytes=' + '9' * 3000 + '-', 'bytes=0-' + '9' * 3000, 'bytes=' + '0' * 3000 + '-' + '0' * 3000 + '1'}
    vals = sorted(vals)
    if tier == 'quick' and len(vals) > 120:
        must = [v for v in vals if len(v) < 24]
        rng.shuffle(must)
        vals = sorted(set(must[:95]) | {v for v in vals if len(v) >= 24})
    return vals

def ranges_by_size(rng, tree, alt, tier):
    cases = []
    own = [('/c04/empty.bin', 0), ('/c04/one.bin', 1), ('/c04/two.txt', 2), ('/c04/ten.txt', 10), ('/c04/r300.bin', 300), ('/c04/dir', 16), ('/c04/dir/', 16), ('/c04/pg', 15), ('/c04/ln.txt', 10),
           ('/c04/\u00e9t\u00e9.txt', 5)]
    f0, c0 = rng.choice(regular_files(tree))
    own.append((f0, len(c0)))
    for t, L in own:
        for v in range_values(L, rng, tier):
            m = 'GET' if rng.chance(3, 4) else rng.choice(['HEAD', 'OPTIONS'])
            hn = 'Range' if rng.chance(5, 6) else rng.choice(['range', 'RANGE', 'rAnGe'])
            cases.append(K.mk(tree, m, t, [(hn, v)], entry=alt(), kind='range-x-size'))
    # a Range header on every route that does not serve a file, and on routes that answer with an error
    for t in ('/', '/style.css', '/script.js', '/favicon.svg', '/form-get-method?a=1', '/missing', '/c04/nodir', '/c04/nodir/', '/c04', '/..', '/c04/ten.txt/x', '/file-upload/initiate?name=a&lastModified=1&size=2'):
        for v in ('bytes=0-0', 'bytes=0-', 'bytes=-1', 'bytes=5-1', 'bytes=99999-', 'bytes=a-b', '', 'bytes=0-0,1-1', 'bytes=-18446744073709551616'):
            for m in ('GET', 'HEAD', 'OPTIONS', 'POST'):
                cases.append(K.mk(tree, m, t, [('Range', v)], entry=alt(), kind='range-x-route'))
    for v in ('bytes=0-0', 'bytes=-1', 'bytes=a-b', 'bytes=0-0,1-1'):
        cases.append(K.mk(tree, 'POST', URLENC, [CT_URL, ('Range', v)], b'a=1', entry=alt(), kind='range-x-route'))
        cases.append(K.mk(tree, 'POST', MULTIP, [CT_MP, ('Range', v)], MP_ONE, entry=alt(), kind='range-x-route'))
    return cases

# ------------------------------------------------------------------ G: multipart/form-data grammar
DISPOSITIONS = ['form-data; name="a"', 'form-data; name=a', 'form-data;name="a"', 'form-data ; name="a"', 'form-data;  name="a"', 'form-data; name = "a"', 'form-data; name="a";', 'form-data; name="a"; ',
                'form-data; name="a"; filename="f.txt"', 'form-data; filename="f.txt"; name="a"', 'form-data; name="a"; filename="f"; x=y', 'form-data; name="a"; x=y', 'form-data; x=y; name="a"', 'form-data; x=y',
                'form-data; name="a"; name="b"', 'form-data; filename="f"', 'form-data; filename="f"; filename="g"', 'form-data; name', 'form-data; name; filename', 'form-data; name="a"; filename',
                'form-data; ', 'form-data;', 'form-data;;', 'form-data;;;;', 'form-data', 'form-data ', ' form-data; name="a"', 'attachment; filename="f"', 'attachment', 'attachment; name="a"', 'inline', 'inline; name="a"',
                'inline; filename="f"', 'Form-Data; name="a"', 'FORM-DATA; name="a"', 'form-data; NAME="a"', 'form-data; Name="a"', 'form-data; name=""', 'form-data; name="', 'form-data; name=', 'form-data; name="a;b"',
                'form-data; name="a=b"', 'form-data; name="a\\"b"', 'form-data; name="\u00e9"', 'form-data; name="\u0130"', 'form-data; name=a=b=c', 'form-data; =a', 'form-data; =', 'form-data; name="a" ; filename="f"',
                'form-data; name*=utf-8\'\'a', 'form-data; name="a"; filename*=utf-8\'\'f', '', ' ', ';', ';;', '=', 'x', 'x; name="a"', 'form-data; ' + 'name="a"; ' * 200, 'form-data; name="' + 'n' * 3000 + '"',
                'form-data' + ';' * 3000, 'form-data; name="a\x00b"', 'form-data; name="a\x07"', 'form-data; na\x07me="a"', 'form\x07-data; name="a"']
PART_BODIES = [b'', b'v', b'vv', b'vvv', b'\n', b'\r\n', b'\r', b'\n\n', b'\r\n\r\n', b'a\nb', b'a\r\nb', b'a\r', b'a\n', b'\rb', b'\nb', b'\xff', b'\xff\xfe\xfd', '\u00e9'.encode(), b'\xc3', b'-', b'--', b'--B', b'--B--', b'B',
               b'x--B', b'--Bx', b'-B', b'--b', b'\x00', b'\x00' * 50, b'v\x00', b'v' * 3000, b'\r\n--', b'\r\n-', b'--\r\n', b' ', b'Content-Disposition: form-data; name="z"']

def mp_request(boundary_param, body, hname='Content-Type', extra=()):
    return G.req('POST', MULTIP, 'HTTP/1.1', [(hname, 'multipart/form-data; boundary=' + boundary_param)] + list(extra), body)

def multipart_grammar(rng, tree, alt, tier):
    cases = []
    def part(cd, body, eol=b'\r\n', hname=b'Content-Disposition', more=()):
        return b'--B' + eol + hname + b': ' + b(cd) + eol + b''.join(b(x) + eol for x in more) + eol + body + eol
    # every disposition x a short body; every body x the ordinary disposition; both x CRLF / LF
    for cd in DISPOSITIONS:
        for eol in ((b'\r\n', b'\n') if tier != 'quick' else (b'\r\n',)):
            cases.append(K.mk(tree, 'POST', MULTIP, raw=mp_request('B', part(cd, b'v', eol) + b'--B--' + eol), entry=alt(), kind='multipart-disposition'))
        cases.append(K.mk(tree, 'POST', MULTIP, raw=mp_request('B', part('form-data; name="first"', b'1') + part(cd, b'v') + b'--B--\r\n'), entry=alt(), kind='multipart-disposition'))
    for pb in PART_BODIES:
        for eol in (b'\r\n', b'\n'):
            cases.append(K.mk(tree, 'POST', MULTIP, raw=mp_request('B', part('form-data; name="a"', pb, eol) + b'--B--' + eol), entry=alt(), kind='multipart-part-body'))
        cases.append(K.mk(tree, 'POST', MULTIP, raw=mp_request('B', part('form-data; name="a"', pb) + part('form-data; name="b"', pb) + b'--B--\r\n'), entry=alt(), kind='multipart-part-body'))
        cases.append(K.mk(tree, 'POST', MULTIP, raw=mp_request('B', b'--B\r\nContent-Disposition: form-data; name="a"\r\n\r\n' + pb + b'--B--\r\n'), entry=alt(), kind='multipart-part-body'))   # no line end before the delimiter
    # part header lines
    for hl in ('Content-Type: text/plain', 'content-disposition: form-data; name="b"', 'CONTENT-DISPOSITION: form-data; name="b"', 'Content-Disposition:form-data; name="b"', 'Content-Disposition : form-data; name="b"',
               'X', 'nocolon', 'a:b', ': v', ':', ' ', '\t', ' folded', 'Content-Type: ' + 'x' * 3000, 'a: \xff'.encode('latin1'), b'\xff: a', '\u00e9: \u00e9', 'a: b: c', 'Content-Disposition', 'Content-Disposition:',
               'Content-Disposition: ', 'Content-Transfer-Encoding: base64', 'Content-Length: 1', 'Content-Length: 99999999999999999999', 'B: v', 'x: B', 'x: --B', 'x: --B--', '\x00', '\x07: \x07'):
        for where in ('before', 'after', 'only'):
            hs = {'before': [hl, 'Content-Disposition: form-data; name="a"'], 'after': ['Content-Disposition: form-data; name="a"', hl], 'only': [hl]}[where]
            body = b'--B\r\n' + b''.join(b(x) + b'\r\n' for x in hs) + b'\r\nv\r\n--B--\r\n'
            cases.append(K.mk(tree, 'POST', MULTIP, raw=mp_request('B', body), entry=alt(), kind='multipart-part-header'))
    # delimiters: opening, separating and closing lines in every spelling; preamble and epilogue; missing pieces
    one = b'Content-Disposition: form-data; name="a"\r\n\r\nv\r\n'
    for opening in (b'--B\r\n', b'--B\n', b'--B', b'B\r\n', b'-B\r\n', b'---B\r\n', b'--B \r\n', b' --B\r\n', b'--B--\r\n', b'x--B\r\n', b'--Bx\r\n', b'--b\r\n', b'\r\n--B\r\n', b'\n--B\r\n', b'preamble\r\n--B\r\n', b'\x00--B\r\n',
                    b'--B\x00\r\n', b'\xff--B\r\n', b'--B\r', b'--B\r\r\n', b''):
        for closing in (b'--B--\r\n', b'--B--', b'--B\r\n', b'--B', b'', b'--B--\r\nepilogue\r\n', b'--B--\r\n--B--\r\n', b'--B--x\r\n', b'--B-\r\n', b'-B--\r\n', b'--b--\r\n', b'--B--\n', b'--B--\r', b'--B --\r\n', b'\r\n--B--\r\n'):
            if tier == 'quick' and opening != b'--B\r\n' and closing != b'--B--\r\n' and not rng.chance(1, 6): continue
            cases.append(K.mk(tree, 'POST', MULTIP, raw=mp_request('B', opening + one + closing), entry=alt(), kind='multipart-delimiter'))
    # the boundary parameter: lengths, characters, quoting, its relation to the lines of the body
    for bp, used in [('B', 'B'), ('B', 'b'), ('b', 'B'), ('"B"', 'B'), ('"B', 'B'), ('B"', 'B'), ('"B"', '"B"'), ('""', ''), ('"', ''), ('', ''), (' B', 'B'), ('B ', 'B'), ('B;x=y', 'B'), ('B; charset=utf-8', 'B'), ('a b', 'a b'),
                     ('"a b"', 'a b'), ('-', '-'), ('--', '--'), ('---', '---'), ('\u00e9', '\u00e9'), ('\u0130', '\u0130'), ('\u0130', 'i\u0307'), ('B\x07', 'B'), ('\x07B', 'B'), ('=', '='), ('B=C', 'B=C'), ('boundary=B', 'B'), ('boundary=B', 'boundary=B'),
                     ('X' * 69, 'X' * 69), ('X' * 70, 'X' * 70), ('X' * 71, 'X' * 71), ('X' * 200, 'X' * 200), ('X' * 3000, 'X' * 3000), ('X' * 9000, 'X' * 9000), ('XY', 'X'), ('X', 'XY'), ('\r', ''), ('v', 'v'), (':', ':'), ('Content-Disposition', 'Content-Disposition'),
                     ('form-data', 'form-data'), ('name', 'name'), ('\x00', '\x00'), ('B\x00', 'B\x00'), ('%42', 'B'), ('.*', '.*'), ('[', '['), ('\\', '\\')]:
        u = b(used)
        body = b'--' + u + b'\r\nContent-Disposition: form-data; name="a"\r\n\r\nv\r\n--' + u + b'--\r\n'
        cases.append(K.mk(tree, 'POST', MULTIP, raw=mp_request(bp, body), entry=alt(), kind='multipart-boundary'))
        cases.append(K.mk(tree, 'POST', MULTIP, raw=mp_request(bp, body, hname=rng.choice(['content-type', 'CONTENT-TYPE', 'Content-type'])), entry=alt(), kind='multipart-boundary'))
    # grammar-derived random bodies: 0..6 parts, every element drawn from the lists above
    for _ in range(150 if tier == 'quick' else 3000):
        eol = rng.choice([b'\r\n', b'\r\n', b'\n'])
        body = rng.choice([b'', b'', b'preamble' + eol, eol])
        for _k in range(rng.choice([0, 1, 1, 2, 2, 3, 6])):
            more = [rng.choice(['Content-Type: text/plain', 'X', 'a:b', 'Content-Disposition: form-data; name="again"'])] if rng.chance(1, 4) else []
            p = part(rng.choice(DISPOSITIONS[:12]) if rng.chance(2, 3) else rng.choice(DISPOSITIONS), rng.choice(PART_BODIES), eol, rng.choice([b'Content-Disposition', b'Content-Disposition', b'content-disposition']), more)
            if rng.chance(1, 10): p = p[:-len(eol)]                       # no line end before the next delimiter
            body += p
        body += rng.choice([b'--B--' + eol, b'--B--' + eol, b'--B--', b'', b'--B' + eol, b'--B--' + eol + b'epilogue'])
        cases.append(K.mk(tree, 'POST', MULTIP, raw=mp_request('B', body), entry=alt(), kind='multipart-random'))
    # the end of the request buffer at every position of the tail of a form (after a long first part), and exact fits
    head = mp_request('B', b'')
    tail = b'\r\n--B\r\nContent-Disposition: form-data; name="b"\r\n\r\nw\r\n--B--\r\n'
    first = b'--B\r\nContent-Disposition: form-data; name="a"\r\n\r\n'
    for over in (list(range(-3, len(tail) + 3)) if tier != 'quick' else list(range(-3, len(tail) + 3, 2)) + [0, 1, 2, len(tail) - 1, len(tail), len(tail) + 1]):
        fill = 10000 + over - len(head) - len(first) - len(tail)
        raw = head + first + b'x' * fill + tail
        cases.append(K.mk(tree, 'POST', MULTIP, raw=raw, entry=alt(), kind='multipart-buffer-end'))
    return cases

# ------------------------------------------------------------------ H: url-encoded bodies and queries (shapes, not escapes)
def form_shapes(rng, tree, alt, tier):
    cases = []
    bodies = [b'', b'&', b'&&', b'=', b'==', b'=&=', b'a', b'a=', b'=a', b'a=b=c', b'a&', b'&a', b'a=1&', b'&a=1', b'a=1&&b=2', b'a=1;b=2', b'a=1&b', b' a=1', b'a=1 ', b'a = 1', b'a=1\r\n', b'a=1\n', b'\r\na=1', b'a=1\r\nb=2',
              b'a=\x00', b'\x00=a', b'a\x00=1', b'a=1\x00&b=2', b'\x00', b'\x07', b'a=\x07', b'\x7f=\x7f', b'\t=\t', b'a=1&a=1&a=1', '\u00e9=\u00e9'.encode(), '\u0130=\u0130'.encode(), '\U0001F600'.encode(), b'a=' + b'v' * 9000,
              b'k' * 9000, b'k' * 9000 + b'=', b'&' * 9000, b'=' * 9000, b'a=1&' * 2200, b'a' * 5000 + b'=' + b'b' * 5000, b'?a=1', b'#a=1', b'a=1#b', b'a=1?b', b'a[]=1&a[]=2', b'a[0]=1', b'a.b=1', b'a=1&A=1',
              b'\xff', b'a=\xff', b'\xff=a', b'a=1&\xff', b'\xc3', b'a=\xc3', b'\xe2\x82=1', b'a=\xed\xa0\x80', b'a=\xc0\xaf', b'a=1' + b'\xff' * 9000]
    for body in bodies:
        for ct in (('application/x-www-form-urlencoded',) if tier == 'quick' else ('application/x-www-form-urlencoded', 'APPLICATION/X-WWW-FORM-URLENCODED')):
            cases.append(K.mk(tree, 'POST', URLENC, [('Content-Type', ct)], body, entry=alt(), kind='urlencoded-body-shape'))
        try: q = body.decode('utf-8')
        except UnicodeDecodeError: continue
        if any(ch in q for ch in ' \r\n'): continue
        cases.append(K.mk(tree, 'GET', '/form-get-method?' + q, [], entry=alt(), kind='query-shape'))
        cases.append(K.mk(tree, 'POST', '/file-upload/initiate?' + q, [], entry=alt(), kind='query-shape'))
        cases.append(K.mk(tree, 'POST', '/file-upload/initiate?name=n&lastModified=1&size=1&' + q, [], entry=alt(), kind='query-shape'))
    # the built-in endpoints under every method, with and without their query / body / content type
    for t in ('/form-get-method', '/form-get-method?', '/form-get-method?a=1', '/form-get-method/', '/form-get-method/?a=1', '/form-get-method#a=1', '/file-upload/initiate', '/file-upload/initiate?', '/file-upload/initiate/',
              '/file-upload/initiate?name=a&lastModified=1&size=2', '/file-upload/initiate?name=a&lastModified=1', '/file-upload/initiate?name=a&size=2', '/file-upload/initiate?lastModified=1&size=2', '/file-upload/initiate?name&lastModified&size',
              '/file-upload/initiate?name=&lastModified=&size=', '/file-upload/initiate?NAME=a&LASTMODIFIED=1&SIZE=2', '/file-upload/initiate#name=a&lastModified=1&size=2', '/file-upload', '/file-upload/', URLENC, URLENC + '?a=1', URLENC + '/',
              URLENC + '#x', MULTIP, MULTIP + '?a=1', MULTIP + '/', MULTIP + '#x', '/FORM-GET-METHOD?a=1', '/File-Upload/Initiate?name=a&lastModified=1&size=2'):
        for m in G.METHODS:
            for hs, body in (([], b''), ([CT_URL], b'a=1&b=2'), ([CT_MP], MP_ONE)):
                if tier == 'quick' and not rng.chance(1, 3): continue
                cases.append(K.mk(tree, m, t, hs, body, entry=alt(), kind='endpoint-x-method'))
    return cases

# ------------------------------------------------------------------ I: application handlers (error / empty answer) under every method
def model_input_note(method, msg):
    """the model is given the handler's error text as recovered from the real answer (serve.err_text); for a bodiless answer that is
    a text with the advertised numbers of characters and bytes, which exists only when bytes - chars <= chars: other texts reach the
    implementation and the oracle, but are not compared with the model"""
    nb, nc = len(msg.encode('utf-8')), len(msg)
    return 'no-model-input' if method in ('HEAD', 'OPTIONS') and not (0 <= nb - nc <= nc) else None

def handlers(rng, tree, alt, tier):
    cases = []
    f0 = rng.choice(regular_files(tree))[0]
    msgs = ['', 'boom', '\u00e9' * 10, 'x' * 255 + '\u00e9', 'x' * 5000, 'x' * 100000, 'a\r\nb', 'a\nX-Injected: 1', '\r\n\r\n', '\x00', '\x00' * 100, '\u2028', '\u0130', '\U0001F600' * 3, ' ', '\t', 'HTTP/1.1 200 OK\r\n\r\n', '%s%n', '{}']
    for msg in msgs:
        for m in G.METHODS + ['get', 'Head', 'options']:
            if tier == 'quick' and len(msg) > 1000 and m not in ('GET', 'HEAD', 'OPTIONS'): continue
            t = rng.choice(['/', f0, '/missing', URLENC, '/?a=1'])
            cases.append(K.mk(tree, m, t, [] if rng.chance(1, 2) else [('Origin', 'http://o'), ('Range', 'bytes=0-0')], entry='proc', app='err:' + C.hx(msg), kind='handler-error', note=model_input_note(m, msg)))
    raw_bad = [b'\xff\xfe', b'\xc3', b'a\xffb']         # a message that is not UTF-8 on the wire of the harness protocol (read lossily there)
    for rb in raw_bad:
        cases.append(K.mk(tree, 'GET', '/', [], entry='proc', app='err:' + rb.hex(), kind='handler-error'))
    for m in G.METHODS + ['get']:
        for t in ('/', f0, '/missing', URLENC):
            cases.append(K.mk(tree, m, t, [] if rng.chance(1, 2) else [('Origin', 'http://o'), ('Range', 'bytes=0-0')], entry='proc', app='okempty', kind='handler-empty-answer'))
    # a failing / empty handler never sees what the server refuses before it
    for raw in (b'GET x HTTP/1.1\r\n\r\n', b'junk\r\n\r\n', b'\xff\r\n\r\n', b'', b'OPTIONS * HTTP/1.1\r\n\r\n'):
        for app in ('err:' + C.hx('boom'), 'okempty'):
            cases.append(K.mk(tree, '?', '?', raw=raw, entry='proc', app=app, kind='refused-before-handler'))
    return cases

# ------------------------------------------------------------------ J: transport scripts on every answer path
def answer_paths(tree, rng):
    f0 = rng.choice([f for f, c in regular_files(tree) if len(c) > 0])
    return [('read-error', None, 'real'), ('parse-error', b'junk\r\n\r\n', 'real'), ('not-utf8', b'GET /\xff HTTP/1.1\r\n\r\n', 'real'), ('empty-input', b'', 'real'), ('not-origin-form', b'GET x HTTP/1.1\r\n\r\n', 'real'),
            ('not-origin-form-head', b'HEAD x HTTP/1.1\r\n\r\n', 'real'), ('handler-error', G.req('GET', '/'), 'err:' + C.hx('boom \u00e9')), ('handler-error-head', G.req('HEAD', '/'), 'err:' + C.hx('boom')),
            ('handler-empty', G.req('GET', '/'), 'okempty'), ('static-200', G.req('GET', f0), 'real'), ('static-head', G.req('HEAD', f0), 'real'), ('static-options', G.req('OPTIONS', f0, headers=[('Origin', 'http://o')]), 'real'),
            ('static-206', G.req('GET', '/c04/r300.bin', headers=[('Range', 'bytes=1-100')]), 'real'), ('static-multirange', G.req('GET', '/c04/r300.bin', headers=[('Range', 'bytes=0-9,20-29,290-')]), 'real'),
            ('static-416', G.req('GET', '/c04/ten.txt', headers=[('Range', 'bytes=50-')]), 'real'), ('index', G.req('GET', '/'), 'real'), ('not-found', G.req('GET', '/missing'), 'real'), ('dir-index', G.req('GET', '/c04/dir/'), 'real'),
            ('urlencoded-200', G.req('POST', URLENC, headers=[CT_URL], body=b'a=1&b=2'), 'real'), ('urlencoded-400', G.req('POST', URLENC, headers=[CT_URL], body=b'\xff'), 'real'),
            ('multipart-200', G.req('POST', MULTIP, headers=[CT_MP], body=MP_ONE), 'real'), ('multipart-400', G.req('POST', MULTIP, headers=[CT_MP], body=b'--B\r\n'), 'real'),
            ('initiate-200', G.req('POST', '/file-upload/initiate?name=a&lastModified=1&size=2'), 'real'), ('initiate-400', G.req('POST', '/file-upload/initiate'), 'real'), ('form-get', G.req('GET', '/form-get-method?a=1'), 'real'),
            ('method-501', G.req('PUT', '/'), 'real')]

def with_transport(tree, raw, entry, app, ws, flush, kind):
    c = K.mk(tree, '?', '?', raw=raw if raw is not None else b'', entry=entry, app=app, ws=ws, flush=flush, kind=kind)
    if raw is None:
        c.line = S.proc_line(b'', app=app, alloc=10000, ws=ws, flush=flush, read_err=True) if entry == 'proc' else S.preq_line(b'', ws=ws, flush=flush, read_err=True)
    return c

def transports(rng, tree, alt, tier):
    cases = []
    scripts = ['all', 'c:1', 'c:2', 'c:3', 'c:7', 'c:64', 'c:1000', 'c:100000', 's:1', 's:2.1', 's:17.1.1', 's:100.1', 's:1.1.1.1.1.1.1.1', 's:0', 's:5.0', 'c:0', 'e:0', 'e:1', 'e:2']
    for name, raw, app in answer_paths(tree, rng):
        for e in ENTRIES:
            if e == 'preq' and app != 'real': continue
            for ws in scripts:
                fl = 'ok'
                kind = 'transport:' + name if name != 'read-error' else 'read-error'
                cases.append(with_transport(tree, raw, e, app, ws, fl, kind))
            for ws in ('all', 'c:7', 'e:0', 's:0'):
                cases.append(with_transport(tree, raw, e, app, ws, 'e', 'transport:' + name if name != 'read-error' else 'read-error'))
    return cases

# ------------------------------------------------------------------ K: the request buffer ends at every position of a request (buffer size is configuration of Server::process)
def buffer_cuts(rng, tree, alt, tier):
    cases = []
    f0 = rng.choice(regular_files(tree))[0]
    reqs = [G.req('POST', URLENC, headers=[CT_URL, ('Content-Length', '7')], body=b'a=1&b=2'), G.req('POST', MULTIP, headers=[CT_MP], body=MP_ONE), G.req('GET', f0, headers=[('Range', 'bytes=0-0'), ('Origin', 'http://o')]),
            G.req('POST', '/file-upload/initiate?name=a&lastModified=1&size=2'), G.req('HEAD', '/'), G.req('OPTIONS', f0, headers=[('Origin', 'http://\u00e9'), ('Access-Control-Request-Method', 'PUT')]),
            G.req('GET', '/c04/\u00e9t\u00e9.txt', headers=[('Cookie', '\U0001F600')])]
    for raw in reqs:
        step = 1 if tier != 'quick' else 2
        for alloc in sorted(set(range(0, len(raw) + 3, step)) | {0, 1, 2, len(raw) - 1, len(raw), len(raw) + 1}):
            cases.append(K.mk(tree, '?', '?', raw=raw, entry='proc', alloc=alloc, kind='buffer-cut'))
    # the default buffer: requests of exactly / around its size on every route (padding in a header, in the target, in the body)
    for n in (9998, 9999, 10000, 10001, 10002):
        for e in ENTRIES:
            base = G.req('GET', f0, headers=[('Cookie', '')])
            cases.append(K.mk(tree, '?', '?', raw=G.req('GET', f0, headers=[('Cookie', 'c' * (n - len(base)))]), entry=e, kind='buffer-fit'))
            cases.append(K.mk(tree, '?', '?', raw=G.req('GET', f0, headers=[('Cookie', 'c' * (n - len(base) - 2) + '\u00e9')]), entry=e, kind='buffer-fit'))     # a two-byte character across the end
            base = G.req('GET', f0 + '?')
            cases.append(K.mk(tree, '?', '?', raw=G.req('GET', f0 + '?' + 'q' * (n - len(base))), entry=e, kind='buffer-fit'))
            base = G.req('POST', MULTIP, headers=[CT_MP], body=b'--B\r\nContent-Disposition: form-data; name="a"\r\n\r\n' + b'\r\n--B--\r\n')
            cases.append(K.mk(tree, '?', '?', raw=G.req('POST', MULTIP, headers=[CT_MP], body=b'--B\r\nContent-Disposition: form-data; name="a"\r\n\r\n' + b'v' * (n - len(base)) + b'\r\n--B--\r\n'), entry=e, kind='buffer-fit'))
            base = G.req('POST', URLENC, headers=[CT_URL], body=b'a=')
            cases.append(K.mk(tree, '?', '?', raw=G.req('POST', URLENC, headers=[CT_URL], body=b'a=' + b'v' * (n - len(base))), entry=e, kind='buffer-fit'))
            cases.append(K.mk(tree, '?', '?', raw=G.req('POST', URLENC, headers=[CT_URL], body=b'a=' + b'v' * (n - len(base) - 2) + '\u00e9'.encode()), entry=e, kind='buffer-fit'))
            cases.append(K.mk(tree, '?', '?', raw=b'GET ' + b(f0) + b' HTTP/1.1\r\n' + b'h: v\r\n' * ((n - 20 - len(f0)) // 6) + b'\r\n', entry=e, kind='buffer-fit'))
            cases.append(K.mk(tree, '?', '?', raw=(b'GET ' + b(f0) + b' HTTP/1.1\r\n\r\n').ljust(n, b'\x00'), entry=e, kind='buffer-fit'))
            cases.append(K.mk(tree, '?', '?', raw=(b'GET ' + b(f0) + b' HTTP/1.1\r\n\r\n').ljust(n, b'\n'), entry=e, kind='buffer-fit'))
            cases.append(K.mk(tree, '?', '?', raw=(b'GET ' + b(f0) + b' HTTP/1.1\r\n').ljust(n, b' '), entry=e, kind='buffer-fit'))
            cases.append(K.mk(tree, '?', '?', raw=(b'GET ' + b(f0) + b' HTTP/1.1').ljust(n, b' '), entry=e, kind='buffer-fit'))
            cases.append(K.mk(tree, '?', '?', raw=b' ' * (n - 30) + b'GET ' + b(f0) + b' HTTP/1.1\r\n\r\n', entry=e, kind='buffer-fit'))
    return cases

# ------------------------------------------------------------------ L: shapes of the served tree around the names the server itself looks for
def odd_trees(rng, tier):
    """trees whose own pages (index.html, 404.html, <dir>/index.html, <name>.html) are directories, empty files, links, dangling or
    looping links; links to directories; names of 255 bytes; deep nesting.  Returns [(tree, cases)]"""
    out = []
    shapes = ['dirs', 'empty', 'links', 'dangling', 'loops']
    for si, shape in enumerate(shapes):
        t = S.Tree(b'lvl0/root')
        root = t.cwd + b'/'
        t.file(b'secret.txt', S.marker(b'secret.txt') + b'\n').file(b'lvl0/secret.txt', S.marker(b'lvl0/secret.txt') + b'\n')
        t.file(root + b'plain.txt', b'plain text').file(root + b'sub/keep.txt', b'keep').file(root + b'sub/page.html', b'<p>sub page</p>')
        t.file(root + b'n' * 255, b'long name').file(root + b'x' * 250 + b'.html', b'long html name')
        t.file(root + b'/'.join([b'd'] * 40) + b'/deep.txt', b'deep').file(root + b'/'.join([b'e'] * 40) + b'/index.html', b'<p>deep index</p>')
        t.file(root + b'twice.html.html', b'twice').file(root + b'index.html.html', b'index twice').file(root + b'dots/.../x.txt', b'dots').file(root + b'dots/..txt', b'dotdot txt')
        own = [b'index.html', b'404.html', b'sub/index.html', b'pg.html', b'style.css', b'favicon.svg', b'script.js', b'form-get-method', b'form-get-method.html', b'file-upload/initiate']
        for k, name in enumerate(own):
            p = root + name
            if shape == 'dirs': t.file(p + b'/inner.txt', b'inside ' + name)
            elif shape == 'empty': t.file(p, b'')
            elif shape == 'links': t.link(p, (b'../' * name.count(b'/')) + b'plain.txt')
            elif shape == 'dangling': t.link(p, b'nowhere-' + (b'%d' % k))
            elif shape == 'loops': t.link(p, name.rsplit(b'/', 1)[-1] if k % 2 == 0 else (b'../' * name.count(b'/')) + own[(k + 1) % len(own)])
        t.link(root + b'dirlink', b'sub').link(root + b'dirlink2', b'sub/').link(root + b'selfdir', b'.').link(root + b'updir', b'..').link(root + b'sub/back', b'..')
        t.link(root + b'abs.lnk', t.root + b'/' + root + b'plain.txt').link(root + b'empty-target.lnk', b'x/../plain.txt')
        t.link(root + b'chain1.lnk', b'chain2.lnk').link(root + b'chain2.lnk', b'plain.txt').link(root + b'slash.lnk', b'plain.txt/').link(root + b'dot.lnk', b'./plain.txt')
        t.dir(root + b'emptydir').dir(root + b'emptydir.html').dir(root + b'plain.txt.html')
        t.names = []
        alt = Alt(si)
        cases = []
        targets = ['/', '/index.html', '/index.html/', '/index', '/index.html/inner.txt', '/404.html', '/404', '/404.html/', '/404.html/inner.txt', '/missing', '/missing/', '/sub', '/sub/', '/sub/index.html', '/sub/index.html/',
                   '/sub/index', '/sub/page', '/sub/page/', '/pg', '/pg/', '/pg.html', '/pg.html/', '/pg.html/inner.txt', '/style.css', '/style.css/', '/style.css/inner.txt', '/favicon.svg', '/script.js', '/form-get-method', '/form-get-method?a=1',
                   '/form-get-method/inner.txt', '/form-get-method.html', '/file-upload/initiate', '/file-upload/initiate?name=a&lastModified=1&size=2', '/file-upload', '/file-upload/', '/plain.txt', '/plain', '/plain.txt/', '/plain.txt.html',
                   '/plain.txt.html/', '/emptydir', '/emptydir/', '/emptydir.html', '/emptydir.html/', '/dirlink', '/dirlink/', '/dirlink/keep.txt', '/dirlink/page', '/dirlink2', '/dirlink2/', '/dirlink2/keep.txt', '/selfdir', '/selfdir/',
                   '/selfdir/plain.txt', '/selfdir/selfdir/selfdir/plain.txt', '/selfdir/' * 30 + 'plain.txt', '/updir', '/updir/', '/updir/secret.txt', '/sub/back', '/sub/back/', '/sub/back/plain.txt', '/sub/back/sub/back/sub/keep.txt',
                   '/abs.lnk', '/empty-target.lnk', '/chain1.lnk', '/chain2.lnk', '/slash.lnk', '/dot.lnk', '/' + 'n' * 255, '/' + 'n' * 255 + '/', '/' + 'n' * 254, '/' + 'n' * 256, '/' + 'x' * 250, '/' + 'x' * 250 + '.html', '/' + 'x' * 251 + '.html',
                   '/' + '/'.join(['d'] * 40) + '/deep.txt', '/' + '/'.join(['d'] * 40), '/' + '/'.join(['d'] * 41), '/' + '/'.join(['e'] * 40), '/' + '/'.join(['e'] * 40) + '/', '/' + '/'.join(['e'] * 39), '/twice', '/twice.html', '/twice.html.html',
                   '/index.html.html', '/dots', '/dots/', '/dots/...', '/dots/.../', '/dots/.../x.txt', '/dots/.', '/dots/..txt', '/dots/.']
        for tg in targets:
            for m in (('GET', 'HEAD', 'OPTIONS', 'POST') if tier != 'quick' else ('GET', rng.choice(['HEAD', 'OPTIONS', 'POST']))):
                cases.append(K.mk(t, m, tg, [], entry=alt(), kind='odd-tree:' + shape))
            cases.append(K.mk(t, 'GET', tg, [('Range', rng.choice(['bytes=0-0', 'bytes=0-', 'bytes=-1', 'bytes=1-', 'bytes=0-0,1-1', 'bytes=99-']))], entry=alt(), kind='odd-tree:' + shape))
        # more symbolic links on the way than the kernel follows (40, ELOOP): the model has no such limit (reported in AUDIT.md) - oracle only
        for m in ('GET', 'HEAD'):
            cases.append(K.mk(t, m, '/selfdir/' * 300 + 'plain.txt', [], entry=alt(), kind='odd-tree:' + shape, note='kernel-limit-not-modelled'))
        out.append((t, cases))
    return out

# ------------------------------------------------------------------ M: other configurations (CORS lists instead of allow-all, a small request buffer on the legacy entry)
def config_batches(rng, tier):
    """[(env pairs, tree, cases)]"""
    out = []
    def env(**kw):
        d = dict(S.DEFAULT_ENV)
        d.update({'RWS_CONFIG_' + k: v for k, v in kw.items()})
        return list(d.items())
    confs = [('cors-lists', env(CORS_ALLOW_ALL='false', CORS_ALLOW_ORIGINS='http://a,https://foo.example', CORS_ALLOW_CREDENTIALS='true', CORS_ALLOW_HEADERS='X-A,Content-Type', CORS_ALLOW_METHODS='GET,POST,PUT',
                               CORS_EXPOSE_HEADERS='X-B', CORS_MAX_AGE='600')),
             ('cors-empty-lists', env(CORS_ALLOW_ALL='false')),
             ('small-buffer', env(REQUEST_ALLOCATION_SIZE_IN_BYTES='64')),
             ('buffer-at-offset', env(REQUEST_ALLOCATION_SIZE_IN_BYTES='4000'))]
    if tier != 'quick':
        confs += [('buffer-4001', env(REQUEST_ALLOCATION_SIZE_IN_BYTES='4001')), ('buffer-1', env(REQUEST_ALLOCATION_SIZE_IN_BYTES='1')), ('buffer-big', env(REQUEST_ALLOCATION_SIZE_IN_BYTES='100000')),
                  ('cors-junk', env(CORS_ALLOW_ALL='maybe', CORS_ALLOW_CREDENTIALS='perhaps', CORS_MAX_AGE='-1'))]
    for ci, (name, pairs) in enumerate(confs):
        t = prepare_tree(rng)
        alt = Alt(ci)
        cases = []
        f0 = rng.choice(regular_files(t))[0]
        alloc = int(dict(pairs)['RWS_CONFIG_REQUEST_ALLOCATION_SIZE_IN_BYTES'])
        origins = ['http://a', 'https://foo.example', 'http://a,https://foo.example', 'http://', 'http://ab', 'a', '', ',', 'null', 'HTTP://A', 'http://a ', ' http://a', 'http://a\x00', 'http://\u00e9', 'x' * 3000, 'http://a/', 'https://foo.example:443']
        for o in origins:
            for m in ('GET', 'OPTIONS', 'HEAD', 'POST'):
                hs = [('Origin', o)] + ([('Access-Control-Request-Method', rng.choice(['PUT', 'GET', '', 'x' * 100])), ('Access-Control-Request-Headers', rng.choice(['X-A', 'x-a, content-type', '', '\u0130']))] if m == 'OPTIONS' and rng.chance(2, 3) else [])
                cases.append(K.mk(t, m, rng.choice(['/', f0, '/missing', '/c04/dir/']), hs, entry=alt(), alloc=alloc, kind='config:' + name))
            cases.append(K.mk(t, 'OPTIONS', f0, [('Origin', o), ('origin', 'http://a')], entry=alt(), alloc=alloc, kind='config:' + name))
        paths = [f for f, _ in regular_files(t)] + ['/c04/dir', '/c04/pg', '/missing']
        for _ in range(80 if tier == 'quick' else 600):
            m, tg, v, hs, body = G.valid_request(rng, paths)
            cases.append(K.mk(t, m, tg, hs, body, v, entry=alt(), alloc=alloc, kind='config:' + name))
        for tg in ('/file-upload/initiate?name=a&lastModified=1&size=2', '/file-upload/initiate?name=a&lastModified=1&size=9223372036854775807', '/form-get-method?a=1', '/'):
            for e in ENTRIES:
                cases.append(K.mk(t, 'POST' if 'initiate' in tg else 'GET', tg, [], entry=e, alloc=alloc, kind='config:' + name))
        for raw in (b'', b'junk', b'GET x HTTP/1.1\r\n\r\n', b'\xff' * (alloc + 5), b'GET /' + b'a' * alloc + b' HTTP/1.1\r\n\r\n', G.req('POST', URLENC, headers=[CT_URL], body=b'a=1&a=2'), G.req('POST', MULTIP, headers=[CT_MP], body=MP_ONE)):
            for e in ENTRIES:
                cases.append(K.mk(t, '?', '?', raw=raw, entry=e, alloc=alloc, kind='config:' + name))
        out.append((pairs, t, cases))
    return out

# ------------------------------------------------------------------ collection
GROUPS = [request_line, header_shapes, foreign_bytes, percent_escapes, target_shapes, ranges_by_size, multipart_grammar, form_shapes, handlers, transports, buffer_cuts]

def extra_batches(rng, tier):
    """one batch (own tree) per group, so that they run side by side; in the thorough tier every group runs on three trees"""
    out = []
    for rep in range(1 if tier == 'quick' else 3):
        for gi, g in enumerate(GROUPS):
            r = rng.fork(f'{g.__name__}:{rep}')
            tree = prepare_tree(r, small=(rep == 0))
            out.append((tree, g(r, tree, Alt(gi + rep), tier)))
    out += odd_trees(rng.fork('odd-trees'), tier)
    return out

# ====================================================================================================================
# SECOND AUDIT PASS: relations between two inputs that a FEATURE added on this code path would hinge on (see AUDIT2.md).
# The server ignores most of the headers below today; a request that carries them is answered as before, so every case
# is judged by the unchanged oracle (no panic, exactly one complete response, error status where required) and compared
# with the model.  Groups N1..N14; `feature_batches` collects them, `history_batches` are oracle-only (the tree changes
# between two requests of one process, the model keeps no such state).
# ====================================================================================================================
def _rot(xs, i):
    return xs[i % len(xs)]

def mb_values(n):
    """strings in which EVERY byte offset 1..2n is inside a character for one of the first two values (two-byte characters in both
    alignments): a cut `&value[..k]` at ANY k panics on one of them; three- and four-byte characters in every alignment follow"""
    e2, e3, e4 = 'é', '€', '\U0001F600'
    return [e2 * n, 'a' + e2 * n, e3 * (2 * n // 3), 'a' + e3 * (2 * n // 3), 'ab' + e3 * (2 * n // 3),
            e4 * (n // 2), 'a' + e4 * (n // 2), 'ab' + e4 * (n // 2), 'abc' + e4 * (n // 2)]

LOGGED = ['User-Agent', 'Referer', 'Host', 'Origin', 'X-Forwarded-For', 'Forwarded', 'Accept', 'Accept-Language', 'Accept-Encoding', 'Cookie', 'Authorization', 'Content-Type',
          'If-None-Match', 'If-Modified-Since', 'Via', 'X-Request-Id', 'From', 'Range', 'Expect', 'Connection', 'Upgrade', 'Transfer-Encoding', 'Content-Encoding', 'Prefer']

# ------------------------------------------------------------------ N1: a value cut / sliced at ANY byte offset (a log line, a metrics label, a fixed-size field)
def cut_anywhere(rng, tree, alt, tier):
    cases = []
    f0 = rng.choice(regular_files(tree))[0]
    n = 1500
    vals = mb_values(n)
    for hi, hn in enumerate(LOGGED):
        for vi, v in enumerate(vals if tier != 'quick' else vals[:2] + [_rot(vals[2:], hi)]):
            for e in (ENTRIES if vi < 2 else (alt(),)):
                cases.append(K.mk(tree, _rot(['GET', 'GET', 'HEAD', 'OPTIONS'], hi + vi), f0, [(hn, v)], entry=e, kind='cut-anywhere:header'))
    # beyond 4 096 / 8 192 bytes (a page, a pipe buffer): the value nearly fills the request buffer
    for hn in ('User-Agent', 'Referer', 'Cookie'):
        for v in mb_values(4400)[:2]:
            cases.append(K.mk(tree, 'GET', f0, [(hn, v)], entry=alt(), kind='cut-anywhere:header'))
    for vi, v in enumerate(vals if tier != 'quick' else vals[:2] + [rng.choice(vals[2:])]):
        pe = ''.join('%%%02X' % x for x in v[:600].encode())
        places = [('GET', '/' + v, [], b''), ('HEAD', '/' + v, [], b''), ('GET', f0 + '?' + v, [], b''), ('GET', f0 + '?k=' + v, [], b''), ('GET', f0 + '#' + v, [], b''), ('OPTIONS', f0 + '?' + v, [('Origin', 'http://o')], b''),
                  ('GET', '/form-get-method?k=' + v, [], b''), ('GET', '/form-get-method?' + v + '=1', [], b''), ('POST', '/file-upload/initiate?name=' + v + '&lastModified=1&size=2', [], b''),
                  ('GET', '/' + pe, [], b''), ('GET', '/form-get-method?k=' + pe, [], b''), ('GET', f0 + '?' + pe, [], b''),
                  ('POST', URLENC, [CT_URL], b('k=' + v)), ('POST', URLENC, [CT_URL], b(v + '=1')), ('POST', URLENC, [CT_URL], b('k=' + pe)), ('POST', URLENC, [('Content-Type', 'application/x-www-form-urlencoded; charset=' + v)], b'a=1'),
                  ('POST', MULTIP, [CT_MP], b'--B\r\nContent-Disposition: form-data; name="' + b(v) + b'"\r\n\r\nv\r\n--B--\r\n'),
                  ('POST', MULTIP, [CT_MP], b'--B\r\nContent-Disposition: form-data; name="a"; filename="' + b(v) + b'"\r\n\r\nv\r\n--B--\r\n'),
                  ('POST', MULTIP, [CT_MP], b'--B\r\nContent-Disposition: form-data; name="a"\r\n\r\n' + b(v) + b'\r\n--B--\r\n'),
                  ('POST', MULTIP, [CT_MP], b'--B\r\nContent-Disposition: form-data; name="a"\r\nContent-Type: text/' + b(v) + b'\r\n\r\nv\r\n--B--\r\n'),
                  ('POST', MULTIP, [('Content-Type', 'multipart/form-data; boundary=' + v[:40])], b'--' + b(v[:40]) + b'\r\nContent-Disposition: form-data; name="a"\r\n\r\nv\r\n--' + b(v[:40]) + b'--\r\n'),
                  ('PUT', '/' + v, [], b(v)), (v[:20], '/', [], b''), ('GET', '/', [], b'')]
        for pi, (m, t, hs, body) in enumerate(places):
            for e in (ENTRIES if vi < 2 and tier != 'quick' else (alt(),)):
                cases.append(K.mk(tree, m, t, hs, body, entry=e, kind='cut-anywhere:place'))
        for m in ('GET', 'HEAD', 'POST'):
            cases.append(K.mk(tree, m, _rot(['/', f0, '/missing'], vi), [], entry='proc', app='err:' + C.hx(v), kind='cut-anywhere:handler-error', note=model_input_note(m, v)))
    return cases

# ------------------------------------------------------------------ N2: precompressed neighbours of the served files x Accept-Encoding x Range
ACCEPT_ENCODINGS = ['gzip', 'br', 'gzip, br', 'gzip, deflate, br, zstd', 'GZIP', 'Gzip', 'gzip;q=0', 'gzip;q=0.5, br;q=1', 'br;q=0.5,gzip;q=0.5', '*', '*;q=0', 'identity', 'identity;q=0', 'identity;q=0, *;q=0', '', ' ',
                    'gzip;q=NaN', 'gzip;q=NaN, br;q=0.5', 'br;q=0.5, gzip;q=nan, zstd;q=0.1', 'gzip;q=inf', 'gzip;q=', 'gzip;q', 'gzip;', 'gzip;q=1.0000', 'gzip;q=-1', 'gzip;q=2', 'gzip;q=1e400', 'gzip;q=0.0001', 'gzip; q=0.5', 'gzip ;q=0.5',
                    'gzip;Q=0.5', ';q=1', ',', ',,gzip,,', 'x-gzip', 'gzipx', 'notgzip', 'deflate', 'compress', 'gzip' + ', x' * 500, 'gzip;' + 'q=1;' * 300, 'gzip\x00', 'gzip;q=０.５', 'gzıp', 'gzip,' * 400 + 'gzip',
                    'gzip;q=0.5;q=0.7', 'gzip;q=0,5', 'gzip;q=.5', 'gzip;q=1.', 'gzip;q=+1', 'gzip;q=0x1', 'gzip;q=9223372036854775808', 'br;q=1, gzip;q=0.999999999999999999999999999999']

def sidecar_batches(rng, tier):
    if tier == 'quick': return _sidecar_batch(rng, tier, None, 1)
    return sum((_sidecar_batch(rng.fork(f'part{i}'), tier, set(range(i, 11, 4)), i) for i in range(4)), [])

def _sidecar_batch(rng, tier, only, phase):
    """[(tree, cases)]: next to every served file of the directories sc/<shape>/ lies `<name>.gz` and `<name>.br` of one shape (shorter / longer
    than the file, empty, of the same size, a directory, a dangling link, a link loop, a link to the file itself, to a directory, none)"""
    t = prepare_tree(rng)
    root = t.cwd + b'/'
    L = 300
    orig = bytes((i * 11 + 5) & 0xff for i in range(L))
    page = b'<p>' + b'p' * (L - 7) + b'</p>'
    GZ = b'\x1f\x8b\x08\x00\x00\x00\x00\x00\x00\x03'
    shapes = [('smaller', GZ + b'x' * 30), ('larger', GZ + b'y' * 600), ('empty', b''), ('same', GZ + b'z' * (L - 10)), ('one', b'\x1f'), ('dir', None), ('dangling', None), ('loop', None), ('toorig', None), ('todir', None), ('none', None)]
    served = [b'data.txt', b'index.html', b'page.html', b'noext']
    for shape, content in shapes:
        d = root + b'sc/' + shape.encode() + b'/'
        for name in served:
            t.file(d + name, orig if not name.endswith(b'.html') else page)
            for ext in (b'.gz', b'.br'):
                sc = d + name + ext
                if content is not None: t.file(sc, content)
                elif shape == 'dir': t.file(sc + b'/inner', b'inside a directory')
                elif shape == 'dangling': t.link(sc, b'nowhere' + ext)
                elif shape == 'loop': t.link(sc, name + ext)
                elif shape == 'toorig': t.link(sc, name)
                elif shape == 'todir': t.link(sc, b'.')
        if content is not None: t.file(d + b'page.gz', content)          # the neighbour of the name as it was asked for (`/page`), not of the file it resolves to
    alt = Alt(phase)
    cases = []
    for si, (shape, content) in enumerate(shapes):
        if only is not None and si not in only: continue
        S_ = len(content) if content is not None else 0
        rel = sorted({f'bytes={a}-{z}' for a in (0, 1, max(S_ - 1, 0), S_, S_ + 1, L - 1) for z in ('', a, max(S_ - 1, a), S_, S_ + 1, L - 1, L) if z == '' or z >= a} | {f'bytes=-{k}' for k in (0, 1, S_, S_ + 1, L - 1, L, L + 1)} |
                     {f'bytes=0-0,{S_}-{S_}', f'bytes={S_}-,0-0', f'bytes=0-{S_},{S_ + 1}-{L - 1}'})
        base = '/sc/' + shape + '/'
        targets = [base + 'data.txt', base, base[:-1], base + 'page', base + 'page.html', base + 'noext', base + 'data.txt.gz', base + 'data.txt.br', base + 'index.html', base + 'page.gz']
        for ti, tg in enumerate(targets):
            plans = [('GET', 'gzip', None), ('GET', 'gzip', 'bytes=0-0'), ('GET', 'gzip, br', _rot(rel, si + ti)), ('GET', 'br', rng.choice(rel)), ('HEAD', 'gzip', None), ('OPTIONS', 'gzip', None), ('HEAD', 'gzip', rng.choice(rel)),
                     ('GET', rng.choice(ACCEPT_ENCODINGS), rng.choice(rel + [None] * 10)), ('GET', rng.choice(ACCEPT_ENCODINGS), None)]
            if tier != 'quick':
                plans += [(m, ae, r) for m in ('GET', 'HEAD') for ae in ('gzip', 'br;q=1, gzip;q=0.5', '*') for r in rel]
                plans += [('GET', ae, r) for ae in ACCEPT_ENCODINGS for r in (None, 'bytes=0-0', f'bytes={S_}-')]
            for m, ae, r in plans:
                hn = 'Accept-Encoding' if rng.chance(7, 8) else rng.choice(['accept-encoding', 'ACCEPT-ENCODING'])
                cases.append(K.mk(t, m, tg, [(hn, ae)] + ([('Range', r)] if r else []), entry=alt(), kind='sidecar:' + shape))
    for ai, ae in enumerate(ACCEPT_ENCODINGS):
        sh = _rot(shapes, ai)[0]
        cases.append(K.mk(t, 'GET', '/sc/' + sh + '/data.txt', [('Accept-Encoding', ae)], entry=alt(), kind='accept-encoding'))
        cases.append(K.mk(t, _rot(['GET', 'HEAD', 'OPTIONS', 'POST'], ai), _rot(['/', '/style.css', '/missing', '/form-get-method?a=1', '/sc/smaller/', URLENC], ai), [('Accept-Encoding', ae), ('Range', 'bytes=0-0')], entry=alt(), kind='accept-encoding'))
        cases.append(K.mk(t, 'GET', '/sc/' + sh + '/page', [('Accept-Encoding', ae), ('Accept-Encoding', 'gzip')], entry=alt(), kind='accept-encoding'))
    return [(t, cases)]

# ------------------------------------------------------------------ N3: conditional requests (validators) x the file asked for x Range
IMF = 'Sun, 06 Nov 1994 08:49:37 GMT'
def date_values():
    vals = [IMF, 'Sunday, 06-Nov-94 08:49:37 GMT', 'Sun Nov  6 08:49:37 1994', 'Sun Nov 16 08:49:37 1994', '1994-11-06T08:49:37Z', '1994-11-06 08:49:37', 'Thu, 01 Jan 1970 00:00:00 GMT', 'Wed, 31 Dec 1969 23:59:59 GMT',
            'Tue, 19 Jan 2038 03:14:07 GMT', 'Tue, 19 Jan 2038 03:14:08 GMT', 'Sun, 07 Feb 2106 06:28:15 GMT', 'Sun, 07 Feb 2106 06:28:16 GMT', 'Fri, 11 Apr 2262 23:47:16 GMT', 'Fri, 11 Apr 2262 23:47:17 GMT', 'Fri, 31 Dec 9999 23:59:59 GMT',
            'Sat, 01 Jan 10000 00:00:00 GMT', 'Mon, 01 Jan 0000 00:00:00 GMT', 'Mon, 01 Jan 0001 00:00:00 GMT', 'Mon, 28 Sep 2026 00:00:00 GMT', 'Fri, 01 Jan 2100 00:00:00 GMT', 'Tue, 29 Feb 2000 00:00:00 GMT', 'Mon, 29 Feb 2100 00:00:00 GMT',
            'Tue, 30 Feb 2021 00:00:00 GMT', 'Sun, 00 Nov 1994 08:49:37 GMT', 'Sun, 32 Nov 1994 08:49:37 GMT', 'Sun, 99 Nov 1994 08:49:37 GMT', 'Sun, 31 Nov 1994 08:49:37 GMT', 'Sun, 6 Nov 1994 08:49:37 GMT', 'Sun, 006 Nov 1994 08:49:37 GMT',
            'Sun, 06 Foo 1994 08:49:37 GMT', 'Sun, 06 nov 1994 08:49:37 GMT', 'Sun, 06 NOV 1994 08:49:37 GMT', 'Sun, 06 November 1994 08:49:37 GMT', 'Sun, 06 11 1994 08:49:37 GMT', 'Sun, 06 13 1994 08:49:37 GMT', 'Sun, 06 00 1994 08:49:37 GMT',
            'Sun, 06 Nov 94 08:49:37 GMT', 'Sun, 06 Nov 19940 08:49:37 GMT', 'Sun, 06 Nov -994 08:49:37 GMT', 'Sun, 06 Nov 1994 24:00:00 GMT', 'Sun, 06 Nov 1994 25:49:37 GMT', 'Sun, 06 Nov 1994 99:49:37 GMT', 'Sun, 06 Nov 1994 08:60:37 GMT',
            'Sun, 06 Nov 1994 08:99:37 GMT', 'Sun, 06 Nov 1994 08:49:60 GMT', 'Sun, 06 Nov 1994 08:49:61 GMT', 'Sun, 06 Nov 1994 08:49:99 GMT', 'Sun, 06 Nov 1994 8:49:37 GMT', 'Sun, 06 Nov 1994 08:49 GMT', 'Sun, 06 Nov 1994 08:49:37.123 GMT',
            'Sun, 06 Nov 1994 08:49:37 UTC', 'Sun, 06 Nov 1994 08:49:37 gmt', 'Sun, 06 Nov 1994 08:49:37 +0000', 'Sun, 06 Nov 1994 08:49:37 -0100', 'Sun, 06 Nov 1994 08:49:37 Z', 'Sun, 06 Nov 1994 08:49:37', 'Sun, 06 Nov 1994 08:49:37 ',
            'Sun, 06 Nov 1994 08:49:37 GMT ', 'Sun, 06 Nov 1994 08:49:37 GMTX', 'Sun, 06 Nov 1994 08:49:37  GMT', 'Sun 06 Nov 1994 08:49:37 GMT', 'Sun,06 Nov 1994 08:49:37 GMT', 'Sun,  06 Nov 1994 08:49:37 GMT', 'Sun,\t06 Nov 1994 08:49:37 GMT',
            'sun, 06 Nov 1994 08:49:37 GMT', 'SUN, 06 NOV 1994 08:49:37 GMT', 'Mon, 06 Nov 1994 08:49:37 GMT', 'Xyz, 06 Nov 1994 08:49:37 GMT', ', 06 Nov 1994 08:49:37 GMT', '06 Nov 1994 08:49:37 GMT', '  ' + IMF, IMF + IMF, IMF + ', ' + IMF,
            IMF + '\x00', '"' + IMF + '"', '', ' ', '0', '-1', '784111777', '784111777000000000', '9223372036854775807', '9223372036854775808', '18446744073709551615', '18446744073709551616', '-9223372036854775808', '1e18', 'now', 'x' * 29, ' ' * 29,
            '0' * 29, ':' * 29, ',' * 29, 'Sun, 06 Nov 1994 08:49:37 GMT' + ' ' * 3000, 'S' * 3000]
    for i in range(len(IMF) + 1):
        vals.append(IMF[:i])                                          # cut at every length
        vals.append(IMF[:i] + 'é' + IMF[i:])                     # one character more, at every position
        if i < len(IMF):
            vals.append(IMF[:i] + 'é' + IMF[i + 1:])             # one character replaced (one byte more)
            vals.append(IMF[:i] + '٣' + IMF[i + 1:])             # ... by a digit that is not ASCII
            vals.append(IMF[:i] + IMF[i + 1:])                        # one character less
        if i + 2 <= len(IMF): vals.append(IMF[:i] + 'é' + IMF[i + 2:])      # the SAME length in bytes, a two-byte character across every offset
        if i + 3 <= len(IMF): vals.append(IMF[:i] + '€' + IMF[i + 3:])      # ... a three-byte character
        if i + 4 <= len(IMF): vals.append(IMF[:i] + '\U0001F600' + IMF[i + 4:])  # ... a four-byte character
    out, seen = [], set()
    for v in vals:
        if v not in seen: seen.add(v); out.append(v)
    return out

ETAGS = ['*', '"abc"', 'W/"abc"', 'w/"abc"', '""', 'W/""', '"', 'W/', 'W/"', 'W', '"abc', 'abc"', 'abc', '"a", "b"', '"a","b"', '"a" , "b"', '"a",', ',"a"', ',', ', ', '"a" "b"', '*, "a"', '"a", *', '**', '"a\\"b"', '"a,b"', '"a", W/"b", "c"', '"é"', '"\x00"',
         '"' + 'e' * 3000 + '"', '"a", ' * 600 + '"a"', '"1700000000000000000-300"', '"18446744073709551616-1"', '"-1--1"', '"0-0"', '"300"', '"12c"', '1700000000000000000', 'W/"1700000000000000000"', '"1700000000000000000', '', ' ', '\t', '"a"\x00', "'abc'", '<abc>',
         '"abc"; x=y', '"d41d8cd98f00b204e9800998ecf8427e"', '"' + 'é' * 20 + '"', 'W/"' + 'a' + 'é' * 20 + '"']

def conditionals(rng, tree, alt, tier):
    cases = []
    f0 = rng.choice([f for f, c in regular_files(tree) if len(c) > 1])
    targets = [f0, '/c04/ten.txt', '/c04/dir/', '/c04/dir', '/c04/pg', '/c04/ln.txt', '/c04/empty.bin', '/', '/missing', '/style.css', '/form-get-method?a=1']
    dates = date_values()
    for di, d in enumerate(dates):
        cases.append(K.mk(tree, 'GET', _rot(targets[:2], di), [('If-Modified-Since', d)], entry=alt(), kind='conditional:date'))
    for hn in ('If-Unmodified-Since', 'If-Range', 'if-modified-since', 'Date', 'Last-Modified', 'If-Modified-Since-Unix-Epoch-Nanos'):
        ds = dates if tier != 'quick' else [rng.choice(dates) for _ in range(30)] + dates[:3]
        for di, d in enumerate(ds):
            hs = [(hn, d)] + ([('Range', rng.choice(['bytes=0-0', 'bytes=1-', 'bytes=-1', 'bytes=0-0,2-3', 'bytes=99999-']))] if hn == 'If-Range' or rng.chance(1, 4) else [])
            cases.append(K.mk(tree, _rot(['GET', 'GET', 'HEAD', 'OPTIONS'], di), _rot(targets, di), hs, entry=alt(), kind='conditional:date'))
    for hn in ('If-None-Match', 'If-Match', 'If-Range', 'if-none-match', 'ETag'):
        for ei, et in enumerate(ETAGS if (tier != 'quick' or hn == 'If-None-Match') else [rng.choice(ETAGS) for _ in range(15)] + ETAGS[:2]):
            hs = [(hn, et)] + ([('Range', rng.choice(['bytes=0-0', 'bytes=1-', 'bytes=-1', 'bytes=0-0,2-3', 'bytes=99999-']))] if hn == 'If-Range' or rng.chance(1, 4) else [])
            cases.append(K.mk(tree, _rot(['GET', 'GET', 'HEAD', 'OPTIONS', 'POST', 'PUT', 'DELETE'], ei), _rot(targets, ei), hs, entry=alt(), kind='conditional:etag'))
    # two validators on one request (their precedence is a relation: If-None-Match beats If-Modified-Since, If-Match beats If-Unmodified-Since, If-Range needs Range)
    for a, av, bn, bv in [('If-None-Match', '*', 'If-Modified-Since', IMF), ('If-None-Match', '"x"', 'If-Modified-Since', 'Fri, 31 Dec 9999 23:59:59 GMT'), ('If-Match', '*', 'If-Unmodified-Since', IMF), ('If-Match', '"x"', 'If-None-Match', '"x"'),
                          ('If-Match', '*', 'If-None-Match', '*'), ('If-Range', IMF, 'If-Modified-Since', IMF), ('If-Range', '"x"', 'If-None-Match', '"x"'), ('If-Modified-Since', IMF, 'If-Modified-Since', 'junk'), ('If-None-Match', '"a"', 'If-None-Match', '*'),
                          ('If-Modified-Since', 'Fri, 31 Dec 9999 23:59:59 GMT', 'If-Unmodified-Since', 'Thu, 01 Jan 1970 00:00:00 GMT'), ('If-Range', 'Fri, 31 Dec 9999 23:59:59 GMT', 'If-Unmodified-Since', IMF)]:
        for m in ('GET', 'HEAD', 'OPTIONS', 'POST'):
            for r in (None, 'bytes=0-0', 'bytes=99999-', 'bytes=0-0,2-3'):
                for tg in ((f0, '/c04/dir/') if tier == 'quick' else targets):
                    if tier == 'quick' and not rng.chance(1, 2): continue
                    cases.append(K.mk(tree, m, tg, [(a, av), (bn, bv)] + ([('Range', r)] if r else []), entry=alt(), kind='conditional:pair'))
    return cases

# ------------------------------------------------------------------ N3b: a number in every header a feature may read one from
NUMERIC_HEADERS = ['Max-Forwards', 'Keep-Alive', 'Upgrade-Insecure-Requests', 'Age', 'Device-Memory', 'Downlink', 'RTT', 'Viewport-Width', 'Width', 'DPR', 'Sec-CH-Viewport-Width', 'X-Forwarded-Port', 'Last-Modified-Unix-Epoch-Nanos',
                   'Date-Unix-Epoch-Nanos', 'Access-Control-Max-Age', 'Retry-After', 'Sec-WebSocket-Version', 'Priority', 'Prefer', 'Content-Range', 'X-Content-Length', 'X-File-Size', 'X-Chunk-Index', 'Save-Data', 'Early-Data', 'DNT']
def numeric_headers(rng, tree, alt, tier):
    from vlib import limits as LIM
    cases = []
    f0 = rng.choice(regular_files(tree))[0]
    core = ['0', '1', '-1', '-0', '255', '256', '65535', '65536', '2147483647', '2147483648', '4294967295', '4294967296', '9223372036854775807', '9223372036854775808', '18446744073709551615', '18446744073709551616',
            str(2**127), str(2**128), '-2147483649', '-9223372036854775809', '', ' ', 'NaN', 'inf', '-inf', '1e400', '1e-400', '1.5', '0.5', '.5', '5.', '+1', ' 1', '1 ', '0x10', '1_000', '1,000', '9' * 400, '0' * 400 + '1', '١', '１', '?1', '?0', 'true']
    nums = core if tier == 'quick' else sorted(set(core) | set(LIM.numbers()))
    for hi, hn in enumerate(NUMERIC_HEADERS):
        for ni, nv in enumerate(nums):
            v = {'Keep-Alive': f'timeout={nv}, max={nv}', 'Priority': f'u={nv}, i', 'Prefer': f'wait={nv}', 'Content-Range': f'bytes {nv}-{nv}/{nv}'}.get(hn, nv)
            m = _rot(['GET', 'OPTIONS', 'TRACE', 'HEAD', 'POST', 'PUT'], hi + ni) if hn != 'Max-Forwards' else _rot(['TRACE', 'OPTIONS', 'GET'], ni)
            cases.append(K.mk(tree, m, _rot([f0, '/', '/missing', '/c04/dir/', '/file-upload/initiate?name=a&lastModified=1&size=2'], ni), [(hn, v)] + ([('Connection', 'keep-alive')] if hn == 'Keep-Alive' else []), entry=alt(), kind='numeric-header'))
    return cases

# ------------------------------------------------------------------ N4/N7: Expect and Content-Length relative to the bytes that arrived after the head
def _post(t, hs, body):
    return ('POST', t, hs, body)

def body_routes(tree, rng):
    f0 = rng.choice(regular_files(tree))[0]
    return [('POST', URLENC, [CT_URL], b'a=1&b=2'), ('POST', MULTIP, [CT_MP], MP_ONE), ('POST', '/file-upload/initiate?name=a&lastModified=1&size=2', [], b''), ('POST', '/file-upload/initiate?name=a&lastModified=1&size=2', [], b'chunk-bytes'),
            ('GET', f0, [], b''), ('GET', f0, [], b'unexpected body'), ('GET', '/form-get-method?a=1', [], b'x=1'), ('PUT', '/c04/new.txt', [('Content-Type', 'text/plain')], b'new content'), ('HEAD', f0, [], b'body'), ('OPTIONS', f0, [('Origin', 'http://o')], b'body'),
            ('DELETE', f0, [], b''), ('POST', '/missing', [CT_URL], b'a=1'), ('POST', '/', [], b'x'), ('PATCH', f0, [('Content-Type', 'application/json')], b'{"a":1}')]

def cl_relations(n):
    """Content-Length values relative to the n bytes that follow the head"""
    return sorted({0, 1, max(n - 1, 0), n, n + 1, n + 2, 2 * n, 2 * n + 1, 9999, 10000, 10001, 65536, 2**31, 2**32, 2**63 - 1, 2**63, 2**64 - 1, 2**64})

EXPECTS = ['100-continue', '100-Continue', '100-CONTINUE', ' 100-continue ', '100-continue, 100-continue', '100-continue, foo', 'foo, 100-continue', 'foo', '', ' ', '100', '-continue', '100-', '100continue', '100 continue', '101-switching', '200-ok', '417',
           '100-continue\x00', '100-continué', '１００-continue', '100-continue;q=1', '100-continue=1', 'x' * 3000, '100-continue' + ', x' * 600]

def expect_and_length(rng, tree, alt, tier):
    cases = []
    routes = body_routes(tree, rng)
    for ri, (m, t, hs, body) in enumerate(routes):
        n = len(body)
        # Content-Length against what arrived, with and without `Expect: 100-continue`
        for ci, cl in enumerate([None] + cl_relations(n)):
            for ex in (None, '100-continue'):
                if tier == 'quick' and ex is None and cl is not None and cl > 2 * n + 1 and not rng.chance(1, 4): continue
                h2 = list(hs) + ([('Content-Length', str(cl))] if cl is not None else []) + ([('Expect', ex)] if ex else [])
                if rng.chance(1, 3): h2 = h2[::-1]
                for e in (ENTRIES if (tier != 'quick' or (ex and cl is not None and cl <= 2 * n + 1)) else (alt(),)):
                    cases.append(K.mk(tree, m, t, h2, body, entry=e, kind='content-length-x-body' if ex is None else 'expect-x-content-length'))
        # every spelling of the expectation
        for xi, ex in enumerate(EXPECTS if (tier != 'quick' or ri < 2) else [_rot(EXPECTS, ri * 3 + k) for k in range(3)]):
            hn = 'Expect' if (xi + ri) % 5 else _rot(['expect', 'EXPECT'], xi)
            cases.append(K.mk(tree, m, t, list(hs) + [('Content-Length', str(n)), (hn, ex)], body, version=_rot(['HTTP/1.1', 'HTTP/1.1', 'HTTP/1.0', 'HTTP/2.0'], xi), entry=alt(), kind='expect-spelling'))
        # the same header twice, a body that has not arrived at all (the client waits for the interim answer), a body cut short
        cases.append(K.mk(tree, m, t, list(hs) + [('Expect', '100-continue'), ('Expect', '100-continue'), ('Content-Length', str(n))], body, entry=alt(), kind='expect-x-content-length'))
        cases.append(K.mk(tree, m, t, list(hs) + [('Expect', '100-continue'), ('Content-Length', str(max(n, 7)))], b'', entry=alt(), kind='expect-x-content-length'))
        cases.append(K.mk(tree, m, t, list(hs) + [('Content-Length', str(n)), ('Content-Length', str(n))], body, entry=alt(), kind='content-length-x-body'))
        cases.append(K.mk(tree, m, t, list(hs) + [('Content-Length', str(n)), ('Content-Length', str(n + 1))], body, entry=alt(), kind='content-length-x-body'))
        cases.append(K.mk(tree, m, t, list(hs) + [('Content-Length', f'{n}, {n}')], body, entry=alt(), kind='content-length-x-body'))
        cases.append(K.mk(tree, m, t, list(hs) + [('content-length', str(n + 5)), ('CONTENT-LENGTH', str(max(n - 1, 0)))], body, entry=alt(), kind='content-length-x-body'))
    # the body does not fit into the request buffer: Content-Length names the true length, the part that fitted, one more, one less
    for m, t, hs, unit in (('POST', URLENC, [CT_URL], b'k=v&'), ('POST', MULTIP, [CT_MP], b'--B\r\nContent-Disposition: form-data; name="a"\r\n\r\nv\r\n'), ('PUT', '/c04/new.bin', [], b'\x00\xff'), ('GET', '/c04/ten.txt', [], b'x')):
        for total in (9990, 10000, 10001, 12000, 20000):
            head = len(G.req(m, t, 'HTTP/1.1', list(hs) + [('Content-Length', '00000')]))
            fit = max(10000 - head, 0)
            for cl in (total - head, fit - 1, fit, fit + 1):
                if cl < 0: continue
                for ex in (None, '100-continue'):
                    if tier == 'quick' and not rng.chance(1, 2): continue
                    body = (unit * (total // len(unit) + 1))[:max(total - head, 0)]
                    cases.append(K.mk(tree, m, t, list(hs) + [('Content-Length', '%05d' % cl)] + ([('Expect', ex)] if ex else []), body, entry=alt(), kind='content-length-x-buffer'))
    # the interim answer of a feature meets a peer that reads slowly / not at all
    for m, t, hs, body in routes[:5]:
        for ws, fl in (('c:1', 'ok'), ('c:7', 'ok'), ('s:5.0', 'ok'), ('s:25.1', 'ok'), ('e:0', 'ok'), ('e:1', 'ok'), ('e:2', 'ok'), ('all', 'e')):
            for e in ENTRIES:
                c = K.mk(tree, m, t, list(hs) + [('Expect', '100-continue'), ('Content-Length', str(len(body)))], body, entry=e, ws=ws, flush=fl, kind='transport:expect')
                cases.append(c)
    return cases

# ------------------------------------------------------------------ N5: Connection / Keep-Alive x version x the bytes that follow the first request
CONNECTIONS = ['keep-alive', 'Keep-Alive', 'KEEP-ALIVE', 'close', 'Close', 'CLOSE', 'keep-alive, close', 'close, keep-alive', 'close,keep-alive', 'upgrade', 'Upgrade, HTTP2-Settings', 'keep-alive, Upgrade', 'TE', 'TE, close', 'foo', '', ' ', ',', ', ,',
               'keep-alive' + ', x' * 500, 'Connection', 'close\x00', 'clöse', 'keep-alive;timeout=5', 'keepalive', 'keep alive', 'Content-Length', 'Host', 'close, Content-Length']

def pipelining(rng, tree, alt, tier):
    cases = []
    files = regular_files(tree)
    f0, f1 = rng.choice(files)[0], rng.choice(files)[0]
    def second_requests():
        return [b'', G.req('GET', f1), G.req('GET', '/missing'), G.req('HEAD', f1), G.req('GET', f1, 'HTTP/1.0'), G.req('POST', URLENC, headers=[CT_URL, ('Content-Length', '3')], body=b'a=1'), b'junk\r\n\r\n', b'GET /x HT', b'GET ' + b(f1), b'\r\n',
                b'\r\n\r\n', b'\r\n' + G.req('GET', f1), b'\x00' * 20, b'\xff\xfe', G.req('GET', f1) * 20, G.req('GET', f1) + G.req('GET', '/missing') + G.req('HEAD', f1), G.req('GET', 'x'), G.req('OPTIONS', '*'),
                G.req('GET', f1, headers=[('Connection', 'close')]), G.req('GET', f1, headers=[('Range', 'bytes=0-0')]), (G.req('GET', f1) * 400)[:10000 - 60], b'GET / HTTP/1.1\r\n' + b'a: b\r\n' * 1500]
    firsts = [lambda cn, v: G.req('GET', f0, v, [('Host', 'h'), ('Connection', cn)]), lambda cn, v: G.req('HEAD', f0, v, [('Connection', cn)]), lambda cn, v: G.req('OPTIONS', f0, v, [('Origin', 'http://o'), ('Connection', cn)]),
              lambda cn, v: G.req('POST', URLENC, v, [CT_URL, ('Content-Length', '7'), ('Connection', cn)], b'a=1&b=2'), lambda cn, v: G.req('POST', URLENC, v, [CT_URL, ('Content-Length', '3'), ('Connection', cn)], b'a=1&b=2'),
              lambda cn, v: G.req('POST', MULTIP, v, [CT_MP, ('Content-Length', str(len(MP_ONE))), ('Connection', cn)], MP_ONE), lambda cn, v: G.req('POST', '/file-upload/initiate?name=a&lastModified=1&size=2', v, [('Content-Length', '0'), ('Connection', cn)]),
              lambda cn, v: G.req('GET', '/missing', v, [('Connection', cn)]), lambda cn, v: G.req('GET', 'x', v, [('Connection', cn)]), lambda cn, v: G.req('PUT', '/x', v, [('Content-Length', '1'), ('Connection', cn)], b'1'),
              lambda cn, v: G.req('GET', '/', v, [('Connection', cn), ('Keep-Alive', 'timeout=5, max=1000')])]
    seconds = second_requests()
    k = 0
    for ci, cn in enumerate(CONNECTIONS):
        for vi, v in enumerate(('HTTP/1.1', 'HTTP/1.0')):
            for fi, first in enumerate(firsts):
                picks = seconds if tier != 'quick' else ([_rot(seconds, ci + 3 * fi + vi), rng.choice(seconds)] if ci >= 3 else [seconds[0], seconds[1], _rot(seconds, k), rng.choice(seconds)])
                for snd in picks:
                    k += 1
                    cases.append(K.mk(tree, '?', '?', raw=first(cn, v) + snd, entry=alt(), kind='pipelining'))
    # every follower after every first request, keep-alive on HTTP/1.1 (what a client that pipelines sends)
    for fi, first in enumerate(firsts):
        for si, snd in enumerate(seconds):
            for e in (ENTRIES if tier != 'quick' else (alt(),)):
                cases.append(K.mk(tree, '?', '?', raw=first('keep-alive', 'HTTP/1.1') + snd, entry=e, kind='pipelining'))
    # a peer that reads slowly / stops reading while two answers would be due
    for ws, fl in (('c:1', 'ok'), ('c:64', 'ok'), ('s:17.0', 'ok'), ('e:0', 'ok'), ('e:1', 'ok'), ('all', 'e')):
        for fi in (0, 3, 7):
            for e in ENTRIES:
                cases.append(K.mk(tree, '?', '?', raw=firsts[fi]('keep-alive', 'HTTP/1.1') + G.req('GET', f1), entry=e, ws=ws, flush=fl, kind='transport:pipelining'))
    return cases

# ------------------------------------------------------------------ N6: Transfer-Encoding x the shape of the bytes after the head
TRANSFER_ENCODINGS = ['chunked', 'Chunked', 'CHUNKED', 'gzip, chunked', 'chunked, gzip', 'chunked, chunked', 'identity', 'gzip', 'deflate', '', ' ', 'chunked;q=1', ' chunked ', 'chunked,', ',chunked', 'x' * 3000, 'chunked\x00', 'chünked', 'chunke', 'chunkedx', 'trailers']

def chunk_bodies(payload, room):
    n = len(payload)
    hx_ = b'%x' % n
    ok = hx_ + b'\r\n' + payload + b'\r\n0\r\n\r\n'
    half = n // 2
    out = [ok, b'%x\r\n' % half + payload[:half] + b'\r\n' + b'%x\r\n' % (n - half) + payload[half:] + b'\r\n0\r\n\r\n', hx_ + b';ext=1\r\n' + payload + b'\r\n0\r\n\r\n', hx_ + b';ext="a;b"\r\n' + payload + b'\r\n0;x\r\n\r\n',
           hx_ + b'\r\n' + payload + b'\r\n0\r\nX-Trailer: v\r\n\r\n', hx_ + b'\r\n' + payload + b'\r\n0\r\nContent-Length: 99\r\n\r\n', hx_ + b'\n' + payload + b'\n0\n\n', hx_ + b'\r\n' + payload + b'\r\n', hx_ + b'\r\n' + payload + b'\r\n0\r\n',
           hx_ + b'\r\n' + payload + b'\r\n0', hx_ + b'\r\n' + payload, hx_ + b'\r\n' + payload[:-1], hx_ + b'\r\n', hx_, b'', b'0\r\n\r\n', b'0\r\n', b'0', b'00000000000000000000\r\n\r\n', b'0\r\n\r\n' + ok, hx_ + b'\r\n' + payload + b'0\r\n\r\n',
           hx_ + b'\r\n' + payload + b'\r\n\r\n0\r\n\r\n', hx_ + b'\r\n' + payload + b'XX0\r\n\r\n', hx_.upper() + b'\r\n' + payload + b'\r\n0\r\n\r\n', b'0x' + hx_ + b'\r\n' + payload + b'\r\n0\r\n\r\n', b'-' + hx_ + b'\r\n' + payload + b'\r\n0\r\n\r\n',
           b'+' + hx_ + b'\r\n' + payload + b'\r\n0\r\n\r\n', hx_ + b' \r\n' + payload + b'\r\n0\r\n\r\n', b' ' + hx_ + b'\r\n' + payload + b'\r\n0\r\n\r\n', b'\r\n' + ok, b'g\r\n' + payload + b'\r\n0\r\n\r\n', b'\r\n\r\n', '٧\r\n'.encode() + payload + b'\r\n0\r\n\r\n',
           'é\r\n'.encode() + payload, b'%d\r\n' % n + payload + b'\r\n0\r\n\r\n', b'1\r\nx\r\n' * min(room // 6, 1600) + b'0\r\n\r\n', b'1\r\nx\r\n' * 20, b'0;' + b'e' * 3000 + b'\r\n\r\n', b'f' * 3000 + b'\r\n', payload]
    # a declared size relative to the data that is there / to the room left in the buffer
    for sz in (n - 1, n + 1, n + 2, 2 * n, 0xff, 0xffff, room - 8, room, room + 1, 10000, 65536, 2**31 - 1, 2**31, 2**32 - 1, 2**32, 2**63 - 1, 2**63, 2**64 - 1, 2**64, 2**64 + n, 2**128):
        if sz >= 0: out.append(b'%x\r\n' % sz + payload + b'\r\n0\r\n\r\n')
    return out

def chunked(rng, tree, alt, tier):
    cases = []
    f0 = rng.choice(regular_files(tree))[0]
    routes = [('POST', URLENC, [CT_URL], b'a=1&b=2'), ('POST', MULTIP, [CT_MP], MP_ONE), ('GET', f0, [], b'body'), ('PUT', '/c04/new.txt', [], b'new content'), ('POST', '/file-upload/initiate?name=a&lastModified=1&size=2', [], b'0123456789')]
    for ri, (m, t, hs, payload) in enumerate(routes):
        room = 10000 - len(G.req(m, t, 'HTTP/1.1', list(hs) + [('Transfer-Encoding', 'chunked')]))
        bodies = chunk_bodies(payload, room)
        for ti, te in enumerate(TRANSFER_ENCODINGS):
            hn = 'Transfer-Encoding' if (ti + ri) % 4 else _rot(['transfer-encoding', 'TRANSFER-ENCODING', 'TE'], ti)
            cases.append(K.mk(tree, m, t, list(hs) + [(hn, te)], bodies[0], entry=alt(), kind='transfer-encoding'))
            if tier != 'quick' or ri < 2: cases.append(K.mk(tree, m, t, list(hs) + [(hn, te), ('Content-Length', str(len(payload)))], rng.choice(bodies), entry=alt(), kind='transfer-encoding'))
        for bi, body in enumerate(bodies):
            if tier == 'quick' and ri >= 2 and not rng.chance(1, 3): continue
            extra = _rot([[], [('Content-Length', str(len(body)))], [], [('Content-Length', str(len(payload)))], [('Connection', 'keep-alive')], [('Expect', '100-continue')], [('Trailer', 'X-Trailer')], [('TE', 'trailers')]], bi + ri)
            order = list(hs) + [('Transfer-Encoding', 'chunked')] + extra
            if rng.chance(1, 3): order = extra + list(hs) + [('Transfer-Encoding', 'chunked')]
            for e in (ENTRIES if (tier != 'quick' or ri == 0) else (alt(),)):
                cases.append(K.mk(tree, m, t, order, body, version=_rot(['HTTP/1.1'] * 5 + ['HTTP/1.0'], bi), entry=e, kind='chunked-body'))
    return cases

# ------------------------------------------------------------------ N8: what a proxy in front of the server adds
IPS = ['1.2.3.4', '1.2.3', '1.2.3.4.5', '256.1.1.1', '01.2.3.4', '1.2.3.4:80', '1.2.3.4:', ':80', '[::1]', '[::1]:80', '::1', '::', '[::1', '::1]', '[]', '::ffff:1.2.3.4', 'fe80::1%eth0', '[fe80::1%25eth0]:80', '2001:db8::1:65536', '[2001:db8::1]:65536',
       '1.2.3.4:65535', '1.2.3.4:65536', '1.2.3.4:-1', '1.2.3.4:99999999999999999999', '1.2.3.4:8o', 'unknown', '_hidden', '_', 'localhost', '', ' ', ',', ', ', ' , ', '1.2.3.4, 5.6.7.8', '1.2.3.4,5.6.7.8', ' 1.2.3.4 ', ',1.2.3.4', '1.2.3.4,', '1.2.3.4, ,5.6.7.8',
       '1.2.3.4, ' * 400 + '9.9.9.9', 'é', '１.２.３.４', '1.2.3.4\x00', '0x7f.1', '2130706433', '999999999999999999999', '-1', 'a' * 300, '1.2.3.4, [::1]:80, unknown', '"1.2.3.4"', '1.2.3.4;x', '1.2.3.4/24', '127.0.0.1', '0.0.0.0', '255.255.255.255', '1.2.3.256',
       '1..3.4', '.1.2.3', '1.2.3.4.', ':::', '1:2:3:4:5:6:7:8:9', 'g::1', '[::1]x', '[::1]:80:80']
FORWARDED = ['for=1.2.3.4', 'for="[::1]:80"', 'for="[::1]"', 'for=[::1]', 'For=1.2.3.4;Proto=https;By=5.6.7.8', 'for=1.2.3.4;proto=https;host=a:80;by=_x', 'for=1.2.3.4, for=5.6.7.8', 'for=1.2.3.4,for=5.6.7.8', 'for=', 'for', '=', ';', ';;', ',', 'for="', 'for="a',
             'for=";"', 'for=","', 'for=_x;host="a:b"', 'proto=', 'host=', 'by=', 'for=1.2.3.4;for=5.6.7.8', 'for=unknown', 'FOR=1.2.3.4', 'for = 1.2.3.4', ' for=1.2.3.4 ', 'for=1.2.3.4;', ';for=1.2.3.4', 'for=1.2.3.4;' * 300, 'for=1.2.3.4, ' * 300 + 'for=9.9.9.9',
             'for="\\""', 'for="a\\', 'for=é', 'for="[::1]:99999999"', 'for="[::1"', 'for=1.2.3.4:80', 'host=é.example', 'proto=' + 'x' * 3000, '', ' ']
PROXY_NAMES = ['X-Forwarded-For', 'X-Real-IP', 'x-forwarded-for', 'X-FORWARDED-FOR', 'CF-Connecting-IP', 'True-Client-IP', 'X-Client-IP', 'X-Cluster-Client-IP', 'Via']

def proxy_headers(rng, tree, alt, tier):
    cases = []
    f0 = rng.choice(regular_files(tree))[0]
    targets = [f0, '/', '/c04/dir', '/c04/dir/', '/missing', '/form-get-method?a=1', URLENC]
    k = 0
    for ii, ip in enumerate(IPS):
        for ni, hn in enumerate(PROXY_NAMES if tier != 'quick' else PROXY_NAMES[:2] + [_rot(PROXY_NAMES[2:], ii)]):
            k += 1
            m, t = _rot(['GET', 'GET', 'HEAD', 'OPTIONS', 'POST'], k), _rot(targets, k)
            hs, body = ([CT_URL], b'a=1') if t == URLENC else ([], b'')
            for e in (ENTRIES if ni == 0 else (alt(),)):
                cases.append(K.mk(tree, 'POST' if t == URLENC else m, t, hs + [(hn, ip)], body, entry=e, kind='proxy:address'))
    for fi, fw in enumerate(FORWARDED):
        for e in ENTRIES:
            cases.append(K.mk(tree, _rot(['GET', 'HEAD', 'OPTIONS'], fi), _rot(targets[:5], fi), [(_rot(['Forwarded', 'Forwarded', 'forwarded', 'FORWARDED'], fi), fw)], entry=e, kind='proxy:forwarded'))
    # several of them on one request: they agree, they disagree, one of them is junk, the list is longer than the chain of Via
    combos = [[('X-Forwarded-For', '1.2.3.4'), ('X-Forwarded-Port', '80'), ('X-Forwarded-Proto', 'https'), ('X-Forwarded-Host', 'a.example')], [('X-Forwarded-For', '1.2.3.4'), ('X-Forwarded-Port', '')], [('X-Forwarded-For', ''), ('X-Forwarded-Port', '80')],
              [('X-Forwarded-For', '[::1]'), ('X-Forwarded-Port', '65536')], [('X-Forwarded-For', '1.2.3.4'), ('X-Forwarded-For', '5.6.7.8')], [('X-Forwarded-For', '1.2.3.4'), ('Forwarded', 'for=5.6.7.8')], [('Forwarded', 'for=1.2.3.4'), ('Forwarded', 'for="[::1]:1"')],
              [('X-Forwarded-For', '1.2.3.4, 5.6.7.8, 9.9.9.9'), ('Via', '1.1 a')], [('X-Forwarded-For', '1.2.3.4'), ('Via', '1.1 a, 1.1 b, 1.0 c')], [('X-Forwarded-Proto', 'https'), ('X-Forwarded-Host', '')], [('X-Forwarded-Proto', ''), ('X-Forwarded-Host', 'a')],
              [('X-Forwarded-Host', 'a:99999'), ('Host', 'b')], [('X-Forwarded-Host', '[::1]:80'), ('X-Forwarded-Proto', 'ws')], [('X-Forwarded-Proto', 'https,http'), ('X-Forwarded-Host', 'a, b')], [('X-Forwarded-Proto', 'x' * 300), ('X-Forwarded-Host', 'é')],
              [('X-Forwarded-Prefix', '/app'), ('X-Forwarded-Host', 'a')], [('X-Forwarded-Prefix', 'app/../..'), ('X-Forwarded-Proto', 'https')], [('X-Real-IP', '1.2.3.4'), ('X-Forwarded-For', 'junk')], [('X-Real-IP', 'junk'), ('X-Forwarded-For', '1.2.3.4')],
              [('Max-Forwards', '0'), ('Via', '1.1 a')], [('Max-Forwards', '0')], [('Max-Forwards', '1'), ('Via', '')], [('Via', '1.1 a' + ', 1.1 a' * 500)], [('Via', ''), ('X-Forwarded-For', '')], [('X-Forwarded-Ssl', 'on'), ('X-Forwarded-Proto', 'http')],
              [('X-Forwarded-For', '1.2.3.4'), ('Origin', 'http://o')], [('X-Forwarded-Host', 'o'), ('Origin', 'http://o'), ('Host', 'h')], [('X-Original-URL', '/c04/ten.txt')], [('X-Rewrite-URL', '/../secret.txt')], [('X-Original-URL', 'x')], [('X-HTTP-Method-Override', 'DELETE')],
              [('X-HTTP-Method-Override', 'get')], [('X-HTTP-Method-Override', '')], [('X-Method-Override', 'é')]]
    for ci, hs in enumerate(combos):
        for m in ('GET', 'HEAD', 'OPTIONS', 'POST', 'TRACE'):
            for tg in (targets if tier != 'quick' else [_rot(targets, ci), rng.choice(targets)]):
                cases.append(K.mk(tree, m, tg, hs, entry=alt(), kind='proxy:combination'))
    return cases

# ------------------------------------------------------------------ N9: Host x the kind of target (a redirect / a link built from it)
HOSTS = ['localhost', 'localhost:7878', 'LOCALHOST', 'localhost.', 'localhost:', ':7878', ':', 'localhost:0', 'localhost:65535', 'localhost:65536', 'localhost:-1', 'localhost:' + '9' * 45, 'localhost:7878:1', 'localhost:abc', 'localhost: 80', 'localhost :80',
         '[::1]', '[::1]:7878', '[::1', '::1', '[::1]:', '[]', '[]:80', '[::1]:x', 'user@localhost', 'user:pw@localhost:80', '@', 'a b', 'a/b', 'a/../b', 'http://a', 'http://a/', 'a?b', 'a#b', 'é.example', 'xn--e1afmkfd.xn--p1ai', 'a' * 255 + '.example', 'a.' * 127,
         '1.2.3.4', '1.2.3.4:80', '', ' ', '\t', 'localhost\x00', 'local\x07host', '%6c', '*', '-', '.', '..', '...', 'localhost,localhost', 'localhost, other', 'a' * 5000, 'İ.example', 'ß.example', 'localhost\r', 'a:80\rX: y', '"localhost"', '<script>', '/', '//', '\\']

def host_shapes(rng, tree, alt, tier):
    cases = []
    f0 = rng.choice(regular_files(tree))[0]
    targets = ['/c04/dir', '/c04/dir/', '/c04', f0, '/', '/missing', '/c04/dir?x=1', '/c04/dir#f', '/c04/pg', '/c04/nodir', 'http://h/c04/ten.txt', 'http://localhost:7878/', '//c04/dir', '/c04/dir/index.html', URLENC]
    for hi, h in enumerate(HOSTS):
        for ti, tg in enumerate(targets if tier != 'quick' else targets[:2] + [_rot(targets[2:], hi), rng.choice(targets[2:])]):
            m = _rot(['GET', 'GET', 'HEAD', 'OPTIONS', 'POST'], hi + ti)
            hn = 'Host' if (hi + ti) % 7 else _rot(['host', 'HOST'], hi)
            cases.append(K.mk(tree, m, tg, [(hn, h)], entry=alt(), kind='host-x-target'))
    for tg in targets:
        for v in ('HTTP/1.1', 'HTTP/1.0', 'HTTP/0.9', 'HTTP/2.0'):
            for m in ('GET', 'HEAD', 'OPTIONS'):
                cases.append(K.mk(tree, m, tg, [], version=v, entry=alt(), kind='host-x-target'))                                                        # no Host at all
                cases.append(K.mk(tree, m, tg, [('Host', 'a'), ('Host', 'b')] if m != 'HEAD' else [('Host', 'a'), ('host', 'a:80'), ('HOST', '')], version=v, entry=alt(), kind='host-x-target'))
    return cases

# ------------------------------------------------------------------ N10: credentials, cookies, integrity fields, protocol switches
B64 = ['', 'Z', 'Zg', 'Zg=', 'Zg==', 'Zm8', 'Zm8=', 'Zm9v', 'Zm9vYg==', 'Zm9vYmE=', 'Zm9vYmFy', 'dXNlcjpwYXNz', 'dXNlcg==', 'Og==', 'dXNlcjo=', 'OnBhc3M=', 'dXNlcjpwYTpzcw==', '/w==', '//8=', 'w6k6w6k=', 'wyg=', 'AA==', 'AAAA', 'Zg===', '=', '==', '===', '====', 'Z=g=', 'Zg=a',
       'Zm9v\x00', 'Zm 9v', ' Zm9v', 'Zm9v ', 'Zm-_', 'Zm+/', 'Zm9v!', 'é', 'Zmé=', 'A' * 4000, 'A' * 4001, 'A' * 4002, 'A' * 4003, 'dGhlIHNhbXBsZSBub25jZQ==', 'dGhlIHNhbXBsZSBub25jZQ=', 'dGhlIHNhbXBsZSBub25jZQ', 'dGhlIHNhbXBsZSBub25jZWE=', '"Zm9v"', ':Zm9v:', '::']
COOKIES = ['a=b', 'a=b; c=d', 'a=b;c=d', 'a', 'a; b', '=b', 'a=', '=', ';', ';;', '; ', 'a=b;', 'a=b; ', ' a=b', 'a="b"', 'a="b', 'a=b"', 'a=b=c', 'a=b; a=c', 'A=b; a=c', '$Version=1; a=b; $Path=/', 'a=b, c=d', 'a=%zz', 'a=%', 'a=%c3', 'a=é', 'é=a', 'a=b;;c=d', 'a=b; ; c=d',
           'sid=' + 'x' * 4092, 'sid=' + 'x' * 4093, 'sid=' + 'x' * 4096, 'a=b; ' * 600 + 'z=1', '; '.join('c%d=v' % i for i in range(300)), 'a=\x00', 'a=b\x00; c=d', '', ' ', '__Host-a=b', '__Secure-a=b', 'a=b; Path=/; HttpOnly', 'session=eyJhIjoxfQ==.sig', 'session=.', 'session=..',
           'a=' + 'é' * 1000, 'a' + 'é' * 1000 + '=1']
AUTHS = ['Basic', 'Basic ', 'Basic  ', 'Basic\t', 'basic', 'BASIC', 'Bearer', 'Bearer ', 'bearer', 'Digest', 'Negotiate', 'NTLM', '', ' ', 'Basic,', 'Basic=', 'Basic Basic', 'Token token=', 'é']
DIGESTS = ['Digest username="a", realm="b", nonce="", uri="/", response="x"', 'Digest username="a', 'Digest ,', 'Digest =', 'Digest username=a,username=b', 'Digest username="a", nc=00000001, qop=auth', 'Digest nc=ffffffffffffffffff', 'Digest username="é"', 'Digest ' + 'a="b", ' * 500,
           'Digest username="a"realm="b"', 'Digest username', 'Digest username=', 'Digest ="a"', 'Digest username="a\\"b"', 'Digest uri="' + '/' * 3000 + '"']

def credentials(rng, tree, alt, tier):
    cases = []
    f0 = rng.choice(regular_files(tree))[0]
    targets = [f0, '/', '/missing', '/c04/dir/', '/form-get-method?a=1']
    k = 0
    for si, scheme in enumerate(AUTHS):
        for bi, v in enumerate(B64 if (tier != 'quick' or si < 2) else [_rot(B64, si * 5 + j) for j in range(5)]):
            k += 1
            sep = ' ' if scheme and not scheme.endswith((' ', '\t', ',', '=')) else ''
            hn = _rot(['Authorization', 'Authorization', 'Proxy-Authorization', 'authorization', 'AUTHORIZATION'], k)
            for e in (ENTRIES if si == 0 else (alt(),)):
                cases.append(K.mk(tree, _rot(['GET', 'HEAD', 'OPTIONS', 'POST', 'PUT', 'DELETE'], k), _rot(targets, k), [(hn, scheme + sep + v)], entry=e, kind='credentials:authorization'))
    for di, d in enumerate(DIGESTS):
        cases.append(K.mk(tree, _rot(['GET', 'HEAD', 'POST'], di), _rot(targets, di), [('Authorization', d)], entry=alt(), kind='credentials:authorization'))
    cases.append(K.mk(tree, 'GET', f0, [('Authorization', 'Basic dXNlcjpwYXNz'), ('Authorization', 'Bearer x')], entry=alt(), kind='credentials:authorization'))
    cases.append(K.mk(tree, 'GET', f0, [('Authorization', 'Basic dXNlcjpwYXNz'), ('Proxy-Authorization', 'Basic /w==')], entry=alt(), kind='credentials:authorization'))
    for ci, ck in enumerate(COOKIES):
        for e in ENTRIES:
            cases.append(K.mk(tree, _rot(['GET', 'GET', 'HEAD', 'OPTIONS', 'POST'], ci), _rot(targets, ci), [(_rot(['Cookie', 'Cookie', 'cookie', 'COOKIE'], ci), ck)], entry=e, kind='credentials:cookie'))
        cases.append(K.mk(tree, 'GET', f0, [('Cookie', ck), ('Cookie', 'a=b')], entry=alt(), kind='credentials:cookie'))
    # a digest of the body next to the body: it matches / does not / is not base64 / names an unknown algorithm
    import hashlib, base64
    body = b'a=1&b=2'
    md5, sha = base64.b64encode(hashlib.md5(body).digest()).decode(), base64.b64encode(hashlib.sha256(body).digest()).decode()
    digs = [('Content-MD5', md5), ('Content-MD5', md5[:-1]), ('Content-MD5', md5.lower()), ('Digest', 'sha-256=' + sha), ('Digest', 'SHA-256=' + sha), ('Digest', 'md5=' + md5 + ',sha-256=' + sha), ('Content-Digest', 'sha-256=:' + sha + ':'), ('Content-Digest', 'sha-256=:' + sha),
            ('Content-Digest', 'sha-256=' + sha + ':'), ('Content-Digest', 'sha-256=::'), ('Content-Digest', 'sha-256=:'), ('Content-Digest', 'sha-256='), ('Content-Digest', 'sha-256'), ('Content-Digest', '=::'), ('Content-Digest', 'sha-512=:' + sha + ':'),
            ('Repr-Digest', 'sha-256=:' + sha + ':, md5=:' + md5 + ':'), ('Want-Content-Digest', 'sha-256=10, md5=0'), ('Want-Content-Digest', 'sha-256=NaN'), ('Content-Digest', 'sha-256=:' + 'A' * 4000 + ':')]
    digs += [('Content-MD5', v) for v in B64] + [('Content-Digest', 'sha-256=:' + v + ':') for v in (B64 if tier != 'quick' else B64[::3])]
    for di, (hn, v) in enumerate(digs):
        for m, t, hs, bd in ((('POST', URLENC, [CT_URL], body),) if tier == 'quick' and di % 3 else (('POST', URLENC, [CT_URL], body), ('POST', URLENC, [CT_URL], b'a=1&b=3'), ('GET', f0, [], b''), ('PUT', '/c04/new.txt', [], body))):
            cases.append(K.mk(tree, m, t, hs + [(hn, v)], bd, entry=alt(), kind='credentials:digest'))
    # a protocol switch: Upgrade with / without the Connection token it needs, the key and the version next to it
    ups = ['websocket', 'WebSocket', 'WEBSOCKET', 'h2c', 'HTTP/2.0', 'TLS/1.0, HTTP/1.1', 'websocket, h2c', '', ' ', ',', 'websocket/13', 'é', 'x' * 3000]
    for ui, up in enumerate(ups):
        for conn in ('Upgrade', 'upgrade', 'keep-alive, Upgrade', 'close', None):
            for ki, key in enumerate(B64 if tier != 'quick' else ['dGhlIHNhbXBsZSBub25jZQ==', None, _rot(B64, ui * 5 + (0 if conn is None else len(conn))), rng.choice(B64)]):
                hs = [('Upgrade', up)] + ([('Connection', conn)] if conn is not None else []) + ([('Sec-WebSocket-Key', key)] if key is not None else []) + [('Sec-WebSocket-Version', _rot(['13', '13', '8', '', 'x', '256', '13, 8', '-1'], ui + ki))]
                if up == 'h2c' or 'HTTP/2' in up: hs.append(('HTTP2-Settings', key or ''))
                if rng.chance(1, 3): hs = hs[::-1]
                cases.append(K.mk(tree, _rot(['GET', 'GET', 'POST', 'OPTIONS', 'HEAD', 'CONNECT'], ui + ki), _rot(['/', f0, '/ws', '/missing'], ki), hs, entry=alt(), kind='credentials:upgrade'))
    return cases

# ------------------------------------------------------------------ N11: proactive negotiation (quality values, lists) x the type of the file
def negotiation(rng, tree, alt, tier):
    cases = []
    f0 = rng.choice(regular_files(tree))[0]
    targets = [f0, '/c04/ten.txt', '/c04/pg', '/c04/dir/', '/c04/r300.bin', '/c04/été.txt', '/', '/missing', '/style.css']
    accepts = ['text/html', '*/*', 'text/*', 'text/plain', 'text/plain;q=0', '*/*;q=0', 'image/png', 'image/*', 'text/html;level=1;q=0.5', 'text/html; charset="utf-8"', 'text', '/', 'text/', '/html', 'a/b/c', ';', ',', '', ' ', 'text/html, */*;q=0.1',
               'text/plain;q=0, */*;q=0', 'text/plain;q=1, text/plain;q=0', 'TEXT/PLAIN', 'text/plain;Q=1', 'text/plain;q=NaN, text/html;q=0.5', 'text/html;q=nan,*/*;q=nan', 'text/plain;q=inf', 'text/plain;q=', 'text/plain;q', 'text/plain;q=1.0000', 'text/plain;q=-1',
               'text/plain;q=2', 'text/plain;q=1e400', 'text/plain;q=0.0005', ', '.join('a/b%d;q=0.%d' % (i, i % 10) for i in range(300)), 'text/plain' + ';x=y' * 600, 'text/plain;q=0.5;q=0.7', 'é/é', 'text/plain\x00', '*', '*/plain', 'text/html,', ',text/html',
               'text/html;q="1"', 'text/html;q=1;ext', 'application/octet-stream', 'application/octet-stream;q=0', 'text/plain;q=0.5, */*;q=0.5']
    langs = ['en', 'en-US', 'en-US,en;q=0.9', '*', '*;q=0', 'en;q=0', 'en;q=NaN, de;q=0.5', 'EN', 'e', 'en-', '-US', 'en_US', 'i-klingon', 'zh-Hant-TW', 'x' * 3000, 'en' + ', de' * 600, '', ' ', ',', 'é', 'en;q=', 'en;q', 'en;q=2', 'en-US-x-' + 'a-' * 500 + 'b']
    for ai, a in enumerate(accepts):
        for e in ENTRIES:
            cases.append(K.mk(tree, _rot(['GET', 'GET', 'HEAD', 'OPTIONS', 'POST'], ai), _rot(targets, ai), [(_rot(['Accept', 'Accept', 'accept', 'ACCEPT'], ai), a)], entry=e, kind='negotiation:accept'))
        cases.append(K.mk(tree, 'GET', _rot(targets, ai + 1), [('Accept', a), ('Range', 'bytes=0-0')], entry=alt(), kind='negotiation:accept'))
    for li, l in enumerate(langs):
        cases.append(K.mk(tree, _rot(['GET', 'HEAD'], li), _rot(targets, li), [('Accept-Language', l)], entry=alt(), kind='negotiation:other'))
        cases.append(K.mk(tree, 'GET', _rot(targets, li), [(_rot(['Accept-Charset', 'TE', 'Accept-Ranges', 'Prefer', 'Priority', 'Accept-CH', 'Sec-CH-UA', 'Sec-CH-UA-Mobile', 'Sec-Fetch-Dest', 'Sec-Fetch-Mode', 'Save-Data', 'Cache-Control', 'Pragma'], li), _rot(accepts + langs, li * 7))], entry=alt(), kind='negotiation:other'))
    for v in ['return=minimal', 'return=representation', 'respond-async, wait=10', 'wait=-1', 'wait=99999999999999999999', 'handling=lenient', 'return', '=', ';', '', 'return=minimal; foo="a;b"', 'RETURN=MINIMAL', 'return=minimal, return=representation', 'wait=1.5', 'wait=']:
        for m, t, hs, bd in (('GET', f0, [], b''), ('POST', URLENC, [CT_URL], b'a=1'), ('PUT', '/c04/new.txt', [], b'x'), ('HEAD', f0, [], b'')):
            cases.append(K.mk(tree, m, t, hs + [('Prefer', v)], bd, entry=alt(), kind='negotiation:other'))
    for v in ['no-cache', 'no-store', 'max-age=0', 'max-age=-1', 'max-age=99999999999999999999', 'max-age=', 'max-age', 'only-if-cached', 'max-stale', 'max-stale=NaN', 'min-fresh=1e400', 'no-cache, no-store, max-age=0', 'NO-CACHE', '', ',', '=', 'max-age="5"', 'max-age=5, max-age=6']:
        for m in ('GET', 'HEAD'):
            cases.append(K.mk(tree, m, _rot(targets, len(v)), [('Cache-Control', v)] + ([('Pragma', 'no-cache')] if len(v) % 2 else []) + ([('If-None-Match', '*')] if len(v) % 3 == 0 else []), entry=alt(), kind='negotiation:other'))
    return cases

# ------------------------------------------------------------------ N13: files around the sizes a fast path / a streaming path / a 32-bit counter switches at
THRESHOLDS = [4095, 4096, 4097, 8191, 8192, 8193, 16384, 32768, 65535, 65536, 65537, 131072]
BIG = 1000000
# Regression of F77 (found by this audit, repaired): Log::request_response added the size of the FILE once per range part into an i32; 2 148 parts of a
# 1 000 000-byte file exceed i32::MAX and the addition panicked (overflow checks on) before anything was written.  The inputs always run.
WITH_OPEN_FINDINGS = True

def size_batches(rng, tier):
    t = S.Tree(b'lvl0/root')
    root = t.cwd + b'/'
    t.file(b'lvl0/secret.txt', S.marker(b'lvl0/secret.txt'))
    for n in THRESHOLDS: t.file(root + b'sz/f%d.bin' % n, bytes((j * 29 + n + (j >> 8)) & 0xff for j in range(n)))
    t.file(root + b'sz/big.bin', bytes((j * 7 + (j >> 8) + (j >> 16)) & 0xff for j in range(BIG)))
    t.file(root + b'sz/big/index.html', b'<p>' + b'i' * 70000 + b'</p>').file(root + b'sz/bigpage.html', b'<p>' + b'h' * 70000 + b'</p>')
    t.link(root + b'sz/big.lnk', b'big.bin')
    t.names = []
    alt = Alt(0)
    cases = []
    for n in THRESHOLDS + [BIG]:
        tg = '/sz/f%d.bin' % n if n != BIG else '/sz/big.bin'
        rs = [None, 'bytes=0-0', f'bytes={n - 1}-', f'bytes={n - 1}-{n - 1}', f'bytes={n - 1}-{n}', f'bytes={n}-', 'bytes=-1', f'bytes=-{n}', f'bytes=-{n + 1}', f'bytes=0-{n - 1}', f'bytes=0-{n - 2}', f'bytes=1-', 'bytes=4095-4096', 'bytes=4096-', 'bytes=-4096', 'bytes=0-4095',
              'bytes=0-65535', 'bytes=65535-65536', 'bytes=0-0,4096-4096', f'bytes=0-0,{n - 1}-', f'bytes=0-{n - 1},0-{n - 1}']
        for ri, r in enumerate(rs):
            if n == BIG and r is not None and (r.count('0-' + str(n - 1)) > 1): continue
            for m in (('GET', 'HEAD', 'OPTIONS') if (r is None or tier != 'quick') else (_rot(['GET', 'GET', 'GET', 'HEAD'], ri),)):
                cases.append(K.mk(t, m, tg, [('Range', r)] if r else [], entry=alt(), kind='size-threshold'))
        for ws in ('c:4096', 'c:65536', 's:4096.0', 's:1.1.1', 'e:1'):
            cases.append(K.mk(t, 'GET', tg, [], entry=alt(), ws=ws, kind='transport:size-threshold'))
    for tg in ('/sz/big/', '/sz/big', '/sz/bigpage', '/sz/big.lnk'):
        for r in (None, 'bytes=0-0', 'bytes=65536-', 'bytes=-1', 'bytes=0-0,70000-'):
            for m in ('GET', 'HEAD'):
                cases.append(K.mk(t, m, tg, [('Range', r)] if r else [], entry=alt(), kind='size-threshold'))
    # many parts of one big file: what is summed per part (lengths, sizes) stays below 2^31 here (2 147 x 1 000 000)
    for k in (2, 100, 1000, 2000, 2146, 2147):
        for e in ENTRIES:
            cases.append(K.mk(t, 'GET', '/sz/big.bin', [('Range', 'bytes=' + ','.join(['0-0'] * k))], entry=e, kind='many-parts-of-a-big-file'))
    cases.append(K.mk(t, 'GET', '/sz/big.bin', [('Range', 'bytes=' + ','.join('%d-%d' % (i * 400, i * 400 + 399) for i in range(900)))], entry=alt(), kind='many-parts-of-a-big-file'))
    cases.append(K.mk(t, 'HEAD', '/sz/big.bin', [('Range', 'bytes=' + ','.join(['0-0'] * 2147))], entry=alt(), kind='many-parts-of-a-big-file'))
    if WITH_OPEN_FINDINGS:
        for k in (2148, 2400):
            for e in ENTRIES:
                cases.append(K.mk(t, 'GET', '/sz/big.bin', [('Range', 'bytes=' + ','.join(['0-0'] * k))], entry=e, kind='many-parts-of-a-big-file', note='open-finding-i32-log-sum'))
    return [(t, cases)]

# ------------------------------------------------------------------ N12: histories - the same target again, under another method / range, and after the file behind it changed
def history_batches(rng, tier):
    """[(tree, cases)] run WITHOUT the model (it keeps no state between two requests): one process answers a sequence of requests for the same targets, the
    tree is rebuilt in place (`tree` line of the harness, same root) with the file shorter / empty / longer / gone / a directory / a dangling link, and the same
    sequence follows.  A cache or a remembered size that goes stale must still answer every connection."""
    out = []
    def base(root=None):
        t = S.Tree(b'lvl0/root')
        if root is not None: t.root = root
        r = t.cwd + b'/'
        t.file(b'lvl0/secret.txt', S.marker(b'lvl0/secret.txt'))
        t.file(r + b'h/other.txt', b'other file').file(r + b'h/sub/keep.txt', b'keep')
        t.names = []
        return t, r
    content = bytes((i * 13 + 1) & 0xff for i in range(300))
    def variant(kind, root):
        t, r = base(root)
        def put(name, c):
            if kind == 'gone': return
            if kind == 'dir': t.file(r + name + b'/inner.txt', b'inside'); return
            if kind == 'dangling': t.link(r + name, b'nowhere'); return
            if kind == 'link': t.link(r + name, b'other.txt'); return
            t.file(r + name, {'full': c, 'shorter': c[:10], 'one': c[:1], 'empty': b'', 'longer': c * 3, 'same-size': bytes(x ^ 0xff for x in c)}[kind])
        put(b'h/data.txt', content); put(b'h/d/index.html', b'<p>' + content[:200].hex().encode() + b'</p>'); put(b'h/page.html', b'<p>' + content[:100].hex().encode() + b'</p>')
        put(b'h/data.txt.gz', content[:50])
        if kind != 'gone': t.link(r + b'h/ln.txt', b'data.txt')
        t.dir(r + b'h/d')
        return t
    t0 = variant('full', None)
    def retree(kind):
        v = variant(kind, t0.root)
        c = K.mk(t0, '?', '?', raw=b'', kind='retree:' + kind)
        c.line = v.line()
        return c
    def sequence(tag):
        seq = []
        for tg in ('/h/data.txt', '/h/d/', '/h/d', '/h/page', '/h/ln.txt'):
            steps = [('GET', []), ('GET', []), ('HEAD', []), ('GET', [('Range', 'bytes=0-0')]), ('GET', [('Range', 'bytes=250-')]), ('GET', [('Range', 'bytes=-5')]), ('GET', [('Range', 'bytes=0-9,290-299')]), ('OPTIONS', [('Origin', 'http://o')]),
                     ('GET', [('Accept-Encoding', 'gzip')]), ('GET', [('If-None-Match', '*')]), ('GET', [('If-Modified-Since', IMF)]), ('HEAD', [('Range', 'bytes=299-')]), ('GET', [('Range', 'bytes=11-')]), ('GET', [])]
            if tier == 'quick': steps = steps[:8] + [rng.choice(steps[8:]), steps[-1]]
            for m, hs in steps:
                seq.append(K.mk(t0, m, tg, hs, entry=_rot(ENTRIES, len(seq) + len(tag)), kind='history:' + tag))
        return seq
    cases = sequence('first')
    for kind in ('shorter', 'full', 'empty', 'full', 'one', 'longer', 'gone', 'full', 'dir', 'full', 'dangling', 'full', 'link', 'same-size'):
        cases.append(retree(kind))
        cases += sequence('after-' + kind)
    out.append((t0, cases))
    return out

# ------------------------------------------------------------------ collection of the second pass
GROUPS2 = [cut_anywhere, conditionals, numeric_headers, expect_and_length, pipelining, chunked, proxy_headers, host_shapes, credentials, negotiation]

def feature_batches(rng, tier):
    out = []
    for rep in range(1 if tier == 'quick' else 2):
        for gi, g in enumerate(GROUPS2):
            r = rng.fork(f'{g.__name__}:{rep}')
            tree = prepare_tree(r, small=(rep == 0))
            out.append((tree, g(r, tree, Alt(gi + rep), tier)))
    out += sidecar_batches(rng.fork('sidecars'), tier)
    out += size_batches(rng.fork('sizes'), tier)
    return out

def feature_config_batches(rng, tier):
    """[(env pairs, tree, cases)]: the requests of the second pass that carry a body or a second request, with a request buffer so small that it ends
    inside the head, inside the body, inside a chunk, inside the second request (the buffer size is configuration: 256 and 1 000 bytes)"""
    out = []
    for ai, alloc in enumerate((256, 1000) if tier == 'quick' else (64, 256, 257, 1000, 4096)):
        d = dict(S.DEFAULT_ENV)
        d['RWS_CONFIG_REQUEST_ALLOCATION_SIZE_IN_BYTES'] = str(alloc)
        r = rng.fork(f'feature-config:{alloc}')
        t = prepare_tree(r)
        cases = []
        for g in (expect_and_length, pipelining, chunked, conditionals, credentials):
            cs = [c for c in g(r.fork(g.__name__), t, Alt(ai), 'quick') if c.ws == 'all' and c.flush == 'ok']
            if tier == 'quick':
                r.shuffle(cs)
                cs = cs[:150]
            for c in cs:
                cases.append(K.mk(t, c.method, c.target, raw=c.raw, entry=c.entry, app=c.app, alloc=alloc, kind='config:buffer-%d-x-%s' % (alloc, c.kind.split(':')[0])))
        out.append((list(d.items()), t, cases))
    return out

# ------------------------------------------------------------------ N14: the process after many requests (what one answer path keeps open adds up)
FD_LIMIT = 192          # soft limit of open files the harness processes run under (props/c04.py lowers it): a leaked descriptor per request shows within REPEATS
REPEATS = FD_LIMIT + 32

def repeat_batches(rng, tier):
    """every answer path that touches the file system, REPEATS times through each entry point in ONE process, interleaved (a path that forgets to close what it
    opened runs out of descriptors and can no longer answer: 404 / 500 instead of 200 at best, an unwrap on the failed open at worst)"""
    paths = [('GET', '/c04/ten.txt', []), ('HEAD', '/c04/ten.txt', []), ('OPTIONS', '/c04/ten.txt', [('Origin', 'http://o')]), ('GET', '/c04/r300.bin', [('Range', 'bytes=1-100')]), ('GET', '/c04/r300.bin', [('Range', 'bytes=0-9,20-29,290-')]),
             ('GET', '/c04/ten.txt', [('Range', 'bytes=50-')]), ('GET', '/c04/dir/', []), ('GET', '/c04/dir', [('Range', 'bytes=0-0')]), ('GET', '/c04/pg', []), ('GET', '/c04/ln.txt', []), ('GET', '/missing', []), ('GET', '/c04/empty.bin', []),
             ('GET', '/', []), ('GET', '/style.css', []), ('GET', '/c04/nodir/', []), ('GET', '/c04/ten.txt', [('Accept-Encoding', 'gzip'), ('If-None-Match', '*')])]
    out = []
    per = 4
    for bi in range(0, len(paths), per):
        t = prepare_tree(rng.fork(f'repeat:{bi}'))
        cases = []
        for k in range(REPEATS):
            for m, tg, hs in paths[bi:bi + per]:
                for e in ENTRIES:
                    cases.append(K.mk(t, m, tg, hs, entry=e, kind='repeated-in-one-process'))
        out.append((t, cases))
    return out
