"""C04 generator extension (audit of the input classes a defect in the anchored code can hinge on).

Every group below is a deterministic function of the seeded PRNG passed in and returns a list of
servecheck.Case.  Groups are collected by `extra_batches` into batches of their own (own trees,
run in parallel with the batches of props/c04.py), `config_batches` returns batches that run under
another configuration (env).  See /tmp/a/C04/AUDIT.md for the class table."""
from vlib import common as C, serve as S, reqgen as G, servecheck as K

ENTRIES = ('proc', 'preq')
URLENC = '/form-url-encoded-enctype-post-method'
MULTIP = '/form-multipart-enctype-post-method'
CT_URL = ('Content-Type', 'application/x-www-form-urlencoded')
CT_MP = ('Content-Type', 'multipart/form-data; boundary=B')
MP_ONE = b'--B\r\nContent-Disposition: form-data; name="a"\r\n\r\nv\r\n--B--\r\n'

class Alt:
    """deterministic alternation between the two entry points: item k of a list gets entry (k + phase) % 2, the phase moves with
    the tree index, so that over the trees of one run every item of every fixed list is sent through BOTH entry points"""
    def __init__(self, phase=0): self.k = phase
    def __call__(self):
        self.k += 1
        return ENTRIES[self.k % 2]

def b(x):
    return x if isinstance(x, bytes) else x.encode('utf-8', 'surrogateescape')

def regular_files(tree):
    """(target, content) of the regular files under the root that a plain GET reaches by their own name"""
    out = []
    for rel, content in sorted(tree.under_root().items()):
        if any(ch in rel for ch in b' ?#%\\'): continue
        out.append(('/' + rel.decode('utf-8', 'surrogateescape'), content))
    return out

def prepare_tree(rng, small=True):
    """a generated tree plus the fixed shapes the groups below rely on: files of 0, 1, 2, 10 and 300 bytes, a directory with an
    index page, an extension-less page (page -> page.html), a link to a file, a directory without index"""
    t = S.gen_tree(rng, small=small)
    root = t.cwd + b'/'
    t.file(root + b'c04/empty.bin', b'').file(root + b'c04/one.bin', b'1').file(root + b'c04/two.txt', b'12')
    t.file(root + b'c04/ten.txt', b'0123456789').file(root + b'c04/r300.bin', bytes((i * 7 + 3) & 0xff for i in range(300)))
    t.file(root + b'c04/dir/index.html', b'<p>c04 index</p>').file(root + b'c04/pg.html', b'<p>c04 page</p>')
    t.file(root + b'c04/\xc3\xa9t\xc3\xa9.txt', 'été'.encode())
    t.link(root + b'c04/ln.txt', b'ten.txt')
    t.dir(root + b'c04/nodir')
    return t

# ------------------------------------------------------------------ A: request line grammar
def request_line(rng, tree, alt, tier):
    cases = []
    files = regular_files(tree)
    f0 = rng.choice(files)[0]
    targets = ['/', f0, '/missing', '/c04/dir', URLENC]
    # every method in every letter case the parser accepts (the parser upper-cases for the test and keeps the spelling)
    for m in G.METHODS:
        for sp in (m.lower(), m.title(), m[0].lower() + m[1:], m[:-1] + m[-1].lower()):
            for t in (targets if tier != 'quick' else [targets[0], rng.choice(targets[1:])]):
                cases.append(K.mk(tree, sp, t, [('Host', 'h')], entry=alt(), kind='method-case'))
    # version token: every case, neighbours of the four known versions, blanks around it
    for v in ['http/1.1', 'Http/1.1', 'hTTP/1.0', 'http/0.9', 'http/2.0', 'HTTP/1.2', 'HTTP/3.0', 'HTTP/1', 'HTTP/', 'HTTP', 'HTTP/1.10', 'HTTP/01.1',
              'HTTP/1.1\t', 'HTTP/1.1\x0b', 'HTTP/1.1\x0c', 'HTTP/1.1 ', 'HTTP/1.1  ', 'HTTP/1.1 x', ' HTTP/1.1', '\tHTTP/1.1', '', 'HTTP/1.1\u00a0', 'HTTP/1.1\u3000',
              'HTTP/1.1\u0085', 'HTTP/1.1\u2028', 'HTTP/1.1\x00', 'HTTP/1.1\x1f', 'HTTP/1.1\x1c', 'ＨＴＴＰ/1.1', 'HTTP/1.1é', 'HTTP/１.１', 'H' * 300, 'HTTP/' + '1' * 5000]:
        for m in ('GET', 'HEAD', 'OPTIONS', 'POST'):
            cases.append(K.mk(tree, m, rng.choice(targets), [], version=v, entry=alt(), kind='version-spelling'))
    # separators, blanks and token counts of the request line x every line end
    lines = [b'GET  / HTTP/1.1', b'GET /  HTTP/1.1', b'GET\t/\tHTTP/1.1', b'GET\t/ HTTP/1.1', b'GET /\tHTTP/1.1', b' GET / HTTP/1.1', b'  GET / HTTP/1.1', b'\tGET / HTTP/1.1',
             b'\x0bGET / HTTP/1.1', b'\x0cGET / HTTP/1.1', b'\rGET / HTTP/1.1', b'\x00GET / HTTP/1.1', b'\x1cGET / HTTP/1.1', b'\x1fGET / HTTP/1.1',
             '\u00a0GET / HTTP/1.1'.encode(), '\u3000GET / HTTP/1.1'.encode(), '\u0085GET / HTTP/1.1'.encode(), '\u2028GET / HTTP/1.1'.encode(), '\u2003GET / HTTP/1.1'.encode(),
             '\ufeffGET / HTTP/1.1'.encode(), 'GET\u00a0/\u00a0HTTP/1.1'.encode(), 'GET /\u00a0 HTTP/1.1'.encode(), 'GET \u00a0 HTTP/1.1'.encode(), 'GET \u3000/ HTTP/1.1'.encode(),
             b'GET', b'GET ', b'GET  ', b'GET /', b'GET / ', b'GET /  ', b'GET / HTTP/1.1 extra', b'/ HTTP/1.1', b'HTTP/1.1', b'GET HTTP/1.1', b'GET  HTTP/1.1', b'GET   HTTP/1.1',
             b'GET / / HTTP/1.1', b'GET GET / HTTP/1.1', b'GET / HTTP/1.1 HTTP/1.1', b'', b' ', b'\t', '\u00a0'.encode(), b'GET /' + f0[1:].encode('utf-8', 'surrogateescape') + b' HTTP/1.1 ',
             b'GET ' + b(f0) + b' HTTP/1.1', b' HEAD ' + b(f0) + b' HTTP/1.1', b'\tOPTIONS ' + b(f0) + b' HTTP/1.1 ', '\u00a0HEAD '.encode() + b(f0) + b' HTTP/1.1',
             '\u2028OPTIONS '.encode() + b(f0) + ' HTTP/1.1\u2029'.encode(), b'HEAD ' + b(f0) + b'  HTTP/1.1', b'OPTIONS  ' + b(f0) + b' HTTP/1.1']
    for ln in lines:
        for eol in (b'\r\n', b'\n', b'\r', b'', b'\r\r\n', b'\n\r'):
            cases.append(K.mk(tree, '?', '?', raw=ln + eol + b'Host: h' + eol + eol, entry=alt(), kind='request-line-shape'))
    # blank lines / white space before the request line (RFC 9112 2.2 tells servers to skip at least one empty line)
    for pre in (b'\r\n', b'\n', b'\r\n\r\n', b'\n\n', b'\r', b' \r\n', b'\t\n', b'\x00\r\n', '\u00a0\r\n'.encode(), b'\r\n ', b'\n\t'):
        for m in ('GET', 'HEAD', 'POST'):
            cases.append(K.mk(tree, '?', '?', raw=pre + G.req(m, f0, 'HTTP/1.1', [('Host', 'h')]), entry=alt(), kind='leading-blank-lines'))
    # the shortest inputs: every single byte class, the line ends alone, cuts of the shortest valid request at every length
    tiny = [bytes([x]) for x in (0, 9, 10, 13, 32, 47, 71, 127, 128, 0xc3, 0xff)] + [b'\r\n', b'\n\n', b'\n\r', b'\r\r', b'\r\n\r\n', b'\n\r\n', b'\x00\x00', b'\xff\n', b'\xc3\xa9', b'\xc3\n']
    short = b'GET / HTTP/1.1\r\n\r\n'
    for raw in tiny + [short[:i] for i in range(1, len(short) + 1)] + [b'HEAD / HTTP/1.1\r\n\r\n'[:i] for i in (13, 14, 15, 16, 17, 18, 19)]:
        for e in ENTRIES:
            cases.append(K.mk(tree, '?', '?', raw=raw, entry=e, kind='tiny-input'))
    return cases

# ------------------------------------------------------------------ B: header line shapes
HEADER_LINES = [b'a', b'a:', b':', b': ', b': v', b':v', b'a:b', b'a : b', b' a: b', b'\ta: b', b'  a: b', b'a:\tb', b'a: b: c', b'a: : b', b'a:: b', b'a: ', b'a:  b  ',
                b' ', b'\t', b' \t ', b'\x0b', b'\x0c', b'\x00', b'\x00: \x00', b'\x1c', b'\x1f', b'\x7f', '\u00a0'.encode(), '\u2028'.encode(), '\u3000'.encode(), '\u0085'.encode(), '\ufeff'.encode(),
                '\u00a0a: b'.encode(), 'a\u00a0: b'.encode(), 'a:\u00a0b'.encode(), ' \u00a0'.encode(), b' folded', b'\tfolded: x', b' Content-Length: 5', b'\tContent-Type: application/x-www-form-urlencoded',
                b'a: \xff', b'\xff: a', b'\xff', b'a: \xc3', b'\xc3', b'a: \xe2\x82', b'a: \xed\xa0\x80', b'a: \xc0\xaf', b'a: \xf8\x88\x80\x80\x80', b'a: \xf4\x90\x80\x80', b'a\xc3: b', b'a: b\x80',
                'é: é'.encode(), 'İ: İ'.encode(), '😀: 😀'.encode(), 'Content-Type\u212a: x'.encode(), 'Content-Length: ١٢'.encode(), 'Content-Length: ５'.encode(),
                b'content-length: 3', b'CONTENT-LENGTH: 3', b'Content-Length:3', b'Content-Length : 3', b'Content-Length: 3 ', b'Content-Length: +3', b'Content-Length: 3, 3', b'Content-Length: 0x3',
                b'Content-Length', b'Content-Type', b'Range', b'Origin', b'Host', b'Range:', b'Origin:', b'Host:', b'Range: ', b'Origin: ', b'Content-Type: ',
                b'n' * 255 + b': v', b'n' * 5000 + b': v', b'a: ' + b'v' * 5000, b'a: ' + b'v' * 9700, b'n' * 9700, b'a:' + b' ' * 3000 + b'b', b': ' * 2000, b'a: b\r', b'a: b\r\r', b'\ra: b', b'a\r: b']

def header_shapes(rng, tree, alt, tier):
    cases = []
    f0 = rng.choice(regular_files(tree))[0]
    routes = [('GET', f0, [('Range', 'bytes=0-0')], b''), ('POST', URLENC, [CT_URL], b'a=1&b=2'), ('OPTIONS', f0, [('Origin', 'http://o'), ('Access-Control-Request-Method', 'PUT')], b''),
              ('POST', MULTIP, [CT_MP], MP_ONE)]
    for ln in HEADER_LINES:
        for pos in (0, 1, 2):          # first line after the request line, between two headers, last line before the blank line
            for eol in ((b'\r\n', b'\n') if (tier != 'quick' or pos == 0) else (rng.choice([b'\r\n', b'\n']),)):
                m, t, hs, body = routes[(pos + len(cases)) % len(routes)] if tier == 'quick' else rng.choice(routes)
                own = [b(n) + b': ' + b(v) for n, v in hs + [('Host', 'h')]]
                own.insert(min(pos, len(own)) if pos < 2 else len(own), ln)
                raw = b(m) + b' ' + b(t) + b' HTTP/1.1' + eol + eol.join(own) + eol + eol + body
                cases.append(K.mk(tree, m, t, raw=raw, entry=alt(), kind='header-line-shape'))
    # the header block ended by every kind of "blank" line, with a body after it that looks like more headers
    for blank in (b'', b' ', b'\t', b'\r', b'\x0b', '\u00a0'.encode(), '\u2028'.encode(), b'\x00', b'\xff'):
        for eol in (b'\r\n', b'\n'):
            raw = b'POST ' + b(URLENC) + b' HTTP/1.1' + eol + b'Host: h' + eol + blank + eol + b'Content-Type: application/x-www-form-urlencoded' + eol + eol + b'a=1'
            cases.append(K.mk(tree, 'POST', URLENC, raw=raw, entry=alt(), kind='header-block-end'))
    # header counts 0..3 and no final blank line (end of input inside the head)
    for n in (0, 1, 2, 3):
        for tail in (b'\r\n\r\n', b'\r\n', b'', b'\r', b'\n'):
            for m in ('GET', 'HEAD', 'OPTIONS'):
                raw = b(m) + b' ' + b(f0) + b' HTTP/1.1' + b''.join(b'\r\nH%d: v' % i for i in range(n)) + tail
                cases.append(K.mk(tree, m, f0, raw=raw, entry=alt(), kind='head-without-end'))
    return cases

# ------------------------------------------------------------------ C: one foreign byte sequence at every part of a request
INSERTS = [b'\xff', b'\x80', b'\xc3', b'\xe2\x82', b'\xf0\x9f\x98', b'\xed\xa0\x80', b'\xc0\x80', b'\xfe\xff', '\u00e9'.encode(), '\u20ac'.encode(), '\U0001F600'.encode(), '\u0130'.encode(),
           '\u212a'.encode(), '\u00a0'.encode(), '\u2028'.encode(), b'\x00', b'\x7f', b'\x1b', b'\x08', b'\x0b', b'\x0c', b'\r', b'\n', b'\r\n', b' ', b'\t', b'%', b'"', b"'", b'\\', b':', b';', b'=', b'&', b'#', b'?', b'-', b',', b'/']

def templates(tree, rng):
    f0 = rng.choice(regular_files(tree))[0]
    return [
        [('method', b'POST'), (None, b' '), ('path', b(URLENC)), (None, b' '), ('version', b'HTTP/1.1'), (None, b'\r\n'), ('hname', b'Content-Type'), (None, b': '),
         ('hvalue', b'application/x-www-form-urlencoded'), (None, b'\r\n'), ('hname2', b'Cookie'), (None, b': '), ('hvalue2', b'k=v'), (None, b'\r\n\r\n'), ('key', b'color'), (None, b'='), ('value', b'red'),
         (None, b'&'), ('key2', b'b'), (None, b'='), ('value2', b'2')],
        [('method', b'POST'), (None, b' '), ('path', b(MULTIP)), (None, b' '), ('version', b'HTTP/1.1'), (None, b'\r\n'), ('hname', b'Content-Type'), (None, b': '), ('mediatype', b'multipart/form-data'),
         (None, b'; '), ('pname', b'boundary'), (None, b'='), ('boundary', b'Bd'), (None, b'\r\n\r\n'), ('dash', b'--'), ('delim', b'Bd'), (None, b'\r\n'), ('phname', b'Content-Disposition'), (None, b': '),
         ('dtype', b'form-data'), (None, b'; '), ('dparam', b'name'), (None, b'="'), ('fname', b'fld'), (None, b'"\r\n\r\n'), ('pbody', b'val'), (None, b'\r\n'), ('closing', b'--Bd--'), (None, b'\r\n')],
        [('method', b'GET'), (None, b' '), ('path', b(f0)), (None, b'?'), ('qkey', b'k'), (None, b'='), ('qvalue', b'v'), (None, b'#'), ('fragment', b'fr'), (None, b' '), ('version', b'HTTP/1.1'), (None, b'\r\n'),
         ('hname', b'Range'), (None, b': '), ('unit', b'bytes'), (None, b'='), ('first', b'0'), (None, b'-'), ('last', b'1'), (None, b'\r\n'), ('hname2', b'Origin'), (None, b': '), ('hvalue2', b'http://o'), (None, b'\r\n\r\n')],
        [('method', b'POST'), (None, b' '), ('path', b'/file-upload/initiate'), (None, b'?'), ('qkey', b'name'), (None, b'='), ('qvalue', b'a.txt'), (None, b'&'), ('qkey2', b'lastModified'), (None, b'='), ('qvalue2', b'1'),
         (None, b'&'), ('qkey3', b'size'), (None, b'='), ('qvalue3', b'22'), (None, b' '), ('version', b'HTTP/1.1'), (None, b'\r\n'), ('hname', b'Host'), (None, b': '), ('hvalue', b'localhost:7878'), (None, b'\r\n\r\n')],
        [('method', b'GET'), (None, b' '), ('path', b'/form-get-method'), (None, b'?'), ('qkey', b'k'), (None, b'='), ('qvalue', b'v'), (None, b'&'), ('qkey2', b'k2'), (None, b'='), ('qvalue2', b'v2'), (None, b' '),
         ('version', b'HTTP/1.1'), (None, b'\r\n'), ('hname', b'Origin'), (None, b': '), ('hvalue', b'http://o'), (None, b'\r\n\r\n')],
    ]

def foreign_bytes(rng, tree, alt, tier):
    cases = []
    for tpl in templates(tree, rng):
        for i, (name, seg) in enumerate(tpl):
            if name is None: continue
            for ins in INSERTS:
                poss = (0, len(seg) // 2 if len(seg) > 1 else None, len(seg), 'all')
                if tier == 'quick': poss = (rng.choice([0, len(seg)]), rng.choice([len(seg) // 2, 'all']))
                for pos in poss:
                    if pos is None: continue
                    new = ins if pos == 'all' else seg[:pos] + ins + seg[pos:]
                    raw = b''.join(s for _, s in tpl[:i]) + new + b''.join(s for _, s in tpl[i + 1:])
                    cases.append(K.mk(tree, '?', '?', raw=raw, entry=alt(), kind='foreign-bytes:' + name))
    return cases

# ------------------------------------------------------------------ D: percent escapes at every decoder
ESCAPES = ['%', '%%', '%2', '%zz', '%g1', '%1g', '%00', '%0a', '%0A', '%0d%0a', '%09', '%20', '%25', '%2525', '%26', '%3d', '%3D', '%2f', '%2F', '%5c', '%5C', '%2e%2e', '%2E%2E', '%2e', '%23', '%3f',
           '%ff', '%FF', '%80', '%c3', '%C3', '%c3%a9', '%C3%A9', '%c3%28', '%e2%82', '%e2%82%ac', '%f0%9f%98%80', '%f0%9f', '%ed%a0%80', '%c0%af', '%f8%88%80%80%80', '%fe%ff', '+', '++', '%2b', '%u00e9',
           '%%%', '%25%', '%%25', '% ', '%-1', '%+1', '%e9', '%7f', '%1b', '%c3%', '%c3%a', 'é', '%c3é', '\u0130']

def percent_escapes(rng, tree, alt, tier):
    cases = []
    f0 = rng.choice(regular_files(tree))[0]
    for esc in ESCAPES:
        if ' ' in esc: continue
        spots = [('GET', '/form-get-method?%s=v' % esc, [], b''), ('GET', '/form-get-method?k=%s' % esc, [], b''), ('GET', '/form-get-method?%s' % esc, [], b''),
                 ('GET', '/form-get-method?a=1&%s=%s&b=2' % (esc, esc), [], b''), ('GET', '/form-get-method%s?a=1' % esc, [], b''), ('GET', '/form-get-method?a=1#%s' % esc, [], b''),
                 ('POST', '/file-upload/initiate?name=%s&lastModified=1&size=2' % esc, [], b''), ('POST', '/file-upload/initiate?name=a&lastModified=%s&size=%s' % (esc, esc), [], b''),
                 ('POST', '/file-upload/initiate?%s=a&name=b&lastModified=1&size=2' % esc, [], b''), ('POST', '/file-upload/initiate?na%sme=a&lastModified=1&size=2' % esc, [], b''),
                 ('POST', URLENC, [CT_URL], b('%s=v' % esc)), ('POST', URLENC, [CT_URL], b('k=%s' % esc)), ('POST', URLENC, [CT_URL], b(esc)), ('POST', URLENC, [CT_URL], b('a=1&%s=%s&b=2' % (esc, esc))),
                 ('GET', '/' + esc, [], b''), ('GET', f0 + esc, [], b''), ('GET', '/c04/' + esc + '/x', [], b''), ('HEAD', '/c04/dir' + esc, [], b''), ('OPTIONS', '/c04/pg' + esc, [], b''),
                 ('GET', f0.replace('/', '/' + esc, 1), [], b''), ('GET', f0[:2] + esc + f0[2:], [('Range', 'bytes=0-0')], b'')]
        if tier == 'quick':
            keep = [spots[i] for i in (0, 1, 6, 10, 11, 14)] + [rng.choice(spots) for _ in range(3)]
            spots = keep
        for m, t, hs, body in spots:
            cases.append(K.mk(tree, m, t, hs, body, entry=alt(), kind='percent-escape'))
    return cases

# ------------------------------------------------------------------ E: targets
def target_shapes(rng, tree, alt, tier):
    cases = []
    # every method x every target that is not in origin form, through both entry points
    for m in G.METHODS:
        for t in G.WEIRD_TARGETS:
            for e in ENTRIES:
                cases.append(K.mk(tree, m, t, [('Host', 'h')], entry=e, kind='method-x-target-form'))
    files = regular_files(tree)
    f0, f1 = rng.choice(files)[0], rng.choice(files)[0]
    shapes = ['/a#b?c', '/#?', '/?#', '?#', '#?', '/??', '/?a?b', '/a?b#c#d', '/##', '/?', '/#', '/?&', '/?=', '/?&&==&', '/?a', '/?a=', '/?=b', '/?a=b=c', '/?a&a&a', '/#' + 'f' * 3000, '/?' + 'q=1&' * 1500,
              f0 + '#frag', f0 + '?', f0 + '?#', f0 + '#?x', f0 + '??', f0 + '/', f0 + '//', f0 + '/.', f0 + '/..', f0 + '/x', f0 + '/index.html', f0 + '.html', f0 + '.', f0 + '..', f0 + '%00', f0 + '\x00', f0 + '\x00.html',
              '/' + f0, '//' + f0, '/.' + f0, '/./' + f0[1:], '/c04/../' + f0[1:], '/c04/./dir/./index.html', '/c04//dir///index.html', '/c04/dir', '/c04/dir/', '/c04/dir//', '/c04/dir/.', '/c04/dir/index.html',
              '/c04/dir/index.html/', '/c04/dir/index', '/c04/dir.html', '/c04/pg', '/c04/pg/', '/c04/pg.html', '/c04/pg.html.html', '/c04/pg.htm', '/c04/nodir', '/c04/nodir/', '/c04/nodir/index.html', '/c04/nodir.html',
              '/c04', '/c04/', '/c04/ln.txt', '/c04/ln.txt/', '/c04/ln', '/c04/empty.bin', '/c04/empty', '/c04/\u00e9t\u00e9.txt', '/c04/e\u0301te\u0301.txt', '/c04/%C3%A9t%C3%A9.txt', '/c04/\u00e9t\u00e9',
              '/index.html', '/index', '/index.html/', '/404.html', '/404', '/404/', '/style.css', '/style.css/', '/style.css?x', '/style', '/script.js#x', '/favicon.svg/', '/favicon.svg.html', '/rws.config.toml',
              '/.', '/./', '/..', '/../', '/...', '/....', '/.../x', '/.hidden', '/a/../..', '/c04/..', '/c04/../', '/c04/../..', '/c04/dir/../../..', '/\\', '/\\..\\', '/c04\\dir', '/c04\\..\\..', '/..\\', '/a\\..',
              '/\x00', '/a\x00b', '/\x7f', '/a\x1bb', '/\x01', '/\x0b', '/\x0c', '/"', "/'", '/&', '/|', '/;', '/<>', '/{}', '/$HOME', '/~', '/~root', '/*', '/?*', '/:', '/@', '/a:b@c', '/http://x', '/[', '/]',
              '/' + 'a' * 254, '/' + 'a' * 255, '/' + 'a' * 256, '/' + 'a' * 257, '/' + '\u00e9' * 127 + 'a', '/' + '\u00e9' * 128, '/' + 'a/' * 2046, '/' + 'a/' * 2047 + 'a', '/' + 'a/' * 2048, '/' + 'a' * 4094, '/' + 'a' * 4095,
              '/' + 'a' * 4096, '/' + 'a' * 8000, '/' + 'a' * 9970, '/' + 'a' * 9978, '/' + 'a' * 9979, '/' + 'a' * 9980, '/' + 'a' * 9981, '/' + 'a' * 9983, '/' + 'a' * 9984, '/' + 'a' * 9985, '/' + 'a' * 9995, '/' + 'a' * 12000,
              '/' + '/' * 3000, '/' + './' * 1500, '/' + '../' * 3000, '/c04/dir' + '/' * 3000, '/c04/dir/' + './' * 1500 + 'index.html', f1 + '?' + 'x' * 9000, f1 + '#' + 'x' * 9000]
    # names that resolve to something that exists, but only through a path longer than the kernel's PATH_MAX (4096): the kernel refuses them
    # (ENAMETOOLONG), the model has no such limit (reported in AUDIT.md) - judged by the oracle, not compared with the model
    beyond = ['/' + '/' * 5000, '/' + './' * 3000, '/c04/dir/' + './' * 2500 + 'index.html', '/c04/' + './' * 2500 + 'ten.txt', '/c04//' + '/' * 4500 + 'ten.txt']
    for t in shapes + beyond:
        for m in (('GET', 'HEAD', 'OPTIONS', 'POST', 'DELETE') if tier != 'quick' else ('GET', rng.choice(['HEAD', 'OPTIONS', 'POST', 'PUT', 'DELETE', 'TRACE', 'CONNECT', 'PATCH']))):
            cases.append(K.mk(tree, m, t, [] if rng.chance(2, 3) else [('Range', rng.choice(['bytes=0-0', 'bytes=0-', 'bytes=-1']))], entry=alt(), kind='target-shape',
                              note='kernel-limit-not-modelled' if t in beyond else None))
    # every name of the tree (files, directories, links, with the own index / 404 pages) with and without trailing slash, extension cut off, under every method
    names = sorted({'/' + n.decode('utf-8', 'surrogateescape') for n in tree.names} | {f for f, _ in files})
    for n in names:
        if any(ch in n for ch in ' ?#'): continue
        stem = n.rsplit('.', 1)[0] if '.' in n.rsplit('/', 1)[-1][1:] else n
        for t in {n, n + '/', stem, n.rsplit('/', 1)[0] or '/', n.rsplit('/', 1)[0] + '/'}:
            for m in (G.METHODS if tier != 'quick' else ('GET', rng.choice(G.METHODS[1:]))):
                cases.append(K.mk(tree, m, t, [], entry=alt(), kind='tree-name-x-method'))
    return cases

# ------------------------------------------------------------------ F: ranges relative to the size of the file they are asked of
def range_values(L, rng, tier):
    vals = set()
    starts = {0, 1, L - 2, L - 1, L, L + 1, 2 * L}
    for a in starts:
        if a < 0: continue
        for bnd in ('', 0, a - 1, a, a + 1, L - 2, L - 1, L, L + 1, 2 * L, 2**64 - 1, 2**64):
            if bnd != '' and bnd < 0: continue
            vals.add(f'bytes={a}-{bnd}')
    for n in (0, 1, 2, L - 1, L, L + 1, 2 * L, 2**63, 2**64 - 1, 2**64):
        if n >= 0: vals.add(f'bytes=-{n}')
    vals |= {'bytes=-', 'bytes=', 'bytes', '', ' ', 'bytes=0', f'bytes={L}', 'bytes=1-2-3', 'bytes=--1', 'bytes=-1-', 'bytes=-1-2', 'bytes=0--1', 'bytes= 0 - 1 ', 'bytes=0 -1', 'bytes=0- 1', ' bytes=0-1', 'bytes =0-1',
             'bytes= 0-1', 'bytes=0-1 ', 'bytes=0-0,1-1', 'bytes=0-0, 1-1', 'bytes=0-0 ,1-1', 'bytes=0-0,,1-1', 'bytes=,', 'bytes=,,', 'bytes=0-0,', 'bytes=,0-0', 'bytes=0-,0-', 'bytes=0-,-1', f'bytes=0-0,{L}-{L}',
             f'bytes={L}-{L},0-0', f'bytes=0-0,{L - 1}-{L}' if L else 'bytes=0-0,0-1', f'bytes=-{L},-{L + 1}', 'bytes=0-0,a-b', 'bytes=a-b,0-0', 'bytes=0-0;1-1', 'Bytes=0-0', 'BYTES=0-0', 'bytes=0-0=1-1', 'bytes==0-0',
             'bytes=0=0', 'bits=0-0', 'bytes0-0', 'bytes:0-0', 'bytes=0x0-0x1', 'bytes=+0-+1', 'bytes=00-01', 'bytes=0.0-1.0', 'bytes=1e0-', 'bytes=\u0660-\u0661', 'bytes=0\u20131', 'bytes=0-0\x00', 'bytes=\x000-0',
             'bytes=' + ','.join('0-0' for _ in range(3)), 'bytes=' + ','.join('%d-%d' % (i % max(L, 1), i % max(L, 1)) for i in range(50)), 'bytes=' + '0-0,' * 600 + '0-0', 'bytes=' + '-1,' * 1500 + '-1',
             'bytes=' + '0-,' * 30 + '0-', 'bytes=' + ',' * 3000, 'bytes=' + '-' * 3000, 'bytes=' + '9' * 3000 + '-', 'bytes=0-' + '9' * 3000, 'bytes=' + '0' * 3000 + '-' + '0' * 3000 + '1'}
    vals = sorted(vals)
    if tier == 'quick' and len(vals) > 120:
        must = [v for v in vals if len(v) < 24]
        rng.shuffle(must)
        vals = sorted(set(must[:95]) | {v for v in vals if len(v) >= 24})
    return vals

def ranges_by_size(rng, tree, alt, tier):
    cases = []
    own = [('/c04/empty.bin', 0), ('/c04/one.bin', 1), ('/c04/two.txt', 2), ('/c04/ten.txt', 10), ('/c04/r300.bin', 300), ('/c04/dir', 16), ('/c04/dir/', 16), ('/c04/pg', 15), ('/c04/ln.txt', 10),
           ('/c04/\u00e9t\u00e9.txt', 5)]
    f0, c0 = rng.choice(regular_files(tree))
    own.append((f0, len(c0)))
    for t, L in own:
        for v in range_values(L, rng, tier):
            m = 'GET' if rng.chance(3, 4) else rng.choice(['HEAD', 'OPTIONS'])
            hn = 'Range' if rng.chance(5, 6) else rng.choice(['range', 'RANGE', 'rAnGe'])
            cases.append(K.mk(tree, m, t, [(hn, v)], entry=alt(), kind='range-x-size'))
    # a Range header on every route that does not serve a file, and on routes that answer with an error
    for t in ('/', '/style.css', '/script.js', '/favicon.svg', '/form-get-method?a=1', '/missing', '/c04/nodir', '/c04/nodir/', '/c04', '/..', '/c04/ten.txt/x', '/file-upload/initiate?name=a&lastModified=1&size=2'):
        for v in ('bytes=0-0', 'bytes=0-', 'bytes=-1', 'bytes=5-1', 'bytes=99999-', 'bytes=a-b', '', 'bytes=0-0,1-1', 'bytes=-18446744073709551616'):
            for m in ('GET', 'HEAD', 'OPTIONS', 'POST'):
                cases.append(K.mk(tree, m, t, [('Range', v)], entry=alt(), kind='range-x-route'))
    for v in ('bytes=0-0', 'bytes=-1', 'bytes=a-b', 'bytes=0-0,1-1'):
        cases.append(K.mk(tree, 'POST', URLENC, [CT_URL, ('Range', v)], b'a=1', entry=alt(), kind='range-x-route'))
        cases.append(K.mk(tree, 'POST', MULTIP, [CT_MP, ('Range', v)], MP_ONE, entry=alt(), kind='range-x-route'))
    return cases

# ------------------------------------------------------------------ G: multipart/form-data grammar
DISPOSITIONS = ['form-data; name="a"', 'form-data; name=a', 'form-data;name="a"', 'form-data ; name="a"', 'form-data;  name="a"', 'form-data; name = "a"', 'form-data; name="a";', 'form-data; name="a"; ',
                'form-data; name="a"; filename="f.txt"', 'form-data; filename="f.txt"; name="a"', 'form-data; name="a"; filename="f"; x=y', 'form-data; name="a"; x=y', 'form-data; x=y; name="a"', 'form-data; x=y',
                'form-data; name="a"; name="b"', 'form-data; filename="f"', 'form-data; filename="f"; filename="g"', 'form-data; name', 'form-data; name; filename', 'form-data; name="a"; filename',
                'form-data; ', 'form-data;', 'form-data;;', 'form-data;;;;', 'form-data', 'form-data ', ' form-data; name="a"', 'attachment; filename="f"', 'attachment', 'attachment; name="a"', 'inline', 'inline; name="a"',
                'inline; filename="f"', 'Form-Data; name="a"', 'FORM-DATA; name="a"', 'form-data; NAME="a"', 'form-data; Name="a"', 'form-data; name=""', 'form-data; name="', 'form-data; name=', 'form-data; name="a;b"',
                'form-data; name="a=b"', 'form-data; name="a\\"b"', 'form-data; name="\u00e9"', 'form-data; name="\u0130"', 'form-data; name=a=b=c', 'form-data; =a', 'form-data; =', 'form-data; name="a" ; filename="f"',
                'form-data; name*=utf-8\'\'a', 'form-data; name="a"; filename*=utf-8\'\'f', '', ' ', ';', ';;', '=', 'x', 'x; name="a"', 'form-data; ' + 'name="a"; ' * 200, 'form-data; name="' + 'n' * 3000 + '"',
                'form-data' + ';' * 3000, 'form-data; name="a\x00b"', 'form-data; name="a\x07"', 'form-data; na\x07me="a"', 'form\x07-data; name="a"']
PART_BODIES = [b'', b'v', b'vv', b'vvv', b'\n', b'\r\n', b'\r', b'\n\n', b'\r\n\r\n', b'a\nb', b'a\r\nb', b'a\r', b'a\n', b'\rb', b'\nb', b'\xff', b'\xff\xfe\xfd', '\u00e9'.encode(), b'\xc3', b'-', b'--', b'--B', b'--B--', b'B',
               b'x--B', b'--Bx', b'-B', b'--b', b'\x00', b'\x00' * 50, b'v\x00', b'v' * 3000, b'\r\n--', b'\r\n-', b'--\r\n', b' ', b'Content-Disposition: form-data; name="z"']

def mp_request(boundary_param, body, hname='Content-Type', extra=()):
    return G.req('POST', MULTIP, 'HTTP/1.1', [(hname, 'multipart/form-data; boundary=' + boundary_param)] + list(extra), body)

def multipart_grammar(rng, tree, alt, tier):
    cases = []
    def part(cd, body, eol=b'\r\n', hname=b'Content-Disposition', more=()):
        return b'--B' + eol + hname + b': ' + b(cd) + eol + b''.join(b(x) + eol for x in more) + eol + body + eol
    # every disposition x a short body; every body x the ordinary disposition; both x CRLF / LF
    for cd in DISPOSITIONS:
        for eol in ((b'\r\n', b'\n') if tier != 'quick' else (b'\r\n',)):
            cases.append(K.mk(tree, 'POST', MULTIP, raw=mp_request('B', part(cd, b'v', eol) + b'--B--' + eol), entry=alt(), kind='multipart-disposition'))
        cases.append(K.mk(tree, 'POST', MULTIP, raw=mp_request('B', part('form-data; name="first"', b'1') + part(cd, b'v') + b'--B--\r\n'), entry=alt(), kind='multipart-disposition'))
    for pb in PART_BODIES:
        for eol in (b'\r\n', b'\n'):
            cases.append(K.mk(tree, 'POST', MULTIP, raw=mp_request('B', part('form-data; name="a"', pb, eol) + b'--B--' + eol), entry=alt(), kind='multipart-part-body'))
        cases.append(K.mk(tree, 'POST', MULTIP, raw=mp_request('B', part('form-data; name="a"', pb) + part('form-data; name="b"', pb) + b'--B--\r\n'), entry=alt(), kind='multipart-part-body'))
        cases.append(K.mk(tree, 'POST', MULTIP, raw=mp_request('B', b'--B\r\nContent-Disposition: form-data; name="a"\r\n\r\n' + pb + b'--B--\r\n'), entry=alt(), kind='multipart-part-body'))   # no line end before the delimiter
    # part header lines
    for hl in ('Content-Type: text/plain', 'content-disposition: form-data; name="b"', 'CONTENT-DISPOSITION: form-data; name="b"', 'Content-Disposition:form-data; name="b"', 'Content-Disposition : form-data; name="b"',
               'X', 'nocolon', 'a:b', ': v', ':', ' ', '\t', ' folded', 'Content-Type: ' + 'x' * 3000, 'a: \xff'.encode('latin1'), b'\xff: a', '\u00e9: \u00e9', 'a: b: c', 'Content-Disposition', 'Content-Disposition:',
               'Content-Disposition: ', 'Content-Transfer-Encoding: base64', 'Content-Length: 1', 'Content-Length: 99999999999999999999', 'B: v', 'x: B', 'x: --B', 'x: --B--', '\x00', '\x07: \x07'):
        for where in ('before', 'after', 'only'):
            hs = {'before': [hl, 'Content-Disposition: form-data; name="a"'], 'after': ['Content-Disposition: form-data; name="a"', hl], 'only': [hl]}[where]
            body = b'--B\r\n' + b''.join(b(x) + b'\r\n' for x in hs) + b'\r\nv\r\n--B--\r\n'
            cases.append(K.mk(tree, 'POST', MULTIP, raw=mp_request('B', body), entry=alt(), kind='multipart-part-header'))
    # delimiters: opening, separating and closing lines in every spelling; preamble and epilogue; missing pieces
    one = b'Content-Disposition: form-data; name="a"\r\n\r\nv\r\n'
    for opening in (b'--B\r\n', b'--B\n', b'--B', b'B\r\n', b'-B\r\n', b'---B\r\n', b'--B \r\n', b' --B\r\n', b'--B--\r\n', b'x--B\r\n', b'--Bx\r\n', b'--b\r\n', b'\r\n--B\r\n', b'\n--B\r\n', b'preamble\r\n--B\r\n', b'\x00--B\r\n',
                    b'--B\x00\r\n', b'\xff--B\r\n', b'--B\r', b'--B\r\r\n', b''):
        for closing in (b'--B--\r\n', b'--B--', b'--B\r\n', b'--B', b'', b'--B--\r\nepilogue\r\n', b'--B--\r\n--B--\r\n', b'--B--x\r\n', b'--B-\r\n', b'-B--\r\n', b'--b--\r\n', b'--B--\n', b'--B--\r', b'--B --\r\n', b'\r\n--B--\r\n'):
            if tier == 'quick' and opening != b'--B\r\n' and closing != b'--B--\r\n' and not rng.chance(1, 6): continue
            cases.append(K.mk(tree, 'POST', MULTIP, raw=mp_request('B', opening + one + closing), entry=alt(), kind='multipart-delimiter'))
    # the boundary parameter: lengths, characters, quoting, its relation to the lines of the body
    for bp, used in [('B', 'B'), ('B', 'b'), ('b', 'B'), ('"B"', 'B'), ('"B', 'B'), ('B"', 'B'), ('"B"', '"B"'), ('""', ''), ('"', ''), ('', ''), (' B', 'B'), ('B ', 'B'), ('B;x=y', 'B'), ('B; charset=utf-8', 'B'), ('a b', 'a b'),
                     ('"a b"', 'a b'), ('-', '-'), ('--', '--'), ('---', '---'), ('\u00e9', '\u00e9'), ('\u0130', '\u0130'), ('\u0130', 'i\u0307'), ('B\x07', 'B'), ('\x07B', 'B'), ('=', '='), ('B=C', 'B=C'), ('boundary=B', 'B'), ('boundary=B', 'boundary=B'),
                     ('X' * 69, 'X' * 69), ('X' * 70, 'X' * 70), ('X' * 71, 'X' * 71), ('X' * 200, 'X' * 200), ('X' * 3000, 'X' * 3000), ('X' * 9000, 'X' * 9000), ('XY', 'X'), ('X', 'XY'), ('\r', ''), ('v', 'v'), (':', ':'), ('Content-Disposition', 'Content-Disposition'),
                     ('form-data', 'form-data'), ('name', 'name'), ('\x00', '\x00'), ('B\x00', 'B\x00'), ('%42', 'B'), ('.*', '.*'), ('[', '['), ('\\', '\\')]:
        u = b(used)
        body = b'--' + u + b'\r\nContent-Disposition: form-data; name="a"\r\n\r\nv\r\n--' + u + b'--\r\n'
        cases.append(K.mk(tree, 'POST', MULTIP, raw=mp_request(bp, body), entry=alt(), kind='multipart-boundary'))
        cases.append(K.mk(tree, 'POST', MULTIP, raw=mp_request(bp, body, hname=rng.choice(['content-type', 'CONTENT-TYPE', 'Content-type'])), entry=alt(), kind='multipart-boundary'))
    # grammar-derived random bodies: 0..6 parts, every element drawn from the lists above
    for _ in range(150 if tier == 'quick' else 3000):
        eol = rng.choice([b'\r\n', b'\r\n', b'\n'])
        body = rng.choice([b'', b'', b'preamble' + eol, eol])
        for _k in range(rng.choice([0, 1, 1, 2, 2, 3, 6])):
            more = [rng.choice(['Content-Type: text/plain', 'X', 'a:b', 'Content-Disposition: form-data; name="again"'])] if rng.chance(1, 4) else []
            p = part(rng.choice(DISPOSITIONS[:12]) if rng.chance(2, 3) else rng.choice(DISPOSITIONS), rng.choice(PART_BODIES), eol, rng.choice([b'Content-Disposition', b'Content-Disposition', b'content-disposition']), more)
            if rng.chance(1, 10): p = p[:-len(eol)]                       # no line end before the next delimiter
            body += p
        body += rng.choice([b'--B--' + eol, b'--B--' + eol, b'--B--', b'', b'--B' + eol, b'--B--' + eol + b'epilogue'])
        cases.append(K.mk(tree, 'POST', MULTIP, raw=mp_request('B', body), entry=alt(), kind='multipart-random'))
    # the end of the request buffer at every position of the tail of a form (after a long first part), and exact fits
    head = mp_request('B', b'')
    tail = b'\r\n--B\r\nContent-Disposition: form-data; name="b"\r\n\r\nw\r\n--B--\r\n'
    first = b'--B\r\nContent-Disposition: form-data; name="a"\r\n\r\n'
    for over in (list(range(-3, len(tail) + 3)) if tier != 'quick' else list(range(-3, len(tail) + 3, 2)) + [0, 1, 2, len(tail) - 1, len(tail), len(tail) + 1]):
        fill = 10000 + over - len(head) - len(first) - len(tail)
        raw = head + first + b'x' * fill + tail
        cases.append(K.mk(tree, 'POST', MULTIP, raw=raw, entry=alt(), kind='multipart-buffer-end'))
    return cases

# ------------------------------------------------------------------ H: url-encoded bodies and queries (shapes, not escapes)
def form_shapes(rng, tree, alt, tier):
    cases = []
    bodies = [b'', b'&', b'&&', b'=', b'==', b'=&=', b'a', b'a=', b'=a', b'a=b=c', b'a&', b'&a', b'a=1&', b'&a=1', b'a=1&&b=2', b'a=1;b=2', b'a=1&b', b' a=1', b'a=1 ', b'a = 1', b'a=1\r\n', b'a=1\n', b'\r\na=1', b'a=1\r\nb=2',
              b'a=\x00', b'\x00=a', b'a\x00=1', b'a=1\x00&b=2', b'\x00', b'\x07', b'a=\x07', b'\x7f=\x7f', b'\t=\t', b'a=1&a=1&a=1', '\u00e9=\u00e9'.encode(), '\u0130=\u0130'.encode(), '\U0001F600'.encode(), b'a=' + b'v' * 9000,
              b'k' * 9000, b'k' * 9000 + b'=', b'&' * 9000, b'=' * 9000, b'a=1&' * 2200, b'a' * 5000 + b'=' + b'b' * 5000, b'?a=1', b'#a=1', b'a=1#b', b'a=1?b', b'a[]=1&a[]=2', b'a[0]=1', b'a.b=1', b'a=1&A=1',
              b'\xff', b'a=\xff', b'\xff=a', b'a=1&\xff', b'\xc3', b'a=\xc3', b'\xe2\x82=1', b'a=\xed\xa0\x80', b'a=\xc0\xaf', b'a=1' + b'\xff' * 9000]
    for body in bodies:
        for ct in (('application/x-www-form-urlencoded',) if tier == 'quick' else ('application/x-www-form-urlencoded', 'APPLICATION/X-WWW-FORM-URLENCODED')):
            cases.append(K.mk(tree, 'POST', URLENC, [('Content-Type', ct)], body, entry=alt(), kind='urlencoded-body-shape'))
        try: q = body.decode('utf-8')
        except UnicodeDecodeError: continue
        if any(ch in q for ch in ' \r\n'): continue
        cases.append(K.mk(tree, 'GET', '/form-get-method?' + q, [], entry=alt(), kind='query-shape'))
        cases.append(K.mk(tree, 'POST', '/file-upload/initiate?' + q, [], entry=alt(), kind='query-shape'))
        cases.append(K.mk(tree, 'POST', '/file-upload/initiate?name=n&lastModified=1&size=1&' + q, [], entry=alt(), kind='query-shape'))
    # the built-in endpoints under every method, with and without their query / body / content type
    for t in ('/form-get-method', '/form-get-method?', '/form-get-method?a=1', '/form-get-method/', '/form-get-method/?a=1', '/form-get-method#a=1', '/file-upload/initiate', '/file-upload/initiate?', '/file-upload/initiate/',
              '/file-upload/initiate?name=a&lastModified=1&size=2', '/file-upload/initiate?name=a&lastModified=1', '/file-upload/initiate?name=a&size=2', '/file-upload/initiate?lastModified=1&size=2', '/file-upload/initiate?name&lastModified&size',
              '/file-upload/initiate?name=&lastModified=&size=', '/file-upload/initiate?NAME=a&LASTMODIFIED=1&SIZE=2', '/file-upload/initiate#name=a&lastModified=1&size=2', '/file-upload', '/file-upload/', URLENC, URLENC + '?a=1', URLENC + '/',
              URLENC + '#x', MULTIP, MULTIP + '?a=1', MULTIP + '/', MULTIP + '#x', '/FORM-GET-METHOD?a=1', '/File-Upload/Initiate?name=a&lastModified=1&size=2'):
        for m in G.METHODS:
            for hs, body in (([], b''), ([CT_URL], b'a=1&b=2'), ([CT_MP], MP_ONE)):
                if tier == 'quick' and not rng.chance(1, 3): continue
                cases.append(K.mk(tree, m, t, hs, body, entry=alt(), kind='endpoint-x-method'))
    return cases

# ------------------------------------------------------------------ I: application handlers (error / empty answer) under every method
def model_input_note(method, msg):
    """the model is given the handler's error text as recovered from the real answer (serve.err_text); for a bodiless answer that is
    a text with the advertised numbers of characters and bytes, which exists only when bytes - chars <= chars: other texts reach the
    implementation and the oracle, but are not compared with the model"""
    nb, nc = len(msg.encode('utf-8')), len(msg)
    return 'no-model-input' if method in ('HEAD', 'OPTIONS') and not (0 <= nb - nc <= nc) else None

def handlers(rng, tree, alt, tier):
    cases = []
    f0 = rng.choice(regular_files(tree))[0]
    msgs = ['', 'boom', '\u00e9' * 10, 'x' * 255 + '\u00e9', 'x' * 5000, 'x' * 100000, 'a\r\nb', 'a\nX-Injected: 1', '\r\n\r\n', '\x00', '\x00' * 100, '\u2028', '\u0130', '\U0001F600' * 3, ' ', '\t', 'HTTP/1.1 200 OK\r\n\r\n', '%s%n', '{}']
    for msg in msgs:
        for m in G.METHODS + ['get', 'Head', 'options']:
            if tier == 'quick' and len(msg) > 1000 and m not in ('GET', 'HEAD', 'OPTIONS'): continue
            t = rng.choice(['/', f0, '/missing', URLENC, '/?a=1'])
            cases.append(K.mk(tree, m, t, [] if rng.chance(1, 2) else [('Origin', 'http://o'), ('Range', 'bytes=0-0')], entry='proc', app='err:' + C.hx(msg), kind='handler-error', note=model_input_note(m, msg)))
    raw_bad = [b'\xff\xfe', b'\xc3', b'a\xffb']         # a message that is not UTF-8 on the wire of the harness protocol (read lossily there)
    for rb in raw_bad:
        cases.append(K.mk(tree, 'GET', '/', [], entry='proc', app='err:' + rb.hex(), kind='handler-error'))
    for m in G.METHODS + ['get']:
        for t in ('/', f0, '/missing', URLENC):
            cases.append(K.mk(tree, m, t, [] if rng.chance(1, 2) else [('Origin', 'http://o'), ('Range', 'bytes=0-0')], entry='proc', app='okempty', kind='handler-empty-answer'))
    # a failing / empty handler never sees what the server refuses before it
    for raw in (b'GET x HTTP/1.1\r\n\r\n', b'junk\r\n\r\n', b'\xff\r\n\r\n', b'', b'OPTIONS * HTTP/1.1\r\n\r\n'):
        for app in ('err:' + C.hx('boom'), 'okempty'):
            cases.append(K.mk(tree, '?', '?', raw=raw, entry='proc', app=app, kind='refused-before-handler'))
    return cases

# ------------------------------------------------------------------ J: transport scripts on every answer path
def answer_paths(tree, rng):
    f0 = rng.choice([f for f, c in regular_files(tree) if len(c) > 0])
    return [('read-error', None, 'real'), ('parse-error', b'junk\r\n\r\n', 'real'), ('not-utf8', b'GET /\xff HTTP/1.1\r\n\r\n', 'real'), ('empty-input', b'', 'real'), ('not-origin-form', b'GET x HTTP/1.1\r\n\r\n', 'real'),
            ('not-origin-form-head', b'HEAD x HTTP/1.1\r\n\r\n', 'real'), ('handler-error', G.req('GET', '/'), 'err:' + C.hx('boom \u00e9')), ('handler-error-head', G.req('HEAD', '/'), 'err:' + C.hx('boom')),
            ('handler-empty', G.req('GET', '/'), 'okempty'), ('static-200', G.req('GET', f0), 'real'), ('static-head', G.req('HEAD', f0), 'real'), ('static-options', G.req('OPTIONS', f0, headers=[('Origin', 'http://o')]), 'real'),
            ('static-206', G.req('GET', '/c04/r300.bin', headers=[('Range', 'bytes=1-100')]), 'real'), ('static-multirange', G.req('GET', '/c04/r300.bin', headers=[('Range', 'bytes=0-9,20-29,290-')]), 'real'),
            ('static-416', G.req('GET', '/c04/ten.txt', headers=[('Range', 'bytes=50-')]), 'real'), ('index', G.req('GET', '/'), 'real'), ('not-found', G.req('GET', '/missing'), 'real'), ('dir-index', G.req('GET', '/c04/dir/'), 'real'),
            ('urlencoded-200', G.req('POST', URLENC, headers=[CT_URL], body=b'a=1&b=2'), 'real'), ('urlencoded-400', G.req('POST', URLENC, headers=[CT_URL], body=b'\xff'), 'real'),
            ('multipart-200', G.req('POST', MULTIP, headers=[CT_MP], body=MP_ONE), 'real'), ('multipart-400', G.req('POST', MULTIP, headers=[CT_MP], body=b'--B\r\n'), 'real'),
            ('initiate-200', G.req('POST', '/file-upload/initiate?name=a&lastModified=1&size=2'), 'real'), ('initiate-400', G.req('POST', '/file-upload/initiate'), 'real'), ('form-get', G.req('GET', '/form-get-method?a=1'), 'real'),
            ('method-501', G.req('PUT', '/'), 'real')]

def with_transport(tree, raw, entry, app, ws, flush, kind):
    c = K.mk(tree, '?', '?', raw=raw if raw is not None else b'', entry=entry, app=app, ws=ws, flush=flush, kind=kind)
    if raw is None:
        c.line = S.proc_line(b'', app=app, alloc=10000, ws=ws, flush=flush, read_err=True) if entry == 'proc' else S.preq_line(b'', ws=ws, flush=flush, read_err=True)
    return c

def transports(rng, tree, alt, tier):
    cases = []
    scripts = ['all', 'c:1', 'c:2', 'c:3', 'c:7', 'c:64', 'c:1000', 'c:100000', 's:1', 's:2.1', 's:17.1.1', 's:100.1', 's:1.1.1.1.1.1.1.1', 's:0', 's:5.0', 'c:0', 'e:0', 'e:1', 'e:2']
    for name, raw, app in answer_paths(tree, rng):
        for e in ENTRIES:
            if e == 'preq' and app != 'real': continue
            for ws in scripts:
                fl = 'ok'
                kind = 'transport:' + name if name != 'read-error' else 'read-error'
                cases.append(with_transport(tree, raw, e, app, ws, fl, kind))
            for ws in ('all', 'c:7', 'e:0', 's:0'):
                cases.append(with_transport(tree, raw, e, app, ws, 'e', 'transport:' + name if name != 'read-error' else 'read-error'))
    return cases

# ------------------------------------------------------------------ K: the request buffer ends at every position of a request (buffer size is configuration of Server::process)
def buffer_cuts(rng, tree, alt, tier):
    cases = []
    f0 = rng.choice(regular_files(tree))[0]
    reqs = [G.req('POST', URLENC, headers=[CT_URL, ('Content-Length', '7')], body=b'a=1&b=2'), G.req('POST', MULTIP, headers=[CT_MP], body=MP_ONE), G.req('GET', f0, headers=[('Range', 'bytes=0-0'), ('Origin', 'http://o')]),
            G.req('POST', '/file-upload/initiate?name=a&lastModified=1&size=2'), G.req('HEAD', '/'), G.req('OPTIONS', f0, headers=[('Origin', 'http://\u00e9'), ('Access-Control-Request-Method', 'PUT')]),
            G.req('GET', '/c04/\u00e9t\u00e9.txt', headers=[('Cookie', '\U0001F600')])]
    for raw in reqs:
        step = 1 if tier != 'quick' else 2
        for alloc in sorted(set(range(0, len(raw) + 3, step)) | {0, 1, 2, len(raw) - 1, len(raw), len(raw) + 1}):
            cases.append(K.mk(tree, '?', '?', raw=raw, entry='proc', alloc=alloc, kind='buffer-cut'))
    # the default buffer: requests of exactly / around its size on every route (padding in a header, in the target, in the body)
    for n in (9998, 9999, 10000, 10001, 10002):
        for e in ENTRIES:
            base = G.req('GET', f0, headers=[('Cookie', '')])
            cases.append(K.mk(tree, '?', '?', raw=G.req('GET', f0, headers=[('Cookie', 'c' * (n - len(base)))]), entry=e, kind='buffer-fit'))
            cases.append(K.mk(tree, '?', '?', raw=G.req('GET', f0, headers=[('Cookie', 'c' * (n - len(base) - 2) + '\u00e9')]), entry=e, kind='buffer-fit'))     # a two-byte character across the end
            base = G.req('GET', f0 + '?')
            cases.append(K.mk(tree, '?', '?', raw=G.req('GET', f0 + '?' + 'q' * (n - len(base))), entry=e, kind='buffer-fit'))
            base = G.req('POST', MULTIP, headers=[CT_MP], body=b'--B\r\nContent-Disposition: form-data; name="a"\r\n\r\n' + b'\r\n--B--\r\n')
            cases.append(K.mk(tree, '?', '?', raw=G.req('POST', MULTIP, headers=[CT_MP], body=b'--B\r\nContent-Disposition: form-data; name="a"\r\n\r\n' + b'v' * (n - len(base)) + b'\r\n--B--\r\n'), entry=e, kind='buffer-fit'))
            base = G.req('POST', URLENC, headers=[CT_URL], body=b'a=')
            cases.append(K.mk(tree, '?', '?', raw=G.req('POST', URLENC, headers=[CT_URL], body=b'a=' + b'v' * (n - len(base))), entry=e, kind='buffer-fit'))
            cases.append(K.mk(tree, '?', '?', raw=G.req('POST', URLENC, headers=[CT_URL], body=b'a=' + b'v' * (n - len(base) - 2) + '\u00e9'.encode()), entry=e, kind='buffer-fit'))
            cases.append(K.mk(tree, '?', '?', raw=b'GET ' + b(f0) + b' HTTP/1.1\r\n' + b'h: v\r\n' * ((n - 20 - len(f0)) // 6) + b'\r\n', entry=e, kind='buffer-fit'))
            cases.append(K.mk(tree, '?', '?', raw=(b'GET ' + b(f0) + b' HTTP/1.1\r\n\r\n').ljust(n, b'\x00'), entry=e, kind='buffer-fit'))
            cases.append(K.mk(tree, '?', '?', raw=(b'GET ' + b(f0) + b' HTTP/1.1\r\n\r\n').ljust(n, b'\n'), entry=e, kind='buffer-fit'))
            cases.append(K.mk(tree, '?', '?', raw=(b'GET ' + b(f0) + b' HTTP/1.1\r\n').ljust(n, b' '), entry=e, kind='buffer-fit'))
            cases.append(K.mk(tree, '?', '?', raw=(b'GET ' + b(f0) + b' HTTP/1.1').ljust(n, b' '), entry=e, kind='buffer-fit'))
            cases.append(K.mk(tree, '?', '?', raw=b' ' * (n - 30) + b'GET ' + b(f0) + b' HTTP/1.1\r\n\r\n', entry=e, kind='buffer-fit'))
    return cases

# ------------------------------------------------------------------ L: shapes of the served tree around the names the server itself looks for
def odd_trees(rng, tier):
    """trees whose own pages (index.html, 404.html, <dir>/index.html, <name>.html) are directories, empty files, links, dangling or
    looping links; links to directories; names of 255 bytes; deep nesting.  Returns [(tree, cases)]"""
    out = []
    shapes = ['dirs', 'empty', 'links', 'dangling', 'loops']
    for si, shape in enumerate(shapes):
        t = S.Tree(b'lvl0/root')
        root = t.cwd + b'/'
        t.file(b'secret.txt', S.marker(b'secret.txt') + b'\n').file(b'lvl0/secret.txt', S.marker(b'lvl0/secret.txt') + b'\n')
        t.file(root + b'plain.txt', b'plain text').file(root + b'sub/keep.txt', b'keep').file(root + b'sub/page.html', b'<p>sub page</p>')
        t.file(root + b'n' * 255, b'long name').file(root + b'x' * 250 + b'.html', b'long html name')
        t.file(root + b'/'.join([b'd'] * 40) + b'/deep.txt', b'deep').file(root + b'/'.join([b'e'] * 40) + b'/index.html', b'<p>deep index</p>')
        t.file(root + b'twice.html.html', b'twice').file(root + b'index.html.html', b'index twice').file(root + b'dots/.../x.txt', b'dots').file(root + b'dots/..txt', b'dotdot txt')
        own = [b'index.html', b'404.html', b'sub/index.html', b'pg.html', b'style.css', b'favicon.svg', b'script.js', b'form-get-method', b'form-get-method.html', b'file-upload/initiate']
        for k, name in enumerate(own):
            p = root + name
            if shape == 'dirs': t.file(p + b'/inner.txt', b'inside ' + name)
            elif shape == 'empty': t.file(p, b'')
            elif shape == 'links': t.link(p, (b'../' * name.count(b'/')) + b'plain.txt')
            elif shape == 'dangling': t.link(p, b'nowhere-' + (b'%d' % k))
            elif shape == 'loops': t.link(p, name.rsplit(b'/', 1)[-1] if k % 2 == 0 else (b'../' * name.count(b'/')) + own[(k + 1) % len(own)])
        t.link(root + b'dirlink', b'sub').link(root + b'dirlink2', b'sub/').link(root + b'selfdir', b'.').link(root + b'updir', b'..').link(root + b'sub/back', b'..')
        t.link(root + b'abs.lnk', t.root + b'/' + root + b'plain.txt').link(root + b'empty-target.lnk', b'x/../plain.txt')
        t.link(root + b'chain1.lnk', b'chain2.lnk').link(root + b'chain2.lnk', b'plain.txt').link(root + b'slash.lnk', b'plain.txt/').link(root + b'dot.lnk', b'./plain.txt')
        t.dir(root + b'emptydir').dir(root + b'emptydir.html').dir(root + b'plain.txt.html')
        t.names = []
        alt = Alt(si)
        cases = []
        targets = ['/', '/index.html', '/index.html/', '/index', '/index.html/inner.txt', '/404.html', '/404', '/404.html/', '/404.html/inner.txt', '/missing', '/missing/', '/sub', '/sub/', '/sub/index.html', '/sub/index.html/',
                   '/sub/index', '/sub/page', '/sub/page/', '/pg', '/pg/', '/pg.html', '/pg.html/', '/pg.html/inner.txt', '/style.css', '/style.css/', '/style.css/inner.txt', '/favicon.svg', '/script.js', '/form-get-method', '/form-get-method?a=1',
                   '/form-get-method/inner.txt', '/form-get-method.html', '/file-upload/initiate', '/file-upload/initiate?name=a&lastModified=1&size=2', '/file-upload', '/file-upload/', '/plain.txt', '/plain', '/plain.txt/', '/plain.txt.html',
                   '/plain.txt.html/', '/emptydir', '/emptydir/', '/emptydir.html', '/emptydir.html/', '/dirlink', '/dirlink/', '/dirlink/keep.txt', '/dirlink/page', '/dirlink2', '/dirlink2/', '/dirlink2/keep.txt', '/selfdir', '/selfdir/',
                   '/selfdir/plain.txt', '/selfdir/selfdir/selfdir/plain.txt', '/selfdir/' * 30 + 'plain.txt', '/updir', '/updir/', '/updir/secret.txt', '/sub/back', '/sub/back/', '/sub/back/plain.txt', '/sub/back/sub/back/sub/keep.txt',
                   '/abs.lnk', '/empty-target.lnk', '/chain1.lnk', '/chain2.lnk', '/slash.lnk', '/dot.lnk', '/' + 'n' * 255, '/' + 'n' * 255 + '/', '/' + 'n' * 254, '/' + 'n' * 256, '/' + 'x' * 250, '/' + 'x' * 250 + '.html', '/' + 'x' * 251 + '.html',
                   '/' + '/'.join(['d'] * 40) + '/deep.txt', '/' + '/'.join(['d'] * 40), '/' + '/'.join(['d'] * 41), '/' + '/'.join(['e'] * 40), '/' + '/'.join(['e'] * 40) + '/', '/' + '/'.join(['e'] * 39), '/twice', '/twice.html', '/twice.html.html',
                   '/index.html.html', '/dots', '/dots/', '/dots/...', '/dots/.../', '/dots/.../x.txt', '/dots/.', '/dots/..txt', '/dots/.']
        for tg in targets:
            for m in (('GET', 'HEAD', 'OPTIONS', 'POST') if tier != 'quick' else ('GET', rng.choice(['HEAD', 'OPTIONS', 'POST']))):
                cases.append(K.mk(t, m, tg, [], entry=alt(), kind='odd-tree:' + shape))
            cases.append(K.mk(t, 'GET', tg, [('Range', rng.choice(['bytes=0-0', 'bytes=0-', 'bytes=-1', 'bytes=1-', 'bytes=0-0,1-1', 'bytes=99-']))], entry=alt(), kind='odd-tree:' + shape))
        # more symbolic links on the way than the kernel follows (40, ELOOP): the model has no such limit (reported in AUDIT.md) - oracle only
        for m in ('GET', 'HEAD'):
            cases.append(K.mk(t, m, '/selfdir/' * 300 + 'plain.txt', [], entry=alt(), kind='odd-tree:' + shape, note='kernel-limit-not-modelled'))
        out.append((t, cases))
    return out

# ------------------------------------------------------------------ M: other configurations (CORS lists instead of allow-all, a small request buffer on the legacy entry)
def config_batches(rng, tier):
    """[(env pairs, tree, cases)]"""
    out = []
    def env(**kw):
        d = dict(S.DEFAULT_ENV)
        d.update({'RWS_CONFIG_' + k: v for k, v in kw.items()})
        return list(d.items())
    confs = [('cors-lists', env(CORS_ALLOW_ALL='false', CORS_ALLOW_ORIGINS='http://a,https://foo.example', CORS_ALLOW_CREDENTIALS='true', CORS_ALLOW_HEADERS='X-A,Content-Type', CORS_ALLOW_METHODS='GET,POST,PUT',
                               CORS_EXPOSE_HEADERS='X-B', CORS_MAX_AGE='600')),
             ('cors-empty-lists', env(CORS_ALLOW_ALL='false')),
             ('small-buffer', env(REQUEST_ALLOCATION_SIZE_IN_BYTES='64')),
             ('buffer-at-offset', env(REQUEST_ALLOCATION_SIZE_IN_BYTES='4000'))]
    if tier != 'quick':
        confs += [('buffer-4001', env(REQUEST_ALLOCATION_SIZE_IN_BYTES='4001')), ('buffer-1', env(REQUEST_ALLOCATION_SIZE_IN_BYTES='1')), ('buffer-big', env(REQUEST_ALLOCATION_SIZE_IN_BYTES='100000')),
                  ('cors-junk', env(CORS_ALLOW_ALL='maybe', CORS_ALLOW_CREDENTIALS='perhaps', CORS_MAX_AGE='-1'))]
    for ci, (name, pairs) in enumerate(confs):
        t = prepare_tree(rng)
        alt = Alt(ci)
        cases = []
        f0 = rng.choice(regular_files(t))[0]
        alloc = int(dict(pairs)['RWS_CONFIG_REQUEST_ALLOCATION_SIZE_IN_BYTES'])
        origins = ['http://a', 'https://foo.example', 'http://a,https://foo.example', 'http://', 'http://ab', 'a', '', ',', 'null', 'HTTP://A', 'http://a ', ' http://a', 'http://a\x00', 'http://\u00e9', 'x' * 3000, 'http://a/', 'https://foo.example:443']
        for o in origins:
            for m in ('GET', 'OPTIONS', 'HEAD', 'POST'):
                hs = [('Origin', o)] + ([('Access-Control-Request-Method', rng.choice(['PUT', 'GET', '', 'x' * 100])), ('Access-Control-Request-Headers', rng.choice(['X-A', 'x-a, content-type', '', '\u0130']))] if m == 'OPTIONS' and rng.chance(2, 3) else [])
                cases.append(K.mk(t, m, rng.choice(['/', f0, '/missing', '/c04/dir/']), hs, entry=alt(), alloc=alloc, kind='config:' + name))
            cases.append(K.mk(t, 'OPTIONS', f0, [('Origin', o), ('origin', 'http://a')], entry=alt(), alloc=alloc, kind='config:' + name))
        paths = [f for f, _ in regular_files(t)] + ['/c04/dir', '/c04/pg', '/missing']
        for _ in range(80 if tier == 'quick' else 600):
            m, tg, v, hs, body = G.valid_request(rng, paths)
            cases.append(K.mk(t, m, tg, hs, body, v, entry=alt(), alloc=alloc, kind='config:' + name))
        for tg in ('/file-upload/initiate?name=a&lastModified=1&size=2', '/file-upload/initiate?name=a&lastModified=1&size=9223372036854775807', '/form-get-method?a=1', '/'):
            for e in ENTRIES:
                cases.append(K.mk(t, 'POST' if 'initiate' in tg else 'GET', tg, [], entry=e, alloc=alloc, kind='config:' + name))
        for raw in (b'', b'junk', b'GET x HTTP/1.1\r\n\r\n', b'\xff' * (alloc + 5), b'GET /' + b'a' * alloc + b' HTTP/1.1\r\n\r\n', G.req('POST', URLENC, headers=[CT_URL], body=b'a=1&a=2'), G.req('POST', MULTIP, headers=[CT_MP], body=MP_ONE)):
            for e in ENTRIES:
                cases.append(K.mk(t, '?', '?', raw=raw, entry=e, alloc=alloc, kind='config:' + name))
        out.append((pairs, t, cases))
    return out

# ------------------------------------------------------------------ collection
GROUPS = [request_line, header_shapes, foreign_bytes, percent_escapes, target_shapes, ranges_by_size, multipart_grammar, form_shapes, handlers, transports, buffer_cuts]

def extra_batches(rng, tier):
    """one batch (own tree) per group, so that they run side by side; in the thorough tier every group runs on three trees"""
    out = []
    for rep in range(1 if tier == 'quick' else 3):
        for gi, g in enumerate(GROUPS):
            r = rng.fork(f'{g.__name__}:{rep}')
            tree = prepare_tree(r, small=(rep == 0))
            out.append((tree, g(r, tree, Alt(gi + rep), tier)))
    out += odd_trees(rng.fork('odd-trees'), tier)
    return out
