"""The source's own vocabulary as a generator dictionary (what a fuzzer calls a dictionary): every string literal of the
non-test source, by shape.  A handler that matches one spelling of a token it knows and extracts with another, a lookup that
goes looking for a file name of its own in the wrong place, a branch taken only for a header the server itself emits - all of
them need inputs built from the tokens the code mentions, which no invented name hits."""
import os, re
from vlib import common as C

_CACHE = None
def literals():
    global _CACHE
    if _CACHE is not None: return _CACHE
    lits = set()
    for root, _, files in os.walk(C.RWS_SRC):
        for f in files:
            if not f.endswith('.rs') or f in ('tests.rs', 'example.rs') or 'verif_demo' in f: continue
            try: text = open(os.path.join(root, f), encoding='utf-8', errors='ignore').read()
            except OSError: continue
            text = re.sub(r'//[^\n]*', '', text)
            for m in re.finditer(r'"((?:[^"\\\n]|\\.){1,60})"', text):
                s = m.group(1)
                if '{' in s or '\\' in s: continue
                lits.add(s)
    d = dict(
        file=sorted(s for s in lits if re.fullmatch(r'/?[A-Za-z0-9_.-]+\.(html?|css|js|svg|toml|txt|json|ico|png|xml|md)', s)),
        path=sorted(s for s in lits if re.fullmatch(r'/[A-Za-z0-9_./-]{2,50}', s)),
        param=sorted(s for s in lits if re.fullmatch(r'[A-Za-z][A-Za-z0-9_-]{1,30}=', s)),
        media=sorted(s for s in lits if re.fullmatch(r'[a-z]+/[A-Za-z0-9.+*-]{1,50}', s)),
        header=sorted(s for s in lits if re.fullmatch(r'[A-Z][A-Za-z0-9]*(?:-[A-Za-z0-9]+)+', s)),
        word=sorted(s for s in lits if re.fullmatch(r'[A-Za-z][A-Za-z0-9_-]{2,24}', s)),
    )
    d['all'] = sorted(set(sum(d.values(), [])))
    _CACHE = d
    return d

def variants(rng, tok):
    """spellings of a known token: other letter case, white space or a control character inside, truncated, doubled, a neighbour"""
    k = rng.below(10)
    if k == 0: return tok.upper()
    if k == 1: return tok.lower()
    if k == 2: return tok.title()
    if k == 3: return tok.swapcase()
    if k == 4: return tok[:1].upper() + tok[1:]
    if k == 5 and len(tok) > 2: i = rng.range(1, len(tok) - 1); return tok[:i] + rng.choice([' ', '\t', '\x07', '\x00']) + tok[i:]
    if k == 6 and len(tok) > 1: return tok[:-1]
    if k == 7: return tok + tok
    if k == 8: return ' ' + tok + ' '
    return tok + rng.choice(['x', '=', ';', '-'])

def respell(rng, raw):
    """replace one occurrence of a token of the vocabulary inside `raw` (bytes, compared case-insensitively) by a variant of it"""
    low = raw.lower()
    toks = [t for t in literals()['all'] if len(t) >= 3 and t.lower().encode() in low]
    if not toks: return raw
    t = rng.choice(toks)
    i = low.index(t.lower().encode())
    return raw[:i] + variants(rng, t).encode() + raw[i + len(t):]
