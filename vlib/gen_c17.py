"""Input classes for C17 (form and query decoding returns the submitted fields) that the random texts of props/c17.py reach
rarely or never - found by the generator audit (audit/C17/AUDIT.md).  Everything here is a deterministic function of the PRNG
handed in; nothing here judges an answer (the oracle clauses stay in props/c17.py).

What the anchored code branches on: 22 rows of the escape table (encoder) and 23 rows of the decoder table applied as a CHAIN
of str::replace calls in a fixed order; `split("&")` / `split("=")` and the first two pieces; `trim()`; the ASCII-control filter
and UTF-8 validation of a body; HashMap insertion; for the request target the URL splitter of url-build-parse (first `?`, first
`#`, `//`); for the echo endpoints the path / method / Content-Type match, the zero-padded request buffer the body is cut from,
and the `<name> is <value>\\r\\n` line written per field."""

ESC_PRINT = '% !"#$&\'()*+,/:;=@[]'            # the printable characters the encoder escapes (CR and LF are not printable)
WIDTHS = ['é', '€', '\U0001F600']     # 2-, 3- and 4-byte characters
EARLY = ['%20', '%0A', '%0D', '%21', '%22', '%23', '%24', '%25']   # codes the decoder processes up to and including %25: literal ones round-trip

# what a template engine, a printf-like formatter, a regex replacement or a shell would treat as a placeholder; the echo
# endpoints print `<name> is <value>`, the separator itself is in the list
TEMPLATE = ['{}', '{0}', '{1}', '{key}', '{value}', '{name}', '{k}', '{v}', '{{', '}}', '{{key}}', '{{value}}', '${key}', '${value}', '$0', '$1', '$2',
            '$key', '$value', '%s', '%d', '%1$s', '%2$s', '%k', '%v', '%(key)s', '%(value)s', ':key', ':value', '<key>', '<value>', ' is ', 'is', ' is',
            'a is b', '\\r\\n', '\\n', '\\0', '\\', '<br>', '&amp;', '&#38;', '&lt;b&gt;', '<b>x</b>', '?', '??', '#{value}', '@value', '[value]', '(value)']

# names equal under one of the usual "ignore the difference" mappings (lower / upper / title case, case folding, NFC/NFKC, width)
FOLD_FAMILIES = [['K', 'k', 'K'], ['s', 'S', 'ſ'], ['ǆ', 'ǅ', 'Ǆ', 'dž'], ['Å', 'Å', 'å', 'Å'],
                 ['ﬁ', 'fi', 'FI', 'Fi'], ['ß', 'ẞ', 'ss', 'SS', 'Ss'], ['i', 'I', 'ı', 'İ', 'i̇'], ['ς', 'σ', 'Σ'],
                 ['µ', 'μ', 'Μ'], ['é', 'é', 'É', 'É'], ['ｋ', 'k', 'Ｋ', 'K'], ['Ａ', 'A', 'a', 'ａ'],
                 ['ẛ', 'ṡ', 'Ṡ'], ['ΐ', 'ΐ', 'ΐ'], ['Ω', 'Ω', 'ω'], ['½', '1/2', '1⁄2'],
                 ['Name', 'name', 'NAME', 'nAME', 'nAmE'], ['x-y', 'X-Y', 'x_y', 'X_Y', 'xy']]

GRAPHEMES = ['é', '\U0001F1FA\U0001F1E6', 'क्षि', 'שָׁלוֹם', '한글', '한', '①②',
             '\U0001D518\U0001D52B\U0001D526', 'عربي', 'à́̂̃', '❤️', '\U0001F44D\U0001F3FD', '¿¡', '￥＄']

def printable(s):
    return all(ch.isprintable() for ch in s)

_BOUNDARY = None
def boundary_scalars():
    """printable scalars next to every edge of the UTF-8 encoding and of the blocks the code's predicates (ASCII control, White_Space,
    `is_ascii`) cut at: the nearest printable scalar below and above each edge, and scalars whose UTF-8 form holds the byte values a
    byte-wise filter or a Latin-1 reading would mistake for something else (0x80, 0x85, 0xA0, 0xAD, 0xBF, lead bytes C2 DF E0 EF F0 F3)"""
    global _BOUNDARY
    if _BOUNDARY is not None: return _BOUNDARY
    out = []
    def near(cp, step):
        c = cp
        for _ in range(4000):
            if 0 <= c < 0x110000 and not (0xd800 <= c < 0xe000) and chr(c).isprintable(): return chr(c)
            c += step
        return None
    for edge in (0x20, 0x7f, 0x80, 0xa0, 0xad, 0x100, 0x7ff, 0x800, 0x1680, 0x2000, 0x200b, 0x2028, 0x202f, 0x205f, 0x3000, 0xd7ff, 0xe000, 0xfeff, 0xfffd, 0xffff,
                 0x10000, 0x1ffff, 0x20000, 0x2ffff, 0x30000, 0xe0000, 0x10ffff):
        for ch in (near(edge - 1, -1), near(edge, 1)):
            if ch is not None and ch not in out: out.append(ch)
    # first printable scalar of each UTF-8 width that starts with a given lead byte / holds a given continuation byte
    want = {('lead', w, b) for w, bs in ((2, (0xc2, 0xc3, 0xdf)), (3, (0xe0, 0xe1, 0xed, 0xef)), (4, (0xf0, 0xf3))) for b in bs}
    want |= {('tail', w, b) for w in (2, 3, 4) for b in (0x80, 0x85, 0x8a, 0x8d, 0x9f, 0xa0, 0xad, 0xbf)}
    for cp in list(range(0x80, 0x3100)) + list(range(0x4e00, 0x4f00)) + list(range(0xd000, 0xd7a4)) + list(range(0xf900, 0x10000)) + \
              list(range(0x10000, 0x10400)) + list(range(0x1f300, 0x1f700)) + list(range(0x20000, 0x20100)) + list(range(0xe0100, 0xe01f0)):
        if not want: break
        ch = chr(cp)
        if not ch.isprintable(): continue
        b = ch.encode()
        hit = {('lead', len(b), b[0])} | {('tail', len(b), x) for x in b[1:]}
        if hit & want:
            want -= hit
            if ch not in out: out.append(ch)
    _BOUNDARY = out
    return out

def strings_over(alphabet, maxlen):
    import itertools
    for n in range(0, maxlen + 1):
        for tup in itertools.product(alphabet, repeat=n): yield ''.join(tup)

def component_texts(quick):
    """texts for encode -> decode: systematic where props/c17.py is random"""
    out = []
    # every escaped character after / before / between characters of every UTF-8 width (C17d hinged on ONE such order)
    for w in WIDTHS + ['a']:
        for e in ESC_PRINT:
            out += [w + e, e + w, w + e + w, e + w + e, w + w + e, w + e + e + w, e + e + e, e + 'a' + e + 'a' + e, (e + w) * 3]
    # every ordered pair of escaped characters with a wide character between (a decoder that mis-steps after the first escape)
    for e1 in ESC_PRINT:
        for e2 in ESC_PRINT:
            out.append(e1 + 'é' + e2 + '\U0001F600' + e1)
    # a percent sign next to wide characters / cut short by them / by the end
    for w in WIDTHS:
        out += ['%' + w, w + '%', '%2' + w, w + '%2', '%' + w + '20', '%2' + w + '0', '%25' + w, w + '%25', '%' + w + '%', w + '%%' + w, '%20' + w, w + '%20',
                '%E2%82%AC' + w, w + '%C3%A9', '%c3%a9' + w]
    # literal texts of the codes that are decoded no later than %25 (they round-trip), glued to each other and to escaped characters
    for c in EARLY:
        out += [c, c + c, 'a' + c + 'b', c.lower(), '%' + c, c + '%', c[:2], c + c[1:], ' ' + c + ' ', c + '&' + c, 'é' + c + 'é']
        for d in EARLY: out.append(c + d)
    # every string over small alphabets around the decoder's %25 step: the chain of replacements must not re-read its own output
    out += list(strings_over('%25', 5 if quick else 8))
    out += list(strings_over('%20A1D', 4 if quick else 5))
    for ch in boundary_scalars():
        out += [ch, ch + '&' + ch, '%' + ch, ch + ' ', ' ' + ch, ch + '=' + ch + '+' + ch]
    for g in GRAPHEMES + TEMPLATE:
        out += [g, g + '&' + g, g + ' ' + g]
    for fam in FOLD_FAMILIES:
        out.append('&'.join(fam))
    # long runs: one escaped character n times (the output is 3n bytes), and a wide character n times followed by an escape
    for n in ((255, 256, 1024, 4096) if quick else (255, 256, 257, 1023, 1024, 1025, 4095, 4096, 4097, 8191, 8192, 8193, 65535, 65536)):
        out += ['%' * n, ' ' * n, 'é' * n + ' ', '\U0001F600' * (n // 2) + '%', 'a' * n, ('a' * 15 + '&') * (n // 16)]
    return [s for s in out if printable(s)]

def family_maps(rng, vocab_words=()):
    """maps for the three decoding entry points AND the echo endpoints: relations between names, between a name and a value,
    placeholders, the server's own vocabulary, the whole escape table as names, counts at the quantifier's edge"""
    ms = []
    for fam in FOLD_FAMILIES:
        ms.append({k: str(i + 1) for i, k in enumerate(fam)})
        ms.append({k + ' x': k for k in fam})
    # the 20 printable escaped characters as the 20 names (quantifier's upper edge), each its own value; doubled; as value only
    ms.append({e: e for e in ESC_PRINT})
    ms.append({e + e: e + 'a' + e for e in ESC_PRINT})
    ms.append({'k%d' % i: e * 3 for i, e in enumerate(ESC_PRINT)})
    ms.append({chr(ord('a') + i): str(i) for i in range(20)})
    ms.append({chr(ord('a') + i): 'same value' for i in range(20)})
    ms.append({'k%02d' % i: '' for i in range(20)})
    # placeholders as names and as values, each next to a field it could be confused with
    for i in range(0, len(TEMPLATE), 6):
        chunk = TEMPLATE[i:i + 6]
        ms.append({t: 'v%d' % j for j, t in enumerate(chunk)})
        ms.append({'n%d' % j: t for j, t in enumerate(chunk)})
        ms.append({t: t for t in chunk})
    ms += [{'{value}': 'V', 'key': '{key}', 'k': 'v'}, {'{key}': '{value}', '{value}': '{key}'}, {'%s': '%s', '%d': '1'}, {'$1': '$2', '$2': '$1'},
           {'a is b': 'c is d', 'a': 'b is c is d', 'a is b is c': 'd'}, {'is': 'is', ' is ': ' is '}, {'a': 'a', 'b': 'b'}, {'a': 'b', 'b': 'a'},
           {'k1': 'k2=v2', 'k2': 'v2'}, {'k1': 'v1&k2=v2', 'k2': 'other'}, {'a b': 'a%20b', 'a%20b': 'a b', 'a+b': 'a%2520b'},
           {'a': 'a=a', 'a=a': 'a'}, {'x': 'x=1&x=2', 'x=1': 'x'}, {'q': '?q=1', '?q': '1', '?': '?'}, {'?a': '?b?c?', 'b?': '??', 'c': 'd?e=f&g=h'},
           {'0': '0', '00': '1', '-1': '+1', '+1': '-1', '1e3': '1E3', '0x10': '16', ' 1': '1 ', '1.0': '1'}, {'é': 'é' * 7 + ' ' + 'é'}]
    # texts that are PATH-like: dot-dot segments delimited by slashes or backslashes, drive letters, UNC, dot segments - a field is a
    # field, whatever a path guard elsewhere in the server would make of it
    pathish = ['..', '../x', '..\\docs\\report', 'C:\\data\\current\\..\\archive', 'a/../b', '\\..\\', '..\\', '\\..', './.', '.../...', '..;/x', '/etc/passwd', '\\\\host\\share',
               '..%2f', '%2e%2e/', 'x\\..', 'x/..', '..\\..\\..', 'file:///../x', '~/../x', '.\\..\\.']
    for i in range(0, len(pathish), 7):
        chunk = pathish[i:i + 7]
        ms.append({'p%d' % j: t for j, t in enumerate(chunk)})
        ms.append({t: 'v%d' % j for j, t in enumerate(chunk)})
    ms += [{'source': '..\\docs\\report'}, {'backup': 'C:\\data\\current\\..\\archive', 'x': '1'}, {'..': '..'}, {'..\\': '\\..'}]
    # the server's own parameter names and words
    own = ['name', 'lastModified', 'size', 'Name', 'Size', 'boundary', 'charset', 'filename', 'Content-Type', 'content-length', 'form-get-method',
           '/form-get-method', 'application/x-www-form-urlencoded', 'bytes', 'HTTP/1.1', 'GET', 'POST', 'localhost', 'http://localhost/', 'q']
    ws = list(vocab_words)
    rng.shuffle(ws)
    own += ws[:20]
    for i in range(0, len(own), 10):
        ms.append({w: 'value of ' + w for w in own[i:i + 10]})
    bs = boundary_scalars()
    for i in range(0, len(bs), 10):
        ms.append({ch: ch for ch in bs[i:i + 10]})
        ms.append({'k' + ch: ch + ' ' + ch for ch in bs[i:i + 10]})
    for g in range(0, len(GRAPHEMES), 7):
        ms.append({s: s + ' & ' + s for s in GRAPHEMES[g:g + 7]})
    # histories: equal-length queries with different content back to back, the same one twice, a shrinking and a growing one
    ms += [{'a': '1'}, {'b': '2'}, {'a': '2'}, {'a': '1'}, {'a': '1'}, {'ab': '1', 'cd': '2'}, {'ab': '2', 'cd': '1'}, {'cd': '1', 'ab': '2'},
           {'a': '1', 'b': '2', 'c': '3'}, {'a': '1', 'b': '2'}, {'a': '1'}, {'a': '1', 'b': '2'}, {'a': '1', 'b': '2', 'c': '3'}]
    return [m for m in ms if m and all(k and printable(k) and printable(v) for k, v in m.items())]

def sized_maps(quick):
    """one long name / one long value / many middling values: lengths around the powers of two a buffer would have"""
    sizes = (255, 256, 1024, 4096) if quick else (63, 64, 65, 127, 128, 129, 255, 256, 257, 511, 512, 513, 1023, 1024, 1025, 2047, 2048, 2049, 4095, 4096, 4097, 8191, 8192, 8193)
    out = []
    for n in sizes:
        out.append({'k': 'v' * n}); out.append({'k' * n: 'v'})
        if n <= 4100:
            out.append({'k': 'é' * (n // 2) + ' ' + 'z'}); out.append({'€' * (n // 3) + '&': '1', 'z': ' ' * (n // 3)})
    out.append({'k%02d' % i: chr(ord('a') + i) * 300 for i in range(20)})
    return out

SAFE_PATHS = ['/', '/form-get-method', '/index.html', '/a/b/c', '/a.b/c.d', '/dir/', '/~user', '/-._~', '/file-upload/initiate', '/é/ü', '/' + 'p' * 300,
              '/form-url-encoded-enctype-post-method', '/a/', '/x.tar.gz', '/UPPER/lower']
# targets whose shape the property statement does not speak about: the two sides are compared, the answer is not judged
ODD_PATHS = ['//x', '/a//b', '/a:b', '/a@b', '/x;y', '/a=b', '/a&b', '/a%3Fb', '/a%23b', '/a+b', '/a b', '/:80', '/http://h/', '/[x]']
FRAGMENTS = ['#', '#f', '#f?x=y', '#?', '#a=b&c=d', '#é', '##']

BROWSER = [('Host', 'localhost:7878'), ('User-Agent', 'Mozilla/5.0 (X11; Linux x86_64; rv:109.0) Gecko/20100101 Firefox/115.0'),
           ('Accept', 'text/html,application/xhtml+xml,application/xml;q=0.9,*/*;q=0.8'), ('Accept-Language', 'en-US,en;q=0.5'),
           ('Accept-Encoding', 'gzip, deflate'), ('Origin', 'http://localhost:7878'), ('Connection', 'keep-alive'), ('Referer', 'http://localhost:7878/'),
           ('Upgrade-Insecure-Requests', '1')]
CT = ('Content-Type', 'application/x-www-form-urlencoded')

def post_header_shapes(body):
    """header blocks a client really sends with a URL-encoded body; the declared length is the exact number of bytes"""
    cl = ('Content-Length', str(len(body)))
    return [('cl-after', [CT, cl]), ('cl-before', [cl, CT]), ('browser', BROWSER[:5] + [CT, cl] + BROWSER[5:]), ('browser-cl-first', [BROWSER[0], cl, CT] + BROWSER[1:]),
            ('host-only', [BROWSER[0], CT])]

# the same endpoint reached with a spelling the statement does not speak about: judged only when the endpoint answers 200
def post_variant_shapes(body):
    cl = ('Content-Length', str(len(body)))
    return [('ct-upper', [('Content-Type', 'APPLICATION/X-WWW-FORM-URLENCODED'), cl]), ('ct-mixed', [('Content-Type', 'Application/X-WWW-Form-UrlEncoded')]),
            ('name-lower', [('content-type', 'application/x-www-form-urlencoded'), ('content-length', str(len(body)))]),
            ('name-upper', [('CONTENT-TYPE', 'application/x-www-form-urlencoded'), ('CONTENT-LENGTH', str(len(body)))]),
            ('ct-twice', [CT, CT, cl]), ('cl-zero-padded', [CT, ('Content-Length', '000' + str(len(body)))])]

def fill_to(total, fixed, unit):
    """how many `unit`-byte characters fill a request of `fixed` other bytes up to exactly `total` bytes (None if it does not divide)"""
    room = total - fixed
    if room <= 0 or room % unit: return None
    return room // unit

# =====================================================================================================================
# SECOND audit pass (audit/C17/AUDIT2.md): input RELATIONS that a well-meant feature or clean-up of the decoders, of the request
# reader or of the echo controllers would hinge on - tolerance (quotes, numbers, array names, other escape syntaxes, comment signs,
# media-type parameters), robustness (cuts at a byte offset, chunked processing), speed (memo keyed by part of the input, a buffer
# reused between two calls), settings (another request allocation size), refactoring (the handler without the server in front).
# Everything is a deterministic function of its arguments; nothing here judges an answer.

def enc_len(s):
    """number of bytes the encoder prints for a printable text"""
    return sum(3 if ch in ESC_PRINT else len(ch.encode()) for ch in s)

# a unit repeated n times behind 0..w-1 filler bytes: for EVERY byte offset W inside the run and every frame the run lies in (the value,
# the pair, the query, the request target, the body, the whole request, the echo line, the answer) exactly one shift has a unit starting
# at W and the others have a multi-byte character - or an escape triplet - straddling it
SWEEP_UNITS_QUICK = ['é', '€', '\U0001F600', ' ', '%', 'é ']
SWEEP_UNITS_MORE = ['=\U0001F600', '€+', 'ab€', '\U0001F600 \U0001F600&']
def align_sweeps(quick, room=9600):
    out = []
    rooms = (room,) if quick else (room, 4200, 1100)
    for r in rooms:
        for u in SWEEP_UNITS_QUICK + ([] if quick else SWEEP_UNITS_MORE):
            w = enc_len(u)
            for sh in range(w):
                out.append(('value', {'k': 'a' * sh + u * ((r - sh) // w)}))
        for u in (('é', '€') if quick else ('é', '€', '\U0001F600', ' ')):
            w = enc_len(u)
            for sh in range(w):
                out.append(('name', {'a' * sh + u * ((r - sh) // w): 'v'}))
    return out

def chunk_residue_texts(quick):
    """one escaped / wide character at EVERY offset 0..33 (thorough ..129) of a run of plain bytes, followed by tails of every residue
    of the usual block sizes (8, 16, 32, 64): a scanner that works block-wise with a remainder loop, or a decoder with a look-ahead of
    two bytes, meets the character in the last block, across two blocks and in the remainder"""
    out = []
    tails = (0, 1, 2, 3, 7, 8, 15, 16, 17, 31, 32) if quick else tuple(range(0, 67))
    for e in (' ', '%', 'é', '\U0001F600', '&=', '%20'):
        for i in range(0, 34 if quick else 130):
            for j in tails:
                out.append('a' * i + e + 'b' * j)
    return out

def chunk_residue_maps(quick):
    out = []
    for e in (' ', '%', 'é', '\U0001F600', '&=', '%20'):
        for i in ((5, 6, 13, 14, 29, 30, 61, 62) if quick else range(0, 70)):
            for j in (0, 1, 7, 8):
                out.append({'k': 'a' * i + e + 'b' * j, 'a' * i + e: 'b' * j + e})
    return out

# names equal under the SPECIAL-CASING rules (one character becomes two or three; the byte length changes under to_lowercase /
# to_uppercase), title-case digraphs, enclosed and astral letters: distinct fields all the same
FOLD_FAMILIES2 = [['ŉ', 'ʼn', 'ʼN'], ['ǰ', 'J̌', 'ǰ'], ['ﬃ', 'ffi', 'FFI', 'Ffi'], ['ᾳ', 'ΑΙ', 'αι', 'ᾼ'], ['ﬅ', 'ﬆ', 'st', 'ST'],
                  ['Ⅷ', 'ⅷ', 'VIII', 'viii'], ['ⓐ', 'Ⓐ', 'a'], ['ᲀ', 'в', 'В'], ['\U00010428', '\U00010400'], ['ßßß', 'SSSSSS', 'ssssss', 'ẞẞẞ'],
                  ['İstanbul', 'istanbul', 'i̇stanbul', 'ISTANBUL', 'ıstanbul', 'Istanbul'], ['Ǆ', 'ǅ', 'ǆ', 'DŽ', 'Dž', 'dž'], ['ΌΣΟΣ', 'όσος', 'όσοσ', 'Όσος']]

QUOTED = [{'q': '"abc"', 'r': 'abc', 's': "'abc'", 't': '"', 'u': '""', 'v': '"a', 'w': 'a"'}, {'"k"': '1', 'k': '2', "'k'": '3', '"k': '4', 'k"': '5'},
          {'a': '"x y"', 'b': '"x&y=z"', 'c': '“x”', 'd': '«x»', 'e': '`x`', 'f': '(x)', 'g': '<x>', 'h': '[x]', 'i': '{x}'},
          {'q': '"a"b"', 'r': '"a" "b"', 's': '\\"a\\"', 't': '"a\\"', 'u': "'it''s'", 'v': "''", 'w': '"\'"'}, {'only': '"quoted value"'}, {'"quoted name"': 'v'}]

BRACKETS = [{'a': '0', 'a[]': '1', 'a[0]': '2', 'a[1]': '3', 'a[b]': '4', 'a[b][c]': '5', 'a.b': '6', 'a.b.c': '7', '[]': '8', 'a[': '9', 'a]': '10', '[a]': '11'},
            {'tags[]': 'x', 'tags': 'y'}, {'user[name]': 'n', 'user[age]': '7', 'user.name': 'm', 'user': 'u', 'user[]': 'v'},
            {'m[0]': 'a', 'm[1]': 'b', 'm[2]': 'c', 'm[10]': 'd', 'm[01]': 'e', 'm[-1]': 'f', 'm[ 1]': 'g', 'm[1][0]': 'h'}, {'x[0]': 'only'}, {'x[]': 'only'},
            {'l[1]': 'b', 'l[0]': 'a'}, {'a[0]': '1,2', 'a[1]': '3', 'b': '1,2,3'}, {'a[0]': 'x', 'a': 'y'}, {'p.0': 'a', 'p.1': 'b', 'p': 'c', 'p.': 'd', '.p': 'e'},
            {'a[0]': '', 'a[1]': ''}, {'k[é]': '1', 'k[€]': '2', 'é[0]': '3', 'é[1]': '4'}]

FOREIGN = ['%u00E9', '%u0026', '%U0026', '%u003D', '\\u0026', '\\u00e9', '\\U0001F600', '\\x26', '\\x3D', '\\046', '&#38;', '&#x26;', '&#x3d;', '&#61', '&eacute;', '&nbsp;',
           '&quot;', '\\&', '\\=', '\\+', '\\\\', '\\%', '\\ ', '^&', '`&', '=?UTF-8?Q?a=3Db?=', '=?utf-8?B?YQ==?=', 'YQ==', 'YWI=', 'YWJj', '=3D', '=C3=A9', '=\\r\\n',
           '%%20', '%+', '+%', '%\\', 'U+0026', '0x26', '&;', '%;', '%e9', '%E9', '%C3%A9', '%c3%a9', '%F0%9F%98%80', '%C3', '%A9', '%FF', '%00', '%0', '%7F', '%80']

TYPED = ['007', '7', '1.50', '1.5', '+1', '1', '-0', '0', '0.0', '1e3', '1E3', '1000', '0x1F', '31', '1_000', '1,000', ' 42', '42 ', 'TRUE', 'true', 'True', 'null',
         'NULL', 'nil', 'None', 'undefined', 'NaN', 'Infinity', '-Infinity', 'on', 'off', 'yes', 'no', '[]', '{}', '[1,2]', '{"a":1}', '""', '0777', '08', '١٢٣', '１２３',
         '1.0E+2', '.5', '5.', '²', '0b101', '1/2', '00', '000', '-', '+', '.', '1e', '9' * 25, '18446744073709551616', '-9223372036854775809', '2024-01-01', '12:30']

COMMENT_START = ['#', ';', '//', '--', '!', '/*', '<!--', 'REM ', "'", '# ', '[', ':', '@', '~', '\\', '\\\\', '>', '|', '-', '*']
COMMENT_END = ['\\', ' \\', '/*', '-->', '*/', '_', '&', '=', '?', '#', ';', ',', '.', ' ', '...', '\\\\', '^', '`', '~', '+', '%', '-', '|']

def feature_maps():
    """[(class, map)]: the relation each map carries is named by its class"""
    out = []
    for m in QUOTED: out.append(('quoted', m))
    for m in BRACKETS: out.append(('bracket-names', m))
    for i in range(0, len(FOREIGN), 6):
        chunk = FOREIGN[i:i + 6]
        out.append(('foreign-escapes', {'f%d' % j: t for j, t in enumerate(chunk)}))
        out.append(('foreign-escapes', {t: 'g%d' % j for j, t in enumerate(chunk)}))
        out.append(('foreign-escapes', {t: 'x' + t + 'y' + t for t in chunk}))
    for i in range(0, len(TYPED), 10):
        chunk = TYPED[i:i + 10]
        out.append(('typed-values', {'n%d' % j: t for j, t in enumerate(chunk)}))
        out.append(('typed-values', {t: 'x%d' % j for j, t in enumerate(chunk)}))
    out.append(('typed-values', {'id': '007', 'ID': '7', 'Id': '7.0'}))
    for i in range(0, len(COMMENT_START), 5):
        chunk = COMMENT_START[i:i + 5]
        m = {'a': '1'}
        for j, s in enumerate(chunk): m[s + 'c%d' % j] = s + ' said ' + s
        m['zz'] = 'last'
        out.append(('comment-signs', m))
        out.append(('comment-signs', {s: s for s in chunk}))
    for i in range(0, len(COMMENT_END), 6):
        chunk = COMMENT_END[i:i + 6]
        out.append(('comment-signs', {'e%d' % j: 'value' + t for j, t in enumerate(chunk)}))
        out.append(('comment-signs', {'name' + t: 'v%d' % j for j, t in enumerate(chunk)}))
    out += [('comment-signs', m) for m in ({'[section]': 'x', 'key: value': 'y', 'k = v': 'z', 'a:b': 'c', 'a = b': 'c = d'}, {'a': 'line\\', 'b': 'next'}, {'a\\': 'b', 'c': 'd\\'},
                                           {'#a': '1', 'a': '2', ';a': '3', '//a': '4'}, {'last': '#'}, {'last': 'x#y'}, {'#': 'first', 'b': '2'})]
    for fam in FOLD_FAMILIES2:
        out.append(('special-casing', {k: str(i + 1) for i, k in enumerate(fam)}))
        out.append(('special-casing', {'x' + k + 'y': k for k in fam}))
    out += [('self-reference', m) for m in ({'next': '/form-get-method?a=1&b=2', 'a': '0'}, {'url': 'http://localhost:7878/form-get-method?x=1#f', 'x': '2'},
            {'form-get-method?': 'form-get-method?', '/form-url-encoded-enctype-post-method': 'POST'}, {'q': 'a=1&b=2', 'a': '3', 'b': '4'}, {'a': '1&a=2'},
            {'a': '1', 'a=1': 'a', '&a': '=1'}, {'k': 'HTTP/1.1', 'GET': '/ HTTP/1.1', 'POST /x HTTP/1.1': ''}, {'Content-Length': '0', 'Content-Type': 'text/plain', 'Host': 'h'},
            {'_charset_': 'UTF-8', 'charset': 'iso-8859-1', '_method': 'DELETE', 'isindex': 'x'}, {'a': 'a is a', 'a is a': 'a'}, {'?': '?', '??': '?'}, {'q?': 'x?', 'z': '?'})]
    out += [('minimal', m) for m in ({'k': ''}, {'k': ' '}, {' ': ' '}, {'k': 'k'}, {'=': '='}, {'&': '&'}, {'?': ''}, {'0': ''}, {'é': ''}, {'%': ''}, {'+': ''}, {'\U0001F600': ''})]
    return [(c, m) for c, m in out if m and all(k and printable(k) and printable(v) for k, v in m.items())]

def history_sequences(quick):
    """sequences of maps sent ONE AFTER THE OTHER to the same process (codec ops, and each echo endpoint): what a memo keyed by part of
    the input (length, prefix, lower-cased text, the names only), or a buffer kept between two calls, gets wrong on the SECOND use"""
    seqs = []
    for n in ((16, 64, 256, 1024) if quick else (8, 16, 31, 32, 33, 64, 128, 256, 1024, 4096)):
        pre = 'x' * n
        seqs.append([{'k': pre + '1'}, {'k': pre + '2'}, {'k': pre + '1'}, {pre + 'a': '1'}, {pre + 'b': '1'}, {pre + 'a': '2'}, {'k': pre + 'é'}, {'k': pre + 'ê'}])
        # ... and one character apart in the MIDDLE only: the same length, the same first and the same last n bytes
        seqs.append([{'k': pre + '1' + pre}, {'k': pre + '2' + pre}, {'first': pre, 'mid': '1', 'z': pre}, {'first': pre, 'mid': '2', 'z': pre}, {'first': pre, 'mie': '1', 'z': pre},
                     {'k': pre + 'é' + pre}, {'k': pre + 'ê' + pre}, {'k': pre + ' ' + pre}, {'k': pre + '%' + pre}, {'k': pre + '1' + pre}])
    # equal length, equal prefix, one character apart at the very end; equal under lower-casing / folding
    seqs.append([{'name': 'Value', 'other': 'x'}, {'name': 'value', 'other': 'x'}, {'Name': 'value', 'other': 'x'}, {'NAME': 'VALUE', 'OTHER': 'X'}, {'name': 'Value', 'other': 'x'}])
    seqs.append([{'straße': '1'}, {'strasse': '2'}, {'STRASSE': '3'}, {'straẞe': '4'}, {'é': '1'}, {'é': '2'}, {'É': '3'}, {'e': '4'}])
    seqs.append([{'a': '1', 'b': '2'}, {'a': '2', 'b': '1'}, {'b': '1', 'a': '2'}, {'a': '1', 'b': '2', 'c': ''}, {'a': '1', 'b': '2'}, {'a': '', 'b': ''}, {'a': '1', 'b': '2'}])
    # long, then short, then long again: what is left of the longer input must not show in the shorter one
    seqs.append([{'long': 'L' * 500, 'z': '1'}, {'s': '2'}, {'long': 'M' * 300}, {'t': '3'}, {'é' * 100: '€' * 100}, {'u': '4'}, {'k': ' ' * 200}, {'k': ' '}, {'k': '%' * 200}, {'k': '%'},
                 {'k%02d' % i: 'v%d' % i for i in range(20)}, {'k00': 'w'}, {'k%02d' % i: 'w%d' % i for i in range(19, -1, -1)}])
    # the same names with other values, the same values under other names, escapes that print alike
    seqs.append([{'a b': '1'}, {'a+b': '2'}, {'a%20b': '3'}, {'a b': '4'}, {'k': 'a b'}, {'k': 'a+b'}, {'k': 'a%20b'}, {'k': 'a b'}])
    return seqs

def post_param_shapes(body, ascii_only):
    """the media type with the parameters real clients append (jQuery, axios, old browsers: `; charset=UTF-8`); the statement does not
    speak about them: judged only when the endpoint answers 200"""
    cl = ('Content-Length', str(len(body)))
    T = 'application/x-www-form-urlencoded'
    out = [('ct-charset', [('Content-Type', T + '; charset=UTF-8'), cl]), ('ct-charset-lower', [('Content-Type', T + ';charset=utf-8')]),
           ('ct-charset-quoted', [('Content-Type', T + '; charset="utf-8"'), cl]), ('ct-charset-utf8', [cl, ('Content-Type', T + '; charset=utf8')]),
           ('ct-semicolon', [('Content-Type', T + ';')]), ('ct-blanks', [('Content-Type', ' ' + T + '  '), cl]), ('ct-boundary', [('Content-Type', T + '; boundary=x')])]
    if ascii_only:
        out += [('ct-charset-latin1', [('Content-Type', T + '; charset=ISO-8859-1'), cl]), ('ct-charset-ascii', [('Content-Type', T + '; charset=us-ascii')])]
    return out
