"""Input classes for C05 (responses well-formed, self-consistent, delivered in full) that the grammar / mutation generators of
props/c05.py reach only by luck.  Every family below is a deterministic function of the seeded PRNG handed in.

  sites_batch     every place the server writes a response (read error, unparsable request, target not in origin form, failing
                  handler, answer of the handler - on both entry points) under every kind of transport script
  framing_batch   every method x every route kind x both entry points; ranges (none, one, many, unsatisfiable, malformed) x
                  GET / HEAD / OPTIONS x every lookup step; body sizes where the length gains a digit or fills a buffer; every
                  branch of the form / upload handlers; bodies whose character and byte counts differ; answers without any part
  echo_batch      a CR at every position of a reflected value, on every reflecting header, in every spelling of its name, given
                  twice, first / in the middle / last / unterminated, cut by the request buffer at every byte of the line
  length_batch    responses whose total length is exactly a power-of-two block (+-2) under block-sized writes; thousands of
                  one-byte writes
  config_batches  the configured (not allow-all) CORS path, and the request buffer size of the legacy entry point (environment)
"""
from vlib import common as C, serve as S, reqgen as G, servecheck as K

MARK = 'zzinjected'          # the value of a header line that only client text could have added
ECHO = ('Origin', 'Access-Control-Request-Method', 'Access-Control-Request-Headers')

def _raw_case(tree, method, raw, **kw):
    return K.mk(tree, method, '?', raw=raw, **kw)

def read_error_case(tree, entry, ws='all', flush='ok', kind='read-error'):
    c = K.mk(tree, 'GET', '/', entry=entry, ws=ws, flush=flush, kind=kind)
    c.line = f'proc real 10000 e {ws} {flush}' if entry == 'proc' else S.preq_line(b'', ws=ws, flush=flush, read_err=True)
    return c

def own_files(tree):
    """files of this check's own, next to whatever gen_tree drew"""
    root = tree.cwd + b'/'
    sizes = [2, 9, 10, 99, 100, 999, 1000, 4095, 4096, 4097, 9999, 10000, 10001]
    tree.file(root + b'empty.txt', b'').file(root + b'one.txt', b'1')
    for n in sizes:
        tree.file(root + b's%d.bin' % n, bytes((j * 37 + n) & 0xff for j in range(n)))
    tree.file(root + b'docs/index.html', b'<p>docs index</p>').file(root + b'about.html', b'<p>about</p>')
    tree.file(root + b'uni.txt', 'zażółć gęślą jaźń \U0001f600   end'.encode())
    tree.file(root + b'crlf.txt', b'\r\n\r\nHTTP/1.1 200 OK\r\nContent-Length: 0\r\n\r\n')
    tree.link(root + b'ln.txt', b's100.bin')
    return sizes

# ------------------------------------------------------------------------------------------------ write sites x transport
def scripts(rng, tier):
    step = 1 if tier != 'quick' else 41
    off = 0 if tier != 'quick' else rng.below(step)
    ss = ['all', 'c:1', 'c:2', 'c:3', 'c:7', 'c:64', 'c:500', 'c:1011', 'c:1012', 'c:1013', 'e:0', 'e:1', 's:1.1.1.1', 's:500.1.2.3', 's:1000.1', 's:1012', 's:1016']
    ss += [f's:{k}' for k in range(1 + off, 1400, step)]
    ss += [f's:{rng.range(1, 1200)}.{rng.range(1, 5)}.{rng.range(1, 300)}' for _ in range(6)]
    return ss

def sites(tree):
    """(name, factory(ws, flush)) for every place a response is written"""
    multipart = b'--B\r\nContent-Disposition: form-data; name="a"\r\n\r\nv\r\n--B--\r\n'
    out = []
    def add(name, f): out.append((name, f))
    for e in ('proc', 'preq'):
        add(f'{e}/read-error', lambda ws, fl, e=e: read_error_case(tree, e, ws, fl, kind='site'))
        add(f'{e}/unparsable-bytes', lambda ws, fl, e=e: _raw_case(tree, 'GET', b'\xff\xfe / HTTP/1.1\r\n\r\n', entry=e, ws=ws, flush=fl, kind='site'))
        add(f'{e}/unknown-method', lambda ws, fl, e=e: _raw_case(tree, 'GET', b'BOGUS / HTTP/1.1\r\nOrigin: http://o\r\n\r\n', entry=e, ws=ws, flush=fl, kind='site'))
        for m in ('GET', 'HEAD', 'OPTIONS'):
            add(f'{e}/not-origin-form/{m}', lambda ws, fl, e=e, m=m: K.mk(tree, m, 'x', [('Origin', 'http://o')], entry=e, ws=ws, flush=fl, kind='site'))
            add(f'{e}/file/{m}', lambda ws, fl, e=e, m=m: K.mk(tree, m, '/s100.bin', [('Origin', 'http://o')], entry=e, ws=ws, flush=fl, kind='site'))
        add(f'{e}/missing', lambda ws, fl, e=e: K.mk(tree, 'GET', '/missing', entry=e, ws=ws, flush=fl, kind='site'))
        add(f'{e}/multi-range', lambda ws, fl, e=e: K.mk(tree, 'GET', '/s100.bin', [('Range', 'bytes=0-3,5-8')], entry=e, ws=ws, flush=fl, kind='site'))
        add(f'{e}/empty-file', lambda ws, fl, e=e: K.mk(tree, 'GET', '/empty.txt', entry=e, ws=ws, flush=fl, kind='site'))
        add(f'{e}/form-echo', lambda ws, fl, e=e: K.mk(tree, 'POST', '/form-multipart-enctype-post-method', [('Content-Type', 'multipart/form-data; boundary=B')], multipart, entry=e, ws=ws, flush=fl, kind='site'))
        add(f'{e}/no-part', lambda ws, fl, e=e: K.mk(tree, 'POST', '/file-upload/initiate', entry=e, ws=ws, flush=fl, kind='site'))
    for m in ('GET', 'HEAD', 'OPTIONS'):
        add(f'proc/handler-error/{m}', lambda ws, fl, m=m: K.mk(tree, m, '/s100.bin', app='err:' + C.hx('handler failed: é'), ws=ws, flush=fl, kind='site'))
    add('proc/handler-no-headers', lambda ws, fl: K.mk(tree, 'GET', '/', app='okempty', ws=ws, flush=fl, kind='site'))
    return out

def sites_batch(rng, tier, part=0, parts=1):
    """`parts` > 1: the part-th slice of the sites (the thorough sweep is spread over several harness processes)"""
    tree = S.gen_tree(rng, small=True); own_files(tree)
    cases = []
    ss = scripts(rng, tier)
    for name, f in sites(tree)[part::parts]:
        for ws in ss: cases.append(f(ws, 'ok'))
        cases.append(f('all', 'e')); cases.append(f('c:5', 'e'))
    return tree, cases

# ------------------------------------------------------------------------------------------------ framing
RANGES = ['bytes=0-', 'bytes=0-0', 'bytes=-1', 'bytes=0-3,5-8', 'bytes=0-0,0-0', 'bytes=0-1,2-3,4-5', 'bytes=' + ','.join(f'{i}-{i}' for i in range(40)),
          'bytes=0-0,-1', 'bytes=5-1', 'bytes=200-', 'bytes=0-3,200-', 'bits=0-1', 'bytes=', 'bytes=0-99', 'bytes=0-100', 'bytes=99-', 'bytes=0-3, 5-8',
          'bytes=0-3,', 'bytes=,0-3', 'bytes=0-3,5-8,', 'bytes=1-1,1-1,1-1']

MULTIPART_BODIES = [   # one for every branch of the multipart handler
    ('multipart/form-data; boundary=B', b'--B\r\nContent-Disposition: form-data; name="a"\r\n\r\nv\r\n--B--\r\n'),
    ('multipart/form-data; boundary=B', b'--B\r\nContent-Disposition: form-data; name="a"\r\n\r\nv\r\n--B\r\nContent-Disposition: form-data; name="b"\r\n\r\nw\r\n--B--\r\n'),
    ('multipart/form-data; boundary=', b'--B\r\n'), ('multipart/form-data; boundary=B', b''), ('multipart/form-data; boundary=B', b'no boundary here'),
    ('multipart/form-data; boundary=B', b'--B\r\nX: y\r\n\r\nv\r\n--B--\r\n'), ('multipart/form-data; boundary=B', b'--B\r\nContent-Disposition: \r\n\r\nv\r\n--B--\r\n'),
    ('multipart/form-data; boundary=B', b'--B\r\nContent-Disposition: attachment\r\n\r\nv\r\n--B--\r\n'), ('multipart/form-data; boundary=B', b'--B\r\nContent-Disposition: form-data\r\n\r\nv\r\n--B--\r\n'),
    ('multipart/form-data; boundary=B', b'--B\r\nContent-Disposition: form-data; name="a"\r\n\r\n\x80\r\n--B--\r\n'), ('multipart/form-data; boundary=B', b'--B\r\nContent-Disposition: form-data; name="a"\r\n\r\n\xc0\xaf\r\n--B--\r\n'),
    ('multipart/form-data; boundary=B', b'--B\r\nContent-Disposition: form-data; name="a"\r\n\r\nok\r\n--B\r\nContent-Disposition: form-data; name="b"\r\n\r\n\xff\r\n--B--\r\n'),
    ('multipart/form-data; boundary=B', 'ż'.join(['--B\r\nContent-Disposition: form-data; name="', '"\r\n\r\n', '\U0001f600\r\n--B--\r\n']).encode()),
    ('multipart/form-data; boundary=B', b'--B\r\nContent-Disposition: form-data; name="a"\r\n\r\n\r\n--B--\r\n'), ('multipart/form-data; boundary=B', b'--B--\r\n'),
    ('Multipart/Form-Data; boundary=B', b'--B\r\nContent-Disposition: form-data; name="a"\r\n\r\nv\r\n--B--\r\n'), ('multipart/form-data', b'--B--'),
]
URLENC_BODIES = [b'a=1&b=2', b'', b'a', b'\xff\xfe', b'a=%zz', b'a=%C3%A9&%C5%BC=%F0%9F%98%80', 'ż=ź'.encode(), b'a=%0D%0AX-Evil:%201', b'a=1\r\nb=2', b'=', b'&&&', b'a=' + b'v' * 3000]
QUERIES = ['', '?', '?a=1', '?a=1&b=2', '?%C3%A9=%C5%BC', '?ż=ź', '?a=%0D%0AX-Evil:%201', '?a', '?=', '?a=1#f', '#f', '?a=' + 'v' * 3000, '?name=a&lastModified=1&size=2', '?name=a', '?name=a&lastModified=1',
           '?lastModified=1&size=2', '?name=%C3%A9&lastModified=1&size=2', '?name=a&name=b&lastModified=1&size=2&size=3']

def framing_batch(rng, tier):
    tree = S.gen_tree(rng, small=True); sizes = own_files(tree)
    cases = []
    form_ct = {'/form-url-encoded-enctype-post-method': ('application/x-www-form-urlencoded', b'a=1&b=2'),
               '/form-multipart-enctype-post-method': MULTIPART_BODIES[0]}
    routes = ['/', '/style.css', '/script.js', '/favicon.svg', '/form-get-method', '/form-get-method?a=1', '/file-upload/initiate?name=a&lastModified=1&size=2', '/file-upload/initiate',
              '/form-url-encoded-enctype-post-method', '/form-multipart-enctype-post-method', '/empty.txt', '/one.txt', '/s100.bin', '/uni.txt', '/crlf.txt', '/docs', '/docs/', '/about', '/ln.txt',
              '/missing', '/docs/missing', '/empty.txt/', 'x', '*', 'http://a/b', '/../x', '/%zz', '/s100.bin?q=1', '/s100.bin#f']
    methods = G.METHODS + ['head', 'Options', 'get']
    for t in routes:
        for m in methods:
            for e in ('proc', 'preq'):
                hs = [('Origin', 'http://o')] if rng.chance(1, 2) else []
                body = b''
                if t in form_ct: hs.append(('Content-Type', form_ct[t][0])); body = form_ct[t][1]
                if m == 'OPTIONS' and rng.chance(1, 2): hs += [('Access-Control-Request-Method', 'PUT'), ('Access-Control-Request-Headers', 'X-One, X-Two')]
                cases.append(K.mk(tree, m, t, hs, body, version=rng.choice(G.VERSIONS) if rng.chance(1, 8) else 'HTTP/1.1', entry=e, kind='method-route'))
    # ranges on every lookup step, the three methods whose answers are framed differently
    for t in ('/s100.bin', '/empty.txt', '/one.txt', '/docs/', '/docs', '/about', '/ln.txt', '/', '/missing', '/style.css'):
        for rv in RANGES:
            for m in ('GET', 'HEAD', 'OPTIONS'):
                e = 'preq' if rng.chance(1, 3) else 'proc'
                hs = [('Range', rv)]
                if rng.chance(1, 3): hs.insert(rng.below(2), ('Origin', 'http://o'))
                cases.append(K.mk(tree, m, t, hs, entry=e, kind='range-method'))
    for name in ('range', 'RANGE', 'Range'):          # the header given twice, in other spellings
        for m in ('GET', 'HEAD', 'OPTIONS'):
            cases.append(K.mk(tree, m, '/s100.bin', [(name, 'bytes=0-3,5-8'), ('Range', 'bytes=0-0')], entry=rng.choice(['proc', 'preq']), kind='range-method'))
            cases.append(K.mk(tree, m, '/s100.bin', [('Range', 'bytes=0-0'), (name, 'bytes=0-3,5-8')], entry=rng.choice(['proc', 'preq']), kind='range-method'))
    # body sizes where the length gains a digit / fills a buffer
    for n in sizes:
        for m in ('GET', 'HEAD', 'OPTIONS'):
            for e in ('proc', 'preq'):
                cases.append(K.mk(tree, m, '/s%d.bin' % n, [('Origin', 'http://o')] if rng.chance(1, 2) else [], entry=e, kind='body-size'))
        cases.append(K.mk(tree, 'GET', '/s%d.bin' % n, [('Range', 'bytes=0-%d' % (n - 1))], kind='body-size'))
        cases.append(K.mk(tree, 'GET', '/s%d.bin' % n, [('Range', 'bytes=1-')], entry='preq', kind='body-size'))
    # every branch of the handlers that build their own answers
    for ct, body in MULTIPART_BODIES:
        for e in ('proc', 'preq'):
            cases.append(K.mk(tree, 'POST', '/form-multipart-enctype-post-method', [('Content-Type', ct)], body, entry=e, kind='handler-branch'))
    for body in URLENC_BODIES:
        for e in ('proc', 'preq'):
            cases.append(K.mk(tree, 'POST', '/form-url-encoded-enctype-post-method', [('Content-Type', rng.choice(['application/x-www-form-urlencoded', 'Application/X-WWW-Form-Urlencoded']))], body, entry=e, kind='handler-branch'))
    for q in QUERIES:
        for e in ('proc', 'preq'):
            cases.append(K.mk(tree, 'GET', '/form-get-method' + q, entry=e, kind='handler-branch'))
            cases.append(K.mk(tree, 'POST', '/file-upload/initiate' + q, entry=e, kind='handler-branch'))
    # failing handler / handler without headers: texts whose character and byte counts differ, every method
    for msg in ('', 'boom', '\u00e9', 'za\u017c\u00f3\u0142\u0107', 'e\u0301', '\U0001f600' * 3, '\U0001f600xx', 'a\r\nX-Evil: 1\r\n\r\nbody', 'x' * 5000, '\x00'):
        for m in ('GET', 'HEAD', 'OPTIONS', 'POST'):
            # (the model is handed the opaque text of a body-less answer as "that many characters, that many bytes": S.err_text can
            # only rebuild it when the bytes are at most twice the characters)
            if m in ('HEAD', 'OPTIONS') and len(msg.encode()) > 2 * len(msg): continue
            cases.append(K.mk(tree, m, '/s100.bin', [('Origin', 'http://o')], app='err:' + C.hx(msg), kind='handler-error'))
    for m in G.METHODS:
        cases.append(K.mk(tree, m, rng.choice(routes), [('Origin', 'http://o')], app='okempty', kind='handler-no-headers'))
    # framing headers on the REQUEST are no business of the response
    for hs in ([('Content-Length', '5')], [('Transfer-Encoding', 'chunked')], [('Content-Range', 'bytes 0-1/2')], [('Content-Type', 'text/evil')],
               [('Content-Length', '0'), ('Content-Length', '0')], [('content-length', '100'), ('Origin', 'http://o')]):
        for m in ('GET', 'HEAD', 'OPTIONS'):
            cases.append(K.mk(tree, m, rng.choice(['/s100.bin', '/empty.txt', '/missing', '/']), hs, b'hello', entry=rng.choice(['proc', 'preq']), kind='request-framing-headers'))
    # spellings of the request line that still name HEAD / OPTIONS (or no longer do): the judge reads the method off the bytes itself
    for m in ('HEAD', 'OPTIONS', 'GET'):
        for line in ('%s /s100.bin HTTP/1.1', ' %s /s100.bin HTTP/1.1', '\t%s /s100.bin HTTP/1.1', '\r\n%s /s100.bin HTTP/1.1', '%s  /s100.bin HTTP/1.1', '%s /s100.bin  HTTP/1.1',
                     '%s /s100.bin HTTP/1.1 ', '%s /s100.bin http/1.1', '%s /s100.bin HTTP/2.0', '%s /s100.bin HTTP/1.1\t', '%s\t/s100.bin HTTP/1.1', '%s /s100 .bin HTTP/1.1',
                     '\u00a0%s /s100.bin HTTP/1.1', '%s /s100.bin HTTP/1.1\u2003', '%s /s100.bin', '%s', '%s /s100.bin HTTP/1.1\r', '\x0b%s /s100.bin HTTP/1.1\x0c'):
            for e in ('proc', 'preq'):
                raw = (line % m).encode() + b'\r\nOrigin: http://o\r\nRange: bytes=0-3,5-8\r\n\r\n'
                cases.append(_raw_case(tree, '?', raw, entry=e, kind='request-line'))
    cases.append(read_error_case(tree, 'proc')); cases.append(read_error_case(tree, 'preq'))
    return tree, cases

# ------------------------------------------------------------------------------------------------ echo
CRVALS = ['\rX-Evil: 1', 'a\rX-Evil: 1', 'a\r', '\r\r', 'a\rb\rc', 'a\r\rb', 'a \r b', '\ra', 'a\r\tb', 'a\r b', 'é\rü', 'a\x00\rb', ' X-Evil: 1', 'a b', 'a\x1c\x1d\x1e\x1f\rb',
          'a\r' * 20, 'a\rVary: ' + MARK, '\rContent-Length: 0', 'a%0d%0aVary: ' + MARK, 'a\\r\\nVary: ' + MARK, 'a\r' + 'x' * 300, 'x' * 300 + '\rb', 'a\x0b\x0c\x85\rb']

def echo_request(method, target, site, value, eol=b'\r\n', name=None, extra_before=(), extra_after=(), end=None):
    """raw request that carries `value` on the reflecting header `site`"""
    hs = list(extra_before)
    if site != 'Origin': hs.append(('Origin', 'http://o'))
    hs.append((name or site, value))
    hs += list(extra_after)
    raw = G.req(method, target, 'HTTP/1.1', hs, b'', eol=eol)
    return raw if end is None else raw[:len(raw) - len(eol)] + end

def echo_batch(rng, tier):
    tree = S.gen_tree(rng, small=True); own_files(tree)
    paths = ['/s100.bin', '/missing', '/', '/empty.txt', '/docs/', '/form-get-method?a=1']
    cases = []
    def methods_of(site): return ('GET', 'HEAD', 'OPTIONS', 'POST') if site == 'Origin' else ('OPTIONS',)
    for v in CRVALS:
        for site in ECHO:
            for m in methods_of(site):
                for eol in (b'\r\n', b'\n'):
                    for e in ('proc', 'preq'):
                        cases.append(_raw_case(tree, m, echo_request(m, rng.choice(paths), site, v, eol), entry=e, kind='echo-cr', note=MARK))
    for m in G.METHODS:                       # reflection of Origin does not depend on the method: all nine
        for v in ('a\rX-Evil: 1', '\r', 'a\rVary: ' + MARK, '', ' ', '\t', ' \r '):
            cases.append(_raw_case(tree, m, echo_request(m, rng.choice(paths), 'Origin', v), entry=rng.choice(['proc', 'preq']), kind='echo-cr', note=MARK))
    # bytes that are not UTF-8 in, before and after the reflected line (the header block ends there)
    for site in ECHO:
        for bad in (b'a\xffb', b'\xc3', b'a\rb\xff', b'\xed\xa0\x80'):
            pre = b'OPTIONS /s100.bin HTTP/1.1\r\n' + (b'Origin: http://o\r\n' if site != 'Origin' else b'')
            for raw in (pre + site.encode() + b': ' + bad + b'\r\n\r\n', pre + b'X-B: ' + bad + b'\r\n' + site.encode() + b': a\rb\r\n\r\n', pre + site.encode() + b': a\rb\r\nX-B: ' + bad + b'\r\n\r\n'):
                cases.append(_raw_case(tree, 'OPTIONS', raw, entry=rng.choice(['proc', 'preq']), kind='echo-not-utf8'))
    # the reflecting header in other spellings of its name
    for site in ECHO:
        for name in (site.lower(), site.upper(), site.swapcase(), site.title()):
            for v in ('a\rX-Evil: 1', 'a\r', '\rb', 'a\rVary: ' + MARK):
                cases.append(_raw_case(tree, 'OPTIONS', echo_request('OPTIONS', rng.choice(paths), site, v, name=name), entry=rng.choice(['proc', 'preq']), kind='echo-name-case', note=MARK))
    # given twice: clean then hostile, hostile then clean, both hostile - same and other spelling
    for site in ECHO:
        for other in (site, site.lower()):
            for first, second in (('http://clean', 'a\rX-Evil: 1'), ('a\rX-Evil: 1', 'http://clean'), ('a\rb', 'c\rVary: ' + MARK)):
                for e in ('proc', 'preq'):
                    raw = echo_request('OPTIONS', rng.choice(paths), site, first, extra_after=[(other, second)])
                    cases.append(_raw_case(tree, 'OPTIONS', raw, entry=e, kind='echo-twice', note=MARK))
    # first, in the middle, last among many; the last line unterminated, ended by CR only, followed by nothing / by the padding
    filler = [('X-F%d' % i, 'v%d' % i) for i in range(12)]
    for site in ECHO:
        for k in (0, 6, 12):
            cases.append(_raw_case(tree, 'OPTIONS', echo_request('OPTIONS', rng.choice(paths), site, 'a\rX-Evil: 1', extra_before=filler[:k], extra_after=filler[k:]), entry=rng.choice(['proc', 'preq']), kind='echo-position'))
        for end in (b'', b'\r', b'\n', b'\r\n', b'\r\r', b'\r\r\n'):
            raw = echo_request('OPTIONS', rng.choice(paths), site, 'http://a.example', eol=b'\r\n')
            raw = raw[:-4] + end          # the reflected header is the last thing in the request
            for e in ('proc', 'preq'):
                cases.append(_raw_case(tree, 'OPTIONS', raw, entry=e, kind='echo-unterminated'))
    # separators between name and value
    for sep in (b':', b': ', b':  ', b' : ', b':\t', b': \t', b':\r', b': \r', b' :\r '):
        for site in ECHO:
            raw = b'OPTIONS ' + rng.choice(paths).encode() + b' HTTP/1.1\r\n' + (b'Origin: http://o\r\n' if site != 'Origin' else b'') + site.encode() + sep + b'a\rX-Evil: 1\r\n\r\n'
            cases.append(_raw_case(tree, 'OPTIONS', raw, entry=rng.choice(['proc', 'preq']), kind='echo-separator'))
    # continuation lines that name a header the server emits itself
    for site in ECHO:
        for cont in (b' Vary: ' + MARK.encode(), b'\tVary: ' + MARK.encode(), b' \rVary: ' + MARK.encode()):
            for eol in (b'\r\n', b'\n', b'\r'):
                raw = b'OPTIONS /s100.bin HTTP/1.1' + eol + (b'Origin: http://o' + eol if site != 'Origin' else b'') + site.encode() + b': http://a' + eol + cont + eol + eol
                cases.append(_raw_case(tree, 'OPTIONS', raw, entry=rng.choice(['proc', 'preq']), kind='echo-fold', note=MARK))
    # the request buffer ends at every byte of the reflected header line (between its CR and LF among them)
    for site in ECHO:
        for v in ('http://a.example', 'a\rb'):
            raw = echo_request('OPTIONS', '/s100.bin', site, v, extra_after=[('X-After', 'z')])
            start = raw.index(site.encode() + b': ' + v.encode()[:1])
            stop = start + len(site) + 2 + len(v.encode()) + 2
            for alloc in range(start - 1, stop + 2):
                cases.append(_raw_case(tree, 'OPTIONS', raw, entry='proc', alloc=alloc, kind='echo-buffer-cut'))
    return tree, cases

# ------------------------------------------------------------------------------------------------ lengths
def measure_head(tree_files=None):
    """length of the head of `GET /blk.bin` with a 10-byte Origin and a 5-digit body, asked of the real code (None: could not)"""
    try:
        t = S.Tree(b'root'); t.file(b'root/blk.bin', b'A' * 12345)
        c = K.mk(t, 'GET', '/blk.bin', [('Origin', 'o' * 10)])
        (c, r, il, ml), = K.run_batches([(t, [c])], with_model=False)
        w = r['writes'][0]
        i = w.find(b'\r\n\r\n')
        return i + 4 if i > 0 and w.startswith(b'HTTP/1.1 200') else None
    except Exception:
        return None

def length_batch(rng, tier, head=None):
    tree = S.gen_tree(rng, small=True)
    root = tree.cwd + b'/'
    cases = []
    head = head or 1162          # head of GET /blk.bin, Origin of 10 bytes, 5-digit length
    blocks = [4096, 8192, 16384, 32768, 65536] + ([131072] if tier != 'quick' else [])
    for blk in blocks:
        body = blk - 1500
        d = len(str(body))
        h0 = head - 10 - 3 * 5 + 3 * d           # head with an empty Origin value
        tree.file(root + b'blk%d.bin' % blk, bytes((j * 131 + (j >> 8) * 29 + 17) & 0xff for j in range(body)))
        w = 2 if tier == 'quick' or blk > 65536 else 40 if blk <= 8192 else 8 if blk <= 32768 else 3
        span = range(-w, w + 1)
        for dl in span:
            olen = blk - body - h0 + dl
            if olen < 0: continue
            for ws in ('all', f'c:{blk}', f'c:{blk - 1}', f'c:{blk // 2}', 'c:1000', f's:{blk}', f's:{blk - 1}.1'):
                cases.append(K.mk(tree, 'GET', '/blk%d.bin' % blk, [('Origin', 'o' * olen)], ws=ws, entry=rng.choice(['proc', 'preq']), kind='block-multiple'))
    for m in ('HEAD', 'OPTIONS'):             # a large length announced, nothing sent
        for e in ('proc', 'preq'):
            cases.append(K.mk(tree, m, '/blk65536.bin', [('Origin', 'http://o')], ws=rng.choice(['all', 'c:7', 'c:1000']), entry=e, kind='block-multiple'))
    # very many short writes: a bounded retry loop, a counter, a recursion
    n = 7400 if tier == 'quick' else 12000
    tree.file(root + b'many.bin', bytes((j * 7 + 3) & 0xff for j in range(n)))
    cases.append(K.mk(tree, 'GET', '/many.bin', ws='c:1', kind='many-short-writes'))
    cases.append(K.mk(tree, 'GET', '/many.bin', ws='c:1', entry='preq', kind='many-short-writes'))
    cases.append(K.mk(tree, 'GET', '/many.bin', ws='c:2', kind='many-short-writes'))
    cases.append(K.mk(tree, 'GET', '/many.bin', [('Range', 'bytes=0-99,200-7000')], ws='c:3', kind='many-short-writes'))
    return tree, cases

# ------------------------------------------------------------------------------------------------ environment
def cors_env(**kw):
    d = dict(S.DEFAULT_ENV)
    for k, v in kw.items():
        if v is None: d.pop(k, None)
        else: d[k] = v
    return list(d.items())

def config_batches(rng, tier):
    """[(env pairs, tree, cases)]: the configured CORS path (its own reflection of Origin, configured values in five headers),
    allow-all left unset / unparsable, and the legacy entry point with a request buffer that ends inside the reflected line"""
    out = []
    envs = [cors_env(RWS_CONFIG_CORS_ALLOW_ALL='false', RWS_CONFIG_CORS_ALLOW_ORIGINS='http://o,https://foo.example', RWS_CONFIG_CORS_ALLOW_CREDENTIALS='true',
                     RWS_CONFIG_CORS_ALLOW_HEADERS='X-A,X-B', RWS_CONFIG_CORS_ALLOW_METHODS='GET,POST,OPTIONS', RWS_CONFIG_CORS_EXPOSE_HEADERS='X-C', RWS_CONFIG_CORS_MAX_AGE='600'),
            cors_env(RWS_CONFIG_CORS_ALLOW_ALL='false'),
            cors_env(RWS_CONFIG_CORS_ALLOW_ALL='yes'), cors_env(RWS_CONFIG_CORS_ALLOW_ALL=None)]
    origins = ['http://o', 'https://foo.example', 'http://other', 'http://o\r', '\rhttp://o', 'http://o\rX-Evil: 1', 'http://o,https://foo.example', '', ' http://o', 'HTTP://O', 'http://o\rVary: ' + MARK]
    for env in envs:
        tree = S.gen_tree(rng, small=True); own_files(tree)
        cases = []
        for o in origins:
            for m in ('GET', 'HEAD', 'OPTIONS', 'POST'):
                for e in ('proc', 'preq'):
                    hs = [(rng.choice(['Origin', 'origin']), o)]
                    if m == 'OPTIONS': hs += [('Access-Control-Request-Method', rng.choice(['PUT', 'P\rUT'])), ('Access-Control-Request-Headers', rng.choice(['X-A', 'X-A\rX-Evil: 1']))]
                    cases.append(K.mk(tree, m, rng.choice(['/s100.bin', '/', '/missing', '/empty.txt', 'x']), hs, entry=e, kind='cors-configured', note=MARK))
        cases.append(K.mk(tree, 'OPTIONS', '/s100.bin', [('Origin', 'http://o'), ('Range', 'bytes=0-3,5-8')], ws='c:3', kind='cors-configured'))
        out.append((env, tree, cases))
    # legacy entry point: its buffer size is configuration
    alloc = 96
    env = cors_env(RWS_CONFIG_REQUEST_ALLOCATION_SIZE_IN_BYTES=str(alloc))
    tree = S.gen_tree(rng, small=True); own_files(tree)
    cases = []
    for site in ECHO:
        for v in ('http://a.example', 'a\rb'):
            base = echo_request('OPTIONS', '/s100.bin', site, v, extra_after=[('X-After', 'z')])
            line_end = base.index(site.encode() + b': ') + len(site) + 2 + len(v.encode()) + 2      # just past the LF of the reflected line
            for back in range(0, len(v.encode()) + 6):
                pad = alloc - (line_end - back)
                if pad < 0: continue
                raw = echo_request('OPTIONS', '/s100.bin' + '?' + 'p' * (pad - 1) if pad > 0 else '/s100.bin', site, v, extra_after=[('X-After', 'z')])
                c = _raw_case(tree, 'OPTIONS', raw, entry='preq', kind='echo-buffer-cut'); c.alloc = alloc
                cases.append(c)
    for m in ('GET', 'HEAD', 'OPTIONS'):
        c = K.mk(tree, m, '/s100.bin', [('Origin', 'http://o')], entry='preq', kind='echo-buffer-cut'); c.alloc = alloc; cases.append(c)
    out.append((env, tree, cases))
    return out
