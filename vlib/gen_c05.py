"""Input classes for C05 (responses well-formed, self-consistent, delivered in full) that the grammar / mutation generators of
props/c05.py reach only by luck.  Every family below is a deterministic function of the seeded PRNG handed in.

  sites_batch     every place the server writes a response (read error, unparsable request, target not in origin form, failing
                  handler, answer of the handler - on both entry points) under every kind of transport script
  framing_batch   every method x every route kind x both entry points; ranges (none, one, many, unsatisfiable, malformed) x
                  GET / HEAD / OPTIONS x every lookup step; body sizes where the length gains a digit or fills a buffer; every
                  branch of the form / upload handlers; bodies whose character and byte counts differ; answers without any part
  echo_batch      a CR at every position of a reflected value, on every reflecting header, in every spelling of its name, given
                  twice, first / in the middle / last / unterminated, cut by the request buffer at every byte of the line
  length_batch    responses whose total length is exactly a power-of-two block (+-2) under block-sized writes; thousands of
                  one-byte writes
  config_batches  the configured (not allow-all) CORS path, and the request buffer size of the legacy entry point (environment)
"""
from vlib import common as C, serve as S, reqgen as G, servecheck as K

MARK = 'zzinjected'          # the value of a header line that only client text could have added
ECHO = ('Origin', 'Access-Control-Request-Method', 'Access-Control-Request-Headers')

def _raw_case(tree, method, raw, **kw):
    return K.mk(tree, method, '?', raw=raw, **kw)

def read_error_case(tree, entry, ws='all', flush='ok', kind='read-error'):
    c = K.mk(tree, 'GET', '/', entry=entry, ws=ws, flush=flush, kind=kind)
    c.line = f'proc real 10000 e {ws} {flush}' if entry == 'proc' else S.preq_line(b'', ws=ws, flush=flush, read_err=True)
    return c

def own_files(tree):
    """files of this check's own, next to whatever gen_tree drew"""
    root = tree.cwd + b'/'
    sizes = [2, 9, 10, 99, 100, 999, 1000, 4095, 4096, 4097, 9999, 10000, 10001]
    tree.file(root + b'empty.txt', b'').file(root + b'one.txt', b'1')
    for n in sizes:
        tree.file(root + b's%d.bin' % n, bytes((j * 37 + n) & 0xff for j in range(n)))
    tree.file(root + b'docs/index.html', b'<p>docs index</p>').file(root + b'about.html', b'<p>about</p>')
    tree.file(root + b'uni.txt', 'zażółć gęślą jaźń \U0001f600   end'.encode())
    tree.file(root + b'crlf.txt', b'\r\n\r\nHTTP/1.1 200 OK\r\nContent-Length: 0\r\n\r\n')
    tree.link(root + b'ln.txt', b's100.bin')
    return sizes

# ------------------------------------------------------------------------------------------------ write sites x transport
def scripts(rng, tier):
    step = 1 if tier != 'quick' else 41
    off = 0 if tier != 'quick' else rng.below(step)
    ss = ['all', 'c:1', 'c:2', 'c:3', 'c:7', 'c:64', 'c:500', 'c:1011', 'c:1012', 'c:1013', 'e:0', 'e:1', 's:1.1.1.1', 's:500.1.2.3', 's:1000.1', 's:1012', 's:1016']
    ss += [f's:{k}' for k in range(1 + off, 1400, step)]
    ss += [f's:{rng.range(1, 1200)}.{rng.range(1, 5)}.{rng.range(1, 300)}' for _ in range(6)]
    return ss

def sites(tree):
    """(name, factory(ws, flush)) for every place a response is written"""
    multipart = b'--B\r\nContent-Disposition: form-data; name="a"\r\n\r\nv\r\n--B--\r\n'
    out = []
    def add(name, f): out.append((name, f))
    for e in ('proc', 'preq'):
        add(f'{e}/read-error', lambda ws, fl, e=e: read_error_case(tree, e, ws, fl, kind='site'))
        add(f'{e}/unparsable-bytes', lambda ws, fl, e=e: _raw_case(tree, 'GET', b'\xff\xfe / HTTP/1.1\r\n\r\n', entry=e, ws=ws, flush=fl, kind='site'))
        add(f'{e}/unknown-method', lambda ws, fl, e=e: _raw_case(tree, 'GET', b'BOGUS / HTTP/1.1\r\nOrigin: http://o\r\n\r\n', entry=e, ws=ws, flush=fl, kind='site'))
        for m in ('GET', 'HEAD', 'OPTIONS'):
            add(f'{e}/not-origin-form/{m}', lambda ws, fl, e=e, m=m: K.mk(tree, m, 'x', [('Origin', 'http://o')], entry=e, ws=ws, flush=fl, kind='site'))
            add(f'{e}/file/{m}', lambda ws, fl, e=e, m=m: K.mk(tree, m, '/s100.bin', [('Origin', 'http://o')], entry=e, ws=ws, flush=fl, kind='site'))
        add(f'{e}/missing', lambda ws, fl, e=e: K.mk(tree, 'GET', '/missing', entry=e, ws=ws, flush=fl, kind='site'))
        add(f'{e}/multi-range', lambda ws, fl, e=e: K.mk(tree, 'GET', '/s100.bin', [('Range', 'bytes=0-3,5-8')], entry=e, ws=ws, flush=fl, kind='site'))
        add(f'{e}/empty-file', lambda ws, fl, e=e: K.mk(tree, 'GET', '/empty.txt', entry=e, ws=ws, flush=fl, kind='site'))
        add(f'{e}/form-echo', lambda ws, fl, e=e: K.mk(tree, 'POST', '/form-multipart-enctype-post-method', [('Content-Type', 'multipart/form-data; boundary=B')], multipart, entry=e, ws=ws, flush=fl, kind='site'))
        add(f'{e}/no-part', lambda ws, fl, e=e: K.mk(tree, 'POST', '/file-upload/initiate', entry=e, ws=ws, flush=fl, kind='site'))
    for m in ('GET', 'HEAD', 'OPTIONS'):
        add(f'proc/handler-error/{m}', lambda ws, fl, m=m: K.mk(tree, m, '/s100.bin', app='err:' + C.hx('handler failed: é'), ws=ws, flush=fl, kind='site'))
    add('proc/handler-no-headers', lambda ws, fl: K.mk(tree, 'GET', '/', app='okempty', ws=ws, flush=fl, kind='site'))
    return out

def sites_batch(rng, tier, part=0, parts=1):
    """`parts` > 1: the part-th slice of the sites (the thorough sweep is spread over several harness processes)"""
    tree = S.gen_tree(rng, small=True); own_files(tree)
    cases = []
    ss = scripts(rng, tier)
    for name, f in sites(tree)[part::parts]:
        for ws in ss: cases.append(f(ws, 'ok'))
        cases.append(f('all', 'e')); cases.append(f('c:5', 'e'))
    return tree, cases

# ------------------------------------------------------------------------------------------------ framing
RANGES = ['bytes=0-', 'bytes=0-0', 'bytes=-1', 'bytes=0-3,5-8', 'bytes=0-0,0-0', 'bytes=0-1,2-3,4-5', 'bytes=' + ','.join(f'{i}-{i}' for i in range(40)),
          'bytes=0-0,-1', 'bytes=5-1', 'bytes=200-', 'bytes=0-3,200-', 'bits=0-1', 'bytes=', 'bytes=0-99', 'bytes=0-100', 'bytes=99-', 'bytes=0-3, 5-8',
          'bytes=0-3,', 'bytes=,0-3', 'bytes=0-3,5-8,', 'bytes=1-1,1-1,1-1']

MULTIPART_BODIES = [   # one for every branch of the multipart handler
    ('multipart/form-data; boundary=B', b'--B\r\nContent-Disposition: form-data; name="a"\r\n\r\nv\r\n--B--\r\n'),
    ('multipart/form-data; boundary=B', b'--B\r\nContent-Disposition: form-data; name="a"\r\n\r\nv\r\n--B\r\nContent-Disposition: form-data; name="b"\r\n\r\nw\r\n--B--\r\n'),
    ('multipart/form-data; boundary=', b'--B\r\n'), ('multipart/form-data; boundary=B', b''), ('multipart/form-data; boundary=B', b'no boundary here'),
    ('multipart/form-data; boundary=B', b'--B\r\nX: y\r\n\r\nv\r\n--B--\r\n'), ('multipart/form-data; boundary=B', b'--B\r\nContent-Disposition: \r\n\r\nv\r\n--B--\r\n'),
    ('multipart/form-data; boundary=B', b'--B\r\nContent-Disposition: attachment\r\n\r\nv\r\n--B--\r\n'), ('multipart/form-data; boundary=B', b'--B\r\nContent-Disposition: form-data\r\n\r\nv\r\n--B--\r\n'),
    ('multipart/form-data; boundary=B', b'--B\r\nContent-Disposition: form-data; name="a"\r\n\r\n\x80\r\n--B--\r\n'), ('multipart/form-data; boundary=B', b'--B\r\nContent-Disposition: form-data; name="a"\r\n\r\n\xc0\xaf\r\n--B--\r\n'),
    ('multipart/form-data; boundary=B', b'--B\r\nContent-Disposition: form-data; name="a"\r\n\r\nok\r\n--B\r\nContent-Disposition: form-data; name="b"\r\n\r\n\xff\r\n--B--\r\n'),
    ('multipart/form-data; boundary=B', 'ż'.join(['--B\r\nContent-Disposition: form-data; name="', '"\r\n\r\n', '\U0001f600\r\n--B--\r\n']).encode()),
    ('multipart/form-data; boundary=B', b'--B\r\nContent-Disposition: form-data; name="a"\r\n\r\n\r\n--B--\r\n'), ('multipart/form-data; boundary=B', b'--B--\r\n'),
    ('Multipart/Form-Data; boundary=B', b'--B\r\nContent-Disposition: form-data; name="a"\r\n\r\nv\r\n--B--\r\n'), ('multipart/form-data', b'--B--'),
]
URLENC_BODIES = [b'a=1&b=2', b'', b'a', b'\xff\xfe', b'a=%zz', b'a=%C3%A9&%C5%BC=%F0%9F%98%80', 'ż=ź'.encode(), b'a=%0D%0AX-Evil:%201', b'a=1\r\nb=2', b'=', b'&&&', b'a=' + b'v' * 3000]
QUERIES = ['', '?', '?a=1', '?a=1&b=2', '?%C3%A9=%C5%BC', '?ż=ź', '?a=%0D%0AX-Evil:%201', '?a', '?=', '?a=1#f', '#f', '?a=' + 'v' * 3000, '?name=a&lastModified=1&size=2', '?name=a', '?name=a&lastModified=1',
           '?lastModified=1&size=2', '?name=%C3%A9&lastModified=1&size=2', '?name=a&name=b&lastModified=1&size=2&size=3']

def framing_batch(rng, tier):
    tree = S.gen_tree(rng, small=True); sizes = own_files(tree)
    cases = []
    form_ct = {'/form-url-encoded-enctype-post-method': ('application/x-www-form-urlencoded', b'a=1&b=2'),
               '/form-multipart-enctype-post-method': MULTIPART_BODIES[0]}
    routes = ['/', '/style.css', '/script.js', '/favicon.svg', '/form-get-method', '/form-get-method?a=1', '/file-upload/initiate?name=a&lastModified=1&size=2', '/file-upload/initiate',
              '/form-url-encoded-enctype-post-method', '/form-multipart-enctype-post-method', '/empty.txt', '/one.txt', '/s100.bin', '/uni.txt', '/crlf.txt', '/docs', '/docs/', '/about', '/ln.txt',
              '/missing', '/docs/missing', '/empty.txt/', 'x', '*', 'http://a/b', '/../x', '/%zz', '/s100.bin?q=1', '/s100.bin#f']
    methods = G.METHODS + ['head', 'Options', 'get']
    for t in routes:
        for m in methods:
            for e in ('proc', 'preq'):
                hs = [('Origin', 'http://o')] if rng.chance(1, 2) else []
                body = b''
                if t in form_ct: hs.append(('Content-Type', form_ct[t][0])); body = form_ct[t][1]
                if m == 'OPTIONS' and rng.chance(1, 2): hs += [('Access-Control-Request-Method', 'PUT'), ('Access-Control-Request-Headers', 'X-One, X-Two')]
                cases.append(K.mk(tree, m, t, hs, body, version=rng.choice(G.VERSIONS) if rng.chance(1, 8) else 'HTTP/1.1', entry=e, kind='method-route'))
    # ranges on every lookup step, the three methods whose answers are framed differently
    for t in ('/s100.bin', '/empty.txt', '/one.txt', '/docs/', '/docs', '/about', '/ln.txt', '/', '/missing', '/style.css'):
        for rv in RANGES:
            for m in ('GET', 'HEAD', 'OPTIONS'):
                e = 'preq' if rng.chance(1, 3) else 'proc'
                hs = [('Range', rv)]
                if rng.chance(1, 3): hs.insert(rng.below(2), ('Origin', 'http://o'))
                cases.append(K.mk(tree, m, t, hs, entry=e, kind='range-method'))
    for name in ('range', 'RANGE', 'Range'):          # the header given twice, in other spellings
        for m in ('GET', 'HEAD', 'OPTIONS'):
            cases.append(K.mk(tree, m, '/s100.bin', [(name, 'bytes=0-3,5-8'), ('Range', 'bytes=0-0')], entry=rng.choice(['proc', 'preq']), kind='range-method'))
            cases.append(K.mk(tree, m, '/s100.bin', [('Range', 'bytes=0-0'), (name, 'bytes=0-3,5-8')], entry=rng.choice(['proc', 'preq']), kind='range-method'))
    # body sizes where the length gains a digit / fills a buffer
    for n in sizes:
        for m in ('GET', 'HEAD', 'OPTIONS'):
            for e in ('proc', 'preq'):
                cases.append(K.mk(tree, m, '/s%d.bin' % n, [('Origin', 'http://o')] if rng.chance(1, 2) else [], entry=e, kind='body-size'))
        cases.append(K.mk(tree, 'GET', '/s%d.bin' % n, [('Range', 'bytes=0-%d' % (n - 1))], kind='body-size'))
        cases.append(K.mk(tree, 'GET', '/s%d.bin' % n, [('Range', 'bytes=1-')], entry='preq', kind='body-size'))
    # every branch of the handlers that build their own answers
    for ct, body in MULTIPART_BODIES:
        for e in ('proc', 'preq'):
            cases.append(K.mk(tree, 'POST', '/form-multipart-enctype-post-method', [('Content-Type', ct)], body, entry=e, kind='handler-branch'))
    for body in URLENC_BODIES:
        for e in ('proc', 'preq'):
            cases.append(K.mk(tree, 'POST', '/form-url-encoded-enctype-post-method', [('Content-Type', rng.choice(['application/x-www-form-urlencoded', 'Application/X-WWW-Form-Urlencoded']))], body, entry=e, kind='handler-branch'))
    for q in QUERIES:
        for e in ('proc', 'preq'):
            cases.append(K.mk(tree, 'GET', '/form-get-method' + q, entry=e, kind='handler-branch'))
            cases.append(K.mk(tree, 'POST', '/file-upload/initiate' + q, entry=e, kind='handler-branch'))
    # failing handler / handler without headers: texts whose character and byte counts differ, every method
    for msg in ('', 'boom', '\u00e9', 'za\u017c\u00f3\u0142\u0107', 'e\u0301', '\U0001f600' * 3, '\U0001f600xx', 'a\r\nX-Evil: 1\r\n\r\nbody', 'x' * 5000, '\x00'):
        for m in ('GET', 'HEAD', 'OPTIONS', 'POST'):
            # (the model is handed the opaque text of a body-less answer as "that many characters, that many bytes": S.err_text can
            # only rebuild it when the bytes are at most twice the characters)
            if m in ('HEAD', 'OPTIONS') and len(msg.encode()) > 2 * len(msg): continue
            cases.append(K.mk(tree, m, '/s100.bin', [('Origin', 'http://o')], app='err:' + C.hx(msg), kind='handler-error'))
    for m in G.METHODS:
        cases.append(K.mk(tree, m, rng.choice(routes), [('Origin', 'http://o')], app='okempty', kind='handler-no-headers'))
    # framing headers on the REQUEST are no business of the response
    for hs in ([('Content-Length', '5')], [('Transfer-Encoding', 'chunked')], [('Content-Range', 'bytes 0-1/2')], [('Content-Type', 'text/evil')],
               [('Content-Length', '0'), ('Content-Length', '0')], [('content-length', '100'), ('Origin', 'http://o')]):
        for m in ('GET', 'HEAD', 'OPTIONS'):
            cases.append(K.mk(tree, m, rng.choice(['/s100.bin', '/empty.txt', '/missing', '/']), hs, b'hello', entry=rng.choice(['proc', 'preq']), kind='request-framing-headers'))
    # spellings of the request line that still name HEAD / OPTIONS (or no longer do): the judge reads the method off the bytes itself
    for m in ('HEAD', 'OPTIONS', 'GET'):
        for line in ('%s /s100.bin HTTP/1.1', ' %s /s100.bin HTTP/1.1', '\t%s /s100.bin HTTP/1.1', '\r\n%s /s100.bin HTTP/1.1', '%s  /s100.bin HTTP/1.1', '%s /s100.bin  HTTP/1.1',
                     '%s /s100.bin HTTP/1.1 ', '%s /s100.bin http/1.1', '%s /s100.bin HTTP/2.0', '%s /s100.bin HTTP/1.1\t', '%s\t/s100.bin HTTP/1.1', '%s /s100 .bin HTTP/1.1',
                     '\u00a0%s /s100.bin HTTP/1.1', '%s /s100.bin HTTP/1.1\u2003', '%s /s100.bin', '%s', '%s /s100.bin HTTP/1.1\r', '\x0b%s /s100.bin HTTP/1.1\x0c'):
            for e in ('proc', 'preq'):
                raw = (line % m).encode() + b'\r\nOrigin: http://o\r\nRange: bytes=0-3,5-8\r\n\r\n'
                cases.append(_raw_case(tree, '?', raw, entry=e, kind='request-line'))
    cases.append(read_error_case(tree, 'proc')); cases.append(read_error_case(tree, 'preq'))
    return tree, cases

# ------------------------------------------------------------------------------------------------ echo
CRVALS = ['\rX-Evil: 1', 'a\rX-Evil: 1', 'a\r', '\r\r', 'a\rb\rc', 'a\r\rb', 'a \r b', '\ra', 'a\r\tb', 'a\r b', 'é\rü', 'a\x00\rb', ' X-Evil: 1', 'a b', 'a\x1c\x1d\x1e\x1f\rb',
          'a\r' * 20, 'a\rVary: ' + MARK, '\rContent-Length: 0', 'a%0d%0aVary: ' + MARK, 'a\\r\\nVary: ' + MARK, 'a\r' + 'x' * 300, 'x' * 300 + '\rb', 'a\x0b\x0c\x85\rb']

def echo_request(method, target, site, value, eol=b'\r\n', name=None, extra_before=(), extra_after=(), end=None):
    """raw request that carries `value` on the reflecting header `site`"""
    hs = list(extra_before)
    if site != 'Origin': hs.append(('Origin', 'http://o'))
    hs.append((name or site, value))
    hs += list(extra_after)
    raw = G.req(method, target, 'HTTP/1.1', hs, b'', eol=eol)
    return raw if end is None else raw[:len(raw) - len(eol)] + end

def echo_batch(rng, tier):
    tree = S.gen_tree(rng, small=True); own_files(tree)
    paths = ['/s100.bin', '/missing', '/', '/empty.txt', '/docs/', '/form-get-method?a=1']
    cases = []
    def methods_of(site): return ('GET', 'HEAD', 'OPTIONS', 'POST') if site == 'Origin' else ('OPTIONS',)
    for v in CRVALS:
        for site in ECHO:
            for m in methods_of(site):
                for eol in (b'\r\n', b'\n'):
                    for e in ('proc', 'preq'):
                        cases.append(_raw_case(tree, m, echo_request(m, rng.choice(paths), site, v, eol), entry=e, kind='echo-cr', note=MARK))
    for m in G.METHODS:                       # reflection of Origin does not depend on the method: all nine
        for v in ('a\rX-Evil: 1', '\r', 'a\rVary: ' + MARK, '', ' ', '\t', ' \r '):
            cases.append(_raw_case(tree, m, echo_request(m, rng.choice(paths), 'Origin', v), entry=rng.choice(['proc', 'preq']), kind='echo-cr', note=MARK))
    # bytes that are not UTF-8 in, before and after the reflected line (the header block ends there)
    for site in ECHO:
        for bad in (b'a\xffb', b'\xc3', b'a\rb\xff', b'\xed\xa0\x80'):
            pre = b'OPTIONS /s100.bin HTTP/1.1\r\n' + (b'Origin: http://o\r\n' if site != 'Origin' else b'')
            for raw in (pre + site.encode() + b': ' + bad + b'\r\n\r\n', pre + b'X-B: ' + bad + b'\r\n' + site.encode() + b': a\rb\r\n\r\n', pre + site.encode() + b': a\rb\r\nX-B: ' + bad + b'\r\n\r\n'):
                cases.append(_raw_case(tree, 'OPTIONS', raw, entry=rng.choice(['proc', 'preq']), kind='echo-not-utf8'))
    # the reflecting header in other spellings of its name
    for site in ECHO:
        for name in (site.lower(), site.upper(), site.swapcase(), site.title()):
            for v in ('a\rX-Evil: 1', 'a\r', '\rb', 'a\rVary: ' + MARK):
                cases.append(_raw_case(tree, 'OPTIONS', echo_request('OPTIONS', rng.choice(paths), site, v, name=name), entry=rng.choice(['proc', 'preq']), kind='echo-name-case', note=MARK))
    # given twice: clean then hostile, hostile then clean, both hostile - same and other spelling
    for site in ECHO:
        for other in (site, site.lower()):
            for first, second in (('http://clean', 'a\rX-Evil: 1'), ('a\rX-Evil: 1', 'http://clean'), ('a\rb', 'c\rVary: ' + MARK)):
                for e in ('proc', 'preq'):
                    raw = echo_request('OPTIONS', rng.choice(paths), site, first, extra_after=[(other, second)])
                    cases.append(_raw_case(tree, 'OPTIONS', raw, entry=e, kind='echo-twice', note=MARK))
    # first, in the middle, last among many; the last line unterminated, ended by CR only, followed by nothing / by the padding
    filler = [('X-F%d' % i, 'v%d' % i) for i in range(12)]
    for site in ECHO:
        for k in (0, 6, 12):
            cases.append(_raw_case(tree, 'OPTIONS', echo_request('OPTIONS', rng.choice(paths), site, 'a\rX-Evil: 1', extra_before=filler[:k], extra_after=filler[k:]), entry=rng.choice(['proc', 'preq']), kind='echo-position'))
        for end in (b'', b'\r', b'\n', b'\r\n', b'\r\r', b'\r\r\n'):
            raw = echo_request('OPTIONS', rng.choice(paths), site, 'http://a.example', eol=b'\r\n')
            raw = raw[:-4] + end          # the reflected header is the last thing in the request
            for e in ('proc', 'preq'):
                cases.append(_raw_case(tree, 'OPTIONS', raw, entry=e, kind='echo-unterminated'))
    # separators between name and value
    for sep in (b':', b': ', b':  ', b' : ', b':\t', b': \t', b':\r', b': \r', b' :\r '):
        for site in ECHO:
            raw = b'OPTIONS ' + rng.choice(paths).encode() + b' HTTP/1.1\r\n' + (b'Origin: http://o\r\n' if site != 'Origin' else b'') + site.encode() + sep + b'a\rX-Evil: 1\r\n\r\n'
            cases.append(_raw_case(tree, 'OPTIONS', raw, entry=rng.choice(['proc', 'preq']), kind='echo-separator'))
    # continuation lines that name a header the server emits itself
    for site in ECHO:
        for cont in (b' Vary: ' + MARK.encode(), b'\tVary: ' + MARK.encode(), b' \rVary: ' + MARK.encode()):
            for eol in (b'\r\n', b'\n', b'\r'):
                raw = b'OPTIONS /s100.bin HTTP/1.1' + eol + (b'Origin: http://o' + eol if site != 'Origin' else b'') + site.encode() + b': http://a' + eol + cont + eol + eol
                cases.append(_raw_case(tree, 'OPTIONS', raw, entry=rng.choice(['proc', 'preq']), kind='echo-fold', note=MARK))
    # the request buffer ends at every byte of the reflected header line (between its CR and LF among them)
    for site in ECHO:
        for v in ('http://a.example', 'a\rb'):
            raw = echo_request('OPTIONS', '/s100.bin', site, v, extra_after=[('X-After', 'z')])
            start = raw.index(site.encode() + b': ' + v.encode()[:1])
            stop = start + len(site) + 2 + len(v.encode()) + 2
            for alloc in range(start - 1, stop + 2):
                cases.append(_raw_case(tree, 'OPTIONS', raw, entry='proc', alloc=alloc, kind='echo-buffer-cut'))
    return tree, cases

# ------------------------------------------------------------------------------------------------ lengths
def measure_head(tree_files=None):
    """length of the head of `GET /blk.bin` with a 10-byte Origin and a 5-digit body, asked of the real code (None: could not)"""
    try:
        t = S.Tree(b'root'); t.file(b'root/blk.bin', b'A' * 12345)
        c = K.mk(t, 'GET', '/blk.bin', [('Origin', 'o' * 10)])
        (c, r, il, ml), = K.run_batches([(t, [c])], with_model=False)
        w = r['writes'][0]
        i = w.find(b'\r\n\r\n')
        return i + 4 if i > 0 and w.startswith(b'HTTP/1.1 200') else None
    except Exception:
        return None

def length_batch(rng, tier, head=None):
    tree = S.gen_tree(rng, small=True)
    root = tree.cwd + b'/'
    cases = []
    head = head or 1162          # head of GET /blk.bin, Origin of 10 bytes, 5-digit length
    blocks = [4096, 8192, 16384, 32768, 65536] + ([131072] if tier != 'quick' else [])
    for blk in blocks:
        body = blk - 1500
        d = len(str(body))
        h0 = head - 10 - 3 * 5 + 3 * d           # head with an empty Origin value
        tree.file(root + b'blk%d.bin' % blk, bytes((j * 131 + (j >> 8) * 29 + 17) & 0xff for j in range(body)))
        w = 2 if tier == 'quick' or blk > 65536 else 40 if blk <= 8192 else 8 if blk <= 32768 else 3
        span = range(-w, w + 1)
        for dl in span:
            olen = blk - body - h0 + dl
            if olen < 0: continue
            for ws in ('all', f'c:{blk}', f'c:{blk - 1}', f'c:{blk // 2}', 'c:1000', f's:{blk}', f's:{blk - 1}.1'):
                cases.append(K.mk(tree, 'GET', '/blk%d.bin' % blk, [('Origin', 'o' * olen)], ws=ws, entry=rng.choice(['proc', 'preq']), kind='block-multiple'))
    for m in ('HEAD', 'OPTIONS'):             # a large length announced, nothing sent
        for e in ('proc', 'preq'):
            cases.append(K.mk(tree, m, '/blk65536.bin', [('Origin', 'http://o')], ws=rng.choice(['all', 'c:7', 'c:1000']), entry=e, kind='block-multiple'))
    # very many short writes: a bounded retry loop, a counter, a recursion
    n = 7400 if tier == 'quick' else 12000
    tree.file(root + b'many.bin', bytes((j * 7 + 3) & 0xff for j in range(n)))
    cases.append(K.mk(tree, 'GET', '/many.bin', ws='c:1', kind='many-short-writes'))
    cases.append(K.mk(tree, 'GET', '/many.bin', ws='c:1', entry='preq', kind='many-short-writes'))
    cases.append(K.mk(tree, 'GET', '/many.bin', ws='c:2', kind='many-short-writes'))
    cases.append(K.mk(tree, 'GET', '/many.bin', [('Range', 'bytes=0-99,200-7000')], ws='c:3', kind='many-short-writes'))
    return tree, cases

# ------------------------------------------------------------------------------------------------ environment
def cors_env(**kw):
    d = dict(S.DEFAULT_ENV)
    for k, v in kw.items():
        if v is None: d.pop(k, None)
        else: d[k] = v
    return list(d.items())

def config_batches(rng, tier):
    """[(env pairs, tree, cases)]: the configured CORS path (its own reflection of Origin, configured values in five headers),
    allow-all left unset / unparsable, and the legacy entry point with a request buffer that ends inside the reflected line"""
    out = []
    envs = [cors_env(RWS_CONFIG_CORS_ALLOW_ALL='false', RWS_CONFIG_CORS_ALLOW_ORIGINS='http://o,https://foo.example', RWS_CONFIG_CORS_ALLOW_CREDENTIALS='true',
                     RWS_CONFIG_CORS_ALLOW_HEADERS='X-A,X-B', RWS_CONFIG_CORS_ALLOW_METHODS='GET,POST,OPTIONS', RWS_CONFIG_CORS_EXPOSE_HEADERS='X-C', RWS_CONFIG_CORS_MAX_AGE='600'),
            cors_env(RWS_CONFIG_CORS_ALLOW_ALL='false'),
            cors_env(RWS_CONFIG_CORS_ALLOW_ALL='yes'), cors_env(RWS_CONFIG_CORS_ALLOW_ALL=None)]
    origins = ['http://o', 'https://foo.example', 'http://other', 'http://o\r', '\rhttp://o', 'http://o\rX-Evil: 1', 'http://o,https://foo.example', '', ' http://o', 'HTTP://O', 'http://o\rVary: ' + MARK]
    for env in envs:
        tree = S.gen_tree(rng, small=True); own_files(tree)
        cases = []
        for o in origins:
            for m in ('GET', 'HEAD', 'OPTIONS', 'POST'):
                for e in ('proc', 'preq'):
                    hs = [(rng.choice(['Origin', 'origin']), o)]
                    if m == 'OPTIONS': hs += [('Access-Control-Request-Method', rng.choice(['PUT', 'P\rUT'])), ('Access-Control-Request-Headers', rng.choice(['X-A', 'X-A\rX-Evil: 1']))]
                    cases.append(K.mk(tree, m, rng.choice(['/s100.bin', '/', '/missing', '/empty.txt', 'x']), hs, entry=e, kind='cors-configured', note=MARK))
        cases.append(K.mk(tree, 'OPTIONS', '/s100.bin', [('Origin', 'http://o'), ('Range', 'bytes=0-3,5-8')], ws='c:3', kind='cors-configured'))
        out.append((env, tree, cases))
    # legacy entry point: its buffer size is configuration
    alloc = 96
    env = cors_env(RWS_CONFIG_REQUEST_ALLOCATION_SIZE_IN_BYTES=str(alloc))
    tree = S.gen_tree(rng, small=True); own_files(tree)
    cases = []
    for site in ECHO:
        for v in ('http://a.example', 'a\rb'):
            base = echo_request('OPTIONS', '/s100.bin', site, v, extra_after=[('X-After', 'z')])
            line_end = base.index(site.encode() + b': ') + len(site) + 2 + len(v.encode()) + 2      # just past the LF of the reflected line
            for back in range(0, len(v.encode()) + 6):
                pad = alloc - (line_end - back)
                if pad < 0: continue
                raw = echo_request('OPTIONS', '/s100.bin' + '?' + 'p' * (pad - 1) if pad > 0 else '/s100.bin', site, v, extra_after=[('X-After', 'z')])
                c = _raw_case(tree, 'OPTIONS', raw, entry='preq', kind='echo-buffer-cut'); c.alloc = alloc
                cases.append(c)
    for m in ('GET', 'HEAD', 'OPTIONS'):
        c = K.mk(tree, m, '/s100.bin', [('Origin', 'http://o')], entry='preq', kind='echo-buffer-cut'); c.alloc = alloc; cases.append(c)
    out.append((env, tree, cases))
    return out

# ================================================================================================ second pass
# Features a maintainer of a static web server adds on this code path, and the RELATION of inputs that exposes a careless
# implementation of each (AUDIT2.md has the table).  Nothing below is answered differently by today's code - every family is
# there so that the day the feature arrives its first careless version meets the input it needs:
#   feature_batch    request headers the server ignores so far (Expect, conditionals, Connection / Upgrade / TE, Transfer- and
#                    Content-Encoding, Content-MD5, Forwarded, Prefer, Max-Forwards, Cookie, Authorization, Host, Accept-*) with values
#                    that MEAN something, related to a second header, to the bytes after the head, to the method and to the version
#                    x GET / HEAD / OPTIONS / POST x route kinds x both entry points; text that becomes a line break only after
#                    DECODING (percent, base64) on every such header and in the request target; the same under short writes
#   neighbour_batch  files NEXT to the served ones (precompressed .gz / .br, larger, smaller, empty, older, newer) x Accept-Encoding
#                    x Range x methods; one-step histories (the same path asked again with another method / range / encoding)
#   wire_batch       what the client does after sending: a transport that stops taking bytes (at once, after k bytes) at every write
#                    site; several requests sent in one go; Content-Length against the bytes that follow; chunked bodies; the
#                    request buffer ending inside the request line, inside the blank line, inside a multi-byte character; values
#                    longer than any cut a logger applies, made of 2-, 3- and 4-byte characters in every alignment
import base64, hashlib, zlib

INJ = '%0d%0aVary:%20' + MARK          # a line break only after percent-decoding
PAST, FUTURE = 'Sat, 01 Jan 2000 00:00:00 GMT', 'Fri, 01 Jan 2100 00:00:00 GMT'
FORM = b'a=1&b=2'
def b64(s): return base64.b64encode(s if isinstance(s, bytes) else s.encode()).decode()
CHUNKED = b'7\r\na=1&b=2\r\n0\r\n\r\n'

def T(tag, hs, body=b'', version='HTTP/1.1'): return (tag, hs, body, version)

def triggers():
    t = [
        # an interim answer: Expect against the body that is (not) there, the length that is (not) announced, the version
        T('expect', [('Expect', '100-continue')]), T('expect+cl+body', [('Expect', '100-continue'), ('Content-Length', '7')], FORM),
        T('expect+cl0', [('Expect', '100-continue'), ('Content-Length', '0')]), T('expect+cl-body', [('Expect', '100-continue'), ('Content-Length', '7')]),
        T('expect-body', [('Expect', '100-continue')], FORM), T('expect/case', [('expect', '100-Continue')]), T('expect/unknown', [('Expect', '200-ok')]),
        T('expect x2', [('Expect', '100-continue'), ('Expect', '100-continue')]), T('expect/1.0', [('Expect', '100-continue'), ('Content-Length', '7')], FORM, 'HTTP/1.0'),
        T('expect+chunked', [('Expect', '100-continue'), ('Transfer-Encoding', 'chunked')], CHUNKED), T('expect/list', [('Expect', '100-continue, x=y')]),
        # conditional requests: the validator against the file (older, newer, anything, nothing), two validators, validator and Range
        T('ims/past', [('If-Modified-Since', PAST)]), T('ims/future', [('If-Modified-Since', FUTURE)]), T('ims/bad', [('If-Modified-Since', 'yesterday')]),
        T('ims/nanos', [('If-Modified-Since', '1700000000000000000')]), T('ims/nanos-future', [('If-Modified-Since', '4100000000000000000')]),
        T('ims/huge', [('If-Modified-Since', '9' * 30)]), T('ims/empty', [('If-Modified-Since', '')]), T('ius/past', [('If-Unmodified-Since', PAST)]),
        T('ius/future', [('If-Unmodified-Since', FUTURE)]), T('inm/*', [('If-None-Match', '*')]), T('inm/tag', [('If-None-Match', '"abc"')]),
        T('inm/weak', [('If-None-Match', 'W/"abc"')]), T('inm/list', [('If-None-Match', '"a", W/"b", *')]), T('inm/empty', [('If-None-Match', '')]),
        T('im/*', [('If-Match', '*')]), T('im/tag', [('If-Match', '"abc"')]), T('inm+ims', [('If-None-Match', '*'), ('If-Modified-Since', PAST)]),
        T('inm+ims/2', [('If-None-Match', '"x"'), ('If-Modified-Since', FUTURE)]), T('if-range/past', [('Range', 'bytes=0-3'), ('If-Range', PAST)]),
        T('if-range/future', [('If-Range', FUTURE), ('Range', 'bytes=0-3')]), T('if-range/tag+multi', [('Range', 'bytes=0-3,5-8'), ('If-Range', '"abc"')]),
        T('if-range-range', [('If-Range', FUTURE)]), T('inm+range', [('If-None-Match', '*'), ('Range', 'bytes=0-3,5-8')]), T('ims+range', [('If-Modified-Since', FUTURE), ('Range', 'bytes=0-0')]),
        # the connection after the answer
        T('conn/keep-alive', [('Connection', 'keep-alive')]), T('conn/close', [('Connection', 'close')]), T('conn/Keep-Alive', [('Connection', 'Keep-Alive'), ('Keep-Alive', 'timeout=5, max=1000')]),
        T('conn/keep-alive/1.0', [('Connection', 'keep-alive')], b'', 'HTTP/1.0'), T('conn/none/1.0', [], b'', 'HTTP/1.0'), T('conn/list', [('Connection', 'keep-alive, Upgrade, TE')]),
        T('upgrade/ws', [('Connection', 'Upgrade'), ('Upgrade', 'websocket'), ('Sec-WebSocket-Key', 'dGhlIHNhbXBsZSBub25jZQ=='), ('Sec-WebSocket-Version', '13')]),
        T('upgrade/h2c', [('Connection', 'Upgrade, HTTP2-Settings'), ('Upgrade', 'h2c'), ('HTTP2-Settings', 'AAMAAABkAAQAAP__')]), T('upgrade-conn', [('Upgrade', 'websocket')]),
        T('upgrade/tls', [('Upgrade', 'TLS/1.0, HTTP/1.1'), ('Connection', 'upgrade')]), T('te/trailers', [('TE', 'trailers'), ('Connection', 'TE')]), T('te/gzip', [('TE', 'gzip;q=0.5, chunked')]),
        T('early-data', [('Early-Data', '1')]), T('uir', [('Upgrade-Insecure-Requests', '1'), ('Host', 'h.example')]),
        # the bytes after the head against what the head says about them
        T('chunked', [('Transfer-Encoding', 'chunked')], CHUNKED), T('chunked-body', [('Transfer-Encoding', 'chunked')]), T('chunked+cl', [('Transfer-Encoding', 'chunked'), ('Content-Length', '7')], CHUNKED),
        T('cl+chunked', [('Content-Length', '17'), ('Transfer-Encoding', 'chunked')], CHUNKED), T('te/gzip,chunked', [('Transfer-Encoding', 'gzip, chunked')], CHUNKED),
        T('te/identity', [('Transfer-Encoding', 'identity')], FORM), T('te/Chunked', [('transfer-encoding', 'Chunked')], CHUNKED), T('te x2', [('Transfer-Encoding', 'gzip'), ('Transfer-Encoding', 'chunked')], CHUNKED),
        T('ce/gzip', [('Content-Encoding', 'gzip')], gz(FORM)),
        T('ce/gzip-not', [('Content-Encoding', 'gzip')], FORM), T('ce/identity', [('Content-Encoding', 'identity')], FORM), T('ce/br', [('Content-Encoding', 'br')], b'\x0b\x02\x80a=1\x03'),
        T('md5/ok', [('Content-MD5', b64(hashlib.md5(FORM).digest())), ('Content-Length', '7')], FORM), T('md5/wrong', [('Content-MD5', b64(hashlib.md5(b'x').digest()))], FORM),
        T('md5/not-b64', [('Content-MD5', '!!!not base64!!!')], FORM), T('md5/short', [('Content-MD5', 'AAAA')], FORM), T('md5-body', [('Content-MD5', b64(hashlib.md5(b'').digest()))]),
        T('digest', [('Digest', 'sha-256=' + b64(hashlib.sha256(FORM).digest())), ('Want-Digest', 'sha-256')], FORM), T('content-digest', [('Content-Digest', 'sha-256=:' + b64(hashlib.sha256(b'x').digest()) + ':')], FORM),
        T('trailer', [('Trailer', 'Expires'), ('Transfer-Encoding', 'chunked')], b'7\r\na=1&b=2\r\n0\r\nExpires: 0\r\nVary: ' + MARK.encode() + b'\r\n\r\n'),
        # who asks, on whose behalf, for which host
        T('fwd', [('Forwarded', 'for=192.0.2.60;proto=http;by=203.0.113.43;host=h.example')]), T('fwd/v6', [('Forwarded', 'for="[2001:db8:cafe::17]:4711"')]), T('fwd/list', [('Forwarded', 'for=192.0.2.43, for=198.51.100.17')]),
        T('xff', [('X-Forwarded-For', '203.0.113.195, 2001:db8:85a3:8d3:1319:8a2e:370:7348, 198.51.100.2')]), T('xfh', [('X-Forwarded-Host', 'evil.example'), ('X-Forwarded-Proto', 'https'), ('X-Forwarded-Port', '8443')]),
        T('xfp/odd', [('X-Forwarded-Proto', 'gopher'), ('X-Forwarded-Port', '99999'), ('X-Real-IP', 'not-an-ip')]), T('via', [('Via', '1.1 proxy.example (squid)'), ('Max-Forwards', '3')]),
        T('host/none', []), T('host/x2', [('Host', 'a.example'), ('Host', 'b.example')]), T('host/port', [('Host', 'localhost:7878')]), T('host/ip', [('Host', '127.0.0.1:7878')]), T('host/v6', [('Host', '[::1]:7878')]),
        T('host/bad-port', [('Host', 'localhost:99999')]), T('host/empty', [('Host', '')]), T('host/other', [('Host', 'evil.example')]), T('host/1.0', [('Host', 'h')], b'', 'HTTP/1.0'), T('host/userinfo', [('Host', 'a@b:c')]),
        T('mf/0', [('Max-Forwards', '0')]), T('mf/1', [('Max-Forwards', '1')]), T('mf/-1', [('Max-Forwards', '-1')]), T('mf/x', [('Max-Forwards', 'x')]), T('mf/huge', [('Max-Forwards', '9' * 25)]),
        T('prefer/minimal', [('Prefer', 'return=minimal')]), T('prefer/repr', [('Prefer', 'return=representation')]), T('prefer/async', [('Prefer', 'respond-async, wait=10')]), T('prefer/odd', [('Prefer', 'handling=lenient; x="a, b"')]),
        T('cookie', [('Cookie', 'session=abc; theme=dark')]), T('cookie/odd', [('Cookie', '=; ;;a; b=')]), T('cookie x2', [('Cookie', 'a=1'), ('Cookie', 'a=2')]), T('cookie/long', [('Cookie', 'session=' + 's' * 4000)]),
        T('cookie/quoted', [('Cookie', 'a="x\\"y"; b=%22')]), T('auth/basic', [('Authorization', 'Basic ' + b64('user:pass'))]), T('auth/basic-crlf', [('Authorization', 'Basic ' + b64('us\r\nVary: ' + MARK + '\r\n:pw'))]),
        T('auth/basic-bad', [('Authorization', 'Basic !!!')]), T('auth/basic-none', [('Authorization', 'Basic')]), T('auth/basic-not-utf8', [('Authorization', 'Basic ' + b64(b'\xff\xfe:\x80'))]),
        T('auth/basic-nocolon', [('Authorization', 'Basic ' + b64('user'))]), T('auth/bearer', [('Authorization', 'Bearer abc.def.ghi')]), T('auth/digest', [('Authorization', 'Digest username="a", realm="r\\"", nonce=""')]),
        T('auth/empty', [('Authorization', '')]), T('auth/basic-lower', [('authorization', 'basic ' + b64(':'))]), T('proxy-auth', [('Proxy-Authorization', 'Basic ' + b64('a:b')), ('Proxy-Connection', 'keep-alive')]),
        # what the client accepts
        T('accept/html', [('Accept', 'text/html')]), T('accept/json', [('Accept', 'application/json')]), T('accept/none', [('Accept', '*/*;q=0')]), T('accept/img', [('Accept', 'image/*, */*;q=0.1')]), T('accept/empty', [('Accept', '')]),
        T('accept-charset', [('Accept-Charset', 'utf-16, iso-8859-5;q=0')]), T('accept-lang', [('Accept-Language', 'de-CH, *;q=0')]), T('ae/gzip', [('Accept-Encoding', 'gzip')]), T('ae/none', [('Accept-Encoding', 'identity;q=0, *;q=0')]),
        T('ae+range', [('Accept-Encoding', 'gzip, br'), ('Range', 'bytes=0-3,5-8')]), T('cache/no-cache', [('Cache-Control', 'no-cache'), ('Pragma', 'no-cache')]), T('cache/only-if-cached', [('Cache-Control', 'only-if-cached')]),
        T('cache/max-age', [('Cache-Control', 'max-age=0, no-transform')]), T('hints', [('Sec-CH-UA-Mobile', '?1'), ('Device-Memory', '8'), ('Downlink', '1.5'), ('ECT', '4g'), ('RTT', '50'), ('Save-Data', 'on'), ('DPR', '2.0'), ('Viewport-Width', '320'), ('Width', '640')]),
        T('pna', [('Origin', 'http://o'), ('Access-Control-Request-Method', 'GET'), ('Access-Control-Request-Private-Network', 'true')]), T('fetch-meta', [('Origin', 'null'), ('Sec-Fetch-Mode', 'cors'), ('Sec-Fetch-Site', 'cross-site'), ('Sec-Fetch-Dest', 'empty')]),
        T('override/head', [('X-HTTP-Method-Override', 'HEAD')]), T('override/options', [('X-HTTP-Method', 'OPTIONS'), ('X-Method-Override', 'OPTIONS')]), T('override/get', [('X-HTTP-Method-Override', 'GET')], FORM),
        T('dnt', [('DNT', '1'), ('Sec-GPC', '1')]), T('from-ua-ref', [('From', 'a@b.example'), ('User-Agent', 'curl/8.0 (x; y) z/1'), ('Referer', 'http://r.example/p?q=1#f')]), T('last-event-id', [('Last-Event-ID', '7'), ('Accept', 'text/event-stream')]),
    ]
    # a line break that exists only after DECODING, on every header a feature may start to read (and to reflect)
    for name in ('Expect', 'Accept-Encoding', 'If-Modified-Since', 'If-None-Match', 'If-Range', 'If-Match', 'Connection', 'Upgrade', 'TE', 'Transfer-Encoding', 'Content-Encoding', 'Content-MD5',
                 'Forwarded', 'X-Forwarded-For', 'X-Forwarded-Host', 'X-Forwarded-Proto', 'Prefer', 'Max-Forwards', 'Cookie', 'Authorization', 'Host', 'Referer', 'User-Agent', 'Accept', 'Accept-Language',
                 'Content-Type', 'Content-Location', 'X-Request-Id', 'Origin', 'Access-Control-Request-Headers', 'Access-Control-Request-Method', 'Access-Control-Request-Private-Network', 'Range'):
        hs = [('Origin', 'http://o')] if name.startswith('Access-') else []
        t.append(T('decoded-break:' + name, hs + [(name, 'v' + INJ)]))
    for name in ('Cookie', 'Forwarded', 'Prefer', 'If-None-Match', 'X-Forwarded-Host', 'Authorization'):
        t.append(T('quoted-break:' + name, [(name, 'a="x\\r\\nVary: %s"' % MARK)]))
        t.append(T('double-decoded-break:' + name, [(name, 'v%250d%250aVary:%2520' + MARK)]))
    return t

def add_twins(cases):
    """for every case on a transport script that does not fail: the same request on a transport that accepts everything (the judge
    compares what the peer received in pieces with what it receives at once)"""
    have = {(id(c.tree), c.entry, c.raw, c.app, c.alloc, c.flush) for c in cases if c.ws == 'all'}
    out = []
    for c in cases:
        k = (id(c.tree), c.entry, c.raw, c.app, c.alloc, c.flush)
        if c.ws != 'all' and not c.ws.startswith('e:') and k not in have and ' e ' not in c.line:
            have.add(k)
            out.append(K.mk(c.tree, c.method, c.target, c.headers, entry=c.entry, flush=c.flush, app=c.app, alloc=c.alloc, raw=c.raw, kind=c.kind, note=c.note))
    return cases + out

TARGETS_DECODED = ['/docs' + INJ, '/docs?x=' + INJ.lstrip('/'), '/docs/' + INJ, '/s100.bin' + INJ, '/missing' + INJ, '/' + INJ, '/?' + INJ, '/docs#' + INJ, '/%0d%0a', '/docs%0d%0a%0d%0a<html>', '/docs%0aVary:%20' + MARK,
                   '/docs%0dVary:%20' + MARK, '/%250d%250aVary:%2520' + MARK, '/docs%E2%80%A8Vary:%20' + MARK, '/%ff', '/%c3', '/%00', '/s100.bin%00.txt', '/%E2%82%AC.txt', '/%e2%82%ac.txt', '/%E2%82', '/s100%2Ebin', '/%73100.bin',
                   '/docs%2F', '/docs%2Findex.html', '/%2e%2e/%2e%2e/x', '/s100.bin%', '/s100.bin%4', '/a+b', '/docs/?' + 'q=' + 'é' * 40, '//docs', '/docs//', '/./docs', '/docs/.', '/DOCS', '/docs;v=1', '/docs\\']

def feature_batch(rng, tier, part=0, parts=1):
    tree = S.gen_tree(rng, small=True); own_files(tree)
    tree.file(tree.cwd + '/€.txt'.encode(), 'euro'.encode())
    quick = tier == 'quick'
    cases = []
    trig = triggers()[part::parts]
    others = ['/missing', '/', '/docs/', '/docs', '/about', '/empty.txt', '/ln.txt', 'x', '/style.css', '/form-get-method?a=1']
    posts = ['/form-url-encoded-enctype-post-method', '/form-multipart-enctype-post-method', '/file-upload/initiate?name=a&lastModified=1&size=2']
    def one(m, t, tr, e, ws='all', kind='feature'):
        tag, hs, body, ver = tr
        hs = list(hs)
        if t == posts[0] and not any(n.lower() == 'content-type' for n, _ in hs): hs.append(('Content-Type', 'application/x-www-form-urlencoded'))
        if t == posts[1] and not any(n.lower() == 'content-type' for n, _ in hs): hs.append(('Content-Type', 'multipart/form-data; boundary=B')); body = body or MULTIPART_BODIES[0][1]
        if tag != 'host/none' and ver == 'HTTP/1.1' and not any(n.lower() == 'host' for n, _ in hs) and rng.chance(2, 3): hs.insert(0, ('Host', 'localhost'))
        return K.mk(tree, m, t, hs, body, ver, entry=e, ws=ws, kind=kind, note=MARK)
    for tr in trig:
        if quick:
            for m in ('GET', 'HEAD', 'OPTIONS'): cases.append(one(m, '/s100.bin', tr, rng.choice(['proc', 'preq'])))
            cases.append(one('POST', rng.choice(posts), tr, rng.choice(['proc', 'preq'])))
            cases.append(one(rng.choice(G.METHODS), rng.choice(others), tr, rng.choice(['proc', 'preq'])))
        else:
            for e in ('proc', 'preq'):
                for m in ('GET', 'HEAD', 'OPTIONS', 'TRACE', 'PUT'):
                    for t in ['/s100.bin'] + others: cases.append(one(m, t, tr, e))
                for t in posts + ['/s100.bin']: cases.append(one('POST', t, tr, e))
    # the place a new answer is written from is a new write site: the triggers a feature answers by itself, under short writes
    own_answer = [tr for tr in triggers() if tr[0] in ('expect+cl+body', 'expect', 'ims/future', 'inm/*', 'conn/keep-alive', 'upgrade/ws', 'chunked', 'host/none', 'ae/gzip', 'if-range/past', 'mf/0', 'auth/basic', 'accept/none', 'md5/wrong', 'conn/keep-alive/1.0', 'im/tag')]
    ss = ['c:1', 'c:2', 'c:7', 'c:24', 'c:25', 'c:26', 'c:100', 's:1', 's:10.1', 's:25', 's:26.1', 's:24.1.1', 's:300.1.2.3', 's:25.0', 'c:0'] if quick else \
         ['c:%d' % n for n in list(range(0, 40)) + [64, 100, 1000]] + ['s:%d' % n for n in range(1, 60)] + ['s:%d.0' % n for n in (1, 24, 25, 26, 100, 1200)] + ['s:25.1.1', 's:26.1', 's:300.1.2.3']
    if part == 0:
        for tr in own_answer:
            for m in ('GET', 'HEAD') if quick else ('GET', 'HEAD', 'OPTIONS', 'POST'):
                for ws in ss:
                    cases.append(one(m, '/s100.bin' if m != 'POST' else posts[0], tr, rng.choice(['proc', 'preq']) if quick else 'proc', ws=ws, kind='feature-short-write'))
                    if not quick: cases.append(one(m, '/s100.bin' if m != 'POST' else posts[0], tr, 'preq', ws=ws, kind='feature-short-write'))
        # the request target, reflected by a redirect (directory without its slash), a Content-Location, an error page - decoded first
        plain = T('target', [])
        for t in TARGETS_DECODED:
            for m in ('GET', 'HEAD', 'OPTIONS') if quick else G.METHODS:
                for e in (rng.choice(['proc', 'preq']),) if quick else ('proc', 'preq'):
                    cases.append(one(m, t, plain if rng.chance(1, 2) else T('target+host', [('Host', 'h.example'), ('X-Forwarded-Proto', 'https')]), e, kind='decoded-target'))
    return tree, add_twins(cases)

# ------------------------------------------------------------------------------------------------ files next to the served ones
def gz(data):
    c = zlib.compressobj(9, zlib.DEFLATED, 31); return c.compress(data) + c.flush()

def neighbours(tree):
    """precompressed variants and other companions of served files; a dict keeps the order of creation: `stale.txt.gz` is OLDER than
    `stale.txt`, every other companion is younger than its file"""
    root = tree.cwd + b'/'
    text = b'The quick brown fox jumps over the lazy dog. ' * 8
    tree.file(root + b'enc.txt', text).file(root + b'enc.txt.gz', gz(text)).file(root + b'enc.txt.br', b'\x1b\x67\x01\x00' + b'B' * 60)
    css = bytes((j * 7 + 1) & 0xff for j in range(5000))
    tree.file(root + b'big.css', css).file(root + b'big.css.gz', gz(css) + b'\0' * 900)                  # the companion is LARGER
    tree.file(root + b'zero.js', b'').file(root + b'zero.js.gz', gz(b''))                              # empty file, companion is not
    tree.file(root + b'full.html', b'<p>' + b'x' * 200 + b'</p>').file(root + b'full.html.gz', b'')     # companion is empty
    tree.file(root + b'stale.txt.gz', gz(b'the old text')).file(root + b'stale.txt', b'the new text, longer than the old one')
    tree.file(root + b'same.bin', b'S' * 64).file(root + b'same.bin.gz', b'Z' * 64)                    # same size, other bytes
    tree.file(root + b'docs/index.html.gz', gz(b'<p>docs index</p>')).file(root + b'about.html.gz', gz(b'<p>about</p>'))
    tree.file(root + b'404.html', b'<p>own 404 page</p>').file(root + b'404.html.gz', gz(b'<p>own 404 page</p>'))
    tree.file(root + b'only.txt.gz', gz(b'there is no only.txt'))                                     # companion without its file
    tree.file(root + b'enc.txt.gz.gz', b'twice').file(root + b'dir.gz/index.html', b'<p>a directory named like a companion</p>')
    tree.file(root + b'enc.txt.etag', b'"abc"\r\nVary: ' + MARK.encode()).file(root + b'enc.txt.headers', b'X-Meta: 1\r\nVary: ' + MARK.encode() + b'\r\n')
    tree.file(root + b'boundary.txt', b'a\r\n--String_separator\r\nContent-Type: text/plain\r\n\r\nb\r\n--String_separator--\r\n')
    tree.link(root + b'lnk.gz', b'enc.txt.gz').link(root + b'enc2.txt', b'enc.txt')

AE = ['gzip', 'gzip, deflate, br', 'br', '*', 'gzip;q=0', 'identity', 'gzip;q=0.5, identity;q=1', 'GZIP', 'x-gzip', '', 'deflate', 'zstd', 'identity;q=0', 'gzip , br', 'br;q=1.0, gzip;q=0.8, *;q=0.1', 'gzip;q=abc']

def neighbour_batch(rng, tier):
    tree = S.gen_tree(rng, small=True); own_files(tree); neighbours(tree)
    quick = tier == 'quick'
    cases = []
    files = ['/enc.txt', '/big.css', '/zero.js', '/full.html', '/stale.txt', '/same.bin', '/docs/', '/docs', '/about', '/missing', '/only.txt', '/enc.txt.gz', '/dir.gz', '/enc2.txt', '/lnk.gz', '/boundary.txt', '/']
    def mk(m, t, hs, e=None, ws='all', kind='neighbour'): return K.mk(tree, m, t, hs, entry=e or rng.choice(['proc', 'preq']), ws=ws, kind=kind, note=MARK)
    for k, ae in enumerate(AE):
        for t in files:
            if quick and k >= 6 and not rng.chance(1, 4): continue
            for m in ('GET', 'HEAD', 'OPTIONS'):
                for e in ('proc', 'preq') if not quick else (None,):
                    cases.append(mk(m, t, [('Accept-Encoding', ae)] + ([('Origin', 'http://o')] if rng.chance(1, 3) else []), e))
    for t in files:                                   # encoding and ranges: of which bytes?
        for rv in ('bytes=0-3', 'bytes=0-3,5-8', 'bytes=-5', 'bytes=100-', 'bytes=0-') if quick else RANGES:
            for m in ('GET', 'HEAD') if quick else ('GET', 'HEAD', 'OPTIONS'):
                cases.append(mk(m, t, [('Accept-Encoding', 'gzip, br'), ('Range', rv)] if rng.chance(1, 2) else [('Range', rv), ('Accept-Encoding', 'gzip')]))
                if not quick: cases.append(mk(m, t, [('Range', rv), ('Accept-Encoding', 'gzip'), ('If-Range', PAST)]))
    for t in ('/enc.txt', '/big.css', '/zero.js', '/full.html', '/missing'):                        # a new body source under short writes
        for ws in ('c:1', 'c:7', 'c:100', 'c:4096', 's:1', 's:1200.1', 's:1300.0') if quick else scripts(rng, 'quick') + ['c:0', 's:1300.0']:
            cases.append(mk('GET', t, [('Accept-Encoding', 'gzip')], 'proc', ws=ws, kind='neighbour-short-write'))
            cases.append(mk('GET', t, [('Accept-Encoding', 'br, gzip')], 'preq', ws=ws, kind='neighbour-short-write'))
    # one-step histories: the answer to a request must not depend on the one before it (a cache of one or of many entries, a buffer
    # that is reused, a companion that is written when first asked for): the same path again with another method, range, encoding,
    # origin - adjacent, in one process
    gzh, org = [('Accept-Encoding', 'gzip')], [('Origin', 'http://o')]
    seqs = [[('GET', []), ('HEAD', []), ('GET', [])], [('HEAD', []), ('GET', [])], [('OPTIONS', []), ('GET', []), ('OPTIONS', [])], [('GET', gzh), ('GET', []), ('GET', gzh), ('HEAD', gzh), ('GET', [('Accept-Encoding', 'identity')])],
            [('GET', [('Range', 'bytes=0-3')]), ('GET', []), ('GET', [('Range', 'bytes=0-3,5-8')]), ('GET', [('Range', 'bytes=5-8')]), ('HEAD', [('Range', 'bytes=0-3,5-8')]), ('GET', [])],
            [('GET', org), ('GET', []), ('GET', [('Origin', 'http://other')]), ('OPTIONS', org + [('Access-Control-Request-Method', 'PUT')]), ('GET', org)],
            [('GET', [('If-None-Match', '*')]), ('GET', []), ('GET', [('If-Modified-Since', FUTURE)]), ('GET', [])], [('POST', []), ('GET', []), ('PUT', []), ('GET', []), ('DELETE', []), ('HEAD', [])],
            [('GET', [('Connection', 'keep-alive')]), ('GET', [('Connection', 'close')]), ('GET', [])], [('GET', []), ('GET', []), ('GET', [])]]
    for t in ('/enc.txt', '/zero.js', '/missing', '/', '/docs/', '/about', '/form-get-method?a=1', 'x', '/big.css') if quick else files + ['/form-get-method?a=1', 'x', '/s4096.bin']:
        for seq in seqs:
            for e in ('proc', 'preq') if not quick else (rng.choice(['proc', 'preq']),):
                for m, hs in seq: cases.append(mk(m, t, hs, e, kind='history'))
    # many distinct requests, then the first ones again (a table with a capacity: 16, 64, 128, 256 entries)
    n = 300 if quick else 1100
    for rnd in (0, 1):
        for i in list(range(n)) if rnd == 0 else [0, 1, 2, n - 1, n // 2, 15, 16, 17, 63, 64, 65, 127, 128, 129, 255, 256, 257]:
            if i >= n: continue
            cases.append(mk(('GET', 'HEAD', 'GET', 'OPTIONS')[i % 4] if rnd == 0 else 'GET', '/enc.txt?k=%d' % i if i % 3 else '/k%d.missing' % i, gzh if i % 2 else [], 'proc' if i % 5 else 'preq', kind='history-many'))
    return tree, add_twins(cases)

# ------------------------------------------------------------------------------------------------ the wire
def wide(width, shift, nbytes):
    ch = {2: 'é', 3: '€', 4: '\U0001f600'}[width]
    return 'a' * shift + ch * ((nbytes - shift) // width)

def wire_batch(rng, tier):
    tree = S.gen_tree(rng, small=True); own_files(tree)
    quick = tier == 'quick'
    cases = []
    # a peer that stops taking bytes: at once, after one byte, inside the head, inside the body, after a few short writes
    zero = ['c:0', 's:0', 's:1.0', 's:100.0', 's:1100.0', 's:5.3.0'] + ([] if quick else ['s:%d.0' % k for k in range(2, 1400, 9)])
    for name, f in sites(tree):
        for ws in zero: cases.append(f(ws, 'ok'))
        cases.append(f('s:7.0', 'e'))
    # several requests sent in one go (what follows the first head is the next request, not a body)
    def r(m, t, hs=(), body=b''): return G.req(m, t, 'HTTP/1.1', [('Host', 'h')] + list(hs), body)
    pipes = [(['GET', 'GET'], r('GET', '/s100.bin') + r('GET', '/one.txt')), (['HEAD', 'GET'], r('HEAD', '/s100.bin') + r('GET', '/one.txt')), (['GET', 'HEAD'], r('GET', '/one.txt') + r('HEAD', '/s100.bin')),
             (['OPTIONS', 'GET'], r('OPTIONS', '/s100.bin') + r('GET', '/one.txt')), (['GET', 'GET'], r('GET', '/missing') + r('GET', '/s100.bin')), (['GET', 'GET', 'GET'], r('GET', '/empty.txt') * 3),
             (['POST', 'GET'], r('POST', '/form-url-encoded-enctype-post-method', [('Content-Type', 'application/x-www-form-urlencoded'), ('Content-Length', '7')], FORM) + r('GET', '/one.txt')),
             (['GET', 'GET'], r('GET', '/s100.bin', [('Connection', 'keep-alive')]) + r('GET', '/one.txt', [('Connection', 'close')])), (['GET', 'GET'], r('GET', '/s100.bin', [('Range', 'bytes=0-3,5-8')]) + r('GET', '/one.txt')),
             (['GET', 'GET'], r('GET', '/s100.bin') + b'\r\n' + r('GET', '/one.txt')), (['GET', 'GET'], r('GET', '/s100.bin') + b'BOGUS / HTTP/1.1\r\n\r\n'), (['GET', 'HEAD'], r('GET', 'x') + r('HEAD', '/s100.bin')),
             (['HEAD', 'HEAD'], r('HEAD', '/s100.bin', [('Connection', 'keep-alive')]) * 2), (['GET', 'GET'], r('GET', '/s100.bin', [('Connection', 'keep-alive')]) + r('GET', '/one.txt')[:9])]
    for ms, raw in pipes:
        for e in ('proc', 'preq'):
            for ws in ('all', 'c:7') + (() if quick else ('c:1', 's:1300.1', 's:1400.0')):
                cases.append(_raw_case(tree, ','.join(ms), raw, entry=e, ws=ws, kind='pipelined'))
    # Content-Length against the bytes that follow the head (7 of them)
    cls = ['0', '1', '6', '7', '8', '100', '9999', '10000', '10001', '100000', str(2**31), str(2**32), str(2**63), str(2**64 - 1), str(2**64), '-1', '+7', '7 ', ' 7', '07', '0x7', '7,7', '7, 8', '', 'seven', '7.0', '1e1']
    for cl in cls:
        for t, ct, body in (('/form-url-encoded-enctype-post-method', 'application/x-www-form-urlencoded', FORM), ('/form-multipart-enctype-post-method', MULTIPART_BODIES[0][0], MULTIPART_BODIES[0][1]),
                            ('/file-upload/initiate?name=a&lastModified=1&size=2', 'application/octet-stream', FORM), ('/s100.bin', 'text/plain', FORM)):
            for m in ('POST', 'GET', 'HEAD') if t == '/s100.bin' else ('POST',):
                if quick and t != '/form-url-encoded-enctype-post-method' and not rng.chance(1, 3): continue
                cases.append(K.mk(tree, m, t, [('Content-Type', ct), (rng.choice(['Content-Length', 'Content-Length', 'content-length']), cl)], body, entry=rng.choice(['proc', 'preq']), kind='length-vs-body'))
    for a, b in (('7', '7'), ('7', '8'), ('8', '7'), ('0', '7'), ('7', '')):
        cases.append(K.mk(tree, 'POST', '/form-url-encoded-enctype-post-method', [('Content-Type', 'application/x-www-form-urlencoded'), ('Content-Length', a), ('Content-Length', b)], FORM, entry=rng.choice(['proc', 'preq']), kind='length-vs-body'))
    # chunked bodies, well-formed and not
    chunks = [CHUNKED, b'0\r\n\r\n', b'7\r\na=1&b=2\r\n', b'7;ext=1\r\na=1&b=2\r\n0\r\n\r\n', b'ffffffffffffffff\r\na=1\r\n0\r\n\r\n', b'fffffffffffffffff\r\na\r\n0\r\n\r\n', b'zz\r\na=1\r\n0\r\n\r\n', b'64\r\na=1&b=2\r\n0\r\n\r\n',
              b'-1\r\na\r\n0\r\n\r\n', b'7\na=1&b=2\n0\n\n', b'3\r\na=1\r\n4\r\n&b=2\r\n0\r\n\r\n', b'7\r\na=1&b=2\r\n0\r\nVary: ' + MARK.encode() + b'\r\n\r\n', b'7\r\na=1&b=2XX0\r\n\r\n', b'\r\n', b'', b'7\r\n\xff\xfe\xfd\xfc\xfb\xfa\xf9\r\n0\r\n\r\n',
              b'1\r\na\r\n' * 300 + b'0\r\n\r\n', b' 7 \r\na=1&b=2\r\n0\r\n\r\n', b'0x7\r\na=1&b=2\r\n0\r\n\r\n']
    for body in chunks:
        for t, ct in (('/form-url-encoded-enctype-post-method', 'application/x-www-form-urlencoded'), ('/form-multipart-enctype-post-method', 'multipart/form-data; boundary=B'), ('/s100.bin', 'text/plain')):
            for e in ('proc', 'preq'):
                if quick and t != '/form-url-encoded-enctype-post-method' and not rng.chance(1, 3): continue
                cases.append(K.mk(tree, 'POST' if t != '/s100.bin' else rng.choice(['GET', 'HEAD', 'POST']), t, [('Content-Type', ct), ('Transfer-Encoding', 'chunked')], body, entry=e, kind='chunked-body', note=MARK))
    # the request buffer ends inside the request line, at every byte of the blank line, inside the body, inside a multi-byte character
    for m in ('GET', 'HEAD', 'OPTIONS'):
        raw = G.req(m, '/s100.bin', 'HTTP/1.1', [('Origin', 'http://o'), ('Range', 'bytes=0-3,5-8')], b'')
        line = raw.index(b'\r\n') + 2
        for alloc in list(range(0, line + 2)) + list(range(len(raw) - 6, len(raw) + 3)):
            cases.append(_raw_case(tree, m, raw, entry='proc', alloc=alloc, kind='buffer-cut'))
    raw = G.req('POST', '/form-url-encoded-enctype-post-method', 'HTTP/1.1', [('Content-Type', 'application/x-www-form-urlencoded'), ('Content-Length', '7')], FORM)
    for alloc in range(len(raw) - 13, len(raw) + 3): cases.append(_raw_case(tree, 'POST', raw, entry='proc', alloc=alloc, kind='buffer-cut'))
    raw = G.req('OPTIONS', '/s100.bin', 'HTTP/1.1', [('Origin', 'http://€€€.example'), ('Access-Control-Request-Headers', 'X-\U0001f600')], b'')
    for alloc in range(raw.index(b'Origin'), len(raw) + 1): cases.append(_raw_case(tree, 'OPTIONS', raw, entry='proc', alloc=alloc, kind='buffer-cut'))
    for total in (9998, 9999, 10000, 10001, 10002, 20000):           # the request as long as the buffer (both entry points), one byte less, one more
        for m, t in (('GET', '/s100.bin'), ('HEAD', '/s100.bin'), ('OPTIONS', '/s100.bin'), ('POST', '/form-url-encoded-enctype-post-method')):
            base = G.req(m, t, 'HTTP/1.1', [('Origin', 'http://o'), ('Content-Type', 'application/x-www-form-urlencoded'), ('X-Pad', '')], b'')
            inhead = G.req(m, t, 'HTTP/1.1', [('Origin', 'http://o'), ('Content-Type', 'application/x-www-form-urlencoded'), ('X-Pad', 'p' * (total - len(base)))], b'')
            inbody = base + b'a=' + b'v' * (total - len(base) - 2)
            for raw in (inhead, inbody, inhead[:-2], inhead[:-4] + b'\r\n'):
                cases.append(_raw_case(tree, m, raw, entry=rng.choice(['proc', 'preq']), kind='buffer-full'))
    # values longer than any cut (64 .. 8192 bytes) made of 2-, 3- and 4-byte characters in every alignment: a line of a log, a
    # key of a table, a fixed buffer must not be cut inside a character
    names = ['User-Agent', 'Referer', 'Origin', 'Cookie', 'X-Forwarded-For', 'Accept-Language', 'Host', 'Authorization', 'If-None-Match', 'Access-Control-Request-Headers', 'Range', 'Content-Type']
    for width in (2, 3, 4):
        for shift in range(width):
            for nbytes in (700, 4200, 9300) if not quick else (700, 9300 if (width + shift) % 2 else 4200):
                v = wide(width, shift, nbytes)
                for name in names if not quick else [names[(width * 5 + shift * 3 + nbytes) % len(names)], names[(width + shift * 7 + nbytes // 100) % len(names)], 'User-Agent']:
                    m = 'OPTIONS' if name.startswith('Access-') else rng.choice(['GET', 'GET', 'HEAD', 'POST', 'OPTIONS'])
                    hs = ([('Origin', 'http://o')] if name.startswith('Access-') else []) + [(name, v)]
                    cases.append(K.mk(tree, m, rng.choice(['/s100.bin', '/missing', '/', '/form-get-method?a=1']), hs, entry=rng.choice(['proc', 'preq']), kind='wide-value'))
                cases.append(K.mk(tree, 'GET', '/s100.bin?q=' + v[:3000], [], entry=rng.choice(['proc', 'preq']), kind='wide-value'))
                cases.append(K.mk(tree, 'GET', '/' + v[:600] + '/' + v[:900] + '.txt', [], entry=rng.choice(['proc', 'preq']), kind='wide-value'))
                cases.append(K.mk(tree, 'GET', '/form-get-method?' + v[:300] + '=' + v[:2000], [], entry=rng.choice(['proc', 'preq']), kind='wide-value'))
    # very many ranges, very many header lines (a table of parts / of headers with a capacity)
    for n in (41, 64, 65, 100, 128, 129, 256, 257, 300) if not quick else (65, 129, 300):
        rv = 'bytes=' + ','.join('%d-%d' % (i % 97, i % 97) for i in range(n))
        for m in ('GET', 'HEAD', 'OPTIONS'): cases.append(K.mk(tree, m, '/s100.bin', [('Range', rv)], entry=rng.choice(['proc', 'preq']), kind='many-parts'))
        hs = [('X-H%d' % i, 'v') for i in range(n)]
        for m in ('GET', 'HEAD'): cases.append(K.mk(tree, m, '/s100.bin', hs[:n // 2] + [('Origin', 'http://o')] + hs[n // 2:], entry=rng.choice(['proc', 'preq']), kind='many-headers'))
    return tree, add_twins(cases)

def second_pass_batches(rng, tier):
    if tier == 'quick': return [feature_batch(rng, tier), neighbour_batch(rng, tier), wire_batch(rng, tier)]
    return [feature_batch(rng, tier, k, 6) for k in range(6)] + [neighbour_batch(rng, tier), wire_batch(rng, tier)]
