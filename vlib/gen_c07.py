"""Extra schedule / history classes for props/c07.py (generator audit, see audit/C07/AUDIT.md).

A scenario is (class, N, kinds, perturb); `kinds` uses the alphabet of `rws_harness pool`:
  i instant, e handler error, l long (20 ms), b blocks on a barrier of N, p panics (caught by the pool),
  w = the submitter waits until everything submitted so far has finished.
Every generated script is LEGAL: a correct pool completes it (the number of `b` tasks before every
`w` and at the end is a multiple of N; otherwise the submitter / the scenario would wait for a
rendezvous that can never fill).  `legal` is asserted for every scenario that leaves this module.

What the classes are for (a defect of the pool could hinge on each of them):
  quiet-burst        the pool has run 0 < k <= N tasks (or whole rendezvous rounds), is completely quiescent
                     (one worker asleep in recv holding the lock, the others asleep in lock()), THEN a burst of N
                     rendezvous tasks arrives: on-demand worker start, lost wake-ups, idle bookkeeping
  backlog-rendezvous all workers busy (long tasks) while the N rendezvous tasks are queued: they are picked up
                     by workers that come back from a job, not by workers that were waiting
  count-boundary     task counts N+1, 3N+1, 4N with all workers busy, i.e. with the whole rest queued
  deep-backlog       far more than 4N tasks queued at once (70 .. 4200): bounded queues with a constant capacity
  long-history       more than 256 (1024) tasks per worker on one pool, then the rendezvous: counters, workers
                     that leave after k jobs
  idle-period        N-1 (or 1) workers have nothing to do for 0.2 s .. 2 s while one worker is busy, then the
                     rendezvous: idle time-outs
  large-N            9 .. 64 workers (the server default is 200; the harness accepts up to 64)
  seed-sweep         the plain rendezvous under further perturbation seeds
  edge-w             pauses with nothing submitted, doubled pauses, a pause at the very end
  rounds             random: 1..4 segments, each a shuffled mix of whole rendezvous groups and instant / error /
                     long / panicking tasks, pauses between segments (pause and rendezvous in ONE script), up to ~8N tasks

Second audit pass (audit/C07/AUDIT2.md): what a FEATURE added to the pool would hinge on - a relation between two things of the
history (backlog depth and the place of the rendezvous in it; how long a job has been running and the next submit; how long the
pool was idle, how often, and the size of the burst that follows; how many jobs failed on one pool).  `fixed2` are the fast ones,
`slow2` the ones whose submitter sleeps (`z`): they run in a lane of their own, one harness process each, at the same time as
everything else (props/c07.py).  Every script ends with a pause and a further rendezvous round, most with two: a pool that
completes the history but comes out of it with fewer than N workers is seen there.
  front-backlog      the rendezvous at the FRONT or in the MIDDLE of a backlog far beyond 4N (all workers busy, then N barrier tasks,
                     then 70..2100 instant ones): batching / draining / spilling that starts above a backlog threshold
  behind-backlog     the rendezvous at the END of such a backlog, without a pause before it
  spread-backlog     the N barrier tasks d = 1..63 instant tasks apart inside a backlog: private batches, stolen halves of a queue
  multi-round-backlog  2, 3, 5, 8 whole rendezvous rounds queued while all workers are busy: shares computed from backlog / N
  queued-rounds      12 (thorough 40) rounds submitted in one go to an idle pool
  ping-pong          submit, wait until done, submit ... 200 (thorough 2000) times: every submit meets a worker that finished a
                     moment ago (spin-then-park, suppressed wake-ups, idle counters), then the rendezvous
  panic-history      20..300 (thorough 1100) panicking jobs on one pool - C07's random scripts hold at most three -, also while N-1
                     workers are held: panic counters, respawn budgets, crash-loop protection
  staggered          the N barrier tasks do NOT arrive together: k of them, the submitter sleeps 0.3 .. 2.4 s (thorough 6 s), the rest;
                     also one by one with a sleep after each; also with instant work for the one free worker in between.  The first
                     jobs have been RUNNING for that long when the next submit comes: hung-job detection, replacement workers,
                     growth on demand with settled counters, a single worker idle while N-1 are busy
  long-idle          the whole pool idle for 1.2 / 1.5 / 2.1 / 3.3 s (thorough up to 7.2 s) - the first pass stopped at 0.6 s (0.9 s) -
                     before the first job, after a burst, after panics, after a deep backlog; then TWO rendezvous rounds:
                     keep-alive of idle workers, polling recv_timeout, workers retiring one after the other (every T, the next
                     lock holder starts its own wait), respawn on the next submit
  idle-cycles        burst, idle, burst, idle ... three to five times on one pool: a respawn that works once
  large-N-sleep      long-idle / staggered / idle-cycles on pools of 9 .. 64 workers
  long-wait          a backlog of LONG tasks (20 ms each; the first pass queued at most 4N of them = 80 ms): the tasks at its end,
                     and the rendezvous behind them, have waited 0.8 .. 2.4 s (thorough 6 s) in the queue when a worker gets to
                     them: time-outs on queued jobs, shedding of stale jobs, deadlines, priorities that age
  huge-history       thorough only, judged by the oracle alone (replaying 70 000 tasks on the model takes minutes): 34 000 /
                     66 000 / 70 000 tasks on one pool: 15 / 16 bit counters and sequence numbers
"""

ALPHABET = 'ielbpwz'   # z: the submitter sleeps 300 ms (not a task)

def legal(n, kinds):
    nb = 0
    for c in kinds:
        if c not in ALPHABET: return False
        if c == 'b': nb += 1
        elif c == 'w' and nb % n: return False
    return nb % n == 0

def fixed(tier):
    """the deterministic classes; list of (class, N, kinds, perturb)"""
    quick = tier == 'quick'
    out = []
    def add(cls, n, kinds, perturb): out.append((cls, n, kinds, perturb))
    for n in range(1, 9):
        B = 'b' * n
        # --- quiet-burst
        add('quiet-burst', n, 'iw' + B, True)
        add('quiet-burst', n, 'i' * n + 'w' + B, False)
        if n >= 2:
            add('quiet-burst', n, 'i' * (n - 1) + 'w' + B, True)
            add('quiet-burst', n, 'iw' * (n - 1) + B, n % 2 == 0)
            add('quiet-burst', n, 'i' * (n - 1) + B, True)              # warm-up of fewer than N, no pause
        add('quiet-burst', n, B + 'w' + B + 'w' + B, True)
        add('quiet-burst', n, 'lw' + B, False)
        if not quick:
            add('quiet-burst', n, 'iw' + B, False)
            add('quiet-burst', n, 'i' * n + 'w' + B, True)
            add('quiet-burst', n, (B + 'w') * 6 + 'i' + 'w' + B, True)
            add('quiet-burst', n, 'ew' * (2 * n) + B + B, True)
        # --- backlog-rendezvous
        add('backlog-rendezvous', n, 'l' * n + B, True)
        add('backlog-rendezvous', n, 'l' * n + 'i' * n + B + 'i' * n, False)
        if not quick:
            add('backlog-rendezvous', n, 'l' * n + B + B, True)
            add('backlog-rendezvous', n, 'l' * n + B, False)
        # --- count-boundary (inside the quantifier: <= 4N tasks)
        add('count-boundary', n, 'l' * n + 'i' * (2 * n + 1), False)    # 3N+1: N running, 2N+1 queued
        add('count-boundary', n, 'l' * n + 'i' * (3 * n), n % 2 == 1)   # 4N: N running, 3N queued
        add('count-boundary', n, 'l' * (n + 1), True)
        if n >= 2:
            add('count-boundary', n, 'b' * (n - 1) + 'i' * (3 * n) + 'b', False)   # one worker serves 3N tasks, N-1 are held
        if not quick or n in (1, 3, 8):
            add('count-boundary', n, 'l' * (4 * n), True)
        # --- seed-sweep
        for _ in range(2 if quick else 20):
            add('seed-sweep', n, B, True)
        add('seed-sweep', n, B + B, True)
    # --- deep-backlog (beyond 4N tasks)
    if quick:
        busy = [(1, 70), (2, 140), (4, 300), (8, 70), (8, 600), (1, 1100), (3, 2100)]
        held = [(2, 70), (3, 140), (8, 300), (2, 1100)]
    else:
        busy = [(n, m) for n in range(1, 9) for m in (70, 140, 300, 600, 1100, 2100)] + [(1, 4200), (8, 4200)]
        held = [(n, m) for n in range(2, 9) for m in (70, 140, 300, 1100)] + [(2, 4200)]
    for n, m in busy:
        add('deep-backlog', n, 'l' * n + 'i' * m + 'w' + 'b' * n, False)
    for n, m in held:
        add('deep-backlog', n, 'b' * (n - 1) + 'i' * m + 'b' + 'w' + 'b' * n, False)
    # --- long-history: more than 256 tasks for at least one worker, then all N workers are needed
    if quick:
        hist = [(1, 'i' * 300), (2, 'ie' * 280), (3, 'i' * 800), (2, ('i' * 40 + 'w') * 14), (1, 'i' * 1100), (4, 'iie' * 370)]
    else:
        hist = [(n, 'i' * (270 * n)) for n in range(1, 9)] + [(n, ('iie' * 30 + 'w') * (3 * n)) for n in range(1, 9)]
        hist += [(1, 'i' * 1100), (2, 'i' * 2200), (1, ('i' * 64 + 'w') * 20), (1, 'i' * 5000)]
    for n, h in hist:
        add('long-history', n, h + ('' if h.endswith('w') else 'w') + 'b' * n, False)
    if not quick:
        add('long-history', 2, 'i' * 600 + 'w' + 'bb', True)
    # --- idle-period: N-1 workers idle while one runs k long tasks one after the other
    if quick:
        idle = [(2, 20, 1), (5, 20, 1), (8, 20, 1), (3, 10, 2)]
    else:
        idle = [(n, 50, 1) for n in range(2, 9)] + [(2, 100, 1), (8, 100, 1), (4, 50, 3), (8, 50, 7)]
    for n, k, busy_workers in idle:
        add('idle-period', n, ('l' * busy_workers + 'w') * k + 'b' * n, False)
    # the WHOLE pool idle for 0.3 .. 0.9 s (`w` then `z`): before the first job, between bursts, after panics - then the rendezvous
    for n, kinds in ([(2, 'z' + 'bb'), (3, 'i' * 3 + 'wz' + 'b' * 3), (4, 'b' * 4 + 'wzz' + 'b' * 4), (8, 'p' * 8 + 'wz' + 'b' * 8), (1, 'iwzwzb')] if quick else
                     [(n, pre + 'w' + 'z' * k + 'b' * n) for n in range(1, 9) for pre in ('', 'i' * n, 'b' * n, 'p' * n, 'l' * n) for k in (1, 3)]):
        add('whole-pool-idle', n, kinds, False)
    # --- large-N
    big = [9, 16, 33, 64] if quick else [9, 10, 11, 12, 13, 15, 16, 17, 20, 24, 31, 32, 33, 48, 63, 64]
    for j, n in enumerate(big):
        B = 'b' * n
        shapes = [B, 'iw' + B, B + 'w' + B, 'l' * n + B + 'i' * n]
        if quick:
            add('large-N', n, shapes[j % 4], j % 2 == 1)
        else:
            for s in shapes: add('large-N', n, s, True)
            add('large-N', n, B, False)
    # --- edge-w
    for n in (1, 2, 8) if quick else range(1, 9):
        add('edge-w', n, 'w', False)
        add('edge-w', n, 'wi' + 'w' + 'w' + 'b' * n + 'w', True)
    return out

def rounds(rng, tier):
    """one random script of the class `rounds`"""
    n = rng.range(1, 8)
    if tier != 'quick' and rng.chance(1, 12): n = rng.range(9, 16)
    kinds = []
    nl = npanic = 0
    for _ in range(rng.range(1, 4)):
        k = rng.range(0, 2 * n)
        g = rng.range(0, min(2, k // n))
        seg = ['b'] * (g * n)
        for _ in range(k - g * n):
            c = rng.choice('iiiielp')
            if c == 'l':
                if nl >= n: c = 'i'
                else: nl += 1
            if c == 'p':
                if npanic >= 3: c = 'e'
                else: npanic += 1
            seg.append(c)
        rng.shuffle(seg)
        kinds += seg
        if rng.chance(1, 2): kinds.append('w')
    return ('rounds', n, ''.join(kinds), rng.chance(3, 4))

def extras(rng, tier):
    out = fixed(tier) + fixed2(tier)
    for _ in range(120 if tier == 'quick' else 6000):
        out.append(rounds(rng, tier))
    for cls, n, kinds, _ in out:
        assert legal(n, kinds), (cls, n, kinds)
    return out

# ----------------------------------------------------------------------------- second audit pass
def fixed2(tier):
    """fast classes of the second pass; list of (class, N, kinds, perturb)"""
    quick = tier == 'quick'
    out = []
    def add(cls, n, kinds, perturb): out.append((cls, n, kinds, perturb))
    # --- the rendezvous and a deep backlog in ONE burst (no pause between them)
    front = ([(2, 0, 70), (3, 5, 300), (8, 0, 140), (4, 40, 1100), (2, 3, 600), (5, 0, 70)] if quick else
             [(n, a, m) for n in range(2, 9) for a, m in ((0, 70), (0, 300), (5, 140), (40, 1100), (100, 2100))])
    for j, (n, a, m) in enumerate(front):
        add('front-backlog', n, 'l' * n + 'i' * a + 'b' * n + 'i' * m + 'w' + 'b' * n, j % 3 == 2)
    behind = ([(2, 70), (3, 300), (8, 140), (4, 1100)] if quick else [(n, m) for n in range(2, 9) for m in (70, 140, 300, 1100, 2100)])
    for j, (n, m) in enumerate(behind):
        add('behind-backlog', n, 'l' * n + 'i' * m + 'b' * n + 'w' + 'b' * n, j % 3 == 1)
    spread = ([(2, 1), (3, 3), (4, 15), (8, 7), (2, 63), (6, 31)] if quick else [(n, d) for n in range(2, 9) for d in (1, 2, 3, 7, 15, 31, 63, 127)])
    for j, (n, d) in enumerate(spread):
        add('spread-backlog', n, 'l' * n + ('i' * d + 'b') * n + 'i' * d + 'w' + 'b' * n, j % 2 == 1)
    for n in range(2, 9):
        for k in ((2, 3, 5, 8) if not quick else (2, 3) if n in (2, 5) else (2, 5) if n == 3 else (2,)):
            add('multi-round-backlog', n, 'l' * n + 'b' * (k * n) + 'w' + 'b' * n, (n + k) % 2 == 0)
    for n in ((2, 3, 8) if quick else range(1, 9)):
        add('queued-rounds', n, 'b' * (n * (12 if quick else 40)) + 'w' + 'b' * n, n % 2 == 1)
    # --- ping-pong
    for n, reps in ([(1, 200), (2, 200), (8, 120)] if quick else [(n, r) for n in range(1, 9) for r in (200, 2000)]):
        add('ping-pong', n, 'iw' * reps + 'b' * n + 'w' + 'b' * n, False)
        if not quick: add('ping-pong', n, 'iw' * 200 + 'b' * n + 'w' + 'b' * n, True)
    for n, reps in ([(2, 60), (5, 30)] if quick else [(n, 100) for n in range(1, 9)]):
        add('ping-pong', n, ('b' * n + 'w') * reps + 'b' * n, n == 5)
    # --- panic-history
    ph = ([(1, 'p' * 40 + 'w'), (2, 'p' * 70), (4, 'bbb' + 'p' * 20 + 'b' + 'w'), (3, 'p' * 300 + 'w'), (8, 'pi' * 40 + 'w')] if quick else
          [(n, 'p' * m + sep) for n in range(1, 9) for m in (20, 70, 300, 1100) for sep in ('w', '')] +
          [(n, 'b' * (n - 1) + 'p' * 40 + 'b' + 'w') for n in range(2, 9)])
    for j, (n, h) in enumerate(ph):
        add('panic-history', n, h + 'b' * n + 'w' + 'b' * n, j % 2 == 1)
    return out

def slow2(tier):
    """classes of the second pass whose submitter sleeps (z = 300 ms); list of (class, N, kinds, perturb), longest first"""
    quick = tier == 'quick'
    out = []
    def add(cls, n, kinds, perturb): out.append((cls, n, kinds, perturb))
    def tail(n): return 'w' + 'b' * n + 'w' + 'b' * n
    # --- long-idle: (N, history before the idle period, number of z)
    if quick:
        li = [(1, '', 4), (2, 'bbw', 7), (3, 'iiiw', 11), (8, 'b' * 8 + 'w', 4), (4, 'ppppw', 5), (2, 'll' + 'i' * 300 + 'w', 4), (5, '', 5)]
    else:
        li = [(n, pre, z) for n in (1, 2, 3, 5, 8) for pre in ('', 'i' * n + 'w', 'b' * n + 'w', 'p' * n + 'w') for z in (4, 7, 11, 17, 24)]
        li += [(n, 'l' * n + 'i' * 300 + 'w', 7) for n in (1, 4, 8)]
    for n, pre, z in li:
        add('long-idle', n, pre + 'z' * z + 'b' * n + tail(n), False)
    # --- idle-cycles
    cyc = ([(2, 'bbwzz', 3), (1, 'iwzz', 4), (3, 'bbbwz', 5), (8, 'b' * 8 + 'wzz', 2)] if quick else
           [(n, 'b' * n + 'w' + 'z' * z, c) for n in (1, 2, 3, 8) for z, c in ((1, 8), (2, 5), (4, 4), (7, 3))])
    for n, unit, c in cyc:
        add('idle-cycles', n, unit * c + 'b' * n + tail(n), False)
    # --- staggered rendezvous
    for n in range(2, 9):
        ks = sorted({1, n - 1, n // 2}) if not quick else ([1, n - 1] if n > 2 else [1])
        for k in ks:
            add('staggered', n, 'b' * k + 'z' + 'b' * (n - k) + tail(n), (n + k) % 2 == 0)
    st = ([(2, 'bzzzb'), (4, 'bzbzbzb'), (8, 'b' * 7 + 'zzzz' + 'b'), (3, 'b' + 'z' * 8 + 'bb'), (5, 'bbzzbzzbb'), (3, 'bbz' + 'iii' + 'z' + 'b'), (6, 'b' * 5 + 'z' + 'iel' * 4 + 'zz' + 'b')] if quick else
          [(n, 'b' * (n - 1) + 'z' * z + 'b') for n in range(2, 9) for z in (3, 5, 8, 14, 20)] +
          [(n, 'bz' * (n - 1) + 'b') for n in range(2, 9)] + [(n, 'bzz' * (n - 1) + 'b') for n in (2, 3, 4)] +
          [(n, 'b' * (n - 1) + 'z' + 'iel' * n + 'zz' + 'b') for n in range(2, 9)] + [(n, 'b' + 'z' * 8 + 'b' * (n - 1)) for n in range(2, 9)])
    for j, (n, kinds) in enumerate(st):
        add('staggered', n, kinds + tail(n), j % 2 == 1)
    # --- the same relations on pools of more than 8 workers (the server default is 200, the harness takes up to 64)
    for n, kinds in ([(16, 'b' * 16 + 'w' + 'zzzz' + 'b' * 16), (64, 'b' * 63 + 'zz' + 'b'), (33, 'zzzz' + 'b' * 33), (12, 'b' * 5 + 'zz' + 'b' * 7)] if quick else
                     [(n, k) for n in (9, 16, 24, 33, 64) for k in ('b' * n + 'w' + 'z' * 4 + 'b' * n, 'z' * 7 + 'b' * n, 'b' * (n - 1) + 'zzz' + 'b',
                                                                    'b' + 'zz' + 'b' * (n - 1), ('b' * n + 'wzz') * 2 + 'b' * n)]):
        add('large-N-sleep', n, kinds + tail(n), False)
    # --- long-wait: a backlog of LONG tasks - the last ones wait 0.8 .. 2.4 s (thorough 6 s) in the queue while every worker is busy
    lw = ([(1, 75, 'iie'), (2, 240, 'i'), (8, 320, 'ieie'), (3, 330, '')] if quick else
          [(n, n * m, 'iie') for n in (1, 2, 3, 4, 8) for m in (30, 60, 120, 200, 300)])
    for n, m, more in lw:
        add('long-wait', n, 'l' * m + more + 'b' * n + tail(n), False)
    out.sort(key=lambda s: -(s[2].count('z') * 0.3 + s[2].count('l') * 0.02 / s[1]))
    return out

def huge(tier):
    """thorough only; judged by the oracle alone (props/c07.py)"""
    if tier == 'quick': return []
    return [('huge-history', 1, 'i' * 66000 + 'w' + 'b', False), ('huge-history', 3, 'i' * 70000 + 'w' + 'bbb', False),
            ('huge-history', 2, 'ie' * 17000 + 'w' + 'bb', False)]

def check_legal(scens):
    for cls, n, kinds, _ in scens:
        assert legal(n, kinds), (cls, n, kinds[:80])
    return scens

def interleave(base, extra):
    """`extra` spread evenly over `base` (keeps the slow classes out of one harness batch)"""
    if not extra: return list(base)
    out, j, bi = [], 0, 0
    total = len(base) + len(extra)
    for pos in range(total):
        if j < len(extra) and (bi >= len(base) or (pos + 1) * len(extra) // total > j):
            out.append(extra[j]); j += 1
        else:
            out.append(base[bi]); bi += 1
    return out
