"""Extra schedule / history classes for props/c07.py (generator audit, see audit/C07/AUDIT.md).

A scenario is (class, N, kinds, perturb); `kinds` uses the alphabet of `rws_harness pool`:
  i instant, e handler error, l long (20 ms), b blocks on a barrier of N, p panics (caught by the pool),
  w = the submitter waits until everything submitted so far has finished.
Every generated script is LEGAL: a correct pool completes it (the number of `b` tasks before every
`w` and at the end is a multiple of N; otherwise the submitter / the scenario would wait for a
rendezvous that can never fill).  `legal` is asserted for every scenario that leaves this module.

What the classes are for (a defect of the pool could hinge on each of them):
  quiet-burst        the pool has run 0 < k <= N tasks (or whole rendezvous rounds), is completely quiescent
                     (one worker asleep in recv holding the lock, the others asleep in lock()), THEN a burst of N
                     rendezvous tasks arrives: on-demand worker start, lost wake-ups, idle bookkeeping
  backlog-rendezvous all workers busy (long tasks) while the N rendezvous tasks are queued: they are picked up
                     by workers that come back from a job, not by workers that were waiting
  count-boundary     task counts N+1, 3N+1, 4N with all workers busy, i.e. with the whole rest queued
  deep-backlog       far more than 4N tasks queued at once (70 .. 4200): bounded queues with a constant capacity
  long-history       more than 256 (1024) tasks per worker on one pool, then the rendezvous: counters, workers
                     that leave after k jobs
  idle-period        N-1 (or 1) workers have nothing to do for 0.2 s .. 2 s while one worker is busy, then the
                     rendezvous: idle time-outs
  large-N            9 .. 64 workers (the server default is 200; the harness accepts up to 64)
  seed-sweep         the plain rendezvous under further perturbation seeds
  edge-w             pauses with nothing submitted, doubled pauses, a pause at the very end
  rounds             random: 1..4 segments, each a shuffled mix of whole rendezvous groups and instant / error /
                     long / panicking tasks, pauses between segments (pause and rendezvous in ONE script), up to ~8N tasks
"""

ALPHABET = 'ielbpwz'   # z: the submitter sleeps 300 ms (not a task)

def legal(n, kinds):
    nb = 0
    for c in kinds:
        if c not in ALPHABET: return False
        if c == 'b': nb += 1
        elif c == 'w' and nb % n: return False
    return nb % n == 0

def fixed(tier):
    """the deterministic classes; list of (class, N, kinds, perturb)"""
    quick = tier == 'quick'
    out = []
    def add(cls, n, kinds, perturb): out.append((cls, n, kinds, perturb))
    for n in range(1, 9):
        B = 'b' * n
        # --- quiet-burst
        add('quiet-burst', n, 'iw' + B, True)
        add('quiet-burst', n, 'i' * n + 'w' + B, False)
        if n >= 2:
            add('quiet-burst', n, 'i' * (n - 1) + 'w' + B, True)
            add('quiet-burst', n, 'iw' * (n - 1) + B, n % 2 == 0)
            add('quiet-burst', n, 'i' * (n - 1) + B, True)              # warm-up of fewer than N, no pause
        add('quiet-burst', n, B + 'w' + B + 'w' + B, True)
        add('quiet-burst', n, 'lw' + B, False)
        if not quick:
            add('quiet-burst', n, 'iw' + B, False)
            add('quiet-burst', n, 'i' * n + 'w' + B, True)
            add('quiet-burst', n, (B + 'w') * 6 + 'i' + 'w' + B, True)
            add('quiet-burst', n, 'ew' * (2 * n) + B + B, True)
        # --- backlog-rendezvous
        add('backlog-rendezvous', n, 'l' * n + B, True)
        add('backlog-rendezvous', n, 'l' * n + 'i' * n + B + 'i' * n, False)
        if not quick:
            add('backlog-rendezvous', n, 'l' * n + B + B, True)
            add('backlog-rendezvous', n, 'l' * n + B, False)
        # --- count-boundary (inside the quantifier: <= 4N tasks)
        add('count-boundary', n, 'l' * n + 'i' * (2 * n + 1), False)    # 3N+1: N running, 2N+1 queued
        add('count-boundary', n, 'l' * n + 'i' * (3 * n), n % 2 == 1)   # 4N: N running, 3N queued
        add('count-boundary', n, 'l' * (n + 1), True)
        if n >= 2:
            add('count-boundary', n, 'b' * (n - 1) + 'i' * (3 * n) + 'b', False)   # one worker serves 3N tasks, N-1 are held
        if not quick or n in (1, 3, 8):
            add('count-boundary', n, 'l' * (4 * n), True)
        # --- seed-sweep
        for _ in range(2 if quick else 20):
            add('seed-sweep', n, B, True)
        add('seed-sweep', n, B + B, True)
    # --- deep-backlog (beyond 4N tasks)
    if quick:
        busy = [(1, 70), (2, 140), (4, 300), (8, 70), (8, 600), (1, 1100), (3, 2100)]
        held = [(2, 70), (3, 140), (8, 300), (2, 1100)]
    else:
        busy = [(n, m) for n in range(1, 9) for m in (70, 140, 300, 600, 1100, 2100)] + [(1, 4200), (8, 4200)]
        held = [(n, m) for n in range(2, 9) for m in (70, 140, 300, 1100)] + [(2, 4200)]
    for n, m in busy:
        add('deep-backlog', n, 'l' * n + 'i' * m + 'w' + 'b' * n, False)
    for n, m in held:
        add('deep-backlog', n, 'b' * (n - 1) + 'i' * m + 'b' + 'w' + 'b' * n, False)
    # --- long-history: more than 256 tasks for at least one worker, then all N workers are needed
    if quick:
        hist = [(1, 'i' * 300), (2, 'ie' * 280), (3, 'i' * 800), (2, ('i' * 40 + 'w') * 14), (1, 'i' * 1100), (4, 'iie' * 370)]
    else:
        hist = [(n, 'i' * (270 * n)) for n in range(1, 9)] + [(n, ('iie' * 30 + 'w') * (3 * n)) for n in range(1, 9)]
        hist += [(1, 'i' * 1100), (2, 'i' * 2200), (1, ('i' * 64 + 'w') * 20), (1, 'i' * 5000)]
    for n, h in hist:
        add('long-history', n, h + ('' if h.endswith('w') else 'w') + 'b' * n, False)
    if not quick:
        add('long-history', 2, 'i' * 600 + 'w' + 'bb', True)
    # --- idle-period: N-1 workers idle while one runs k long tasks one after the other
    if quick:
        idle = [(2, 20, 1), (5, 20, 1), (8, 20, 1), (3, 10, 2)]
    else:
        idle = [(n, 50, 1) for n in range(2, 9)] + [(2, 100, 1), (8, 100, 1), (4, 50, 3), (8, 50, 7)]
    for n, k, busy_workers in idle:
        add('idle-period', n, ('l' * busy_workers + 'w') * k + 'b' * n, False)
    # the WHOLE pool idle for 0.3 .. 0.9 s (`w` then `z`): before the first job, between bursts, after panics - then the rendezvous
    for n, kinds in ([(2, 'z' + 'bb'), (3, 'i' * 3 + 'wz' + 'b' * 3), (4, 'b' * 4 + 'wzz' + 'b' * 4), (8, 'p' * 8 + 'wz' + 'b' * 8), (1, 'iwzwzb')] if quick else
                     [(n, pre + 'w' + 'z' * k + 'b' * n) for n in range(1, 9) for pre in ('', 'i' * n, 'b' * n, 'p' * n, 'l' * n) for k in (1, 3)]):
        add('whole-pool-idle', n, kinds, False)
    # --- large-N
    big = [9, 16, 33, 64] if quick else [9, 10, 11, 12, 13, 15, 16, 17, 20, 24, 31, 32, 33, 48, 63, 64]
    for j, n in enumerate(big):
        B = 'b' * n
        shapes = [B, 'iw' + B, B + 'w' + B, 'l' * n + B + 'i' * n]
        if quick:
            add('large-N', n, shapes[j % 4], j % 2 == 1)
        else:
            for s in shapes: add('large-N', n, s, True)
            add('large-N', n, B, False)
    # --- edge-w
    for n in (1, 2, 8) if quick else range(1, 9):
        add('edge-w', n, 'w', False)
        add('edge-w', n, 'wi' + 'w' + 'w' + 'b' * n + 'w', True)
    return out

def rounds(rng, tier):
    """one random script of the class `rounds`"""
    n = rng.range(1, 8)
    if tier != 'quick' and rng.chance(1, 12): n = rng.range(9, 16)
    kinds = []
    nl = npanic = 0
    for _ in range(rng.range(1, 4)):
        k = rng.range(0, 2 * n)
        g = rng.range(0, min(2, k // n))
        seg = ['b'] * (g * n)
        for _ in range(k - g * n):
            c = rng.choice('iiiielp')
            if c == 'l':
                if nl >= n: c = 'i'
                else: nl += 1
            if c == 'p':
                if npanic >= 3: c = 'e'
                else: npanic += 1
            seg.append(c)
        rng.shuffle(seg)
        kinds += seg
        if rng.chance(1, 2): kinds.append('w')
    return ('rounds', n, ''.join(kinds), rng.chance(3, 4))

def extras(rng, tier):
    out = fixed(tier)
    for _ in range(120 if tier == 'quick' else 6000):
        out.append(rounds(rng, tier))
    for cls, n, kinds, _ in out:
        assert legal(n, kinds), (cls, n, kinds)
    return out

def interleave(base, extra):
    """`extra` spread evenly over `base` (keeps the slow classes out of one harness batch)"""
    if not extra: return list(base)
    out, j, bi = [], 0, 0
    total = len(base) + len(extra)
    for pos in range(total):
        if j < len(extra) and (bi >= len(base) or (pos + 1) * len(extra) // total > j):
            out.append(extra[j]); j += 1
        else:
            out.append(base[bi]); bi += 1
    return out
