"""Numbers at and around every machine-integer limit, as decimal text: wherever a parser or handler reads a number
(Content-Length, Range / Content-Range bounds, status codes, query parameters, JSON numbers, ports), arithmetic on
it or an allocation sized by it must not overflow or abort."""
import re
LIMITS = [0, 1, 255, 256, 32767, 32768, 65535, 65536, 2**31 - 1, 2**31, 2**32 - 1, 2**32, 2**53, 2**63 - 1, 2**63, 2**64 - 1, 2**64, 2**127 - 1, 2**127, 2**128 - 1, 2**128]
def numbers(extra=()):
    s = {str(v + d) for v in LIMITS for d in (-2, -1, 0, 1)} | {'-' + str(v) for v in (1, 2**31, 2**31 + 1, 2**63, 2**63 + 1, 2**127, 2**127 + 1)}
    s |= {'+1', '1e3', '1e400', '0x10', '0' * 31 + '1', '9' * 40, '9' * 400, '', ' 1', '1.5', '-0', 'NaN'} | set(extra)
    s.discard('-1'); s.add('-1')
    return sorted(s)
def digit_runs(b):
    return [(m.start(), m.end()) for m in re.finditer(rb'-?[0-9]+', b)]
def substitute(b, values=None):
    """every document obtained from b by replacing ONE digit run by one limit value"""
    vals = [v.encode() for v in (values or numbers())]
    out = []
    for lo, hi in digit_runs(b):
        for v in vals:
            out.append(b[:lo] + v + b[hi:])
    return out
