"""Request generators shared by the server-level properties (C01, C02, C04, C05, C09, C10, C13):
grammar-based valid requests and structure-aware mutations of them."""
from vlib.common import Rng

METHODS = ['GET', 'HEAD', 'POST', 'PUT', 'DELETE', 'CONNECT', 'OPTIONS', 'TRACE', 'PATCH']
VERSIONS = ['HTTP/0.9', 'HTTP/1.0', 'HTTP/1.1', 'HTTP/2.0']
BUILTIN = ['/', '/style.css', '/script.js', '/favicon.svg', '/form-get-method?a=1&b=2', '/file-upload/initiate?name=a&lastModified=1&size=2',
           '/form-get-method?a=1&a=2', '/form-get-method?tag&tag', '/file-upload/initiate?name=a&name=b&lastModified=1&size=2&size=3']

WEIRD_TARGETS = ['x', '*', ':', '@', ']', '[', ':80', ':x', 'http://a/b', 'http://a', 'https://h:1/x?y#z', '//', '//h/..', '/..', '/../x',
                 '..', '.', '', '?', '#', '/?', '/#', '/a?b#c', '/%', '/%2e%2e/x', '/a\\..\\b', '\\', '/ ', '/\t', 'a b', '/a//b', '/./a',
                 '/a/', '/a/.', '/a/..', 'ftp://x', 'localhost', '@a', 'a@b:c/d', '/a:b', '/a@b', '[::1]', '/[', 'http://[::1', 'http://a:b/', 'http://:/']

def req(method='GET', target='/', version='HTTP/1.1', headers=(), body=b'', eol=b'\r\n'):
    out = method.encode('utf-8', 'surrogateescape') + b' ' + (target if isinstance(target, bytes) else target.encode('utf-8', 'surrogateescape')) + b' ' + version.encode() + eol
    for n, v in headers:
        n = n if isinstance(n, bytes) else n.encode('utf-8', 'surrogateescape')
        v = v if isinstance(v, bytes) else v.encode('utf-8', 'surrogateescape')
        out += n + b': ' + v + eol
    return out + eol + body

def rand_token(rng, n=None, alphabet='abcdefghijklmnopqrstuvwxyzABCXYZ0123456789-_.'):
    n = n or rng.range(1, 8)
    return ''.join(rng.choice(alphabet) for _ in range(n))

_VOCAB = None
def vocab_headers():
    """header names the server's own source mentions (string literals shaped like a header name): a request that carries a header
    the server itself emits, reads or advertises (client hints, CORS, caching, framing) takes branches no invented name takes"""
    global _VOCAB
    if _VOCAB is None:
        import os, re
        from vlib import common as C
        names = set()
        for root, _, files in os.walk(C.RWS_SRC):
            for f in files:
                if not f.endswith('.rs') or f in ('tests.rs', 'example.rs'): continue
                try: text = open(os.path.join(root, f), encoding='utf-8', errors='ignore').read()
                except OSError: continue
                names.update(re.findall(r'"([A-Z][A-Za-z0-9]*(?:-[A-Za-z0-9]+)+)"', text))
        names |= {'Host', 'Origin', 'Range', 'Vary', 'Date', 'Cookie', 'Downlink', 'ECT', 'RTT', 'Save-Data', 'Device-Memory', 'DPR', 'Width', 'Viewport-Width',
                  'Sec-CH-UA', 'Sec-CH-UA-Mobile', 'Sec-CH-UA-Platform', 'If-Range', 'If-None-Match', 'If-Modified-Since', 'Connection', 'Upgrade', 'Expect', 'TE', 'Transfer-Encoding'}
        _VOCAB = sorted(n for n in names if len(n) < 60)
    return _VOCAB

def rand_headers(rng, maxn=6):
    hs = []
    for _ in range(rng.range(0, maxn)):
        k = rng.below(10)
        if k >= 8:
            n = rng.choice(vocab_headers())
            if rng.chance(1, 4): n = rng.choice([n.lower(), n.upper()])
            hs.append((n, rng.choice(['?1', '"x86"', '1', 'x', '', 'bytes', 'no-store', '*', 'http://a', 'on', '8'])))
            continue
        if k == 0: hs.append(('Host', rng.choice(['localhost', 'a:80', 'x', ''])))
        elif k == 1: hs.append(('Origin', rng.choice(['http://a', 'https://foo.example', '', 'null', 'http://a\rX-Evil: 1', 'x\ny: z', 'a\x00b', 'http://a: b'])))
        elif k == 2: hs.append(('Range', rng.choice(['bytes=0-', 'bytes=1-2', 'bytes=-3', 'bytes=5-1', 'bytes=a-b', 'bytes=0-0,2-3', 'bytes=-999999999999999999999', 'bytes=18446744073709551615-', 'bits=1-2', 'bytes=', 'bytes=1-2\r\nX: y'])))
        elif k == 3: hs.append(('Content-Length', rng.choice(['0', '5', 'a', '-1', '99999999999999999999999', '', ' 7 '])))
        elif k == 4: hs.append(('Content-Type', rng.choice(['text/plain', 'application/x-www-form-urlencoded', 'multipart/form-data; boundary=abc', 'multipart/form-data; boundary=', 'MULTIPART/FORM-DATA; boundary=x\r'])))
        elif k == 5: hs.append(('Access-Control-Request-Method', rng.choice(['GET', 'PUT\r\nX: 1', ''])))
        elif k == 6: hs.append(('Access-Control-Request-Headers', rng.choice(['X-A, X-B', 'x\ry', 'İ'])))
        else: hs.append((rand_token(rng), rand_token(rng, rng.range(0, 20), alphabet='abc :=;,/?&%"\'')))
    return hs

def valid_request(rng, paths):
    m = rng.choice(METHODS if rng.chance(1, 3) else ['GET', 'GET', 'HEAD', 'OPTIONS', 'POST'])
    t = rng.choice(paths) if paths and rng.chance(3, 4) else rng.choice(BUILTIN)
    if rng.chance(1, 6): t += '?' + rand_token(rng) + '=' + rand_token(rng)
    if rng.chance(1, 12): t = t.split('?')[0] + rng.choice(['?a=1&a=2', '?x&x', '?k=v&K=v', '?a=1&b=2&a=1'])     # a query key given twice
    if rng.chance(1, 10): t += '#' + rand_token(rng)
    body = b''
    hs = rand_headers(rng)
    if hs and rng.chance(1, 8):      # a header given twice: same spelling, another case, another value
        n, v = rng.choice(hs)
        hs.insert(rng.below(len(hs) + 1), (rng.choice([n, n.lower(), n.upper()]), rng.choice([v, v + 'x', ''])))
    if m == 'POST' and rng.chance(1, 2):
        k = rng.below(3)
        if k == 0:
            t = '/form-url-encoded-enctype-post-method'; hs.append(('Content-Type', 'application/x-www-form-urlencoded'))
            body = rng.choice([b'a=1&b=2', b'', b'a', b'\xff\xfe', b'a=%zz&&=', b'k=v' * 50,
                               # the same field more than once (check-box groups, multiple selects), in every shape
                               b'color=red&color=green', b'a=1&b=2&a=3', b'tag&tag', b'a=1&a=1', b'a=&a=', b'A=1&a=2', b'a%20b=1&a+b=2', b'=1&=2', b'x=1&x=2&x=3&x=4'])
        elif k == 1:
            t = '/form-multipart-enctype-post-method'; hs.append(('Content-Type', 'multipart/form-data; boundary=B'))
            body = rng.choice([b'--B\r\nContent-Disposition: form-data; name="a"\r\n\r\nv\r\n--B--\r\n',
                               b'--B\r\nContent-Disposition: form-data\r\n\r\nv\r\n--B--\r\n',
                               b'--B\r\nContent-Disposition: form-data; name="a"\r\n\r\n\xff\xfe\r\n--B--\r\n',
                               b'--B\r\nX: y\r\n\r\nv\r\n--B--\r\n', b'--B\r\n', b'', b'--B--', b'--B\r\n\r\n\r\n--B--\r\n',
                               b'--B\r\nContent-Disposition: form-data; name="a"\r\n\r\n1\r\n--B\r\nContent-Disposition: form-data; name="a"\r\n\r\n2\r\n--B--\r\n',
                               b'--B\r\nContent-Disposition: form-data; name="a"\r\nContent-Disposition: form-data; name="b"\r\n\r\n1\r\n--B--\r\n'])
        else:
            t = rng.choice(['/file-upload/initiate?name=a&lastModified=1&size=2', '/file-upload/initiate', '/file-upload/initiate?name=a', '/file-upload/initiate?%=&&'])
    return m, t, rng.choice(VERSIONS) if rng.chance(1, 5) else 'HTTP/1.1', hs, body

def mutate(rng, raw):
    """one structure-unaware mutation of request bytes"""
    if not raw: return rng.bytes(rng.range(1, 20))
    k = rng.below(11)
    if k >= 9:
        from vlib import vocab as V
        return V.respell(rng, raw)                                # a token of the source's own vocabulary in another spelling
    b = bytearray(raw)
    i = rng.below(len(b))
    if k == 0: return bytes(b[:i])                               # truncate
    if k == 1: b[i] ^= 1 << rng.below(8); return bytes(b)         # bit flip
    if k == 2: b[i] = rng.choice([0, 10, 13, 32, 58, 255, 128, 0xc3]); return bytes(b)
    if k == 3: return bytes(b[:i] + b[i:i + rng.range(1, 8)] * rng.range(2, 5) + b[i:])   # duplicate a slice
    if k == 4: return bytes(b[:i] + rng.bytes(rng.range(1, 6)) + b[i:])
    if k == 5: return bytes(b).replace(b'\r\n', b'\n')
    if k == 6: return bytes(b).replace(b'\r\n', b'\r')
    if k == 7: del b[i:i + rng.range(1, 5)]; return bytes(b)
    return bytes(b[:i]) + b'\r\n' + bytes(b[i:])
