"""A strict HTTP/1.1 response reader, written independently of the serialiser under test.
parse(bytes) -> dict(status, reason, headers=[(name,value)], body) or raises Bad(reason)."""
import re

class Bad(Exception):
    pass

REASONS = {  # RFC 9110 / IANA registry as the code's table is expected to hold them
    200: 'OK', 204: 'No Content', 206: 'Partial Content', 400: 'Bad Request', 404: 'Not Found',
    416: 'Range Not Satisfiable', 500: 'Internal Server Error', 501: 'Not Implemented',
}
TOKEN = re.compile(rb"^[!#$%&'*+\-.^_`|~0-9A-Za-z]+$")

def parse(raw, status_table=None):
    if not raw:
        raise Bad('empty response')
    head_end = raw.find(b'\r\n\r\n')
    if head_end < 0:
        raise Bad('no blank line terminating the head')
    head, body = raw[:head_end], raw[head_end + 4:]
    lines = head.split(b'\r\n')
    m = re.match(rb'^HTTP/1\.1 (\d{3}) (.*)$', lines[0])
    if not m:
        raise Bad('malformed status line %r' % lines[0][:60])
    status = int(m.group(1)); reason = m.group(2).decode('latin1')
    table = status_table or REASONS
    if status not in table:
        raise Bad('status %d is not registered' % status)
    if table[status] != reason:
        raise Bad('reason phrase %r does not match status %d' % (reason, status))
    headers = []
    for ln in lines[1:]:
        if b'\r' in ln or b'\n' in ln:
            raise Bad('bare CR/LF inside header line %r' % ln[:60])
        if b':' not in ln:
            raise Bad('header line without colon %r' % ln[:60])
        name, value = ln.split(b':', 1)
        if not TOKEN.match(name):
            raise Bad('header name is not a token %r' % name[:60])
        headers.append((name.decode('latin1'), value.strip(b' \t').decode('latin1')))
    return dict(status=status, reason=reason, headers=headers, body=body)

def get(headers, name):
    return [v for n, v in headers if n.lower() == name.lower()]

def check_framing(resp, method):
    """C05 clauses on one parsed response; returns list of violated clause names"""
    bad = []
    h = resp['headers']
    for n in ('Content-Length', 'Content-Type', 'Content-Range', 'Transfer-Encoding'):
        if len(get(h, n)) > 1:
            bad.append('duplicate-' + n.lower())
    cl = get(h, 'Content-Length')
    bodyless = method in ('HEAD', 'OPTIONS')
    if bodyless and resp['body']:
        bad.append('body-on-' + method.lower())
    if cl and not bodyless:
        if not cl[0].isdigit() or int(cl[0]) != len(resp['body']):
            bad.append('content-length-mismatch')
    if cl and not cl[0].isdigit():
        bad.append('content-length-not-a-number')
    # HEAD is HTTP's exception (its Content-Length describes the GET body); OPTIONS is not
    if method == 'OPTIONS' and cl and cl[0].isdigit() and int(cl[0]) != len(resp['body']):
        bad.append('options-content-length')
    return bad
