"""Input classes added to C16 by the generator audit (audit/C16/AUDIT.md lists them).  Everything here is a deterministic function of
the seeded PRNG that is passed in.  `P` is the module props/c16.py (its hypothesis class, renderers and base generators).

Sections
  near_misses / rt_cases      round trips IN the hypothesis class (generate, own splitter, parse) on the shapes the base generator
                              does not draw: look-alikes of the boundary (other letter case, control bytes / blanks / a line break
                              inside it, one byte missing / doubled / swapped, other dash characters), small bodies in every position
                              of a part list, long lines without LF, many short lines, big bodies in a later part, long and unusual
                              header texts, repeated header names, boundaries that repeat themselves or spell `boundary=`
  browser_cases               browser-shaped bodies (delimiter lines `--`boundary, close `--`boundary`--`) on the boundary families the
                              base section leaves out (hyphens only, 1 and 70 characters, self-overlapping), 2..8 parts, with and
                              without the final line break
  malformed_cases             bodies with a verdict: preamble lines before a complete body, the LAST delimiter of a several-part body
                              missing, a headerless part whose blank line is a bare LF
  lenient_cases               well-formed part lists written the way other writers do (bare LF line ends, blanks after the delimiter,
                              text before the opening delimiter on its line, epilogue lines, header lines without the blank after the
                              colon / with tabs): model against code only
  content_types               Content-Type values: the boundary parameter spells `boundary=` itself, other parameters around it,
                              other letter case, blanks
  echo_part                   the property's second observation point: POST /form-multipart-enctype-post-method through the four
                              entry points of the harness (Server::process, Server::process_request, App::execute,
                              App::handle_request) against the server model, with its own oracle"""
from vlib import common as C

CRLF = b'\r\n'
CTL = [0, 1, 9, 11, 12, 13, 27, 31, 127]

# header texts that survive `filter_ascii_control_characters` + `trim` unchanged although they look as if they might not:
# characters that are NOT White_Space at either end (zero width space, BOM, Mongolian vowel separator, soft hyphen, word joiner,
# marks), C1 controls and White_Space characters in the INTERIOR, astral characters, colons and quotes in values
ODD_VALUES = ['\u200bx', 'x\u200b', '\ufeffx', 'x\ufeff', '\u180ex', 'x\u180e', '\u00adx', 'x\u00ad', 'x\u2060', '\u200ex', 'x\u061c',
              'a\u0080b', '\u0080', 'a\u009fb', '\u009f', 'a\u0085b', 'a\u00a0b', 'a\u2028b', 'a\u3000b', 'a  b', 'a \u2003 b',
              '\U0001F600', 'x\U0001F600', '\U0001F600x', '\U00010348\U0001D11E', ':', '::', ':v', 'v:', ': v', 'a :b', '"', "'", '""',
              'a"b', '=', ';', ';;', 'a;b=c', '\\', 'a\\r\\nb', '%0D%0A', '\u00e9', 'e\u0301', '\u0131\u0130', '\u00df', '\ufb01',
              '-', '--', '---', '----', 'x--', '--x']
ODD_NAMES = ['a b', 'X Y-z', 'x\u200b', '\ufeffx', 'a\u0080b', 'a\u00a0b', '\U0001F600', '\u00e9', 'e\u0301', 'CONTENT-DISPOSITION',
             'content-Disposition', 'Content-disposition', '-', '--', 'a"b', "a'b", 'a=b', 'a;b', '1', '_']


def _flip(b):
    """other letter case of an ASCII byte string"""
    return bytes((c ^ 0x20) if (65 <= c <= 90 or 97 <= c <= 122) else c for c in b)


def near_misses(rng, b):
    """byte strings that are NOT the boundary `b` (bytes) but are taken for it by a comparison that is sloppy in some way"""
    out = [_flip(b), b.upper(), b.lower(), b[:-1], b[1:], b[::-1],
           b.replace(b'-', b'_'), b.replace(b'-', b'\xe2\x80\x93'), b.replace(b'-', b'\xc2\xad'), b.replace(b'-', b'--'), b.replace(b'--', b'-')]
    if len(b) >= 2:
        k = rng.range(1, len(b) - 1)
        for c in CTL: out.append(b[:k] + bytes([c]) + b[k:])                       # a control byte inside
        out += [b[:k] + b'\n' + b[k:], b[:k] + CRLF + b[k:], b[:k] + b'\r' + b[k:]]  # a line break inside
        out += [b[:k] + x + b[k:] for x in (b' ', b'  ', b'\xc2\xa0', b'\xe2\x80\x8b', b'\xef\xbb\xbf', b'\xff', b'\xc3', b'-', b'=', b'"')]
        out += [b[:k] + b[k + 1:], b[:k] + b[k:k + 1] + b[k:]]                       # one byte missing / doubled
        out.append(b[:k - 1] + b[k:k + 1] + b[k - 1:k] + b[k + 1:])                 # two bytes swapped
        out.append(b[:k] + bytes([b[k] ^ 0x80]) + b[k + 1:])                        # high bit set
        out.append(b[:k] + bytes([b[k] ^ 0x01]) + b[k + 1:])
    return [x for x in out if x and b not in x]


def _body_with(rng, b, P):
    """a body made of look-alikes of the boundary, each on a line of its own or inside a line, at the start / the end of the body"""
    nm = near_misses(rng, b)
    if not nm: return b'x'
    pcs = []
    for _ in range(rng.range(1, 5)):
        pcs.append(rng.choice([b'', b'', b'--', b'x', b' ']) + rng.choice(nm) + rng.choice([b'', b'', b'--', b'x', b' ']))
        pcs.append(rng.choice([CRLF, CRLF, b'\n', b'\r', b'', b'--\r\n']))
    body = b''.join(pcs)
    if rng.chance(1, 2): body = body.rstrip(b'\r\n') if rng.chance(1, 2) else body + rng.choice(P.EDGE)
    return P.scrub(body, b)


def _text_from(x, b, P):
    """a look-alike as a header text, if it is one"""
    try: t = x.decode('utf-8')
    except UnicodeDecodeError: return None
    t = t.strip()
    return t if t and P.text_ok(t) and ':' not in t and b.decode() not in t else None


def _fit(ps, b, P):
    """keep the case inside the hypothesis class: the boundary is scrubbed out of the bodies, header lines that hold it are re-drawn"""
    bb = b.encode()
    out = []
    for hs, body in ps:
        hs2 = []
        for n, v in hs:
            if bb in (n + ': ' + v).encode():
                n, v = (''.join(ch for ch in 'HdrQ' if ch not in b) or 'Z'), ''.join(ch for ch in 'wxyz' if ch not in b)
            hs2.append((n, v))
        out.append((hs2, P.scrub(body, bb)))
    return out


def _lf_free(rng, n):
    return rng.bytes(n).replace(b'\n', b'\x0b')


def _long_text(rng, n, P):
    """a header text of exactly n characters: letters, blanks inside, a multi-byte character now and then"""
    alpha = P.ALNUM + '  -_.;=/' + '\u00e9\u5024'
    t = [rng.choice(alpha) for _ in range(n)]
    t[0] = rng.choice(P.ALNUM); t[-1] = rng.choice(P.ALNUM)
    return ''.join(t)


PERIODIC = ['abab', 'aab', 'aaab', 'xyxyx', 'aa', 'aaa', '-a-a', 'a-a-', '--a--a', 'abcabcab', '=-=-=', "''", '..', 'a.a.a']
SPELLS = ['boundary=', 'boundary=x', 'xboundary=y', 'boundary', 'boundary=boundary=', 'a=b', '=', '==', 'x=', '=x', 'boundary=--x',
          '--boundary=--', 'multipart/form-data', 'Content-Disposition']


def rt_cases(rng, quick, P):
    """[(parts, boundary, tag)] — candidates for the hypothesis class; the caller keeps those that are in it"""
    out = []
    kinds = ['webkit', 'gecko', 'plain', 'punct', 'hyph', 'dashes', 'len1', 'len70', 'space', 'lead']
    hs0 = [('Content-Disposition', 'form-data; name="a"')]
    # (a) look-alikes of the boundary in bodies and header texts
    for i in range(150 if quick else 6000):
        b = P.gen_boundary(rng, rng.choice(kinds)); bb = b.encode()
        ps = []
        for _ in range(rng.range(1, 3)):
            hs = P.gen_headers(rng, b)
            if rng.chance(1, 3):
                t = _text_from(rng.choice(near_misses(rng, bb) or [b'x']), bb, P)
                if t: hs[rng.below(len(hs))] = (rng.choice(['X', t]), t)
            ps.append((hs, _body_with(rng, bb, P)))
        out.append((ps, b, 'look-alike'))
    # (b) self-overlapping boundaries with bodies built from their period; boundaries that spell the parameter name
    for b in PERIODIC + SPELLS:
        bb = b.encode()
        for _ in range(1 if quick else 20):
            unit = [bb[:k] for k in range(1, len(bb))] + [bb[1:], bb[-1:]]
            body = P.scrub(b''.join(rng.choice(unit) + rng.choice([b'', b'', CRLF, b'\n']) for _ in range(rng.range(1, 8))), bb)
            out.append((_fit([(hs0, body), (hs0, b''), (hs0, bb[:-1] + CRLF)], b, P), b, 'boundary periodic / spells parameter'))
    # (c) long lines without LF, many short lines, a big body in a later part
    lens = [4096, 8191, 8192, 8193, 65536] if quick else [255, 256, 1023, 1024, 4095, 4096, 4097, 8191, 8192, 8193, 16383, 16384, 16385, 32768, 65535, 65536]
    for n in lens:
        b = P.gen_boundary(rng, rng.choice(kinds)); bb = b.encode()
        body = P.scrub(_lf_free(rng, n), bb)
        pos = rng.below(3)
        ps = [(hs0, b'x'), (hs0, b''), (hs0, b'y\r\n')]
        ps[pos] = (hs0, body)
        out.append((_fit(ps, b, P), b, 'long line'))
    for unit, n in ((b'\n', 5000), (CRLF, 3000), (b'-\n', 2000), (b'\r', 4000), (b'--\r\n', 1500)):
        b = P.gen_boundary(rng, rng.choice(['webkit', 'plain', 'hyph', 'lead'])); bb = b.encode()
        out.append((_fit([(hs0, b'x'), (hs0, unit * (n if not quick else n // 4))], b, P), b, 'many lines'))
    for _ in range(2 if quick else 40):
        b = P.gen_boundary(rng, rng.choice(kinds)); bb = b.encode()
        n = rng.choice([4095, 4096, 8192, 65535, 65536])
        big = P.scrub((rng.choice(P.EDGE) + rng.bytes(n) + rng.choice(P.EDGE))[:65536], bb)
        ps = [(hs0, P.scrub(P.gen_body(rng, bb), bb)) for _ in range(rng.range(1, 3))] + [(hs0, big)]
        if rng.chance(1, 2): ps.append((hs0, P.scrub(rng.choice(P.EDGE), bb)))
        out.append((_fit(ps, b, P), b, 'big later part'))
    # (d) long header texts
    tl = [256, 1024, 4096, 8192, 8193, 70000] if quick else [255, 256, 257, 1023, 1024, 1025, 4095, 4096, 4097, 8190, 8191, 8192, 8193, 16384, 65535, 65536, 65537, 100000]
    for n in tl:
        b = P.gen_boundary(rng, rng.choice(['webkit', 'gecko', 'lead'])); bb = b.encode()
        out.append(([([('X-Long', _long_text(rng, n, P)), ('Content-Type', 'text/plain')], b'v'), (hs0, b'w')], b, 'long header value'))
        if n <= 8193:
            out.append(([([(_long_text(rng, n, P).replace(':', '.'), 'v')], b'v')], b, 'long header name'))
            k = max(1, n // 4 - 20)
            out.append(([([('H%d' % j, _long_text(rng, k, P)) for j in range(4)], b'v')], b, 'long header block'))
    # (e) unusual header texts, repeated names, names and values at the limits of the hypothesis class
    for i in range(120 if quick else 3000):
        b = P.gen_boundary(rng, rng.choice(['webkit', 'gecko', 'plain', 'lead', 'hyph'])); bb = b.encode()
        hs = []
        for _ in range(rng.range(1, 4)):
            n = rng.choice(ODD_NAMES) if rng.chance(1, 2) else P.gen_text(rng, True)
            v = rng.choice(ODD_VALUES) if rng.chance(2, 3) else P.gen_text(rng, False)
            hs.append((n, v))
        out.append(([(hs, P.scrub(P.gen_body(rng, bb), bb)), (hs[::-1], b'')], b, 'odd header text'))
    for names in (['X', 'X'], ['X', 'x'], ['X', 'Y', 'X'], ['Content-Disposition', 'Content-Disposition'], ['Content-Disposition', 'content-disposition', 'CONTENT-DISPOSITION'],
                  ['A', 'A', 'A', 'A'], ['Content-Type', 'X', 'Content-Type', 'x']):
        for same in (True, False):
            b = P.gen_boundary(rng, 'webkit')
            hs = [(n, 'v' if same else 'v%d' % j) for j, n in enumerate(names)]
            out.append(([(hs, b'1'), (hs, b'1'), (hs0, b'')], b, 'repeated header name'))
    # (f) eight parts, four headers, every part empty / every part a line break
    for body in (b'', CRLF, b'\n', b'\r', b'-', b'--'):
        b = P.gen_boundary(rng, rng.choice(kinds)); bb = b.encode()
        if bb in body: continue
        out.append((_fit([([('A', '1'), ('B', ''), ('C', '3'), ('D', '')], body)] * 8, b, P), b, 'eight equal parts'))
    # (g) more parts and more headers than the base generator draws
    for n in ([9, 64, 1000] if quick else [9, 10, 16, 63, 64, 65, 255, 256, 1000, 5000]):
        b = P.gen_boundary(rng, rng.choice(kinds)); bb = b.encode()
        ps = [([('N', str(j))], rng.choice([b'', b'v', CRLF, b'\n', b'%d' % j])) for j in range(n)]
        out.append((_fit(ps, b, P), b, 'many parts'))
    for n in ([5, 32, 300] if quick else [5, 8, 16, 31, 32, 33, 64, 100, 300, 2000]):
        b = P.gen_boundary(rng, rng.choice(kinds))
        ps = [([('H%d' % j, 'v%d' % j) for j in range(n)], b'v'), (hs0, b'')]
        out.append((_fit(ps, b, P), b, 'many headers'))
    return out


def small_positions(quick, P):
    """every body of length 0..L over {CR, LF, '-', 'a'} as the first, a middle and the last part of a list of three"""
    import itertools
    out = []
    L = 3 if quick else 5
    fill = [b'x', b'', b'y\r\n']
    for n in range(L + 1):
        for tup in itertools.product([13, 10, 45, 97], repeat=n):
            body = bytes(tup)
            for b in ('--a-b', 'q'):
                for pos in range(3):
                    ps = [([('X', 'y')], f) for f in fill]
                    ps[pos] = ([('X', 'y')], body)
                    out.append((ps, b, 'small body, part %d of 3' % (pos + 1)))
    return out


def browser_cases(rng, quick, P):
    """[(parts, boundary, final line break?)] browser-shaped; the caller keeps those in the hypothesis class"""
    out = []
    fams = ['dashes', 'len1', 'len70', 'space', 'webkit', 'gecko', 'lead', 'hyph', 'punct']
    for i in range(120 if quick else 4000):
        fam = rng.choice(fams)
        b = rng.choice(PERIODIC + SPELLS + ['-', '--', '---', '----']) if rng.chance(1, 4) else P.gen_boundary(rng, fam)
        bb = b.encode()
        ps = []
        for _ in range(rng.range(2, 8)):
            ps.append((P.gen_headers(rng, b), P.scrub(_body_with(rng, bb, P) if rng.chance(1, 4) else P.gen_body(rng, bb), bb)))
        out.append((ps, b, rng.chance(1, 2)))
    for _ in range(2 if quick else 60):
        b = P.gen_boundary(rng, rng.choice(fams)); bb = b.encode()
        ps = [(P.gen_headers(rng, b), P.gen_body(rng, bb)), (P.gen_headers(rng, b), P.gen_body(rng, bb, True)), (P.gen_headers(rng, b), rng.choice(P.EDGE))]
        out.append((_fit(ps, b, P), b, rng.chance(1, 2)))
    for b in edge_punct_boundaries(rng, P):
        out.append((_fit([([('Content-Disposition', 'form-data; name="a"')], b'v\r\n'), ([('X', 'y')], b'')], b, P), b, True))
    return out


def edge_punct_boundaries(rng, P):
    """every character of the RFC's alphabet that is not a letter or a digit as the first, the last, an inner and the only character"""
    out = []
    for ch in "'()+_,-./:=? ":
        mid = ''.join(rng.choice(P.ALNUM) for _ in range(rng.range(1, 8)))
        out += [ch + mid, mid + ch, mid + ch + mid, ch + mid + ch, ch + ch + mid + ch + ch, ch]
    return [b for b in out if P.text_ok(b)]


def malformed_cases(rng, quick, P):
    """[(data, boundary, label)] with the verdict `err`"""
    out = []
    for i in range(60 if quick else 2000):
        ps, b = P.gen_case(rng)
        if not (P.wf_parts(ps) and P.ok_boundary(b, ps)): continue
        eps, bb = P.enc_parts(ps), b.encode()
        browser = rng.chance(1, 2)
        good = P.browser_body(eps, bb) if browser else P.writer_body(eps, bb)
        # preamble lines before a complete body: the FIRST line does not hold the boundary
        pre = rng.choice([b'This is a multi-part message in MIME format.', b'x', b'--', b'-- ', P.scrub(rng.bytes(rng.range(1, 30)).replace(b'\n', b'.'), bb),
                          bb[:-1], b'--' + bb[:-1], _flip(bb) if _flip(bb) != bb else b'preamble'])
        data = pre + rng.choice([CRLF, b'\n', CRLF + CRLF]) + good
        if P.no_open_shape(data, bb): out.append((data, b, 'no-open'))
        # the LAST delimiter missing (the earlier ones are there): the data ends inside the last part
        cut = good[:-(len(bb) + 6)] if browser else good[:-len(bb)]     # without the closing delimiter line (`--`b`--` CRLF / b)
        open_end = cut.rfind(bb) + len(bb)          # end of the delimiter that opens the last part
        for data in (cut, cut[:-2], cut + bb[:-1], cut + bb[:-1] + CRLF, cut + b'--' + CRLF, cut + _flip(bb) + b'--' + CRLF):
            if cut.rfind(bb) >= 0 and len(data) > open_end and bb not in data[open_end:]:
                out.append((data, b, 'no-close'))
        # a part without headers whose blank line is a bare LF (first, middle or last part); bodies without a colon only, so that
        # no reading of the bytes after the delimiter line finds a header there
        j = rng.below(len(eps))
        if b':' not in eps[j][1]:
            bad = b''
            for n, (hs, body) in enumerate(eps):
                bad += (b'--' if browser else b'') + bb + CRLF
                if n == j: bad += b'\n' + body + CRLF
                else: bad += b''.join(h + b': ' + v + CRLF for h, v in hs) + CRLF + body + CRLF
            bad += (b'--' + bb + b'--' + CRLF) if browser else bb
            out.append((bad, b, 'headerless'))
    return out


def lenient_cases(rng, quick, P):
    """[(data, boundary)] well-formed part lists in other writers' spellings: differential only"""
    out = []
    for i in range(250 if quick else 10000):
        ps, b = P.gen_case(rng, False, rng.choice(['webkit', 'gecko', 'plain', 'lead', 'hyph', 'dashes', 'len1', 'space']))
        eps, bb = P.enc_parts(ps[:4]), b.encode()
        eol = rng.choice([None, None, b'\n', CRLF, b'\r'])
        E = lambda: eol if eol is not None else rng.choice([CRLF, CRLF, b'\n'])
        dash = rng.choice([b'--', b'--', b'', b'-', b'----'])
        data = rng.choice([b'', b'', b'', b'preamble', b' ', b'\t', b'\xc2\xa0', b'\xff', CRLF, b'x' + CRLF])
        for hs, body in eps:
            data += dash + bb + rng.choice([b'', b'', b' ', b'  \t', b'\t', b'\xc2\xa0', b'x', b'-', b'--', b'\r']) + E()
            for n, v in hs:
                data += rng.choice([b'', b'', b' ', b'\t']) + n + rng.choice([b': ', b': ', b':', b':  ', b':\t', b' : ', b' :']) + v + rng.choice([b'', b'', b' ', b'\t', b'\r']) + E()
            data += rng.choice([b'', b'', b'', b' ', b'\t', b'\xc2\xa0', b'\xe3\x80\x80', b'\r', b'\x00']) + E()
            data += body + E()
        data += dash + bb + rng.choice([b'--', b'--', b'', b'-', b'-- ', b'--x'])
        data += rng.choice([b'', CRLF, b'\n', CRLF + CRLF, b'\n\n', CRLF + b'epilogue', CRLF + b'epilogue' + CRLF, b' ' + CRLF, CRLF + b' ', CRLF + b'\t' + CRLF,
                            CRLF + b'X: y' + CRLF, CRLF + b'X: y' + CRLF + CRLF, CRLF + dash + bb + b'--' + CRLF, b'\r', b'\x00', CRLF + b'\xff'])
        out.append((data, b))
    # boundaries beyond the RFC's 70 characters and with characters outside its alphabet
    for n in ([71, 72, 100, 255, 256, 1000] if quick else list(range(71, 140)) + [255, 256, 257, 1000, 4096, 70000]):
        b = ''.join(rng.choice(P.ALNUM) for _ in range(n))
        out.append((P.browser_body(P.enc_parts([([('X', 'y')], b'v')]), b.encode()), b))
    for b in ['\u00e9', '\u5024', '\u00e9-\u5024', '\U0001F600', 'a b', 'a\u200bb', '\u200b', 'x\u0301', '"', '"a"', 'a"b', 'a;b', 'a\\b', '[a]', '{}', '<>', '@', '*', '#', '%41', '&', '!', '~', '^', '`', '|', '$']:
        out.append((P.browser_body(P.enc_parts([([('X', 'y')], b'v'), ([('X', 'y')], b'')]), b.encode()), b))
        out.append((P.writer_body(P.enc_parts([([('X', 'y')], b'v'), ([('X', 'y')], b'')]), b.encode()), b))
    return out


def content_types(rng, quick, P):
    """([(content type, boundary, tag)] with the verdict `the boundary`, [content type] differential only)"""
    judged, free = [], []
    for b in SPELLS + PERIODIC + ['-', '--', '---', '-' * 70, 'a' * 70, '=' * 70, "'()+_,-./:=?"] + edge_punct_boundaries(rng, P):
        if not P.text_ok(b): continue
        judged.append(('multipart/form-data; boundary=' + b, b, 'plain'))
        judged.append(('multipart/form-data; boundary="' + b + '"', b, 'quoted'))
    for i in range(40 if quick else 1500):
        b = P.gen_boundary(rng, rng.choice(['webkit', 'gecko', 'plain', 'lead', 'hyph', 'punct', 'dashes', 'len1', 'len70']))
        if '"' in b: continue
        # the words of the header inside the boundary value
        k = rng.range(0, len(b))
        b2 = (b[:k] + rng.choice(['boundary=', 'boundary', '=', 'boundary=boundary=', '=boundary']) + b[k:])[:70]
        if P.text_ok(b2):
            q = rng.chance(1, 2)
            judged.append(('multipart/form-data; boundary=' + ('"' + b2 + '"' if q else b2), b2, 'quoted' if q else 'plain'))
        for ct in ('multipart/form-data; charset=utf-8; boundary=' + b, 'multipart/form-data; boundary=' + b + '; charset=utf-8', 'multipart/form-data;boundary=' + b,
                   'Multipart/Form-Data; boundary=' + b, 'multipart/form-data; Boundary=' + b, 'multipart/form-data; BOUNDARY="' + b + '"', 'multipart/form-data; boundary = ' + b,
                   'multipart/form-data; boundary= ' + b, 'multipart/form-data; boundary=' + b + ' ', 'multipart/form-data; boundary="' + b + '" ', 'multipart/form-data; boundary="' + b + '"; x=y',
                   'multipart/form-data; boundary=\'' + b + '\'', 'multipart/form-data; boundary=' + b + '\r\n', 'multipart/form-data; boundary=\t' + b, 'multipart/form-data; xboundary=' + b,
                   'multipart/form-data; boundary=' + b + '; boundary=other', 'multipart/form-data; name="boundary=x"; boundary=' + b, 'boundary=' + b, b):
            if rng.chance(1, 4): free.append(ct)
    return judged, free


# ----------------------------------------------------------------------------- the echo endpoint
FIELD_NAMES = ['a', 'b', 'field1', 'file', 'A', 'a-b', 'a_b.c', 'x1', 'name', 'filename', 'my field', 'a=b', '\u00e9', '\u5024', 'k' * 40, 'q[]', 'user[name]', '0']
ECHO_VALUES = ['', 'v', 'ab', 'abc', ' ', '  ', ' v', 'v ', '\r', '\n', '\r\n', '\n\r', '\r\r', '\n\n', '\r\n\r\n', 'v\r\n', 'v\n', 'v\r', '\r\nv', '\nv', 'a\r\nb', 'a\nb',
               '-', '--', '---', '--\r\n', '\r\n--', '\u00e9', '\u5024', '\U0001F600', 'na\u00efve caf\u00e9', 'a is b', ' is ', 'x \r\n', '\t', 'a\tb', '\x00', 'a\x00b', '\x7f',
               '\u00a0', '\u3000', '\ufeff', 'line one\r\nline two\r\n', 'Content-Disposition: form-data; name="x"', '"', 'a=b&c=d', '%41', '+']
CD_SPELLINGS = ['Content-Disposition', 'Content-Disposition', 'Content-Disposition', 'content-disposition', 'CONTENT-DISPOSITION', 'Content-disposition', 'cOnTeNt-DiSpOsItIoN']


def _echo_value(rng, bb, P):
    k = rng.below(10)
    if k < 5: v = rng.choice(ECHO_VALUES).encode()
    elif k == 5: v = _body_with(rng, bb, P)
    elif k == 6: v = ''.join(rng.choice(P.ALNUM + ' -\r\n') for _ in range(rng.range(0, 40))).encode()
    elif k == 7: v = (rng.choice(P.EDGE) + ''.join(rng.choice('abc\u00e9\u5024 -') for _ in range(rng.range(0, 20))).encode() + rng.choice(P.EDGE))
    else: v = P.gen_body(rng, bb)
    v = P.scrub(v, bb)
    try: v.decode('utf-8')
    except UnicodeDecodeError: v = v.decode('latin-1').encode('utf-8')       # a UTF-8 text with the same shape
    return P.scrub(v, bb)


def echo_forms(rng, quick, P):
    """[(fields [(name, value bytes)], boundary, part writer options)]"""
    forms = []
    fams = ['webkit', 'webkit', 'gecko', 'plain', 'lead', 'hyph', 'punct', 'dashes', 'len1', 'len70', 'space']
    fixed = [[('a', b'v')], [('a', b'')], [('a', b''), ('b', b''), ('c', b'')], [('a', b'\r\n'), ('b', b'\n'), ('c', b'\r')], [('a', b'x\r\n'), ('b', b'x\n')],
             [('a', b'1'), ('a', b'1')], [('a', b'1'), ('a', b'1'), ('a', b'1'), ('b', b'1')], [('a', b'1'), ('b', b'2'), ('a', b'1')], [('a', b'1'), ('A', b'1')],
             [('a', b''), ('a', b'')], [('x', b'v')] * 8, [('n%d' % i, b'%d' % i) for i in range(8)], [('a', b' v '), ('b', b'\tv\t')], [('a', b'v is w'), ('b is c', b'd')]]
    for f in fixed:
        for fam in ('webkit', 'dashes'):
            forms.append((f, P.gen_boundary(rng, fam)))
    for i in range(100 if quick else 4000):
        b = P.gen_boundary(rng, rng.choice(fams)); bb = b.encode()
        n = rng.choice([1, 1, 2, 2, 3, 4, 5, 8])
        f = []
        for _ in range(n):
            if f and rng.chance(1, 5): f.append(rng.choice(f) if rng.chance(1, 2) else (rng.choice(f)[0], _echo_value(rng, bb, P)))      # repeated field / repeated name
            else: f.append((rng.choice(FIELD_NAMES), _echo_value(rng, bb, P)))
        forms.append((f, b))
    return forms


def echo_part(res, rng, tier, P):
    """POST /form-multipart-enctype-post-method with a browser-shaped body: the answer is 200 and its body is, part for part and in
    order, `<name> is <value> CRLF` (the controller's own format) — the round trip of the property observed at the echo.  Malformed
    bodies of the three shapes of the statement must not be answered 200.  All of it against the server model as well."""
    from vlib import serve as S, servecheck as K
    quick = tier == 'quick'
    tree = S.gen_tree(rng, small=True)
    entries = ['proc', 'preq', 'aexec', 'aexecl']
    cases, wants = [], []

    def render(f, b, rng):
        bb = b.encode()
        body = b''
        for name, value in f:
            cd = 'form-data; name="%s"' % name
            if rng.chance(1, 4): cd = rng.choice(['form-data; name="%s"; filename="a.txt"', 'form-data; filename="b c.bin"; name="%s"', 'form-data; name=%s', 'form-data;name="%s"']) % name
            hs = [(rng.choice(CD_SPELLINGS), cd)]
            k = rng.below(6)
            if k == 0: hs.append(('Content-Type', 'text/plain; charset=utf-8'))
            elif k == 1: hs.insert(0, ('Content-Type', 'application/octet-stream'))
            elif k == 2: hs = [('X-First', 'form-data; name="wrong"'), ('Content-Type', 'text/plain')] + hs + [('Content-Transfer-Encoding', 'binary')]
            hl = [n.encode() + b': ' + v.encode() for n, v in hs]
            if any(bb in x for x in hl): return None               # the boundary occurs in a header line: outside the hypothesis class
            body += b'--' + bb + CRLF + b''.join(x + CRLF for x in hl) + CRLF + value + CRLF
        return body + b'--' + bb + b'--' + (CRLF if rng.chance(3, 4) else b'')

    def post(b, body, entry, kind, want, quoted=None):
        q = (not all(ch in P.ALNUM + '-' for ch in b)) if quoted is None else quoted
        ct = 'multipart/form-data; boundary=' + ('"' + b + '"' if q else b)
        hdrs = [('Host', 'localhost'), ('Content-Type', ct)]
        if rng.chance(1, 2): hdrs.append(('Content-Length', str(len(body))))
        if rng.chance(1, 3): hdrs.reverse()
        cases.append(K.mk(tree, 'POST', '/form-multipart-enctype-post-method', hdrs, body, entry=entry, kind=kind)); wants.append(want)

    def ok_form(f, b):
        bb = b.encode()
        if not P.text_ok(b) or '"' in b: return False
        for name, value in f:
            if bb in value or bb in ('Content-Disposition: form-data; name="%s"' % name).encode(): return False
        return True

    for f, b in echo_forms(rng, quick, P):
        if not ok_form(f, b): continue
        body = render(f, b, rng)
        if body is None: continue
        want = b''.join(n.encode() + b' is ' + v + b' \r\n' for n, v in f)
        small = len(body) < 8000
        for e in (entries if rng.chance(1, 4) else [rng.choice(entries)]):
            if not small and e in ('proc', 'preq'): continue       # the request buffer of the server loop is C04's matter
            post(b, body, e, 'echo', want, quoted=(True if rng.chance(1, 6) else None))
    # values up to 64 KiB (the application handler has no request buffer in front of it)
    for n in ([4096, 8192, 65536] if quick else [255, 256, 4095, 4096, 4097, 8191, 8192, 8193, 9999, 10000, 10001, 16384, 65535, 65536]):
        b = P.gen_boundary(rng, 'webkit'); bb = b.encode()
        v = P.scrub(''.join(rng.choice(P.ALNUM + ' -\r\n') for _ in range(n)).encode(), bb)
        f = [('a', b'x'), ('big', v), ('z', b'')]
        for e in ('aexec', 'aexecl'):
            post(b, render(f, b, rng) or b'', e, 'echo big value', b''.join(nm.encode() + b' is ' + vv + b' \r\n' for nm, vv in f))
    # malformed bodies at the echo: not 200
    for i in range(30 if quick else 1000):
        b = P.gen_boundary(rng, rng.choice(['webkit', 'gecko', 'plain', 'lead'])); bb = b.encode()
        f = [(rng.choice(FIELD_NAMES[:10]), _echo_value(rng, bb, P)[:40]) for _ in range(rng.range(1, 4))]
        if not ok_form(f, b): continue
        parts = [b'--' + bb + CRLF + b'Content-Disposition: form-data; name="' + n.encode() + b'"' + CRLF + CRLF + v + CRLF for n, v in f]
        close = b'--' + bb + b'--' + CRLF
        j = rng.below(len(parts))
        shapes = [('no-open', b''.join([parts[0][len(bb) + 4:]] + parts[1:]) + close),
                  ('no-open', b'preamble' + CRLF + b''.join(parts) + close),
                  ('no-close', b''.join(parts)),
                  ('no-close', b''.join(parts) + b'--' + bb[:-1]),
                  ('headerless', b''.join(parts[:j] + [b'--' + bb + CRLF + CRLF + b'v' + CRLF] + parts[j + 1:]) + close)]
        label, body = rng.choice(shapes)
        if label == 'no-open' and not P.no_open_shape(body, bb): continue
        post(b, body, rng.choice(entries), 'echo malformed ' + label, None)
    # values that are not UTF-8, parts without a field name, no Content-Disposition: differential only
    for i in range(20 if quick else 600):
        b = P.gen_boundary(rng, 'webkit'); bb = b.encode()
        hs = rng.choice([b'Content-Disposition: form-data; name="a"', b'Content-Disposition: form-data', b'Content-Type: text/plain', b'Content-Disposition: attachment; filename="x"',
                         b'Content-Disposition: inline', b'Content-Disposition: form-data; name="a"; x=y', b'Content-Disposition: form-data; filename="x"', b'Content-Disposition: form-data; name',
                         b'Content-Disposition: form-data; name="a"; filename="b"; name="c"', b'Content-Disposition:form-data; name="a"', b'Content-Disposition: FORM-DATA; name="a"'])
        v = rng.choice([b'v', b'\xff', b'\xc3', b'a\xe2\x80', b'\xed\xa0\x80', P.scrub(rng.bytes(20), bb)])
        post(b, b'--' + bb + CRLF + hs + CRLF + CRLF + v + CRLF + b'--' + bb + b'--' + CRLF, rng.choice(entries), 'echo other', False)

    # second audit (props/c16_features.py): decoy header names, multi-byte texts in every alignment, part headers a new feature would
    # read, real clients' boundaries, two and three requests in a row with related boundaries
    def post_parts(b, parts, entry, kind, fields, raw=None):
        bb = b.encode()
        if not P.text_ok(b) or '"' in b: return
        if raw is None:
            body = b''
            for hs, value in parts:
                hl = [n.encode() + b': ' + v.encode() for n, v in hs]
                if bb in value or any(bb in x for x in hl): return        # outside the hypothesis class
                body += b'--' + bb + CRLF + b''.join(x + CRLF for x in hl) + CRLF + value + CRLF
            body += b'--' + bb + b'--' + CRLF
        else: body = raw
        if len(body) >= 8000 and entry in ('proc', 'preq'): entry = 'aexec'    # the request buffer of the server loop is C04's matter
        want = fields if fields in (None, False) else b''.join(n.encode() + b' is ' + v + b' \r\n' for n, v in fields)
        post(b, body, entry, kind, want)
    from props import c16_features as F
    F.echo_extra(rng.fork('second audit'), quick, P, {'entries': entries, 'post_parts': post_parts})

    results = K.run_batches([(tree, cases)], with_model=True)
    for (c, r, il, ml), want in zip(results, wants):
        res.evaluations += 1; res.programs += 1
        res.distinct.add(hash((c.entry, c.raw)))
        short = c.line if len(c.line) < 400 else c.line[:400] + '…'
        if il != ml: res.disagree(short, il[:300], (ml or '')[:300], 'multipart echo controller')
        if r['head'].startswith(('panic', 'abort')):
            res.fail('echo-panic', short, r['head'], None, 'the multipart echo endpoint panicked'); continue
        res.count(c.kind + ' via ' + c.entry)
        if want is False: continue
        resp, why = K.parse_resp(r['writes'][0] if r['writes'] else b'')
        if resp is None: continue      # framing of the answer: C05
        if want is None:
            if resp['status'] == 200:
                res.fail('echo-accepts-' + c.kind.split()[-1], short, f'status 200 body {resp["body"][:120]!r}', None,
                         'a malformed multipart body (%s) was answered 200 at the echo endpoint' % c.kind.split()[-1])
        elif resp['status'] != 200 or resp['body'] != want:
            res.fail('echo-roundtrip', short, f'status {resp["status"]} body {resp["body"][:160]!r}', None,
                     'the echo of a browser-shaped form is not its fields, part for part and in order: expected %r' % want[:160])
    return len(cases)
